(* C14/Proofs2D.v — toFactors' out-parameter overload; FactoredMatrix2D weights = flat weighted sum. *)
From Coq Require Import List Arith Lia QArith Lqa.
From AIT Require Import C14.Model C14.Spec C14.Proofs C14.ProofsEnum C14.ModelAlg C14.SpecAlg C14.ProofsAlg
  C14.ModelDDN C14.SpecDDN C14.ProofsDDN C14.Model2D C14.Spec2D.
Import ListNotations.
Local Open Scope Q_scope.

(* every entry of the reused buffer is overwritten: the result does not depend on its old content *)
Theorem toFactorsOut_lemma : forall space id out, (length space <= length out)%nat ->
  toFactorsOut space id out = toFactors space id ++ skipn (length space) out.
Proof.
  induction space as [|sp space IH]; intros id out H; cbn [toFactorsOut toFactors length skipn app]; [reflexivity|].
  destruct out as [|o out]; cbn [length] in H; [lia|]. cbn [skipn]. rewrite IH by lia. reflexivity.
Qed.

Theorem toFactorsOut_overwrites_lemma : forall space id out, length out = length space ->
  toFactorsOut space id out = toFactors space id.
Proof.
  intros space id out H. rewrite toFactorsOut_lemma by lia. rewrite <- H, skipn_all. apply app_nil_r.
Qed.

(* ---------------------------------------------------------------- 2D ---- *)
Lemma bm_value_entry2 : forall SS AA b s a, bm_value SS AA b s a = entry2 SS AA b s a.
Proof. intros. unfold bm_value, entry2, mat_get. rewrite !toIndexPartial_radix. reflexivity. Qed.

Lemma getValue2D_go : forall SS AA fm s a acc,
  fold_left (fun x b => x + bm_value SS AA b s a) fm acc == acc + flat2 SS AA fm s a.
Proof.
  intros SS AA fm s a; induction fm as [|b t IH]; intros acc; cbn [fold_left flat2]; [lra|].
  rewrite IH, bm_value_entry2. lra.
Qed.

Theorem getValue2D_flat_lemma : forall SS AA fm s a, getValue2D SS AA fm s a == flat2 SS AA fm s a.
Proof. intros. unfold getValue2D. rewrite getValue2D_go. lra. Qed.

Lemma bm_map_value : forall SS AA b s a (f : Q -> Q),
  bm_wf SS AA b -> in_space SS s -> in_space AA a ->
  bm_value SS AA (bm_map f b) s a = f (bm_value SS AA b s a).
Proof.
  intros SS AA b s a f [Ht [Hat [Hrows Hcols]]] Hs Ha. unfold bm_value, bm_map, mat_get. cbn [bmTag bmActionTag bmVals].
  destruct (partial_roundtrip_factors_lemma (bmTag b) SS s (in_space_sub SS s _ Hs Ht)) as [_ Hr].
  destruct (partial_roundtrip_factors_lemma (bmActionTag b) AA a (in_space_sub AA a _ Ha Hat)) as [_ Hc].
  change (@nil Q) with (map f (@nil Q)) at 1. rewrite (map_nth (map f)).
  apply nth_map_in. rewrite Forall_forall in Hcols. rewrite (Hcols (nth (toIndexPartial (bmTag b) SS s) (bmVals b) [])).
  - exact Hc.
  - apply nth_In. rewrite Hrows. exact Hr.
Qed.

Lemma scaleW2D_go_flat : forall SS AA s a add toAdd fm w, fm_wf SS AA fm -> in_space SS s -> in_space AA a ->
  (length fm <= length w)%nat ->
  flat2 SS AA (scaleW2D_go fm w add toAdd) s a == wsum2 SS AA fm s a w + (if add then nQ (length fm) * toAdd else 0).
Proof.
  intros SS AA s a add toAdd fm; induction fm as [|b t IH]; intros w Hwf Hs Ha Hl.
  - cbn [scaleW2D_go flat2 wsum2 length]. unfold nQ. change (inject_Z (Z.of_nat 0)) with 0. destruct w; destruct add; lra.
  - inversion Hwf; subst. destruct w as [|wi wt]; [cbn [length] in Hl; lia|].
    cbn [scaleW2D_go flat2 wsum2 length tl]. cbn [length] in Hl. rewrite IH by (try assumption; lia).
    rewrite <- (bm_value_entry2 SS AA (bm_map _ _)). rewrite bm_map_value by assumption.
    rewrite <- bm_value_entry2. unfold qnth. cbn [nth]. destruct add; [rewrite nQ_S|]; lra.
Qed.

Theorem scaleW2D_flat_lemma : forall SS AA fm w s a,
  fm_wf SS AA fm -> in_space SS s -> in_space AA a ->
  (length w = length fm \/ (length w = S (length fm) /\ fm <> [])) ->
  flat2 SS AA (scaleW2D fm w) s a ==
  wsum2 SS AA fm s a w + (if (length w =? S (length fm))%nat then nth (length fm) w 0 else 0).
Proof.
  intros SS AA fm w s a Hwf Hs Ha Hl. unfold scaleW2D. rewrite scaleW2D_go_flat by (try assumption; lia).
  destruct Hl as [Hl|[Hl Hne]].
  - replace (length w =? S (length fm))%nat with false by (symmetry; apply Nat.eqb_neq; lia). lra.
  - replace (length w =? S (length fm))%nat with true by (symmetry; apply Nat.eqb_eq; lia).
    replace (length w - 1)%nat with (length fm) by lia. unfold qnth.
    assert (Hn : ~ nQ (length fm) == 0).
    { destruct fm; [congruence|]. cbn [length]. rewrite nQ_S. unfold nQ.
      pose proof (Nat2Z.is_nonneg (length fm)) as Hz.
      rewrite Zle_Qle in Hz. change (inject_Z 0) with 0 in Hz. lra. }
    fold (nQ (length fm)). field. exact Hn.
Qed.

Lemma getValueW2D_go_spec : forall SS AA s a fm w acc, (length fm <= length w)%nat ->
  getValueW2D_go SS AA fm s a w acc == acc + wsum2 SS AA fm s a w.
Proof.
  intros SS AA s a fm; induction fm as [|b t IH]; intros w acc Hl; cbn [getValueW2D_go wsum2]; [lra|].
  destruct w as [|wi wt]; [cbn [length] in Hl; lia|]. cbn [tl]. cbn [length] in Hl.
  rewrite IH by lia. rewrite bm_value_entry2. unfold qnth. cbn [nth]. lra.
Qed.

Theorem getValueW2D_spec_lemma : forall SS AA fm w s a, (length fm <= length w)%nat ->
  getValueW2D SS AA fm s a w ==
  wsum2 SS AA fm s a w + (if (length w =? S (length fm))%nat then nth (length fm) w 0 else 0).
Proof.
  intros. unfold getValueW2D. rewrite getValueW2D_go_spec by assumption. unfold qnth.
  destruct (length w =? S (length fm))%nat; lra.
Qed.

Theorem scale2D_flat_lemma : forall SS AA fm v s a, fm_wf SS AA fm -> in_space SS s -> in_space AA a ->
  flat2 SS AA (scale2D fm v) s a == v * flat2 SS AA fm s a.
Proof.
  intros SS AA fm v s a Hwf Hs Ha. induction Hwf as [|b t Hb Ht IH]; cbn [scale2D map flat2]; [lra|].
  fold (scale2D t v). rewrite IH. rewrite <- (bm_value_entry2 SS AA (bm_map _ _)).
  rewrite bm_map_value by assumption. rewrite <- bm_value_entry2. lra.
Qed.

(* CooperativeModel::sampleSRs: the reward vector holds, per basis, the entry selected by (s, a) — the
   action restricted to the basis' action tag in the ACTION space — and sums to the flat reward *)
Theorem sampleSRs_rewards_lemma : forall SS AA rewards s a,
  sampleSRs_rewards SS AA rewards s a = map (fun b => entry2 SS AA b s a) rewards /\
  qsum (sampleSRs_rewards SS AA rewards s a) == flat2 SS AA rewards s a /\
  expectedReward SS AA rewards s a == flat2 SS AA rewards s a.
Proof.
  intros SS AA rewards s a. unfold sampleSRs_rewards, expectedReward. split; [|split].
  - apply map_ext. intros b. apply bm_value_entry2.
  - unfold qsum. induction rewards as [|b t IH]; cbn [map fold_right flat2]; [reflexivity|].
    rewrite IH, bm_value_entry2. reflexivity.
  - apply getValue2D_flat_lemma.
Qed.
