(* C14/Proofs2D.v — toFactors' out-parameter overload; FactoredMatrix2D weights = flat weighted sum. *)
From Coq Require Import List Arith Lia QArith Lqa.
From AIT Require Import C14.Model C14.Spec C14.Proofs C14.ProofsEnum C14.ModelAlg C14.SpecAlg C14.ProofsAlg
  C14.ModelDDN C14.SpecDDN C14.ProofsDDN C14.Model2D C14.Spec2D.
Import ListNotations.
Local Open Scope Q_scope.

(* every entry of the reused buffer is overwritten: the result does not depend on its old content *)
Theorem toFactorsOut_lemma : forall space id out, (length space <= length out)%nat ->
  toFactorsOut space id out = toFactors space id ++ skipn (length space) out.
Proof.
  induction space as [|sp space IH]; intros id out H; cbn [toFactorsOut toFactors length skipn app]; [reflexivity|].
  destruct out as [|o out]; cbn [length] in H; [lia|]. cbn [skipn]. rewrite IH by lia. reflexivity.
Qed.

Theorem toFactorsOut_overwrites_lemma : forall space id out, length out = length space ->
  toFactorsOut space id out = toFactors space id.
Proof.
  intros space id out H. rewrite toFactorsOut_lemma by lia. rewrite <- H, skipn_all. apply app_nil_r.
Qed.

(* ---------------------------------------------------------------- 2D ---- *)
Lemma bm_value_entry2 : forall SS AA b s a, bm_value SS AA b s a = entry2 SS AA b s a.
Proof. intros. unfold bm_value, entry2, mat_get. rewrite !toIndexPartial_radix. reflexivity. Qed.

Lemma getValue2D_go : forall SS AA fm s a acc,
  fold_left (fun x b => x + bm_value SS AA b s a) fm acc == acc + flat2 SS AA fm s a.
Proof.
  intros SS AA fm s a; induction fm as [|b t IH]; intros acc; cbn [fold_left flat2]; [lra|].
  rewrite IH, bm_value_entry2. lra.
Qed.

Theorem getValue2D_flat_lemma : forall SS AA fm s a, getValue2D SS AA fm s a == flat2 SS AA fm s a.
Proof. intros. unfold getValue2D. rewrite getValue2D_go. lra. Qed.

Lemma bm_map_value : forall SS AA b s a (f : Q -> Q),
  bm_wf SS AA b -> in_space SS s -> in_space AA a ->
  bm_value SS AA (bm_map f b) s a = f (bm_value SS AA b s a).
Proof.
  intros SS AA b s a f [Ht [Hat [Hrows Hcols]]] Hs Ha. unfold bm_value, bm_map, mat_get. cbn [bmTag bmActionTag bmVals].
  destruct (partial_roundtrip_factors_lemma (bmTag b) SS s (in_space_sub SS s _ Hs Ht)) as [_ Hr].
  destruct (partial_roundtrip_factors_lemma (bmActionTag b) AA a (in_space_sub AA a _ Ha Hat)) as [_ Hc].
  change (@nil Q) with (map f (@nil Q)) at 1. rewrite (map_nth (map f)).
  apply nth_map_in. rewrite Forall_forall in Hcols. rewrite (Hcols (nth (toIndexPartial (bmTag b) SS s) (bmVals b) [])).
  - exact Hc.
  - apply nth_In. rewrite Hrows. exact Hr.
Qed.

Lemma scaleW2D_go_flat : forall SS AA s a add toAdd fm w, fm_wf SS AA fm -> in_space SS s -> in_space AA a ->
  (length fm <= length w)%nat ->
  flat2 SS AA (scaleW2D_go fm w add toAdd) s a == wsum2 SS AA fm s a w + (if add then nQ (length fm) * toAdd else 0).
Proof.
  intros SS AA s a add toAdd fm; induction fm as [|b t IH]; intros w Hwf Hs Ha Hl.
  - cbn [scaleW2D_go flat2 wsum2 length]. unfold nQ. change (inject_Z (Z.of_nat 0)) with 0. destruct w; destruct add; lra.
  - inversion Hwf; subst. destruct w as [|wi wt]; [cbn [length] in Hl; lia|].
    cbn [scaleW2D_go flat2 wsum2 length tl]. cbn [length] in Hl. rewrite IH by (try assumption; lia).
    rewrite <- (bm_value_entry2 SS AA (bm_map _ _)). rewrite bm_map_value by assumption.
    rewrite <- bm_value_entry2. unfold qnth. cbn [nth]. destruct add; [rewrite nQ_S|]; lra.
Qed.

Theorem scaleW2D_flat_lemma : forall SS AA fm w s a,
  fm_wf SS AA fm -> in_space SS s -> in_space AA a ->
  (length w = length fm \/ (length w = S (length fm) /\ fm <> [])) ->
  flat2 SS AA (scaleW2D fm w) s a ==
  wsum2 SS AA fm s a w + (if (length w =? S (length fm))%nat then nth (length fm) w 0 else 0).
Proof.
  intros SS AA fm w s a Hwf Hs Ha Hl. unfold scaleW2D. rewrite scaleW2D_go_flat by (try assumption; lia).
  destruct Hl as [Hl|[Hl Hne]].
  - replace (length w =? S (length fm))%nat with false by (symmetry; apply Nat.eqb_neq; lia). lra.
  - replace (length w =? S (length fm))%nat with true by (symmetry; apply Nat.eqb_eq; lia).
    replace (length w - 1)%nat with (length fm) by lia. unfold qnth.
    assert (Hn : ~ nQ (length fm) == 0).
    { destruct fm; [congruence|]. cbn [length]. rewrite nQ_S. unfold nQ.
      pose proof (Nat2Z.is_nonneg (length fm)) as Hz.
      rewrite Zle_Qle in Hz. change (inject_Z 0) with 0 in Hz. lra. }
    fold (nQ (length fm)). field. exact Hn.
Qed.

Lemma getValueW2D_go_spec : forall SS AA s a fm w acc, (length fm <= length w)%nat ->
  getValueW2D_go SS AA fm s a w acc == acc + wsum2 SS AA fm s a w.
Proof.
  intros SS AA s a fm; induction fm as [|b t IH]; intros w acc Hl; cbn [getValueW2D_go wsum2]; [lra|].
  destruct w as [|wi wt]; [cbn [length] in Hl; lia|]. cbn [tl]. cbn [length] in Hl.
  rewrite IH by lia. rewrite bm_value_entry2. unfold qnth. cbn [nth]. lra.
Qed.

Theorem getValueW2D_spec_lemma : forall SS AA fm w s a, (length fm <= length w)%nat ->
  getValueW2D SS AA fm s a w ==
  wsum2 SS AA fm s a w + (if (length w =? S (length fm))%nat then nth (length fm) w 0 else 0).
Proof.
  intros. unfold getValueW2D. rewrite getValueW2D_go_spec by assumption. unfold qnth.
  destruct (length w =? S (length fm))%nat; lra.
Qed.

Theorem scale2D_flat_lemma : forall SS AA fm v s a, fm_wf SS AA fm -> in_space SS s -> in_space AA a ->
  flat2 SS AA (scale2D fm v) s a == v * flat2 SS AA fm s a.
Proof.
  intros SS AA fm v s a Hwf Hs Ha. induction Hwf as [|b t Hb Ht IH]; cbn [scale2D map flat2]; [lra|].
  fold (scale2D t v). rewrite IH. rewrite <- (bm_value_entry2 SS AA (bm_map _ _)).
  rewrite bm_map_value by assumption. rewrite <- bm_value_entry2. lra.
Qed.

(* CooperativeModel::sampleSRs: the reward vector holds, per basis, the entry selected by (s, a) — the
   action restricted to the basis' action tag in the ACTION space — and sums to the flat reward *)
Theorem sampleSRs_rewards_lemma : forall SS AA rewards s a,
  sampleSRs_rewards SS AA rewards s a = map (fun b => entry2 SS AA b s a) rewards /\
  qsum (sampleSRs_rewards SS AA rewards s a) == flat2 SS AA rewards s a /\
  expectedReward SS AA rewards s a == flat2 SS AA rewards s a.
Proof.
  intros SS AA rewards s a. unfold sampleSRs_rewards, expectedReward. split; [|split].
  - apply map_ext. intros b. apply bm_value_entry2.
  - unfold qsum. induction rewards as [|b t IH]; cbn [map fold_right flat2]; [reflexivity|].
    rewrite IH, bm_value_entry2. reflexivity.
  - apply getValue2D_flat_lemma.
Qed.

(* ---------------------------------------------------------------- 2D plusEqual ---- *)
Lemma zipk_length : forall (X Y : Type) (op : X -> Y -> X) a (b : list Y), length (zipk op a b) = length a.
Proof. intros X Y op a; induction a as [|x a IH]; intros [|y b]; cbn [zipk length]; try reflexivity. rewrite IH. reflexivity. Qed.

Lemma zipk_nth : forall (X Y : Type) (op : X -> Y -> X) a (b : list Y) (dx : X) (dy : Y) i,
  (i < length a)%nat -> (i < length b)%nat -> nth i (zipk op a b) dx = op (nth i a dx) (nth i b dy).
Proof.
  intros X Y op a; induction a as [|x a IH]; intros [|y b] dx dy i Ha Hb; cbn [length] in *; try lia.
  cbn [zipk]. destruct i; cbn [nth]; [reflexivity| apply IH; lia].
Qed.

Lemma zipk_Forall_length : forall (Y : Type) (op : list Q -> Y -> list Q) a (b : list Y) n,
  Forall (fun row => length row = n) a -> (forall row y, length (op row y) = length row) ->
  Forall (fun row => length row = n) (zipk op a b).
Proof.
  intros Y op a; induction a as [|x a IH]; intros [|y b] n H Hop; cbn [zipk]; try assumption.
  inversion H; subst. constructor; [rewrite Hop; reflexivity | apply IH; assumption].
Qed.

Definition bm_ne (b : bm) : Prop := bmTag b <> [] /\ bmActionTag b <> [].

Lemma plusEqualSubset2D_value : forall SS AA ret rhs s a,
  bm_wf SS AA ret -> bm_wf SS AA rhs -> bm_ne ret ->
  subseq (bmTag rhs) (bmTag ret) -> subseq (bmActionTag rhs) (bmActionTag ret) ->
  in_space SS s -> in_space AA a ->
  bm_value SS AA (plusEqualSubset2D SS AA ret rhs) s a = bm_value SS AA ret s a + bm_value SS AA rhs s a
  /\ bm_wf SS AA (plusEqualSubset2D SS AA ret rhs) /\ bm_ne (plusEqualSubset2D SS AA ret rhs).
Proof.
  intros SS AA ret rhs s a [Ht [Hat [Hrows Hcols]]] [Ht' [Hat' [Hrows' Hcols']]] [Hne Hane] Hsub Hasub Hs Ha.
  destruct (partial_roundtrip_factors_lemma (bmTag ret) SS s (in_space_sub SS s _ Hs Ht)) as [Hrr Hr].
  destruct (partial_roundtrip_factors_lemma (bmActionTag ret) AA a (in_space_sub AA a _ Ha Hat)) as [Hcr Hc].
  pose proof (tag_ok_keys_pos SS s _ Hs Ht) as Hk. pose proof (tag_ok_keys_pos AA a _ Ha Hat) as Hka.
  set (r := toIndexPartial (bmTag ret) SS s) in *. set (cidx := toIndexPartial (bmActionTag ret) AA a) in *.
  assert (Hrowlen : length (nth r (bmVals ret) []) = factorSpacePartial (bmActionTag ret) AA).
  { rewrite Forall_forall in Hcols. apply Hcols. apply nth_In. rewrite Hrows. exact Hr. }
  unfold plusEqualSubset2D.
  destruct ((length (bmTag ret) =? length (bmTag rhs))%nat && (length (bmActionTag ret) =? length (bmActionTag rhs))%nat)%bool eqn:E.
  - apply andb_prop in E. destruct E as [E1 E2]. apply Nat.eqb_eq in E1. apply Nat.eqb_eq in E2.
    assert (Heq : bmTag rhs = bmTag ret) by (apply subseq_same_length; [assumption|lia]).
    assert (Haeq : bmActionTag rhs = bmActionTag ret) by (apply subseq_same_length; [assumption|lia]).
    split; [|split].
    + unfold bm_value, mat_get. cbn [bmTag bmActionTag bmVals]. rewrite Heq, Haeq. fold r. fold cidx.
      rewrite (zipk_nth _ _ (zipk Qplus) _ _ [] []) by (try rewrite Hrows; try rewrite Hrows', Heq; assumption).
      assert (Hrowlen' : length (nth r (bmVals rhs) []) = factorSpacePartial (bmActionTag ret) AA).
      { rewrite Forall_forall in Hcols'. rewrite <- Haeq. apply Hcols'. apply nth_In. rewrite Hrows', Heq. exact Hr. }
      apply (zipk_nth _ _ Qplus _ _ 0 0); [rewrite Hrowlen | rewrite Hrowlen']; assumption.
    + unfold bm_wf. cbn [bmTag bmActionTag bmVals]. rewrite zipk_length. repeat split; try assumption.
      apply zipk_Forall_length; [assumption| intros; apply zipk_length].
    + split; assumption.
  - split; [|split].
    + unfold bm_value at 1, mat_get. cbn [bmTag bmActionTag bmVals]. fold r. fold cidx.
      rewrite (zipk_nth _ _ _ _ _ [] (@nil nat)).
      * rewrite (zipk_nth _ _ _ _ _ 0 (@nil nat)).
        -- rewrite !enum_assignments_spec by assumption.
           rewrite (nth_indep (map (toFactorsPartial (bmTag ret) SS) (seq 0 (factorSpacePartial (bmTag ret) SS))) [] (toFactorsPartial (bmTag ret) SS 0)) by (rewrite map_length, seq_length; assumption).
           rewrite (nth_indep (map (toFactorsPartial (bmActionTag ret) AA) (seq 0 (factorSpacePartial (bmActionTag ret) AA))) [] (toFactorsPartial (bmActionTag ret) AA 0))
             by (rewrite map_length, seq_length; assumption).
           rewrite !map_nth, !seq_nth by assumption. cbn [Nat.add]. rewrite Hrr, Hcr.
           rewrite !idx_of_subseq by assumption. reflexivity.
        -- rewrite Hrowlen; assumption.
        -- rewrite enum_assignments_spec, map_length, seq_length by assumption. assumption.
      * rewrite Hrows; assumption.
      * rewrite enum_assignments_spec, map_length, seq_length by assumption. assumption.
    + unfold bm_wf. cbn [bmTag bmActionTag bmVals]. rewrite zipk_length. repeat split; try assumption.
      apply zipk_Forall_length; [assumption| intros; apply zipk_length].
    + split; assumption.
Qed.

Definition fm_ok (SS AA : list nat) (fm : fmat) : Prop := Forall (fun b => bm_wf SS AA b /\ bm_ne b) fm.

Theorem plusEqual2D_flat_lemma : forall SS AA fm b s a,
  fm_ok SS AA fm -> bm_wf SS AA b -> bm_ne b -> in_space SS s -> in_space AA a ->
  flat2 SS AA (plusEqual2D SS AA fm b) s a == flat2 SS AA fm s a + entry2 SS AA b s a
  /\ fm_ok SS AA (plusEqual2D SS AA fm b).
Proof.
  intros SS AA fm b s a Hfm Hb Hbne Hs Ha. unfold plusEqual2D.
  assert (Hgo : forall fm, fm_ok SS AA fm ->
            match plusEqual2D_go SS AA b fm with
            | Some r => flat2 SS AA r s a == flat2 SS AA fm s a + entry2 SS AA b s a /\ fm_ok SS AA r
            | None => True
            end).
  { clear fm Hfm. induction fm as [|cur rest IH]; intros Hfm; cbn [plusEqual2D_go]; [exact I|].
    inversion Hfm as [|? ? [Hc Hcne] Hrest]; subst.
    set (bigger := (length (bmTag b) <=? length (bmTag cur))%nat).
    destruct ((length (bmActionTag (if bigger then b else cur)) <=? length (bmActionTag (if bigger then cur else b)))%nat
              && sorted_contains (bmActionTag (if bigger then cur else b)) (bmActionTag (if bigger then b else cur))
              && sorted_contains (bmTag (if bigger then cur else b)) (bmTag (if bigger then b else cur)))%bool eqn:E.
    - apply andb_prop in E. destruct E as [E E3]. apply andb_prop in E. destruct E as [_ E2].
      apply sorted_contains_subseq in E2. apply sorted_contains_subseq in E3.
      destruct bigger.
      + destruct (plusEqualSubset2D_value SS AA cur b s a Hc Hb Hcne E3 E2 Hs Ha) as [Hv [Hw Hn]].
        cbn [flat2]. rewrite <- !bm_value_entry2, Hv. split; [lra | constructor; [split; assumption | assumption]].
      + destruct (plusEqualSubset2D_value SS AA b cur s a Hb Hc Hbne E3 E2 Hs Ha) as [Hv [Hw Hn]].
        cbn [flat2]. rewrite <- !bm_value_entry2, Hv. split; [lra | constructor; [split; assumption | assumption]].
    - specialize (IH Hrest). destruct (plusEqual2D_go SS AA b rest) as [r|]; [|exact I].
      destruct IH as [H1 H2]. cbn [flat2]. rewrite H1. split; [lra | constructor; [split; assumption | assumption]]. }
  specialize (Hgo fm Hfm). destruct (plusEqual2D_go SS AA b fm) as [r|].
  - exact Hgo.
  - split.
    + induction fm as [|c t IH]; cbn [app flat2]; [lra|]. inversion Hfm; subst. rewrite IH by assumption. lra.
    + unfold fm_ok in *. apply Forall_app. split; [assumption | constructor; [split; assumption | constructor]].
Qed.

Theorem plusEqualFM_flat_lemma : forall SS AA rhs fm s a,
  fm_ok SS AA fm -> fm_ok SS AA rhs -> in_space SS s -> in_space AA a ->
  flat2 SS AA (plusEqualFM SS AA fm rhs) s a == flat2 SS AA fm s a + flat2 SS AA rhs s a
  /\ fm_ok SS AA (plusEqualFM SS AA fm rhs).
Proof.
  intros SS AA rhs; induction rhs as [|b t IH]; intros fm s a Hfm Hr Hs Ha; unfold plusEqualFM in *; cbn [fold_left flat2].
  - split; [lra|assumption].
  - inversion Hr as [|? ? [Hb Hbne] Ht]; subst.
    destruct (plusEqual2D_flat_lemma SS AA fm b s a Hfm Hb Hbne Hs Ha) as [G1 G2].
    destruct (IH (plusEqual2D SS AA fm b) s a G2 Ht Hs Ha) as [G3 G4].
    split; [rewrite G3, G1; lra | assumption].
Qed.
