(* C14/Proofs.v *)
From Coq Require Import List Arith Lia.
From AIT Require Import C14.Model C14.Spec.
Import ListNotations.

Lemma toIndex_go_spec : forall space f mult acc,
  length f <= length space ->
  toIndex_go space f mult acc = acc + mult * radix_value space f.
Proof.
  induction space as [|sp space IH]; intros f mult acc Hl.
  - destruct f; cbn in *; lia.
  - destruct f as [|x f]; cbn [toIndex_go radix_value]; [lia|].
    cbn in Hl. rewrite IH by lia. nia.
Qed.

Lemma toIndex_spec : forall space f, length f <= length space -> toIndex space f = radix_value space f.
Proof. intros. unfold toIndex. rewrite toIndex_go_spec by assumption. lia. Qed.

Lemma radix_value_lt : forall space f, in_space space f -> radix_value space f < factorSpace space.
Proof.
  intros space f H. induction H as [|sp x space f Hx H IH]; cbn [radix_value factorSpace]; [lia|].
  nia.
Qed.

Lemma toFactors_in_space : forall space id, Forall (fun sp => 0 < sp) space -> in_space space (toFactors space id).
Proof.
  induction space as [|sp space IH]; intros id Hp; cbn [toFactors]; [constructor|].
  inversion Hp; subst. constructor; [apply Nat.mod_upper_bound; lia | apply IH; assumption].
Qed.

Lemma radix_toFactors : forall space id, Forall (fun sp => 0 < sp) space -> id < factorSpace space ->
  radix_value space (toFactors space id) = id.
Proof.
  induction space as [|sp space IH]; intros id Hp Hlt; cbn [toFactors radix_value factorSpace] in *; [lia|].
  inversion Hp; subst.
  rewrite IH; [| assumption | apply Nat.div_lt_upper_bound; lia].
  pose proof (Nat.div_mod id sp ltac:(lia)). lia.
Qed.

Lemma toFactors_radix : forall space f, in_space space f -> toFactors space (radix_value space f) = f.
Proof.
  intros space f H. induction H as [|sp x space f Hx H IH]; cbn [radix_value toFactors]; [reflexivity|].
  f_equal.
  - rewrite (Nat.mul_comm sp), Nat.mod_add by lia. apply Nat.mod_small; assumption.
  - rewrite (Nat.mul_comm sp), Nat.div_add by lia.
    rewrite (Nat.div_small x sp) by assumption. cbn [Nat.add]. exact IH.
Qed.

Lemma in_space_length : forall space f, in_space space f -> length f = length space.
Proof. intros space f H; induction H; cbn; congruence. Qed.

Lemma toFactors_length : forall space id, length (toFactors space id) = length space.
Proof. induction space; intros; cbn; auto. Qed.

Theorem toIndex_toFactors_lemma : forall space id,
  Forall (fun sp => 0 < sp) space -> id < factorSpace space ->
  toIndex space (toFactors space id) = id /\ in_space space (toFactors space id).
Proof.
  intros space id Hp Hlt. split; [| apply toFactors_in_space; assumption].
  rewrite toIndex_spec by (rewrite toFactors_length; lia). apply radix_toFactors; assumption.
Qed.

Theorem toFactors_toIndex_lemma : forall space f, in_space space f ->
  toFactors space (toIndex space f) = f /\ toIndex space f < factorSpace space.
Proof.
  intros space f H. rewrite toIndex_spec by (rewrite (in_space_length _ _ H); lia).
  split; [apply toFactors_radix | apply radix_value_lt]; assumption.
Qed.

(* ---- partial versions reduce to the full ones on the sub-space [sub ids space] ---- *)
Lemma toIndexPartial_go_sub : forall ids space f mult acc,
  toIndexPartial_go ids space f mult acc = toIndex_go (sub ids space) (sub ids f) mult acc.
Proof. induction ids as [|k ids IH]; intros; cbn; [reflexivity| apply IH]. Qed.

Lemma toIndexPartial_sub : forall ids space f, toIndexPartial ids space f = toIndex (sub ids space) (sub ids f).
Proof. intros; apply toIndexPartial_go_sub. Qed.

Lemma toFactorsPartial_sub : forall ids space id, toFactorsPartial ids space id = toFactors (sub ids space) id.
Proof. induction ids as [|k ids IH]; intros; cbn; [reflexivity| f_equal; apply IH]. Qed.

Lemma factorSpacePartial_sub : forall ids space, factorSpacePartial ids space = factorSpace (sub ids space).
Proof. induction ids as [|k ids IH]; intros; cbn; [reflexivity| f_equal; apply IH]. Qed.

Lemma toIndexPartialPF_go_eq : forall keys vals space mult acc, length vals = length keys ->
  toIndexPartialPF_go keys vals space mult acc = toIndex_go (sub keys space) vals mult acc.
Proof.
  induction keys as [|k ks IH]; intros [|v vs] space mult acc Hl; cbn in *; try reflexivity; try discriminate.
  apply IH; lia.
Qed.

Theorem partial_roundtrip_index_lemma : forall ids space id,
  Forall (fun k => 0 < nth k space 0) ids -> id < factorSpacePartial ids space ->
  toIndexPartialPF space ids (toFactorsPartial ids space id) = id /\
  in_space (sub ids space) (toFactorsPartial ids space id).
Proof.
  intros ids space id Hp Hlt.
  rewrite factorSpacePartial_sub in Hlt. rewrite toFactorsPartial_sub.
  unfold toIndexPartialPF. rewrite toIndexPartialPF_go_eq by (rewrite toFactors_length; unfold sub; now rewrite map_length).
  apply toIndex_toFactors_lemma; [| assumption].
  unfold sub. apply Forall_forall. intros x Hx. apply in_map_iff in Hx. destruct Hx as [k [<- Hk]].
  rewrite Forall_forall in Hp. apply Hp; assumption.
Qed.

Theorem partial_roundtrip_factors_lemma : forall ids space f,
  in_space (sub ids space) (sub ids f) ->
  toFactorsPartial ids space (toIndexPartial ids space f) = sub ids f /\
  toIndexPartial ids space f < factorSpacePartial ids space.
Proof.
  intros ids space f H. rewrite toFactorsPartial_sub, toIndexPartial_sub, factorSpacePartial_sub.
  apply toFactors_toIndex_lemma; assumption.
Qed.
