(* C14/SpecAlg.v — the flat expansion of factored vectors: the value at a full joint assignment is
   the sum over the bases of the entry selected by the assignment restricted to the basis' tag. *)
From Coq Require Import List Arith QArith.
From AIT Require Import C14.Model C14.Spec C14.ModelAlg.
Import ListNotations.
Local Open Scope Q_scope.

(* entry of a basis selected by the full assignment x: position = mixed-radix value of x restricted
   to the tag (Spec.radix_value over the sub-space) *)
Definition entry (space : list nat) (b : bf) (x : list nat) : Q :=
  nth (radix_value (sub (bfTag b) space) (sub (bfTag b) x)) (bfVals b) 0.

(* flat fv x = Σ_bases values[index of x restricted to the tag] *)
Fixpoint flat (space : list nat) (fv : fvec) (x : list nat) : Q :=
  match fv with
  | [] => 0
  | b :: t => entry space b x + flat space t x
  end.

(* Σ_i w_i * b_i(x) *)
Fixpoint wsum (space : list nat) (fv : fvec) (x : list nat) (w : list Q) : Q :=
  match fv, w with
  | b :: t, wi :: wt => wi * entry space b x + wsum space t x wt
  | _, _ => 0
  end.

(* well-formed basis: non-empty tag of in-range factor ids, one value per partial assignment *)
Definition tag_ok (space tag : list nat) : Prop := Forall (fun k => (k < length space)%nat) tag.
Definition bf_wf (space : list nat) (b : bf) : Prop :=
  bfTag b <> [] /\ tag_ok space (bfTag b) /\ length (bfVals b) = factorSpacePartial (bfTag b) space.
Definition fv_wf (space : list nat) (fv : fvec) : Prop := Forall (bf_wf space) fv.
