(* C14/ProofsDDN.v — DDN transition probability = product of local probabilities; sums to one. *)
From Coq Require Import List Arith Lia QArith Lqa.
From AIT Require Import C14.Model C14.Spec C14.Proofs C14.ModelAlg C14.SpecAlg C14.ProofsAlg C14.ProofsCore C14.ModelDDN C14.SpecDDN.
Import ListNotations.
Local Open Scope Q_scope.

(* ---------------------------------------------------------------- sums and products ---- *)
Lemma qsum_map_ext : forall (A : Type) (l : list A) (f g : A -> Q),
  (forall x, In x l -> f x == g x) -> qsum (map f l) == qsum (map g l).
Proof.
  intros A l f g; unfold qsum; induction l as [|x l IH]; intros H; cbn [map fold_right]; [reflexivity|].
  rewrite IH by (intros y Hy; apply H; right; assumption). rewrite (H x) by (left; reflexivity). reflexivity.
Qed.

Lemma qsum_map_scale_r : forall (A : Type) (l : list A) (f : A -> Q) c,
  qsum (map (fun x => f x * c) l) == qsum (map f l) * c.
Proof.
  intros A l f c; unfold qsum; induction l as [|x l IH]; cbn [map fold_right]; [ring|].
  rewrite IH. ring.
Qed.

Lemma qsum_map_scale_l : forall (A : Type) (l : list A) (f : A -> Q) c,
  qsum (map (fun x => c * f x) l) == c * qsum (map f l).
Proof.
  intros A l f c; unfold qsum; induction l as [|x l IH]; cbn [map fold_right]; [ring|].
  rewrite IH. ring.
Qed.

Lemma qsum_app : forall a b, qsum (a ++ b) == qsum a + qsum b.
Proof.
  intros a b; unfold qsum; induction a as [|x a IH]; cbn [app fold_right]; [ring|].
  rewrite IH. ring.
Qed.

Lemma qsum_flat_map : forall (A B : Type) (h : B -> Q) (F : A -> list B) (l : list A),
  qsum (map h (flat_map F l)) == qsum (map (fun x => qsum (map h (F x))) l).
Proof.
  intros A B h F l; induction l as [|x l IH]; cbn [flat_map map]; [reflexivity|].
  rewrite map_app, qsum_app. rewrite IH. unfold qsum at 3. cbn [fold_right]. reflexivity.
Qed.

Lemma fold_left_prod : forall (A : Type) (m : A -> Q) (l : list A) acc,
  fold_left (fun acc i => acc * m i) l acc == acc * qprod (map m l).
Proof.
  intros A m l; unfold qprod; induction l as [|x l IH]; intros acc; cbn [fold_left map fold_right]; [ring|].
  rewrite IH. ring.
Qed.

(* Σ over all joint assignments of a product of per-factor terms = product of the per-factor sums *)
Lemma sum_prod : forall sizes (f : nat -> nat -> Q),
  qsum (map (fun x => qprod (map (fun k => f k (nth k x 0%nat)) (seq 0 (length sizes)))) (all_assign sizes))
  == qprod (map (fun k => qsum (map (f k) (seq 0 (nth k sizes 0%nat)))) (seq 0 (length sizes))).
Proof.
  induction sizes as [|sp t IH]; intros f.
  - cbn. ring.
  - cbn [all_assign length]. rewrite qsum_flat_map.
    set (G := fun tl : list nat => qprod (map (fun k => f (S k) (nth k tl 0%nat)) (seq 0 (length t)))).
    set (S0 := qsum (map (f 0%nat) (seq 0 sp))).
    assert (Hin : forall tl, qsum (map (fun x => qprod (map (fun k => f k (nth k x 0%nat)) (seq 0 (S (length t)))))
                                       (map (fun v => v :: tl) (seq 0 sp))) == S0 * G tl).
    { intros tl. rewrite map_map.
      rewrite (qsum_map_ext _ _ _ (fun v => f 0%nat v * G tl)).
      - rewrite qsum_map_scale_r. reflexivity.
      - intros v _. cbn [seq map qprod fold_right nth]. rewrite <- seq_shift, map_map. reflexivity. }
    rewrite (qsum_map_ext _ _ _ (fun tl => S0 * G tl)) by (intros tl _; apply Hin).
    rewrite qsum_map_scale_l. unfold G. rewrite (IH (fun k => f (S k))).
    cbn [seq map qprod fold_right nth]. rewrite <- seq_shift, map_map. reflexivity.
Qed.

(* ---------------------------------------------------------------- row lookup ---- *)
Lemma startIds_prefix : forall S feats acc aid, (aid <= length feats)%nat ->
  nth aid (startIds_go S feats acc) 0%nat =
  (acc + fold_right Nat.add 0%nat (map (fun f => factorSpace (sub f S)) (firstn aid feats)))%nat.
Proof.
  intros S feats; induction feats as [|f t IH]; intros acc aid H; cbn [length] in H.
  - replace aid with 0%nat by lia. cbn. lia.
  - destruct aid as [|aid]; cbn [startIds_go nth firstn map fold_right]; [lia|].
    rewrite IH by lia. rewrite factorSpacePartial_sub. lia.
Qed.

Lemma toIndexPartial_radix : forall ids space x,
  toIndexPartial ids space x = radix_value (sub ids space) (sub ids x).
Proof. intros. rewrite toIndexPartial_sub. apply toIndex_spec. rewrite !sub_length. lia. Qed.

Lemma getId_local_row : forall g i s a,
  graph_wf g -> graph_complete g -> (i < length (gS g))%nat ->
  (action_id g i a < length (psFeatures (nth i (gParents g) emptyPS)))%nat ->
  getId g i s a = local_row g i s a.
Proof.
  intros g i s a Hwf Hc Hi Ha. unfold getId, getIds, getId3, local_row.
  rewrite !toIndexPartial_radix. fold (action_id g i a).
  rewrite Hwf.
  rewrite (nth_indep _ [] ((fun ps => startIds_go (gS g) (psFeatures ps) 0) emptyPS))
    by (rewrite map_length; unfold graph_complete in Hc; lia).
  rewrite (map_nth (fun ps => startIds_go (gS g) (psFeatures ps) 0)).
  rewrite startIds_prefix by lia. lia.
Qed.

Theorem ddn_product_lemma : forall g T s a s1,
  graph_wf g -> graph_complete g -> action_in_range g a ->
  getTransitionProbability g T s a s1 ==
  qprod (map (fun i => local_prob g T i s a (nth i s1 0%nat)) (seq 0 (length (gS g)))).
Proof.
  intros g T s a s1 Hwf Hc Ha. unfold getTransitionProbability. rewrite fold_left_prod.
  rewrite (map_ext_in _ (fun i => local_prob g T i s a (nth i s1 0%nat))).
  - ring.
  - intros i Hi. apply in_seq in Hi. unfold mat_get, local_prob.
    rewrite getId_local_row by (try assumption; try lia; apply Ha; lia). reflexivity.
Qed.

Lemma all_assign_length : forall sizes x, In x (all_assign sizes) -> length x = length sizes.
Proof.
  induction sizes as [|sp t IH]; intros x H; cbn [all_assign] in H.
  - destruct H as [<-|[]]. reflexivity.
  - apply in_flat_map in H. destruct H as [tl [Htl Hx]]. apply in_map_iff in Hx. destruct Hx as [v [<- _]].
    cbn [length]. rewrite (IH tl Htl). reflexivity.
Qed.

Theorem ddn_sums_to_one_lemma : forall g T s a,
  graph_wf g -> graph_complete g -> action_in_range g a -> rows_stochastic g T s a ->
  qsum (map (getTransitionProbability g T s a) (all_assign (gS g))) == 1.
Proof.
  intros g T s a Hwf Hc Ha Hrows.
  rewrite (qsum_map_ext _ _ _ (fun s1 => qprod (map (fun i => local_prob g T i s a (nth i s1 0%nat)) (seq 0 (length (gS g))))))
    by (intros s1 _; apply ddn_product_lemma; assumption).
  rewrite (sum_prod (gS g) (fun i v => local_prob g T i s a v)).
  assert (Hall : forall l, (forall i, In i l -> (i < length (gS g))%nat) ->
            qprod (map (fun k => qsum (map (local_prob g T k s a) (seq 0 (nth k (gS g) 0%nat)))) l) == 1).
  { induction l as [|k l IH]; intros Hl; cbn [map qprod fold_right]; [reflexivity|].
    fold (qprod (map (fun k => qsum (map (local_prob g T k s a) (seq 0 (nth k (gS g) 0%nat)))) l)).
    rewrite IH by (intros i Hi; apply Hl; right; assumption).
    rewrite (Hrows k) by (apply Hl; left; reflexivity). ring. }
  apply Hall. intros i Hi. apply in_seq in Hi. lia.
Qed.

(* graphs built by push satisfy graph_wf *)
Lemma graph_new_wf : forall S A, graph_wf (graph_new S A).
Proof. intros. reflexivity. Qed.

Lemma graph_push_wf : forall g p g', graph_wf g -> graph_push g p = PushOk g' ->
  graph_wf g' /\ gS g' = gS g /\ gA g' = gA g /\ gParents g' = gParents g ++ [p].
Proof.
  intros g p g' Hwf H. unfold graph_push in H.
  destruct (length (gParents g) =? length (gS g))%nat; [discriminate|].
  destruct (negb (tag_is_ok (gA g) (psAgents p))); [discriminate|].
  destruct (negb (length (psFeatures p) =? factorSpacePartial (psAgents p) (gA g))%nat); [discriminate|].
  destruct (negb (forallb (tag_is_ok (gS g)) (psFeatures p))); [discriminate|].
  inversion H; subst; clear H. unfold graph_wf in *. cbn [gS gA gParents gStart].
  repeat split. rewrite map_app, Hwf. reflexivity.
Qed.

(* all_assign is the enumeration in index order *)
Lemma all_assign_index_order : forall sizes, Forall (fun sp => (0 < sp)%nat) sizes ->
  all_assign sizes = map (toFactors sizes) (seq 0 (factorSpace sizes)).
Proof.
  induction sizes as [|sp t IH]; intros Hp; [reflexivity|].
  inversion Hp as [|? ? Hsp Ht]; subst. cbn [all_assign factorSpace]. rewrite (IH Ht). clear IH.
  generalize (factorSpace t) as n. intros n.
  (* flat_map over map (toFactors t) (seq 0 n), prepend each v < sp:  index = v + sp * q *)
  assert (Hgen : forall start,
    flat_map (fun tl => map (fun v => v :: tl) (seq 0 sp)) (map (toFactors t) (seq start n)) =
    map (toFactors (sp :: t)) (seq (sp * start) (sp * n))).
  { induction n as [|n IHn]; intros start.
    - rewrite Nat.mul_0_r. reflexivity.
    - cbn [seq map flat_map]. rewrite IHn.
      replace (sp * S n)%nat with (sp + sp * n)%nat by lia. rewrite seq_app, map_app.
      replace (sp * start + sp)%nat with (sp * S start)%nat by lia. f_equal.
      rewrite <- (Nat.add_0_l (sp * start)) at 1.
      rewrite <- (seq_shift_add sp 0 (sp * start)) || idtac.
      apply nth_ext with (d := []) (d' := []).
      + rewrite !map_length, !seq_length. reflexivity.
      + intros k Hk. rewrite map_length, seq_length in Hk.
        rewrite (nth_indep _ [] ((fun v => v :: toFactors t start) 0%nat)) by (rewrite map_length, seq_length; assumption).
        rewrite (map_nth (fun v => v :: toFactors t start)). rewrite seq_nth by assumption.
        rewrite (nth_indep _ [] (toFactors (sp :: t) 0%nat)) by (rewrite map_length, seq_length; assumption).
        rewrite (map_nth (toFactors (sp :: t))). rewrite seq_nth by assumption.
        cbn [toFactors Nat.add]. f_equal.
        * symmetry. rewrite Nat.add_comm, Nat.mul_comm, Nat.mod_add by lia. apply Nat.mod_small; assumption.
        * f_equal. rewrite Nat.add_comm, Nat.mul_comm, Nat.div_add by lia. rewrite Nat.div_small by assumption. reflexivity. }
  specialize (Hgen 0%nat). rewrite Nat.mul_0_r in Hgen. exact Hgen.
Qed.

(* ---------------------------------------------------------------- graphs built by push ---- *)
(* what push validates for a parent set *)
Definition ps_valid (S A : list nat) (p : parentSet) : Prop :=
  tag_is_ok A (psAgents p) = true /\
  length (psFeatures p) = factorSpacePartial (psAgents p) A /\
  forallb (tag_is_ok S) (psFeatures p) = true.

Inductive graph_built : ddnGraph -> Prop :=
| gb_new : forall S A, graph_built (graph_new S A)
| gb_push : forall g p g', graph_built g -> graph_push g p = PushOk g' -> graph_built g'.

Lemma graph_push_valid : forall g p g', graph_push g p = PushOk g' -> ps_valid (gS g) (gA g) p.
Proof.
  intros g p g' H. unfold graph_push in H.
  destruct (length (gParents g) =? length (gS g))%nat; [discriminate|].
  destruct (tag_is_ok (gA g) (psAgents p)) eqn:E1; cbn [negb] in H; [|discriminate].
  destruct (length (psFeatures p) =? factorSpacePartial (psAgents p) (gA g))%nat eqn:E2; cbn [negb] in H; [|discriminate].
  destruct (forallb (tag_is_ok (gS g)) (psFeatures p)) eqn:E3; cbn [negb] in H; [|discriminate].
  apply Nat.eqb_eq in E2. repeat split; assumption.
Qed.

Lemma graph_built_props : forall g, graph_built g ->
  graph_wf g /\ Forall (ps_valid (gS g) (gA g)) (gParents g).
Proof.
  intros g H; induction H as [S A|g p g' Hb [IHwf IHv] Hp].
  - split; [apply graph_new_wf | constructor].
  - destruct (graph_push_wf g p g' IHwf Hp) as [Hwf [HS [HA HP]]].
    split; [assumption|]. rewrite HS, HA, HP. apply Forall_app. split; [assumption|].
    constructor; [eapply graph_push_valid; eassumption | constructor].
Qed.

Lemma tag_is_ok_sound : forall space tag, tag_is_ok space tag = true ->
  tag <> [] /\ strict tag /\ tag_ok space tag.
Proof.
  intros space tag H. unfold tag_is_ok in H. apply checkTag_ok_iff_lemma.
  destruct (fst (checkTag space tag)); try discriminate. reflexivity.
Qed.

Theorem built_action_in_range : forall g a,
  graph_built g -> graph_complete g -> in_space (gA g) a -> action_in_range g a.
Proof.
  intros g a Hb Hc Ha i Hi. destruct (graph_built_props g Hb) as [_ Hv].
  unfold graph_complete in Hc. rewrite Forall_forall in Hv.
  specialize (Hv (nth i (gParents g) emptyPS) ltac:(apply nth_In; lia)). destruct Hv as [H1 [H2 _]].
  destruct (tag_is_ok_sound _ _ H1) as [_ [_ Hok]].
  unfold action_id. rewrite H2, factorSpacePartial_sub.
  apply radix_value_lt. apply in_space_sub; assumption.
Qed.

Theorem ddn_product_built_lemma : forall g T s a s1,
  graph_built g -> graph_complete g -> in_space (gA g) a ->
  getTransitionProbability g T s a s1 ==
  qprod (map (fun i => local_prob g T i s a (nth i s1 0%nat)) (seq 0 (length (gS g)))).
Proof.
  intros g T s a s1 Hb Hc Ha. apply ddn_product_lemma; [apply graph_built_props; assumption | assumption |].
  apply built_action_in_range; assumption.
Qed.

Theorem ddn_sums_to_one_built_lemma : forall g T s a,
  graph_built g -> graph_complete g -> in_space (gA g) a -> rows_stochastic g T s a ->
  qsum (map (getTransitionProbability g T s a) (all_assign (gS g))) == 1.
Proof.
  intros g T s a Hb Hc Ha Hr. apply ddn_sums_to_one_lemma; [apply graph_built_props; assumption | assumption | | assumption].
  apply built_action_in_range; assumption.
Qed.
