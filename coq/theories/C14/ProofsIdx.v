(* C14/ProofsIdx.v — PartialIndexEnumerator visits, in increasing order, exactly the indices whose
   digit for the fixed factor equals the requested value. *)
From Coq Require Import List Arith Lia.
From AIT Require Import C14.Model C14.Spec C14.Proofs C14.ProofsEnum.
Import ListNotations.

Section Machine.
  Variables L s val M : nat.
  Hypothesis HL : 0 < L.
  Hypothesis Hs : 0 < s.
  Hypothesis Hval : val < s.

  Definition P (i : nat) : bool := (i / L) mod s =? val.

  Definition st (c l : nat) : pie := mkPie (L - 1) (L * s) (L * val) (L * (c * s + val)) l M.

  Lemma P_in_block : forall c l, l < L -> P (L * (c * s + val) + l) = true.
  Proof.
    intros c l Hl. unfold P. apply Nat.eqb_eq.
    assert (Hd : (L * (c * s + val) + l) / L = c * s + val).
    { symmetry. apply (Nat.div_unique _ L (c * s + val) l); lia. }
    rewrite Hd. symmetry. apply (Nat.mod_unique _ s c val); lia.
  Qed.

  Lemma P_gap : forall c i, L * (c * s + val) + L <= i -> i < L * ((S c) * s + val) -> P i = false.
  Proof.
    intros c i H1 H2. unfold P. apply Nat.eqb_neq. intros E.
    pose proof (Nat.div_mod i L ltac:(lia)) as Hi. pose proof (Nat.mod_upper_bound i L ltac:(lia)) as Hm.
    set (q := i / L) in *.
    assert (Hq1 : c * s + val + 1 <= q).
    { destruct (le_lt_dec (c * s + val + 1) q) as [|Hlt]; [assumption|exfalso].
      assert (L * q <= L * (c * s + val)) by (apply Nat.mul_le_mono_l; lia). lia. }
    assert (Hq2 : q < S c * s + val).
    { destruct (le_lt_dec (S c * s + val) q) as [Hle|]; [exfalso|assumption].
      assert (L * (S c * s + val) <= L * q) by (apply Nat.mul_le_mono_l; lia). lia. }
    pose proof (Nat.div_mod q s ltac:(lia)) as Hq. rewrite E in Hq.
    set (m := q / s) in *.
    destruct (le_lt_dec m c) as [Hmc|Hmc].
    - assert (s * m <= s * c) by (apply Nat.mul_le_mono_l; lia). lia.
    - assert (s * (S c) <= s * m) by (apply Nat.mul_le_mono_l; lia). lia.
  Qed.

  Lemma P_before : forall i, i < L * val -> P i = false.
  Proof.
    intros i H. unfold P. apply Nat.eqb_neq.
    assert (Hq : i / L < val) by (apply Nat.div_lt_upper_bound; lia).
    rewrite Nat.mod_small by lia. lia.
  Qed.

  Lemma filter_none_seq : forall a n, (forall i, a <= i -> i < a + n -> P i = false) -> filter P (seq a n) = [].
  Proof.
    intros a n; revert a; induction n as [|n IH]; intros a H; cbn [seq filter]; [reflexivity|].
    rewrite (H a) by lia. apply IH. intros i H1 H2. apply H; lia.
  Qed.

  Lemma machine_visits : forall n c l fuel, l < L ->
    M - (L * (c * s + val) + l) <= n -> n < fuel ->
    pie_visit fuel (st c l) = Some (filter P (seq (L * (c * s + val) + l) (M - (L * (c * s + val) + l)))).
  Proof.
    induction n as [|n IH]; intros c l fuel Hl Hn Hf; (destruct fuel as [|fuel]; [lia|]); cbn [pie_visit].
    - unfold pie_isValid, pie_get, st. cbn [pieCurr pieCurrLen pieMax].
      replace (L * (c * s + val) + l <? M) with false by (symmetry; apply Nat.ltb_ge; lia).
      replace (M - (L * (c * s + val) + l)) with 0 by lia. reflexivity.
    - unfold pie_isValid, pie_get. unfold st at 1 2 3. cbn [pieCurr pieCurrLen pieMax].
      set (g := L * (c * s + val) + l) in *.
      destruct (g <? M) eqn:Ev.
      2:{ apply Nat.ltb_ge in Ev. replace (M - g) with 0 by lia. reflexivity. }
      apply Nat.ltb_lt in Ev.
      replace (M - g) with (S (M - g - 1)) by lia. cbn [seq filter].
      assert (HPg : P g = true) by (apply P_in_block; assumption). rewrite HPg.
      unfold pie_advance, st. cbn [pieCurrLen pieLen pieSkipN pieOffset pieCurr pieMax].
      destruct (l <? L - 1) eqn:El.
      + apply Nat.ltb_lt in El. fold (st c (S l)).
        rewrite (IH c (S l) fuel) by (fold g; lia).
        replace (L * (c * s + val) + S l) with (S g) by (unfold g; lia).
        replace (M - S g) with (M - g - 1) by lia. reflexivity.
      + apply Nat.ltb_ge in El. assert (l = L - 1) by lia.
        replace (L * (c * s + val) + L * s) with (L * (S c * s + val)) by nia.
        fold (st (S c) 0).
        rewrite (IH (S c) 0 fuel) by (try lia; unfold g in *; nia).
        rewrite Nat.add_0_r. set (g' := L * (S c * s + val)).
        assert (Hgg : S g + (L * s - L) = g') by (unfold g, g'; nia).
        f_equal. f_equal.
        destruct (le_lt_dec g' M) as [Hle|Hgt].
        * replace (M - g - 1) with ((L * s - L) + (M - g')) by lia.
          rewrite seq_app, filter_app, Hgg.
          rewrite (filter_none_seq (S g) (L * s - L)); [reflexivity|].
          intros i H1 H2. apply (P_gap c); unfold g in *; [lia | fold g'; lia].
        * replace (M - g') with 0 by lia. cbn [seq filter]. symmetry.
          apply filter_none_seq. intros i H1 H2. apply (P_gap c); unfold g in *; [lia | fold g'; lia].
  Qed.

  Theorem machine_spec : forall fuel, M < fuel ->
    pie_visit fuel (mkPie (L - 1) (L * s) (L * val) (L * val) 0 M) = Some (filter P (seq 0 M)).
  Proof.
    intros fuel Hf.
    assert (E0 : L * (0 * s + val) + 0 = L * val) by lia.
    replace (mkPie (L - 1) (L * s) (L * val) (L * val) 0 M) with (st 0 0) by (unfold st; f_equal; lia).
    rewrite (machine_visits M 0 0 fuel HL ltac:(lia) Hf). rewrite E0. f_equal.
    destruct (le_lt_dec (L * val) M) as [Hle|Hgt].
    - assert (EM : seq 0 M = seq 0 (L * val) ++ seq (L * val) (M - L * val)).
      { replace M with (L * val + (M - L * val)) at 1 by lia. rewrite seq_app. reflexivity. }
      rewrite EM, filter_app.
      rewrite (filter_none_seq 0 (L * val)); [reflexivity|]. intros i _ Hi. apply P_before; lia.
    - replace (M - L * val) with 0 by lia. cbn [seq filter]. symmetry.
      apply filter_none_seq. intros i _ Hi. apply P_before; lia.
  Qed.
End Machine.

(* ---------------------------------------------------------------- linking to the keys ---- *)
Lemma fsp_app : forall F a b, factorSpacePartial (a ++ b) F = factorSpacePartial a F * factorSpacePartial b F.
Proof. intros F a b; induction a as [|k a IH]; cbn [app factorSpacePartial]; [lia| rewrite IH; lia]. Qed.

Lemma pie_len_go_pre : forall F fixed pre rest acc,
  Forall (fun k => k < fixed) pre -> (match rest with [] => True | k :: _ => fixed <= k end) ->
  pie_len_go F (pre ++ rest) fixed acc = acc * factorSpacePartial pre F.
Proof.
  intros F fixed pre; induction pre as [|k pre IH]; intros rest acc Hp Hr; cbn [app pie_len_go factorSpacePartial].
  - destruct rest as [|k rest]; cbn [pie_len_go]; [lia|].
    replace (k <? fixed) with false by (symmetry; apply Nat.ltb_ge; exact Hr). lia.
  - inversion Hp; subst. replace (k <? fixed) with true by (symmetry; apply Nat.ltb_lt; assumption).
    rewrite IH by assumption. lia.
Qed.

Lemma digit_at : forall F pre fixed post i, keys_pos F pre ->
  nth (length pre) (toFactorsPartial (pre ++ fixed :: post) F i) 0 = (i / factorSpacePartial pre F) mod nth fixed F 0.
Proof.
  intros F pre fixed post; induction pre as [|k pre IH]; intros i Hk; cbn [app length toFactorsPartial nth factorSpacePartial].
  - rewrite Nat.div_1_r. reflexivity.
  - inversion Hk; subst. rewrite IH by assumption. rewrite Nat.div_div; [reflexivity | lia |].
    pose proof (fsp_pos F pre ltac:(assumption)). lia.
Qed.

Lemma filter_ext_seq : forall (f g : nat -> bool) a n, (forall i, f i = g i) -> filter f (seq a n) = filter g (seq a n).
Proof. intros. apply filter_ext. assumption. Qed.

(* keys' = pre ++ fixed :: post with every key of pre below fixed and the next one above it *)
Theorem index_enumerator_present_lemma : forall F pre fixed post val fuel,
  Forall (fun k => k < fixed) pre -> keys_pos F (pre ++ fixed :: post) -> val < nth fixed F 0 ->
  factorSpacePartial (pre ++ fixed :: post) F < fuel ->
  pie_visit fuel (pie_make F (pre ++ fixed :: post) fixed val false) =
  Some (index_enum_spec F (pre ++ fixed :: post) (length pre) val).
Proof.
  intros F pre fixed post val fuel Hpre Hk Hval Hf.
  assert (Hkp : keys_pos F pre) by (unfold keys_pos in *; apply Forall_app in Hk; tauto).
  assert (Hs : 0 < nth fixed F 0) by lia.
  pose proof (fsp_pos F pre Hkp) as HL.
  unfold pie_make. rewrite pie_len_go_pre by (try assumption; lia). rewrite Nat.mul_1_l.
  rewrite (machine_spec _ _ _ _ HL Hs Hval fuel Hf).
  unfold index_enum_spec. f_equal. apply filter_ext. intros i. unfold P. rewrite digit_at by assumption. reflexivity.
Qed.

Theorem index_enumerator_missing_lemma : forall F pre fixed post val fuel,
  Forall (fun k => k < fixed) pre -> (match post with [] => True | k :: _ => fixed <= k end) ->
  keys_pos F (pre ++ fixed :: post) -> val < nth fixed F 0 ->
  factorSpacePartial (pre ++ fixed :: post) F < fuel ->
  pie_visit fuel (pie_make F (pre ++ post) fixed val true) =
  Some (index_enum_spec F (pre ++ fixed :: post) (length pre) val).
Proof.
  intros F pre fixed post val fuel Hpre Hpost Hk Hval Hf.
  assert (Hkp : keys_pos F pre) by (unfold keys_pos in *; apply Forall_app in Hk; tauto).
  assert (Hs : 0 < nth fixed F 0) by lia.
  pose proof (fsp_pos F pre Hkp) as HL.
  unfold pie_make. rewrite pie_len_go_pre by assumption. rewrite Nat.mul_1_l.
  assert (HM : factorSpacePartial (pre ++ post) F * nth fixed F 0 = factorSpacePartial (pre ++ fixed :: post) F).
  { rewrite !fsp_app. cbn [factorSpacePartial]. lia. }
  rewrite HM.
  rewrite (machine_spec _ _ _ _ HL Hs Hval fuel Hf).
  unfold index_enum_spec. f_equal. apply filter_ext. intros i. unfold P. rewrite digit_at by assumption. reflexivity.
Qed.

(* the all-factors constructor, in terms of toFactors *)
Lemma in_firstn : forall (n : nat) (l : list nat) x, In x (firstn n l) -> In x l.
Proof.
  induction n as [|n IH]; intros l x H; cbn [firstn] in H; [destruct H|].
  destruct l as [|y l]; [destruct H|]. destruct H as [<-|H]; [left; reflexivity | right; apply IH; exact H].
Qed.

Lemma digit_at_all : forall F fixed i, Forall (fun sp => 0 < sp) F -> fixed < length F ->
  nth fixed (toFactors F i) 0 = (i / factorSpace (firstn fixed F)) mod nth fixed F 0.
Proof.
  induction F as [|sp F IH]; intros fixed i Hp Hf; cbn [length] in Hf; [lia|].
  inversion Hp; subst. destruct fixed as [|fixed]; cbn [toFactors nth firstn factorSpace].
  - rewrite Nat.div_1_r. reflexivity.
  - rewrite IH by (try assumption; lia). rewrite Nat.div_div; [reflexivity | lia |].
    assert (Hpos : forall l, Forall (fun sp => 0 < sp) l -> 0 < factorSpace l).
    { induction l as [|x l IHl]; intros Hl; cbn [factorSpace]; [lia|]. inversion Hl; subst. specialize (IHl ltac:(assumption)). nia. }
    assert (Forall (fun sp => 0 < sp) (firstn fixed F)).
    { rewrite Forall_forall in *. intros x Hx. apply H2. eapply in_firstn. exact Hx. }
    specialize (Hpos _ H). lia.
Qed.

Theorem index_enumerator_all_lemma : forall F fixed val fuel,
  Forall (fun sp => 0 < sp) F -> fixed < length F -> val < nth fixed F 0 -> factorSpace F < fuel ->
  pie_visit fuel (pie_make_all F fixed val) =
  Some (filter (fun i => nth fixed (toFactors F i) 0 =? val) (seq 0 (factorSpace F))).
Proof.
  intros F fixed val fuel Hp Hf Hval Hfu. unfold pie_make_all.
  assert (HL : 0 < factorSpace (firstn fixed F)).
  { assert (Hpos : forall l, Forall (fun sp => 0 < sp) l -> 0 < factorSpace l).
    { induction l as [|x l IHl]; intros Hl; cbn [factorSpace]; [lia|]. inversion Hl; subst. specialize (IHl ltac:(assumption)). nia. }
    apply Hpos. rewrite Forall_forall in *. intros x Hx. apply Hp. eapply in_firstn. exact Hx. }
  assert (Hs : 0 < nth fixed F 0) by lia.
  rewrite (machine_spec _ _ _ _ HL Hs Hval fuel Hfu). f_equal. apply filter_ext. intros i.
  unfold P. rewrite digit_at_all by assumption. reflexivity.
Qed.
