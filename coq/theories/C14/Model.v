(* C14/Model.v — Gallina models of src/Factored/Utils/Core.cpp index arithmetic.
   size_t is modelled as unbounded nat (the property is not about wrap-around; factorSpace's
   overflow guard is outside the modelled range).  No proofs in this file. *)
From Coq Require Import List Arith.
Import ListNotations.

(* src: Core.cpp:factorSpace *)
Fixpoint factorSpace (space : list nat) : nat :=
  match space with [] => 1 | f :: t => f * factorSpace t end.

(* src: Core.cpp:toIndex(const Factors & space, const Factors & f)
   result += multiplier * f[i]; multiplier *= space[i]   (first factor least significant) *)
Fixpoint toIndex_go (space f : list nat) (mult acc : nat) : nat :=
  match f, space with
  | x :: f', sp :: space' => toIndex_go space' f' (mult * sp) (acc + mult * x)
  | _, _ => acc
  end.
Definition toIndex (space f : list nat) : nat := toIndex_go space f 1 0.

(* src: Core.cpp:toFactors(const Factors & space, size_t id, Factors * out) *)
Fixpoint toFactors (space : list nat) (id : nat) : list nat :=
  match space with
  | [] => []
  | sp :: space' => (id mod sp) :: toFactors space' (id / sp)
  end.

(* src: Core.cpp:factorSpacePartial *)
Fixpoint factorSpacePartial (ids space : list nat) : nat :=
  match ids with [] => 1 | id :: t => nth id space 0 * factorSpacePartial t space end.

(* src: Core.cpp:toIndexPartial(const PartialKeys & ids, const Factors & space, const Factors & f) *)
Fixpoint toIndexPartial_go (ids space f : list nat) (mult acc : nat) : nat :=
  match ids with
  | [] => acc
  | id :: t => toIndexPartial_go t space f (mult * nth id space 0) (acc + mult * nth id f 0)
  end.
Definition toIndexPartial (ids space f : list nat) : nat := toIndexPartial_go ids space f 1 0.

(* src: Core.hpp:toFactorsPartial(It begin, const PartialKeys & ids, const Factors & space, size_t id) *)
Fixpoint toFactorsPartial (ids space : list nat) (id : nat) : list nat :=
  match ids with
  | [] => []
  | k :: t => (id mod nth k space 0) :: toFactorsPartial t space (id / nth k space 0)
  end.

(* src: Core.cpp:toIndexPartial(const Factors & space, const PartialFactors & f)  (keys, values) *)
Fixpoint toIndexPartialPF_go (keys vals space : list nat) (mult acc : nat) : nat :=
  match keys, vals with
  | k :: ks, v :: vs => toIndexPartialPF_go ks vs space (mult * nth k space 0) (acc + mult * v)
  | _, _ => acc
  end.
Definition toIndexPartialPF (space keys vals : list nat) : nat := toIndexPartialPF_go keys vals space 1 0.
