(* C14/Model.v — Gallina models of src/Factored/Utils/Core.cpp index arithmetic.
   size_t is modelled as unbounded nat (the property is not about wrap-around; factorSpace's
   overflow guard is outside the modelled range).  No proofs in this file. *)
From Coq Require Import List Arith.
Import ListNotations.

(* src: Core.cpp:factorSpace *)
Fixpoint factorSpace (space : list nat) : nat :=
  match space with [] => 1 | f :: t => f * factorSpace t end.

(* src: Core.cpp:toIndex(const Factors & space, const Factors & f)
   result += multiplier * f[i]; multiplier *= space[i]   (first factor least significant) *)
Fixpoint toIndex_go (space f : list nat) (mult acc : nat) : nat :=
  match f, space with
  | x :: f', sp :: space' => toIndex_go space' f' (mult * sp) (acc + mult * x)
  | _, _ => acc
  end.
Definition toIndex (space f : list nat) : nat := toIndex_go space f 1 0.

(* src: Core.cpp:toFactors(const Factors & space, size_t id, Factors * out) *)
Fixpoint toFactors (space : list nat) (id : nat) : list nat :=
  match space with
  | [] => []
  | sp :: space' => (id mod sp) :: toFactors space' (id / sp)
  end.

(* src: Core.cpp:factorSpacePartial *)
Fixpoint factorSpacePartial (ids space : list nat) : nat :=
  match ids with [] => 1 | id :: t => nth id space 0 * factorSpacePartial t space end.

(* src: Core.cpp:toIndexPartial(const PartialKeys & ids, const Factors & space, const Factors & f) *)
Fixpoint toIndexPartial_go (ids space f : list nat) (mult acc : nat) : nat :=
  match ids with
  | [] => acc
  | id :: t => toIndexPartial_go t space f (mult * nth id space 0) (acc + mult * nth id f 0)
  end.
Definition toIndexPartial (ids space f : list nat) : nat := toIndexPartial_go ids space f 1 0.

(* src: Core.hpp:toFactorsPartial(It begin, const PartialKeys & ids, const Factors & space, size_t id) *)
Fixpoint toFactorsPartial (ids space : list nat) (id : nat) : list nat :=
  match ids with
  | [] => []
  | k :: t => (id mod nth k space 0) :: toFactorsPartial t space (id / nth k space 0)
  end.

(* src: Core.cpp:toIndexPartial(const Factors & space, const PartialFactors & f)  (keys, values) *)
Fixpoint toIndexPartialPF_go (keys vals space : list nat) (mult acc : nat) : nat :=
  match keys, vals with
  | k :: ks, v :: vs => toIndexPartialPF_go ks vs space (mult * nth k space 0) (acc + mult * v)
  | _, _ => acc
  end.
Definition toIndexPartialPF (space keys vals : list nat) : nat := toIndexPartialPF_go keys vals space 1 0.

(* ================================================================================================
   Part 1b — tag utilities and enumerators (src/Factored/Utils/Core.cpp)
   ================================================================================================ *)

(* src: Core.hpp:TagErrors *)
Inductive tagError := TENone | TENoElements | TETooManyElements | TEIdTooHigh | TENotSorted | TEDuplicates.

(* src: Core.cpp:checkTag — the loop over t = 1.. with previousV *)
Fixpoint checkTag_go (n : nat) (prev : nat) (t : nat) (rest : list nat) : tagError * nat :=
  match rest with
  | [] => (TENone, 0)
  | v :: rest' =>
      if n <=? v then (TEIdTooHigh, t)
      else if v <? prev then (TENotSorted, t)
      else if v =? prev then (TEDuplicates, t)
      else checkTag_go n v (S t) rest'
  end.
Definition checkTag (space tag : list nat) : tagError * nat :=
  match tag with
  | [] => (TENoElements, 0)
  | v0 :: rest =>
      if length space <? length tag then (TETooManyElements, 0)
      else if length space <=? v0 then (TEIdTooHigh, 0)
      else checkTag_go (length space) v0 1 rest
  end.

(* src: Core.cpp:removeFactor.  The first loop finds the first position i with key >= f; the
   element is dropped only if that key equals f. *)
Fixpoint removeFactor_go (keys vals : list nat) (f : nat) : option (list nat * list nat) :=
  match keys, vals with
  | k :: ks, v :: vs =>
      if k <? f then
        match removeFactor_go ks vs f with
        | Some (ks', vs') => Some (k :: ks', v :: vs')
        | None => None
        end
      else if k =? f then Some (ks, vs) else None
  | _, _ => None
  end.
Definition removeFactor (keys vals : list nat) (f : nat) : list nat * list nat :=
  match removeFactor_go keys vals f with Some r => r | None => (keys, vals) end.

(* src: Core.cpp:merge(const PartialKeys &, const PartialKeys &, matches ptr)  — also returns the
   list of (i, j) position pairs of common keys. *)
Fixpoint merge_keys_go (fuel : nat) (lhs rhs : list nat) (i j : nat) : list nat * list (nat * nat) :=
  match fuel with
  | 0 => ([], [])
  | S fuel' =>
    match lhs, rhs with
    | [], _ => (rhs, [])
    | _, [] => (lhs, [])
    | a :: lt, b :: rt =>
        if a =? b then let '(r, m) := merge_keys_go fuel' lt rt (S i) (S j) in (a :: r, (i, j) :: m)
        else if a <? b then let '(r, m) := merge_keys_go fuel' lt rhs (S i) j in (a :: r, m)
        else let '(r, m) := merge_keys_go fuel' lhs rt i (S j) in (b :: r, m)
    end
  end.
Definition merge_keys_matches (lhs rhs : list nat) : list nat * list (nat * nat) :=
  merge_keys_go (S (length lhs + length rhs)) lhs rhs 0 0.
Definition merge_keys (lhs rhs : list nat) : list nat := fst (merge_keys_matches lhs rhs).

(* src: Core.cpp:merge(const PartialFactors &, const PartialFactors &)  — on a common key the rhs
   value is the one pushed.  PartialFactors are lists of (key, value) pairs here. *)
Fixpoint merge_pf_go (fuel : nat) (lhs rhs : list (nat * nat)) : list (nat * nat) :=
  match fuel with
  | 0 => []
  | S fuel' =>
    match lhs, rhs with
    | [], _ => rhs
    | _, [] => lhs
    | (a, va) :: lt, (b, vb) :: rt =>
        if a <? b then (a, va) :: merge_pf_go fuel' lt rhs
        else (b, vb) :: merge_pf_go fuel' (if a =? b then lt else lhs) rt
    end
  end.
Definition merge_pf (lk lv rk rv : list nat) : list nat * list nat :=
  let r := merge_pf_go (S (length lk + length rk)) (combine lk lv) (combine rk rv) in
  (map fst r, map snd r).
(* src: Core.cpp:merge(const PartialKeys &, const PartialValues &, const PartialKeys &, const PartialValues &) *)
Definition merge_vals (lk lv rk rv : list nat) : list nat := snd (merge_pf lk lv rk rv).

(* src: Core.cpp:match(const PartialKeys & lhsK, const PartialValues & lhs, const PartialKeys & rhsK,
   const PartialValues & rhs): "while (j < smallerK->size() && i < biggerK->size())" (the bound on i
   is /repo commit ee4b2be).  The fuel |bigger| + |smaller| + 1 given by the wrapper always suffices
   (each iteration consumes a key); out of fuel returns true like the end of the loop. *)
Fixpoint match_go (fuel : nat) (bk bv sk sv : list nat) : bool :=
  match fuel with
  | 0 => true
  | S fuel' =>
    match sk, sv, bk, bv with
    | s :: skt, vs :: svt, b :: bkt, vb :: bvt =>
        if b <? s then match_go fuel' bkt bvt sk sv
        else if s <? b then match_go fuel' bk bv skt svt
        else if vb =? vs then match_go fuel' bkt bvt skt svt else false
    | _, _, _, _ => true
    end
  end.
Definition match_pf (lk lv rk rv : list nat) : bool :=
  if length rk <? length lk then match_go (S (length lk + length rk)) lk lv rk rv
  else match_go (S (length lk + length rk)) rk rv lk lv.

(* src: Core.cpp:match(const Factors & lhs, const PartialFactors & rhs) *)
Fixpoint match_f_pf (lhs rk rv : list nat) : bool :=
  match rk, rv with
  | k :: ks, v :: vs => if nth k lhs 0 =? v then match_f_pf lhs ks vs else false
  | _, _ => true
  end.
(* src: Core.cpp:match(const PartialKeys & keys, const Factors & lhs, const Factors & rhs) *)
Fixpoint match_keys (keys lhs rhs : list nat) : bool :=
  match keys with
  | [] => true
  | k :: ks => if nth k lhs 0 =? nth k rhs 0 then match_keys ks lhs rhs else false
  end.
(* src: Core.cpp:match(const std::vector<std::pair<size_t,size_t>> & matches, lhs, rhs) *)
Fixpoint match_pairs (ms : list (nat * nat)) (lhs rhs : list nat) : bool :=
  match ms with
  | [] => true
  | (a, b) :: t => if nth a lhs 0 =? nth b rhs 0 then match_pairs t lhs rhs else false
  end.

(* src: Core.cpp:toIndexPartial(const PartialKeys & ids, const Factors & space, const PartialFactors & pf)
   "while (pf.first[j] != id) ++j": j only moves forward and stays on the matched key.
   [None] = ran past the end of pf (unchecked in C++). *)
Fixpoint seek (id : nat) (pk pv : list nat) : list nat * list nat :=
  match pk, pv with
  | k :: ks, v :: vs => if k =? id then (pk, pv) else seek id ks vs
  | _, _ => ([], [])
  end.
Fixpoint toIndexPartialKPF_go (ids space pk pv : list nat) (mult acc : nat) : option nat :=
  match ids with
  | [] => Some acc
  | id :: t =>
      match seek id pk pv with
      | (pk', v :: pv') => toIndexPartialKPF_go t space pk' (v :: pv') (mult * nth id space 0) (acc + mult * v)
      | _ => None
      end
  end.
Definition toIndexPartialKPF (ids space pk pv : list nat) : option nat := toIndexPartialKPF_go ids space pk pv 1 0.

(* src: Core.cpp:toIndex(const Factors & space, const PartialFactors & f) — precondition in C++:
   f non-empty (reads f.first[0]); positions with no key contribute only to the multiplier. *)
Fixpoint toIndexPF_go (space : list nat) (i : nat) (pk pv : list nat) (mult acc : nat) : nat :=
  match space with
  | [] => acc
  | sp :: space' =>
      match pk, pv with
      | k :: ks, v :: vs =>
          if i =? k then
            match ks with
            | [] => acc + mult * v
            | _ => toIndexPF_go space' (S i) ks vs (mult * sp) (acc + mult * v)
            end
          else toIndexPF_go space' (S i) pk pv (mult * sp) acc
      | _, _ => acc
      end
  end.
Definition toIndexPF (space pk pv : list nat) : nat := toIndexPF_go space 0 pk pv 1 0.

(* src: Core.cpp:toIndexPartialAndSkip *)
Fixpoint toIndexPartialAndSkip_go (ids space f : list nat) (toModify mult skipMult acc : nat) : nat * nat :=
  match ids with
  | [] => (acc, skipMult)
  | id :: t =>
      if id =? toModify
      then toIndexPartialAndSkip_go t space f toModify (mult * nth id space 0) mult acc
      else toIndexPartialAndSkip_go t space f toModify (mult * nth id space 0) skipMult (acc + mult * nth id f 0)
  end.
Definition toIndexPartialAndSkip (ids space f : list nat) (toModify : nat) : nat * nat :=
  toIndexPartialAndSkip_go ids space f toModify 1 1 0.

(* ---- PartialFactorsEnumerator ---------------------------------------------------------------- *)
(* src: Core.hpp:class PartialFactorsEnumerator {F, factors_ = (first, second), factorToSkipId_} *)
Record pfe := mkPfe { pfeF : list nat; pfeKeys : list nat; pfeVals : list nat; pfeSkip : nat }.

(* src: Core.cpp:PartialFactorsEnumerator(Factors f, PartialKeys factors) *)
Definition pfe_keys (F keys : list nat) : pfe := mkPfe F keys (repeat 0 (length keys)) (length keys).
(* src: Core.cpp:PartialFactorsEnumerator(Factors f) *)
Definition pfe_all (F : list nat) : pfe := pfe_keys F (seq 0 (length F)).

(* first position holding factorToSkip ("Find the skip id" loop) *)
Fixpoint find_pos (x : nat) (l : list nat) (i : nat) : option nat :=
  match l with [] => None | y :: t => if x =? y then Some i else find_pos x t (S i) end.
(* missing-mode loop: copy keys until the first one greater than factorToSkip (or the end), put
   factorToSkip there (position j is remembered), copy the rest. *)
Fixpoint insert_missing (factors : list nat) (skip j : nat) : list nat * nat :=
  match factors with
  | [] => ([skip], j)
  | k :: t => if skip <? k then (skip :: factors, j)
              else let '(l, p) := insert_missing t skip (S j) in (k :: l, p)
  end.
(* src: Core.cpp:PartialFactorsEnumerator(Factors f, const PartialKeys & factors, size_t factorToSkip, bool missing)
   [None]: non-missing mode and factorToSkip not among the keys — factorToSkipId_ stays uninitialised. *)
Definition pfe_skip (F factors : list nat) (factorToSkip : nat) (missing : bool) : option pfe :=
  if missing then
    let '(keys, p) := insert_missing factors factorToSkip 0 in
    Some (mkPfe F keys (repeat 0 (length keys)) p)
  else
    match find_pos factorToSkip factors 0 with
    | Some p => Some (mkPfe F factors (repeat 0 (length factors)) p)
    | None => None
    end.
(* src: Core.cpp:PartialFactorsEnumerator(Factors f, size_t factorToSkip) *)
Definition pfe_skip_all (F : list nat) (factorToSkip : nat) : pfe :=
  mkPfe F (seq 0 (length F)) (repeat 0 (length F)) factorToSkip.

(* src: Core.cpp:PartialFactorsEnumerator::advance.  The loop visits positions in increasing order,
   never touching position factorToSkipId_ ("id = !factorToSkipId_", "if (++id == factorToSkipId_) ++id");
   [keys]/[vals] are the suffixes from position [pos] on.  [None] = ran past the end (clear()). *)
Fixpoint advance_go (F : list nat) (skipId pos : nat) (keys vals : list nat) : option (list nat) :=
  match keys, vals with
  | k :: ks, v :: vs =>
      if pos =? skipId then
        match advance_go F skipId (S pos) ks vs with Some r => Some (v :: r) | None => None end
      else if S v =? nth k F 0 then
        match advance_go F skipId (S pos) ks vs with Some r => Some (0 :: r) | None => None end
      else Some (S v :: vs)
  | _, _ => None
  end.
Definition pfe_advance (e : pfe) : pfe :=
  match advance_go (pfeF e) (pfeSkip e) 0 (pfeKeys e) (pfeVals e) with
  | Some v => mkPfe (pfeF e) (pfeKeys e) v (pfeSkip e)
  | None => mkPfe (pfeF e) (pfeKeys e) [] (pfeSkip e)
  end.
(* src: Core.cpp:PartialFactorsEnumerator::isValid *)
Definition pfe_isValid (e : pfe) : bool := match pfeVals e with [] => false | _ => true end.
(* src: Core.cpp:PartialFactorsEnumerator::reset *)
Definition pfe_reset (e : pfe) : pfe := mkPfe (pfeF e) (pfeKeys e) (repeat 0 (length (pfeKeys e))) (pfeSkip e).
(* src: Core.cpp:PartialFactorsEnumerator::size *)
Fixpoint pfe_size_go (F : list nat) (skipId pos : nat) (keys : list nat) (acc : nat) : nat :=
  match keys with
  | [] => acc
  | k :: ks => if pos =? skipId then pfe_size_go F skipId (S pos) ks acc
               else pfe_size_go F skipId (S pos) ks (acc * nth k F 0)
  end.
Definition pfe_size (e : pfe) : nat :=
  pfe_size_go (pfeF e) (pfeSkip e) 0 (pfeKeys e) (match pfeKeys e with [] => 0 | _ => 1 end).

(* "for (; e.isValid(); e.advance())" collecting *e; [None] = out of fuel. *)
Fixpoint pfe_visit (fuel : nat) (e : pfe) : option (list (list nat)) :=
  match fuel with
  | 0 => None
  | S fuel' =>
      if pfe_isValid e then
        match pfe_visit fuel' (pfe_advance e) with Some r => Some (pfeVals e :: r) | None => None end
      else Some []
  end.

(* ---- PartialIndexEnumerator ------------------------------------------------------------------ *)
(* src: Core.hpp:class PartialIndexEnumerator {len_, skip_, offset_, curr_, currLen_, max_} *)
Record pie := mkPie { pieLen : nat; pieSkipN : nat; pieOffset : nat; pieCurr : nat; pieCurrLen : nat; pieMax : nat }.

Fixpoint pie_len_go (F factors : list nat) (fixedFactor len : nat) : nat :=
  match factors with
  | [] => len
  | k :: t => if k <? fixedFactor then pie_len_go F t fixedFactor (len * nth k F 0) else len
  end.
(* src: Core.cpp:PartialIndexEnumerator(const Factors & F, const PartialKeys & factors, size_t fixedFactor, size_t val, bool missing) *)
Definition pie_make (F factors : list nat) (fixedFactor val : nat) (missing : bool) : pie :=
  let len := pie_len_go F factors fixedFactor 1 in
  let mx := factorSpacePartial factors F in
  let mx := if missing then mx * nth fixedFactor F 0 else mx in
  mkPie (len - 1) (len * nth fixedFactor F 0) (len * val) (len * val) 0 mx.
(* src: Core.cpp:PartialIndexEnumerator(const Factors & F, size_t fixedFactor, size_t val) *)
Definition pie_make_all (F : list nat) (fixedFactor val : nat) : pie :=
  let len := factorSpace (firstn fixedFactor F) in
  mkPie (len - 1) (len * nth fixedFactor F 0) (len * val) (len * val) 0 (factorSpace F).
(* src: Core.cpp:PartialIndexEnumerator::operator* / advance / isValid *)
Definition pie_get (e : pie) : nat := pieCurr e + pieCurrLen e.
Definition pie_advance (e : pie) : pie :=
  if pieCurrLen e <? pieLen e
  then mkPie (pieLen e) (pieSkipN e) (pieOffset e) (pieCurr e) (S (pieCurrLen e)) (pieMax e)
  else mkPie (pieLen e) (pieSkipN e) (pieOffset e) (pieCurr e + pieSkipN e) 0 (pieMax e).
Definition pie_isValid (e : pie) : bool := pie_get e <? pieMax e.
Fixpoint pie_visit (fuel : nat) (e : pie) : option (list nat) :=
  match fuel with
  | 0 => None
  | S fuel' =>
      if pie_isValid e then
        match pie_visit fuel' (pie_advance e) with Some r => Some (pie_get e :: r) | None => None end
      else Some []
  end.

(* src: Core.cpp:toFactors(const Factors & space, size_t id, Factors * out) — the out-parameter
   overload: every one of the first |space| entries of the (possibly reused) buffer is overwritten;
   entries of a longer buffer beyond |space| are left alone; a shorter buffer is an unchecked write
   (the model stops there). *)
Fixpoint toFactorsOut (space : list nat) (id : nat) (out : list nat) : list nat :=
  match space with
  | [] => out
  | sp :: space' =>
      match out with
      | [] => []
      | _ :: out' => (id mod sp) :: toFactorsOut space' (id / sp) out'
      end
  end.

(* src: Core.cpp:toFactors(size_t F, const PartialFactors & pf): a zero vector with the listed
   entries set, in order (a later duplicate key wins; an out-of-range key is an unchecked write,
   ignored by the model) *)
Fixpoint set_nth (i v : nat) (l : list nat) : list nat :=
  match l with
  | [] => []
  | x :: t => match i with 0 => v :: t | S i' => x :: set_nth i' v t end
  end.
Fixpoint toFactorsPF_go (pk pv : list nat) (f : list nat) : list nat :=
  match pk, pv with
  | k :: ks, v :: vs => toFactorsPF_go ks vs (set_nth k v f)
  | _, _ => f
  end.
Definition toFactorsPF (F : nat) (pk pv : list nat) : list nat := toFactorsPF_go pk pv (repeat 0 F).
(* src: Core.cpp:toPartialFactors(const Factors & f) *)
Definition toPartialFactors (f : list nat) : list nat * list nat := (seq 0 (length f), f).
