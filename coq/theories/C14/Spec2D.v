(* C14/Spec2D.v — flat expansion of a FactoredMatrix2D: value at a full (state, action) pair. *)
From Coq Require Import List Arith QArith.
From AIT Require Import C14.Model C14.Spec C14.ModelAlg C14.SpecAlg C14.ModelDDN C14.Model2D.
Import ListNotations.
Local Open Scope Q_scope.

Definition entry2 (SS AA : list nat) (b : bm) (s a : list nat) : Q :=
  nth (radix_value (sub (bmActionTag b) AA) (sub (bmActionTag b) a))
      (nth (radix_value (sub (bmTag b) SS) (sub (bmTag b) s)) (bmVals b) []) 0.

Fixpoint flat2 (SS AA : list nat) (fm : fmat) (s a : list nat) : Q :=
  match fm with [] => 0 | b :: t => entry2 SS AA b s a + flat2 SS AA t s a end.

Fixpoint wsum2 (SS AA : list nat) (fm : fmat) (s a : list nat) (w : list Q) : Q :=
  match fm, w with
  | b :: t, wi :: wt => wi * entry2 SS AA b s a + wsum2 SS AA t s a wt
  | _, _ => 0
  end.

(* one row per partial state assignment, one column per partial action assignment *)
Definition bm_wf (SS AA : list nat) (b : bm) : Prop :=
  tag_ok SS (bmTag b) /\ tag_ok AA (bmActionTag b) /\
  length (bmVals b) = factorSpacePartial (bmTag b) SS /\
  Forall (fun row => length row = factorSpacePartial (bmActionTag b) AA) (bmVals b).
Definition fm_wf (SS AA : list nat) (fm : fmat) : Prop := Forall (bm_wf SS AA) fm.
