(* C14/ModelDDN.v — Gallina models of src/Factored/Utils/BayesianNetwork.cpp
   (DDNGraph::push/getId/getIds/getSize, DDN::getTransitionProbability, backProject).
   Matrix2D = list of rows; unchecked reads default to 0 / [].  No proofs in this file. *)
From Coq Require Import List Arith QArith Qabs.
From AIT Require Import C14.Model C14.ModelAlg.
Import ListNotations.
Local Open Scope Q_scope.

(* src: BayesianNetwork.hpp:DynamicDecisionNetworkGraph::ParentSet {agents, features} *)
Record parentSet := mkPS { psAgents : list nat; psFeatures : list (list nat) }.
(* src: BayesianNetwork.hpp:class DynamicDecisionNetworkGraph {S, A, parents_, startIds_} *)
Record ddnGraph := mkG { gS : list nat; gA : list nat; gParents : list parentSet; gStart : list (list nat) }.

(* src: BayesianNetwork.cpp:DDNGraph::DynamicDecisionNetworkGraph(State, Action) *)
Definition graph_new (S A : list nat) : ddnGraph := mkG S A [] [].

Inductive pushRes := PushOk (g : ddnGraph) | PushRuntimeError | PushInvalidArgument.

Definition tag_is_ok (space tag : list nat) : bool :=
  match fst (checkTag space tag) with TENone => true | _ => false end.

(* "newStartIds[i] = newStartId; newStartId += factorSpacePartial(features[i], S)" and the final
   overall length *)
Fixpoint startIds_go (S : list nat) (features : list (list nat)) (acc : nat) : list nat :=
  match features with
  | [] => [acc]
  | f :: t => acc :: startIds_go S t (acc + factorSpacePartial f S)
  end.

(* src: BayesianNetwork.cpp:DDNGraph::push *)
Definition graph_push (g : ddnGraph) (p : parentSet) : pushRes :=
  if (length (gParents g) =? length (gS g))%nat then PushRuntimeError
  else if negb (tag_is_ok (gA g) (psAgents p)) then PushInvalidArgument
  else if negb (length (psFeatures p) =? factorSpacePartial (psAgents p) (gA g))%nat then PushInvalidArgument
  else if negb (forallb (tag_is_ok (gS g)) (psFeatures p)) then PushInvalidArgument
  else PushOk (mkG (gS g) (gA g) (gParents g ++ [p]) (gStart g ++ [startIds_go (gS g) (psFeatures p) 0])).

Definition emptyPS := mkPS [] [].

(* src: BayesianNetwork.cpp:DDNGraph::getIds(feature, const State & s, const Action & a) -> (parentId, actionId) *)
Definition getIds (g : ddnGraph) (feature : nat) (s a : list nat) : nat * nat :=
  let ps := nth feature (gParents g) emptyPS in
  let actionId := toIndexPartial (psAgents ps) (gA g) a in
  let features := nth actionId (psFeatures ps) [] in
  (toIndexPartial features (gS g) s, actionId).
(* src: BayesianNetwork.cpp:DDNGraph::getId(feature, parentId, actionId) *)
Definition getId3 (g : ddnGraph) (feature parentId actionId : nat) : nat :=
  (nth actionId (nth feature (gStart g) []) 0 + parentId)%nat.
(* src: BayesianNetwork.cpp:DDNGraph::getId(feature, const State & s, const Action & a) *)
Definition getId (g : ddnGraph) (feature : nat) (s a : list nat) : nat :=
  let '(parentId, actionId) := getIds g feature s a in getId3 g feature parentId actionId.

(* src: BayesianNetwork.cpp:DDNGraph::getIds(feature, const PartialState & s, const PartialAction & a) *)
Definition getIdsP (g : ddnGraph) (feature : nat) (sk sv ak av : list nat) : nat * nat :=
  let ps := nth feature (gParents g) emptyPS in
  let actionId := idx_of (psAgents ps) (gA g) ak av in
  let features := nth actionId (psFeatures ps) [] in
  (idx_of features (gS g) sk sv, actionId).
Definition getIdP (g : ddnGraph) (feature : nat) (sk sv ak av : list nat) : nat :=
  let '(parentId, actionId) := getIdsP g feature sk sv ak av in getId3 g feature parentId actionId.

(* src: BayesianNetwork.cpp:DDNGraph::getIds(feature, size_t j): walk down from the last action id
   while its start is above j *)
Fixpoint getIdsRev_go (starts : list nat) (j actionId : nat) : nat * nat :=
  if (j <? nth actionId starts 0)%nat then
    match actionId with
    | O => (0%nat, 0%nat)            (* unreachable: starts[0] = 0 *)
    | S a' => getIdsRev_go starts j a'
    end
  else ((j - nth actionId starts 0)%nat, actionId).
Definition getIdsRev (g : ddnGraph) (feature j : nat) : nat * nat :=
  let starts := nth feature (gStart g) [] in
  getIdsRev_go starts j (length starts - 2).
(* src: BayesianNetwork.cpp:DDNGraph::getSize / getPartialSize *)
Definition getSize (g : ddnGraph) (feature : nat) : nat := last (nth feature (gStart g) []) 0%nat.
Definition getPartialSize (g : ddnGraph) (feature : nat) : nat := length (psFeatures (nth feature (gParents g) emptyPS)).
Definition getPartialSizeA (g : ddnGraph) (feature actionId : nat) : nat :=
  let st := nth feature (gStart g) [] in (nth (S actionId) st 0 - nth actionId st 0)%nat.

(* Matrix2D *)
Definition matrix := list (list Q).
Definition mat_get (m : matrix) (r c : nat) : Q := nth c (nth r m []) 0.

(* src: BayesianNetwork.cpp:DDN::getTransitionProbability(const Factors & s, const Factors & a, const Factors & s1) *)
Definition getTransitionProbability (g : ddnGraph) (T : list matrix) (s a s1 : list nat) : Q :=
  fold_left (fun acc i => acc * mat_get (nth i T []) (getId g i s a) (nth i s1 0%nat))
            (seq 0 (length (gS g))) 1.

(* src: BayesianNetwork.cpp:DDN::getTransitionProbability(const PartialFactors & s, a, s1) *)
Fixpoint gtpP_go (g : ddnGraph) (T : list matrix) (sk sv ak av : list nat) (k1 v1 : list nat) (acc : Q) : Q :=
  match k1, v1 with
  | nodeId :: kt, v :: vt =>
      gtpP_go g T sk sv ak av kt vt (acc * mat_get (nth nodeId T []) (getIdP g nodeId sk sv ak av) v)
  | _, _ => acc
  end.
Definition getTransitionProbabilityP (g : ddnGraph) (T : list matrix) (sk sv ak av k1 v1 : list nat) : Q :=
  gtpP_go g T sk sv ak av k1 v1 1.

(* src: FactoredMatrix.hpp:struct BasisMatrix {tag, actionTag, values} *)
Record bm := mkBm { bmTag : list nat; bmActionTag : list nat; bmVals : matrix }.

(* "for (auto d : rhs.tag) { actionTag = merge(actionTag, parentSets[d].agents);
                            for (n : parentSets[d].features) tag = merge(tag, n); }" *)
Definition bp_step (g : ddnGraph) (p : list nat * list nat) (d : nat) : list nat * list nat :=
  let '(atag, stag) := p in
  let ps := nth d (gParents g) emptyPS in
  (merge_keys atag (psAgents ps), fold_left merge_keys (psFeatures ps) stag).

(* src: BayesianNetwork.cpp:backProject(const DDN &, const BasisFunction &)
   ([Qred] only normalises the fraction of each computed entry: Qred q == q) *)
Definition backProject (g : ddnGraph) (T : list matrix) (rhs : bf) : bm :=
  let '(atag, stag) := fold_left (bp_step g) (bfTag rhs) ([], []) in
  let sDomain := enum_assignments (gS g) stag in
  let aDomain := enum_assignments (gA g) atag in
  let rDomain := enum_assignments (gS g) (bfTag rhs) in
  mkBm stag atag
       (map (fun sv =>
               map (fun av =>
                      Qred (fold_left (fun cur '(rId, rv) =>
                                   cur + qnth rId (bfVals rhs) *
                                         getTransitionProbabilityP g T stag sv atag av (bfTag rhs) rv)
                                (combine (seq 0 (length rDomain)) rDomain) 0))
                   aDomain)
            sDomain).

(* src: Utils/Probability.hpp:isProbability(size, row): no negative entry, |sum - 1| <= 1e-6 *)
Definition row_is_probability (n : nat) (r : list Q) : bool :=
  forallb (fun x => Qle_bool 0 x) (firstn n r) &&
  Qle_bool (Qabs (fold_left Qplus (firstn n r) 0 - 1)) (1 # 1000000).
(* src: Factored/MDP/CooperativeModel.cpp:CooperativeModel(...) — "Check each row is a probability":
   for every node i, every row j < graph_.getSize(i) *)
Definition tables_are_probabilities (g : ddnGraph) (T : list matrix) : bool :=
  forallb (fun i => forallb (fun j => row_is_probability (nth i (gS g) 0%nat) (nth j (nth i T []) []))
                            (seq 0 (getSize g i)))
          (seq 0 (length (gS g))).
