(* C14/ProofsEnum.v — PartialFactorsEnumerator visits the mixed-radix sequence, in order. *)
From Coq Require Import List Arith Lia.
From AIT Require Import C14.Model C14.Spec C14.Proofs.
Import ListNotations.

(* ---- one increment of a mixed-radix digit ---- *)
Lemma digit_step_carry : forall s i, 0 < s -> S (i mod s) = s ->
  (S i) mod s = 0 /\ (S i) / s = S (i / s).
Proof.
  intros s i Hs Hc. pose proof (Nat.div_mod i s ltac:(lia)) as Hdm.
  assert (HS : S i = s * S (i / s) + 0) by nia.
  split.
  - symmetry. apply (Nat.mod_unique (S i) s (S (i / s)) 0); lia.
  - symmetry. apply (Nat.div_unique (S i) s (S (i / s)) 0); lia.
Qed.

Lemma digit_step_nocarry : forall s i, 0 < s -> S (i mod s) <> s ->
  (S i) mod s = S (i mod s) /\ (S i) / s = i / s.
Proof.
  intros s i Hs Hc. pose proof (Nat.div_mod i s ltac:(lia)) as Hdm.
  pose proof (Nat.mod_upper_bound i s ltac:(lia)) as Hub.
  assert (HS : S i = s * (i / s) + S (i mod s)) by lia.
  split.
  - symmetry. apply (Nat.mod_unique (S i) s (i / s) (S (i mod s))); lia.
  - symmetry. apply (Nat.div_unique (S i) s (i / s) (S (i mod s))); lia.
Qed.

Definition keys_pos (F keys : list nat) : Prop := Forall (fun k => 0 < nth k F 0) keys.

Lemma fsp_pos : forall F keys, keys_pos F keys -> 0 < factorSpacePartial keys F.
Proof.
  intros F keys H; induction H as [|k ks Hk H IH]; cbn [factorSpacePartial]; [lia|nia].
Qed.

(* ---- positions after the skipped one: plain digits ---- *)
Lemma advance_after : forall F skipId keys pos i,
  skipId < pos -> keys_pos F keys -> i < factorSpacePartial keys F ->
  advance_go F skipId pos keys (toFactorsPartial keys F i) =
  if S i <? factorSpacePartial keys F then Some (toFactorsPartial keys F (S i)) else None.
Proof.
  intros F skipId keys; induction keys as [|k ks IH]; intros pos i Hp Hk Hi.
  - cbn [factorSpacePartial] in *. cbn [advance_go toFactorsPartial].
    destruct (S i <? 1) eqn:E; [apply Nat.ltb_lt in E; lia | reflexivity].
  - inversion Hk as [|? ? Hk0 Hks]; subst.
    cbn [factorSpacePartial] in *. cbn [advance_go toFactorsPartial].
    set (s := nth k F 0) in *. set (P := factorSpacePartial ks F) in *.
    assert (HP : 0 < P) by (apply fsp_pos; assumption).
    assert (Hq : i / s < P) by (apply Nat.div_lt_upper_bound; lia).
    destruct (pos =? skipId) eqn:Eps; [apply Nat.eqb_eq in Eps; lia|].
    destruct (S (i mod s) =? s) eqn:Ec.
    + apply Nat.eqb_eq in Ec. destruct (digit_step_carry s i Hk0 Ec) as [Hm Hd].
      rewrite (IH (S pos) (i / s)) by (try lia; assumption).
      rewrite Hm, Hd.
      destruct (S (i / s) <? P) eqn:E1; destruct (S i <? s * P) eqn:E2; try reflexivity;
        [apply Nat.ltb_lt in E1; apply Nat.ltb_ge in E2 | apply Nat.ltb_ge in E1; apply Nat.ltb_lt in E2];
        pose proof (Nat.div_mod i s ltac:(lia)); nia.
    + apply Nat.eqb_neq in Ec. destruct (digit_step_nocarry s i Hk0 Ec) as [Hm Hd].
      rewrite Hm, Hd.
      destruct (S i <? s * P) eqn:E2; [reflexivity|].
      apply Nat.ltb_ge in E2. pose proof (Nat.div_mod i s ltac:(lia)).
      pose proof (Nat.mod_upper_bound i s ltac:(lia)). nia.
Qed.

(* ---- positions up to the skipped one: p = distance to the skipped position ---- *)
Fixpoint skip_digits (F keys : list nat) (p i : nat) : list nat :=
  match keys with
  | [] => []
  | k :: ks => match p with
               | 0 => 0 :: toFactorsPartial ks F i
               | S p' => (i mod nth k F 0) :: skip_digits F ks p' (i / nth k F 0)
               end
  end.
Fixpoint skip_prod (F keys : list nat) (p : nat) : nat :=
  match keys with
  | [] => 1
  | k :: ks => match p with
               | 0 => factorSpacePartial ks F
               | S p' => nth k F 0 * skip_prod F ks p'
               end
  end.

Lemma skip_prod_pos : forall F keys p, keys_pos F keys -> 0 < skip_prod F keys p.
Proof.
  intros F keys; induction keys as [|k ks IH]; intros p H; cbn [skip_prod]; [lia|].
  inversion H; subst. destruct p; [apply fsp_pos; assumption|]. specialize (IH p ltac:(assumption)). nia.
Qed.

Lemma advance_before : forall F skipId keys pos p i,
  pos + p = skipId -> keys_pos F keys -> i < skip_prod F keys p ->
  advance_go F skipId pos keys (skip_digits F keys p i) =
  if S i <? skip_prod F keys p then Some (skip_digits F keys p (S i)) else None.
Proof.
  intros F skipId keys; induction keys as [|k ks IH]; intros pos p i Hp Hk Hi.
  - cbn [skip_prod] in *. cbn [advance_go skip_digits].
    destruct (S i <? 1) eqn:E; [apply Nat.ltb_lt in E; lia | reflexivity].
  - inversion Hk as [|? ? Hk0 Hks]; subst.
    destruct p as [|p].
    + cbn [skip_prod] in *. cbn [advance_go skip_digits].
      replace (pos =? pos + 0) with true by (symmetry; apply Nat.eqb_eq; lia).
      rewrite advance_after by (try lia; assumption).
      destruct (S i <? factorSpacePartial ks F); reflexivity.
    + cbn [skip_prod] in *. cbn [advance_go skip_digits].
      set (s := nth k F 0) in *. set (P := skip_prod F ks p) in *.
      assert (HP : 0 < P) by (apply skip_prod_pos; assumption).
      assert (Hq : i / s < P) by (apply Nat.div_lt_upper_bound; lia).
      destruct (pos =? pos + S p) eqn:Eps; [apply Nat.eqb_eq in Eps; lia|].
      destruct (S (i mod s) =? s) eqn:Ec.
      * apply Nat.eqb_eq in Ec. destruct (digit_step_carry s i Hk0 Ec) as [Hm Hd].
        rewrite (IH (S pos) p (i / s)) by (try lia; assumption).
        rewrite Hm, Hd. fold P.
        destruct (S (i / s) <? P) eqn:E1; destruct (S i <? s * P) eqn:E2; try reflexivity;
          [apply Nat.ltb_lt in E1; apply Nat.ltb_ge in E2 | apply Nat.ltb_ge in E1; apply Nat.ltb_lt in E2];
          pose proof (Nat.div_mod i s ltac:(lia)); nia.
      * apply Nat.eqb_neq in Ec. destruct (digit_step_nocarry s i Hk0 Ec) as [Hm Hd].
        rewrite Hm, Hd.
        destruct (S i <? s * P) eqn:E2; [reflexivity|].
        apply Nat.ltb_ge in E2. pose proof (Nat.div_mod i s ltac:(lia)).
        pose proof (Nat.mod_upper_bound i s ltac:(lia)). nia.
Qed.

(* ---- bridging to the spec ---- *)
Lemma toFactorsPartial_zero : forall F keys, keys_pos F keys -> toFactorsPartial keys F 0 = repeat 0 (length keys).
Proof.
  intros F keys H; induction H as [|k ks Hk H IH]; cbn [toFactorsPartial repeat length]; [reflexivity|].
  rewrite Nat.mod_0_l, Nat.div_0_l by lia. rewrite IH. reflexivity.
Qed.

Lemma skip_digits_zero : forall F keys p, keys_pos F keys -> skip_digits F keys p 0 = repeat 0 (length keys).
Proof.
  intros F keys; induction keys as [|k ks IH]; intros p H; cbn [skip_digits repeat length]; [reflexivity|].
  inversion H; subst. destruct p.
  - rewrite toFactorsPartial_zero by assumption. reflexivity.
  - rewrite Nat.mod_0_l, Nat.div_0_l by lia. rewrite IH by assumption. reflexivity.
Qed.

Lemma remove_at_ge : forall (A : Type) (l : list A) p, length l <= p -> remove_at p l = l.
Proof.
  induction l as [|x l IH]; intros p H; cbn [remove_at]; [reflexivity|].
  cbn [length] in H. destruct p; [lia|]. rewrite IH by lia. reflexivity.
Qed.

Lemma skip_digits_spec : forall F keys p i, skip_digits F keys p i = enum_nth F keys p i.
Proof.
  intros F keys; unfold enum_nth; induction keys as [|k ks IH]; intros p i.
  - cbn [skip_digits length]. destruct (p <? 0) eqn:E; [apply Nat.ltb_lt in E; lia | reflexivity].
  - cbn [skip_digits length]. destruct p as [|p].
    + cbn [remove_at insert_at]. reflexivity.
    + rewrite IH. change (S p <? S (length ks)) with (p <? length ks).
      destruct (p <? length ks); cbn [remove_at toFactorsPartial insert_at]; reflexivity.
Qed.

Lemma skip_prod_spec : forall F keys p,
  skip_prod F keys p = factorSpacePartial (if p <? length keys then remove_at p keys else keys) F.
Proof.
  intros F keys; induction keys as [|k ks IH]; intros p.
  - cbn [skip_prod length]. destruct (p <? 0); reflexivity.
  - cbn [skip_prod length]. destruct p as [|p].
    + reflexivity.
    + rewrite IH. change (S p <? S (length ks)) with (p <? length ks).
      destruct (p <? length ks); cbn [remove_at factorSpacePartial]; reflexivity.
Qed.

(* ---- size() ---- *)
Lemma size_after : forall F skipId keys pos acc, skipId < pos ->
  pfe_size_go F skipId pos keys acc = acc * factorSpacePartial keys F.
Proof.
  intros F skipId keys; induction keys as [|k ks IH]; intros pos acc Hp; cbn [pfe_size_go factorSpacePartial]; [lia|].
  destruct (pos =? skipId) eqn:E; [apply Nat.eqb_eq in E; lia|]. rewrite IH by lia. lia.
Qed.

Lemma size_before : forall F skipId keys pos p acc, pos + p = skipId ->
  pfe_size_go F skipId pos keys acc = acc * skip_prod F keys p.
Proof.
  intros F skipId keys; induction keys as [|k ks IH]; intros pos p acc Hp; cbn [pfe_size_go skip_prod]; [lia|].
  destruct p as [|p].
  - replace (pos =? skipId) with true by (symmetry; apply Nat.eqb_eq; lia). apply size_after; lia.
  - destruct (pos =? skipId) eqn:E; [apply Nat.eqb_eq in E; lia|]. rewrite (IH (S pos) p) by lia. lia.
Qed.

Lemma pfe_size_spec : forall F keys vals skipId,
  pfe_size (mkPfe F keys vals skipId) = enum_count F keys skipId.
Proof.
  intros F keys vals skipId. unfold pfe_size, enum_count. cbn [pfeF pfeSkip pfeKeys].
  rewrite (size_before F skipId keys 0 skipId) by lia. rewrite skip_prod_spec.
  destruct keys; lia.
Qed.

(* ---- the visited sequence ---- *)
Lemma skip_digits_nonempty : forall F keys p i, keys <> [] -> skip_digits F keys p i <> [].
Proof. intros F [|k ks] p i H; [congruence|]. cbn [skip_digits]. destruct p; discriminate. Qed.

Lemma visit_from : forall F keys skipId n i fuel,
  keys <> [] -> keys_pos F keys -> i + S n = skip_prod F keys skipId -> S n < fuel ->
  pfe_visit fuel (mkPfe F keys (skip_digits F keys skipId i) skipId) =
  Some (map (skip_digits F keys skipId) (seq i (S n))).
Proof.
  intros F keys skipId n; induction n as [|n IH]; intros i fuel Hne Hk Hi Hf.
  - destruct fuel as [|[|fuel]]; try lia. cbn [pfe_visit].
    unfold pfe_isValid at 1. cbn [pfeVals].
    destruct (skip_digits F keys skipId i) eqn:Ed; [exfalso; eapply skip_digits_nonempty; eauto|].
    rewrite <- Ed. unfold pfe_advance. cbn [pfeF pfeSkip pfeKeys pfeVals].
    rewrite (advance_before F skipId keys 0 skipId i) by (try lia; assumption).
    replace (S i <? skip_prod F keys skipId) with false by (symmetry; apply Nat.ltb_ge; lia).
    cbn [pfe_isValid pfeVals seq map]. reflexivity.
  - destruct fuel as [|fuel]; try lia. cbn [pfe_visit].
    unfold pfe_isValid at 1. cbn [pfeVals].
    destruct (skip_digits F keys skipId i) eqn:Ed; [exfalso; eapply skip_digits_nonempty; eauto|].
    rewrite <- Ed. unfold pfe_advance. cbn [pfeF pfeSkip pfeKeys pfeVals].
    rewrite (advance_before F skipId keys 0 skipId i) by (try lia; assumption).
    replace (S i <? skip_prod F keys skipId) with true by (symmetry; apply Nat.ltb_lt; lia).
    rewrite (IH (S i) fuel) by (try lia; assumption).
    cbn [seq map]. reflexivity.
Qed.

Theorem enumerator_visits_lemma : forall F keys skipId fuel,
  keys_pos F keys ->
  let e := mkPfe F keys (repeat 0 (length keys)) skipId in
  pfe_size e < fuel ->
  pfe_visit fuel e = Some (map (enum_nth F keys skipId) (seq 0 (pfe_size e)))
  /\ pfe_size e = enum_count F keys skipId.
Proof.
  intros F keys skipId fuel Hk e Hf. split; [| apply pfe_size_spec].
  subst e. destruct keys as [|k ks].
  - rewrite pfe_size_spec in *. cbn [enum_count seq map] in *. destruct fuel as [|fuel]; [exfalso; clear - Hf; lia|]. reflexivity.
  - set (keys := k :: ks) in *.
    assert (Hsz : pfe_size (mkPfe F keys (repeat 0 (length keys)) skipId) = skip_prod F keys skipId).
    { unfold pfe_size. cbn [pfeF pfeSkip pfeKeys]. rewrite (size_before F skipId keys 0 skipId) by lia.
      subst keys. cbv iota. lia. }
    rewrite Hsz in *.
    pose proof (skip_prod_pos F keys skipId Hk) as Hpos.
    rewrite <- (skip_digits_zero F keys skipId Hk).
    destruct (skip_prod F keys skipId) as [|n] eqn:En; [lia|].
    rewrite (visit_from F keys skipId n 0 fuel) by (try lia; try assumption; subst keys; discriminate).
    f_equal. apply map_ext. intros i. apply skip_digits_spec.
Qed.

(* ---- the constructors ---- *)
Lemma enum_nth_noskip : forall F keys i, enum_nth F keys (length keys) i = toFactorsPartial keys F i.
Proof. intros. unfold enum_nth. rewrite Nat.ltb_irrefl. reflexivity. Qed.

Theorem enumerator_keys_lemma : forall F keys fuel,
  keys <> [] -> keys_pos F keys -> factorSpacePartial keys F < fuel ->
  pfe_visit fuel (pfe_keys F keys) = Some (map (toFactorsPartial keys F) (seq 0 (factorSpacePartial keys F)))
  /\ pfe_size (pfe_keys F keys) = factorSpacePartial keys F.
Proof.
  intros F keys fuel Hne Hk Hf. unfold pfe_keys.
  assert (Hs : pfe_size (mkPfe F keys (repeat 0 (length keys)) (length keys)) = factorSpacePartial keys F).
  { rewrite pfe_size_spec. unfold enum_count. rewrite Nat.ltb_irrefl. destruct keys; [congruence|reflexivity]. }
  destruct (enumerator_visits_lemma F keys (length keys) fuel Hk) as [Hv _]; [rewrite Hs; exact Hf|].
  rewrite Hv, Hs. split; [|reflexivity]. f_equal. apply map_ext. intros; apply enum_nth_noskip.
Qed.

Lemma keys_pos_all : forall F, Forall (fun s => 0 < s) F -> keys_pos F (seq 0 (length F)).
Proof.
  intros F H. unfold keys_pos. apply Forall_forall. intros k Hin. apply in_seq in Hin.
  rewrite Forall_forall in H. apply H. apply nth_In. lia.
Qed.

Lemma sub_seq_all : forall (l : list nat), sub (seq 0 (length l)) l = l.
Proof.
  intros l. unfold sub. apply nth_ext with (d := 0) (d' := 0).
  - rewrite map_length, seq_length. reflexivity.
  - intros n Hn. rewrite map_length, seq_length in Hn.
    rewrite (nth_indep _ 0 (nth 0 l 0)) by (rewrite map_length, seq_length; assumption).
    rewrite (map_nth (fun k => nth k l 0) (seq 0 (length l)) 0 n).
    rewrite seq_nth by assumption. reflexivity.
Qed.

(* all-factors constructor: the sequence is [toFactors F 0; toFactors F 1; ...] *)
Theorem enumerator_all_lemma : forall F fuel,
  F <> [] -> Forall (fun s => 0 < s) F -> factorSpace F < fuel ->
  pfe_visit fuel (pfe_all F) = Some (map (toFactors F) (seq 0 (factorSpace F)))
  /\ pfe_size (pfe_all F) = factorSpace F.
Proof.
  intros F fuel Hne Hp Hf. unfold pfe_all.
  assert (Hfs : factorSpacePartial (seq 0 (length F)) F = factorSpace F)
    by (rewrite factorSpacePartial_sub, sub_seq_all; reflexivity).
  destruct (enumerator_keys_lemma F (seq 0 (length F)) fuel) as [Hv Hs].
  - destruct F; [congruence| cbn; discriminate].
  - apply keys_pos_all; assumption.
  - rewrite Hfs; assumption.
  - rewrite Hv, Hs, Hfs. split; [|reflexivity]. f_equal. apply map_ext. intros i.
    rewrite toFactorsPartial_sub, sub_seq_all. reflexivity.
Qed.

(* skip constructors: position p of the keys is held at 0, the others enumerate the keys without p *)
Theorem enumerator_skip_lemma : forall F keys p fuel,
  p < length keys -> keys_pos F keys -> factorSpacePartial (remove_at p keys) F < fuel ->
  let e := mkPfe F keys (repeat 0 (length keys)) p in
  pfe_visit fuel e =
    Some (map (fun i => insert_at p 0 (toFactorsPartial (remove_at p keys) F i))
              (seq 0 (factorSpacePartial (remove_at p keys) F)))
  /\ pfe_size e = factorSpacePartial (remove_at p keys) F.
Proof.
  intros F keys p fuel Hp Hk Hf e.
  assert (Hs : pfe_size e = factorSpacePartial (remove_at p keys) F).
  { subst e. rewrite pfe_size_spec. unfold enum_count.
    replace (p <? length keys) with true by (symmetry; apply Nat.ltb_lt; assumption).
    destruct keys; [cbn in Hp; lia | reflexivity]. }
  destruct (enumerator_visits_lemma F keys p fuel Hk) as [Hv _]; [fold e; rewrite Hs; exact Hf|].
  fold e in Hv. rewrite Hv, Hs. split; [|reflexivity]. f_equal. apply map_ext. intros i.
  unfold enum_nth. replace (p <? length keys) with true by (symmetry; apply Nat.ltb_lt; assumption).
  reflexivity.
Qed.

Lemma find_pos_spec : forall x l i p, find_pos x l i = Some p -> i <= p /\ p - i < length l /\ nth (p - i) l 0 = x.
Proof.
  intros x l; induction l as [|y t IH]; intros i p H; cbn [find_pos] in H; [discriminate|].
  destruct (x =? y) eqn:E.
  - inversion H; subst. apply Nat.eqb_eq in E. rewrite Nat.sub_diag. cbn. repeat split; try lia.
  - apply IH in H. destruct H as [H1 [H2 H3]]. cbn [length].
    replace (p - i) with (S (p - S i)) by lia. cbn [nth]. repeat split; try lia; try assumption.
Qed.

Lemma insert_missing_spec : forall factors skip j keys p,
  insert_missing factors skip j = (keys, p) ->
  j <= p /\ p - j < length keys /\ nth (p - j) keys 0 = skip /\ remove_at (p - j) keys = factors.
Proof.
  induction factors as [|k t IH]; intros skip j keys p H; cbn [insert_missing] in H.
  - inversion H; subst. rewrite Nat.sub_diag. cbn. repeat split; lia.
  - destruct (skip <? k).
    + inversion H; subst. rewrite Nat.sub_diag. cbn. repeat split; lia.
    + destruct (insert_missing t skip (S j)) as [l q] eqn:E. inversion H; subst.
      apply IH in E. destruct E as [H1 [H2 [H3 H4]]].
      replace (p - j) with (S (p - S j)) by lia. cbn [length nth remove_at].
      repeat split; try lia; try assumption. rewrite H4. reflexivity.
Qed.

Lemma keys_pos_insert_missing : forall F factors skip j keys p,
  insert_missing factors skip j = (keys, p) -> keys_pos F factors -> 0 < nth skip F 0 -> keys_pos F keys.
Proof.
  intros F; induction factors as [|k t IH]; intros skip j keys p H Hk Hs; cbn [insert_missing] in H.
  - inversion H; subst. constructor; [assumption|constructor].
  - destruct (skip <? k).
    + inversion H; subst. constructor; assumption.
    + destruct (insert_missing t skip (S j)) as [l q] eqn:E. inversion H; subst.
      inversion Hk; subst. constructor; [assumption|]. eapply IH; eauto.
Qed.

(* skip ctor with missing = true: the enumerated keys are the given ones, the skipped factor is
   inserted (held at 0) at the returned position. *)
Theorem enumerator_missing_lemma : forall F factors skip fuel e,
  pfe_skip F factors skip true = Some e ->
  keys_pos F factors -> 0 < nth skip F 0 -> factorSpacePartial factors F < fuel ->
  pfe_visit fuel e =
    Some (map (fun i => insert_at (pfeSkip e) 0 (toFactorsPartial factors F i))
              (seq 0 (factorSpacePartial factors F)))
  /\ pfe_size e = factorSpacePartial factors F
  /\ nth (pfeSkip e) (pfeKeys e) 0 = skip /\ remove_at (pfeSkip e) (pfeKeys e) = factors.
Proof.
  intros F factors skip fuel e He Hk Hs Hf. unfold pfe_skip in He.
  destruct (insert_missing factors skip 0) as [keys p] eqn:E. inversion He; subst e. clear He.
  cbn [pfeSkip pfeKeys].
  pose proof (insert_missing_spec _ _ _ _ _ E) as [_ [H2 [H3 H4]]]. rewrite Nat.sub_0_r in *.
  pose proof (keys_pos_insert_missing F _ _ _ _ _ E Hk Hs) as Hk'.
  destruct (enumerator_skip_lemma F keys p fuel H2 Hk') as [Hv Hsz]; [rewrite H4; exact Hf|].
  rewrite H4 in *. repeat split; assumption.
Qed.

(* skip ctor with missing = false *)
Theorem enumerator_present_lemma : forall F keys skip fuel e,
  pfe_skip F keys skip false = Some e ->
  keys_pos F keys -> factorSpacePartial (remove_at (pfeSkip e) keys) F < fuel ->
  pfe_visit fuel e =
    Some (map (fun i => insert_at (pfeSkip e) 0 (toFactorsPartial (remove_at (pfeSkip e) keys) F i))
              (seq 0 (factorSpacePartial (remove_at (pfeSkip e) keys) F)))
  /\ pfe_size e = factorSpacePartial (remove_at (pfeSkip e) keys) F
  /\ nth (pfeSkip e) keys 0 = skip.
Proof.
  intros F keys skip fuel e He Hk Hf. unfold pfe_skip in He.
  destruct (find_pos skip keys 0) as [p|] eqn:E; [|discriminate]. inversion He; subst e. clear He.
  cbn [pfeSkip] in *. apply find_pos_spec in E. destruct E as [_ [H2 H3]]. rewrite Nat.sub_0_r in *.
  destruct (enumerator_skip_lemma F keys p fuel H2 Hk Hf) as [Hv Hsz].
  repeat split; assumption.
Qed.

(* each joint value exactly once: the visited list of the plain constructor has no duplicates *)
Theorem enumerator_nodup_lemma : forall F keys,
  keys_pos F keys ->
  NoDup (map (toFactorsPartial keys F) (seq 0 (factorSpacePartial keys F))).
Proof.
  intros F keys Hk.
  assert (Hinj : forall i j, In i (seq 0 (factorSpacePartial keys F)) -> In j (seq 0 (factorSpacePartial keys F)) ->
                 toFactorsPartial keys F i = toFactorsPartial keys F j -> i = j).
  { intros i j Hi Hj He. apply in_seq in Hi. apply in_seq in Hj.
    destruct (partial_roundtrip_index_lemma keys F i Hk ltac:(lia)) as [H1 _].
    destruct (partial_roundtrip_index_lemma keys F j Hk ltac:(lia)) as [H2 _].
    rewrite He in H1. congruence. }
  generalize (seq_NoDup (factorSpacePartial keys F) 0). revert Hinj.
  generalize (seq 0 (factorSpacePartial keys F)) as l.
  induction l as [|x l IH]; intros Hinj Hnd; cbn [map]; [constructor|].
  inversion Hnd; subst. constructor.
  - intros Hin. apply in_map_iff in Hin. destruct Hin as [y [Hy Hyin]].
    assert (y = x) by (apply Hinj; [right; assumption | left; reflexivity | assumption]). subst. contradiction.
  - apply IH; [|assumption]. intros i j Hi Hj. apply Hinj; right; assumption.
Qed.
