(* C14/Model2D.v — Gallina models of FactoredMatrix2D (src/Factored/Utils/FactoredMatrix.cpp:
   getValue, getValue(weights), operator*=; src/Factored/Utils/FactoredMatrix2DOps.cpp: plusEqualSubset,
   plusEqual).  Matrix2D = list of rows.  No proofs in this file. *)
From Coq Require Import List Arith QArith.
From AIT Require Import C14.Model C14.ModelAlg C14.ModelDDN.
Import ListNotations.
Local Open Scope Q_scope.

(* src: FactoredMatrix.hpp:struct FactoredMatrix2D {bases} ; BasisMatrix = ModelDDN.bm *)
Definition fmat := list bm.

Definition bm_value (SS AA : list nat) (b : bm) (s a : list nat) : Q :=
  mat_get (bmVals b) (toIndexPartial (bmTag b) SS s) (toIndexPartial (bmActionTag b) AA a).

(* src: FactoredMatrix.cpp:FactoredMatrix2D::getValue(space, actions, value, action) *)
Definition getValue2D (SS AA : list nat) (fm : fmat) (s a : list nat) : Q :=
  fold_left (fun acc b => acc + bm_value SS AA b s a) fm 0.

(* src: FactoredMatrix.cpp:FactoredMatrix2D::getValue(space, actions, value, action, weights) *)
Fixpoint getValueW2D_go (SS AA : list nat) (fm : fmat) (s a : list nat) (w : list Q) (acc : Q) : Q :=
  match fm with
  | [] => acc
  | b :: t => getValueW2D_go SS AA t s a (tl w) (acc + bm_value SS AA b s a * qnth 0 w)
  end.
Definition getValueW2D (SS AA : list nat) (fm : fmat) (s a : list nat) (w : list Q) : Q :=
  let init := if (length w =? S (length fm))%nat then qnth (length fm) w else 0 in
  getValueW2D_go SS AA fm s a w init.

Definition bm_map (f : Q -> Q) (b : bm) : bm := mkBm (bmTag b) (bmActionTag b) (map (map f) (bmVals b)).

(* src: FactoredMatrix.cpp:FactoredMatrix2D::operator*=(const Vector & weights) *)
Fixpoint scaleW2D_go (fm : fmat) (w : list Q) (add : bool) (toAdd : Q) : fmat :=
  match fm with
  | [] => []
  | b :: t => bm_map (fun v => if add then v * qnth 0 w + toAdd else v * qnth 0 w) b :: scaleW2D_go t (tl w) add toAdd
  end.
Definition scaleW2D (fm : fmat) (w : list Q) : fmat :=
  let add := (length w =? S (length fm))%nat in
  let toAdd := qnth (length w - 1) w / inject_Z (Z.of_nat (length fm)) in
  scaleW2D_go fm w add toAdd.

(* src: FactoredMatrix.cpp:FactoredMatrix2D::operator*=(const double v) *)
Definition scale2D (fm : fmat) (v : Q) : fmat := map (bm_map (fun x => x * v)) fm.

(* element-wise update keeping the left operand's shape *)
Fixpoint zipk {X Y : Type} (op : X -> Y -> X) (a : list X) (b : list Y) : list X :=
  match a, b with
  | x :: a', y :: b' => op x y :: zipk op a' b'
  | _, _ => a
  end.

(* src: FactoredMatrix2DOps.cpp:plusEqualSubset(space, actions, BasisMatrix & retval, const BasisMatrix & rhs) *)
Definition plusEqualSubset2D (SS AA : list nat) (retval rhs : bm) : bm :=
  if ((length (bmTag retval) =? length (bmTag rhs)) && (length (bmActionTag retval) =? length (bmActionTag rhs)))%nat
  then mkBm (bmTag retval) (bmActionTag retval) (zipk (zipk Qplus) (bmVals retval) (bmVals rhs))
  else
    let se := enum_assignments SS (bmTag retval) in
    let ae := enum_assignments AA (bmActionTag retval) in
    mkBm (bmTag retval) (bmActionTag retval)
         (zipk (fun row sv =>
                  let rX := idx_of (bmTag rhs) SS (bmTag retval) sv in
                  zipk (fun x av => x + mat_get (bmVals rhs) rX (idx_of (bmActionTag rhs) AA (bmActionTag retval) av)) row ae)
               (bmVals retval) se).

(* src: FactoredMatrix2DOps.cpp:plusEqual(space, actions, FactoredMatrix2D & retval, const BasisMatrix & basis) *)
Fixpoint plusEqual2D_go (SS AA : list nat) (basis : bm) (bases : list bm) : option (list bm) :=
  match bases with
  | [] => None
  | cur :: rest =>
      let retvalBigger := (length (bmTag basis) <=? length (bmTag cur))%nat in
      let minB := if retvalBigger then basis else cur in
      let maxB := if retvalBigger then cur else basis in
      if ((length (bmActionTag minB) <=? length (bmActionTag maxB))%nat
          && sorted_contains (bmActionTag maxB) (bmActionTag minB)
          && sorted_contains (bmTag maxB) (bmTag minB))%bool
      then Some ((if retvalBigger then plusEqualSubset2D SS AA cur basis else plusEqualSubset2D SS AA basis cur) :: rest)
      else match plusEqual2D_go SS AA basis rest with Some r => Some (cur :: r) | None => None end
  end.
Definition plusEqual2D (SS AA : list nat) (fm : fmat) (basis : bm) : fmat :=
  match plusEqual2D_go SS AA basis fm with Some r => r | None => fm ++ [basis] end.
(* src: FactoredMatrix2DOps.cpp:plusEqual(space, actions, FactoredMatrix2D &, const FactoredMatrix2D &) *)
Definition plusEqualFM (SS AA : list nat) (fm rhs : fmat) : fmat := fold_left (plusEqual2D SS AA) rhs fm.

(* src: Factored/MDP/CooperativeModel.cpp:CooperativeModel::sampleSRs — the reward part:
   rews[i] = bases[i].values(toIndexPartial(tag, S, s), toIndexPartial(actionTag, graph_.getA(), a)) *)
Definition sampleSRs_rewards (SS AA : list nat) (rewards : fmat) (s a : list nat) : list Q :=
  map (fun b => bm_value SS AA b s a) rewards.
(* src: CooperativeModel.cpp:CooperativeModel::sampleSR (reward part) / getExpectedReward *)
Definition expectedReward (SS AA : list nat) (rewards : fmat) (s a : list nat) : Q := getValue2D SS AA rewards s a.
