(* C14/Spec.v — independent specification: mixed-radix positional value, written by structural
   recursion without accumulators (so it is not a copy of the code's loop). *)
From Coq Require Import List Arith.
From AIT Require Import C14.Model.
Import ListNotations.

Fixpoint radix_value (space f : list nat) : nat :=
  match space, f with
  | sp :: space', x :: f' => x + sp * radix_value space' f'
  | _, _ => 0
  end.

Definition in_space (space f : list nat) : Prop := Forall2 (fun sp x => x < sp) space f.

Definition sub (ids l : list nat) : list nat := map (fun k => nth k l 0) ids.

(* ---- enumerators ------------------------------------------------------------------------------ *)
Fixpoint remove_at {A : Type} (p : nat) (l : list A) {struct l} : list A :=
  match l with [] => [] | x :: t => match p with 0 => t | S p' => x :: remove_at p' t end end.
Fixpoint insert_at {A : Type} (p : nat) (a : A) (l : list A) : list A :=
  match p with 0 => a :: l | S p' => match l with [] => [] | x :: t => x :: insert_at p' a t end end.

(* The i-th assignment a PartialFactorsEnumerator over [keys] must show: the mixed-radix digits of i
   over the keys, except that the key at position [skipId] (if there is one) does not take part and
   is held at 0. *)
Definition enum_nth (F keys : list nat) (skipId i : nat) : list nat :=
  if skipId <? length keys
  then insert_at skipId 0 (toFactorsPartial (remove_at skipId keys) F i)
  else toFactorsPartial keys F i.
Definition enum_count (F keys : list nat) (skipId : nat) : nat :=
  match keys with
  | [] => 0
  | _ => factorSpacePartial (if skipId <? length keys then remove_at skipId keys else keys) F
  end.

(* PartialIndexEnumerator: indices (in the enumeration order of [keys]) whose digit at position [p] is [val] *)
Definition index_enum_spec (F keys : list nat) (p val : nat) : list nat :=
  filter (fun i => nth p (toFactorsPartial keys F i) 0 =? val) (seq 0 (factorSpacePartial keys F)).
