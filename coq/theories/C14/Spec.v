(* C14/Spec.v — independent specification: mixed-radix positional value, written by structural
   recursion without accumulators (so it is not a copy of the code's loop). *)
From Coq Require Import List Arith.
Import ListNotations.

Fixpoint radix_value (space f : list nat) : nat :=
  match space, f with
  | sp :: space', x :: f' => x + sp * radix_value space' f'
  | _, _ => 0
  end.

Definition in_space (space f : list nat) : Prop := Forall2 (fun sp x => x < sp) space f.

Definition sub (ids l : list nat) : list nat := map (fun k => nth k l 0) ids.
