From Coq Require Extraction.
From Coq Require Import ExtrOcamlBasic.
From AIT Require Import Base.Vio C14.Model.
Extraction "model.ml" vio_kit factorSpace toIndex toFactors factorSpacePartial toIndexPartial toFactorsPartial toIndexPartialPF.
