From Coq Require Extraction.
From Coq Require Import ExtrOcamlBasic.
From AIT Require Import Base.Vio C14.Model C14.Spec C14.ModelAlg C14.ModelDDN C14.Model2D C14.ModelLearn C14.SpecSparse.
Extraction "model.ml" vio_kit factorSpace toIndex toFactors factorSpacePartial toIndexPartial toFactorsPartial toIndexPartialPF
  checkTag removeFactor merge_keys_matches merge_keys merge_pf merge_vals match_pf match_f_pf match_keys match_pairs
  toIndexPartialKPF toIndexPF toIndexPartialAndSkip
  pfe_keys pfe_all pfe_skip pfe_skip_all pfe_advance pfe_isValid pfe_reset pfe_size pfe_visit
  pie_make pie_make_all pie_visit enum_nth enum_count index_enum_spec
  bf_dot bf_plus bf_minus bf_binop_alloc plusEqualSubset minusEqualSubset plusEqual minusEqual minusEqual_orig
  plusEqualFV minusEqualFV getValue getValueW scaleW scale
  graph_new graph_push getIds getId getIdP getIdsRev getSize getPartialSize getPartialSizeA
  getTransitionProbability getTransitionProbabilityP backProject
  toFactorsOut getValue2D getValueW2D scaleW2D scale2D plusEqualSubset2D plusEqual2D plusEqualFM
  jal_new jal_step flat_exp ql_step qzero coop_norm coop_step bp_step flattened_reward fbandit_reward sampleSRs_rewards expectedReward sparse_step rule_matches tables_are_probabilities row_is_probability
  flatQ sparse_qvalue td_share pf_index.
