(* C14/ModelAlg.v — Gallina models of the factored vector algebra
   (src/Factored/Utils/FactoredVectorOps.cpp, src/Factored/Utils/FactoredMatrix.cpp).
   doubles are exact rationals Q; Eigen vectors are lists; an unchecked read values[i] is
   [nth i values 0] (the theorems carry the length hypotheses that make every read in range).
   minusEqual is modelled AS REPAIRED by fixes/C14-minusEqual.patch; [minusEqual_orig] is the code
   as it stands in the unrepaired tree.  No proofs in this file. *)
From Coq Require Import List Arith QArith Qabs Qminmax.
From AIT Require Import C14.Model.
Import ListNotations.
Local Open Scope Q_scope.

(* src: FactoredMatrix.hpp:struct BasisFunction {tag, values} *)
Record bf := mkBf { bfTag : list nat; bfVals : list Q }.
(* src: FactoredMatrix.hpp:struct FactoredVector {bases} *)
Definition fvec := list bf.

Definition qnth (i : nat) (v : list Q) : Q := nth i v 0.

(* index of the enumerator's current assignment inside a basis with tag [tag]:
   toIndexPartial(tag, space, *e)  — unchecked reads fall back to index 0 in the model *)
Definition idx_of (tag space ek ev : list nat) : nat :=
  match toIndexPartialKPF tag space ek ev with Some i => i | None => 0%nat end.

(* "PartialFactorsEnumerator e(space, tag); for (i = 0; e.isValid(); e.advance(), ++i)" — the list
   of assignments visited.  The fuel is the enumerator's own size() + 1, enough by
   enumerator_visits_each_once_in_order. *)
Definition enum_assignments (space tag : list nat) : list (list nat) :=
  let e := pfe_keys space tag in
  match pfe_visit (S (pfe_size e)) e with Some l => l | None => [] end.

(* src: FactoredVectorOps.cpp:dot / plus / minus (BasisFunction, BasisFunction) — the three bodies
   differ only in the arithmetic operator [op] *)
Definition bf_binop (op : Q -> Q -> Q) (space : list nat) (lhs rhs : bf) : bf :=
  let tag := merge_keys (bfTag lhs) (bfTag rhs) in
  mkBf tag
       (map (fun ev => op (qnth (idx_of (bfTag lhs) space tag ev) (bfVals lhs))
                          (qnth (idx_of (bfTag rhs) space tag ev) (bfVals rhs)))
            (enum_assignments space tag)).
Definition bf_dot := bf_binop Qmult.
Definition bf_plus := bf_binop Qplus.
Definition bf_minus := bf_binop Qminus.
(* "retval.values.resize(toIndexPartial(retval.tag, space, space))": the allocated length, which
   exceeds the number of entries written whenever the merged tag has more than one key. *)
Definition bf_binop_alloc (space : list nat) (lhs rhs : bf) : nat :=
  let tag := merge_keys (bfTag lhs) (bfTag rhs) in toIndexPartial tag space space.

(* Eigen "a += b" / "a -= b" on vectors (a's length is kept) *)
Fixpoint vzip {B : Type} (op : Q -> B -> Q) (a : list Q) (b : list B) : list Q :=
  match a, b with
  | x :: a', y :: b' => op x y :: vzip op a' b'
  | _, _ => a
  end.

(* src: FactoredVectorOps.cpp:plusEqualSubset / minusEqualSubset *)
Definition subset_op (op : Q -> Q -> Q) (space : list nat) (retval rhs : bf) : bf :=
  if (length (bfTag retval) =? length (bfTag rhs))%nat
  then mkBf (bfTag retval) (vzip op (bfVals retval) (bfVals rhs))
  else mkBf (bfTag retval)
            (vzip (fun x ev => op x (qnth (idx_of (bfTag rhs) space (bfTag retval) ev) (bfVals rhs)))
                  (bfVals retval) (enum_assignments space (bfTag retval))).
Definition plusEqualSubset := subset_op Qplus.
Definition minusEqualSubset := subset_op Qminus.

(* src: Utils/Core.hpp:sequential_sorted_contains(const V & v, const V & elems) *)
Fixpoint list_eqb (a b : list nat) : bool :=
  match a, b with
  | [], [] => true
  | x :: a', y :: b' => if (x =? y)%nat then list_eqb a' b' else false
  | _, _ => false
  end.
Fixpoint ssc_go (v elems : list nat) {struct elems} : bool :=
  match elems with
  | [] => true
  | e :: et =>
      (fix scan (v : list nat) : bool :=
         match v with
         | [] => false
         | x :: vt => if (x <? e)%nat then scan vt
                      else if (e <? x)%nat then false
                      else ssc_go vt et
         end) v
  end.
Definition sorted_contains (v elems : list nat) : bool :=
  if (length v =? length elems)%nat then list_eqb v elems else ssc_go v elems.

Definition bf_neg (b : bf) : bf := mkBf (bfTag b) (map Qopp (bfVals b)).

(* the merge loop shared by plusEqual / minusEqual (FactoredVector, BasisFunction):
   [into cur]  = what replaces curBasis when its tag contains the new basis' tag,
   [onto cur]  = what replaces curBasis when the new basis' tag strictly contains it. *)
Fixpoint merge_loop (into onto : bf -> bf) (basis : bf) (bases : list bf) : option (list bf * nat) :=
  match bases with
  | [] => None
  | cur :: rest =>
      let retvalBigger := (length (bfTag basis) <=? length (bfTag cur))%nat in
      let minB := if retvalBigger then basis else cur in
      let maxB := if retvalBigger then cur else basis in
      if sorted_contains (bfTag maxB) (bfTag minB)
      then Some ((if retvalBigger then into cur else onto cur) :: rest, 0%nat)
      else match merge_loop into onto basis rest with
           | Some (r, i) => Some (cur :: r, S i)
           | None => None
           end
  end.

(* src: FactoredVectorOps.cpp:plusEqual(const Factors &, FactoredVector &, const BasisFunction &) *)
Definition plusEqual (space : list nat) (fv : fvec) (basis : bf) : fvec :=
  match merge_loop (fun cur => plusEqualSubset space cur basis)
                   (fun cur => plusEqualSubset space basis cur) basis fv with
  | Some (r, _) => r
  | None => fv ++ [basis]
  end.

(* src: Utils/Core.hpp:checkEqualGeneral(v, 0.0) for a vector:
   |x| <= 1e-6  ||  |x - 0| <= min(|x|, 0) * 1e-11 *)
Definition eqSmallZero (x : Q) : bool := Qle_bool (Qabs x) (1 # 1000000).
Definition allZeroGeneral (v : list Q) : bool :=
  forallb (fun x => eqSmallZero x || Qle_bool (Qabs x) (Qmin (Qabs x) 0 * (1 # 100000000000))) v.

Fixpoint erase_at {A : Type} (i : nat) (l : list A) : list A :=
  match l with [] => [] | x :: t => match i with 0%nat => t | S i' => x :: erase_at i' t end end.

(* src: FactoredVectorOps.cpp:minusEqual(const Factors &, FactoredVector &, const BasisFunction &, bool clearZero)
   AFTER fixes/C14-minusEqual.patch *)
Definition minusEqual (space : list nat) (fv : fvec) (basis : bf) (clearZero : bool) : fvec :=
  match merge_loop (fun cur => minusEqualSubset space cur basis)
                   (fun cur => plusEqualSubset space (bf_neg basis) cur) basis fv with
  | Some (r, i) =>
      if clearZero && allZeroGeneral (bfVals (nth i r (mkBf [] []))) then erase_at i r else r
  | None => fv ++ [bf_neg basis]
  end.

(* the unrepaired code: same loop as plusEqual, un-negated push_back *)
Definition minusEqual_orig (space : list nat) (fv : fvec) (basis : bf) (clearZero : bool) : fvec :=
  match merge_loop (fun cur => plusEqualSubset space cur basis)
                   (fun cur => plusEqualSubset space basis cur) basis fv with
  | Some (r, i) =>
      if clearZero && allZeroGeneral (bfVals (nth i r (mkBf [] []))) then erase_at i r else r
  | None => fv ++ [basis]
  end.

(* src: FactoredVectorOps.cpp:plusEqual / minusEqual (FactoredVector, FactoredVector) *)
Definition plusEqualFV (space : list nat) (fv rhs : fvec) : fvec :=
  fold_left (plusEqual space) rhs fv.
Definition minusEqualFV (space : list nat) (fv rhs : fvec) (clearZero : bool) : fvec :=
  fold_left (fun acc b => minusEqual space acc b clearZero) rhs fv.

(* src: FactoredMatrix.cpp:FactoredVector::getValue(space, value) *)
Definition bf_value (space : list nat) (b : bf) (x : list nat) : Q :=
  qnth (toIndexPartial (bfTag b) space x) (bfVals b).
Definition getValue (space : list nat) (fv : fvec) (x : list nat) : Q :=
  fold_left (fun acc b => acc + bf_value space b x) fv 0.

(* src: FactoredMatrix.cpp:FactoredVector::getValue(space, value, weights) *)
Fixpoint getValueW_go (space : list nat) (fv : fvec) (x : list nat) (w : list Q) (acc : Q) : Q :=
  match fv with
  | [] => acc
  | b :: t => getValueW_go space t x (tl w) (acc + bf_value space b x * qnth 0 w)
  end.
Definition getValueW (space : list nat) (fv : fvec) (x : list nat) (w : list Q) : Q :=
  let init := if (length w =? S (length fv))%nat then qnth (length fv) w else 0 in
  getValueW_go space fv x w init.

(* src: FactoredMatrix.cpp:FactoredVector::operator*=(const Vector & weights) *)
Fixpoint scaleW_go (fv : fvec) (w : list Q) (add : bool) (toAdd : Q) : fvec :=
  match fv with
  | [] => []
  | b :: t =>
      mkBf (bfTag b) (map (fun v => if add then v * qnth 0 w + toAdd else v * qnth 0 w) (bfVals b))
      :: scaleW_go t (tl w) add toAdd
  end.
Definition scaleW (fv : fvec) (w : list Q) : fvec :=
  let add := (length w =? S (length fv))%nat in
  let toAdd := qnth (length w - 1) w / inject_Z (Z.of_nat (length fv)) in
  scaleW_go fv w add toAdd.

(* src: FactoredMatrix.cpp:FactoredVector::operator*=(const double v) *)
Definition scale (fv : fvec) (v : Q) : fvec :=
  map (fun b => mkBf (bfTag b) (map (fun x => x * v) (bfVals b))) fv.
