(* C14/SpecDDN.v — what a dynamic decision network means: each next-state factor i draws its value
   from the row of its conditional table selected by the parents' values under (s, a); the joint
   probability is the product of the local ones. *)
From Coq Require Import List Arith QArith.
From AIT Require Import C14.Model C14.Spec C14.ModelAlg C14.ModelDDN.
Import ListNotations.
Local Open Scope Q_scope.

Definition qprod (l : list Q) : Q := fold_right Qmult 1 l.
Definition qsum (l : list Q) : Q := fold_right Qplus 0 l.

(* every full assignment of a space (first factor least significant) *)
Fixpoint all_assign (sizes : list nat) : list (list nat) :=
  match sizes with
  | [] => [[]]
  | sp :: t => flat_map (fun tl => map (fun v => v :: tl) (seq 0 sp)) (all_assign t)
  end.

(* row of feature i's table for (s, a): the tables of the action values before the chosen one come
   first (prefix sum of their sizes), then the position of the parents' values *)
Definition action_id (g : ddnGraph) (i : nat) (a : list nat) : nat :=
  let ps := nth i (gParents g) emptyPS in radix_value (sub (psAgents ps) (gA g)) (sub (psAgents ps) a).
Definition local_row (g : ddnGraph) (i : nat) (s a : list nat) : nat :=
  let ps := nth i (gParents g) emptyPS in
  let aid := action_id g i a in
  let feats := nth aid (psFeatures ps) [] in
  (fold_right Nat.add 0%nat (map (fun f => factorSpace (sub f (gS g))) (firstn aid (psFeatures ps)))
   + radix_value (sub feats (gS g)) (sub feats s))%nat.
Definition local_prob (g : ddnGraph) (T : list matrix) (i : nat) (s a : list nat) (v : nat) : Q :=
  nth v (nth (local_row g i s a) (nth i T []) []) 0.

(* the start ids are the prefix sums computed by push, one parent set per state factor *)
Definition graph_wf (g : ddnGraph) : Prop :=
  gStart g = map (fun ps => startIds_go (gS g) (psFeatures ps) 0) (gParents g).
Definition graph_complete (g : ddnGraph) : Prop := length (gParents g) = length (gS g).
(* the action selects an existing parent set for every factor *)
Definition action_in_range (g : ddnGraph) (a : list nat) : Prop :=
  forall i, (i < length (gS g))%nat -> (action_id g i a < length (psFeatures (nth i (gParents g) emptyPS)))%nat.
(* the rows used under (s, a) are probability distributions over the factor's values *)
Definition rows_stochastic (g : ddnGraph) (T : list matrix) (s a : list nat) : Prop :=
  forall i, (i < length (gS g))%nat ->
    qsum (map (local_prob g T i s a) (seq 0 (nth i (gS g) 0%nat))) == 1.
