(* C14/ProofsLearn.v — JointActionLearner's joint table is flat QLearning; CooperativeQLearning with a
   single factor spanning all agents is flat QLearning on the summed reward. *)
From Coq Require Import List Arith Lia QArith Lqa.
From AIT Require Import C14.Model C14.Spec C14.ModelAlg C14.ModelDDN C14.SpecDDN C14.ProofsDDN
  C14.ProofsBP C14.Model2D C14.ModelLearn.
Import ListNotations.
Local Open Scope Q_scope.

(* ---------------------------------------------------------------- upd ---- *)
Lemma upd_length : forall (A : Type) (l : list A) i x, length (upd l i x) = length l.
Proof. induction l as [|y l IH]; intros [|i] x; cbn [upd length]; auto. Qed.

Lemma nth_upd_same : forall (A : Type) (l : list A) i x d, (i < length l)%nat -> nth i (upd l i x) d = x.
Proof.
  induction l as [|y l IH]; intros [|i] x d H; cbn [length] in H; try lia; cbn [upd nth]; auto.
  apply IH; lia.
Qed.

Lemma nth_upd_other : forall (A : Type) (l : list A) i j x d, j <> i -> nth j (upd l i x) d = nth j l d.
Proof.
  induction l as [|y l IH]; intros [|i] [|j] x d H; cbn [upd nth]; auto; try congruence.
Qed.

(* ---------------------------------------------------------------- JointActionLearner ---- *)
Lemma jal_step_fields : forall st e,
  jalQ (jal_step st e) = ql_step (jalAlpha st) (jalGamma st) (jalQ st) (flat_exp (jalA st) e) /\
  jalA (jal_step st e) = jalA st /\ jalAlpha (jal_step st e) = jalAlpha st /\ jalGamma (jal_step st e) = jalGamma st.
Proof. intros st [[[s aa] s1] rew]. repeat split. Qed.

Theorem jal_eq_qlearning_lemma : forall hist st,
  jalQ (fold_left jal_step hist st) =
  fold_left (ql_step (jalAlpha st) (jalGamma st)) (map (flat_exp (jalA st)) hist) (jalQ st).
Proof.
  induction hist as [|e hist IH]; intros st; cbn [fold_left map]; [reflexivity|].
  destruct (jal_step_fields st e) as [HQ [HA [Hal Hga]]]. rewrite IH, HQ, HA, Hal, Hga. reflexivity.
Qed.

(* ---------------------------------------------------------------- CooperativeQLearning ---- *)
Lemma vadd_fold_nth : forall val k start per j, (start + k <= length per)%nat ->
  let r := fold_left (fun p ag => vadd_at p ag val) (seq start k) per in
  length r = length per /\
  nth j r 0 = if ((start <=? j) && (j <? start + k))%nat%bool then nth j per 0 + val else nth j per 0.
Proof.
  intros val k; induction k as [|k IH]; intros start per j H; cbn [seq fold_left].
  - split; [reflexivity|]. destruct (start <=? j)%nat eqn:E1; destruct (j <? start + 0)%nat eqn:E2; cbn [andb]; try reflexivity.
    apply Nat.leb_le in E1. apply Nat.ltb_lt in E2. lia.
  - specialize (IH (S start) (vadd_at per start val) j). unfold vadd_at in *. rewrite upd_length in IH.
    destruct (IH ltac:(lia)) as [Hl Hn]. split; [exact Hl|]. rewrite Hn. unfold nthq.
    destruct (Nat.eq_dec j start) as [->|Hne].
    + rewrite nth_upd_same by lia.
      replace (S start <=? start)%nat with false by (symmetry; apply Nat.leb_gt; lia).
      replace (start <=? start)%nat with true by (symmetry; apply Nat.leb_le; lia).
      replace (start <? start + S k)%nat with true by (symmetry; apply Nat.ltb_lt; lia). reflexivity.
    + rewrite nth_upd_other by assumption.
      destruct (S start <=? j)%nat eqn:E1; destruct (j <? S start + k)%nat eqn:E2;
        destruct (start <=? j)%nat eqn:E3; destruct (j <? start + S k)%nat eqn:E4; cbn [andb]; try reflexivity; exfalso;
        repeat match goal with
               | H : (_ <=? _)%nat = true |- _ => apply Nat.leb_le in H
               | H : (_ <=? _)%nat = false |- _ => apply Nat.leb_gt in H
               | H : (_ <? _)%nat = true |- _ => apply Nat.ltb_lt in H
               | H : (_ <? _)%nat = false |- _ => apply Nat.ltb_ge in H
               end; lia.
Qed.

Lemma vadd_fold_all : forall val per,
  fold_left (fun p ag => vadd_at p ag val) (seq 0 (length per)) per = map (fun x => x + val) per.
Proof.
  intros val per. apply nth_ext with (d := 0) (d' := 0 + val).
  - destruct (vadd_fold_nth val (length per) 0 per 0 ltac:(lia)) as [Hl _]. rewrite Hl, map_length. reflexivity.
  - intros j Hj. destruct (vadd_fold_nth val (length per) 0 per j ltac:(lia)) as [Hl Hn].
    rewrite Hl in Hj. rewrite Hn. rewrite (map_nth (fun x => x + val)).
    replace (0 <=? j)%nat with true by (symmetry; apply Nat.leb_le; lia).
    replace (j <? 0 + length per)%nat with true by (symmetry; apply Nat.ltb_lt; lia). reflexivity.
Qed.

Lemma map_repeat_Q : forall (f : Q -> Q) x n, map f (repeat x n) = repeat (f x) n.
Proof. intros f x n; induction n as [|n IH]; cbn [repeat map]; [reflexivity| rewrite IH; reflexivity]. Qed.

Lemma map_nthq_seq : forall l : list Q, map (nthq l) (seq 0 (length l)) = l.
Proof.
  intros l. apply nth_ext with (d := nthq l 0%nat) (d' := 0).
  - rewrite map_length, seq_length. reflexivity.
  - intros n Hn. rewrite map_length, seq_length in Hn.
    rewrite (map_nth (nthq l)). rewrite seq_nth by assumption. reflexivity.
Qed.

Lemma fold_nthq_sum : forall l,
  fold_left (fun u ag => u + nthq l ag) (seq 0 (length l)) 0 == qsum l.
Proof. intros l. rewrite (fold_left_sum _ (nthq l)). rewrite map_nthq_seq. ring. Qed.

Lemma vdiv_ones : forall rew, qsum (vdiv rew (repeat 1 (length rew))) == qsum rew.
Proof.
  intros rew; unfold qsum; induction rew as [|x rew IH]; cbn [length repeat vdiv fold_right]; [reflexivity|].
  rewrite IH. field.
Qed.

Lemma vdiv_ones_length : forall rew, length (vdiv rew (repeat 1 (length rew))) = length rew.
Proof. induction rew as [|x rew IH]; cbn [length repeat vdiv]; [reflexivity| rewrite IH; reflexivity]. Qed.

Lemma qsum_map_affine : forall (l : list Q) c alpha,
  qsum (map (fun x => (x + c) * alpha) l) == alpha * (qsum l + natQ (length l) * c).
Proof.
  intros l c alpha; unfold qsum; induction l as [|x l IH]; cbn [map fold_right length].
  - unfold natQ. change (inject_Z (Z.of_nat 0)) with 0. ring.
  - rewrite IH. unfold natQ. rewrite Nat2Z.inj_succ. unfold Z.succ. rewrite inject_Z_plus.
    change (inject_Z 1) with 1. ring.
Qed.

Lemma natQ_pos : forall n, (0 < n)%nat -> ~ natQ n == 0.
Proof.
  intros n H. unfold natQ. intros E.
  assert (Hz : (0 < Z.of_nat n)%Z) by lia. rewrite Zlt_Qlt in Hz. change (inject_Z 0) with 0 in Hz. lra.
Qed.

Lemma upd2_Qeq : forall m r c x y, x == y -> upd2 m r c x = upd2 m r c y.
Proof. intros m r c x y H. unfold upd2. rewrite (Qred_complete x y H). reflexivity. Qed.

(* one step of CooperativeQLearning whose only basis has the action tag (0 … n-1) = all agents *)
Theorem coop_single_step_lemma : forall SS AA alpha gamma q s a s1 a1 rew,
  bmActionTag q = seq 0 (length AA) -> (0 < length AA)%nat -> length rew = length AA ->
  let sid := toIndexPartial (bmTag q) SS s in
  let aid := toIndexPartial (bmActionTag q) AA a in
  coop_step SS AA (coop_norm (length AA) [q]) alpha gamma [q] s a s1 a1 rew =
  [bm_set q sid aid (mat_get (bmVals q) sid aid +
                     alpha * (qsum rew + gamma * bm_value SS AA q s1 a1 - mat_get (bmVals q) sid aid))].
Proof.
  intros SS AA alpha gamma q s a s1 a1 rew Htag Hn Hrew sid aid.
  set (n := length AA) in *.
  assert (Hnorm : coop_norm n [q] = repeat 1 n).
  { unfold coop_norm. cbn [fold_left]. rewrite Htag.
    rewrite <- (repeat_length 0 n) at 1. rewrite vadd_fold_all. rewrite map_repeat_Q. reflexivity. }
  rewrite Hnorm. unfold coop_step. cbn [fold_left map]. subst sid aid. rewrite !Htag. fold n.
  set (per0 := vdiv rew (repeat 1 n)).
  assert (Hl0 : length per0 = n) by (subst per0; rewrite <- Hrew; apply vdiv_ones_length).
  assert (Hall : forall val per, length per = n ->
            fold_left (fun p ag => vadd_at p ag val) (seq 0 n) per = map (fun x => x + val) per).
  { intros val per Hl. rewrite <- Hl. apply vadd_fold_all. }
  rewrite (Hall _ per0 Hl0).
  rewrite (Hall _ (map _ per0)) by (rewrite map_length; exact Hl0).
  rewrite !map_map. rewrite seq_length.
  set (val1 := gamma * bm_value SS AA q s1 a1 / natQ n).
  set (val0 := - bm_value SS AA q s a / natQ n).
  set (per3 := map (fun x => (x + val1 + val0) * alpha) per0).
  assert (Hl3 : length per3 = n) by (subst per3; rewrite map_length; exact Hl0).
  f_equal. unfold bm_set. f_equal. apply upd2_Qeq.
  assert (Hsum : fold_left (fun u ag => u + nthq per3 ag) (seq 0 n) 0 == qsum per3).
  { rewrite <- Hl3. apply fold_nthq_sum. }
  rewrite Hsum. subst per3.
  rewrite (qsum_map_ext _ per0 _ (fun x => (x + (val1 + val0)) * alpha)) by (intros x _; ring).
  rewrite qsum_map_affine. rewrite Hl0.
  subst per0. unfold n at 1. rewrite <- Hrew, vdiv_ones. subst val1 val0.
  unfold bm_value. rewrite !Htag. fold n.
  rewrite !Hrew. field. apply natQ_pos. exact Hn.
Qed.

(* ... is one step of flat QLearning on the flattened experience with the summed reward, provided the
   action a1 returned by the greedy policy attains the maximum of the table's row at s1 *)
Theorem coop_single_eq_qlearning_lemma : forall SS AA alpha gamma q s a s1 a1 rew,
  bmActionTag q = seq 0 (length AA) -> (0 < length AA)%nat -> length rew = length AA ->
  bm_value SS AA q s1 a1 == maxl (row (bmVals q) (toIndexPartial (bmTag q) SS s1)) ->
  coop_step SS AA (coop_norm (length AA) [q]) alpha gamma [q] s a s1 a1 rew =
  [mkBm (bmTag q) (bmActionTag q)
        (ql_step alpha gamma (bmVals q)
                 (toIndexPartial (bmTag q) SS s, toIndexPartial (bmActionTag q) AA a,
                  toIndexPartial (bmTag q) SS s1, qsum rew))].
Proof.
  intros SS AA alpha gamma q s a s1 a1 rew Htag Hn Hrew Hgreedy.
  rewrite coop_single_step_lemma by assumption. unfold bm_set, ql_step. f_equal. f_equal.
  apply upd2_Qeq. unfold qget, mat_get, nthq, row. rewrite Hgreedy. unfold row. reflexivity.
Qed.

(* ---- whole histories ---- *)
Definition cexp := (list nat * list nat * list nat * list nat * list Q)%type.   (* s, a, s1, a1, rew *)

Definition coop_run (SS AA : list nat) (alpha gamma : Q) (fm : fmat) (hist : list cexp) : fmat :=
  fold_left (fun fm (e : cexp) => let '(s, a, s1, a1, rew) := e in
             coop_step SS AA (coop_norm (length AA) fm) alpha gamma fm s a s1 a1 rew) hist fm.

Definition flat_cexp (SS AA tag : list nat) (e : cexp) : nat * nat * nat * Q :=
  let '(s, a, s1, a1, rew) := e in
  (toIndexPartial tag SS s, toIndexPartial (seq 0 (length AA)) AA a, toIndexPartial tag SS s1, qsum rew).

(* every a1 in the history is greedy for the table current at that step, every reward vector has one
   entry per agent *)
Fixpoint greedy_hist (SS AA tag : list nat) (alpha gamma : Q) (tab : qtab) (hist : list cexp) : Prop :=
  match hist with
  | [] => True
  | e :: t =>
      let '(s, a, s1, a1, rew) := e in
      length rew = length AA /\
      mat_get tab (toIndexPartial tag SS s1) (toIndexPartial (seq 0 (length AA)) AA a1)
        == maxl (row tab (toIndexPartial tag SS s1)) /\
      greedy_hist SS AA tag alpha gamma (ql_step alpha gamma tab (flat_cexp SS AA tag e)) t
  end.

Theorem coop_single_history_lemma : forall SS AA alpha gamma tag hist tab,
  (0 < length AA)%nat -> greedy_hist SS AA tag alpha gamma tab hist ->
  coop_run SS AA alpha gamma [mkBm tag (seq 0 (length AA)) tab] hist =
  [mkBm tag (seq 0 (length AA)) (fold_left (ql_step alpha gamma) (map (flat_cexp SS AA tag) hist) tab)].
Proof.
  intros SS AA alpha gamma tag hist; induction hist as [|e hist IH]; intros tab Hn Hg; [reflexivity|].
  destruct e as [[[[s a] s1] a1] rew]. cbn [greedy_hist] in Hg. destruct Hg as [Hrew [Hgr Hrest]].
  unfold coop_run in *. cbn [fold_left map].
  rewrite (coop_single_eq_qlearning_lemma SS AA alpha gamma (mkBm tag (seq 0 (length AA)) tab) s a s1 a1 rew)
    by (try reflexivity; assumption).
  cbn [bmTag bmActionTag bmVals]. apply IH; assumption.
Qed.

(* ---------------------------------------------------------------- FlattenedModel ---- *)
From AIT Require Import C14.Proofs C14.Proofs2D.
Theorem flattened_model_eq_factored_lemma : forall A groups helper a,
  length helper = length A ->
  fst (flattened_reward A groups helper a) = fbandit_reward A groups (toFactors A a) /\
  length (snd (flattened_reward A groups helper a)) = length A.
Proof.
  intros A groups helper a H. unfold flattened_reward. cbn [fst snd].
  rewrite toFactorsOut_overwrites_lemma by assumption. split; [reflexivity | apply toFactors_length].
Qed.
