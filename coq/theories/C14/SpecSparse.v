(* C14/SpecSparse.v — round 6: flat meaning of a QFunctionRule set (SparseCooperativeQLearning) and of
   toIndex(space, PartialFactors).  Definitions only. *)
From Coq Require Import List Arith QArith.
From AIT Require Import C14.Model C14.SpecDDN C14.ModelLearn.
Import ListNotations.
Local Open Scope Q_scope.

(* ---- rule sets ---------------------------------------------------------------------------------- *)
(* flat expansion of a rule set: Q(s,a) = sum over ALL rules of (value if the rule matches (s,a), else 0) *)
Definition flatQ (rules : list qrule) (s a : list nat) : Q :=
  qsum (map (fun r => if rule_matches r s a then rVal r else 0) rules).

(* the lookup as the code does it: accumulate the values of rules_.filter(join(s, a)) *)
Definition sparse_qvalue (rules : list qrule) (s a : list nat) : Q :=
  fold_left (fun acc r => acc + rVal r) (filter (fun r => rule_matches r s a) rules) 0.

(* how many times agent j occurs in a key list (0 or 1 for a valid tag) *)
Definition occ (j : nat) (ks : list nat) : Q := qsum (map (fun k => if (k =? j)%nat then 1 else 0) ks).
(* total of f(r) over the rules of rs whose action tag contains agent j *)
Definition contrib (j : nat) (f : qrule -> Q) (rs : list qrule) : Q :=
  qsum (map (fun r => occ j (rAK r) * f r) rs).

(* agent j's share of the temporal-difference error, as SparseCooperativeQLearning::stepUpdateQ computes it:
   alpha * ( rew[j] / #(before-rules containing j)
             + sum_{after-rules r containing j}  discount * r.value / |r.action|
             - sum_{before-rules r containing j} r.value / |r.action| ),
   before = rules matching (s,a), after = rules matching (s1,a1) *)
Definition td_share (alpha gamma : Q) (rules : list qrule) (s a s1 a1 : list nat) (rew : list Q) (j : nat) : Q :=
  let before := filter (fun r => rule_matches r s a) rules in
  let after := filter (fun r => rule_matches r s1 a1) rules in
  alpha * (nthq rew j / contrib j (fun _ => 1) before
           + contrib j (fun r => gamma * rVal r / natQ (length (rAK r))) after
           + contrib j (fun r => - rVal r / natQ (length (rAK r))) before).

(* ---- toIndex(space, PartialFactors) --------------------------------------------------------------- *)
Definition prodl (l : list nat) : nat := fold_right Nat.mul 1%nat l.
(* sum over the keys of value * (product of the sizes of ALL lower-numbered factors) *)
Fixpoint pf_index (space pk pv : list nat) : nat :=
  match pk with
  | [] => 0%nat
  | k :: ks => match pv with
               | [] => 0%nat
               | v :: vs => (v * prodl (firstn k space) + pf_index space ks vs)%nat
               end
  end.
