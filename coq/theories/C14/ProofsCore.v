(* C14/ProofsCore.v — characterising theorems for the tag utilities of Core.cpp:
   checkTag, removeFactor, merge (value overloads), match (all overloads), toIndexPartialAndSkip. *)
From Coq Require Import List Arith Lia Bool.
From AIT Require Import C14.Model C14.Spec C14.Proofs C14.ProofsAlg.
Import ListNotations.

(* ---------------------------------------------------------------- strictly increasing lists ---- *)
Lemma strict_all_gt : forall x l, strict (x :: l) -> Forall (fun y => x < y) l.
Proof.
  intros x l; revert x; induction l as [|y l IH]; intros x H; [constructor|].
  inversion H; subst. constructor; [assumption|].
  specialize (IH y ltac:(assumption)). rewrite Forall_forall in *. intros z Hz. specialize (IH z Hz). lia.
Qed.

Lemma strict_tail : forall x l, strict (x :: l) -> strict l.
Proof. intros x l H; inversion H; subst; [constructor|assumption]. Qed.

Lemma strict_pigeon : forall n l x, strict (x :: l) -> Forall (fun k => k < n) (x :: l) -> x + length (x :: l) <= n.
Proof.
  intros n l; induction l as [|y l IH]; intros x Hs Hf.
  - inversion Hf; subst. cbn [length]. lia.
  - inversion Hs; subst. inversion Hf; subst. specialize (IH y ltac:(assumption) ltac:(assumption)).
    cbn [length] in *. lia.
Qed.

(* ---------------------------------------------------------------- checkTag ---- *)
Lemma checkTag_go_ok : forall n rest prev t,
  fst (checkTag_go n prev t rest) = TENone <-> strict (prev :: rest) /\ Forall (fun k => k < n) rest.
Proof.
  intros n rest; induction rest as [|v rest IH]; intros prev t; cbn [checkTag_go].
  - cbn [fst]. split; [intros _; split; constructor | reflexivity].
  - destruct (n <=? v) eqn:E1.
    { apply Nat.leb_le in E1. cbn [fst]. split; [discriminate|]. intros [_ Hf]. inversion Hf; subst. lia. }
    apply Nat.leb_gt in E1. destruct (v <? prev) eqn:E2.
    { apply Nat.ltb_lt in E2. cbn [fst]. split; [discriminate|]. intros [Hs _]. inversion Hs; subst. lia. }
    apply Nat.ltb_ge in E2. destruct (v =? prev) eqn:E3.
    { apply Nat.eqb_eq in E3. cbn [fst]. split; [discriminate|]. intros [Hs _]. inversion Hs; subst. lia. }
    apply Nat.eqb_neq in E3. rewrite IH. split.
    + intros [Hs Hf]. split; [constructor; [lia|assumption] | constructor; assumption].
    + intros [Hs Hf]. inversion Hs; subst. inversion Hf; subst. split; assumption.
Qed.

Theorem checkTag_ok_iff_lemma : forall space tag,
  fst (checkTag space tag) = TENone <->
  tag <> [] /\ strict tag /\ Forall (fun k => k < length space) tag.
Proof.
  intros space tag. unfold checkTag. destruct tag as [|v0 rest].
  - cbn [fst]. split; [discriminate | intros [H _]; congruence].
  - destruct (length space <? length (v0 :: rest)) eqn:E1.
    { apply Nat.ltb_lt in E1. cbn [fst]. split; [discriminate|]. intros [_ [Hs Hf]].
      pose proof (strict_pigeon _ _ _ Hs Hf). lia. }
    destruct (length space <=? v0) eqn:E2.
    { apply Nat.leb_le in E2. cbn [fst]. split; [discriminate|]. intros [_ [_ Hf]]. inversion Hf; subst. lia. }
    apply Nat.leb_gt in E2. rewrite checkTag_go_ok. split.
    + intros [Hs Hf]. repeat split; [discriminate | assumption | constructor; assumption].
    + intros [_ [Hs Hf]]. inversion Hf; subst. split; assumption.
Qed.

(* ---------------------------------------------------------------- removeFactor ---- *)
Definition drop_key (f : nat) (l : list (nat * nat)) : list (nat * nat) :=
  filter (fun kv => negb (fst kv =? f)) l.

Lemma drop_key_id : forall f keys vals, Forall (fun k => k <> f) keys -> drop_key f (combine keys vals) = combine keys vals.
Proof.
  intros f keys; induction keys as [|k ks IH]; intros vals H; [reflexivity|].
  destruct vals as [|v vs]; [reflexivity|]. inversion H; subst. cbn [combine drop_key filter fst].
  replace (k =? f) with false by (symmetry; apply Nat.eqb_neq; assumption). cbn [negb].
  f_equal. apply IH; assumption.
Qed.

Lemma removeFactor_go_spec : forall f keys vals, strict keys ->
  match removeFactor_go keys vals f with
  | Some (ks', vs') => combine ks' vs' = drop_key f (combine keys vals)
  | None => drop_key f (combine keys vals) = combine keys vals
  end.
Proof.
  intros f keys; induction keys as [|k ks IH]; intros vals Hs; cbn [removeFactor_go]; [reflexivity|].
  destruct vals as [|v vs]; [reflexivity|].
  pose proof (strict_all_gt _ _ Hs) as Hgt. pose proof (strict_tail _ _ Hs) as Ht.
  destruct (k <? f) eqn:E1.
  - apply Nat.ltb_lt in E1. specialize (IH vs Ht).
    cbn [combine drop_key filter fst]. replace (k =? f) with false by (symmetry; apply Nat.eqb_neq; lia). cbn [negb].
    destruct (removeFactor_go ks vs f) as [[ks' vs']|].
    + cbn [combine]. f_equal. exact IH.
    + f_equal. exact IH.
  - apply Nat.ltb_ge in E1. destruct (k =? f) eqn:E2.
    + apply Nat.eqb_eq in E2; subst k. cbn [combine drop_key filter fst]. rewrite Nat.eqb_refl. cbn [negb].
      symmetry. apply drop_key_id. rewrite Forall_forall in *. intros y Hy. specialize (Hgt y Hy). lia.
    + apply Nat.eqb_neq in E2. apply (drop_key_id f (k :: ks) (v :: vs)).
      constructor; [assumption|]. rewrite Forall_forall in *. intros y Hy. specialize (Hgt y Hy). lia.
Qed.

Theorem removeFactor_spec_lemma : forall keys vals f, strict keys ->
  combine (fst (removeFactor keys vals f)) (snd (removeFactor keys vals f)) = drop_key f (combine keys vals).
Proof.
  intros keys vals f Hs. unfold removeFactor. pose proof (removeFactor_go_spec f keys vals Hs) as H.
  destruct (removeFactor_go keys vals f) as [[ks' vs']|]; cbn [fst snd]; [assumption | symmetry; assumption].
Qed.

(* ---------------------------------------------------------------- merge (value overloads) ---- *)
Fixpoint pf_lookup (k : nat) (l : list (nat * nat)) : option nat :=
  match l with
  | [] => None
  | (k', v) :: t => if k' =? k then Some v else pf_lookup k t
  end.

Lemma merge_pf_keys : forall fuel lhs rhs i j,
  map fst (merge_pf_go fuel lhs rhs) = fst (merge_keys_go fuel (map fst lhs) (map fst rhs) i j).
Proof.
  induction fuel as [|fuel IH]; intros lhs rhs i j; [reflexivity|].
  cbn [merge_pf_go merge_keys_go]. destruct lhs as [|[a va] lt]; [reflexivity|].
  destruct rhs as [|[b vb] rt]; [reflexivity|]. cbn [map fst].
  destruct (a =? b) eqn:Eab.
  - apply Nat.eqb_eq in Eab; subst b. rewrite Nat.ltb_irrefl.
    specialize (IH lt rt (S i) (S j)). destruct (merge_keys_go fuel (map fst lt) (map fst rt) (S i) (S j)) as [r m].
    cbn [map fst] in *. f_equal. exact IH.
  - destruct (a <? b) eqn:Elt.
    + specialize (IH lt ((b, vb) :: rt) (S i) j). cbn [map fst] in IH.
      destruct (merge_keys_go fuel (map fst lt) (b :: map fst rt) (S i) j) as [r m].
      cbn [map fst] in *. f_equal. exact IH.
    + specialize (IH ((a, va) :: lt) rt i (S j)). cbn [map fst] in IH.
      destruct (merge_keys_go fuel (a :: map fst lt) (map fst rt) i (S j)) as [r m].
      cbn [map fst] in *. f_equal. exact IH.
Qed.

Lemma pf_lookup_none_gt : forall k l m, head_ge m (map fst l) -> strict (map fst l) -> k < m -> pf_lookup k l = None.
Proof.
  intros k l; induction l as [|[k' v] t IH]; intros m Hh Hs Hk; [reflexivity|].
  cbn [map fst head_ge] in *. cbn [pf_lookup]. replace (k' =? k) with false by (symmetry; apply Nat.eqb_neq; lia).
  destruct (strict_tl _ _ Hs) as [Ht Hht]. apply (IH (S k')); [assumption|assumption|lia].
Qed.

(* rhs wins on common keys *)
Lemma merge_pf_lookup : forall fuel lhs rhs k,
  length lhs + length rhs < fuel -> strict (map fst lhs) -> strict (map fst rhs) ->
  pf_lookup k (merge_pf_go fuel lhs rhs) =
  match pf_lookup k rhs with Some v => Some v | None => pf_lookup k lhs end.
Proof.
  induction fuel as [|fuel IH]; intros lhs rhs k Hf Hl Hr; [lia|].
  cbn [merge_pf_go]. destruct lhs as [|[a va] lt].
  - destruct (pf_lookup k rhs); reflexivity.
  - destruct rhs as [|[b vb] rt]; [reflexivity|].
    cbn [map fst length] in *. destruct (strict_tl _ _ Hl) as [Hlt Hhl]. destruct (strict_tl _ _ Hr) as [Hrt Hhr].
    destruct (a <? b) eqn:Elt.
    + apply Nat.ltb_lt in Elt. cbn [pf_lookup]. destruct (a =? k) eqn:Eak.
      * apply Nat.eqb_eq in Eak; subst k. replace (b =? a) with false by (symmetry; apply Nat.eqb_neq; lia).
        rewrite (pf_lookup_none_gt a rt (S b)) by (try assumption; lia). reflexivity.
      * rewrite IH by (cbn [length map fst]; try assumption; lia). cbn [pf_lookup]. reflexivity.
    + apply Nat.ltb_ge in Elt. cbn [pf_lookup]. destruct (b =? k) eqn:Ebk; [reflexivity|].
      destruct (a =? b) eqn:Eab.
      * apply Nat.eqb_eq in Eab; subst b. rewrite Ebk.
        rewrite IH by (try assumption; lia). reflexivity.
      * rewrite IH by (cbn [length map fst]; try assumption; lia). cbn [pf_lookup]. reflexivity.
Qed.

Lemma combine_fst : forall (k v : list nat), length v = length k -> map fst (combine k v) = k.
Proof.
  induction k as [|x k IH]; intros [|y v] H; cbn in *; try reflexivity; try discriminate. f_equal. apply IH. lia.
Qed.

Lemma combine_map_fst_snd : forall l : list (nat * nat), combine (map fst l) (map snd l) = l.
Proof. induction l as [|[a b] l IH]; cbn; [reflexivity|]. f_equal. exact IH. Qed.

Theorem merge_pf_spec_lemma : forall lk lv rk rv k,
  strict lk -> strict rk -> length lv = length lk -> length rv = length rk ->
  fst (merge_pf lk lv rk rv) = merge_keys lk rk /\
  snd (merge_pf lk lv rk rv) = merge_vals lk lv rk rv /\
  pf_lookup k (combine (fst (merge_pf lk lv rk rv)) (snd (merge_pf lk lv rk rv))) =
  match pf_lookup k (combine rk rv) with Some v => Some v | None => pf_lookup k (combine lk lv) end.
Proof.
  intros lk lv rk rv k Hl Hr Hlv Hrv. unfold merge_pf, merge_vals, merge_pf. cbn [fst snd].
  split; [|split; [reflexivity|]].
  - unfold merge_keys, merge_keys_matches.
    rewrite (merge_pf_keys _ _ _ 0 0). rewrite !combine_fst by assumption. reflexivity.
  - rewrite combine_map_fst_snd. apply merge_pf_lookup.
    + rewrite !combine_length. lia.
    + rewrite combine_fst; assumption.
    + rewrite combine_fst; assumption.
Qed.

(* ---------------------------------------------------------------- match ---- *)
Theorem match_f_pf_spec_lemma : forall lhs rk rv,
  match_f_pf lhs rk rv = forallb (fun kv => nth (fst kv) lhs 0 =? snd kv) (combine rk rv).
Proof.
  intros lhs rk; induction rk as [|k ks IH]; intros [|v vs]; cbn [match_f_pf combine forallb fst snd]; try reflexivity.
  destruct (nth k lhs 0 =? v); [apply IH | reflexivity].
Qed.

Theorem match_keys_spec_lemma : forall keys lhs rhs,
  match_keys keys lhs rhs = forallb (fun k => nth k lhs 0 =? nth k rhs 0) keys.
Proof.
  intros keys lhs rhs; induction keys as [|k ks IH]; cbn [match_keys forallb]; [reflexivity|].
  destruct (nth k lhs 0 =? nth k rhs 0); [apply IH | reflexivity].
Qed.

Theorem match_pairs_spec_lemma : forall ms lhs rhs,
  match_pairs ms lhs rhs = forallb (fun ab => nth (fst ab) lhs 0 =? nth (snd ab) rhs 0) ms.
Proof.
  intros ms lhs rhs; induction ms as [|[a b] t IH]; cbn [match_pairs forallb fst snd]; [reflexivity|].
  destruct (nth a lhs 0 =? nth b rhs 0); [apply IH | reflexivity].
Qed.

(* two partial assignments agree on their common keys *)
Definition pf_agree (l r : list (nat * nat)) : Prop :=
  forall k v v', pf_lookup k l = Some v -> pf_lookup k r = Some v' -> v = v'.

Lemma pf_lookup_some_ge : forall k l m v, head_ge m (map fst l) -> strict (map fst l) -> pf_lookup k l = Some v -> m <= k.
Proof.
  intros k l m v Hh Hs H. destruct (le_lt_dec m k) as [|Hlt]; [assumption|].
  rewrite (pf_lookup_none_gt k l m Hh Hs Hlt) in H. discriminate.
Qed.

Lemma match_go_spec : forall fuel bk bv sk sv,
  length bk + length sk < fuel -> strict bk -> strict sk -> length bv = length bk -> length sv = length sk ->
  match_go fuel bk bv sk sv = true <-> pf_agree (combine sk sv) (combine bk bv).
Proof.
  induction fuel as [|fuel IH]; intros bk bv sk sv Hf Hb Hs Hbv Hsv; [lia|].
  cbn [match_go]. destruct sk as [|s skt].
  { split; [|reflexivity]. intros _ k v v' H. discriminate. }
  destruct sv as [|vs svt]; [discriminate|].
  destruct bk as [|b bkt].
  { split; [|reflexivity]. intros _ k v v' _ H. destruct bv; discriminate. }
  destruct bv as [|vb bvt]; [discriminate|].
  cbn [length] in *. destruct (strict_tl _ _ Hb) as [Hbt Hhb]. destruct (strict_tl _ _ Hs) as [Hst Hhs].
  assert (Hcb : map fst (combine bkt bvt) = bkt) by (apply combine_fst; lia).
  assert (Hcs : map fst (combine skt svt) = skt) by (apply combine_fst; lia).
  destruct (b <? s) eqn:E1.
  - apply Nat.ltb_lt in E1. rewrite IH by (cbn [length]; try assumption; lia).
    unfold pf_agree. split; intros H k v v' H1 H2.
    + cbn [combine pf_lookup] in H2. destruct (b =? k) eqn:Ebk.
      * apply Nat.eqb_eq in Ebk; subst k. exfalso.
        assert (s <= b); [|lia].
        apply (pf_lookup_some_ge b (combine (s :: skt) (vs :: svt)) s v); [cbn; lia | cbn [combine map fst]; rewrite Hcs; assumption | assumption].
      * eapply H; eassumption.
    + apply (H k v v' H1). cbn [combine pf_lookup]. destruct (b =? k) eqn:Ebk; [|assumption].
      apply Nat.eqb_eq in Ebk; subst k. exfalso.
      assert (S b <= b); [|lia].
      apply (pf_lookup_some_ge b (combine bkt bvt) (S b) v'); [rewrite Hcb; assumption | rewrite Hcb; assumption | assumption].
  - apply Nat.ltb_ge in E1. destruct (s <? b) eqn:E2.
    + apply Nat.ltb_lt in E2. rewrite IH by (cbn [length]; try assumption; lia).
      unfold pf_agree. split; intros H k v v' H1 H2.
      * cbn [combine pf_lookup] in H1. destruct (s =? k) eqn:Esk.
        -- apply Nat.eqb_eq in Esk; subst k. exfalso.
           assert (b <= s); [|lia].
           apply (pf_lookup_some_ge s (combine (b :: bkt) (vb :: bvt)) b v'); [cbn; lia | cbn [combine map fst]; rewrite Hcb; assumption | assumption].
        -- eapply H; eassumption.
      * apply (H k v v'); [|assumption]. cbn [combine pf_lookup]. destruct (s =? k) eqn:Esk; [|assumption].
        apply Nat.eqb_eq in Esk; subst k. exfalso.
        assert (S s <= s); [|lia].
        apply (pf_lookup_some_ge s (combine skt svt) (S s) v); [rewrite Hcs; assumption | rewrite Hcs; assumption | assumption].
    + apply Nat.ltb_ge in E2. assert (b = s) by lia. subst b.
      destruct (vb =? vs) eqn:E3.
      * apply Nat.eqb_eq in E3; subst vb. rewrite IH by (try assumption; lia).
        unfold pf_agree. split; intros H k v v' H1 H2.
        -- cbn [combine pf_lookup] in H1, H2. destruct (s =? k); [congruence|]. eapply H; eassumption.
        -- apply (H k v v'); cbn [combine pf_lookup]; (destruct (s =? k) eqn:Esk; [|assumption]);
             apply Nat.eqb_eq in Esk; subst k; exfalso.
           ++ assert (S s <= s); [|lia].
              apply (pf_lookup_some_ge s (combine skt svt) (S s) v); [rewrite Hcs; assumption | rewrite Hcs; assumption | assumption].
           ++ assert (S s <= s); [|lia].
              apply (pf_lookup_some_ge s (combine bkt bvt) (S s) v'); [rewrite Hcb; assumption | rewrite Hcb; assumption | assumption].
      * apply Nat.eqb_neq in E3. split; [discriminate|]. intros H. exfalso. apply E3. symmetry.
        apply (H s vs vb); cbn [combine pf_lookup]; rewrite Nat.eqb_refl; reflexivity.
Qed.

Theorem match_pf_spec_lemma : forall lk lv rk rv,
  strict lk -> strict rk -> length lv = length lk -> length rv = length rk ->
  match_pf lk lv rk rv = true <-> pf_agree (combine lk lv) (combine rk rv).
Proof.
  intros lk lv rk rv Hl Hr Hlv Hrv. unfold match_pf. destruct (length rk <? length lk).
  - rewrite match_go_spec by (try assumption; lia).
    unfold pf_agree. split; intros H k v v' H1 H2; symmetry; eapply H; eassumption.
  - rewrite match_go_spec by (try assumption; lia). reflexivity.
Qed.

(* ---------------------------------------------------------------- toIndexPartialAndSkip ---- *)
Lemma toIndexPartial_go_acc : forall ids space f mult acc c,
  toIndexPartial_go ids space f mult (acc + c) = toIndexPartial_go ids space f mult acc + c.
Proof.
  intros. rewrite !toIndexPartial_go_sub. rewrite !toIndex_go_spec by (rewrite !sub_length; lia). lia.
Qed.

Lemma andSkip_go_spec : forall ids space f t mult skipMult acc,
  NoDup ids ->
  let r := toIndexPartialAndSkip_go ids space f t mult skipMult acc in
  (In t ids -> fst r + snd r * nth t f 0 = toIndexPartial_go ids space f mult acc) /\
  (~ In t ids -> fst r = toIndexPartial_go ids space f mult acc /\ snd r = skipMult).
Proof.
  induction ids as [|id ids IH]; intros space f t mult skipMult acc Hnd; cbn [toIndexPartialAndSkip_go toIndexPartial_go].
  - cbn [fst snd]. split; [intros []| intros _; split; reflexivity].
  - inversion Hnd as [|? ? Hni Hnd']; subst. destruct (id =? t) eqn:E.
    + apply Nat.eqb_eq in E; subst id.
      destruct (IH space f t (mult * nth t space 0) mult acc Hnd') as [_ H2]. specialize (H2 Hni). destruct H2 as [Ha Hm].
      split; [|intros Hn; exfalso; apply Hn; left; reflexivity].
      intros _. rewrite Ha, Hm. rewrite toIndexPartial_go_acc. lia.
    + apply Nat.eqb_neq in E.
      destruct (IH space f t (mult * nth id space 0) skipMult (acc + mult * nth id f 0) Hnd') as [H1 H2].
      split.
      * intros [Hin|Hin]; [congruence| apply H1; assumption].
      * intros Hn. apply H2. intros Hin. apply Hn. right. assumption.
Qed.

Theorem toIndexPartialAndSkip_spec_lemma : forall ids space f t, NoDup ids ->
  let r := toIndexPartialAndSkip ids space f t in
  (In t ids -> fst r + snd r * nth t f 0 = toIndexPartial ids space f) /\
  (~ In t ids -> fst r = toIndexPartial ids space f /\ snd r = 1).
Proof. intros. apply andSkip_go_spec. assumption. Qed.
