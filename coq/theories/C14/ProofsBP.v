(* C14/ProofsBP.v — backProject(ddn, basis) is the exact expected next-step value of the basis. *)
From Coq Require Import List Arith Lia QArith Lqa.
From AIT Require Import C14.Model C14.Spec C14.Proofs C14.ProofsEnum C14.ModelAlg C14.SpecAlg C14.ProofsAlg
  C14.ProofsCore C14.ModelDDN C14.SpecDDN C14.ProofsDDN.
Import ListNotations.
Local Open Scope Q_scope.

(* ---------------------------------------------------------------- more sums ---- *)
Lemma qsum_map_zero : forall (A : Type) (l : list A), qsum (map (fun _ => 0) l) == 0.
Proof. intros A l; unfold qsum; induction l as [|x l IH]; cbn [map fold_right]; [reflexivity| rewrite IH; ring]. Qed.

Lemma qsum_map_plus : forall (A : Type) (l : list A) (f g : A -> Q),
  qsum (map (fun x => f x + g x) l) == qsum (map f l) + qsum (map g l).
Proof. intros A l f g; unfold qsum; induction l as [|x l IH]; cbn [map fold_right]; [ring| rewrite IH; ring]. Qed.

Lemma qsum_exchange : forall (A B : Type) (g : A -> B -> Q) (l1 : list A) (l2 : list B),
  qsum (map (fun x => qsum (map (fun y => g x y) l2)) l1) ==
  qsum (map (fun y => qsum (map (fun x => g x y) l1)) l2).
Proof.
  intros A B g l1 l2; induction l1 as [|x l1 IH].
  - cbn [map]. rewrite qsum_map_zero. reflexivity.
  - cbn [map]. unfold qsum at 1. cbn [fold_right]. fold (qsum (map (fun x => qsum (map (fun y => g x y) l2)) l1)).
    rewrite IH.
    rewrite (qsum_map_ext _ l2 (fun y => qsum (g x y :: map (fun x0 => g x0 y) l1))
                               (fun y => g x y + qsum (map (fun x0 => g x0 y) l1)))
      by (intros y _; reflexivity).
    rewrite qsum_map_plus. reflexivity.
Qed.

(* ---------------------------------------------------------------- tags relative to a space ---- *)
Lemma sub_map_S : forall (t : list nat) (v : nat) (tl : list nat), sub (map S t) (v :: tl) = sub t tl.
Proof. intros. unfold sub. rewrite map_map. reflexivity. Qed.

Lemma strict_map_pred : forall l, Forall (fun y => (0 < y)%nat) l -> strict l -> strict (map pred l).
Proof.
  intros l Hp Hs; induction Hs as [|x|x y l Hxy Hs IH]; cbn [map]; try constructor.
  - inversion Hp as [|? ? Hx Hp']; subst. inversion Hp'; subst. lia.
  - apply IH. inversion Hp; assumption.
Qed.

Lemma map_S_pred : forall l, Forall (fun y => (0 < y)%nat) l -> l = map S (map pred l).
Proof.
  intros l H; induction H as [|x l Hx H IH]; cbn [map]; [reflexivity|]. rewrite <- IH. f_equal. lia.
Qed.

Lemma strict_decomp : forall tag, strict tag ->
  (exists t', tag = map S t' /\ strict t') \/ (exists t', tag = 0%nat :: map S t' /\ strict t').
Proof.
  intros tag Hs. destruct tag as [|x l]; [left; exists []; split; [reflexivity|constructor]|].
  pose proof (strict_all_gt _ _ Hs) as Hgt.
  destruct x as [|x].
  - right. exists (map pred l). assert (Hp : Forall (fun y => (0 < y)%nat) l) by exact Hgt.
    split; [f_equal; apply map_S_pred; assumption | apply strict_map_pred; [assumption | eapply strict_tail; eassumption]].
  - left. exists (map pred (S x :: l)).
    assert (Hp : Forall (fun y => (0 < y)%nat) (S x :: l)).
    { constructor; [lia|]. rewrite Forall_forall in *. intros y Hy. specialize (Hgt y Hy). lia. }
    split; [apply map_S_pred; assumption | apply strict_map_pred; assumption].
Qed.

(* product of the terms of the tagged positions only *)
Fixpoint pprod (f : nat -> nat -> Q) (tag rv : list nat) : Q :=
  match tag, rv with
  | d :: t, v :: r => f d v * pprod f t r
  | _, _ => 1
  end.

Lemma pprod_map_S : forall f t rv, pprod f (map S t) rv = pprod (fun k => f (S k)) t rv.
Proof. intros f t; induction t as [|d t IH]; intros [|v r]; cbn [map pprod]; try reflexivity. rewrite IH. reflexivity. Qed.

Definition PF (f : nat -> nat -> Q) (n : nat) (x : list nat) : Q :=
  qprod (map (fun k => f k (nth k x 0%nat)) (seq 0 n)).

Lemma PF_cons : forall f n v tl, PF f (S n) (v :: tl) = f 0%nat v * PF (fun k => f (S k)) n tl.
Proof.
  intros. unfold PF. cbn [seq map qprod fold_right nth]. rewrite <- seq_shift, map_map. reflexivity.
Qed.

(* marginalisation: summing over all joint assignments a function of the tagged positions, weighted
   by the product of per-position distributions, only leaves the tagged positions *)
Lemma marginalise : forall sizes (f : nat -> nat -> Q) tag (h : list nat -> Q),
  strict tag -> Forall (fun k => (k < length sizes)%nat) tag ->
  (forall k, (k < length sizes)%nat -> ~ In k tag -> qsum (map (f k) (seq 0 (nth k sizes 0%nat))) == 1) ->
  qsum (map (fun x => h (sub tag x) * PF f (length sizes) x) (all_assign sizes))
  == qsum (map (fun rv => h rv * pprod f tag rv) (all_assign (sub tag sizes))).
Proof.
  induction sizes as [|sp t IH]; intros f tag h Hs Hr Hst.
  - destruct tag as [|k tag]; [|inversion Hr; subst; cbn [length] in *; lia].
    cbn. ring.
  - cbn [all_assign length]. rewrite qsum_flat_map.
    destruct (strict_decomp tag Hs) as [[t' [Ht Hst']]|[t' [Ht Hst']]]; subst tag.
    + (* position 0 not tagged *)
      assert (Hr' : Forall (fun k => (k < length t)%nat) t').
      { rewrite Forall_forall in *. intros k Hk. specialize (Hr (S k) ltac:(apply in_map; assumption)). cbn [length] in Hr. lia. }
      assert (H0 : qsum (map (f 0%nat) (seq 0 sp)) == 1).
      { apply (Hst 0%nat); [cbn [length]; lia|]. intros Hin. apply in_map_iff in Hin. destruct Hin as [y [Hy _]]. discriminate. }
      rewrite (qsum_map_ext _ _ _ (fun tl => h (sub t' tl) * PF (fun k => f (S k)) (length t) tl)).
      * rewrite (IH (fun k => f (S k)) t' h Hst' Hr').
        -- change (sub (map S t') (sp :: t)) with (sub (map S t') (sp :: t)). rewrite sub_map_S.
           apply qsum_map_ext. intros rv _. rewrite pprod_map_S. reflexivity.
        -- intros k Hk Hn. apply (Hst (S k)); [cbn [length]; lia|]. intros Hin. apply Hn.
           apply in_map_iff in Hin. destruct Hin as [y [Hy Hin]]. inversion Hy; subst. assumption.
      * intros tl _. rewrite map_map.
        rewrite (qsum_map_ext _ _ _ (fun v => f 0%nat v * (h (sub t' tl) * PF (fun k => f (S k)) (length t) tl))).
        -- rewrite qsum_map_scale_r, H0. ring.
        -- intros v _. rewrite sub_map_S, PF_cons. ring.
    + (* position 0 tagged *)
      assert (Hr' : Forall (fun k => (k < length t)%nat) t').
      { inversion Hr as [|? ? _ Hr0]; subst. rewrite Forall_forall in *. intros k Hk.
        specialize (Hr0 (S k) ltac:(apply in_map; assumption)). cbn [length] in Hr0. lia. }
      assert (Hst0 : forall k, (k < length t)%nat -> ~ In k t' -> qsum (map (f (S k)) (seq 0 (nth k t 0%nat))) == 1).
      { intros k Hk Hn. apply (Hst (S k)); [cbn [length]; lia|]. intros [Hin|Hin]; [discriminate|]. apply Hn.
        apply in_map_iff in Hin. destruct Hin as [y [Hy Hin]]. inversion Hy; subst. assumption. }
      change (sub (0%nat :: map S t') (sp :: t)) with (sp :: sub (map S t') (sp :: t)). rewrite sub_map_S.
      cbn [all_assign]. rewrite qsum_flat_map.
      (* both sides become  Σ_v f 0 v * (…)  after exchanging the sums *)
      rewrite (qsum_map_ext _ (all_assign t) _
                 (fun tl => qsum (map (fun v => f 0%nat v * (h (v :: sub t' tl) * PF (fun k => f (S k)) (length t) tl)) (seq 0 sp)))).
      2:{ intros tl _. rewrite map_map. apply qsum_map_ext. intros v _.
          change (sub (0%nat :: map S t') (v :: tl)) with (v :: sub (map S t') (v :: tl)). rewrite sub_map_S, PF_cons. ring. }
      rewrite (qsum_exchange _ _ (fun tl v => f 0%nat v * (h (v :: sub t' tl) * PF (fun k => f (S k)) (length t) tl))).
      rewrite (qsum_map_ext _ (all_assign (sub t' t)) _
                 (fun rv' => qsum (map (fun v => f 0%nat v * (h (v :: rv') * pprod (fun k => f (S k)) t' rv')) (seq 0 sp)))).
      2:{ intros rv' _. rewrite map_map. apply qsum_map_ext. intros v _. cbn [pprod]. rewrite pprod_map_S. ring. }
      rewrite (qsum_exchange _ _ (fun rv' v => f 0%nat v * (h (v :: rv') * pprod (fun k => f (S k)) t' rv'))).
      apply qsum_map_ext. intros v _.
      rewrite !qsum_map_scale_l.
      rewrite (IH (fun k => f (S k)) t' (fun r => h (v :: r)) Hst' Hr' Hst0). reflexivity.
Qed.

(* ---------------------------------------------------------------- merged tags ---- *)
Lemma subseq_trans : forall a b c, subseq a b -> subseq b c -> subseq a c.
Proof.
  intros a b c Hab Hbc; revert a Hab; induction Hbc as [l|x b c Hbc IH|x b c Hbc IH]; intros a Hab.
  - inversion Hab; subst. constructor.
  - inversion Hab; subst; [constructor | apply ss_take; apply IH; assumption | apply ss_skip; apply IH; assumption].
  - apply ss_skip. apply IH. assumption.
Qed.

Lemma fold_merge_props : forall feats s0,
  let r := fold_left merge_keys feats s0 in
  subseq s0 r /\ (forall f, In f feats -> subseq f r) /\
  (forall x, In x r -> In x s0 \/ exists f, In f feats /\ In x f).
Proof.
  induction feats as [|f feats IH]; intros s0; cbn [fold_left].
  - split; [apply subseq_refl|]. split; [intros f [] | intros x Hx; left; assumption].
  - destruct (IH (merge_keys s0 f)) as [H1 [H2 H3]]. destruct (merge_keys_props s0 f) as [M1 [M2 M3]].
    split; [eapply subseq_trans; eassumption|]. split.
    + intros f' [<-|Hin]; [eapply subseq_trans; eassumption | apply H2; assumption].
    + intros x Hx. destruct (H3 x Hx) as [Hm|[f' [Hf' Hxf']]].
      * destruct (M3 x Hm); [left; assumption | right; exists f; split; [left; reflexivity | assumption]].
      * right. exists f'. split; [right; assumption | assumption].
Qed.

Lemma bp_tags_props : forall g rtag p,
  let r := fold_left (bp_step g) rtag p in
  subseq (fst p) (fst r) /\ subseq (snd p) (snd r) /\
  (forall d, In d rtag -> subseq (psAgents (nth d (gParents g) emptyPS)) (fst r) /\
                          forall f, In f (psFeatures (nth d (gParents g) emptyPS)) -> subseq f (snd r)) /\
  (forall x, In x (fst r) -> In x (fst p) \/ exists d, In d rtag /\ In x (psAgents (nth d (gParents g) emptyPS))) /\
  (forall x, In x (snd r) -> In x (snd p) \/ exists d f, In d rtag /\ In f (psFeatures (nth d (gParents g) emptyPS)) /\ In x f).
Proof.
  intros g rtag; induction rtag as [|d rtag IH]; intros [a0 s0]; cbn [fold_left].
  - cbn [fst snd]. split; [apply subseq_refl|]. split; [apply subseq_refl|].
    split; [intros d0 []|]. split; intros x Hx; left; assumption.
  - destruct (IH (bp_step g (a0, s0) d)) as [H1 [H2 [H3 [H4 H5]]]].
    unfold bp_step in *. cbn [fst snd] in *.
    set (ps := nth d (gParents g) emptyPS) in *.
    destruct (merge_keys_props a0 (psAgents ps)) as [M1 [M2 M3]].
    destruct (fold_merge_props (psFeatures ps) s0) as [F1 [F2 F3]].
    split; [eapply subseq_trans; eassumption|].
    split; [eapply subseq_trans; eassumption|].
    split; [|split].
    + intros d0 [<-|Hin]; [|apply (H3 d0 Hin)].
      split; [eapply subseq_trans; eassumption|].
      intros f Hf. eapply subseq_trans; [apply F2; exact Hf | exact H2].
    + intros x Hx. destruct (H4 x Hx) as [Hm|[d' [Hd' Hxd']]].
      * destruct (M3 x Hm); [left; assumption | right; exists d; split; [left; reflexivity | assumption]].
      * right. exists d'. split; [right; assumption | assumption].
    + intros x Hx. destruct (H5 x Hx) as [Hm|[d' [f [Hd' [Hf Hxf]]]]].
      * destruct (F3 x Hm) as [|[f [Hf Hxf]]]; [left; assumption | right; exists d, f; repeat split; [left; reflexivity | assumption | assumption]].
      * right. exists d', f. repeat split; [right; assumption | assumption | assumption].
Qed.

(* ---------------------------------------------------------------- slots ---- *)
Lemma enum_slot_gen : forall (X : Type) space tag x (g : list nat -> X) (d : X),
  tag <> [] -> tag_ok space tag -> in_space space x ->
  nth (toIndexPartial tag space x) (map g (enum_assignments space tag)) d = g (sub tag x).
Proof.
  intros X space tag x g d Hne Ht Hx.
  pose proof (tag_ok_keys_pos space x tag Hx Ht) as Hk.
  destruct (partial_roundtrip_factors_lemma tag space x (in_space_sub space x tag Hx Ht)) as [Hr Hlt].
  rewrite enum_assignments_spec by assumption. rewrite map_map.
  rewrite (nth_indep _ d ((fun i => g (toFactorsPartial tag space i)) 0%nat)) by (rewrite map_length, seq_length; assumption).
  rewrite (map_nth (fun i => g (toFactorsPartial tag space i))).
  rewrite seq_nth by assumption. cbn [Nat.add]. rewrite Hr. reflexivity.
Qed.

Lemma fold_left_sum : forall (A : Type) (F : A -> Q) (l : list A) acc,
  fold_left (fun cur x => cur + F x) l acc == acc + qsum (map F l).
Proof.
  intros A F l; unfold qsum; induction l as [|x l IH]; intros acc; cbn [fold_left map fold_right]; [ring|].
  rewrite IH. ring.
Qed.

Lemma fold_left_sum_pair : forall (A B : Type) (F : A -> B -> Q) (l : list (A * B)) acc,
  fold_left (fun cur (p : A * B) => let '(x, y) := p in cur + F x y) l acc == acc + qsum (map (fun p => F (fst p) (snd p)) l).
Proof.
  intros A B F l; unfold qsum; induction l as [|[x y] l IH]; intros acc; cbn [fold_left map fold_right fst snd]; [ring|].
  rewrite IH. ring.
Qed.

Lemma combine_seq_map : forall (A : Type) (G : nat -> A) n start,
  combine (seq start n) (map G (seq start n)) = map (fun i => (i, G i)) (seq start n).
Proof. intros A G n; induction n as [|n IH]; intros start; cbn [seq map combine]; [reflexivity|]. rewrite IH. reflexivity. Qed.

(* ---------------------------------------------------------------- the partial probability ---- *)
Lemma gtpP_go_spec : forall g T sk sv ak av s a k1 v1 acc,
  (forall d, In d k1 -> getIdP g d sk sv ak av = local_row g d s a) ->
  gtpP_go g T sk sv ak av k1 v1 acc == acc * pprod (fun d v => local_prob g T d s a v) k1 v1.
Proof.
  intros g T sk sv ak av s a k1; induction k1 as [|d k1 IH]; intros v1 acc H; cbn [gtpP_go pprod]; [ring|].
  destruct v1 as [|v v1]; [ring|].
  rewrite IH by (intros d' Hd'; apply H; right; assumption).
  rewrite (H d) by (left; reflexivity). unfold mat_get, local_prob. ring.
Qed.

(* ---------------------------------------------------------------- the theorem ---- *)
Theorem backproject_is_expectation_lemma : forall g T rhs s a,
  graph_built g -> graph_complete g ->
  bf_wf (gS g) rhs -> strict (bfTag rhs) ->
  in_space (gS g) s -> in_space (gA g) a ->
  (forall i, (i < length (gS g))%nat -> qsum (map (local_prob g T i s a) (seq 0 (nth i (gS g) 0%nat))) == 1) ->
  let bp := backProject g T rhs in
  mat_get (bmVals bp) (toIndexPartial (bmTag bp) (gS g) s) (toIndexPartial (bmActionTag bp) (gA g) a)
  == qsum (map (fun s1 => getTransitionProbability g T s a s1 * entry (gS g) rhs s1) (all_assign (gS g))).
Proof.
  intros g T rhs s a Hb Hc [Hne [Hrt Hlen]] Hstr Hs Ha Hrows bp.
  destruct (graph_built_props g Hb) as [Hwf Hvalid].
  pose proof (built_action_in_range g a Hb Hc Ha) as Hair.
  set (rtag := bfTag rhs) in *.
  subst bp. unfold backProject.
  fold rtag.
  destruct (bp_tags_props g rtag ([], [])) as [_ [_ [Hsub [HinA HinS]]]].
  destruct (fold_left (bp_step g) rtag ([], [])) as [atag stag]. cbn [fst snd] in *.
  cbn [bmVals bmTag bmActionTag].
  (* facts about the parent sets of the factors in the tag *)
  assert (Hd : forall d, In d rtag -> (d < length (gParents g))%nat).
  { intros d Hd. unfold tag_ok in Hrt. rewrite Forall_forall in Hrt. specialize (Hrt d Hd). unfold graph_complete in Hc. lia. }
  assert (HPv : forall d, In d rtag -> ps_valid (gS g) (gA g) (nth d (gParents g) emptyPS)).
  { intros d Hd'. rewrite Forall_forall in Hvalid. apply Hvalid. apply nth_In. apply Hd. assumption. }
  assert (Hkp : keys_pos (gA g) (seq 0 (length (gA g)))).
  { apply keys_pos_all. clear - Ha. induction Ha; constructor; [lia|assumption]. }
  (* merged tags are in range and non-empty *)
  assert (HatOk : tag_ok (gA g) atag).
  { unfold tag_ok. apply Forall_forall. intros x Hx. destruct (HinA x Hx) as [[]|[d [Hd' Hxd]]].
    destruct (HPv d Hd') as [H1 _]. destruct (tag_is_ok_sound _ _ H1) as [_ [_ Hok]].
    unfold tag_ok in Hok. rewrite Forall_forall in Hok. apply Hok; assumption. }
  assert (HstOk : tag_ok (gS g) stag).
  { unfold tag_ok. apply Forall_forall. intros x Hx. destruct (HinS x Hx) as [[]|[d [f [Hd' [Hf Hxf]]]]].
    destruct (HPv d Hd') as [_ [_ H3]]. rewrite forallb_forall in H3. specialize (H3 f Hf).
    destruct (tag_is_ok_sound _ _ H3) as [_ [_ Hok]]. unfold tag_ok in Hok. rewrite Forall_forall in Hok. apply Hok; assumption. }
  destruct rtag as [|d0 rtag'] eqn:Ertag; [congruence|]. rewrite <- Ertag in *.
  assert (Hd0 : In d0 rtag) by (rewrite Ertag; left; reflexivity).
  assert (HatNe : atag <> []).
  { destruct (Hsub d0 Hd0) as [Hs0 _]. destruct (HPv d0 Hd0) as [H1 _]. destruct (tag_is_ok_sound _ _ H1) as [Hn _].
    eapply subseq_nonempty; eassumption. }
  assert (HstNe : stag <> []).
  { destruct (Hsub d0 Hd0) as [_ Hs0]. destruct (HPv d0 Hd0) as [H1 [H2 H3]].
    destruct (tag_is_ok_sound _ _ H1) as [_ [_ Hok]].
    pose proof (fsp_pos (gA g) _ (tag_ok_keys_pos (gA g) a _ Ha Hok)) as Hpos.
    destruct (psFeatures (nth d0 (gParents g) emptyPS)) as [|f0 fs] eqn:Ef; [cbn [length] in H2; lia|].
    rewrite forallb_forall in H3. specialize (H3 f0 ltac:(left; reflexivity)).
    destruct (tag_is_ok_sound _ _ H3) as [Hn _].
    eapply subseq_nonempty; [apply Hs0; left; reflexivity | assumption]. }
  (* the slot *)
  unfold mat_get.
  rewrite (enum_slot_gen _ (gS g) stag s _ [] HstNe HstOk Hs).
  rewrite (enum_slot_gen _ (gA g) atag a _ 0 HatNe HatOk Ha).
  rewrite Qred_correct.
  (* the partial transition probability is the product of the tagged local probabilities *)
  assert (HP : forall rv, getTransitionProbabilityP g T stag (sub stag s) atag (sub atag a) rtag rv
                          == pprod (fun d v => local_prob g T d s a v) rtag rv).
  { intros rv. unfold getTransitionProbabilityP. rewrite (gtpP_go_spec g T _ _ _ _ s a); [ring|].
    intros d Hd'. destruct (Hsub d Hd') as [Hsa Hsf].
    unfold getIdP, getIdsP. rewrite (idx_of_subseq (gA g) a _ atag Hsa).
    assert (Hi : (d < length (gS g))%nat) by (unfold graph_complete in Hc; specialize (Hd d Hd'); lia).
    pose proof (Hair d Hi) as Haid. unfold action_id in Haid. rewrite <- toIndexPartial_radix in Haid.
    rewrite (idx_of_subseq (gS g) s _ stag) by (apply Hsf; apply nth_In; exact Haid).
    rewrite <- (getId_local_row g d s a Hwf Hc Hi (Hair d Hi)). reflexivity. }
  (* the loop over the basis' own domain *)
  assert (Hkr : keys_pos (gS g) rtag) by (eapply tag_ok_keys_pos; eassumption).
  rewrite (fold_left_sum_pair _ _ (fun rId rv => qnth rId (bfVals rhs) * getTransitionProbabilityP g T stag (sub stag s) atag (sub atag a) rtag rv)).
  rewrite enum_assignments_spec by assumption.
  rewrite map_length, seq_length, combine_seq_map, map_map.
  set (N := factorSpacePartial rtag (gS g)).
  set (f := fun d v => local_prob g T d s a v).
  set (h := fun rv => nth (radix_value (sub rtag (gS g)) rv) (bfVals rhs) 0).
  assert (HposS : Forall (fun sp => (0 < sp)%nat) (sub rtag (gS g))).
  { unfold sub. apply Forall_forall. intros x Hx. apply in_map_iff in Hx. destruct Hx as [k [<- Hk]].
    unfold keys_pos in Hkr. rewrite Forall_forall in Hkr. apply Hkr; assumption. }
  transitivity (qsum (map (fun rv => h rv * pprod f rtag rv) (all_assign (sub rtag (gS g))))).
  - rewrite (all_assign_index_order _ HposS), map_map. rewrite <- factorSpacePartial_sub. fold N.
    rewrite Qplus_0_l. apply qsum_map_ext. intros i Hi. apply in_seq in Hi.
    rewrite HP. rewrite toFactorsPartial_sub. unfold h, qnth.
    rewrite radix_toFactors by (try assumption; rewrite <- factorSpacePartial_sub; fold N; lia). reflexivity.
  - rewrite <- (marginalise (gS g) f rtag h Hstr Hrt) by (intros k Hk _; apply Hrows; assumption).
    apply qsum_map_ext. intros s1 _.
    rewrite (ddn_product_lemma g T s a s1 Hwf Hc Hair). unfold entry, h, PF, f. fold rtag. ring.
Qed.
