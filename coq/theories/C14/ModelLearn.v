(* C14/ModelLearn.v — Gallina models of src/Factored/MDP/Algorithms/JointActionLearner.cpp and
   src/Factored/MDP/Algorithms/CooperativeQLearning.cpp (stepUpdateQ), and of the flat learner they
   are compared with, src/MDP/Algorithms/QLearning.cpp ([ql_step]: the same text as C11/Model.v's
   ql_step, copied so that C14 does not depend on files other builders are editing).
   No proofs in this file. *)
From Coq Require Import List Arith QArith Qminmax.
From AIT Require Import C14.Model C14.ModelAlg C14.ModelDDN C14.Model2D.
Import ListNotations.
Local Open Scope Q_scope.

(* ---- flat Q-tables and QLearning ------------------------------------------------------------- *)
Definition qtab := list (list Q).                          (* s, a *)
Definition nthq (l : list Q) (i : nat) : Q := nth i l 0.
Definition row (m : qtab) (i : nat) : list Q := nth i m [].
(* Eigen's row(s1).maxCoeff() *)
Fixpoint qmax_from (x : Q) (l : list Q) : Q := match l with [] => x | y :: t => qmax_from (Qmax x y) t end.
Definition maxl (l : list Q) : Q := match l with [] => 0 | x :: t => qmax_from x t end.

Fixpoint upd {A : Type} (l : list A) (i : nat) (x : A) : list A :=
  match l, i with
  | [], _ => []
  | _ :: t, O => x :: t
  | y :: t, S i' => y :: upd t i' x
  end.
Definition qget (q : qtab) (s a : nat) : Q := nthq (row q s) a.
(* every table write is Qred-normalised (value unchanged) *)
Definition upd2 (q : qtab) (s a : nat) (x : Q) : qtab := upd q s (upd (row q s) a (Qred x)).
(* src: src/MDP/Utils.cpp:makeQFunction *)
Definition qzero (nS nA : nat) : qtab := repeat (repeat 0 nA) nS.

(* src: src/MDP/Algorithms/QLearning.cpp:QLearning::stepUpdateQ
   q_(s, a) += alpha_ * ( rew + discount_ * q_.row(s1).maxCoeff() - q_(s, a) ) *)
Definition ql_step (alpha g : Q) (q : qtab) (e : nat * nat * nat * Q) : qtab :=
  let '(s, a, s1, r) := e in
  let old := qget q s a in
  upd2 q s a (old + alpha * (r + g * maxl (row q s1) - old)).

(* ---- JointActionLearner ---------------------------------------------------------------------- *)
(* src: JointActionLearner.hpp: A, id_, stateCounters_, stateActionCounts_, singleQFun_, qLearning_.
   stateActionCounts_[s][a] is indexed in C++ by the position a of the OTHER agents (id_ skipped);
   the model indexes by the agent itself (entry id_ unused). *)
Record jal := mkJal {
  jalA : list nat; jalId : nat; jalAlpha : Q; jalGamma : Q;
  jalCounters : list nat;                 (* per state *)
  jalCounts : list (list (list nat));     (* state, agent, that agent's action *)
  jalSingle : qtab;                       (* S x A[id] *)
  jalQ : qtab                             (* S x factorSpace(A) *)
}.

(* src: JointActionLearner.cpp:JointActionLearner(ss, A, id, discount, alpha) *)
Definition jal_new (nS : nat) (A : list nat) (id : nat) (discount alpha : Q) : jal :=
  mkJal A id alpha discount (repeat 0%nat nS) (repeat (map (fun sz => repeat 0%nat sz) A) nS)
        (qzero nS (nth id A 0%nat)) (qzero nS (factorSpace A)).

Definition natQ (n : nat) : Q := inject_Z (Z.of_nat n).

(* "p *= stateActionCounts_[s][a][jointAction.second[i]]; p /= stateCounters_[s];" over the other agents *)
Fixpoint jal_prob (id : nat) (counts : list (list nat)) (n : nat) (i : nat) (ja : list nat) (p : Q) : Q :=
  match ja with
  | [] => p
  | v :: t => if (i =? id)%nat then jal_prob id (tl counts) n (S i) t p
              else jal_prob id (tl counts) n (S i) t (p * natQ (nth v (hd [] counts) 0%nat) / natQ n)
  end.

(* "stateActionCounts_[s][a][aa[i]] += 1" over the other agents *)
Fixpoint jal_bump (id i : nat) (counts : list (list nat)) (aa : list nat) : list (list nat) :=
  match counts, aa with
  | c :: ct, v :: at_ => (if (i =? id)%nat then c else upd c v (S (nth v c 0%nat))) :: jal_bump id (S i) ct at_
  | _, _ => counts
  end.

(* src: JointActionLearner.cpp:JointActionLearner::stepUpdateQ *)
Definition jal_step (st : jal) (e : nat * list nat * nat * Q) : jal :=
  let '(s, aa, s1, rew) := e in
  let A := jalA st in let id := jalId st in
  let counters := upd (jalCounters st) s (S (nth s (jalCounters st) 0%nat)) in
  let counts := upd (jalCounts st) s (jal_bump id 0 (nth s (jalCounts st) []) aa) in
  let q := ql_step (jalAlpha st) (jalGamma st) (jalQ st) (s, toIndex A aa, s1, rew) in
  (* jointActions_ = PartialFactorsEnumerator(A, id_): all joint actions of the others, own action held *)
  let e0 := pfe_skip_all A id in
  let jas := match pfe_visit (S (pfe_size e0)) e0 with Some l => l | None => [] end in
  let n := nth s counters 0%nat in
  let cs := nth s counts [] in
  let newrow :=
    map (fun ai => fold_left (fun acc ja => acc + qget q s (toIndex A (set_nth id ai ja)) * jal_prob id cs n 0 ja 1)
                             jas 0)
        (seq 0 (nth id A 0%nat)) in
  mkJal A id (jalAlpha st) (jalGamma st) counters counts (upd (jalSingle st) s (map Qred newrow)) q.

(* the flat experience a joint experience stands for *)
Definition flat_exp (A : list nat) (e : nat * list nat * nat * Q) : nat * nat * nat * Q :=
  let '(s, aa, s1, rew) := e in (s, toIndex A aa, s1, rew).

(* ---- CooperativeQLearning -------------------------------------------------------------------- *)
Definition vadd_at (v : list Q) (i : nat) (x : Q) : list Q := upd v i (nthq v i + x).

Fixpoint vdiv (a b : list Q) : list Q :=
  match a, b with x :: a', y :: b' => (x / y) :: vdiv a' b' | _, _ => [] end.

Definition bm_set (b : bm) (r c : nat) (x : Q) : bm :=
  mkBm (bmTag b) (bmActionTag b) (upd2 (bmVals b) r c x).

(* src: CooperativeQLearning.cpp:CooperativeQLearning(...) — agentNormRews_[a] = number of bases whose
   actionTag contains a *)
Definition coop_norm (nA : nat) (fm : fmat) : list Q :=
  fold_left (fun nrm q => fold_left (fun nr ag => vadd_at nr ag 1) (bmActionTag q) nrm) fm (repeat 0 nA).

(* src: CooperativeQLearning.cpp:CooperativeQLearning::stepUpdateQ, with a1 = policy_.sampleAction(s1)
   supplied by the caller (the greedy joint action of the current Q-function at s1) *)
Definition coop_step (SS AA : list nat) (norm : list Q) (alpha gamma : Q) (fm : fmat)
                     (s a s1 a1 : list nat) (rew : list Q) : fmat :=
  let per0 := vdiv rew norm in
  let per1 := fold_left (fun per q =>
                 let val := gamma * bm_value SS AA q s1 a1 / natQ (length (bmActionTag q)) in
                 fold_left (fun p ag => vadd_at p ag val) (bmActionTag q) per) fm per0 in
  let per2 := fold_left (fun per q =>
                 let val := - bm_value SS AA q s a / natQ (length (bmActionTag q)) in
                 fold_left (fun p ag => vadd_at p ag val) (bmActionTag q) per) fm per1 in
  let per3 := map (fun x => x * alpha) per2 in
  map (fun q =>
         let sid := toIndexPartial (bmTag q) SS s in
         let aid := toIndexPartial (bmActionTag q) AA a in
         let update := fold_left (fun u ag => u + nthq per3 ag) (bmActionTag q) 0 in
         bm_set q sid aid (mat_get (bmVals q) sid aid + update)) fm.

(* ---- FlattenedModel ---------------------------------------------------------------------------- *)
(* src: Factored/Bandit/Model.hpp:Model::sampleR(a).sum() for deterministic arms: one local arm table
   per group, selected by the joint action restricted to the group *)
Definition fbandit_reward (A : list nat) (groups : list (list nat * list Q)) (joint : list nat) : Q :=
  fold_left (fun acc (gm : list nat * list Q) => acc + nthq (snd gm) (toIndexPartial (fst gm) A joint)) groups 0.
(* src: Factored/Bandit/FlattenedModel.hpp:FlattenedModel::sampleR(size_t a):
   toFactors(model_.getA(), a, &helper_); return model_.sampleR(helper_).sum();  — returns the new helper_ too *)
Definition flattened_reward (A : list nat) (groups : list (list nat * list Q)) (helper : list nat) (a : nat)
  : Q * list nat :=
  let h := toFactorsOut A a helper in (fbandit_reward A groups h, h).

(* ---- SparseCooperativeQLearning ---------------------------------------------------------------- *)
(* src: Factored/MDP/Types.hpp:struct QFunctionRule {state, action, value} *)
Record qrule := mkRule { rSK : list nat; rSV : list nat; rAK : list nat; rAV : list nat; rVal : Q }.

(* rules_.filter(join(s, a)): the rules whose partial state and partial action both match *)
Definition rule_matches (r : qrule) (s a : list nat) : bool :=
  match_f_pf s (rSK r) (rSV r) && match_f_pf a (rAK r) (rAV r).

(* src: SparseCooperativeQLearning.cpp:SparseCooperativeQLearning::stepUpdateQ with a1 =
   policy_.sampleAction(s1) supplied by the caller.  An agent contained in no matching rule gets
   rew/0 in C++ (inf/NaN), which no rule then reads; Coq's x/0 = 0 is equally unread. *)
Definition sparse_step (nA : nat) (alpha gamma : Q) (rules : list qrule)
                       (s a s1 a1 : list nat) (rew : list Q) : list qrule :=
  let before := filter (fun r => rule_matches r s a) rules in
  let after := filter (fun r => rule_matches r s1 a1) rules in
  let cnt := fold_left (fun c r => fold_left (fun c' ag => vadd_at c' ag 1) (rAK r) c) before (repeat 0 nA) in
  let per0 := vdiv rew cnt in
  let per1 := fold_left (fun per r =>
                 let val := gamma * rVal r / natQ (length (rAK r)) in
                 fold_left (fun p ag => vadd_at p ag val) (rAK r) per) after per0 in
  let per2 := fold_left (fun per r =>
                 let val := - rVal r / natQ (length (rAK r)) in
                 fold_left (fun p ag => vadd_at p ag val) (rAK r) per) before per1 in
  let per3 := map (fun x => x * alpha) per2 in
  map (fun r =>
         if rule_matches r s a
         then mkRule (rSK r) (rSV r) (rAK r) (rAV r)
                     (Qred (rVal r + fold_left (fun u ag => u + nthq per3 ag) (rAK r) 0))
         else r) rules.
