(* C14/ProofsAlg.v — the factored vector algebra equals the operation on the flat expansions. *)
From Coq Require Import List Arith Lia QArith Qabs Qminmax Lqa.
From AIT Require Import C14.Model C14.Spec C14.Proofs C14.ProofsEnum C14.ModelAlg C14.SpecAlg.
Import ListNotations.
Local Open Scope Q_scope.

(* ---------------------------------------------------------------- subsequences ---- *)
Inductive subseq : list nat -> list nat -> Prop :=
| ss_nil : forall l, subseq [] l
| ss_take : forall x a b, subseq a b -> subseq (x :: a) (x :: b)
| ss_skip : forall x a b, subseq a b -> subseq a (x :: b).

Lemma subseq_refl : forall l, subseq l l.
Proof. induction l; constructor; assumption. Qed.

Lemma subseq_tl : forall x a b, subseq (x :: a) b -> subseq a b.
Proof.
  intros x a b; revert x a; induction b as [|y b IH]; intros x a H; inversion H; subst.
  - apply ss_skip; assumption.
  - apply ss_skip. eapply IH; eassumption.
Qed.

Lemma subseq_length : forall a b, subseq a b -> (length a <= length b)%nat.
Proof. intros a b H; induction H; cbn [length]; lia. Qed.

Lemma subseq_same_length : forall a b, subseq a b -> length a = length b -> a = b.
Proof.
  intros a b H; induction H; intros Hl.
  - destruct l; [reflexivity|discriminate].
  - cbn [length] in Hl. f_equal. apply IHsubseq. lia.
  - apply subseq_length in H. cbn [length] in Hl. lia.
Qed.

Lemma subseq_nonempty : forall a b, subseq a b -> a <> [] -> b <> [].
Proof. intros a b H Ha Hb; subst. inversion H; subst; congruence. Qed.

(* ---------------------------------------------------------------- merge of keys ---- *)
Lemma merge_keys_go_props : forall fuel lhs rhs i j,
  (length lhs + length rhs < fuel)%nat ->
  let r := fst (merge_keys_go fuel lhs rhs i j) in
  subseq lhs r /\ subseq rhs r /\ (forall x, In x r -> In x lhs \/ In x rhs).
Proof.
  induction fuel as [|fuel IH]; intros lhs rhs i j Hf; [lia|].
  cbn [merge_keys_go]. destruct lhs as [|a lt].
  - cbn [fst]. repeat split; [constructor | apply subseq_refl | intros x Hx; right; assumption].
  - destruct rhs as [|b rt].
    + cbn [fst]. repeat split; [apply subseq_refl | constructor | intros x Hx; left; assumption].
    + cbn [length] in Hf. destruct (a =? b)%nat eqn:Eab.
      * apply Nat.eqb_eq in Eab; subst b.
        destruct (merge_keys_go fuel lt rt (S i) (S j)) as [r m] eqn:E.
        specialize (IH lt rt (S i) (S j) ltac:(lia)). rewrite E in IH. cbn [fst] in *.
        destruct IH as [H1 [H2 H3]]. repeat split; try (apply ss_take; assumption).
        intros x [Hx|Hx]; [left; left; assumption|]. apply H3 in Hx. destruct Hx; [left|right]; right; assumption.
      * destruct (a <? b)%nat eqn:Elt.
        -- destruct (merge_keys_go fuel lt (b :: rt) (S i) j) as [r m] eqn:E.
           specialize (IH lt (b :: rt) (S i) j ltac:(cbn [length]; lia)). rewrite E in IH. cbn [fst] in *.
           destruct IH as [H1 [H2 H3]]. repeat split; [apply ss_take; assumption | apply ss_skip; assumption |].
           intros x [Hx|Hx]; [left; left; assumption|]. apply H3 in Hx. destruct Hx; [left; right|right]; assumption.
        -- destruct (merge_keys_go fuel (a :: lt) rt i (S j)) as [r m] eqn:E.
           specialize (IH (a :: lt) rt i (S j) ltac:(cbn [length]; lia)). rewrite E in IH. cbn [fst] in *.
           destruct IH as [H1 [H2 H3]]. repeat split; [apply ss_skip; assumption | apply ss_take; assumption |].
           intros x [Hx|Hx]; [right; left; assumption|]. apply H3 in Hx. destruct Hx; [left|right; right]; assumption.
Qed.

Lemma merge_keys_props : forall lhs rhs,
  subseq lhs (merge_keys lhs rhs) /\ subseq rhs (merge_keys lhs rhs) /\
  (forall x, In x (merge_keys lhs rhs) -> In x lhs \/ In x rhs).
Proof. intros. unfold merge_keys, merge_keys_matches. apply merge_keys_go_props. lia. Qed.

(* sorted union: on strictly increasing inputs the result is strictly increasing and has exactly
   the keys of both *)
Inductive strict : list nat -> Prop :=
| st_nil : strict []
| st_one : forall x, strict [x]
| st_cons : forall x y l, (x < y)%nat -> strict (y :: l) -> strict (x :: y :: l).

Definition head_ge (m : nat) (l : list nat) : Prop := match l with [] => True | x :: _ => (m <= x)%nat end.

Lemma strict_cons_head : forall x l, strict l -> head_ge (S x) l -> strict (x :: l).
Proof. intros x [|y l] Hs Hh; [constructor| cbn in Hh; constructor; [lia|assumption]]. Qed.

Lemma strict_tl : forall x l, strict (x :: l) -> strict l /\ head_ge (S x) l.
Proof. intros x l H; inversion H; subst; cbn; split; try constructor; try assumption; lia. Qed.

Lemma merge_keys_go_strict : forall fuel lhs rhs i j m,
  (length lhs + length rhs < fuel)%nat -> strict lhs -> strict rhs -> head_ge m lhs -> head_ge m rhs ->
  let r := fst (merge_keys_go fuel lhs rhs i j) in
  strict r /\ head_ge m r /\ (forall x, In x lhs \/ In x rhs -> In x r).
Proof.
  induction fuel as [|fuel IH]; intros lhs rhs i j m Hf Hl Hr Hml Hmr; [lia|].
  cbn [merge_keys_go]. destruct lhs as [|a lt].
  - cbn [fst]. repeat split; try assumption. intros x [[]|Hx]; assumption.
  - destruct rhs as [|b rt].
    + cbn [fst]. repeat split; try assumption. intros x [Hx|[]]; assumption.
    + cbn [length] in Hf. destruct (strict_tl _ _ Hl) as [Hlt Hhl]. destruct (strict_tl _ _ Hr) as [Hrt Hhr].
      cbn [head_ge] in Hml, Hmr.
      destruct (a =? b)%nat eqn:Eab.
      * apply Nat.eqb_eq in Eab; subst b.
        destruct (merge_keys_go fuel lt rt (S i) (S j)) as [r mm] eqn:E.
        specialize (IH lt rt (S i) (S j) (S a) ltac:(lia) Hlt Hrt Hhl Hhr). rewrite E in IH. cbn [fst] in *.
        destruct IH as [H1 [H2 H3]]. repeat split; [apply strict_cons_head; assumption | assumption |].
        intros x [[Hx|Hx]|[Hx|Hx]]; try (left; assumption); right; apply H3; [left|right]; assumption.
      * destruct (a <? b)%nat eqn:Elt.
        -- apply Nat.ltb_lt in Elt.
           destruct (merge_keys_go fuel lt (b :: rt) (S i) j) as [r mm] eqn:E.
           specialize (IH lt (b :: rt) (S i) j (S a) ltac:(cbn [length]; lia) Hlt Hr Hhl ltac:(cbn; lia)).
           rewrite E in IH. cbn [fst] in *.
           destruct IH as [H1 [H2 H3]]. repeat split; [apply strict_cons_head; assumption | assumption |].
           intros x [[Hx|Hx]|Hx]; [left; assumption | right; apply H3; left; assumption | right; apply H3; right; assumption].
        -- apply Nat.ltb_ge in Elt. apply Nat.eqb_neq in Eab.
           destruct (merge_keys_go fuel (a :: lt) rt i (S j)) as [r mm] eqn:E.
           specialize (IH (a :: lt) rt i (S j) (S b) ltac:(cbn [length]; lia) Hl Hrt ltac:(cbn; lia) Hhr).
           rewrite E in IH. cbn [fst] in *.
           destruct IH as [H1 [H2 H3]]. repeat split; [apply strict_cons_head; assumption | assumption |].
           intros x [Hx|[Hx|Hx]]; [right; apply H3; left; assumption | left; assumption | right; apply H3; right; assumption].
Qed.

Theorem merge_is_sorted_union_lemma : forall lhs rhs, strict lhs -> strict rhs ->
  strict (merge_keys lhs rhs) /\ (forall x, In x (merge_keys lhs rhs) <-> In x lhs \/ In x rhs).
Proof.
  intros lhs rhs Hl Hr. unfold merge_keys, merge_keys_matches.
  destruct (merge_keys_go_strict (S (length lhs + length rhs)) lhs rhs 0 0 0 ltac:(lia) Hl Hr) as [H1 [_ H3]].
  - destruct lhs; cbn; lia.
  - destruct rhs; cbn; lia.
  - split; [assumption|]. intros x; split; [|apply H3].
    apply (merge_keys_go_props (S (length lhs + length rhs)) lhs rhs 0 0). lia.
Qed.

(* ---------------------------------------------------------------- indices ---- *)
Lemma sub_length : forall ids (l : list nat), length (sub ids l) = length ids.
Proof. intros; unfold sub; apply map_length. Qed.

Lemma bf_value_entry : forall space b x, bf_value space b x = entry space b x.
Proof.
  intros. unfold bf_value, entry, qnth. rewrite toIndexPartial_sub.
  rewrite toIndex_spec by (rewrite !sub_length; lia). reflexivity.
Qed.

Lemma seek_subseq : forall x id t pk, subseq (id :: t) pk ->
  exists pk', seek id pk (sub pk x) = (id :: pk', sub (id :: pk') x) /\ subseq t (id :: pk').
Proof.
  intros x id t pk; induction pk as [|k pk IH]; intros H; [inversion H|].
  cbn [sub map seek]. fold (sub pk x). destruct (k =? id)%nat eqn:E.
  - apply Nat.eqb_eq in E; subst k. exists pk. split; [reflexivity|].
    inversion H; subst; [apply ss_skip; assumption | apply ss_skip; eapply subseq_tl; eassumption].
  - apply Nat.eqb_neq in E. inversion H; subst; [congruence|]. apply IH; assumption.
Qed.

Lemma kpf_go_subseq : forall space x ids pk mult acc, subseq ids pk ->
  toIndexPartialKPF_go ids space pk (sub pk x) mult acc = Some (toIndexPartial_go ids space x mult acc).
Proof.
  intros space x ids; induction ids as [|id t IH]; intros pk mult acc H; [reflexivity|].
  cbn [toIndexPartialKPF_go toIndexPartial_go].
  destruct (seek_subseq x id t pk H) as [pk' [Hs Hsub]]. rewrite Hs.
  cbn [sub map]. fold (sub pk' x). change (nth id x 0%nat :: sub pk' x) with (sub (id :: pk') x).
  apply IH; assumption.
Qed.

Lemma idx_of_subseq : forall space x ids tag, subseq ids tag ->
  idx_of ids space tag (sub tag x) = toIndexPartial ids space x.
Proof. intros. unfold idx_of, toIndexPartialKPF. rewrite kpf_go_subseq by assumption. reflexivity. Qed.

(* ---------------------------------------------------------------- assignments ---- *)
Lemma tag_ok_keys_pos : forall space x tag, in_space space x -> tag_ok space tag -> keys_pos space tag.
Proof.
  intros space x tag Hx Ht. unfold keys_pos, tag_ok in *. rewrite Forall_forall in *. intros k Hk.
  specialize (Ht k Hk). clear Hk. revert k Ht. induction Hx as [|sp v space x Hv Hx IH]; intros k Hk; cbn [length] in Hk; [lia|].
  destruct k; cbn [nth]; [lia| apply IH; lia].
Qed.

Lemma in_space_nth : forall space x k, in_space space x -> (k < length space)%nat -> (nth k x 0 < nth k space 0)%nat.
Proof.
  intros space x k H; revert k; induction H as [|sp v space x Hv Hx IH]; intros k Hk; cbn [length] in Hk; [lia|].
  destruct k; cbn [nth]; [assumption| apply IH; lia].
Qed.

Lemma in_space_sub : forall space x tag, in_space space x -> tag_ok space tag -> in_space (sub tag space) (sub tag x).
Proof.
  intros space x tag Hx Ht. induction Ht as [|k tag Hk Ht IH]; cbn [sub map]; [constructor|].
  constructor; [apply in_space_nth; assumption | exact IH].
Qed.

Lemma enum_assignments_spec : forall space tag, tag <> [] -> keys_pos space tag ->
  enum_assignments space tag = map (toFactorsPartial tag space) (seq 0 (factorSpacePartial tag space)).
Proof.
  intros space tag Hne Hk. unfold enum_assignments.
  destruct (enumerator_keys_lemma space tag (S (pfe_size (pfe_keys space tag))) Hne Hk) as [Hv Hs].
  - destruct (enumerator_keys_lemma space tag (S (factorSpacePartial tag space)) Hne Hk ltac:(lia)) as [_ Hs]. rewrite Hs. lia.
  - rewrite Hv. reflexivity.
Qed.

Lemma nth_map_in : forall (A : Type) (f : A -> Q) (l : list A) (d : A) i, (i < length l)%nat ->
  nth i (map f l) 0 = f (nth i l d).
Proof.
  intros A f l d i H. rewrite (nth_indep (map f l) 0 (f d)) by (rewrite map_length; assumption).
  apply map_nth.
Qed.

(* the value the enumeration loop computes for the slot the assignment x selects *)
Lemma enum_slot : forall space tag x (g : list nat -> Q),
  tag <> [] -> tag_ok space tag -> in_space space x ->
  nth (toIndexPartial tag space x) (map g (enum_assignments space tag)) 0 = g (sub tag x).
Proof.
  intros space tag x g Hne Ht Hx.
  pose proof (tag_ok_keys_pos space x tag Hx Ht) as Hk.
  destruct (partial_roundtrip_factors_lemma tag space x (in_space_sub space x tag Hx Ht)) as [Hr Hlt].
  rewrite enum_assignments_spec by assumption. rewrite map_map.
  rewrite (nth_map_in _ _ _ 0%nat) by (rewrite seq_length; assumption).
  rewrite seq_nth by assumption. cbn [Nat.add]. rewrite Hr. reflexivity.
Qed.

(* ---------------------------------------------------------------- BasisFunction ops ---- *)
Lemma bf_binop_value : forall op space l r x,
  bfTag l <> [] -> tag_ok space (bfTag l) -> tag_ok space (bfTag r) -> in_space space x ->
  bf_value space (bf_binop op space l r) x = op (bf_value space l x) (bf_value space r x).
Proof.
  intros op space l r x Hne Hl Hr Hx. destruct (merge_keys_props (bfTag l) (bfTag r)) as [Hsl [Hsr Hin]].
  unfold bf_binop. unfold bf_value at 1. cbn [bfTag bfVals]. unfold qnth at 1.
  rewrite enum_slot; try assumption.
  - rewrite !idx_of_subseq by assumption. reflexivity.
  - apply (subseq_nonempty _ _ Hsl Hne).
  - unfold tag_ok in *. rewrite Forall_forall in *. intros k Hk. destruct (Hin k Hk); auto.
Qed.

Lemma bf_binop_wf : forall op space l r x,
  bf_wf space l -> bf_wf space r -> in_space space x -> bf_wf space (bf_binop op space l r).
Proof.
  intros op space l r x [Hne [Hl _]] [_ [Hr _]] Hx. destruct (merge_keys_props (bfTag l) (bfTag r)) as [Hsl [Hsr Hin]].
  assert (Ht : tag_ok space (merge_keys (bfTag l) (bfTag r))).
  { unfold tag_ok in *. rewrite Forall_forall in *. intros k Hk. destruct (Hin k Hk); auto. }
  unfold bf_binop, bf_wf. cbn [bfTag bfVals]. repeat split.
  - apply (subseq_nonempty _ _ Hsl Hne).
  - assumption.
  - rewrite map_length, enum_assignments_spec, map_length, seq_length; [reflexivity | apply (subseq_nonempty _ _ Hsl Hne) |].
    eapply tag_ok_keys_pos; eassumption.
Qed.

Lemma vzip_length : forall (B : Type) (op : Q -> B -> Q) a (b : list B), length (vzip op a b) = length a.
Proof. intros B op a; induction a as [|x a IH]; intros [|y b]; cbn [vzip length]; try reflexivity. rewrite IH. reflexivity. Qed.

Lemma vzip_nth : forall (B : Type) (op : Q -> B -> Q) a (b : list B) (d : B) i,
  (i < length a)%nat -> (i < length b)%nat -> nth i (vzip op a b) 0 = op (nth i a 0) (nth i b d).
Proof.
  intros B op a; induction a as [|x a IH]; intros [|y b] d i Ha Hb; cbn [length] in *; try lia.
  cbn [vzip]. destruct i; cbn [nth]; [reflexivity| apply IH; lia].
Qed.

Lemma subset_op_value : forall op space ret rhs x,
  bf_wf space ret -> bf_wf space rhs -> subseq (bfTag rhs) (bfTag ret) -> in_space space x ->
  bf_value space (subset_op op space ret rhs) x = op (bf_value space ret x) (bf_value space rhs x)
  /\ bf_wf space (subset_op op space ret rhs).
Proof.
  intros op space ret rhs x [Hne [Ht Hlen]] [Hne' [Ht' Hlen']] Hsub Hx.
  pose proof (tag_ok_keys_pos space x _ Hx Ht) as Hk.
  destruct (partial_roundtrip_factors_lemma (bfTag ret) space x (in_space_sub space x _ Hx Ht)) as [Hr Hlt].
  unfold subset_op. destruct (length (bfTag ret) =? length (bfTag rhs))%nat eqn:E.
  - apply Nat.eqb_eq in E. assert (Heq : bfTag rhs = bfTag ret) by (apply subseq_same_length; [assumption|lia]).
    split.
    + unfold bf_value. cbn [bfTag bfVals]. unfold qnth. rewrite Heq.
      apply (vzip_nth Q op _ _ 0); [rewrite Hlen | rewrite Hlen', Heq]; assumption.
    + unfold bf_wf. cbn [bfTag bfVals]. rewrite vzip_length. repeat split; assumption.
  - split.
    + unfold bf_value at 1. cbn [bfTag bfVals]. unfold qnth at 1.
      rewrite (vzip_nth _ _ _ _ (@nil nat)).
      * rewrite enum_assignments_spec by assumption.
        rewrite (nth_indep _ [] (toFactorsPartial (bfTag ret) space 0)) by (rewrite map_length, seq_length; assumption).
        rewrite map_nth, seq_nth by assumption. cbn [Nat.add]. rewrite Hr.
        rewrite idx_of_subseq by assumption. reflexivity.
      * rewrite Hlen; assumption.
      * rewrite enum_assignments_spec, map_length, seq_length by assumption. assumption.
    + unfold bf_wf. cbn [bfTag bfVals]. rewrite vzip_length. repeat split; assumption.
Qed.

Lemma bf_neg_value : forall space b x, bf_value space (bf_neg b) x = - bf_value space b x.
Proof.
  intros. unfold bf_value, bf_neg, qnth. cbn [bfTag bfVals].
  change 0 with (Qopp 0) at 1. apply map_nth.
Qed.

Lemma bf_neg_wf : forall space b, bf_wf space b -> bf_wf space (bf_neg b).
Proof. intros space b [H1 [H2 H3]]. unfold bf_wf, bf_neg. cbn [bfTag bfVals]. rewrite map_length. auto. Qed.

(* ---------------------------------------------------------------- sorted_contains ---- *)
Lemma list_eqb_eq : forall a b, list_eqb a b = true -> a = b.
Proof.
  induction a as [|x a IH]; intros [|y b] H; cbn [list_eqb] in H; try discriminate; [reflexivity|].
  destruct (x =? y)%nat eqn:E; [|discriminate]. apply Nat.eqb_eq in E. subst. f_equal. apply IH; assumption.
Qed.

Lemma ssc_go_subseq : forall elems v, ssc_go v elems = true -> subseq elems v.
Proof.
  induction elems as [|e et IH]; intros v H; [constructor|].
  induction v as [|x vt IHv]; cbn [ssc_go] in H; [discriminate|].
  destruct (x <? e)%nat eqn:E1.
  - apply ss_skip. apply IHv. cbn [ssc_go]. exact H.
  - destruct (e <? x)%nat eqn:E2; [discriminate|].
    apply Nat.ltb_ge in E1. apply Nat.ltb_ge in E2. assert (x = e) by lia. subst.
    apply ss_take. apply IH. exact H.
Qed.

Lemma sorted_contains_subseq : forall v elems, sorted_contains v elems = true -> subseq elems v.
Proof.
  intros v elems H. unfold sorted_contains in H. destruct (length v =? length elems)%nat.
  - apply list_eqb_eq in H. subst. apply subseq_refl.
  - apply ssc_go_subseq; assumption.
Qed.

(* ---------------------------------------------------------------- FactoredVector ---- *)
Lemma flat_app : forall space a b x, flat space (a ++ b) x == flat space a x + flat space b x.
Proof. intros space a b x; induction a as [|c a IH]; cbn [app flat]; [lra| rewrite IH; lra]. Qed.

Lemma getValue_go : forall space fv x acc,
  fold_left (fun a b => a + bf_value space b x) fv acc == acc + flat space fv x.
Proof.
  intros space fv x; induction fv as [|b t IH]; intros acc; cbn [fold_left flat]; [lra|].
  rewrite IH, bf_value_entry. lra.
Qed.

Theorem getValue_flat_lemma : forall space fv x, getValue space fv x == flat space fv x.
Proof. intros. unfold getValue. rewrite getValue_go. lra. Qed.

(* generic statement about the merge loop: if both replacement functions change the value of the
   basis they replace by [delta] and keep it well formed, so does the loop for the whole vector *)
Lemma merge_loop_flat : forall space x (into onto : bf -> bf) basis delta,
  in_space space x -> bf_wf space basis ->
  (forall cur, bf_wf space cur -> subseq (bfTag basis) (bfTag cur) ->
     bf_value space (into cur) x == bf_value space cur x + delta /\ bf_wf space (into cur)) ->
  (forall cur, bf_wf space cur -> subseq (bfTag cur) (bfTag basis) ->
     bf_value space (onto cur) x == bf_value space cur x + delta /\ bf_wf space (onto cur)) ->
  forall fv r i, fv_wf space fv -> merge_loop into onto basis fv = Some (r, i) ->
  flat space r x == flat space fv x + delta /\ fv_wf space r /\ (i < length r)%nat /\
  (forall d, flat space (erase_at i r) x == flat space r x - entry space (nth i r d) x) /\ fv_wf space (erase_at i r).
Proof.
  intros space x into onto basis delta Hx Hb Hinto Honto.
  induction fv as [|cur rest IH]; intros r i Hwf H; cbn [merge_loop] in H; [discriminate|].
  inversion Hwf as [|? ? Hc Hrest]; subst.
  destruct (sorted_contains
              (bfTag (if (length (bfTag basis) <=? length (bfTag cur))%nat then cur else basis))
              (bfTag (if (length (bfTag basis) <=? length (bfTag cur))%nat then basis else cur))) eqn:Esc.
  - inversion H; subst; clear H. apply sorted_contains_subseq in Esc.
    destruct (length (bfTag basis) <=? length (bfTag cur))%nat.
    + destruct (Hinto cur Hc Esc) as [Hv Hw]. cbn [flat erase_at nth length]. rewrite <- !bf_value_entry.
      repeat split; [rewrite Hv; lra | constructor; assumption | lia | intros; lra | assumption].
    + destruct (Honto cur Hc Esc) as [Hv Hw]. cbn [flat erase_at nth length]. rewrite <- !bf_value_entry.
      repeat split; [rewrite Hv; lra | constructor; assumption | lia | intros; lra | assumption].
  - destruct (merge_loop into onto basis rest) as [[r' i']|] eqn:E; [|discriminate].
    inversion H; subst; clear H.
    destruct (IH r' i' Hrest eq_refl) as [H1 [H2 [H3 [H4 H5]]]].
    cbn [flat erase_at nth length].
    repeat split; [rewrite H1; lra | constructor; assumption | lia | intros d; rewrite (H4 d); lra | constructor; assumption].
Qed.

Lemma merge_loop_none_wf : forall space (into onto : bf -> bf) (basis : bf) c fv,
  fv_wf space fv -> bf_wf space c -> fv_wf space (fv ++ [c]).
Proof. intros. unfold fv_wf in *. apply Forall_app. split; [assumption| constructor; [assumption|constructor]]. Qed.

Theorem plusEqual_flat_lemma : forall space fv b x,
  fv_wf space fv -> bf_wf space b -> in_space space x ->
  flat space (plusEqual space fv b) x == flat space fv x + entry space b x /\ fv_wf space (plusEqual space fv b).
Proof.
  intros space fv b x Hwf Hb Hx. unfold plusEqual.
  destruct (merge_loop (fun cur => plusEqualSubset space cur b) (fun cur => plusEqualSubset space b cur) b fv)
    as [[r i]|] eqn:E.
  - rewrite <- bf_value_entry.
    assert (Hinto : forall cur, bf_wf space cur -> subseq (bfTag b) (bfTag cur) ->
              bf_value space (plusEqualSubset space cur b) x == bf_value space cur x + bf_value space b x
              /\ bf_wf space (plusEqualSubset space cur b)).
    { intros cur Hc Hs. destruct (subset_op_value Qplus space cur b x Hc Hb Hs Hx) as [Hv Hw].
      split; [unfold plusEqualSubset; rewrite Hv; lra | exact Hw]. }
    assert (Honto : forall cur, bf_wf space cur -> subseq (bfTag cur) (bfTag b) ->
              bf_value space (plusEqualSubset space b cur) x == bf_value space cur x + bf_value space b x
              /\ bf_wf space (plusEqualSubset space b cur)).
    { intros cur Hc Hs. destruct (subset_op_value Qplus space b cur x Hb Hc Hs Hx) as [Hv Hw].
      split; [unfold plusEqualSubset; rewrite Hv; lra | exact Hw]. }
    destruct (merge_loop_flat space x _ _ b (bf_value space b x) Hx Hb Hinto Honto fv r i Hwf E) as [H1 [H2 _]].
    split; assumption.
  - split; [rewrite flat_app; cbn [flat]; lra | apply (merge_loop_none_wf space (fun c => c) (fun c => c) b); assumption].
Qed.

Lemma minus_replacements : forall space b x, bf_wf space b -> in_space space x ->
  (forall cur, bf_wf space cur -> subseq (bfTag b) (bfTag cur) ->
     bf_value space (minusEqualSubset space cur b) x == bf_value space cur x + - bf_value space b x
     /\ bf_wf space (minusEqualSubset space cur b)) /\
  (forall cur, bf_wf space cur -> subseq (bfTag cur) (bfTag b) ->
     bf_value space (plusEqualSubset space (bf_neg b) cur) x == bf_value space cur x + - bf_value space b x
     /\ bf_wf space (plusEqualSubset space (bf_neg b) cur)).
Proof.
  intros space b x Hb Hx. split; intros cur Hc Hs.
  - destruct (subset_op_value Qminus space cur b x Hc Hb Hs Hx) as [Hv Hw].
    split; [unfold minusEqualSubset; rewrite Hv; lra | exact Hw].
  - destruct (subset_op_value Qplus space (bf_neg b) cur x (bf_neg_wf _ _ Hb) Hc Hs Hx) as [Hv Hw].
    split; [unfold plusEqualSubset; rewrite Hv, bf_neg_value; lra | exact Hw].
Qed.

Theorem minusEqual_flat_lemma : forall space fv b x,
  fv_wf space fv -> bf_wf space b -> in_space space x ->
  flat space (minusEqual space fv b false) x == flat space fv x - entry space b x
  /\ fv_wf space (minusEqual space fv b false).
Proof.
  intros space fv b x Hwf Hb Hx. unfold minusEqual.
  destruct (minus_replacements space b x Hb Hx) as [Hinto Honto].
  destruct (merge_loop (fun cur => minusEqualSubset space cur b) (fun cur => plusEqualSubset space (bf_neg b) cur) b fv)
    as [[r i]|] eqn:E.
  - cbn [andb]. rewrite <- bf_value_entry.
    destruct (merge_loop_flat space x _ _ b (- bf_value space b x) Hx Hb Hinto Honto fv r i Hwf E) as [H1 [H2 _]].
    split; [rewrite H1; lra | assumption].
  - split.
    + rewrite flat_app. cbn [flat]. rewrite <- !bf_value_entry, bf_neg_value. lra.
    + apply (merge_loop_none_wf space (fun c => c) (fun c => c) b); [assumption | apply bf_neg_wf; assumption].
Qed.

(* clearZero = true: a basis is erased only if all its entries are within 1e-6 of zero, so the flat
   value moves by at most 1e-6 *)
Lemma allZero_small : forall v i, allZeroGeneral v = true -> - (1 # 1000000) <= nth i v 0 /\ nth i v 0 <= 1 # 1000000.
Proof.
  induction v as [|y v IH]; intros i H.
  - destruct i; cbn [nth]; split; lra.
  - cbn [allZeroGeneral forallb] in H. apply andb_prop in H. destruct H as [Hy Hv].
    destruct i; cbn [nth]; [| apply IH; exact Hv].
    apply orb_prop in Hy. assert (Habs : Qabs y <= 1 # 1000000).
    { destruct Hy as [Hy|Hy].
      - unfold eqSmallZero in Hy. apply Qle_bool_iff in Hy. exact Hy.
      - apply Qle_bool_iff in Hy. pose proof (Qabs_nonneg y) as Hn.
        pose proof (Q.le_min_r (Qabs y) 0) as Hm. nra. }
    apply Qabs_Qle_condition in Habs. exact Habs.
Qed.

Theorem minusEqual_clear_flat_lemma : forall space fv b x,
  fv_wf space fv -> bf_wf space b -> in_space space x ->
  - (1 # 1000000) <= flat space (minusEqual space fv b true) x - (flat space fv x - entry space b x)
  /\ flat space (minusEqual space fv b true) x - (flat space fv x - entry space b x) <= 1 # 1000000.
Proof.
  intros space fv b x Hwf Hb Hx. unfold minusEqual.
  destruct (minus_replacements space b x Hb Hx) as [Hinto Honto].
  destruct (merge_loop (fun cur => minusEqualSubset space cur b) (fun cur => plusEqualSubset space (bf_neg b) cur) b fv)
    as [[r i]|] eqn:E.
  - cbn [andb]. rewrite <- bf_value_entry.
    destruct (merge_loop_flat space x _ _ b (- bf_value space b x) Hx Hb Hinto Honto fv r i Hwf E) as [H1 [H2 [H3 [H4 _]]]].
    destruct (allZeroGeneral (bfVals (nth i r (mkBf [] [])))) eqn:Ez.
    + rewrite (H4 (mkBf [] [])). rewrite H1. unfold entry.
      pose proof (allZero_small _ (radix_value (sub (bfTag (nth i r (mkBf [] []))) space) (sub (bfTag (nth i r (mkBf [] []))) x)) Ez) as [Ha Hb'].
      split; lra.
    + rewrite H1. split; lra.
  - rewrite flat_app. cbn [flat]. rewrite <- !bf_value_entry, bf_neg_value. split; lra.
Qed.

(* ---------------------------------------------------------------- weights ---- *)
Definition nQ (n : nat) : Q := inject_Z (Z.of_nat n).
Lemma nQ_S : forall n, nQ (S n) == nQ n + 1.
Proof. intros. unfold nQ. rewrite Nat2Z.inj_succ. unfold Z.succ. rewrite inject_Z_plus. reflexivity. Qed.

Lemma scaled_value : forall space b x (f : Q -> Q), bf_wf space b -> in_space space x ->
  bf_value space (mkBf (bfTag b) (map f (bfVals b))) x = f (bf_value space b x).
Proof.
  intros space b x f [Hne [Ht Hlen]] Hx. unfold bf_value, qnth. cbn [bfTag bfVals].
  destruct (partial_roundtrip_factors_lemma (bfTag b) space x (in_space_sub space x _ Hx Ht)) as [_ Hlt].
  apply nth_map_in. rewrite Hlen. assumption.
Qed.

Lemma scaleW_go_flat : forall space x add toAdd fv w, fv_wf space fv -> in_space space x ->
  (length fv <= length w)%nat ->
  flat space (scaleW_go fv w add toAdd) x == wsum space fv x w + (if add then nQ (length fv) * toAdd else 0).
Proof.
  intros space x add toAdd fv; induction fv as [|b t IH]; intros w Hwf Hx Hl.
  - cbn [scaleW_go flat wsum length]. unfold nQ. change (inject_Z (Z.of_nat 0)) with 0. destruct w; destruct add; lra.
  - inversion Hwf; subst. destruct w as [|wi wt]; [cbn [length] in Hl; lia|].
    cbn [scaleW_go flat wsum length tl]. cbn [length] in Hl. rewrite IH by (try assumption; lia).
    rewrite <- (bf_value_entry space (mkBf _ _)). rewrite scaled_value by assumption.
    rewrite <- bf_value_entry. unfold qnth. cbn [nth]. destruct add; [rewrite nQ_S|]; lra.
Qed.

Theorem scaleW_flat_lemma : forall space fv w x,
  fv_wf space fv -> in_space space x ->
  (length w = length fv \/ (length w = S (length fv) /\ fv <> [])) ->
  flat space (scaleW fv w) x ==
  wsum space fv x w + (if (length w =? S (length fv))%nat then nth (length fv) w 0 else 0).
Proof.
  intros space fv w x Hwf Hx Hl. unfold scaleW. rewrite scaleW_go_flat by (try assumption; lia).
  destruct Hl as [Hl|[Hl Hne]].
  - replace (length w =? S (length fv))%nat with false by (symmetry; apply Nat.eqb_neq; lia). lra.
  - replace (length w =? S (length fv))%nat with true by (symmetry; apply Nat.eqb_eq; lia).
    replace (length w - 1)%nat with (length fv) by lia. unfold qnth.
    assert (Hn : ~ nQ (length fv) == 0).
    { destruct fv; [congruence|]. cbn [length]. rewrite nQ_S. unfold nQ.
      pose proof (Nat2Z.is_nonneg (length fv)) as Hz.
      rewrite Zle_Qle in Hz. change (inject_Z 0) with 0 in Hz.
      lra. }
    fold (nQ (length fv)). field. exact Hn.
Qed.

Lemma getValueW_go_spec : forall space x fv w acc, (length fv <= length w)%nat ->
  getValueW_go space fv x w acc == acc + wsum space fv x w.
Proof.
  intros space x fv; induction fv as [|b t IH]; intros w acc Hl; cbn [getValueW_go wsum]; [lra|].
  destruct w as [|wi wt]; [cbn [length] in Hl; lia|]. cbn [tl]. cbn [length] in Hl.
  rewrite IH by lia. rewrite bf_value_entry. unfold qnth. cbn [nth]. lra.
Qed.

Theorem getValueW_spec_lemma : forall space fv w x, (length fv <= length w)%nat ->
  getValueW space fv x w ==
  wsum space fv x w + (if (length w =? S (length fv))%nat then nth (length fv) w 0 else 0).
Proof.
  intros. unfold getValueW. rewrite getValueW_go_spec by assumption. unfold qnth.
  destruct (length w =? S (length fv))%nat; lra.
Qed.

Theorem scale_flat_lemma : forall space fv v x, fv_wf space fv -> in_space space x ->
  flat space (scale fv v) x == v * flat space fv x.
Proof.
  intros space fv v x Hwf Hx. induction Hwf as [|b t Hb Ht IH]; cbn [scale map flat]; [lra|].
  fold (scale t v). rewrite IH. rewrite <- (bf_value_entry space (mkBf _ _)).
  rewrite (scaled_value space b x (fun y => y * v)) by assumption. rewrite <- bf_value_entry. lra.
Qed.

(* FactoredVector (+/-)= FactoredVector *)
Theorem plusEqualFV_flat_lemma : forall space rhs fv x,
  fv_wf space fv -> fv_wf space rhs -> in_space space x ->
  flat space (plusEqualFV space fv rhs) x == flat space fv x + flat space rhs x
  /\ fv_wf space (plusEqualFV space fv rhs).
Proof.
  intros space rhs; induction rhs as [|b t IH]; intros fv x Hwf Hr Hx; unfold plusEqualFV in *; cbn [fold_left flat].
  - split; [lra|assumption].
  - inversion Hr as [|? ? Hb0 Ht0]; subst. destruct (plusEqual_flat_lemma space fv b x Hwf Hb0 Hx) as [G1 G2].
    destruct (IH (plusEqual space fv b) x G2 Ht0 Hx) as [G3 G4].
    split; [rewrite G3, G1; lra | assumption].
Qed.

Theorem minusEqualFV_flat_lemma : forall space rhs fv x,
  fv_wf space fv -> fv_wf space rhs -> in_space space x ->
  flat space (minusEqualFV space fv rhs false) x == flat space fv x - flat space rhs x
  /\ fv_wf space (minusEqualFV space fv rhs false).
Proof.
  intros space rhs; induction rhs as [|b t IH]; intros fv x Hwf Hr Hx; unfold minusEqualFV in *; cbn [fold_left flat].
  - split; [lra|assumption].
  - inversion Hr as [|? ? Hb0 Ht0]; subst. destruct (minusEqual_flat_lemma space fv b x Hwf Hb0 Hx) as [G1 G2].
    destruct (IH (minusEqual space fv b false) x G2 Ht0 Hx) as [G3 G4].
    split; [rewrite G3, G1; lra | assumption].
Qed.

(* BasisFunction ops in terms of entries *)
Theorem bf_binop_flat_lemma : forall op space l r x,
  bf_wf space l -> bf_wf space r -> in_space space x ->
  entry space (bf_binop op space l r) x = op (entry space l x) (entry space r x)
  /\ bf_wf space (bf_binop op space l r).
Proof.
  intros op space l r x Hl Hr Hx. split; [| eapply bf_binop_wf; eassumption].
  rewrite <- !bf_value_entry. destruct Hl as [H1 [H2 _]]. destruct Hr as [_ [H3 _]].
  apply bf_binop_value; assumption.
Qed.

(* the code as it stands in the unrepaired tree: 5 - 2 = 7 *)
Theorem minusEqual_orig_refuted_lemma :
  exists space fv b x, fv_wf space fv /\ bf_wf space b /\ in_space space x /\
    flat space fv x == 5 /\ entry space b x == 2 /\
    flat space (minusEqual_orig space fv b false) x == 7.
Proof.
  exists [2%nat], [mkBf [0%nat] [5; 5]], (mkBf [0%nat] [2; 2]), [0%nat].
  assert (Hb : forall v, bf_wf [2%nat] (mkBf [0%nat] [v; v])).
  { intros v. unfold bf_wf, tag_ok. cbn [bfTag bfVals length]. repeat split; [discriminate | repeat constructor]. }
  split; [constructor; [apply Hb | constructor]|].
  split; [apply Hb|].
  split; [repeat constructor|].
  repeat split; vm_compute; reflexivity.
Qed.
