(* C14/ProofsSparse.v — round 6: SparseCooperativeQLearning (flat value of a rule set, exact update of
   stepUpdateQ, single full-scope rule = QLearning's update) and toIndex(space, PartialFactors). *)
From Coq Require Import List Arith Lia QArith Lqa.
From AIT Require Import C14.Model C14.Spec C14.ModelAlg C14.ProofsAlg C14.ProofsCore C14.ModelDDN C14.SpecDDN
  C14.ProofsDDN C14.ProofsBP C14.Model2D C14.ModelLearn C14.ProofsLearn C14.SpecSparse.
Import ListNotations.
Local Open Scope Q_scope.

(* ---------------------------------------------------------------- (a) flat value ---- *)
Lemma qsum_filter_rules : forall (p : qrule -> bool) rules,
  qsum (map rVal (filter p rules)) == qsum (map (fun r => if p r then rVal r else 0) rules).
Proof.
  intros p rules; unfold qsum; induction rules as [|x rules IH]; cbn [filter map fold_right]; [reflexivity|].
  destruct (p x); cbn [map fold_right]; rewrite IH; ring.
Qed.

Theorem sparse_coop_flat_value_lemma : forall rules s a, sparse_qvalue rules s a == flatQ rules s a.
Proof.
  intros rules s a. unfold sparse_qvalue, flatQ. rewrite (fold_left_sum _ rVal).
  rewrite (qsum_filter_rules (fun r => rule_matches r s a)). ring.
Qed.

(* ---------------------------------------------------------------- (b) the update ---- *)
Lemma vadd_keys_nth : forall v ks per j, (j < length per)%nat ->
  length (fold_left (fun p ag => vadd_at p ag v) ks per) = length per /\
  nthq (fold_left (fun p ag => vadd_at p ag v) ks per) j == nthq per j + occ j ks * v.
Proof.
  intros v ks; induction ks as [|k ks IH]; intros per j Hj; cbn [fold_left].
  - split; [reflexivity|]. unfold occ, qsum; cbn [map fold_right]. ring.
  - assert (Hl' : length (vadd_at per k v) = length per) by (unfold vadd_at; apply upd_length).
    destruct (IH (vadd_at per k v) j ltac:(lia)) as [Hl Hn]. split; [lia|].
    rewrite Hn. unfold occ, qsum; cbn [map fold_right]. unfold vadd_at, nthq.
    destruct (Nat.eqb_spec k j) as [->|Hne].
    + rewrite nth_upd_same by lia. ring.
    + rewrite nth_upd_other by congruence. ring.
Qed.

Lemma vadd_rules_nth : forall (f : qrule -> Q) rs per j, (j < length per)%nat ->
  length (fold_left (fun per r => fold_left (fun p ag => vadd_at p ag (f r)) (rAK r) per) rs per) = length per /\
  nthq (fold_left (fun per r => fold_left (fun p ag => vadd_at p ag (f r)) (rAK r) per) rs per) j
    == nthq per j + contrib j f rs.
Proof.
  intros f rs; induction rs as [|r rs IH]; intros per j Hj; cbn [fold_left].
  - split; [reflexivity|]. unfold contrib, qsum; cbn [map fold_right]. ring.
  - destruct (vadd_keys_nth (f r) (rAK r) per j Hj) as [Hl1 Hn1].
    destruct (IH (fold_left (fun p ag => vadd_at p ag (f r)) (rAK r) per) j ltac:(lia)) as [Hl Hn].
    split; [lia|]. rewrite Hn, Hn1. unfold contrib, qsum; cbn [map fold_right]. ring.
Qed.

Lemma vdiv_length : forall a b, length a = length b -> length (vdiv a b) = length a.
Proof.
  induction a as [|x a IH]; intros [|y b] H; cbn [length] in H; try discriminate; cbn [vdiv length]; [reflexivity|].
  rewrite IH by lia. reflexivity.
Qed.

Lemma vdiv_nth : forall a b j, (j < length a)%nat -> (j < length b)%nat ->
  nthq (vdiv a b) j = nthq a j / nthq b j.
Proof.
  unfold nthq. induction a as [|x a IH]; intros [|y b] [|j] Ha Hb; cbn [length] in Ha, Hb; try lia; cbn [vdiv nth].
  - reflexivity.
  - apply IH; lia.
Qed.

Lemma map_nthq_lt : forall (f : Q -> Q) l j, (j < length l)%nat -> nthq (map f l) j = f (nthq l j).
Proof.
  intros f l j Hj. unfold nthq. rewrite (nth_indep _ 0 (f 0)) by (rewrite map_length; exact Hj).
  apply map_nth.
Qed.

(* the per-agent vector just before the rules are updated (sparse_step's per3) *)
Definition sparse_per3 (nA : nat) (alpha gamma : Q) (rules : list qrule) (s a s1 a1 : list nat) (rew : list Q) : list Q :=
  map (fun x => x * alpha)
    (fold_left (fun per r => fold_left (fun p ag => vadd_at p ag (- rVal r / natQ (length (rAK r)))) (rAK r) per)
       (filter (fun r => rule_matches r s a) rules)
       (fold_left (fun per r => fold_left (fun p ag => vadd_at p ag (gamma * rVal r / natQ (length (rAK r)))) (rAK r) per)
          (filter (fun r => rule_matches r s1 a1) rules)
          (vdiv rew (fold_left (fun c r => fold_left (fun c' ag => vadd_at c' ag 1) (rAK r) c)
                               (filter (fun r => rule_matches r s a) rules) (repeat 0 nA))))).

Lemma sparse_step_unfold : forall nA alpha gamma rules s a s1 a1 rew,
  sparse_step nA alpha gamma rules s a s1 a1 rew =
  map (fun r => if rule_matches r s a
                then mkRule (rSK r) (rSV r) (rAK r) (rAV r)
                       (Qred (rVal r + fold_left (fun u ag => u + nthq (sparse_per3 nA alpha gamma rules s a s1 a1 rew) ag) (rAK r) 0))
                else r) rules.
Proof. reflexivity. Qed.

Lemma sparse_per3_nth : forall nA alpha gamma rules s a s1 a1 rew j,
  length rew = nA -> (j < nA)%nat ->
  nthq (sparse_per3 nA alpha gamma rules s a s1 a1 rew) j == td_share alpha gamma rules s a s1 a1 rew j.
Proof.
  intros nA alpha gamma rules s a s1 a1 rew j Hrew Hj. unfold sparse_per3, td_share.
  set (before := filter (fun r => rule_matches r s a) rules).
  set (after := filter (fun r => rule_matches r s1 a1) rules).
  pose proof (vadd_rules_nth (fun _ => 1) before (repeat 0 nA) j) as Hc. cbv beta in Hc.
  rewrite repeat_length in Hc. destruct (Hc Hj) as [Hlc Hnc]. clear Hc.
  set (cnt := fold_left (fun c r => fold_left (fun c' ag => vadd_at c' ag 1) (rAK r) c) before (repeat 0 nA)) in *.
  assert (Hl0 : length (vdiv rew cnt) = nA) by (rewrite vdiv_length; lia).
  pose proof (vadd_rules_nth (fun r => gamma * rVal r / natQ (length (rAK r))) after (vdiv rew cnt) j) as H1.
  cbv beta in H1. destruct (H1 ltac:(lia)) as [Hl1 Hn1]. clear H1.
  set (per1 := fold_left _ after (vdiv rew cnt)) in *.
  pose proof (vadd_rules_nth (fun r => - rVal r / natQ (length (rAK r))) before per1 j) as H2.
  cbv beta in H2. destruct (H2 ltac:(lia)) as [Hl2 Hn2]. clear H2.
  set (per2 := fold_left _ before per1) in *.
  rewrite map_nthq_lt by lia. rewrite Hn2, Hn1. rewrite vdiv_nth by lia.
  assert (Hc' : nthq cnt j == contrib j (fun _ => 1) before).
  { rewrite Hnc. unfold nthq. rewrite nth_repeat. ring. }
  rewrite Hc'. ring.
Qed.

Lemma Forall2_map_r : forall (A : Type) (P : A -> A -> Prop) (f : A -> A) l,
  (forall x, In x l -> P x (f x)) -> Forall2 P l (map f l).
Proof.
  intros A P f l; induction l as [|x l IH]; intros H; cbn [map]; constructor.
  - apply H; left; reflexivity.
  - apply IH; intros y Hy; apply H; right; exact Hy.
Qed.

Theorem sparse_coop_update_spec_lemma : forall nA alpha gamma rules s a s1 a1 rew,
  length rew = nA ->
  (forall r, In r rules -> rule_matches r s a = true -> Forall (fun ag => (ag < nA)%nat) (rAK r)) ->
  Forall2 (fun r r' =>
             rSK r' = rSK r /\ rSV r' = rSV r /\ rAK r' = rAK r /\ rAV r' = rAV r /\
             if rule_matches r s a
             then rVal r' == rVal r + qsum (map (td_share alpha gamma rules s a s1 a1 rew) (rAK r))
             else r' = r)
          rules (sparse_step nA alpha gamma rules s a s1 a1 rew).
Proof.
  intros nA alpha gamma rules s a s1 a1 rew Hrew Hrange. rewrite sparse_step_unfold.
  apply Forall2_map_r. intros r Hin. specialize (Hrange r Hin).
  destruct (rule_matches r s a) eqn:E; cbn [rSK rSV rAK rAV rVal]; repeat split.
  rewrite Qred_correct. rewrite (fold_left_sum _ (nthq (sparse_per3 nA alpha gamma rules s a s1 a1 rew))).
  rewrite (qsum_map_ext _ (rAK r) _ (td_share alpha gamma rules s a s1 a1 rew)).
  - ring.
  - intros ag Hag. apply sparse_per3_nth; [exact Hrew|].
    specialize (Hrange eq_refl). rewrite Forall_forall in Hrange. apply Hrange; exact Hag.
Qed.

(* ---------------------------------------------------------------- toIndex(space, PartialFactors) ---- *)
Local Close Scope Q_scope.

Fixpoint pfsum (space : list nat) (i : nat) (pk pv : list nat) : nat :=
  match pk with
  | [] => 0
  | k :: ks => match pv with
               | [] => 0
               | v :: vs => v * prodl (firstn (k - i) space) + pfsum space i ks vs
               end
  end.

Lemma pfsum_cons : forall space i k ks v vs,
  pfsum space i (k :: ks) (v :: vs) = v * prodl (firstn (k - i) space) + pfsum space i ks vs.
Proof. reflexivity. Qed.

Lemma pfsum_shift : forall sp space i pk pv, Forall (fun k => S i <= k) pk ->
  pfsum (sp :: space) i pk pv = sp * pfsum space (S i) pk pv.
Proof.
  intros sp space i pk; induction pk as [|k ks IH]; intros pv H; [cbn [pfsum]; lia|].
  destruct pv as [|v vs]; [cbn [pfsum]; lia|]. inversion H as [|? ? Hk Hks]; subst.
  rewrite !pfsum_cons. rewrite IH by assumption.
  replace (k - i) with (S (k - S i)) by lia. cbn [firstn prodl fold_right]. fold (prodl (firstn (k - S i) space)). ring.
Qed.

Lemma pfsum_zero : forall space pk pv, pfsum space 0 pk pv = pf_index space pk pv.
Proof.
  intros space pk; induction pk as [|k ks IH]; intros [|v vs]; cbn [pfsum pf_index]; try reflexivity.
  rewrite IH, Nat.sub_0_r. reflexivity.
Qed.

Lemma toIndexPF_go_spec : forall space i pk pv mult acc,
  strict pk -> Forall (fun k => i <= k /\ k < i + length space) pk -> length pv = length pk ->
  toIndexPF_go space i pk pv mult acc = acc + mult * pfsum space i pk pv.
Proof.
  induction space as [|sp space IH]; intros i pk pv mult acc Hs Hf Hl.
  - destruct pk as [|k ks]; [cbn [toIndexPF_go pfsum]; lia|].
    inversion Hf as [|? ? Hk _]; subst. cbn [length] in Hk. lia.
  - destruct pk as [|k ks]; [cbn [toIndexPF_go pfsum]; lia|].
    destruct pv as [|v vs]; [cbn [length] in Hl; discriminate|].
    cbn [length] in Hl, Hf. inversion Hf as [|? ? Hk Hks]; subst.
    pose proof (strict_all_gt _ _ Hs) as Hgt. pose proof (strict_tail _ _ Hs) as Hst.
    assert (Htail : Forall (fun k' => S i <= k' /\ k' < S i + length space) ks).
    { rewrite Forall_forall in *. intros y Hy. specialize (Hgt y Hy). specialize (Hks y Hy). lia. }
    assert (Htail' : Forall (fun k' => S i <= k') ks).
    { rewrite Forall_forall in *. intros y Hy. specialize (Htail y Hy). lia. }
    cbn [toIndexPF_go]. destruct (Nat.eqb_spec i k) as [Heq|Hne].
    + subst k. rewrite pfsum_cons, Nat.sub_diag. cbn [firstn prodl fold_right].
      destruct ks as [|k2 ks].
      * destruct vs; cbn [pfsum]; lia.
      * rewrite IH by (try assumption; lia). rewrite (pfsum_shift sp space i (k2 :: ks) vs) by assumption. ring.
    + assert (Hall : Forall (fun k' => S i <= k' /\ k' < S i + length space) (k :: ks)) by (constructor; [lia|assumption]).
      rewrite IH by (try assumption; cbn [length]; lia).
      rewrite (pfsum_shift sp space i (k :: ks) (v :: vs)); [ring|].
      rewrite Forall_forall in *. intros y Hy. specialize (Hall y Hy). lia.
Qed.

Theorem toIndexPF_spec_lemma : forall space pk pv,
  strict pk -> Forall (fun k => k < length space) pk -> length pv = length pk ->
  toIndexPF space pk pv = pf_index space pk pv.
Proof.
  intros space pk pv Hs Hf Hl. unfold toIndexPF. rewrite toIndexPF_go_spec; try assumption.
  - rewrite pfsum_zero. lia.
  - rewrite Forall_forall in *. intros y Hy. specialize (Hf y Hy). lia.
Qed.

(* ---------------------------------------------------------------- (c) one full-scope rule = QLearning ---- *)
Local Open Scope Q_scope.

Lemma occ_cons : forall j k ks, occ j (k :: ks) = (if (k =? j)%nat then 1 else 0) + occ j ks.
Proof. reflexivity. Qed.

Lemma occ_seq_out : forall j n st, (j < st)%nat -> occ j (seq st n) == 0.
Proof.
  intros j n; induction n as [|n IH]; intros st H; cbn [seq]; [reflexivity|].
  rewrite occ_cons. destruct (Nat.eqb_spec st j); [lia|]. rewrite IH by lia. ring.
Qed.

Lemma occ_seq_in : forall j n st, (st <= j < st + n)%nat -> occ j (seq st n) == 1.
Proof.
  intros j n; induction n as [|n IH]; intros st H; [lia|]. cbn [seq]. rewrite occ_cons.
  destruct (Nat.eqb_spec st j) as [->|Hne].
  - rewrite occ_seq_out by lia. ring.
  - rewrite IH by lia. ring.
Qed.

Lemma contrib_one : forall j f r, contrib j f [r] == occ j (rAK r) * f r.
Proof. intros j f r. unfold contrib, qsum; cbn [map fold_right]. ring. Qed.

Lemma sparse_single_share_sum : forall nA alpha gamma rules s a s1 a1 rew r0 r1,
  (0 < nA)%nat -> length rew = nA ->
  filter (fun r => rule_matches r s a) rules = [r0] ->
  filter (fun r => rule_matches r s1 a1) rules = [r1] ->
  rAK r0 = seq 0 nA -> rAK r1 = seq 0 nA ->
  qsum (map (td_share alpha gamma rules s a s1 a1 rew) (rAK r0)) == alpha * (qsum rew + gamma * rVal r1 - rVal r0).
Proof.
  intros nA alpha gamma rules s a s1 a1 rew r0 r1 Hn Hrew Hb Ha H0k H1k.
  set (c := (gamma * rVal r1 - rVal r0) / natQ nA).
  assert (Hnz : ~ natQ nA == 0) by (apply natQ_pos; exact Hn).
  assert (Hsh : forall j, In j (seq 0 nA) ->
            td_share alpha gamma rules s a s1 a1 rew j == (nthq rew j + c) * alpha).
  { intros j Hj. apply in_seq in Hj. unfold td_share; cbv zeta. rewrite Hb, Ha. rewrite !contrib_one.
    rewrite H0k, H1k. rewrite occ_seq_in by lia. rewrite seq_length. subst c. field. exact Hnz. }
  rewrite H0k. rewrite (qsum_map_ext _ (seq 0 nA) _ (fun j => (nthq rew j + c) * alpha) Hsh).
  assert (Hmap : map (fun j => (nthq rew j + c) * alpha) (seq 0 nA) = map (fun x => (x + c) * alpha) rew).
  { transitivity (map (fun x => (x + c) * alpha) (map (nthq rew) (seq 0 (length rew)))).
    - rewrite map_map, Hrew. reflexivity.
    - rewrite map_nthq_seq. reflexivity. }
  rewrite Hmap, qsum_map_affine, Hrew. subst c. field. exact Hnz.
Qed.

Lemma Forall2_impl_In : forall (A : Type) (P R : A -> A -> Prop) l l',
  Forall2 P l l' -> (forall x y, In x l -> P x y -> R x y) -> Forall2 R l l'.
Proof.
  intros A P R l l' H; induction H as [|x y l l' Hxy H IH]; intros Himp; constructor.
  - apply Himp; [left; reflexivity| exact Hxy].
  - apply IH. intros x' y' Hin. apply Himp. right; exact Hin.
Qed.

Theorem sparse_coop_single_rule_eq_qlearning_lemma : forall nA alpha gamma rules s a s1 a1 rew r0 r1,
  (0 < nA)%nat -> length rew = nA ->
  filter (fun r => rule_matches r s a) rules = [r0] ->
  filter (fun r => rule_matches r s1 a1) rules = [r1] ->
  rAK r0 = seq 0 nA -> rAK r1 = seq 0 nA ->
  Forall2 (fun r r' =>
             if rule_matches r s a
             then r = r0 /\ rVal r' == flatQ rules s a + alpha * (qsum rew + gamma * flatQ rules s1 a1 - flatQ rules s a)
             else r' = r)
          rules (sparse_step nA alpha gamma rules s a s1 a1 rew).
Proof.
  intros nA alpha gamma rules s a s1 a1 rew r0 r1 Hn Hrew Hb Ha H0k H1k.
  assert (Hq0 : flatQ rules s a == rVal r0).
  { rewrite <- sparse_coop_flat_value_lemma. unfold sparse_qvalue. rewrite Hb. cbn [fold_left]. ring. }
  assert (Hq1 : flatQ rules s1 a1 == rVal r1).
  { rewrite <- sparse_coop_flat_value_lemma. unfold sparse_qvalue. rewrite Ha. cbn [fold_left]. ring. }
  assert (Honly : forall r, In r rules -> rule_matches r s a = true -> r = r0).
  { intros r Hin Hm. assert (Hf : In r (filter (fun r => rule_matches r s a) rules)) by (apply filter_In; split; assumption).
    rewrite Hb in Hf. destruct Hf as [->|[]]. reflexivity. }
  assert (Hrange : forall r, In r rules -> rule_matches r s a = true -> Forall (fun ag => (ag < nA)%nat) (rAK r)).
  { intros r Hin Hm. rewrite (Honly r Hin Hm), H0k. apply Forall_forall. intros ag Hag. apply in_seq in Hag. lia. }
  pose proof (sparse_coop_update_spec_lemma nA alpha gamma rules s a s1 a1 rew Hrew Hrange) as H.
  apply (Forall2_impl_In _ _ _ _ _ H). intros r r' Hin Hrr. cbv beta in Hrr.
  destruct Hrr as [_ [_ [_ [_ Hv]]]].
  destruct (rule_matches r s a) eqn:E; [|exact Hv].
  pose proof (Honly r Hin E) as Hr0. split; [exact Hr0|]. subst r.
  rewrite Hv, (sparse_single_share_sum nA alpha gamma rules s a s1 a1 rew r0 r1 Hn Hrew Hb Ha H0k H1k), Hq0, Hq1. ring.
Qed.
