(* C16/ModelCall.v — "every per-call field is (re)initialised before use" as a small state machine.
   A solver object is a vector of fields; one call of operator() is a sequence of statements
   `field := fn (values of the fields it reads)`; the functions are arbitrary (they may close over the
   call's arguments and the object's declared parameters), only the ORDER of field accesses of the C++
   is kept.  NO proofs here.

   Skeletons (field-access order read off the sources; loop counts are arbitrary parameters):
     Witness::operator()        include/AIToolbox/POMDP/Algorithms/Witness.hpp   (agenda_, triedVectors_)
     SARSOP::operator()         include/AIToolbox/POMDP/Algorithms/SARSOP.hpp    (delta_, treeStorage_, …)
     GapMin::operator()         include/AIToolbox/POMDP/Algorithms/GapMin.hpp    (tolerance_)
     PolicyIteration            has no member besides its two parameters: nothing to model. *)
From Coq Require Import List Bool Arith.
Import ListNotations.
Local Open Scope nat_scope.

Section CallModel.
  Variable V : Type.

  (* the object's fields, by number *)
  Definition fstate := nat -> V.
  Record stmt := { s_tgt : nat; s_deps : list nat; s_fn : list V -> V }.

  Definition setf (st : fstate) (i : nat) (v : V) : fstate := fun j => if Nat.eqb j i then v else st j.
  Definition exec_stmt (st : fstate) (s : stmt) : fstate := setf st (s_tgt s) (s_fn s (map st (s_deps s))).
  Definition exec (p : list stmt) (st : fstate) : fstate := fold_left exec_stmt p st.
  (* the value returned by the call: a function of some fields after the body has run *)
  Definition call_result (p : list stmt) (rdeps : list nat) (rfn : list V -> V) (st : fstate) : V :=
    rfn (map (exec p st) rdeps).

  (* the checker: walking the body, every field read has been written earlier in this call
     (or is a declared input, [D]) *)
  Definition memb (D : list nat) (i : nat) : bool := existsb (Nat.eqb i) D.
  Fixpoint uses_ok (D : list nat) (p : list stmt) : bool :=
    match p with
    | [] => true
    | s :: t => forallb (memb D) (s_deps s) && uses_ok (s_tgt s :: D) t
    end.
  Fixpoint defs_after (D : list nat) (p : list stmt) : list nat :=
    match p with [] => D | s :: t => defs_after (s_tgt s :: D) t end.
  Definition init_before_use (D : list nat) (p : list stmt) (rdeps : list nat) : bool :=
    uses_ok D p && forallb (memb (defs_after D p)) rdeps.

  Definition iter (k : nat) (body : list stmt) : list stmt := concat (repeat body k).

  (* ------------------------------------------------------------------ Witness *)
  (* fields *)
  Definition W_agenda := 0.  Definition W_tried := 1.  Definition W_U := 2.  Definition W_v := 3.
  Definition W_lp := 4.  Definition W_proj := 5.
  Variables w_clear w_default w_push w_lpreset w_lpadd w_best w_variations w_tried_ins w_pop w_collect w_project : list V -> V.

  (* src: Witness::operator(): body of `for a < A` — U[a].clear(); lp.reset(); agenda_.clear();
     triedVectors_.clear(); addDefaultEntry (emplace into triedVectors_, push on agenda_); then the
     `while (!agenda_.empty())` loop, [k] iterations: findWitness(agenda_.back()), U[a].push_back(best),
     lp.addOptimalRow, addVariations (find/insert in triedVectors_, push on agenda_) or pop_back *)
  Definition witness_loop_body : list stmt :=
    [ {| s_tgt := W_U; s_deps := [W_U; W_lp; W_agenda; W_proj]; s_fn := w_best |};
      {| s_tgt := W_lp; s_deps := [W_lp; W_U]; s_fn := w_lpadd |};
      {| s_tgt := W_tried; s_deps := [W_tried; W_U; W_proj]; s_fn := w_tried_ins |};
      {| s_tgt := W_agenda; s_deps := [W_agenda; W_tried; W_U; W_proj]; s_fn := w_variations |};
      {| s_tgt := W_agenda; s_deps := [W_agenda; W_lp]; s_fn := w_pop |} ].
  Definition witness_action (clear_tried : bool) (k : nat) : list stmt :=
    [ {| s_tgt := W_U; s_deps := []; s_fn := w_clear |};
      {| s_tgt := W_lp; s_deps := []; s_fn := w_lpreset |};
      {| s_tgt := W_agenda; s_deps := []; s_fn := w_clear |} ]
    ++ (if clear_tried then [ {| s_tgt := W_tried; s_deps := []; s_fn := w_clear |} ] else [])
    ++ [ {| s_tgt := W_tried; s_deps := [W_tried]; s_fn := w_default |};
         {| s_tgt := W_agenda; s_deps := [W_agenda; W_proj]; s_fn := w_push |} ]
    ++ iter k witness_loop_body
    ++ [ {| s_tgt := W_v; s_deps := [W_v; W_U]; s_fn := w_collect |} ].
  (* one timestep: project the previous value function, then every action *)
  Definition witness_timestep (clear_tried : bool) (A k : nat) : list stmt :=
    {| s_tgt := W_proj; s_deps := [W_v]; s_fn := w_project |} :: iter A (witness_action clear_tried k).
  (* the call: v = makeValueFunction; `horizon` timesteps.  The result is v. *)
  Definition witness_call (clear_tried : bool) (h A k : nat) : list stmt :=
    {| s_tgt := W_v; s_deps := []; s_fn := w_clear |} :: iter h (witness_timestep clear_tried A k).

  (* ------------------------------------------------------------------ SARSOP *)
  Definition S_delta := 0.  Definition S_tree := 1.  Definition S_b2n := 2.  Definition S_pred := 3.
  Definition S_sampled := 4.  Definition S_backed := 5.  Definition S_tmp := 6.  Definition S_lb := 7.
  Definition S_ub := 8.  Definition S_initDelta := 9.
  Variables s_copy s_clear s_bounds s_root s_sample s_expand s_backup s_backed_fill s_prune s_dupdate s_tmpw : list V -> V.

  (* src: SARSOP::operator(): `delta_ = initialDelta_` (present iff [reset_delta]); treeStorage_.clear();
     beliefToNode_.clear(); predictors_.clear()+emplace; initial bounds; root node; then the main loop,
     [k] iterations: samplePoints (sampledNodes_.clear(), expandLeaf writes the tmp beliefs, the tree and
     beliefToNode_), backupNode for every sampled node (std::fill(backuppedActions_), new alpha vectors),
     deltaPrune (reads delta_) + deltaUpdate (delta_ *= 2 or /= 2).  Result: (LB, UB, lbVList, ubQ). *)
  Definition sarsop_loop_body : list stmt :=
    [ {| s_tgt := S_sampled; s_deps := []; s_fn := s_clear |};
      {| s_tgt := S_tmp; s_deps := [S_tree]; s_fn := s_tmpw |};
      {| s_tgt := S_tree; s_deps := [S_tree; S_b2n; S_pred; S_tmp; S_lb; S_ub]; s_fn := s_expand |};
      {| s_tgt := S_b2n; s_deps := [S_b2n; S_tmp; S_tree]; s_fn := s_expand |};
      {| s_tgt := S_sampled; s_deps := [S_sampled; S_tree; S_pred]; s_fn := s_sample |};
      {| s_tgt := S_backed; s_deps := []; s_fn := s_backed_fill |};
      {| s_tgt := S_lb; s_deps := [S_lb; S_sampled; S_tree; S_backed]; s_fn := s_backup |};
      {| s_tgt := S_ub; s_deps := [S_ub; S_sampled; S_tree]; s_fn := s_backup |};
      {| s_tgt := S_lb; s_deps := [S_lb; S_delta; S_tree]; s_fn := s_prune |};
      {| s_tgt := S_delta; s_deps := [S_delta; S_lb]; s_fn := s_dupdate |} ].
  Definition sarsop_call (reset_delta : bool) (k : nat) : list stmt :=
    (if reset_delta then [ {| s_tgt := S_delta; s_deps := [S_initDelta]; s_fn := s_copy |} ] else [])
    ++ [ {| s_tgt := S_tree; s_deps := []; s_fn := s_clear |};
         {| s_tgt := S_b2n; s_deps := []; s_fn := s_clear |};
         {| s_tgt := S_pred; s_deps := []; s_fn := s_clear |};
         {| s_tgt := S_lb; s_deps := []; s_fn := s_bounds |};
         {| s_tgt := S_ub; s_deps := []; s_fn := s_bounds |};
         {| s_tgt := S_tree; s_deps := [S_tree; S_lb; S_ub]; s_fn := s_root |} ]
    ++ iter k sarsop_loop_body.
  Definition sarsop_result_deps : list nat := [S_tree; S_lb; S_ub].

  (* ------------------------------------------------------------------ GapMin *)
  Definition G_tol := 0.  Definition G_initTol := 1.  Definition G_lb := 2.  Definition G_ub := 3.
  Variables g_copy g_init g_step g_tolupdate : list V -> V.
  (* src: GapMin::operator(): `tolerance_ = initialTolerance_;` then bounds; loop: improve bounds with
     tolerance_, then `tolerance_ = threshold * (1 - discount) / 2` *)
  Definition gapmin_call (reset_tol : bool) (k : nat) : list stmt :=
    (if reset_tol then [ {| s_tgt := G_tol; s_deps := [G_initTol]; s_fn := g_copy |} ] else [])
    ++ [ {| s_tgt := G_lb; s_deps := [G_tol]; s_fn := g_init |};
         {| s_tgt := G_ub; s_deps := [G_tol]; s_fn := g_init |} ]
    ++ iter k [ {| s_tgt := G_lb; s_deps := [G_lb; G_ub; G_tol]; s_fn := g_step |};
                {| s_tgt := G_ub; s_deps := [G_lb; G_ub; G_tol]; s_fn := g_step |};
                {| s_tgt := G_tol; s_deps := [G_lb; G_ub]; s_fn := g_tolupdate |} ].
End CallModel.
