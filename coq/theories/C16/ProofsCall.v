(* C16/ProofsCall.v — soundness of the init-before-use checker (non-interference of a call whose
   per-call fields are all written before they are read) and its instances for the Witness, SARSOP
   and GapMin call skeletons, with refutations for the variants that lack one reset. *)
From Coq Require Import List Bool Arith Lia.
From AIT Require Import C16.ModelCall.
Import ListNotations.
Local Open Scope nat_scope.

Section CallProofs.
  Variable V : Type.
  Notation stmt := (stmt V).
  Notation fstate := (fstate V).

  Definition agree (D : list nat) (st1 st2 : fstate) : Prop := forall i, In i D -> st1 i = st2 i.

  Lemma memb_In : forall D i, memb D i = true <-> In i D.
  Proof.
    intros D i. unfold memb. rewrite existsb_exists. split.
    - intros [x [Hx He]]. apply Nat.eqb_eq in He. now subst.
    - intros H. exists i. split; [exact H | apply Nat.eqb_refl].
  Qed.

  Lemma exec_agree : forall (p : list stmt) D st1 st2,
    uses_ok V D p = true -> agree D st1 st2 -> agree (defs_after V D p) (exec V p st1) (exec V p st2).
  Proof.
    induction p as [|s t IH]; intros D st1 st2 Hu Ha; [exact Ha|].
    cbn [uses_ok] in Hu. apply andb_true_iff in Hu. destruct Hu as [Hd Ht].
    cbn [defs_after]. unfold exec in *. cbn [fold_left]. apply IH; [exact Ht|].
    assert (E : map st1 (s_deps V s) = map st2 (s_deps V s)).
    { apply map_ext_in. intros i Hi. apply Ha. apply memb_In.
      rewrite forallb_forall in Hd. now apply Hd. }
    intros i [Hi|Hi]; unfold exec_stmt, setf.
    - subst i. rewrite Nat.eqb_refl. now rewrite E.
    - destruct (Nat.eqb i (s_tgt V s)); [now rewrite E | now apply Ha].
  Qed.

  (* the general theorem: a call that passes the checker returns the same value from any two object
     states that agree on the declared fields D *)
  Lemma init_before_use_sound : forall (p : list stmt) D rdeps rfn st1 st2,
    init_before_use V D p rdeps = true -> agree D st1 st2 ->
    call_result V p rdeps rfn st1 = call_result V p rdeps rfn st2.
  Proof.
    intros p D rdeps rfn st1 st2 H Ha. unfold init_before_use in H. apply andb_true_iff in H.
    destruct H as [Hu Hr]. unfold call_result. f_equal. apply map_ext_in. intros i Hi.
    apply (exec_agree p D st1 st2 Hu Ha). apply memb_In. rewrite forallb_forall in Hr. now apply Hr.
  Qed.

  (* ---- structure lemmas for programs with loops ---- *)
  Lemma uses_ok_app : forall (p q : list stmt) D,
    uses_ok V D (p ++ q) = uses_ok V D p && uses_ok V (defs_after V D p) q.
  Proof.
    induction p as [|s t IH]; intros q D; [reflexivity|].
    cbn [app uses_ok defs_after]. rewrite IH. now rewrite andb_assoc.
  Qed.

  Lemma defs_after_app : forall (p q : list stmt) D, defs_after V D (p ++ q) = defs_after V (defs_after V D p) q.
  Proof. induction p as [|s t IH]; intros q D; [reflexivity|]. cbn [app defs_after]. apply IH. Qed.

  Lemma defs_after_incl : forall (p : list stmt) D, incl D (defs_after V D p).
  Proof.
    induction p as [|s t IH]; intros D; [apply incl_refl|].
    cbn [defs_after]. eapply incl_tran; [|apply IH]. apply incl_tl, incl_refl.
  Qed.

  Lemma forallb_memb_mono : forall D D' l, incl D D' -> forallb (memb D) l = true -> forallb (memb D') l = true.
  Proof.
    intros D D' l Hi H. rewrite forallb_forall in *. intros x Hx. apply memb_In. apply Hi. apply memb_In. now apply H.
  Qed.

  Lemma uses_ok_mono : forall (p : list stmt) D D', incl D D' -> uses_ok V D p = true -> uses_ok V D' p = true.
  Proof.
    induction p as [|s t IH]; intros D D' Hi H; [reflexivity|].
    cbn [uses_ok] in *. apply andb_true_iff in H. destruct H as [H1 H2]. apply andb_true_iff. split.
    - eapply forallb_memb_mono; eauto.
    - eapply IH; [|exact H2]. intros x [Hx|Hx]; [now left | right; now apply Hi].
  Qed.

  Lemma uses_ok_iter : forall (body : list stmt) k D, uses_ok V D body = true -> uses_ok V D (iter V k body) = true.
  Proof.
    intros body k. induction k as [|k IH]; intros D H; [reflexivity|].
    unfold iter in *. cbn [repeat concat]. rewrite uses_ok_app, H. cbn [andb].
    apply IH. eapply uses_ok_mono; [apply defs_after_incl | exact H].
  Qed.

  Lemma uses_ok_sandwich : forall (pre body post : list stmt) k D,
    uses_ok V D pre = true ->
    uses_ok V (defs_after V D pre) body = true ->
    uses_ok V (defs_after V D pre) post = true ->
    uses_ok V D (pre ++ iter V k body ++ post) = true.
  Proof.
    intros pre body post k D H1 H2 H3. rewrite uses_ok_app, H1. cbn [andb].
    rewrite uses_ok_app, (uses_ok_iter body k _ H2). cbn [andb].
    eapply uses_ok_mono; [apply defs_after_incl | exact H3].
  Qed.

  Lemma result_defined : forall (p : list stmt) D r, forallb (memb D) r = true -> forallb (memb (defs_after V D p)) r = true.
  Proof. intros p D r H. eapply forallb_memb_mono; [apply defs_after_incl | exact H]. Qed.

  (* ---- Witness ---- *)
  Section Witness.
    Variables w_clear w_default w_push w_lpreset w_lpadd w_best w_variations w_tried_ins w_pop w_collect w_project : list V -> V.
    Notation wcall := (witness_call V w_clear w_default w_push w_lpreset w_lpadd w_best w_variations w_tried_ins w_pop w_collect w_project).
    Notation waction := (witness_action V w_clear w_default w_push w_lpreset w_lpadd w_best w_variations w_tried_ins w_pop w_collect).
    Notation wstep := (witness_timestep V w_clear w_default w_push w_lpreset w_lpadd w_best w_variations w_tried_ins w_pop w_collect w_project).

    Lemma witness_action_ok : forall k, uses_ok V [W_proj; W_v] (waction true k) = true.
    Proof.
      intros k. unfold witness_action. rewrite app_assoc, app_assoc.
      apply uses_ok_sandwich; reflexivity.
    Qed.

    Lemma witness_call_ok : forall h A k, init_before_use V [] (wcall true h A k) [W_v] = true.
    Proof.
      intros h A k. unfold init_before_use. apply andb_true_iff. split.
      - unfold witness_call. cbn [uses_ok s_deps s_tgt forallb andb].
        apply uses_ok_iter. unfold witness_timestep. cbn [uses_ok s_deps s_tgt].
        apply andb_true_iff. split; [reflexivity|].
        apply uses_ok_iter. apply witness_action_ok.
      - unfold witness_call. cbn [defs_after s_tgt]. apply result_defined. reflexivity.
    Qed.

    Lemma witness_reuse_independent_lemma : forall h A k rfn (st1 st2 : fstate),
      call_result V (wcall true h A k) [W_v] rfn st1 = call_result V (wcall true h A k) [W_v] rfn st2.
    Proof.
      intros. apply (init_before_use_sound _ []); [apply witness_call_ok | intros i []].
    Qed.

    (* without `triedVectors_.clear()` the checker rejects the call (stale keys are read by addDefaultEntry) *)
    Lemma witness_noclear_rejected : forall h A k, init_before_use V [] (wcall false (S h) (S A) k) [W_v] = false.
    Proof.
      intros h A k. unfold init_before_use, witness_call, witness_timestep, witness_action, iter.
      cbn [repeat concat app uses_ok s_deps s_tgt forallb andb].
      reflexivity.
    Qed.
  End Witness.

  (* ---- SARSOP ---- *)
  Section Sarsop.
    Variables s_copy s_clear s_bounds s_root s_sample s_expand s_backup s_backed_fill s_prune s_dupdate s_tmpw : list V -> V.
    Notation scall := (sarsop_call V s_copy s_clear s_bounds s_root s_sample s_expand s_backup s_backed_fill s_prune s_dupdate s_tmpw).

    Lemma sarsop_call_ok : forall k, init_before_use V [S_initDelta] (scall true k) sarsop_result_deps = true.
    Proof.
      intros k. unfold init_before_use. apply andb_true_iff. split.
      - unfold sarsop_call. rewrite <- (app_nil_r (iter V k _)). rewrite app_assoc.
        apply uses_ok_sandwich; reflexivity.
      - unfold sarsop_call. rewrite app_assoc, defs_after_app. apply result_defined. reflexivity.
    Qed.

    (* declared input of the call: initialDelta_ (field S_initDelta); everything else may differ *)
    Lemma sarsop_reuse_independent_lemma : forall k rfn (st1 st2 : fstate),
      st1 S_initDelta = st2 S_initDelta ->
      call_result V (scall true k) sarsop_result_deps rfn st1 = call_result V (scall true k) sarsop_result_deps rfn st2.
    Proof.
      intros k rfn st1 st2 H. apply (init_before_use_sound _ [S_initDelta]); [apply sarsop_call_ok|].
      intros i [<-|[]]. exact H.
    Qed.

    Lemma sarsop_nodeltareset_rejected : forall k, init_before_use V [S_initDelta] (scall false (S k)) sarsop_result_deps = false.
    Proof.
      intros k. unfold init_before_use, sarsop_call, iter. cbn [repeat concat app].
      unfold sarsop_loop_body. cbn [app uses_ok s_deps s_tgt forallb andb]. reflexivity.
    Qed.
  End Sarsop.

  (* ---- GapMin ---- *)
  Section GapMin.
    Variables g_copy g_init g_step g_tolupdate : list V -> V.
    Notation gcall := (gapmin_call V g_copy g_init g_step g_tolupdate).

    Lemma gapmin_call_ok : forall k, init_before_use V [G_initTol] (gcall true k) [G_lb; G_ub] = true.
    Proof.
      intros k. unfold init_before_use. apply andb_true_iff. split.
      - unfold gapmin_call. rewrite <- (app_nil_r (iter V k _)). rewrite app_assoc.
        apply uses_ok_sandwich; reflexivity.
      - unfold gapmin_call. rewrite app_assoc, defs_after_app. apply result_defined. reflexivity.
    Qed.

    Lemma gapmin_reuse_independent_lemma : forall k rfn (st1 st2 : fstate),
      st1 G_initTol = st2 G_initTol ->
      call_result V (gcall true k) [G_lb; G_ub] rfn st1 = call_result V (gcall true k) [G_lb; G_ub] rfn st2.
    Proof.
      intros k rfn st1 st2 H. apply (init_before_use_sound _ [G_initTol]); [apply gapmin_call_ok|].
      intros i [<-|[]]. exact H.
    Qed.
  End GapMin.
End CallProofs.

(* ---- semantic refutations of the variants without the reset: fields are numbers, every statement adds
   up what it reads (+1), the result adds up the result fields ---- *)
Definition sumf (l : list nat) : nat := S (fold_right Nat.add 0 l).

Lemma sarsop_nodeltareset_refuted :
  exists (k : nat) (st1 st2 : fstate nat), st1 S_initDelta = st2 S_initDelta /\
    call_result nat (sarsop_call nat sumf sumf sumf sumf sumf sumf sumf sumf sumf sumf sumf false k) sarsop_result_deps sumf st1 <>
    call_result nat (sarsop_call nat sumf sumf sumf sumf sumf sumf sumf sumf sumf sumf sumf false k) sarsop_result_deps sumf st2.
Proof.
  exists 1, (fun _ => 0), (fun i => if Nat.eqb i S_delta then 5 else 0). split; [reflexivity|].
  apply Nat.eqb_neq. vm_compute. reflexivity.
Qed.

Lemma witness_noclear_refuted :
  exists (h A k : nat) (st1 st2 : fstate nat),
    call_result nat (witness_call nat sumf sumf sumf sumf sumf sumf sumf sumf sumf sumf sumf false h A k) [W_v] sumf st1 <>
    call_result nat (witness_call nat sumf sumf sumf sumf sumf sumf sumf sumf sumf sumf sumf false h A k) [W_v] sumf st2.
Proof.
  exists 1, 1, 2, (fun _ => 0), (fun i => if Nat.eqb i W_tried then 5 else 0).
  apply Nat.eqb_neq. vm_compute. reflexivity.
Qed.

Lemma gapmin_notolreset_refuted :
  exists (k : nat) (st1 st2 : fstate nat), st1 G_initTol = st2 G_initTol /\
    call_result nat (gapmin_call nat sumf sumf sumf sumf false k) [G_lb; G_ub] sumf st1 <>
    call_result nat (gapmin_call nat sumf sumf sumf sumf false k) [G_lb; G_ub] sumf st2.
Proof.
  exists 0, (fun _ => 0), (fun i => if Nat.eqb i G_tol then 5 else 0). split; [reflexivity|].
  apply Nat.eqb_neq. vm_compute. reflexivity.
Qed.
