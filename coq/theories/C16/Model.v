(* C16/Model.v — executable models of the hidden-state carriers of AI-Toolbox (property C16:
   results are reproducible and independent of unrelated history).  NO proofs here.

   Every carrier is modelled as explicit state threaded through the API calls
   (`world -> args -> world * result`), so that "the result does not depend on hidden state"
   becomes an ordinary statement about functions.

   1. Seeder            src/Seeder.cpp (+ every `rand_(Seeder::getSeed())` member initialiser)
   2. ValueIteration    include/AIToolbox/MDP/Algorithms/ValueIteration.hpp (scratch member v1_)
   3. FactorGraph pool  include/AIToolbox/Factored/Utils/FactorGraph.hpp (static factorAdjacenciesPool_)
   4. AMDP discretizer  src/POMDP/Algorithms/AMDP.cpp (function-local `static const double stepSize`)  *)
From Coq Require Import List NArith ZArith QArith Qround Bool Arith.
From AIT Require Import Base.Qx Base.Mdp.
Import ListNotations.
Local Open Scope nat_scope.

(* ====================================================================================== *)
(* 1. Seeder                                                                              *)
(* ====================================================================================== *)
(* The root engine (std::mt19937 + the full-range uniform_int_distribution) is abstract:
   [seed_of r] is `generator_.seed(r)`, [next st] is one `dist(generator_)` draw.  Every library
   object owning a `RandomEngine rand_` seeds it with one draw of the root engine at
   construction and then draws only from its own engine. *)
Section SeederModel.
  Variable state : Type.
  Variable seed_of : N -> state.
  Variable next : state -> state * N.

  (* src: src/Seeder.cpp: class Seeder { unsigned rootSeed_; RandomEngine generator_; } instance_ *)
  Record seeder := { s_root : N; s_gen : state }.

  (* src: Seeder::getSeed *)
  Definition get_seed (w : seeder) : seeder * N :=
    let (g', x) := next (s_gen w) in ({| s_root := s_root w; s_gen := g' |}, x).
  (* src: Seeder::setRootSeed *)
  Definition set_root_seed (w : seeder) (r : N) : seeder := {| s_root := r; s_gen := seed_of r |}.
  (* src: Seeder::getRootSeed *)
  Definition get_root_seed (w : seeder) : N := s_root w.

  (* raw call sequences on the Seeder itself *)
  Inductive sop := SGet | SSetRoot (r : N) | SGetRoot.

  Definition seeder_step (w : seeder) (o : sop) : seeder * list N :=
    match o with
    | SGet => let (w', x) := get_seed w in (w', [x])
    | SSetRoot r => (set_root_seed w r, [])
    | SGetRoot => (w, [get_root_seed w])
    end.

  Fixpoint seeder_run (w : seeder) (ops : list sop) : seeder * list N :=
    match ops with
    | [] => (w, [])
    | o :: t => let (w1, out1) := seeder_step w o in
                let (w2, out2) := seeder_run w1 t in (w2, out1 ++ out2)
    end.

  (* programs that construct library objects and sample from them *)
  Record sworld := { w_seeder : seeder; w_objs : list state }.

  Inductive pop :=
  | PNew                 (* construct an object: rand_(Seeder::getSeed()) *)
  | PDraw (i : nat)      (* one draw from object i's own engine (any sampling call) *)
  | PSetRoot (r : N)     (* Seeder::setRootSeed(r) *)
  | PGetSeed.            (* a direct Seeder::getSeed() by the client *)

  Definition upd {A : Type} (l : list A) (i : nat) (x : A) : list A :=
    firstn i l ++ match skipn i l with [] => [] | _ :: t => x :: t end.

  Definition prog_step (w : sworld) (o : pop) : sworld * list N :=
    match o with
    | PNew => let (s', x) := get_seed (w_seeder w) in
              ({| w_seeder := s'; w_objs := w_objs w ++ [seed_of x] |}, [])
    | PDraw i => match nth_error (w_objs w) i with
                 | None => (w, [])
                 | Some st => let (st', x) := next st in
                              ({| w_seeder := w_seeder w; w_objs := upd (w_objs w) i st' |}, [x])
                 end
    | PSetRoot r => ({| w_seeder := set_root_seed (w_seeder w) r; w_objs := w_objs w |}, [])
    | PGetSeed => let (s', x) := get_seed (w_seeder w) in
                  ({| w_seeder := s'; w_objs := w_objs w |}, [x])
    end.

  Fixpoint prog_run (w : sworld) (p : list pop) : sworld * list N :=
    match p with
    | [] => (w, [])
    | o :: t => let (w1, out1) := prog_step w o in
                let (w2, out2) := prog_run w1 t in (w2, out1 ++ out2)
    end.
  (* ---- threads.  Library calls made by threads that run one after the other (worker started and
     joined) form one sequence; [TOn t o] is operation o executed by thread t. ---- *)
  Inductive tpop := TOn (t : nat) (o : pop).
  Definition erase_thread (x : tpop) : pop := match x with TOn _ o => o end.
  (* src: src/Seeder.cpp: `Seeder Seeder::instance_;` is ONE object for the whole process: the thread is irrelevant *)
  Definition tprog_run (w : sworld) (p : list tpop) : sworld * list N := prog_run w (map erase_thread p).

  (* NOT the library's code: the variant with `static thread_local Seeder instance_` — one Seeder per thread,
     each lazily seeded from the clock; objects are shared *)
  Record tl_world := { tl_seeder : nat -> seeder; tl_objs : list state }.
  Definition tl_set (f : nat -> seeder) (t : nat) (s : seeder) : nat -> seeder := fun u => if Nat.eqb u t then s else f u.
  Definition tl_step (w : tl_world) (x : tpop) : tl_world * list N :=
    match x with
    | TOn t o =>
      let '(w', out) := prog_step {| w_seeder := tl_seeder w t; w_objs := tl_objs w |} o in
      ({| tl_seeder := tl_set (tl_seeder w) t (w_seeder w'); tl_objs := w_objs w' |}, out)
    end.
  Fixpoint tl_run (w : tl_world) (p : list tpop) : tl_world * list N :=
    match p with
    | [] => (w, [])
    | x :: t => let (w1, o1) := tl_step w x in let (w2, o2) := tl_run w1 t in (w2, o1 ++ o2)
    end.
End SeederModel.


(* ====================================================================================== *)
(* 2. ValueIteration object                                                               *)
(* ====================================================================================== *)
(* src: MDP/Types.hpp: struct ValueFunction { Values values; Actions actions; } *)
Record vfun := { vf_values : vec; vf_actions : list nat }.

(* src: ValueIteration.hpp: private members tolerance_, horizon_, the initial value function vP_; v1_ (scratch) *)
Record vi_obj := { vi_tol : Q; vi_hor : nat; vi_param : vfun; vi_v1 : vfun }.

(* src: MDP/Utils.cpp: makeValueFunction *)
Definition make_vfun (S : nat) : vfun := {| vf_values := vzero S; vf_actions := repeat 0 S |}.

(* src: MDP/Utils.hpp: computeQFunction on the discounted values; one row per state.
   (the model is given through Base.Mdp's record; gam is applied to the values first, as the code does) *)
Definition q_row (m : mdp) (dv : vec) (s : nat) : vec :=
  map (fun a => Qred (nthq (row (R m) s) a + dot (trow m s a) dv)%Q) (seq 0 (nA m)).
Definition q_fun (m : mdp) (dv : vec) : mat := map (q_row m dv) (seq 0 (nS m)).

(* src: MDP/Utils.cpp: bellmanOperatorInplace — loops over actions.size() entries, values(s) and
   actions[s] overwritten with the row maximum / its first index *)
Definition bellman_inplace (q : mat) (v : vfun) : vfun :=
  let n := length (vf_actions v) in
  {| vf_values := map (fun s => snd (argmax (row q s))) (seq 0 n) ++ skipn n (vf_values v);
     vf_actions := map (fun s => fst (argmax (row q s))) (seq 0 n) |}.

(* (val1 - val0).cwiseAbs().maxCoeff() *)
Definition variation_of (v1 v0 : vec) : Q :=
  maxl (map (fun p => qabs (fst p - snd p)%Q) (combine v1 v0)).

(* src: ValueIteration::operator() main loop; recursion on the remaining horizon *)
Fixpoint vi_loop (m : mdp) (useTol : bool) (tol : Q) (fuel : nat) (variation : Q) (v : vfun) (q : mat)
  : Q * vfun * mat :=
  match fuel with
  | O => (variation, v, q)
  | S fuel' =>
    if negb useTol || negb (Qle_bool variation tol) then
      let val0 := vf_values v in
      let dv := map (fun x => Qred (gam m * x)%Q) (vf_values v) in          (* val1 *= discount *)
      let q' := q_fun m dv in
      let v' := bellman_inplace q' {| vf_values := dv; vf_actions := vf_actions v |} in
      let variation' := if useTol then variation_of (vf_values v') val0 else variation in
      vi_loop m useTol tol fuel' variation' v' q'
    else (variation, v, q)
  end.

Definition make_qfun (S A : nat) : mat := repeat (vzero A) S.

(* std::vector<size_t>::resize(n): truncate, or pad with zeros *)
Definition resize_nat (l : list nat) (n : nat) : list nat := firstn n l ++ repeat 0 (n - length l).
(* src: ValueIteration::operator(): `v1_ = <initial value function>; v1_.actions.resize(S);` when the sizes agree,
   `v1_ = makeValueFunction(S)` otherwise — in both cases the scratch member is overwritten *)
Definition vi_init (param : vfun) (S : nat) : vfun :=
  if Nat.eqb (length (vf_values param)) S
  then {| vf_values := vf_values param; vf_actions := resize_nat (vf_actions param) S |}
  else make_vfun S.

(* src: ValueIteration::operator()(const M & model).  Returns the object after the call (v1_ has
   been moved from: empty) and the result tuple. *)
Definition vi_call (o : vi_obj) (m : mdp) : vi_obj * (Q * vfun * mat) :=
  let S := nS m in
  let v1 := vi_init (vi_param o) S in
  let useTol := negb (eqSmall (vi_tol o) 0%Q) in
  let '(variation, v, q) := vi_loop m useTol (vi_tol o) (vi_hor o) (vi_tol o * 2)%Q v1 (make_qfun S (nA m)) in
  ({| vi_tol := vi_tol o; vi_hor := vi_hor o; vi_param := vi_param o;
      vi_v1 := {| vf_values := []; vf_actions := [] |} |},
   (if useTol then variation else 0%Q, v, q)).

(* setters (src: ValueIteration.hpp: setTolerance / setHorizon / setValueFunction) and calls *)
Inductive vi_op :=
| VSetTol (t : Q) | VSetHor (h : nat) | VSetVF (v : vfun) | VCall (m : mdp).

Definition vi_step (o : vi_obj) (op : vi_op) : vi_obj :=
  match op with
  | VSetTol t => {| vi_tol := t; vi_hor := vi_hor o; vi_param := vi_param o; vi_v1 := vi_v1 o |}
  | VSetHor h => {| vi_tol := vi_tol o; vi_hor := h; vi_param := vi_param o; vi_v1 := vi_v1 o |}
  | VSetVF v => {| vi_tol := vi_tol o; vi_hor := vi_hor o; vi_param := v; vi_v1 := vi_v1 o |}
  | VCall m => fst (vi_call o m)
  end.
Definition vi_history (o : vi_obj) (h : list vi_op) : vi_obj := fold_left vi_step h o.

(* ====================================================================================== *)
(* 3. FactorGraph and its process-wide node pool                                          *)
(* ====================================================================================== *)
(* A std::list iterator is modelled by the key it points to: the node's variable set (the class
   keeps a single FactorNode per variable set, enforced by getFactor's lookup). *)
Section FactorGraphModel.
  Variable D : Type.          (* FactorData *)
  Variable d0 : D.            (* FD{} *)

  Definition key := list nat.
  Definition key_eqb (a b : key) : bool := if list_eq_dec Nat.eq_dec a b then true else false.

  (* src: FactorGraph::FactorNode { FactorData f_; Variables variables_; } *)
  Record fnode := { fn_data : D; fn_vars : key }.
  (* src: FactorGraph::VariableNode { FactorItList factors; Variables vNeighbors; bool active; } *)
  Record vnode := { vn_factors : list key; vn_neigh : list nat; vn_active : bool }.
  (* src: FactorGraph members: factorAdjacencies_, variableAdjacencies_, activeVariables_ *)
  Record fgraph := { fg_factors : list fnode; fg_vars : list vnode; fg_nactive : nat }.

  Definition vnode0 : vnode := {| vn_factors := []; vn_neigh := []; vn_active := true |}.
  (* src: FactorGraph(size_t variables) / reset(size_t) *)
  Definition fg_new (n : nat) : fgraph := {| fg_factors := []; fg_vars := repeat vnode0 n; fg_nactive := n |}.

  Definition upd_var (g : list vnode) (a : nat) (f : vnode -> vnode) : list vnode :=
    match nth_error g a with
    | None => g
    | Some v => firstn a g ++ f v :: skipn (Datatypes.S a) g
    end.

  Definition var_at (g : fgraph) (a : nat) : vnode := nth a (fg_vars g) vnode0.

  (* src: getFactor: the two-cursor loop that appends the *other* variables not yet in vNeighbors
     (i over `variables`, j over the first `mid` entries of vNeighbors) *)
  Fixpoint nb_new (a : nat) (vs : list nat) : list nat -> list nat :=
    fix aux (vn : list nat) : list nat :=
      match vs with
      | [] => []
      | v :: vs' =>
        if Nat.eqb v a then nb_new a vs' vn
        else match vn with
             | [] => v :: nb_new a vs' []
             | n :: vn' =>
               if Nat.ltb v n then v :: nb_new a vs' vn
               else if Nat.eqb v n then nb_new a vs' vn'
               else aux vn'
             end
      end.

  (* std::inplace_merge of two sorted ranges (stable: left range first on ties) *)
  Fixpoint merge_nat (l1 : list nat) : list nat -> list nat :=
    fix aux (l2 : list nat) : list nat :=
      match l1, l2 with
      | [], _ => l2
      | _, [] => l1
      | x :: t1, y :: t2 => if Nat.ltb y x then y :: aux t2 else x :: merge_nat t1 l2
      end.

  Definition add_adjacency (vars : key) (a : nat) (va : vnode) : vnode :=
    {| vn_factors := vn_factors va ++ [vars];
       vn_neigh := merge_nat (vn_neigh va) (nb_new a vars (vn_neigh va));
       vn_active := vn_active va |}.

  Definition link_all (vars : key) (vs : list vnode) : list vnode :=
    fold_left (fun acc a => upd_var acc a (add_adjacency vars a)) vars vs.

  (* ---- implementation with the pool ([pool] = factorAdjacenciesPool_, head = begin()) ---- *)
  (* src: FactorGraph::getFactor *)
  Definition get_factor_pool (pool : list fnode) (g : fgraph) (vars : key) : list fnode * fgraph * key :=
    if existsb (key_eqb vars) (vn_factors (var_at g (hd 0 vars))) then (pool, g, vars)
    else
      let '(pool', node) :=
        match pool with
        | [] => ([], {| fn_data := d0; fn_vars := [] |})                        (* emplace_back(FactorNode()) *)
        | old :: rest => (rest, {| fn_data := d0; fn_vars := fn_vars old |})     (* splice + `it->f_ = FD{}` *)
        end in
      let node' := {| fn_data := fn_data node; fn_vars := vars |} in             (* it->variables_ = variables *)
      (pool', {| fg_factors := fg_factors g ++ [node'];
                 fg_vars := link_all vars (fg_vars g);
                 fg_nactive := fg_nactive g |}, vars).

  Fixpoint remove_first (k : key) (l : list key) : list key :=
    match l with [] => [] | x :: t => if key_eqb k x then t else x :: remove_first k t end.
  Fixpoint remove_nat (a : nat) (l : list nat) : list nat :=
    match l with [] => [] | x :: t => if Nat.eqb a x then t else x :: remove_nat a t end.

  Fixpoint take_node (k : key) (l : list fnode) : option fnode * list fnode :=
    match l with
    | [] => (None, [])
    | n :: t => if key_eqb k (fn_vars n) then (Some n, t)
                else let (r, t') := take_node k t in (r, n :: t')
    end.

  (* one iteration of erase's outer loop: unlink factor [k] from the other variables, move it to the pool *)
  Definition erase_factor (a : nat) (st : list fnode * list fnode * list vnode) (k : key)
    : list fnode * list fnode * list vnode :=
    let '(pool, factors, vs) := st in
    match take_node k factors with
    | (None, _) => st
    | (Some n, factors') =>
      let vs' := fold_left (fun acc v => if Nat.eqb v a then acc
                                         else upd_var acc v (fun vn =>
                                           {| vn_factors := remove_first k (vn_factors vn);
                                              vn_neigh := vn_neigh vn; vn_active := vn_active vn |}))
                           (fn_vars n) vs in
      (n :: pool, factors', vs')       (* pool.splice(begin(pool), factorAdjacencies_, it) *)
    end.

  (* src: FactorGraph::erase *)
  Definition erase_pool (pool : list fnode) (g : fgraph) (a : nat) : list fnode * fgraph :=
    match nth_error (fg_vars g) a with
    | None => (pool, g)
    | Some va =>
      if negb (vn_active va) then (pool, g)
      else
        let '(pool', factors', vs1) :=
          fold_left (erase_factor a) (vn_factors va) (pool, fg_factors g, fg_vars g) in
        let vs2 := fold_left (fun acc aa => upd_var acc aa (fun vn =>
                      {| vn_factors := vn_factors vn; vn_neigh := remove_nat a (vn_neigh vn);
                         vn_active := vn_active vn |})) (vn_neigh va) vs1 in
        let vs3 := upd_var vs2 a (fun _ => {| vn_factors := []; vn_neigh := []; vn_active := false |}) in
        (pool', {| fg_factors := factors'; fg_vars := vs3; fg_nactive := pred (fg_nactive g) |})
    end.

  (* client write through `it->getData()` *)
  Definition set_data (g : fgraph) (k : key) (d : D) : fgraph :=
    {| fg_factors := map (fun n => if key_eqb k (fn_vars n) then {| fn_data := d; fn_vars := fn_vars n |} else n)
                         (fg_factors g);
       fg_vars := fg_vars g; fg_nactive := fg_nactive g |}.

  (* src: FactorGraph(const FactorGraph & other): nodes are taken from the pool while it lasts and
     overwritten whole (`back() = *oIt++`), then the per-variable iterator lists are rebuilt *)
  Fixpoint copy_nodes (pool : list fnode) (src : list fnode) : list fnode * list fnode :=
    match src with
    | [] => (pool, [])
    | n :: t =>
      let '(pool', slot) := match pool with [] => ([], n) | old :: rest => (rest, old) end in
      let copied := {| fn_data := fn_data n; fn_vars := fn_vars n |} in      (* slot overwritten *)
      let '(pool'', t') := copy_nodes pool' t in (pool'', copied :: t')
    end.

  Definition rebuild_vars (factors : list fnode) (vs : list vnode) : list vnode :=
    fold_left (fun acc n => fold_left (fun acc2 a => upd_var acc2 a (fun vn =>
                  {| vn_factors := vn_factors vn ++ [fn_vars n]; vn_neigh := vn_neigh vn;
                     vn_active := vn_active vn |})) (fn_vars n) acc)
              factors
              (map (fun vn => {| vn_factors := []; vn_neigh := vn_neigh vn; vn_active := vn_active vn |}) vs).

  Definition copy_pool (pool : list fnode) (other : fgraph) : list fnode * fgraph :=
    let '(pool', fs) := copy_nodes pool (fg_factors other) in
    (pool', {| fg_factors := fs; fg_vars := rebuild_vars fs (fg_vars other); fg_nactive := fg_nactive other |}).

  (* ---- programs over several graphs sharing the one pool ---- *)
  Inductive gop :=
  | GGet (g : nat) (vars : key)        (* graphs[g].getFactor(vars) *)
  | GSet (g : nat) (k : key) (d : D)   (* graphs[g].getFactor(k)->getData() = d  (existing factor) *)
  | GErase (g : nat) (a : nat)         (* graphs[g].erase(a) *)
  | GReset (g : nat) (n : nat)         (* graphs[g].reset(n) *)
  | GCopy (dst src : nat).             (* slot dst := FactorGraph(graphs[src]) (old dst destroyed) *)

  Definition upd_graph (gs : list fgraph) (i : nat) (x : fgraph) : list fgraph :=
    match nth_error gs i with None => gs | Some _ => firstn i gs ++ x :: skipn (Datatypes.S i) gs end.

  Definition gstep_pool (w : list fnode * list fgraph) (o : gop) : list fnode * list fgraph :=
    let (pool, gs) := w in
    match o with
    | GGet i vars => match nth_error gs i with
                     | None => w
                     | Some g => let '(pool', g', _) := get_factor_pool pool g vars in (pool', upd_graph gs i g')
                     end
    | GSet i k d => match nth_error gs i with None => w | Some g => (pool, upd_graph gs i (set_data g k d)) end
    | GErase i a => match nth_error gs i with
                    | None => w
                    | Some g => let (pool', g') := erase_pool pool g a in (pool', upd_graph gs i g')
                    end
    | GReset i n => match nth_error gs i with None => w | Some g => (pool, upd_graph gs i (fg_new n)) end
    | GCopy d s => match nth_error gs s with
                   | None => w
                   | Some g => let (pool', g') := copy_pool pool g in (pool', upd_graph gs d g')
                   end
    end.
  Definition grun_pool (w : list fnode * list fgraph) (p : list gop) : list fnode * list fgraph :=
    fold_left gstep_pool p w.

  (* a deliberately wrong variant (NOT the library's code): recycling without `it->f_ = FD{}`.
     Used only to show that the independence theorem is sensitive to the reset. *)
  Definition get_factor_noreset (pool : list fnode) (g : fgraph) (vars : key) : list fnode * fgraph * key :=
    if existsb (key_eqb vars) (vn_factors (var_at g (hd 0 vars))) then (pool, g, vars)
    else
      let '(pool', node) :=
        match pool with
        | [] => ([], {| fn_data := d0; fn_vars := [] |})
        | old :: rest => (rest, old)
        end in
      (pool', {| fg_factors := fg_factors g ++ [{| fn_data := fn_data node; fn_vars := vars |}];
                 fg_vars := link_all vars (fg_vars g);
                 fg_nactive := fg_nactive g |}, vars).
End FactorGraphModel.
Arguments fn_data {D}. Arguments fn_vars {D}.
Arguments fg_factors {D}. Arguments fg_vars {D}. Arguments fg_nactive {D}.

(* ====================================================================================== *)
(* 4. AMDP discretizer                                                                    *)
(* ====================================================================================== *)
Section AmdpModel.
  Variable lg : Q -> Q.      (* std::log *)

  (* the loop of the discretizer lambda: entropy and the index of the largest entry,
     only entries with checkDifferentSmall(0.0, b[s]) take part *)
  Fixpoint amdp_scan (b : vec) (full : vec) (s : nat) (maxS : nat) (entropy : Q) : nat * Q :=
    match b with
    | [] => (maxS, entropy)
    | x :: t =>
      if negb (eqSmall 0%Q x) then
        amdp_scan t full (S s) (if Qlt_le_dec (nthq full maxS) x then s else maxS) (entropy + x * lg x)%Q
      else amdp_scan t full (S s) maxS entropy
    end.

  (* std::log(1.0/S) / static_cast<double>(buckets + 1), buckets = buckets_ - 1 *)
  Definition amdp_step (S buckets_ : nat) : Q :=
    (lg (1 / inject_Z (Z.of_nat S)) / inject_Z (Z.of_nat buckets_))%Q.

  (* maxS + S * min(size_t(entropy / stepSize), buckets) for a given step size *)
  Definition amdp_index (step : Q) (S buckets_ : nat) (b : vec) : nat :=
    let (maxS, entropy) := amdp_scan b b 0 0 0%Q in
    maxS + S * Nat.min (Z.to_nat (Qfloor (entropy / step)%Q)) (pred buckets_).

  (* src: AMDP::makeDiscretizer with `static` dropped (fixes/C16-amdp-static.patch) *)
  Definition amdp_disc (S buckets_ : nat) (b : vec) : nat := amdp_index (amdp_step S buckets_) S buckets_ b.

  (* src: AMDP::makeDiscretizer as it stands: the function-local static is initialised by the first
     call of ANY discretizer in the process and never again.  [w] = that static (None = not yet
     initialised). *)
  Definition amdp_disc_asis (w : option Q) (S buckets_ : nat) (b : vec) : option Q * nat :=
    let step := match w with Some st => st | None => amdp_step S buckets_ end in
    (Some step, amdp_index step S buckets_ b).

  (* the repaired code as a world-passing function (it has no carrier left) *)
  Definition amdp_disc_fixed (w : option Q) (S buckets_ : nat) (b : vec) : option Q * nat :=
    (w, amdp_disc S buckets_ b).
  (* ---- the Discretizer as a value that outlives the call that made it ---- *)
  (* src: AMDP { size_t beliefSize_, buckets_; } *)
  Record amdp_obj := { a_beliefSize : nat; a_buckets : nat }.
  (* a returned closure is called later, when the producing object may have been reconfigured: it is
     modelled as a function of the producing object's CURRENT state and the belief *)
  Definition amdp_closure := amdp_obj -> vec -> nat.
  (* src: AMDP::makeDiscretizer: `const auto buckets = buckets_ - 1; return [S, buckets](const Belief & b) {…}`
     — S and the bucket count are captured BY VALUE at creation time *)
  Definition amdp_make (o : amdp_obj) (S : nat) : amdp_closure := fun _ b => amdp_disc S (a_buckets o) b.
  (* NOT the library's code: a lambda capturing `this` reads buckets_ when it is called *)
  Definition amdp_make_this (o : amdp_obj) (S : nat) : amdp_closure := fun cur b => amdp_disc S (a_buckets cur) b.
End AmdpModel.

(* exact base-2 logarithm on powers of two (2^k, 2^-k), 0 elsewhere: used to run the discretizer
   model on beliefs whose entries are powers of two (the bucket depends only on ratios of logs) *)
Fixpoint pos_log2_exact (p : positive) : option nat :=
  match p with
  | xH => Some 0
  | xO p' => match pos_log2_exact p' with Some k => Some (S k) | None => None end
  | xI _ => None
  end.
Definition lg2 (x : Q) : Q :=
  let x := Qred x in
  match Qnum x, Qden x with
  | Zpos n, d =>
    match pos_log2_exact n, pos_log2_exact d with
    | Some a, Some b => inject_Z (Z.of_nat a - Z.of_nat b)
    | _, _ => 0%Q
    end
  | _, _ => 0%Q
  end.
Definition lg2_defined (x : Q) : bool :=
  let x := Qred x in
  match Qnum x with
  | Zpos n => match pos_log2_exact n, pos_log2_exact (Qden x) with Some _, Some _ => true | _, _ => false end
  | _ => false
  end.
