(* C16/Spec.v — the independent specifications: what each API must compute when there is NO hidden
   state at all (no pool, no scratch member, no cached static, an engine that is a pure stream). *)
From Coq Require Import List NArith ZArith QArith Qround Bool Arith.
From AIT Require Import Base.Qx Base.Mdp C16.Model.
Import ListNotations.
Local Open Scope nat_scope.

(* ---------------------------------------------------------------- Seeder *)
Section SeederSpec.
  Variable state : Type.
  Variable seed_of : N -> state.
  Variable next : state -> state * N.

  (* the engine seeded with r is a pure stream: its k-th output *)
  Fixpoint stream_from (st : state) (k : nat) : N :=
    match k with
    | O => snd (next st)
    | S k' => stream_from (fst (next st)) k'
    end.
  Definition stream (r : N) (k : nat) : N := stream_from (seed_of r) k.

  (* spec of a raw call sequence: the seeds handed out depend only on the last root seed set
     and on the number of getSeed calls since; before any setRootSeed they come from the
     (unknown, time-seeded) initial state *)
  Fixpoint seeds_spec (cur : state) (root : N) (ops : list sop) : list N :=
    match ops with
    | [] => []
    | SGet :: t => snd (next cur) :: seeds_spec (fst (next cur)) root t
    | SSetRoot r :: t => seeds_spec (seed_of r) r t
    | SGetRoot :: t => root :: seeds_spec cur root t
    end.

  (* programs: drop the draws of every object other than [i] *)
  Definition relevant_to (i : nat) (o : pop) : bool :=
    match o with PDraw j => Nat.eqb i j | _ => true end.
End SeederSpec.

(* ---------------------------------------------------------------- ValueIteration *)
(* the declared inputs of a call *)
Definition vi_declared (o : vi_obj) : Q * nat * vfun := (vi_tol o, vi_hor o, vi_param o).
Definition is_setter (op : vi_op) : bool := match op with VCall _ => false | _ => true end.
Definition vi_setters (h : list vi_op) : list vi_op := filter is_setter h.

(* a solver written as a pure function of the declared inputs (no object at all) *)
Definition vi_pure (tol : Q) (hor : nat) (param : vfun) (m : mdp) : Q * vfun * mat :=
  let S := nS m in
  let v1 := vi_init param S in
  let useTol := negb (eqSmall tol 0%Q) in
  let '(variation, v, q) := vi_loop m useTol tol hor (tol * 2)%Q v1 (make_qfun S (nA m)) in
  (if useTol then variation else 0%Q, v, q).

(* ---------------------------------------------------------------- FactorGraph without a pool *)
Section FactorGraphSpec.
  Variable D : Type.
  Variable d0 : D.
  Notation fnode := (fnode D).
  Notation fgraph := (fgraph D).

  (* a new factor is always a brand-new node *)
  Definition get_factor_spec (g : fgraph) (vars : key) : fgraph :=
    if existsb (key_eqb vars) (vn_factors (var_at D g (hd 0 vars))) then g
    else {| fg_factors := fg_factors g ++ [{| fn_data := d0; fn_vars := vars |}];
            fg_vars := link_all vars (fg_vars g);
            fg_nactive := fg_nactive g |}.

  (* an erased factor simply disappears *)
  Definition erase_factor_spec (a : nat) (st : list fnode * list vnode) (k : key) : list fnode * list vnode :=
    let '(factors, vs) := st in
    match take_node D k factors with
    | (None, _) => st
    | (Some n, factors') =>
      (factors',
       fold_left (fun acc v => if Nat.eqb v a then acc
                               else upd_var acc v (fun vn =>
                                 {| vn_factors := remove_first k (vn_factors vn);
                                    vn_neigh := vn_neigh vn; vn_active := vn_active vn |}))
                 (fn_vars n) vs)
    end.

  Definition erase_spec (g : fgraph) (a : nat) : fgraph :=
    match nth_error (fg_vars g) a with
    | None => g
    | Some va =>
      if negb (vn_active va) then g
      else
        let '(factors', vs1) := fold_left (erase_factor_spec a) (vn_factors va) (fg_factors g, fg_vars g) in
        let vs2 := fold_left (fun acc aa => upd_var acc aa (fun vn =>
                      {| vn_factors := vn_factors vn; vn_neigh := remove_nat a (vn_neigh vn);
                         vn_active := vn_active vn |})) (vn_neigh va) vs1 in
        let vs3 := upd_var vs2 a (fun _ => {| vn_factors := []; vn_neigh := []; vn_active := false |}) in
        {| fg_factors := factors'; fg_vars := vs3; fg_nactive := pred (fg_nactive g) |}
    end.

  (* a copy has the same factors (fresh nodes) and re-derived per-variable factor lists *)
  Definition copy_spec (other : fgraph) : fgraph :=
    {| fg_factors := fg_factors other;
       fg_vars := rebuild_vars D (fg_factors other) (fg_vars other);
       fg_nactive := fg_nactive other |}.

  Definition gstep_spec (gs : list fgraph) (o : gop D) : list fgraph :=
    match o with
    | GGet _ i vars => match nth_error gs i with None => gs | Some g => upd_graph D gs i (get_factor_spec g vars) end
    | GSet _ i k d => match nth_error gs i with None => gs | Some g => upd_graph D gs i (set_data D g k d) end
    | GErase _ i a => match nth_error gs i with None => gs | Some g => upd_graph D gs i (erase_spec g a) end
    | GReset _ i n => match nth_error gs i with None => gs | Some g => upd_graph D gs i (fg_new D n) end
    | GCopy _ d s => match nth_error gs s with None => gs | Some g => upd_graph D gs d (copy_spec g) end
    end.
  Definition grun_spec (gs : list fgraph) (p : list (gop D)) : list fgraph := fold_left gstep_spec p gs.

  (* which graph an operation writes *)
  Definition gop_target (o : gop D) : nat :=
    match o with GGet _ i _ => i | GSet _ i _ _ => i | GErase _ i _ => i | GReset _ i _ => i | GCopy _ d _ => d end.
End FactorGraphSpec.

(* ---------------------------------------------------------------- boolean checkers (driver) *)
Definition nat_list_eqb (a b : list nat) : bool := if list_eq_dec Nat.eq_dec a b then true else false.
Definition N_list_eqb (a b : list N) : bool := if list_eq_dec N.eq_dec a b then true else false.
