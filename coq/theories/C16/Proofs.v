(* C16/Proofs.v — non-interference lemmas for the Seeder, the ValueIteration object and the AMDP
   discretizer.  (FactorGraph pool: ProofsPool.v) *)
From Coq Require Import List NArith ZArith QArith Qround Bool Arith Lia Lqa.
From AIT Require Import Base.Qx Base.Mdp C16.Model C16.Spec.
Import ListNotations.
Local Open Scope nat_scope.

(* ====================================================================================== *)
(* Seeder                                                                                 *)
(* ====================================================================================== *)
Section SeederProofs.
  Variable state : Type.
  Variable seed_of : N -> state.
  Variable next : state -> state * N.
  Notation seeder := (seeder state).
  Notation sworld := (sworld state).
  Notation seeder_run := (seeder_run state seed_of next).
  Notation prog_run := (prog_run state seed_of next).
  Notation prog_step := (prog_step state seed_of next).

  (* the handed-out seeds are the pure-stream spec, for every call sequence (induction on it) *)
  Lemma seeder_run_spec : forall ops w,
    snd (seeder_run w ops) = seeds_spec state seed_of next (s_gen _ w) (s_root _ w) ops.
  Proof.
    induction ops as [|o t IH]; intros w; [reflexivity|].
    cbn [Model.seeder_run seeds_spec].
    destruct o as [|r|]; cbn [seeder_step].
    - unfold get_seed. destruct (next (s_gen _ w)) as [g' x] eqn:E.
      specialize (IH {| s_root := s_root _ w; s_gen := g' |}).
      destruct (seeder_run _ t) as [w2 out2]. cbn [snd fst app] in *. now rewrite IH.
    - specialize (IH (set_root_seed state seed_of w r)).
      destruct (seeder_run _ t) as [w2 out2]. cbn [snd app] in *. exact IH.
    - specialize (IH w). destruct (seeder_run w t) as [w2 out2]. cbn [snd app] in *.
      unfold get_root_seed. now rewrite IH.
  Qed.

  (* once the root seed is set, nothing that happened before matters *)
  Lemma seeder_deterministic_raw : forall (w1 w2 : seeder) r ops,
    snd (seeder_run w1 (SSetRoot r :: ops)) = snd (seeder_run w2 (SSetRoot r :: ops)).
  Proof. intros. rewrite !seeder_run_spec. reflexivity. Qed.

  (* n consecutive getSeed calls after setRootSeed r return the first n outputs of the engine *)
  Lemma seeds_after_root : forall (w : seeder) r n,
    snd (seeder_run w (SSetRoot r :: repeat SGet n)) = map (stream state seed_of next r) (seq 0 n).
  Proof.
    intros w r n. rewrite seeder_run_spec. cbn [seeds_spec]. unfold stream.
    generalize (seed_of r) as st. clear w.
    induction n as [|n IH]; intros st; [reflexivity|].
    cbn [repeat seeds_spec seq map]. rewrite IH. cbn [stream_from]. f_equal.
    rewrite <- seq_shift, map_map. reflexivity.
  Qed.

  (* programs with objects: same root seed + same objects alive + same program => same draws and
     same final world, whatever the Seeder state was before *)
  Lemma prog_deterministic : forall (s1 s2 : seeder) objs r p,
    prog_run {| w_seeder := s1; w_objs := objs |} (PSetRoot r :: p) =
    prog_run {| w_seeder := s2; w_objs := objs |} (PSetRoot r :: p).
  Proof. intros. cbn [Model.prog_run Model.prog_step w_seeder w_objs]. reflexivity. Qed.

  (* draws from other objects do not perturb object i nor the Seeder *)
  Lemma upd_length : forall (A : Type) (l : list A) i x, length (upd l i x) = length l.
  Proof.
    intros A l. induction l as [|y l IH]; intros i x.
    - unfold upd. destruct i; reflexivity.
    - destruct i as [|i]; [reflexivity|].
      unfold upd in *. cbn [firstn skipn app length]. now rewrite IH.
  Qed.

  Lemma upd_nth_other : forall (A : Type) (l : list A) i j x, i <> j -> nth_error (upd l j x) i = nth_error l i.
  Proof.
    intros A l. induction l as [|y l IH]; intros i j x Hij.
    - unfold upd. destruct j; reflexivity.
    - destruct j as [|j], i as [|i]; try (exfalso; apply Hij; reflexivity); try reflexivity.
      unfold upd in *. cbn [firstn skipn app nth_error]. apply IH. intros ->. now apply Hij.
  Qed.

  Lemma upd_nth_same : forall (A : Type) (l : list A) j x y,
    nth_error l j = Some y -> nth_error (upd l j x) j = Some x.
  Proof.
    intros A l. induction l as [|z l IH]; intros j x y H.
    - destruct j; discriminate.
    - destruct j as [|j]; [reflexivity|].
      unfold upd in *. cbn [firstn skipn app nth_error] in *. eapply IH. exact H.
  Qed.

  Lemma prog_unrelated_draws : forall i p (w1 w2 : sworld),
    w_seeder _ w1 = w_seeder _ w2 -> length (w_objs _ w1) = length (w_objs _ w2) ->
    nth_error (w_objs _ w1) i = nth_error (w_objs _ w2) i ->
    let r1 := fst (prog_run w1 p) in
    let r2 := fst (prog_run w2 (filter (relevant_to i) p)) in
    w_seeder _ r1 = w_seeder _ r2 /\ nth_error (w_objs _ r1) i = nth_error (w_objs _ r2) i.
  Proof.
    intros i p. induction p as [|o t IH]; intros w1 w2 Hs Hl Hn; cbn zeta.
    - cbn [Model.prog_run filter fst]. auto.
    - cbn [filter]. destruct o as [|j|r|]; cbn [relevant_to].
      + (* PNew *)
        cbn [Model.prog_run Model.prog_step]. rewrite Hs.
        destruct (get_seed state next (w_seeder _ w2)) as [s' x] eqn:E.
        match goal with |- context [Model.prog_run _ _ _ ?a t] => set (wa := a) end.
        match goal with |- context [Model.prog_run _ _ _ ?b (filter _ t)] => set (wb := b) end.
        specialize (IH wa wb).
        destruct (Model.prog_run _ _ _ wa t) as [ra oa]. destruct (Model.prog_run _ _ _ wb (filter _ t)) as [rb ob].
        cbn [fst] in *. apply IH; subst wa wb; cbn [w_seeder w_objs]; auto.
        * rewrite !app_length. lia.
        * destruct (Nat.lt_ge_cases i (length (w_objs _ w1))) as [H|H].
          -- rewrite !nth_error_app1 by lia. exact Hn.
          -- rewrite !nth_error_app2 by lia. now rewrite Hl.
      + (* PDraw j *)
        destruct (Nat.eqb_spec i j) as [->|Hij].
        * cbn [Model.prog_run Model.prog_step]. rewrite Hn.
          destruct (nth_error (w_objs _ w2) j) as [st|] eqn:E.
          -- destruct (next st) as [st' x].
             match goal with |- context [Model.prog_run _ _ _ ?a t] => set (wa := a) end.
             match goal with |- context [Model.prog_run _ _ _ ?b (filter _ t)] => set (wb := b) end.
             specialize (IH wa wb).
             destruct (Model.prog_run _ _ _ wa t) as [ra oa]. destruct (Model.prog_run _ _ _ wb (filter _ t)) as [rb ob].
             cbn [fst] in *. apply IH; subst wa wb; cbn [w_seeder w_objs]; auto.
             ++ rewrite !upd_length. exact Hl.
             ++ rewrite (upd_nth_same _ _ _ _ _ E), (upd_nth_same _ _ _ _ _ Hn). reflexivity.
          -- specialize (IH w1 w2).
             destruct (Model.prog_run _ _ _ w1 t) as [ra oa]. destruct (Model.prog_run _ _ _ w2 (filter _ t)) as [rb ob].
             cbn [fst] in *. apply IH; auto; congruence.
        * (* a draw on another object: dropped on the right *)
          cbn [Model.prog_run Model.prog_step].
          destruct (nth_error (w_objs _ w1) j) as [st|] eqn:E.
          -- destruct (next st) as [st' x].
             match goal with |- context [Model.prog_run _ _ _ ?a t] => set (wa := a) end.
             specialize (IH wa w2).
             destruct (Model.prog_run _ _ _ wa t) as [ra oa]. destruct (Model.prog_run _ _ _ w2 (filter _ t)) as [rb ob].
             cbn [fst] in *. apply IH; subst wa; cbn [w_seeder w_objs]; auto.
             ++ now rewrite upd_length.
             ++ rewrite upd_nth_other by exact Hij. exact Hn.
          -- specialize (IH w1 w2).
             destruct (Model.prog_run _ _ _ w1 t) as [ra oa]. destruct (Model.prog_run _ _ _ w2 (filter _ t)) as [rb ob].
             cbn [fst] in *. apply IH; auto.
      + (* PSetRoot *)
        cbn [Model.prog_run Model.prog_step]. rewrite Hs.
        match goal with |- context [Model.prog_run _ _ _ ?a t] => set (wa := a) end.
        match goal with |- context [Model.prog_run _ _ _ ?b (filter _ t)] => set (wb := b) end.
        specialize (IH wa wb).
        destruct (Model.prog_run _ _ _ wa t) as [ra oa]. destruct (Model.prog_run _ _ _ wb (filter _ t)) as [rb ob].
        cbn [fst] in *. apply IH; subst wa wb; cbn [w_seeder w_objs]; auto.
      + (* PGetSeed *)
        cbn [Model.prog_run Model.prog_step]. rewrite Hs.
        destruct (get_seed state next (w_seeder _ w2)) as [s' x] eqn:E.
        match goal with |- context [Model.prog_run _ _ _ ?a t] => set (wa := a) end.
        match goal with |- context [Model.prog_run _ _ _ ?b (filter _ t)] => set (wb := b) end.
        specialize (IH wa wb).
        destruct (Model.prog_run _ _ _ wa t) as [ra oa]. destruct (Model.prog_run _ _ _ wb (filter _ t)) as [rb ob].
        cbn [fst] in *. apply IH; subst wa wb; cbn [w_seeder w_objs]; auto.
  Qed.
End SeederProofs.

(* ====================================================================================== *)
(* ValueIteration                                                                         *)
(* ====================================================================================== *)
Lemma vi_call_is_pure : forall o m,
  snd (vi_call o m) = vi_pure (vi_tol o) (vi_hor o) (vi_param o) m.
Proof.
  intros o m. unfold vi_call, vi_pure.
  destruct (vi_loop _ _ _ _ _ _ _) as [[variation v] q]. reflexivity.
Qed.

Lemma vi_call_keeps_declared : forall o m, vi_declared (fst (vi_call o m)) = vi_declared o.
Proof.
  intros o m. unfold vi_call.
  destruct (vi_loop _ _ _ _ _ _ _) as [[variation v] q]. reflexivity.
Qed.

Lemma vi_step_declared : forall o1 o2 op,
  vi_declared o1 = vi_declared o2 -> vi_declared (vi_step o1 op) = vi_declared (vi_step o2 op).
Proof.
  intros o1 o2 op H. destruct op; cbn [vi_step].
  - unfold vi_declared in *. cbn. inversion H. reflexivity.
  - unfold vi_declared in *. cbn. inversion H. reflexivity.
  - unfold vi_declared in *. cbn. inversion H. reflexivity.
  - rewrite !vi_call_keeps_declared. exact H.
Qed.

Lemma vi_history_setters : forall h o1 o2,
  vi_declared o1 = vi_declared o2 -> vi_declared (vi_history o1 h) = vi_declared (vi_history o2 (vi_setters h)).
Proof.
  induction h as [|op t IH]; intros o1 o2 H; [exact H|].
  unfold vi_history, vi_setters in *. cbn [fold_left filter].
  destruct op; cbn [is_setter fold_left]; try (apply IH; apply vi_step_declared; exact H).
  apply IH. cbn [vi_step]. rewrite vi_call_keeps_declared. exact H.
Qed.

Lemma vi_reuse_independent_lemma : forall o1 o2 h1 h2 m,
  vi_declared o1 = vi_declared o2 -> vi_setters h1 = vi_setters h2 ->
  snd (vi_call (vi_history o1 h1) m) = snd (vi_call (vi_history o2 h2) m).
Proof.
  intros o1 o2 h1 h2 m Hd Hs. rewrite !vi_call_is_pure.
  assert (E : vi_declared (vi_history o1 h1) = vi_declared (vi_history o2 h2)).
  { rewrite (vi_history_setters h1 o1 o2 Hd), Hs.
    symmetry. apply vi_history_setters. reflexivity. }
  unfold vi_declared in E. inversion E as [[E1 E2 E3]]. now rewrite E1, E2, E3.
Qed.

(* the scratch member alone never matters *)
Lemma vi_scratch_irrelevant : forall o s m,
  snd (vi_call {| vi_tol := vi_tol o; vi_hor := vi_hor o; vi_param := vi_param o; vi_v1 := s |} m) = snd (vi_call o m).
Proof. intros. rewrite !vi_call_is_pure. reflexivity. Qed.

(* ====================================================================================== *)
(* AMDP discretizer                                                                       *)
(* ====================================================================================== *)
Lemma amdp_fixed_independent : forall lg w1 w2 S B b,
  snd (amdp_disc_fixed lg w1 S B b) = snd (amdp_disc_fixed lg w2 S B b).
Proof. reflexivity. Qed.

(* the code as it stands is right for the first discretizer of the process ... *)
Lemma amdp_asis_first_call : forall lg S B b,
  snd (amdp_disc_asis lg None S B b) = amdp_disc lg S B b.
Proof. reflexivity. Qed.

(* ... and whenever the cached step happens to be the one this discretizer needs *)
Lemma amdp_asis_same_step : forall lg st S B b,
  st == amdp_step lg S B -> snd (amdp_disc_asis lg (Some st) S B b) = amdp_disc lg S B b.
Proof.
  intros lg st S B b H. unfold amdp_disc_asis, amdp_disc, amdp_index. cbn [snd].
  destruct (amdp_scan lg b b 0 0 0%Q) as [maxS e].
  assert (E : (e / st == e / amdp_step lg S B)%Q) by now rewrite H.
  now rewrite (Qfloor_comp _ _ E).
Qed.

(* the cache after any call is Some: every later discretizer, of any size, reuses it *)
Lemma amdp_asis_cache_sticks : forall lg st S B b, fst (amdp_disc_asis lg (Some st) S B b) = Some st.
Proof. reflexivity. Qed.

(* witness with the exact base-2 logarithm (the bucket depends only on a ratio of logarithms):
   S = 2, uniform belief.  Fresh discretizer with 4 buckets: index 6; after a discretizer with
   1 bucket has run once: index 2. *)
Lemma amdp_asis_refuted_lemma :
  exists (w1 w2 : option Q) (S B : nat) (b : vec),
    snd (amdp_disc_asis lg2 w1 S B b) <> snd (amdp_disc_asis lg2 w2 S B b).
Proof.
  exists None, (fst (amdp_disc_asis lg2 None 2 1 [1#2; 1#2])), 2, 4, [1#2; 1#2].
  vm_compute. discriminate.
Qed.

(* the same for ANY logarithm-like function that is negative at 1/2 *)
Lemma amdp_asis_refuted_any_log : forall lg : Q -> Q,
  (lg (1 # 2) < 0)%Q ->
  snd (amdp_disc_asis lg None 2 4 [1#2; 1#2]) = 6 /\
  snd (amdp_disc_asis lg (fst (amdp_disc_asis lg None 2 1 [1#2; 1#2])) 2 4 [1#2; 1#2]) = 2.
Proof.
  intros lg Hneg.
  assert (Hs : forall B, amdp_step lg 2 B = (lg (1#2) / inject_Z (Z.of_nat B))%Q).
  { intros B. unfold amdp_step. reflexivity. }
  assert (Hscan : amdp_scan lg [1#2; 1#2] [1#2; 1#2] 0 0 0%Q = (0, (0 + (1#2) * lg (1#2) + (1#2) * lg (1#2))%Q)).
  { reflexivity. }
  split.
  - unfold amdp_disc_asis. cbn [snd]. unfold amdp_index. rewrite Hscan, Hs.
    assert (E : ((0 + (1 # 2) * lg (1 # 2) + (1 # 2) * lg (1 # 2)) / (lg (1 # 2) / inject_Z (Z.of_nat 4)) == 4)%Q).
    { change (inject_Z (Z.of_nat 4)) with (4#1). field. lra. }
    rewrite (Qfloor_comp _ _ E). reflexivity.
  - unfold amdp_disc_asis. cbn [fst snd]. unfold amdp_index. rewrite Hscan, Hs.
    assert (E : ((0 + (1 # 2) * lg (1 # 2) + (1 # 2) * lg (1 # 2)) / (lg (1 # 2) / inject_Z (Z.of_nat 1)) == 1)%Q).
    { change (inject_Z (Z.of_nat 1)) with (1#1). field. lra. }
    rewrite (Qfloor_comp _ _ E). reflexivity.
Qed.

(* ====================================================================================== *)
(* values returned by an object do not change when the object is reconfigured / reused      *)
(* ====================================================================================== *)
Lemma amdp_closure_snapshot_lemma : forall lg (o cur1 cur2 : amdp_obj) S b,
  amdp_make lg o S cur1 b = amdp_make lg o S cur2 b /\ amdp_make lg o S cur1 b = amdp_disc lg S (a_buckets o) b.
Proof. intros. split; reflexivity. Qed.

(* a closure capturing `this`: 10 buckets at creation, 3 after setEntropyBuckets(3): index 18, then 4 *)
Lemma amdp_closure_this_refuted_lemma :
  exists (o cur1 cur2 : amdp_obj) (S : nat) (b : vec), amdp_make_this lg2 o S cur1 b <> amdp_make_this lg2 o S cur2 b.
Proof.
  exists {| a_beliefSize := 300; a_buckets := 10 |}, {| a_beliefSize := 300; a_buckets := 10 |},
         {| a_beliefSize := 300; a_buckets := 3 |}, 2, [1#2; 1#2].
  vm_compute. discriminate.
Qed.

(* ====================================================================================== *)
(* threads                                                                                *)
(* ====================================================================================== *)
Lemma tprog_thread_irrelevant : forall (state : Type) (seed_of : N -> state) (next : state -> state * N)
  (w : sworld state) (p q : list (tpop)),
  map erase_thread p = map erase_thread q ->
  tprog_run state seed_of next w p = tprog_run state seed_of next w q.
Proof. intros. unfold tprog_run. now rewrite H. Qed.

(* toy engine: state = counter *)
Definition toy_next_tl (st : N) : N * N := (N.succ st, (st * 7 + 3)%N).
Lemma thread_local_seeder_refuted_lemma :
  exists (p : list tpop) (w1 w2 : tl_world N),
    tl_seeder N w1 0 = tl_seeder N w2 0 /\ tl_objs N w1 = tl_objs N w2 /\
    snd (tl_run N (fun r => r) toy_next_tl w1 p) <> snd (tl_run N (fun r => r) toy_next_tl w2 p).
Proof.
  exists [TOn 0 (PSetRoot 5%N); TOn 1 PNew; TOn 1 (PDraw 0)],
         {| tl_seeder := fun _ => {| s_root := 0%N; s_gen := 11%N |}; tl_objs := [] |},
         {| tl_seeder := fun t => if Nat.eqb t 0 then {| s_root := 0%N; s_gen := 11%N |} else {| s_root := 0%N; s_gen := 99%N |}; tl_objs := [] |}.
  split; [reflexivity|]. split; [reflexivity|]. vm_compute. discriminate.
Qed.
