From Coq Require Extraction.
From Coq Require Import ExtrOcamlBasic.
From AIT Require Import Base.Vio C16.Model C16.Spec.
Extraction "model.ml" vio_kit
  seeder_run prog_run seeds_spec
  vi_call vi_pure vi_history
  fg_new grun_pool grun_spec get_factor_noreset
  amdp_scan amdp_step amdp_index amdp_disc amdp_disc_asis lg2 lg2_defined
  nat_list_eqb N_list_eqb.
