(* C16/ProofsPool.v — the FactorGraph node pool is unobservable: the implementation with the
   process-wide pool computes, for every program over any number of graphs and from ANY pool
   content, exactly the graphs of the pool-less specification. *)
From Coq Require Import List NArith Bool Arith Lia.
From AIT Require Import C16.Model C16.Spec.
Import ListNotations.
Local Open Scope nat_scope.

Section PoolProofs.
  Variable D : Type.
  Variable d0 : D.
  Notation fnode := (fnode D).
  Notation fgraph := (fgraph D).

  (* getFactor: a recycled node has its data reset and its variables overwritten *)
  Lemma get_factor_pool_spec : forall pool g vars,
    exists pool', get_factor_pool D d0 pool g vars = (pool', get_factor_spec D d0 g vars, vars).
  Proof.
    intros pool g vars. unfold get_factor_pool, get_factor_spec.
    destruct (existsb _ _).
    - now exists pool.
    - destruct pool as [|old rest]; cbn [fn_data].
      + now exists [].
      + now exists rest.
  Qed.

  Lemma erase_fold_spec : forall a ks pool fs vs,
    exists pool',
      fold_left (erase_factor D a) ks (pool, fs, vs) =
      (pool', fst (fold_left (erase_factor_spec D a) ks (fs, vs)), snd (fold_left (erase_factor_spec D a) ks (fs, vs))).
  Proof.
    intros a ks. induction ks as [|k t IH]; intros pool fs vs.
    - exists pool. reflexivity.
    - cbn [fold_left]. unfold erase_factor at 2, erase_factor_spec at 2 4.
      destruct (take_node D k fs) as [[n|] fs'].
      + apply IH.
      + apply IH.
  Qed.

  Lemma erase_pool_spec : forall pool g a,
    exists pool', erase_pool D pool g a = (pool', erase_spec D g a).
  Proof.
    intros pool g a. unfold erase_pool, erase_spec.
    destruct (nth_error (fg_vars g) a) as [va|]; [|now exists pool].
    destruct (negb (vn_active va)); [now exists pool|].
    destruct (erase_fold_spec a (vn_factors va) pool (fg_factors g) (fg_vars g)) as [pool' E].
    rewrite E.
    destruct (fold_left (erase_factor_spec D a) (vn_factors va) (fg_factors g, fg_vars g)) as [fs' vs1].
    cbn [fst snd]. now exists pool'.
  Qed.

  Lemma copy_nodes_spec : forall src pool, exists pool', copy_nodes D pool src = (pool', src).
  Proof.
    induction src as [|n t IH]; intros pool.
    - now exists pool.
    - cbn [copy_nodes].
      destruct pool as [|old rest].
      + destruct (IH []) as [p E]. rewrite E. exists p. destruct n; reflexivity.
      + destruct (IH rest) as [p E]. rewrite E. exists p. destruct n; reflexivity.
  Qed.

  Lemma copy_pool_spec : forall pool other, exists pool', copy_pool D pool other = (pool', copy_spec D other).
  Proof.
    intros pool other. unfold copy_pool, copy_spec.
    destruct (copy_nodes_spec (fg_factors other) pool) as [p E]. rewrite E. now exists p.
  Qed.

  Lemma gstep_pool_spec : forall pool gs o,
    exists pool', gstep_pool D d0 (pool, gs) o = (pool', gstep_spec D d0 gs o).
  Proof.
    intros pool gs o. destruct o as [i vars|i k d|i a|i n|d s]; cbn [gstep_pool gstep_spec].
    - destruct (nth_error gs i) as [g|]; [|now exists pool].
      destruct (get_factor_pool_spec pool g vars) as [p E]. rewrite E. now exists p.
    - destruct (nth_error gs i) as [g|]; now exists pool.
    - destruct (nth_error gs i) as [g|]; [|now exists pool].
      destruct (erase_pool_spec pool g a) as [p E]. rewrite E. now exists p.
    - destruct (nth_error gs i) as [g|]; now exists pool.
    - destruct (nth_error gs s) as [g|]; [|now exists pool].
      destruct (copy_pool_spec pool g) as [p E]. rewrite E. now exists p.
  Qed.

  Lemma grun_pool_spec : forall p pool gs,
    snd (grun_pool D d0 (pool, gs) p) = grun_spec D d0 gs p.
  Proof.
    induction p as [|o t IH]; intros pool gs; [reflexivity|].
    unfold grun_pool, grun_spec in *. cbn [fold_left].
    destruct (gstep_pool_spec pool gs o) as [pool' E]. rewrite E. apply IH.
  Qed.

  (* the headline: any two pool contents (any two unrelated histories of other graphs' erasures)
     give the same graphs *)
  Lemma pool_recycle_independent_lemma : forall pool1 pool2 gs p,
    snd (grun_pool D d0 (pool1, gs) p) = snd (grun_pool D d0 (pool2, gs) p).
  Proof. intros. now rewrite !grun_pool_spec. Qed.

  (* operations on other graphs are unrelated history for graph i *)
  Lemma splice_other : forall (A : Type) (l : list A) i j x, i <> j -> j < length l ->
    nth_error (firstn j l ++ x :: skipn (S j) l) i = nth_error l i.
  Proof.
    intros A l. induction l as [|y l IH]; intros i j x Hij Hj; [cbn [length] in Hj; lia|].
    destruct j as [|j], i as [|i]; try (exfalso; apply Hij; reflexivity); try reflexivity.
    cbn [firstn skipn app nth_error]. apply IH; [intros ->; now apply Hij| cbn [length] in Hj; lia].
  Qed.

  Lemma upd_graph_other : forall (gs : list fgraph) i j x, i <> j -> nth_error (upd_graph D gs j x) i = nth_error gs i.
  Proof.
    intros gs i j x Hij. unfold upd_graph.
    destruct (nth_error gs j) as [y|] eqn:E; [|reflexivity].
    assert (Hj : j < length gs) by (apply nth_error_Some; rewrite E; discriminate).
    now apply splice_other.
  Qed.

  Lemma upd_graph_length : forall (gs : list fgraph) j x, length (upd_graph D gs j x) = length gs.
  Proof.
    intros gs j x. unfold upd_graph. destruct (nth_error gs j) as [y|] eqn:E; [|reflexivity].
    assert (Hj : j < length gs) by (apply nth_error_Some; rewrite E; discriminate).
    rewrite app_length. cbn [length]. rewrite firstn_length, skipn_length. lia.
  Qed.

  Lemma gstep_spec_other : forall gs o i, gop_target D o <> i -> nth_error (gstep_spec D d0 gs o) i = nth_error gs i.
  Proof.
    intros gs o i H. destruct o as [j vars|j k d|j a|j n|d s]; cbn [gstep_spec gop_target] in *;
      match goal with |- context [match nth_error gs ?x with _ => _ end] => destruct (nth_error gs x) end;
      try reflexivity; apply upd_graph_other; auto.
  Qed.

  (* a step on graph i depends only on graph i (and, for a copy, on the source) *)
  Lemma gstep_spec_same : forall gs1 gs2 o i, gop_target D o = i ->
    nth_error gs1 i = nth_error gs2 i ->
    (forall d s, o = GCopy D d s -> nth_error gs1 s = nth_error gs2 s) ->
    nth_error (gstep_spec D d0 gs1 o) i = nth_error (gstep_spec D d0 gs2 o) i.
  Proof.
    assert (Hsame : forall (gs1 gs2 : list fgraph) i x, (nth_error gs1 i = None <-> nth_error gs2 i = None) ->
                    nth_error (upd_graph D gs1 i x) i = nth_error (upd_graph D gs2 i x) i).
    { intros gs1 gs2 i x Hn. unfold upd_graph.
      destruct (nth_error gs1 i) as [y1|] eqn:E1; destruct (nth_error gs2 i) as [y2|] eqn:E2.
      - assert (H1 : i < length gs1) by (apply nth_error_Some; rewrite E1; discriminate).
        assert (H2 : i < length gs2) by (apply nth_error_Some; rewrite E2; discriminate).
        rewrite !nth_error_app2 by (rewrite firstn_length; lia).
        rewrite !firstn_length, !Nat.min_l by lia. rewrite Nat.sub_diag. reflexivity.
      - destruct Hn as [_ Hn]. specialize (Hn eq_refl). discriminate.
      - destruct Hn as [Hn _]. specialize (Hn eq_refl). discriminate.
      - now rewrite E1, E2. }
    intros gs1 gs2 o i Ht Hi Hc.
    destruct o as [j vars|j k d|j a|j n|d s]; cbn [gstep_spec gop_target] in *; subst.
    - destruct (nth_error gs1 i) as [g1|] eqn:E1; destruct (nth_error gs2 i) as [g2|] eqn:E2; try discriminate.
      + inversion Hi; subst. apply Hsame. rewrite E1, E2. split; discriminate.
      + now rewrite E1, E2.
    - destruct (nth_error gs1 i) as [g1|] eqn:E1; destruct (nth_error gs2 i) as [g2|] eqn:E2; try discriminate.
      + inversion Hi; subst. apply Hsame. rewrite E1, E2. split; discriminate.
      + now rewrite E1, E2.
    - destruct (nth_error gs1 i) as [g1|] eqn:E1; destruct (nth_error gs2 i) as [g2|] eqn:E2; try discriminate.
      + inversion Hi; subst. apply Hsame. rewrite E1, E2. split; discriminate.
      + now rewrite E1, E2.
    - destruct (nth_error gs1 i) as [g1|] eqn:E1; destruct (nth_error gs2 i) as [g2|] eqn:E2; try discriminate.
      + apply Hsame. rewrite E1, E2. split; discriminate.
      + now rewrite E1, E2.
    - specialize (Hc _ _ eq_refl). rewrite <- Hc.
      destruct (nth_error gs1 s) as [g|]; [|exact Hi].
      apply Hsame. rewrite Hi. tauto.
  Qed.

  (* programs that never copy FROM another graph into i: dropping every operation that targets a
     different graph leaves graph i unchanged *)
  Definition touches (i : nat) (o : gop D) : bool := Nat.eqb (gop_target D o) i.
  Definition self_contained (i : nat) (o : gop D) : bool :=
    match o with GCopy _ d s => negb (Nat.eqb d i) || Nat.eqb s i | _ => true end.

  Lemma pool_unrelated_graphs_lemma : forall i p gs1 gs2 pool1 pool2,
    forallb (self_contained i) p = true ->
    nth_error gs1 i = nth_error gs2 i ->
    nth_error (snd (grun_pool D d0 (pool1, gs1) p)) i =
    nth_error (snd (grun_pool D d0 (pool2, gs2) (filter (touches i) p))) i.
  Proof.
    intros i p gs1 gs2 pool1 pool2 Hsc Hi. rewrite !grun_pool_spec. clear pool1 pool2.
    revert gs1 gs2 Hsc Hi. induction p as [|o t IH]; intros gs1 gs2 Hsc Hi; [exact Hi|].
    cbn [forallb] in Hsc. apply andb_true_iff in Hsc. destruct Hsc as [Ho Ht].
    unfold grun_spec in *. cbn [fold_left filter]. unfold touches at 1.
    destruct (Nat.eqb_spec (gop_target D o) i) as [Heq|Hne].
    - cbn [fold_left]. apply IH; [exact Ht|].
      apply gstep_spec_same; auto.
      intros d s ->. cbn [self_contained gop_target] in *. subst d.
      rewrite Nat.eqb_refl in Ho. cbn [negb orb] in Ho. apply Nat.eqb_eq in Ho. now subst s.
    - apply IH; [exact Ht|]. rewrite gstep_spec_other by exact Hne. exact Hi.
  Qed.
End PoolProofs.

(* the theorem is about the reset: without `it->f_ = FD{}` stale data of an unrelated graph
   becomes visible (two different pool contents give different graphs) *)
Lemma pool_noreset_counterexample :
  exists (pool1 pool2 : list (fnode nat)) (g : fgraph nat) (vars : key),
    snd (fst (get_factor_noreset nat 0 pool1 g vars)) <> snd (fst (get_factor_noreset nat 0 pool2 g vars)).
Proof.
  exists [], [{| fn_data := 7; fn_vars := [0] |}], (fg_new nat 2), [0; 1].
  vm_compute. intros H. discriminate H.
Qed.
