(* Properties_C19.v — property C19: online planners (MCTS, POMCP) respect the horizon and keep a
   consistent tree.  Only statements, each closed by [exact <lemma>] + Print Assumptions.

   The machines (C19/Model.v) take every choice the planner cannot make by itself from a trace:
   UCB / rollout actions, the generative model's outcomes, the root particle.  "For all traces"
   therefore means: for every behaviour of findBestBonusA, of the random engine and of the user's
   model.  [rl] is the rollout-length expression: [rl_fixed] = maxDepth_ - depth - 1 (the code after
   fixes/C19-rollout-depth.patch), [rl_orig] = maxDepth_ - depth + 1 (/repo today).  The tree
   theorems hold for every [rl]; the horizon theorem needs [rl_fixed] and is refuted for [rl_orig]. *)
From Coq Require Import QArith List Arith Lia.
From AIT Require Import C19.Model C19.Spec C19.Proofs C19.ProofsMCTS C19.ProofsPOMCP C19.ProofsTop C19.ProofsRange C19.ProofsRange2 C19.ProofsParticles C19.ProofsParticles2
  C19.ModelR C19.SpecR C19.ProofsR C19.ProofsR2 C19.ProofsR3 C19.ProofsR4
  C19.ProofsR5 C19.ProofsR6 C19.ProofsR7 C19.ProofsR8.
Import ListNotations.
Local Open Scope nat_scope.

Definition mop_h (op : mop) : nat := match op with MFresh _ h => h | MAdvance _ _ h => h end.
Definition pop_h (op : pop) : nat := match op with PFresh _ h => h | PAdvance _ _ h _ => h end.

(* ------------------------------------------------------------------ MCTS ------------------ *)
(* [gA] is the model's getA(s).  The horizon, return and fuel theorems hold for any gA (variable
   action space); the tree-consistency theorems are stated for a fixed action space [fun _ => A]. *)

(* After any history of sampleAction calls (first one from scratch), with any traces: every node's
   N is the sum of its actions' N — the root included, there is no exception in MCTS.hpp. *)
Theorem tree_counts_invariant_mcts : forall A term disc rl iters s0 h0 tr0 ops,
  0 < A -> trace_ok A tr0 -> Forall (fun p => trace_ok A (snd p)) ops ->
  counts_ok (mcts_session (fun _ => A) term disc rl iters node0 ((MFresh s0 h0, tr0) :: ops)).
Proof. exact mcts_counts_lemma. Qed.
Print Assumptions tree_counts_invariant_mcts.

(* Every action estimate is the mean of the returns recorded for it (N of them) … *)
Theorem value_is_mean_mcts : forall A term disc rl iters s0 h0 tr0 ops,
  0 < A -> trace_ok A tr0 -> Forall (fun p => trace_ok A (snd p)) ops ->
  mean_ok (mcts_session (fun _ => A) term disc rl iters node0 ((MFresh s0 h0, tr0) :: ops)).
Proof. exact mcts_mean_lemma. Qed.
Print Assumptions value_is_mean_mcts.

(* … and what simulate records for the chosen action (and returns to its caller) is the discounted
   sum of the rewards sampled from there to the end of the simulation. *)
Theorem return_is_discounted_sum_mcts : forall gA term disc rl fuel h d sn s tr sn' ret tr' st,
  mcts_simulate gA term disc rl (S fuel) h d sn s tr = (sn', ret, tr', st) ->
  st <= length tr -> ea (fst (next tr)) < length (acts sn) ->
  (ret == disc_sum disc (map er (firstn st tr)))%Q /\ tr' = skipn st tr /\
  rets (nth (ea (fst (next tr))) (acts sn') act0) = rets (nth (ea (fst (next tr))) (acts sn) act0) ++ [ret].
Proof. exact mcts_return_lemma. Qed.
Print Assumptions return_is_discounted_sum_mcts.

(* With the repaired rollout length no simulation makes more than `horizon` model calls. *)
Theorem depth_le_horizon_mcts : forall gA term disc iters g op tr g' a tr' sts,
  mcts_op gA term disc rl_fixed iters g op tr = (g', a, tr', sts) ->
  Forall (fun st => st <= mop_h op) sts.
Proof. exact mcts_depth_lemma. Qed.
Print Assumptions depth_le_horizon_mcts.

(* /repo today: horizon 2, one simulation, 4 model calls. *)
Theorem depth_le_horizon_mcts_refuted : exists A term disc iters s h tr g' a tr' sts,
  0 < A /\ trace_ok A tr /\
  mcts_op (fun _ => A) term disc rl_orig iters node0 (MFresh s h) tr = (g', a, tr', sts) /\
  ~ Forall (fun st => st <= h) sts.
Proof. exact mcts_depth_refuted_lemma. Qed.
Print Assumptions depth_le_horizon_mcts_refuted.

(* sampleAction returns an existing action and leaves the root with exactly A action nodes. *)
Theorem action_valid_mcts : forall A term disc rl iters g op tr g' a tr' sts,
  0 < A -> trace_ok A tr -> counts_ok g /\ mean_ok g /\ shape_ok A g ->
  mcts_op (fun _ => A) term disc rl iters g op tr = (g', a, tr', sts) ->
  a < A /\ length (acts g') = A.
Proof. exact mcts_action_lemma. Qed.
Print Assumptions action_valid_mcts.

(* The recursion fuel of the model is never exhausted (the model is the code, not a truncation). *)
Theorem fuel_irrelevant_mcts : forall gA term disc rl f1 f2 h d sn s tr,
  d < h -> h - d <= f1 -> h - d <= f2 ->
  mcts_simulate gA term disc rl f1 h d sn s tr = mcts_simulate gA term disc rl f2 h d sn s tr.
Proof. exact mcts_fuel_irrelevant. Qed.
Print Assumptions fuel_irrelevant_mcts.

(* sampleAction(a, s1, h): the search continues from exactly the stored subtree (with its action
   nodes allocated), or restarts from scratch when s1 was never simulated under a. *)
Theorem promotion_keeps_subtree_mcts : forall A term disc rl iters g a s1 h tr,
  (forall c, find_kid s1 (kids (nth a (acts g) act0)) = Some c ->
     In (s1, c) (kids (nth a (acts g) act0)) /\
     mcts_advance (fun _ => A) term disc rl iters g a s1 h tr = mcts_runSimulation (fun _ => A) term disc rl iters h (allocate A c) s1 tr /\
     fst (fst (fst (mcts_advance (fun _ => A) term disc rl 0 g a s1 h tr))) = allocate A c) /\
  (find_kid s1 (kids (nth a (acts g) act0)) = None ->
     mcts_advance (fun _ => A) term disc rl iters g a s1 h tr = mcts_fresh (fun _ => A) term disc rl iters s1 h tr).
Proof. exact mcts_promotion_lemma. Qed.
Print Assumptions promotion_keeps_subtree_mcts.


(* Value range.  One call of sampleAction with the repaired rollout length, rewards in [-R, R] and
   0 <= disc: if the tree it starts from is consistent and within range for the previous horizon
   hp <= h + 1 (vacuous for a call from scratch: node0), every recorded return and every estimate
   of a visited action at depth d lies within R * sum_{k < h - d} disc^k. *)
Theorem value_in_range_mcts : forall A term disc R iters g hp op tr g' a tr' sts,
  0 < A -> (0 <= R)%Q -> (0 <= disc)%Q -> trace_ok A tr -> rewards_in R tr ->
  counts_ok g /\ mean_ok g /\ shape_ok A g ->
  tree_all_d (rets_in R disc hp) 0 g -> hp <= mop_h op + 1 ->
  mcts_op (fun _ => A) term disc rl_fixed iters g op tr = (g', a, tr', sts) ->
  tree_all_d (rets_in R disc (mop_h op)) 0 g' /\ tree_all_d (value_in R disc (mop_h op)) 0 g'.
Proof. exact mcts_range_lemma. Qed.
Print Assumptions value_in_range_mcts.

(* /repo today: horizon 2, unit rewards, no discount: the root estimate is 4, the 2-step maximum 2 *)
Theorem value_in_range_mcts_refuted : exists A term disc R iters s h tr g' a tr' sts,
  0 < A /\ (0 <= R)%Q /\ (0 <= disc)%Q /\ trace_ok A tr /\ rewards_in R tr /\
  mcts_op (fun _ => A) term disc rl_orig iters node0 (MFresh s h) tr = (g', a, tr', sts) /\
  ~ tree_all_d (value_in R disc h) 0 g'.
Proof. exact mcts_range_refuted_lemma. Qed.
Print Assumptions value_in_range_mcts_refuted.

(* ------------------------------------------------------------------ POMCP ----------------- *)

Theorem tree_counts_invariant_pomcp : forall A term disc rl iters ps0 h0 tr0 ops,
  0 < A -> trace_ok A tr0 -> Forall (fun p => trace_ok A (snd p)) ops ->
  counts_ok (pomcp_session A term disc rl iters node0 ((PFresh ps0 h0, tr0) :: ops)).
Proof. exact pomcp_counts_lemma. Qed.
Print Assumptions tree_counts_invariant_pomcp.

Theorem value_is_mean_pomcp : forall A term disc rl iters ps0 h0 tr0 ops,
  0 < A -> trace_ok A tr0 -> Forall (fun p => trace_ok A (snd p)) ops ->
  mean_ok (pomcp_session A term disc rl iters node0 ((PFresh ps0 h0, tr0) :: ops)).
Proof. exact pomcp_mean_lemma. Qed.
Print Assumptions value_is_mean_pomcp.

Theorem return_is_discounted_sum_pomcp : forall A term disc rl fuel h d b s tr b' ret tr' st,
  pomcp_simulate A term disc rl (S fuel) h d b s tr = (b', ret, tr', st) ->
  st <= length tr -> ea (fst (next tr)) < length (acts b) ->
  (ret == disc_sum disc (map er (firstn st tr)))%Q /\ tr' = skipn st tr /\
  rets (nth (ea (fst (next tr))) (acts b') act0) = rets (nth (ea (fst (next tr))) (acts b) act0) ++ [ret].
Proof. exact pomcp_return_lemma. Qed.
Print Assumptions return_is_discounted_sum_pomcp.

Theorem depth_le_horizon_pomcp : forall A term disc iters g op tr g' a tr' sts,
  pomcp_op A term disc rl_fixed iters g op tr = (g', a, tr', sts) ->
  Forall (fun st => st <= pop_h op) sts.
Proof. exact pomcp_depth_lemma. Qed.
Print Assumptions depth_le_horizon_pomcp.

(* /repo today: horizon 1, one simulation, 3 model calls (rollout from a new leaf at the horizon). *)
Theorem depth_le_horizon_pomcp_refuted : exists A term disc iters ps h tr g' a tr' sts,
  0 < A /\ trace_ok A tr /\
  pomcp_op A term disc rl_orig iters node0 (PFresh ps h) tr = (g', a, tr', sts) /\
  ~ Forall (fun st => st <= h) sts.
Proof. exact pomcp_depth_refuted_lemma. Qed.
Print Assumptions depth_le_horizon_pomcp_refuted.

Theorem action_valid_pomcp : forall A term disc rl iters g op tr g' a tr' sts,
  0 < A -> trace_ok A tr -> counts_ok g /\ mean_ok g /\ shape_ok A g ->
  pomcp_op A term disc rl iters g op tr = (g', a, tr', sts) ->
  a < A /\ length (acts g') = A.
Proof. exact pomcp_action_lemma. Qed.
Print Assumptions action_valid_pomcp.

Theorem fuel_irrelevant_pomcp : forall A term disc rl f1 f2 h d b s tr,
  d < h -> h - d <= f1 -> h - d <= f2 ->
  pomcp_simulate A term disc rl f1 h d b s tr = pomcp_simulate A term disc rl f2 h d b s tr.
Proof. exact pomcp_fuel_irrelevant. Qed.
Print Assumptions fuel_irrelevant_pomcp.

(* sampleAction(a, o, h): continues from exactly the stored subtree, or restarts with the freshly
   sampled particles when o was never observed under a (or the stored belief is empty). *)
Theorem promotion_keeps_subtree_pomcp : forall A term disc rl iters g a o h ps tr,
  (forall c, find_kid o (kids (nth a (acts g) act0)) = Some c -> bel c <> [] ->
     In (o, c) (kids (nth a (acts g) act0)) /\
     pomcp_advance A term disc rl iters g a o h ps tr = pomcp_runSimulation A term disc rl iters h (allocate A c) tr /\
     fst (fst (fst (pomcp_advance A term disc rl 0 g a o h ps tr))) = allocate A c) /\
  (find_kid o (kids (nth a (acts g) act0)) = None ->
     pomcp_advance A term disc rl iters g a o h ps tr = pomcp_fresh A term disc rl iters ps h tr).
Proof. exact pomcp_promotion_lemma. Qed.
Print Assumptions promotion_keeps_subtree_pomcp.


Theorem value_in_range_pomcp : forall A term disc R iters g hp op tr g' a tr' sts,
  0 < A -> (0 <= R)%Q -> (0 <= disc)%Q -> trace_ok A tr -> rewards_in R tr ->
  counts_ok g /\ mean_ok g /\ shape_ok A g ->
  tree_all_d (rets_in R disc hp) 0 g -> hp <= pop_h op + 1 ->
  pomcp_op A term disc rl_fixed iters g op tr = (g', a, tr', sts) ->
  tree_all_d (rets_in R disc (pop_h op)) 0 g' /\ tree_all_d (value_in R disc (pop_h op)) 0 g'.
Proof. exact pomcp_range_lemma. Qed.
Print Assumptions value_in_range_pomcp.

Theorem value_in_range_pomcp_refuted : exists A term disc R iters ps h tr g' a tr' sts,
  0 < A /\ (0 <= R)%Q /\ (0 <= disc)%Q /\ trace_ok A tr /\ rewards_in R tr /\
  pomcp_op A term disc rl_orig iters node0 (PFresh ps h) tr = (g', a, tr', sts) /\
  ~ tree_all_d (value_in R disc h) 0 g'.
Proof. exact pomcp_range_refuted_lemma. Qed.
Print Assumptions value_in_range_pomcp_refuted.

(* Particle beliefs: after any history, every particle stored in the node reached from its parent by
   (action i, observation o) is the next state of some logged sampleSOR call made with action i that
   returned observation o (pool = all calls logged during the history).  The chaining "from a state
   of the parent's belief" is checked on the real code by the driver (log continuity + root particle
   in the root belief), not proved here. *)
Theorem particles_consistent_pomcp : forall A term disc rl iters ps0 h0 tr0 ops,
  0 < A -> trace_ok A tr0 -> Forall (fun p => trace_ok A (snd p)) ops ->
  particles_ok (tr0 ++ concat (map snd ops))
               (pomcp_session A term disc rl iters node0 ((PFresh ps0 h0, tr0) :: ops)).
Proof. exact pomcp_particles_lemma. Qed.
Print Assumptions particles_consistent_pomcp.

(* FULL statement of particle consistency.  On a coherent log (every call made inside the tree was
   logged with the state the planner was carrying, every simulation starts from a root particle:
   [pomcp_coh_session], a boolean function of (history, logs) that the driver evaluates on every real
   log) every particle p of the node reached from its parent by (action i, observation o) is the next
   state of a logged call sampleSOR(q, i) = (p, o, _) with q a particle of the PARENT's belief; by
   induction along the path every particle is reachable from a root particle under exactly the node's
   (action, observation) history.  What is not proved: that the initial particles of a call from
   scratch lie in the support of the given belief (makeSampledBelief / sampleProbability are inputs of
   the machine; checked by the oracle), and nothing is claimed about an incoherent log. *)
Theorem particles_consistent_full_pomcp : forall A term disc rl iters ps0 h0 tr0 ops,
  0 < A -> trace_ok A tr0 -> Forall (fun p => trace_ok A (snd p)) ops ->
  pomcp_coh_session A term disc rl iters node0 ((PFresh ps0 h0, tr0) :: ops) = true ->
  particles_full (tr0 ++ concat (map snd ops))
                 (pomcp_session A term disc rl iters node0 ((PFresh ps0 h0, tr0) :: ops)).
Proof. exact pomcp_particles_full_lemma. Qed.
Print Assumptions particles_consistent_full_pomcp.

(* ------------------------------------------------------------------ rPOMCP ---------------- *)
(* Both UseEntropy variants; [plogp] (p*log p of the entropy variant) is an arbitrary function.
   rPOMCP's counting rule, exactly as the code has it: a belief node is visited either by simulate
   (b.N++ and one aNode.N += 1) or as a leaf (N += 1 only), and every aNode.N += 1 goes with exactly
   one visit of one observation child.  [rleaf] is the ghost count of leaf visits. *)
Theorem tree_counts_invariant_rpomcp : forall A term disc k entropy plogp iters sb0 h0 tr0 ops,
  0 < A -> trace_ok A tr0 -> Forall (fun p => trace_ok A (snd p)) ops ->
  let g := r_session A term disc k entropy plogp iters rnode0 ((RFresh sb0 h0, tr0) :: ops) in
  rcounts_ok g /\ rmean_ok g /\ rshape_ok A g /\ rpart_ok g.
Proof. exact r_session_lemma. Qed.
Print Assumptions tree_counts_invariant_rpomcp.

(* the root rule: after a call from scratch the root was never a leaf, so N = sum of its actions' N *)
Theorem root_counts_fresh_rpomcp : forall A term disc k entropy plogp iters sb h tr sb' g' a tr' sts,
  0 < A -> trace_ok A tr ->
  r_fresh A term disc k entropy plogp iters sb h tr = (sb', (g', a, tr', sts)) ->
  rN g' = sumn (map raN (racts g')) /\ sb' = sb.
Proof. exact r_fresh_root_lemma. Qed.
Print Assumptions root_counts_fresh_rpomcp.

(* no simulation makes more than `horizon` model calls (no hypothesis at all) *)
Theorem depth_le_horizon_rpomcp : forall A term disc k entropy plogp iters g op tr sb' g' a tr' sts,
  r_op A term disc k entropy plogp iters g op tr = (sb', (g', a, tr', sts)) ->
  Forall (fun st => st <= rop_h op) sts.
Proof. exact r_depth_lemma. Qed.
Print Assumptions depth_le_horizon_rpomcp.

(* one call keeps the tree consistent, returns an existing action, keeps A action nodes at the root *)
Theorem action_valid_rpomcp : forall A term disc k entropy plogp iters g op tr sb' g' a tr' sts,
  0 < A -> trace_ok A tr -> rcounts_ok g /\ rmean_ok g /\ rshape_ok A g /\ rpart_ok g ->
  r_op A term disc k entropy plogp iters g op tr = (sb', (g', a, tr', sts)) ->
  a < A /\ length (racts g') = A /\ (rcounts_ok g' /\ rmean_ok g' /\ rshape_ok A g' /\ rpart_ok g').
Proof. exact r_action_lemma. Qed.
Print Assumptions action_valid_rpomcp.

(* sampleAction(a, o, h): continues from exactly the stored node — same N, V, children (resized to A),
   its tracking belief (every entry, also zero counts) becoming the sampling belief and being cleared —
   or equals a call from scratch when o was never observed under a. *)
Theorem promotion_keeps_subtree_rpomcp : forall A term disc k entropy plogp iters g a o h sb tr,
  (forall c, rfind_kid o (rkids (nth a (racts g) ract0)) = Some c -> rtrack c <> [] ->
     In (o, c) (rkids (nth a (racts g) ract0)) /\
     r_advance A term disc k entropy plogp iters g a o h sb tr =
       (map (fun p => (fst p, fst (snd p))) (rtrack c),
        r_runSimulation A term disc k entropy plogp iters h (snd (r_promote A c)) tr) /\
     rN (snd (r_promote A c)) = rN c /\ rtrack (snd (r_promote A c)) = [] /\
     racts (snd (r_promote A c)) = rresize A (racts c)) /\
  (rfind_kid o (rkids (nth a (racts g) ract0)) = None ->
     r_advance A term disc k entropy plogp iters g a o h sb tr = r_fresh A term disc k entropy plogp iters sb h tr).
Proof. exact r_promotion_lemma. Qed.
Print Assumptions promotion_keeps_subtree_rpomcp.

(* particles: after any history, every state with a POSITIVE count in the tracking belief of the node
   reached by (action i, observation o) was the next state of a logged call with that action and
   observation … *)
Theorem particles_consistent_rpomcp : forall A term disc k entropy plogp iters sb0 h0 tr0 ops,
  0 < A -> trace_ok A tr0 -> Forall (fun p => trace_ok A (snd p)) ops ->
  rsampled_ok (tr0 ++ concat (map snd ops))
              (r_session A term disc k entropy plogp iters rnode0 ((RFresh sb0 h0, tr0) :: ops)).
Proof. exact r_particles_lemma. Qed.
Print Assumptions particles_consistent_rpomcp.

(* … and the sampling belief a promoted root starts with has positive counts only on such states
   (zero-count entries — the max-of-belief variant's trackBelief_[maxS_] phantom — may be present:
   sampleBelief() must never return them). *)
Theorem promoted_belief_consistent_rpomcp : forall A term disc k entropy plogp pool iters g op tr sb' g' a tr' sts,
  0 < A -> trace_ok A tr -> incl tr pool ->
  rcounts_ok g /\ rmean_ok g /\ rshape_ok A g /\ rpart_ok g -> rsampled_ok pool g ->
  r_op A term disc k entropy plogp iters g op tr = (sb', (g', a, tr', sts)) ->
  rsampled_ok pool g' /\
  match op with
  | RFresh sb _ => sb' = sb
  | RAdvance a0 o _ sb => sb' = sb \/ (forall s cnt, In (s, cnt) sb' -> 0 < cnt -> sampled_by pool a0 o s)
  end.
Proof. exact r_promoted_belief_lemma. Qed.
Print Assumptions promoted_belief_consistent_rpomcp.

(* ---------------- rPOMCP, round 3 ---------------- *)

(* FULL particle consistency for rPOMCP, one call at a time (compose along a history): from a state
   (sampling belief sb0, tree g) in which every particle of every node has a predecessor in the belief
   its parent simulates from (the positive part of the sampling belief for the root, of the tracking
   belief otherwise) under exactly the node's (action, observation), a call on a COHERENT log
   ([r_coh_op], evaluated by the driver on every real log) ends in such a state again; the initial state
   (any sb0, rnode0) satisfies it vacuously.  Not proved: that the particles drawn for a call from scratch
   lie in the support of the given belief (inputs of the machine; oracle). *)
Theorem particles_consistent_full_rpomcp : forall A term disc k entropy plogp pool iters sb0 g op tr sb' g' a tr' sts,
  0 < A -> r_coh_op A term disc k entropy plogp iters g op tr = true ->
  trace_ok A tr -> incl tr pool ->
  rcounts_ok g /\ rmean_ok g /\ rshape_ok A g /\ rpart_ok g -> rfull pool (sbpos sb0) g ->
  r_op A term disc k entropy plogp iters g op tr = (sb', (g', a, tr', sts)) ->
  rfull pool (sbpos sb') g'.
Proof. exact r_particles_full_lemma. Qed.
Print Assumptions particles_consistent_full_rpomcp.

(* Value range.  INTENDED statement (value_in_range_rpomcp): in the max-of-belief variant every data
   reward is a knowledge measure in [0,1], so every visited action's value at depth d lies in
   [0, sum_{k<h-d} disc^k].  It is REFUTED on the faithful machine and on the real code (known finding):
   the value a node hands to its parent, (N-1)*(V-oldV)+V, presumes that the parent averaged N-1 data
   points equal to oldV, but visits of the node as a leaf contributed 0 and are counted in N. *)
Theorem value_in_range_rpomcp_refuted : exists A term disc k iters sb h tr sb' g' a tr' sts,
  0 < A /\ trace_ok A tr /\
  r_op A term disc k false (fun _ _ => 0%Q) iters rnode0 (RFresh sb h) tr = (sb', (g', a, tr', sts)) /\
  tr' = [] /\ exists x, In x (racts g') /\ 0 < raN x /\ (raV x < 0)%Q.
Proof. exact r_range_refuted_lemma. Qed.
Print Assumptions value_in_range_rpomcp_refuted.

(* What does hold (partial): the leaf data points.  Max-of-belief: the knowledge measure written by
   updateBeliefAndKnowledge on a node holding one particle per visit (rpart_ok, proved for every
   history) lies in [0,1].  (Entropy variant: the measure is a sum of the abstract plogp terms; no bound
   is proved.) *)
Theorem value_in_range_rpomcp_partial : forall plogp n s, tcount (rtrack n) = rN n ->
  (0 <= rkm (r_update false plogp n s))%Q /\ (rkm (r_update false plogp n s) <= 1)%Q.
Proof. exact r_update_km_unit. Qed.
Print Assumptions value_in_range_rpomcp_partial.

(* bestAction / actionsV consistency.  INTENDED invariant: after any history, every non-root belief node
   with N >= k has actionsV = max_a children[a].V and bestAction attains it ([maxcons]).
   Proved (partial): below the root, the simulate visit that makes N == k ESTABLISHES maxcons (forced
   rescan) and every later simulate visit PRESERVES it — for every k, variant and trace … *)
Theorem best_action_consistent_rpomcp_partial : forall A term disc k entropy plogp fuel h d b s tr b' ret tr' st,
  r_simulate A term disc k entropy plogp (S fuel) h d b s tr = (b', ret, tr', st) -> d <> 0 -> k <= S (rN b) ->
  ea (fst (next tr)) < length (racts b) ->
  S (rN b) = k \/ maxcons b ->
  maxcons b'.
Proof. exact r_simulate_maxcons. Qed.
Print Assumptions best_action_consistent_rpomcp_partial.

(* … but the unconditional invariant is REFUTED: when the visit that makes N == k is a LEAF visit
   (terminal s1: N += 1 without simulate) the forced rescan never happens and the max mode runs on the
   stale mean-mode actionsV (k = 3: N = 4, actionsV = -1/2, bestAction = 0, values (-1, -1)). *)
Theorem best_action_consistent_rpomcp_refuted : exists A term disc k entropy plogp iters sb h tr g' c,
  trace_ok A tr /\
  fst (fst (fst (snd (r_op A term disc k entropy plogp iters rnode0 (RFresh sb h) tr)))) = g' /\
  In (0, c) (rkids (nth 0 (racts g') ract0)) /\ k <= rN c /\ ~ maxcons c.
Proof. exact r_maxcons_refuted_lemma. Qed.
Print Assumptions best_action_consistent_rpomcp_refuted.

(* the boolean checkers the driver runs on the implementation's outputs are sound *)
Theorem counts_checker_sound : forall n, counts_okb n = true -> counts_ok n.
Proof. exact counts_okb_sound. Qed.
Print Assumptions counts_checker_sound.

Theorem steps_checker_sound : forall h sts, steps_okb h sts = true -> Forall (fun st => st <= h) sts.
Proof. exact steps_okb_sound. Qed.
Print Assumptions steps_checker_sound.

(* ------------------------------------------------------------------ examples -------------- *)

(* the hypotheses are satisfiable on a history that builds a depth-2 tree and then promotes it *)
Example ex_mcts_history :
  let e a s1 r := Ev 0 a s1 0 r in
  let tr0 := [e 0 1 1%Q; e 1 0 2%Q; e 0 1 (-1)%Q; e 0 1 1%Q; e 1 0 (3#2)%Q; e 1 1 0%Q] in
  let tr1 := [e 1 0 1%Q; e 0 0 1%Q; e 1 0 1%Q] in
  let g := mcts_session (fun _ => 2) (fun s => Nat.eqb s 3) (1#2) rl_fixed 3 node0
                        [(MFresh 0 2, tr0); (MAdvance 0 1 1, tr1)] in
  trace_ok 2 tr0 /\ trace_ok 2 tr1 /\ nN g = 4 /\ map aN (acts g) = [2; 2].
Proof. cbv zeta. repeat split; try (repeat constructor; fail); vm_compute; reflexivity. Qed.

Example ex_pomcp_history :
  let e s a s1 o r := Ev s a s1 o r in
  let tr0 := [e 0 0 1 1 1%Q; e 1 1 0 0 2%Q; e 0 0 1 1 (-1)%Q; e 1 0 0 1 1%Q; e 1 0 0 1 1%Q; e 0 1 1 0 0%Q] in
  let tr1 := [e 1 0 0 0 1%Q; e 0 1 1 1 1%Q; e 0 0 0 0 2%Q; e 0 0 0 0 1%Q; e 1 1 1 1 0%Q; e 1 0 1 0 0%Q] in
  let g := pomcp_session 2 (fun s => Nat.eqb s 3) (1#2) rl_fixed 3 node0
                         [(PFresh [0; 1] 3, tr0); (PAdvance 0 1 2 [0], tr1)] in
  trace_ok 2 tr0 /\ trace_ok 2 tr1 /\ bel g = [1; 0] /\ nN g = 4.
Proof. cbv zeta. repeat split; try (repeat constructor; fail); vm_compute; reflexivity. Qed.

(* the value-range hypotheses are satisfiable: a call from scratch (node0 is in range for any hp) *)
Example ex_range_hyps :
  let tr := [Ev 0 0 1 0 1%Q; Ev 1 1 0 0 (-2)%Q] in
  (0 <= 2)%Q /\ (0 <= 1#2)%Q /\ trace_ok 2 tr /\ rewards_in 2 tr /\
  (counts_ok node0 /\ mean_ok node0 /\ shape_ok 2 node0) /\ tree_all_d (rets_in 2 (1#2) 0) 0 node0.
Proof.
  cbv zeta. split; [discriminate|]. split; [discriminate|]. split; [repeat constructor|].
  split; [repeat constructor; discriminate|].
  split; [apply (good_split 2 node0 (good_node0 2))|].
  constructor; [constructor | intros a k c []].
Qed.

(* rPOMCP: a history that revisits an observation node, reaches the horizon and promotes *)
Example ex_rpomcp_history :
  let e s a s1 o := Ev s a s1 o 0%Q in
  let tr0 := [e 1 0 2 0; e 1 0 2 0; e 2 1 1 1; e 1 1 1 1; e 1 0 2 0; e 2 1 1 1] in
  let tr1 := [e 2 0 1 0; e 2 1 1 1; e 2 0 1 0; e 2 0 2 1] in
  let g := r_session 2 (fun s => Nat.eqb s 3) (1#2) 2 false (fun _ _ => 0%Q) 4 rnode0
                     [(RFresh [(1, 3)] 2, tr0); (RAdvance 0 0 1 [], tr1)] in
  trace_ok 2 tr0 /\ trace_ok 2 tr1 /\ rN g = 7.
Proof. cbv zeta. split; [repeat constructor|]. split; [repeat constructor|]. vm_compute. reflexivity. Qed.

Example ex_pomcp_coherent :
  let e s a s1 o r := Ev s a s1 o r in
  let tr0 := [e 0 0 1 1 1%Q; e 1 1 0 0 2%Q; e 0 0 1 1 (-1)%Q; e 1 0 0 1 1%Q; e 0 0 0 1 1%Q; e 0 1 1 0 0%Q] in
  trace_ok 2 tr0 /\
  pomcp_coh_session 2 (fun s => Nat.eqb s 3) (1#2) rl_fixed 2 node0 [(PFresh [0; 1] 3, tr0)] = true.
Proof. cbv zeta. split; [|vm_compute; reflexivity]. unfold trace_ok. repeat (apply Forall_cons; [cbn; lia|]). apply Forall_nil. Qed.

(* ------------------------------------------------- round 6: the discount may change between calls ---- *)
(* The planners never cache the discount: MCTS::simulate, POMCP::simulate, MDP::rollout and
   rPOMCP::simulate evaluate model_.getDiscount() when they use it, and the model is held by const
   reference, so a setDiscount on the model between two sampleAction calls is legal.  A history therefore
   carries one discount PER CALL ([mcts_session_d] / [pomcp_session_d], C19/ProofsDisc.v); within a call
   every in-tree backup and every rollout step uses that call's discount (return_is_discounted_sum_*, which
   is stated per simulation for an arbitrary [disc]).  The rPOMCP theorems action_valid_rpomcp /
   particles_consistent_full_rpomcp are already per call in [disc]. *)
From AIT Require Import C19.ProofsDisc.

Theorem tree_consistent_anydisc_mcts : forall A term rl iters d0 s0 h0 tr0 ops,
  0 < A -> trace_ok A tr0 -> Forall (fun p => trace_ok A (snd p)) ops ->
  let g := mcts_session_d (fun _ => A) term rl iters node0 ((d0, MFresh s0 h0, tr0) :: ops) in
  counts_ok g /\ mean_ok g /\ shape_ok A g.
Proof. exact mcts_anydisc_lemma. Qed.
Print Assumptions tree_consistent_anydisc_mcts.

Theorem tree_consistent_anydisc_pomcp : forall A term rl iters d0 ps0 h0 tr0 ops,
  0 < A -> trace_ok A tr0 -> Forall (fun p => trace_ok A (snd p)) ops ->
  let g := pomcp_session_d A term rl iters node0 ((d0, PFresh ps0 h0, tr0) :: ops) in
  counts_ok g /\ mean_ok g /\ shape_ok A g.
Proof. exact pomcp_anydisc_lemma. Qed.
Print Assumptions tree_consistent_anydisc_pomcp.

(* a history whose discount is lowered from 1 to 1/4 between the two calls *)
Example ex_pomcp_history_anydisc :
  let e s a s1 o r := Ev s a s1 o r in
  let tr0 := [e 0 0 1 1 1%Q; e 1 1 0 0 2%Q; e 0 0 1 1 (-1)%Q; e 1 0 0 1 1%Q] in
  let tr1 := [e 1 1 0 0 4%Q; e 0 0 1 1 4%Q] in
  let g := pomcp_session_d 2 (fun s => Nat.eqb s 3) rl_fixed 2 node0
             [(1%Q, PFresh [0; 1] 2, tr0); ((1#4)%Q, PAdvance 0 1 2 [0], tr1)] in
  trace_ok 2 tr0 /\ trace_ok 2 tr1 /\ nN g = 3.
Proof. cbv zeta. split; [unfold trace_ok; repeat (apply Forall_cons; [cbn; lia|]); apply Forall_nil|].
  split; [unfold trace_ok; repeat (apply Forall_cons; [cbn; lia|]); apply Forall_nil|]. vm_compute. reflexivity. Qed.
