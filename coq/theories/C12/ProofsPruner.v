(* C12/ProofsPruner.v — lemmas about lswap / extractBestBy / extractBestAtSimplexCorners / Pruner
   of C12/Model.v *)
From Coq Require Import List Arith QArith Qminmax Lqa Lia Bool Permutation.
From AIT Require Import Base.Qx Base.Mdp C12.Model C12.Spec C12.Proofs.
Import ListNotations.
Local Open Scope Q_scope.

Section PrunerProofs.
  Variable A : Type.
  Variable proj : A -> vec.
  Variable findWitness : list vec -> vec -> option vec.
  Variable dom : A -> A -> bool.

  (* ---------------------------------------------------------------- set_nth / lswap *)
  Lemma set_nth_length : forall (l : list A) i x, length (set_nth i x l) = length l.
  Proof.
    induction l as [|y t IH]; intros [|i] x; cbn [set_nth length]; try reflexivity.
    rewrite IH; reflexivity.
  Qed.

  Lemma set_nth_perm : forall (t : list A) k x b, nth_error t k = Some b ->
    Permutation (b :: set_nth k x t) (x :: t).
  Proof.
    induction t as [|y t IH]; intros [|k] x b H; cbn [nth_error set_nth] in *; try discriminate.
    - inversion H; subst. apply perm_swap.
    - specialize (IH k x b H).
      transitivity (y :: b :: set_nth k x t); [apply perm_swap|].
      transitivity (y :: x :: t); [apply perm_skip; exact IH| apply perm_swap].
  Qed.

  Lemma nth_error_set_nth_same : forall (l : list A) j x, (j < length l)%nat ->
    nth_error (set_nth j x l) j = Some x.
  Proof.
    induction l as [|y t IH]; intros [|j] x H; cbn [length] in H; try lia; cbn [set_nth nth_error].
    - reflexivity.
    - apply IH. lia.
  Qed.

  Lemma nth_error_set_nth_other : forall (l : list A) i j x, i <> j ->
    nth_error (set_nth j x l) i = nth_error l i.
  Proof.
    induction l as [|y t IH]; intros [|i] [|j] x H; cbn [set_nth nth_error]; try reflexivity; try congruence.
    apply IH. congruence.
  Qed.

  Lemma firstn_set_nth : forall (l : list A) k i x, (k <= i)%nat ->
    firstn k (set_nth i x l) = firstn k l.
  Proof.
    induction l as [|y t IH]; intros [|k] [|i] x H; cbn [firstn set_nth]; try reflexivity; try lia.
    f_equal. apply IH. lia.
  Qed.

  Lemma nth_error_In_firstn : forall (l : list A) k m a, nth_error l k = Some a -> (k < m)%nat ->
    In a (firstn m l).
  Proof.
    induction l as [|y t IH]; intros [|k] [|m] a H Hlt; cbn [nth_error firstn] in *;
      try discriminate; try lia.
    - inversion H; subst. left; reflexivity.
    - right. apply (IH k); [exact H| lia].
  Qed.

  Lemma lswap_perm : forall i j (l : list A), Permutation (lswap i j l) l.
  Proof.
    intros i j l. unfold lswap. destruct (nth_error l i) as [a|] eqn:Ei; [|reflexivity].
    destruct (nth_error l j) as [b|] eqn:Ej; [|reflexivity].
    apply (Permutation_cons_inv (a := a)).
    assert (H1 : nth_error (set_nth j a l) i = Some a).
    { destruct (Nat.eq_dec i j) as [->|Hne].
      - apply nth_error_set_nth_same. apply nth_error_Some. congruence.
      - rewrite nth_error_set_nth_other by exact Hne. exact Ei. }
    rewrite (set_nth_perm _ _ b _ H1). rewrite (set_nth_perm _ _ a _ Ej). reflexivity.
  Qed.

  Lemma lswap_length : forall i j (l : list A), length (lswap i j l) = length l.
  Proof. intros i j l. apply Permutation_length. apply lswap_perm. Qed.

  Lemma lswap_nth : forall i j (l : list A) a b, nth_error l i = Some a -> nth_error l j = Some b ->
    nth_error (lswap i j l) j = Some a.
  Proof.
    intros i j l a b Ei Ej. unfold lswap. rewrite Ei, Ej.
    assert (Hj : (j < length l)%nat) by (apply nth_error_Some; congruence).
    destruct (Nat.eq_dec i j) as [->|Hne].
    - assert (a = b) by congruence. subst b.
      apply nth_error_set_nth_same. rewrite set_nth_length. exact Hj.
    - rewrite nth_error_set_nth_other by congruence.
      apply nth_error_set_nth_same. exact Hj.
  Qed.

  Lemma lswap_prefix : forall i j k (l : list A), (k <= i)%nat -> (k <= j)%nat ->
    firstn k (lswap i j l) = firstn k l.
  Proof.
    intros i j k l Hi Hj. unfold lswap. destruct (nth_error l i) as [a|]; [|reflexivity].
    destruct (nth_error l j) as [b|]; [|reflexivity].
    rewrite firstn_set_nth by exact Hi. apply firstn_set_nth. exact Hj.
  Qed.

  (* ---------------------------------------------------------------- extractBestBy *)
  Lemma extractBestBy_perm : forall score l k, Permutation (fst (extractBestBy proj score l k)) l.
  Proof.
    intros score l k. unfold extractBestBy.
    destruct (findBestBy proj score l) as [[[j a] v]|]; [|reflexivity].
    destruct (k <=? j)%nat; cbn [fst]; [apply lswap_perm| reflexivity].
  Qed.

  Lemma extractBestBy_length : forall score l k, length (fst (extractBestBy proj score l k)) = length l.
  Proof. intros score l k. apply Permutation_length. apply extractBestBy_perm. Qed.

  Lemma extractBestBy_bound : forall score l k,
    (k <= snd (extractBestBy proj score l k) <= S k)%nat.
  Proof.
    intros score l k. unfold extractBestBy.
    destruct (findBestBy proj score l) as [[[j a] v]|]; [|cbn [snd]; lia].
    destruct (k <=? j)%nat; cbn [snd]; lia.
  Qed.

  Lemma extractBestBy_snd_le : forall score l k, (k <= length l)%nat ->
    (snd (extractBestBy proj score l k) <= length l)%nat.
  Proof.
    intros score l k Hk. unfold extractBestBy.
    destruct (findBestBy proj score l) as [[[j a] v]|] eqn:E; [|cbn [snd]; exact Hk].
    apply findBestBy_spec in E. destruct E as [Hn _].
    assert (Hj : (j < length l)%nat) by (apply nth_error_Some; congruence).
    destruct (Nat.leb_spec k j); cbn [snd]; lia.
  Qed.

  Lemma extractBestBy_prefix : forall score l k,
    firstn k (fst (extractBestBy proj score l k)) = firstn k l.
  Proof.
    intros score l k. unfold extractBestBy.
    destruct (findBestBy proj score l) as [[[j a] v]|]; [|reflexivity].
    destruct (Nat.leb_spec k j) as [Hle|Hlt]; cbn [fst]; [|reflexivity].
    apply lswap_prefix; [exact Hle| apply Nat.le_refl].
  Qed.

  Lemma extractBestBy_attains : forall (score : A -> Q) l k, l <> [] -> (k <= length l)%nat ->
    let '(l', k') := extractBestBy proj score l k in
    exists a, In a (firstn k' l') /\ forall x, In x l -> score x <= score a.
  Proof.
    intros score l k Hne Hk.
    destruct (extractBestBy proj score l k) as [l' k'] eqn:E. unfold extractBestBy in E.
    destruct (findBestBy_some A proj score l Hne) as [[[j a] v] EF]. rewrite EF in E.
    apply findBestBy_spec in EF. destruct EF as [Hn [Ev Hub]].
    exists a. split.
    - destruct (Nat.leb_spec k j) as [Hle|Hlt]; inversion E; subst l' k'.
      + assert (Hj : (j < length l)%nat) by (apply nth_error_Some; congruence).
        destruct (nth_error l k) as [b|] eqn:Ek.
        * apply (nth_error_In_firstn _ k); [|lia]. apply (lswap_nth j k l a b Hn Ek).
        * apply nth_error_None in Ek. lia.
      + apply (nth_error_In_firstn _ j); [exact Hn| exact Hlt].
    - intros x Hx. specialize (Hub x Hx). lra.
  Qed.

  (* ---------------------------------------------------------------- extractBestAtSimplexCorners *)
  Definition ebsc_step (st : list A * nat) (s : nat) : list A * nat :=
    extractBestBy proj (scoreCorner proj s) (fst st) (snd st).

  Lemma ebsc_fold_perm : forall xs (st : list A * nat),
    Permutation (fst (fold_left ebsc_step xs st)) (fst st).
  Proof.
    induction xs as [|s xs IH]; intros st; cbn [fold_left]; [reflexivity|].
    rewrite IH. unfold ebsc_step. apply extractBestBy_perm.
  Qed.

  Lemma ebsc_fold_snd : forall xs (st : list A * nat), (snd st <= length (fst st))%nat ->
    (snd st <= snd (fold_left ebsc_step xs st) <= length (fst st))%nat.
  Proof.
    induction xs as [|s xs IH]; intros st Hst; cbn [fold_left]; [lia|].
    pose proof (extractBestBy_bound (scoreCorner proj s) (fst st) (snd st)) as Hb.
    pose proof (extractBestBy_snd_le (scoreCorner proj s) (fst st) (snd st) Hst) as Hs.
    pose proof (extractBestBy_length (scoreCorner proj s) (fst st) (snd st)) as Hl.
    specialize (IH (ebsc_step st s)). unfold ebsc_step in *.
    rewrite Hl in IH. specialize (IH Hs). lia.
  Qed.

  Lemma extractBestAtSimplexCorners_perm : forall ns l k,
    Permutation (fst (extractBestAtSimplexCorners proj ns l k)) l.
  Proof.
    intros ns l k. unfold extractBestAtSimplexCorners.
    destruct (length l =? k)%nat; [reflexivity|].
    apply (ebsc_fold_perm (seq 0 ns) (l, k)).
  Qed.

  Lemma extractBestAtSimplexCorners_le : forall ns l k, (k <= length l)%nat ->
    (snd (extractBestAtSimplexCorners proj ns l k) <= length l)%nat.
  Proof.
    intros ns l k Hk. unfold extractBestAtSimplexCorners.
    destruct (length l =? k)%nat; [cbn [snd]; exact Hk|].
    pose proof (ebsc_fold_snd (seq 0 ns) (l, k) Hk) as H. cbn [fst snd] in H.
    unfold ebsc_step in H. lia.
  Qed.

  Lemma extractBestAtSimplexCorners_pos : forall ns l, (0 < ns)%nat -> l <> [] ->
    (0 < snd (extractBestAtSimplexCorners proj ns l 0))%nat.
  Proof.
    intros ns l Hns Hne. unfold extractBestAtSimplexCorners.
    destruct l as [|x t]; [congruence|]. cbn [length Nat.eqb].
    destruct ns as [|ns]; [lia|]. cbn [seq fold_left fst snd].
    set (st0 := extractBestBy proj (scoreCorner proj 0) (x :: t) 0).
    assert (H0 : snd st0 = 1%nat).
    { subst st0. unfold extractBestBy. cbn [findBestBy].
      destruct (fb_go proj (scoreCorner proj 0) 0 x (scoreCorner proj 0 x) 1 t) as [[j a] v].
      cbn [Nat.leb snd]. reflexivity. }
    assert (Hst : (snd st0 <= length (fst st0))%nat).
    { subst st0. apply Nat.le_trans with (length (x :: t)).
      - apply extractBestBy_snd_le. lia.
      - rewrite extractBestBy_length. apply Nat.le_refl. }
    pose proof (ebsc_fold_snd (seq 1 ns) st0 Hst) as H. unfold ebsc_step in H. lia.
  Qed.

  (* ---------------------------------------------------------------- Pruner: permutation *)
  Lemma rev_cons_eq : forall (rest : list A) last initR, rev rest = last :: initR ->
    rest = rev initR ++ [last].
  Proof.
    intros rest last initR E. rewrite <- (rev_involutive rest), E. reflexivity.
  Qed.

  Lemma pruner_loop_perm : forall fuel kept rest removed k r,
    pruner_loop proj findWitness fuel kept rest removed = Some (k, r) ->
    Permutation (k ++ r) (kept ++ rest ++ removed).
  Proof.
    induction fuel as [|fuel IH]; intros kept rest removed k r H; cbn [pruner_loop] in H.
    - destruct rest; [|discriminate]. inversion H; subst. reflexivity.
    - destruct (rev rest) as [|last initR] eqn:E.
      + assert (rest = []) by (rewrite <- (rev_involutive rest), E; reflexivity). subst rest.
        inversion H; subst. reflexivity.
      + apply rev_cons_eq in E.
        destruct (findWitness (map proj kept) (proj last)) as [w|].
        * pose proof (extractBestBy_perm (scoreAt proj w) rest 0) as HP.
          unfold extractBestAtPoint in H.
          destruct (fst (extractBestBy proj (scoreAt proj w) rest 0)) as [|x rest']; [discriminate|].
          apply IH in H. rewrite H. rewrite <- HP. perm.
        * apply IH in H. rewrite H. rewrite E. rewrite <- Permutation_rev. perm.
  Qed.

  Theorem pruner_perm : forall ns l k r r0,
    pruner proj findWitness dom ns l = Some (k, r, r0) -> Permutation (k ++ r ++ r0) l.
  Proof.
    intros ns l k r r0 H. unfold pruner in H.
    pose proof (extractDominatedBy_perm A dom l) as HP.
    destruct (extractDominatedBy dom l) as [l1 rem0].
    destruct (length l1 <? 2)%nat.
    - inversion H; subst. cbn [app]. exact HP.
    - pose proof (extractBestAtSimplexCorners_perm ns l1 0) as HP2.
      destruct (extractBestAtSimplexCorners proj ns l1 0) as [l2 bound]. cbn [fst] in HP2.
      destruct (pruner_loop proj findWitness (length l2) (firstn bound l2) (skipn bound l2) [])
        as [[k' r']|] eqn:EL; [|discriminate].
      inversion H; subst k' r' rem0. apply pruner_loop_perm in EL.
      rewrite app_nil_r, firstn_skipn in EL.
      rewrite app_assoc. rewrite EL. rewrite HP2. exact HP.
  Qed.

  Corollary pruner_subset : forall ns l k r r0,
    pruner proj findWitness dom ns l = Some (k, r, r0) -> incl k l.
  Proof.
    intros ns l k r r0 H x Hx. apply pruner_perm in H.
    eapply Permutation_in; [exact H|]. apply in_app_iff; left; exact Hx.
  Qed.

  (* ---------------------------------------------------------------- Pruner: fuel suffices *)
  Lemma pruner_loop_terminates : forall fuel kept rest removed, (length rest <= fuel)%nat ->
    exists res, pruner_loop proj findWitness fuel kept rest removed = Some res.
  Proof.
    induction fuel as [|fuel IH]; intros kept rest removed Hl; cbn [pruner_loop].
    - destruct rest; [eexists; reflexivity| cbn [length] in Hl; lia].
    - destruct (rev rest) as [|last initR] eqn:E; [eexists; reflexivity|].
      apply rev_cons_eq in E.
      assert (Hlen : length rest = S (length initR)).
      { rewrite E, app_length, rev_length. cbn [length]. lia. }
      destruct (findWitness (map proj kept) (proj last)) as [w|].
      + pose proof (extractBestBy_length (scoreAt proj w) rest 0) as HP.
        unfold extractBestAtPoint.
        destruct (fst (extractBestBy proj (scoreAt proj w) rest 0)) as [|x rest'].
        * cbn [length] in HP. lia.
        * apply IH. cbn [length] in HP. lia.
      + apply IH. rewrite rev_length. lia.
  Qed.

  Theorem pruner_terminates : forall ns l, exists res, pruner proj findWitness dom ns l = Some res.
  Proof.
    intros ns l. unfold pruner.
    destruct (extractDominatedBy dom l) as [l1 rem0].
    destruct (length l1 <? 2)%nat; [eexists; reflexivity|].
    destruct (extractBestAtSimplexCorners proj ns l1 0) as [l2 bound].
    destruct (pruner_loop_terminates (length l2) (firstn bound l2) (skipn bound l2) []) as [[k r] E].
    - rewrite skipn_length. lia.
    - rewrite E. eexists; reflexivity.
  Qed.

  (* ---------------------------------------------------------------- Pruner: envelope *)
  Section Envelope.
    Variable n : nat.
    (* LP completeness: when the witness LP finds nothing, v is nowhere above the rows *)
    Hypothesis fw_complete : forall rows v, rows <> [] -> findWitness rows v = None ->
      forall b, simplex n b -> dot v b <= env rows b.

    Lemma map_neq_nil : forall (l : list A), l <> [] -> map proj l <> [].
    Proof. intros [|x t] H; [congruence| discriminate]. Qed.

    Lemma pruner_loop_env : forall fuel kept rest removed k r,
      pruner_loop proj findWitness fuel kept rest removed = Some (k, r) ->
      kept <> [] ->
      (forall x, In x removed -> forall b, simplex n b -> dot (proj x) b <= env (map proj kept) b) ->
      k <> [] /\
      (forall x, In x r -> forall b, simplex n b -> dot (proj x) b <= env (map proj k) b).
    Proof.
      induction fuel as [|fuel IH]; intros kept rest removed k r H Hk Hinv; cbn [pruner_loop] in H.
      - destruct rest; [|discriminate]. inversion H; subst. split; assumption.
      - destruct (rev rest) as [|last initR] eqn:E.
        + inversion H; subst. split; assumption.
        + destruct (findWitness (map proj kept) (proj last)) as [w|] eqn:EW.
          * destruct (fst (extractBestAtPoint proj w rest 0)) as [|x rest']; [discriminate|].
            apply IH in H; [exact H| |].
            -- intros Habs. apply app_eq_nil in Habs. destruct Habs as [_ Habs]. discriminate.
            -- intros y Hy b Hb. eapply Qle_trans; [apply Hinv; assumption|].
               apply env_mono_incl.
               ++ intros v Hv. rewrite map_app. apply in_app_iff; left; exact Hv.
               ++ apply map_neq_nil; exact Hk.
          * apply IH in H; [exact H| exact Hk|].
            intros y [<-|Hy] b Hb; [| apply Hinv; assumption].
            apply (fw_complete (map proj kept) (proj last)); [apply map_neq_nil; exact Hk| exact EW| exact Hb].
    Qed.

    Theorem pruner_envelope : forall ns l k r r0,
      pruner proj findWitness dom ns l = Some (k, r, r0) -> (0 < ns)%nat ->
      forall b, simplex n b ->
      env (map proj k) b == env (map proj (fst (extractDominatedBy dom l))) b.
    Proof.
      intros ns l k r r0 H Hns b Hb. unfold pruner in H.
      destruct (extractDominatedBy dom l) as [l1 rem0]. cbn [fst].
      destruct (Nat.ltb_spec (length l1) 2) as [Hlt|Hge].
      - inversion H; subst. reflexivity.
      - assert (Hne1 : l1 <> []) by (destruct l1; [cbn [length] in Hge; lia| discriminate]).
        pose proof (extractBestAtSimplexCorners_perm ns l1 0) as HP2.
        pose proof (extractBestAtSimplexCorners_pos ns l1 Hns Hne1) as Hpos.
        destruct (extractBestAtSimplexCorners proj ns l1 0) as [l2 bound]. cbn [fst snd] in *.
        destruct (pruner_loop proj findWitness (length l2) (firstn bound l2) (skipn bound l2) [])
          as [[k' r']|] eqn:EL; [|discriminate].
        inversion H; subst k' r' rem0.
        pose proof (pruner_loop_perm _ _ _ _ _ _ EL) as HP3.
        rewrite app_nil_r, firstn_skipn in HP3.
        apply pruner_loop_env in EL.
        + destruct EL as [Hkne Hr].
          assert (Hin : forall a, In a l1 <-> In a (k ++ r)).
          { intros a. split; intros Ha.
            - eapply Permutation_in; [apply Permutation_sym; exact HP3|].
              eapply Permutation_in; [apply Permutation_sym; exact HP2| exact Ha].
            - eapply Permutation_in; [exact HP2|]. eapply Permutation_in; [exact HP3| exact Ha]. }
          apply Qle_antisym.
          * apply env_mono_incl; [|apply map_neq_nil; exact Hkne].
            intros v Hv. apply in_map_iff in Hv. destruct Hv as [a [<- Ha]]. apply in_map.
            apply Hin. apply in_app_iff; left; exact Ha.
          * change (env (map proj l1) b) with (maxl (map (fun al => dot al b) (map proj l1))).
            apply maxl_le.
            -- rewrite map_map. destruct l1; [congruence| discriminate].
            -- intros y Hy. rewrite map_map in Hy. apply in_map_iff in Hy.
               destruct Hy as [a [<- Ha]]. apply Hin in Ha. apply in_app_iff in Ha.
               destruct Ha as [Ha|Ha].
               ++ unfold env, best. apply maxl_ub. rewrite map_map. apply in_map_iff.
                  exists a; split; [reflexivity| exact Ha].
               ++ apply Hr; assumption.
        + destruct bound as [|bd]; [lia|]. destruct l2 as [|x2 t2]; [|discriminate].
          apply Permutation_nil in HP2. congruence.
        + intros x [].
    Qed.
  End Envelope.
End PrunerProofs.
