(* C12/Proofs.v — lemmas about the pruning models of C12/Model.v *)
From Coq Require Import List Arith QArith Qminmax Lqa Lia Bool Permutation.
From AIT Require Import Base.Qx Base.Mdp C12.Model C12.Spec.
Local Open Scope Q_scope.
Import ListNotations.

(* ---- a small solver for permutation goals over ++ / :: with atomic blocks ---- *)
Ltac perm_norm := cbn [app]; repeat (rewrite <- app_assoc; cbn [app]).
Ltac split_elem A x R k :=
  match R with
  | x :: ?R2 => k (@nil A) R2
  | ?y :: ?R' => split_elem A x R' ltac:(fun R1 R2 => k (y :: R1) R2)
  | ?b ++ ?R' => split_elem A x R' ltac:(fun R1 R2 => k (b ++ R1) R2)
  end.
Ltac split_blk A B R k :=
  match R with
  | B ++ ?R2 => k (@nil A) R2
  | ?y :: ?R' => split_blk A B R' ltac:(fun R1 R2 => k (y :: R1) R2)
  | ?b ++ ?R' => split_blk A B R' ltac:(fun R1 R2 => k (b ++ R1) R2)
  end.
Lemma perm_move_blk : forall (A : Type) (B L R R1 R2 : list A),
  R = R1 ++ B ++ R2 -> Permutation L (R1 ++ R2) -> Permutation (B ++ L) R.
Proof.
  intros A B L R R1 R2 -> H. transitivity (B ++ R1 ++ R2).
  - apply Permutation_app_head; exact H.
  - apply Permutation_app_swap_app.
Qed.
Lemma perm_move_elem : forall (A : Type) (x : A) (L R R1 R2 : list A),
  R = R1 ++ x :: R2 -> Permutation L (R1 ++ R2) -> Permutation (x :: L) R.
Proof. intros A x L R R1 R2 -> H. apply Permutation_cons_app; exact H. Qed.
Ltac perm_step :=
  perm_norm;
  match goal with
  | |- Permutation [] [] => constructor
  | |- @Permutation ?A (?x :: ?L) ?R =>
      split_elem A x R ltac:(fun R1 R2 =>
        apply (perm_move_elem A x L R R1 R2); [perm_norm; reflexivity|])
  | |- @Permutation ?A (?B ++ ?L) ?R =>
      split_blk A B R ltac:(fun R1 R2 =>
        apply (perm_move_blk A B L R R1 R2); [perm_norm; reflexivity|])
  end.
Ltac perm :=
  match goal with
  | |- @Permutation ?A ?l1 ?l2 =>
      rewrite <- (app_nil_r l1); rewrite <- (app_nil_r l2); repeat perm_step
  end.


Lemma inj_S : forall n, inject_Z (Z.of_nat (S n)) == inject_Z (Z.of_nat n) + 1.
Proof. intros n. rewrite Nat2Z.inj_succ. unfold Z.succ. rewrite inject_Z_plus. reflexivity. Qed.
Lemma inj_nonneg : forall n, 0 <= inject_Z (Z.of_nat n).
Proof. intros n. change 0 with (inject_Z 0). rewrite <- Zle_Qle. lia. Qed.

Section GenericProofs.
  Variable A : Type.
  Variable dom : A -> A -> bool.

  Lemma swap_pop_perm : forall l : list A, Permutation (swap_pop l) l.
  Proof.
    intros l. unfold swap_pop. destruct (rev l) as [|z r] eqn:E;
      apply (f_equal (@rev A)) in E; rewrite rev_involutive in E; subst l.
    - constructor.
    - cbn [rev]. apply Permutation_cons_append.
  Qed.

  (* ---------------------------------------------------------------- permutation facts *)
  Lemma ed_scan_perm : forall uR pre tgt post removed,
    let '(pre', t', post', removed') := ed_scan dom uR pre tgt post removed in
    Permutation (uR ++ pre ++ tgt :: post ++ removed) (pre' ++ t' :: post' ++ removed').
  Proof.
    induction uR as [|x uR IH]; intros pre tgt post removed; cbn [ed_scan].
    - reflexivity.
    - destruct (dom x tgt).
      + specialize (IH [] x (pre ++ swap_pop post) (tgt :: removed)).
        destruct (ed_scan dom uR [] x (pre ++ swap_pop post) (tgt :: removed)) as [[[p t] po] r].
        etransitivity; [|exact IH]. rewrite swap_pop_perm. perm.
      + specialize (IH (x :: pre) tgt post removed).
        destruct (ed_scan dom uR (x :: pre) tgt post removed) as [[[p t] po] r].
        etransitivity; [|exact IH]. perm.
  Qed.

  Lemma ed_scan_removed_ext : forall uR pre tgt post removed,
    let '(pre', t', post', removed') := ed_scan dom uR pre tgt post removed in
    exists ex, removed' = ex ++ removed.
  Proof.
    induction uR as [|x uR IH]; intros pre tgt post removed; cbn [ed_scan].
    - exists []; reflexivity.
    - destruct (dom x tgt).
      + specialize (IH [] x (pre ++ swap_pop post) (tgt :: removed)).
        destruct (ed_scan dom uR [] x (pre ++ swap_pop post) (tgt :: removed)) as [[[p t] po] r].
        destruct IH as [ex ->]. exists (ex ++ [tgt]). rewrite <- app_assoc. reflexivity.
      + apply IH.
  Qed.

  Lemma ed_loop_perm : forall fuel kept midR removed,
    let '(k, m, r) := ed_loop dom fuel kept midR removed in
    Permutation (kept ++ midR ++ removed) (k ++ m ++ r).
  Proof.
    induction fuel as [|fuel IH]; intros kept midR removed; cbn [ed_loop]; [reflexivity|].
    destruct midR as [|tgt uR]; [reflexivity|].
    destruct (existsb (fun k => dom k tgt) kept).
    - specialize (IH kept uR (tgt :: removed)).
      destruct (ed_loop dom fuel kept uR (tgt :: removed)) as [[k m] r].
      etransitivity; [|exact IH]. perm.
    - pose proof (ed_scan_perm uR [] tgt [] removed) as Hs.
      destruct (ed_scan dom uR [] tgt [] removed) as [[[pre t] post] removed'].
      cbn [app] in Hs.
      set (mid' := match pre with [] => post | p0 :: pre1 => pre1 ++ p0 :: post end).
      specialize (IH (kept ++ [t]) (rev mid') removed').
      destruct (ed_loop dom fuel (kept ++ [t]) (rev mid') removed') as [[k m] r].
      etransitivity; [|exact IH]. rewrite <- Permutation_rev.
      transitivity (kept ++ (pre ++ t :: post ++ removed')).
      + apply Permutation_app_head. rewrite <- Hs. perm.
      + subst mid'. destruct pre; perm.
  Qed.

  Lemma ed_loop_mid_nil : forall fuel kept midR removed, (length midR <= fuel)%nat ->
    let '(k, m, r) := ed_loop dom fuel kept midR removed in m = [].
  Proof.
    induction fuel as [|fuel IH]; intros kept midR removed Hl; cbn [ed_loop].
    - destruct midR; [reflexivity| cbn in Hl; lia].
    - destruct midR as [|tgt uR]; [reflexivity|]. cbn [length] in Hl.
      destruct (existsb (fun k => dom k tgt) kept).
      + apply IH. lia.
      + pose proof (ed_scan_perm uR [] tgt [] removed) as Hs.
        pose proof (ed_scan_removed_ext uR [] tgt [] removed) as He.
        destruct (ed_scan dom uR [] tgt [] removed) as [[[pre t] post] removed'].
        destruct He as [ex ->]. apply Permutation_length in Hs.
        apply IH. rewrite rev_length.
        assert (length (match pre with [] => post | p0 :: pre1 => pre1 ++ p0 :: post end) = length pre + length post)%nat as ->.
        { destruct pre; [reflexivity|]. rewrite app_length. cbn [length]. lia. }
        cbn [app] in Hs. repeat (rewrite ?app_length in Hs; cbn [length] in Hs). lia.
  Qed.

  Theorem extractDominatedBy_perm : forall l,
    let '(kept, removed) := extractDominatedBy dom l in Permutation (kept ++ removed) l.
  Proof.
    intros l. unfold extractDominatedBy. destruct (length l <? 2)%nat.
    - rewrite app_nil_r. reflexivity.
    - pose proof (ed_loop_perm (length l) [] (rev l) []) as H.
      destruct (ed_loop dom (length l) [] (rev l) []) as [[k m] r].
      cbn [app] in H. rewrite app_nil_r in H. rewrite <- Permutation_rev in H.
      rewrite H. rewrite <- Permutation_rev. perm.
  Qed.

  Lemma extractDominatedBy_mid_nil : forall l, (2 <= length l)%nat ->
    exists k r, ed_loop dom (length l) [] (rev l) [] = (k, [], r) /\ extractDominatedBy dom l = (k, r).
  Proof.
    intros l Hl. unfold extractDominatedBy.
    destruct (Nat.ltb_spec (length l) 2) as [Hlt|Hge]; [lia|].
    pose proof (ed_loop_mid_nil (length l) [] (rev l) []) as H.
    destruct (ed_loop dom (length l) [] (rev l) []) as [[k m] r].
    rewrite H by (rewrite rev_length; lia). exists k, r. cbn [rev]. rewrite app_nil_r. split; reflexivity.
  Qed.

  (* ---------------------------------------------------------------- cover invariant *)
  Section Cover.
    Variable f : A -> Q.
    Variable delta : Q.
    Variable P : A -> Prop.
    Hypothesis Hdelta : 0 <= delta.
    Hypothesis Hdom : forall u v, P u -> P v -> dom u v = true -> f v <= f u + delta.

    Definition covered (L R : list A) : Prop :=
      Forall P (L ++ R) /\
      forall r, In r R -> exists u, In u L /\ f r <= f u + inject_Z (Z.of_nat (length R)) * delta.

    Lemma covered_perm : forall L L' R, Permutation L L' -> covered L R -> covered L' R.
    Proof.
      intros L L' R HP [HF HC]. split.
      - eapply Permutation_Forall; [|exact HF]. apply Permutation_app_tail; exact HP.
      - intros r Hr. destruct (HC r Hr) as [u [Hu Hle]].
        exists u; split; [eapply Permutation_in; eassumption| exact Hle].
    Qed.

    Lemma covered_remove : forall L L' R t u0, covered L R -> Permutation L (t :: L') ->
      In u0 L' -> dom u0 t = true -> covered L' (t :: R).
    Proof.
      intros L L' R t u0 [HF HC] HP Hu0 Hd.
      assert (HF' : Forall P (L' ++ t :: R)).
      { eapply Permutation_Forall; [|exact HF]. rewrite HP. perm. }
      split; [exact HF'|].
      rewrite Forall_forall in HF'.
      assert (Pu0 : P u0) by (apply HF'; apply in_app_iff; left; exact Hu0).
      assert (Pt : P t) by (apply HF'; apply in_elt).
      intros r Hr. cbn [length]. pose proof (inj_S (length R)) as ES.
      pose proof (inj_nonneg (length R)) as Hn. pose proof (Hdom _ _ Pu0 Pt Hd) as Ht.
      destruct Hr as [<-|Hr].
      - exists u0; split; [exact Hu0|]. nra.
      - destruct (HC r Hr) as [u [Hu Hle]].
        apply (Permutation_in _ HP) in Hu. destruct Hu as [<-|Hu].
        + exists u0; split; [exact Hu0|]. nra.
        + exists u; split; [exact Hu|]. nra.
    Qed.

    Lemma ed_scan_cov : forall kept uR pre tgt post removed,
      covered (kept ++ uR ++ pre ++ tgt :: post) removed ->
      let '(pre', t', post', removed') := ed_scan dom uR pre tgt post removed in
      covered (kept ++ pre' ++ t' :: post') removed'.
    Proof.
      intros kept. induction uR as [|x uR IH]; intros pre tgt post removed HC; cbn [ed_scan].
      - exact HC.
      - destruct (dom x tgt) eqn:Hd.
        + apply IH. eapply (covered_remove _ _ _ tgt x HC); [| |exact Hd].
          * rewrite swap_pop_perm. perm.
          * cbn [app]. rewrite app_assoc. apply in_elt.
        + apply IH. eapply covered_perm; [|exact HC]. perm.
    Qed.

    Lemma ed_loop_cov : forall fuel kept midR removed,
      covered (kept ++ midR) removed ->
      let '(k, m, r) := ed_loop dom fuel kept midR removed in covered (k ++ m) r.
    Proof.
      induction fuel as [|fuel IH]; intros kept midR removed HC; cbn [ed_loop]; [exact HC|].
      destruct midR as [|tgt uR]; [exact HC|].
      destruct (existsb (fun k => dom k tgt) kept) eqn:He.
      - apply IH. apply existsb_exists in He. destruct He as [k0 [Hk0 Hd]].
        eapply (covered_remove _ _ _ tgt k0 HC); [perm| |exact Hd].
        apply in_app_iff; left; exact Hk0.
      - pose proof (ed_scan_cov kept uR [] tgt [] removed) as Hs.
        destruct (ed_scan dom uR [] tgt [] removed) as [[[pre t] post] removed'].
        apply IH. eapply covered_perm; [|apply Hs; eapply covered_perm; [|exact HC]; perm].
        rewrite <- Permutation_rev. destruct pre; perm.
    Qed.

    Lemma extractDominatedBy_cov : forall l, Forall P l ->
      let '(kept, removed) := extractDominatedBy dom l in
      forall v, In v l -> exists u, In u kept /\ f v <= f u + inject_Z (Z.of_nat (length removed)) * delta.
    Proof.
      intros l HPl. pose proof (extractDominatedBy_perm l) as HP.
      destruct (le_lt_dec 2 (length l)) as [Hl|Hl].
      - destruct (extractDominatedBy_mid_nil l Hl) as [k [r [E1 E2]]]. rewrite E2 in *.
        pose proof (ed_loop_cov (length l) [] (rev l) []) as HC. rewrite E1 in HC.
        rewrite app_nil_r in HC.
        assert (H0 : covered ([] ++ rev l) []).
        { split; [|intros r0 []]. rewrite app_nil_r. cbn [app].
          eapply Permutation_Forall; [apply Permutation_rev| exact HPl]. }
        destruct (HC H0) as [_ HC'].
        intros v Hv. pose proof (inj_nonneg (length r)) as Hn.
        apply (Permutation_in _ (Permutation_sym HP)) in Hv. apply in_app_iff in Hv. destruct Hv as [Hv|Hv].
        + exists v; split; [exact Hv|]. nra.
        + exact (HC' v Hv).
      - unfold extractDominatedBy in *. destruct (Nat.ltb_spec (length l) 2) as [Hlt|Hge]; [|lia].
        intros v Hv. exists v; split; [exact Hv|]. cbn [length]. change (inject_Z (Z.of_nat 0)) with 0. lra.
    Qed.
  End Cover.
End GenericProofs.

Arguments covered {A}.

(* ---------------------------------------------------------------- dominance and scores *)
Lemma dot_diff_le : forall u v b d, length u = length v -> 0 <= d -> nonneg b ->
  (forall p, In p (combine u v) -> snd p - fst p <= d) -> dot v b <= dot u b + d * qsum b.
Proof.
  induction u as [|x u IH]; intros [|y v] b d Hl Hd Hb Hp; try discriminate Hl.
  - cbn [dot]. pose proof (qsum_nonneg b Hb). nra.
  - destruct b as [|z b]; cbn [dot qsum]; [lra|].
    inversion Hb as [|? ? Hz Hb']; subst.
    assert (Hxy : y - x <= d) by (apply (Hp (x, y)); left; reflexivity).
    assert (IH' : dot v b <= dot u b + d * qsum b).
    { apply IH; [cbn in Hl; lia| exact Hd| exact Hb'|]. intros p Hin. apply Hp. right. exact Hin. }
    nra.
Qed.

Lemma dominates_tol_score : forall eS eG M n u v b, 0 <= eS -> 0 <= eG -> 0 <= M ->
  length u = length v -> Forall (fun x => x <= M) u -> simplex n b ->
  dominates_tol eS eG u v = true -> dot v b <= dot u b + Qmax eS (M * eG).
Proof.
  intros eS eG M n u v b HeS HeG HM Hl HuM [_ [Hb Hs]] Hd.
  unfold dominates_tol in Hd. apply orb_true_iff in Hd.
  assert (Hmax1 : eS <= Qmax eS (M * eG)) by apply Q.le_max_l.
  assert (Hmax2 : M * eG <= Qmax eS (M * eG)) by apply Q.le_max_r.
  destruct Hd as [Hd|Hd]; rewrite forallb_forall in Hd.
  - assert (H : dot v b <= dot u b + eS * qsum b).
    { apply dot_diff_le; [exact Hl| exact HeS| exact Hb|]. intros p Hp. specialize (Hd p Hp).
      apply Qle_bool_iff in Hd. lra. }
    rewrite Hs in H. lra.
  - assert (H : dot v b <= dot u b + (M * eG) * qsum b).
    { apply dot_diff_le; [exact Hl| nra| exact Hb|]. intros [x y] Hp. specialize (Hd (x, y) Hp).
      apply Qle_bool_iff in Hd. cbn [fst snd] in *.
      assert (x <= M). { apply in_combine_l in Hp. rewrite Forall_forall in HuM. apply HuM; exact Hp. }
      pose proof (Q.le_min_l x y). nra. }
    rewrite Hs in H. lra.
Qed.

Lemma dominates0_score : forall u v b, length u = length v -> nonneg b ->
  dominates0 u v = true -> dot v b <= dot u b.
Proof.
  intros u v b Hl Hb Hd. unfold dominates0, dominates_tol in Hd. apply orb_true_iff in Hd.
  assert (H : dot v b <= dot u b + 0 * qsum b).
  { apply dot_diff_le; [exact Hl| lra| exact Hb|]. intros p Hp.
    destruct Hd as [Hd|Hd]; rewrite forallb_forall in Hd; specialize (Hd p Hp); apply Qle_bool_iff in Hd; lra. }
  lra.
Qed.

Lemma dominates0_iff : forall u v, length u = length v -> (dominates0 u v = true <-> dom_exact u v).
Proof.
  induction u as [|x u IH]; intros [|y v] Hl; try discriminate Hl.
  - split; [constructor| reflexivity].
  - assert (Hl' : length u = length v) by (cbn in Hl; lia). specialize (IH v Hl').
    unfold dominates0, dominates_tol in *. cbn [combine forallb fst snd]. split.
    + intros H. apply orb_true_iff in H.
      assert (Hxy : y <= x).
      { destruct H as [H|H]; apply andb_true_iff in H; destruct H as [H _]; apply Qle_bool_iff in H; lra. }
      constructor; [exact Hxy|]. apply IH. apply orb_true_iff.
      destruct H as [H|H]; apply andb_true_iff in H; destruct H as [_ H]; [left|right]; exact H.
    + intros H. inversion H as [|? ? ? ? Hxy H']; subst. apply IH in H'.
      apply orb_true_iff in H'. apply orb_true_iff. left. apply andb_true_iff. split.
      * apply Qle_bool_iff. lra.
      * destruct H' as [H'|H']; [exact H'|].
        rewrite forallb_forall in *. intros p Hp. specialize (H' p Hp). apply Qle_bool_iff in H'. apply Qle_bool_iff. lra.
Qed.

(* ---------------------------------------------------------------- envelope *)
Lemma env_le_of_cover : forall (A : Type) (proj : A -> vec) (l kept : list A) b e,
  (forall v, In v l -> exists u, In u kept /\ dot (proj v) b <= dot (proj u) b + e) ->
  l <> [] -> env (map proj l) b <= env (map proj kept) b + e.
Proof.
  intros A proj l kept b e H Hne. unfold env, best.
  assert (Hne' : map (fun al => dot al b) (map proj l) <> []) by (destruct l; [congruence| discriminate]).
  assert (maxl (map (fun al => dot al b) (map proj l)) <= maxl (map (fun al => dot al b) (map proj kept)) + e); [|lra].
  apply maxl_le; [exact Hne'|]. intros y Hy.
  rewrite map_map in Hy. apply in_map_iff in Hy. destruct Hy as [v [<- Hv]].
  destruct (H v Hv) as [u [Hu Hle]].
  assert (dot (proj u) b <= maxl (map (fun al => dot al b) (map proj kept))).
  { apply maxl_ub. rewrite map_map. apply in_map_iff. exists u; split; [reflexivity| exact Hu]. }
  lra.
Qed.

Lemma env_mono_incl : forall (l m : list vec) b, (forall v, In v l -> In v m) -> l <> [] -> env l b <= env m b.
Proof.
  intros l m b H Hne. rewrite <- (map_id l), <- (map_id m).
  assert (E : env (map (fun x => x) l) b <= env (map (fun x => x) m) b + 0); [|lra].
  apply env_le_of_cover; [|exact Hne]. intros v Hv. exists v; split; [apply H; exact Hv| lra].
Qed.

Section EnvelopeProj.
  Variable A : Type.
  Variable proj : A -> vec.

  (* with the code's tolerance semantics: every removed vector costs at most
     max(eS, M*eG) of envelope, M bounding the entries from above *)
  Theorem dominated_envelope_gen : forall (eS eG M : Q) (n : nat) (l : list A) (b : vec),
    0 <= eS -> 0 <= eG -> 0 <= M ->
    Forall (fun a => length (proj a) = n) l -> Forall (fun a => Forall (fun x => x <= M) (proj a)) l ->
    simplex n b ->
    let '(kept, removed) := extractDominatedBy (fun x y => dominates_tol eS eG (proj x) (proj y)) l in
    env (map proj l) b - inject_Z (Z.of_nat (length removed)) * Qmax eS (M * eG) <= env (map proj kept) b
    /\ env (map proj kept) b <= env (map proj l) b.
  Proof.
    intros eS eG M n l b HeS HeG HM Hlen HM' Hb.
    set (dom := fun x y : A => dominates_tol eS eG (proj x) (proj y)).
    set (ok := fun a : A => length (proj a) = n /\ Forall (fun x => x <= M) (proj a)).
    set (f := fun a : A => dot (proj a) b).
    set (delta := Qmax eS (M * eG)).
    assert (Hdelta : 0 <= delta) by (unfold delta; pose proof (Q.le_max_l eS (M * eG)); lra).
    assert (Hdom : forall u v, ok u -> ok v -> dom u v = true -> f v <= f u + delta).
    { intros u v [Hu1 Hu2] [Hv1 _] Hd. unfold f, delta.
      apply (dominates_tol_score eS eG M n); try assumption. congruence. }
    assert (Hok : Forall ok l).
    { rewrite Forall_forall in *. intros a Ha. split; [apply Hlen| apply HM']; exact Ha. }
    pose proof (extractDominatedBy_perm A dom l) as HP.
    pose proof (extractDominatedBy_cov A dom f delta ok Hdelta Hdom l Hok) as HC.
    destruct (extractDominatedBy dom l) as [kept removed].
    destruct l as [|a0 l0] eqn:El.
    - apply Permutation_sym, Permutation_nil in HP. apply app_eq_nil in HP. destruct HP as [-> ->].
      cbn [map length]. change (inject_Z (Z.of_nat 0)) with 0. split; lra.
    - rewrite <- El in *. assert (Hne : l <> []) by (rewrite El; discriminate).
      split.
      + assert (env (map proj l) b <= env (map proj kept) b + inject_Z (Z.of_nat (length removed)) * delta); [|lra].
        apply env_le_of_cover; [exact HC| exact Hne].
      + assert (Hk : kept <> []).
        { destruct l as [|a1 l1]; [congruence|]. destruct (HC a1 (or_introl eq_refl)) as [u [Hu _]].
          intros ->. destruct Hu. }
        apply env_mono_incl; [|destruct kept; [congruence| discriminate]].
        intros v Hv. apply in_map_iff in Hv. destruct Hv as [a [<- Ha]]. apply in_map.
        eapply Permutation_in; [exact HP|]. apply in_app_iff; left; exact Ha.
  Qed.

  (* tolerance 0: the envelope is unchanged at every non-negative b *)
  Theorem dominated_envelope_exact_gen : forall (n : nat) (l : list A) (b : vec),
    Forall (fun a => length (proj a) = n) l -> nonneg b ->
    let '(kept, removed) := extractDominatedBy (fun x y => dominates0 (proj x) (proj y)) l in
    env (map proj kept) b == env (map proj l) b.
  Proof.
    intros n l b Hlen Hb.
    set (dom := fun x y : A => dominates0 (proj x) (proj y)).
    set (ok := fun a : A => length (proj a) = n).
    set (f := fun a : A => dot (proj a) b).
    assert (Hdom : forall u v, ok u -> ok v -> dom u v = true -> f v <= f u + 0).
    { intros u v Hu Hv Hd. unfold f. pose proof (dominates0_score (proj u) (proj v) b) as H.
      unfold ok in *. rewrite Hu, Hv in H. specialize (H eq_refl Hb Hd). lra. }
    pose proof (extractDominatedBy_perm A dom l) as HP.
    pose proof (extractDominatedBy_cov A dom f 0 ok (Qle_refl 0) Hdom l Hlen) as HC.
    destruct (extractDominatedBy dom l) as [kept removed].
    destruct l as [|a0 l0] eqn:El.
    - apply Permutation_sym, Permutation_nil in HP. apply app_eq_nil in HP. destruct HP as [-> ->]. reflexivity.
    - rewrite <- El in *. assert (Hne : l <> []) by (rewrite El; discriminate).
      apply Qle_antisym.
      + assert (Hk : kept <> []).
        { destruct l as [|a1 l1]; [congruence|]. destruct (HC a1 (or_introl eq_refl)) as [u [Hu _]].
          intros ->. destruct Hu. }
        apply env_mono_incl; [|destruct kept; [congruence| discriminate]].
        intros v Hv. apply in_map_iff in Hv. destruct Hv as [a [<- Ha]]. apply in_map.
        eapply Permutation_in; [exact HP|]. apply in_app_iff; left; exact Ha.
      + assert (env (map proj l) b <= env (map proj kept) b + inject_Z (Z.of_nat (length removed)) * 0); [|lra].
        apply env_le_of_cover; [exact HC| exact Hne].
  Qed.
End EnvelopeProj.

(* ---------------------------------------------------------------- findBestAtPoint *)
Section FindBest.
  Variable A : Type.
  Variable proj : A -> vec.

  Lemma fb_go_spec : forall (score : A -> Q) l bi ba bv i, bv == score ba ->
    let '(j, a, v) := fb_go proj score bi ba bv i l in
    v == score a /\ bv <= v /\ (forall x, In x l -> score x <= v) /\
    ((j = bi /\ a = ba) \/ ((i <= j < i + length l)%nat /\ nth_error l (j - i) = Some a)).
  Proof.
    intros score. induction l as [|x l IH]; intros bi ba bv i Hbv; cbn [fb_go].
    - split; [exact Hbv|]. split; [lra|]. split; [intros x []|]. left; split; reflexivity.
    - set (upd := match score x ?= bv with
                  | Gt => true
                  | Eq => match veccmp (proj x) (proj ba) with Gt => true | _ => false end
                  | Lt => false end).
      assert (Hupd : (upd = true -> bv <= score x) /\ (upd = false -> score x <= bv)).
      { subst upd. destruct (score x ?= bv) eqn:E.
        - apply Qeq_alt in E. split; intros _; lra.
        - apply Qlt_alt in E. split; [discriminate| intros _; lra].
        - apply Qgt_alt in E. split; [intros _; lra| discriminate]. }
      destruct Hupd as [Hu1 Hu2]. destruct upd.
      + specialize (IH i x (score x) (S i) (Qeq_refl _)).
        destruct (fb_go proj score i x (score x) (S i) l) as [[j a] v].
        destruct IH as [E [Hle [Hub D]]]. specialize (Hu1 eq_refl).
        split; [exact E|]. split; [lra|]. split.
        * intros y [<-|Hy]; [exact Hle| apply Hub; exact Hy].
        * right. destruct D as [[-> ->]|[Hr Hn]].
          -- split; [cbn [length]; lia|]. rewrite Nat.sub_diag. reflexivity.
          -- split; [cbn [length]; lia|]. replace (j - i)%nat with (S (j - S i)) by lia. exact Hn.
      + specialize (IH bi ba bv (S i) Hbv).
        destruct (fb_go proj score bi ba bv (S i) l) as [[j a] v].
        destruct IH as [E [Hle [Hub D]]]. specialize (Hu2 eq_refl).
        split; [exact E|]. split; [exact Hle|]. split.
        * intros y [<-|Hy]; [lra| apply Hub; exact Hy].
        * destruct D as [[-> ->]|[Hr Hn]]; [left; split; reflexivity|].
          right. split; [cbn [length]; lia|]. replace (j - i)%nat with (S (j - S i)) by lia. exact Hn.
  Qed.

  Lemma findBestBy_spec : forall (score : A -> Q) l j a v, findBestBy proj score l = Some (j, a, v) ->
    nth_error l j = Some a /\ v == score a /\ (forall x, In x l -> score x <= v).
  Proof.
    intros score [|x l] j a v H; [discriminate|]. cbn [findBestBy] in H. inversion H as [H1]; clear H.
    pose proof (fb_go_spec score l O x (score x) 1%nat (Qeq_refl _)) as S. rewrite H1 in S.
    destruct S as [E [Hle [Hub D]]]. split; [|split].
    - destruct D as [[-> ->]|[Hr Hn]]; [reflexivity|].
      replace j with (S (j - 1)) by lia. exact Hn.
    - exact E.
    - intros y [<-|Hy]; [exact Hle| apply Hub; exact Hy].
  Qed.

  Lemma findBestBy_some : forall (score : A -> Q) l, l <> [] -> exists r, findBestBy proj score l = Some r.
  Proof. intros score [|x l] H; [congruence|]. eexists; reflexivity. Qed.

  (* the returned element attains the upper envelope at the point *)
  Theorem findBestAtPoint_max_gen : forall point l j a v, findBestAtPoint proj point l = Some (j, a, v) ->
    nth_error l j = Some a /\ v == dot point (proj a) /\ v == env (map proj l) point.
  Proof.
    intros point l j a v H. apply findBestBy_spec in H. destruct H as [Hn [E Hub]].
    split; [exact Hn|]. split; [exact E|]. unfold env, best. symmetry. rewrite map_map.
    apply maxl_char.
    - destruct l; [destruct j; discriminate| discriminate].
    - intros y Hy. apply in_map_iff in Hy. destruct Hy as [x [<- Hx]].
      specialize (Hub x Hx). unfold scoreAt in Hub. rewrite dot_comm. exact Hub.
    - exists (dot (proj a) point). split.
      + apply in_map_iff. exists a; split; [reflexivity|]. eapply nth_error_In; exact Hn.
      + rewrite E. unfold scoreAt. apply dot_comm.
  Qed.

  Theorem findBestAtSimplexCorner_max_gen : forall corner l j a v,
    findBestAtSimplexCorner proj corner l = Some (j, a, v) ->
    nth_error l j = Some a /\ v == nthq (proj a) corner /\ forall x, In x l -> nthq (proj x) corner <= v.
  Proof. intros corner l j a v H. apply findBestBy_spec in H. exact H. Qed.
End FindBest.
