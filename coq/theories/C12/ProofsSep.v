(* C12/ProofsSep.v — "separated inputs": when the tolerance test [dominates] and the exact test
   [dominates0] agree on all pairs of the input, extractDominated / extractDominatedIncremental
   with the code's tolerances behave like the tolerance-0 algorithms. *)
From Coq Require Import List Arith QArith Qminmax Lqa Lia Bool Permutation.
From AIT Require Import Base.Qx Base.Mdp C12.Model C12.Spec C12.Proofs C12.ProofsInc.
Import ListNotations.
Local Open Scope Q_scope.

(* ---------------------------------------------------------------- (A) extensionality *)
Section Ext.
  Variable A : Type.
  Variables dom1 dom2 : A -> A -> bool.
  Variable P : A -> Prop.
  Hypothesis Hext : forall u v, P u -> P v -> dom1 u v = dom2 u v.

  Lemma Forall_swap_pop : forall l : list A, Forall P l -> Forall P (swap_pop l).
  Proof.
    intros l H. eapply Permutation_Forall; [apply Permutation_sym, (swap_pop_perm A)| exact H].
  Qed.

  Ltac fsplit :=
    repeat match goal with
           | H : Forall _ (_ ++ _) |- _ => apply Forall_app in H; destruct H
           | H : Forall _ (_ :: _) |- _ => apply Forall_cons_iff in H; destruct H
           end.
  Ltac fsolve :=
    fsplit;
    repeat (first [ assumption
                  | apply Forall_nil
                  | apply Forall_cons
                  | apply Forall_app; split
                  | apply Forall_rev
                  | apply Forall_swap_pop ]).

  Lemma existsb_ext_l : forall t l, P t -> Forall P l ->
    existsb (fun k => dom1 k t) l = existsb (fun k => dom2 k t) l.
  Proof.
    intros t l Ht. induction l as [|k l IH]; intros Hl; cbn [existsb]; [reflexivity|].
    fsplit. rewrite (Hext k t) by assumption. rewrite IH by assumption. reflexivity.
  Qed.

  Lemma ed_scan_ext : forall uR pre tgt post removed,
    Forall P uR -> Forall P pre -> P tgt -> Forall P post -> Forall P removed ->
    ed_scan dom1 uR pre tgt post removed = ed_scan dom2 uR pre tgt post removed.
  Proof.
    induction uR as [|x uR IH]; intros pre tgt post removed HuR Hpre Ht Hpost Hrem; cbn [ed_scan].
    - reflexivity.
    - fsplit. rewrite (Hext x tgt) by assumption. destruct (dom2 x tgt) eqn:Hd.
      + apply IH; fsolve.
      + apply IH; fsolve.
  Qed.

  Lemma ed_loop_ext : forall fuel kept midR removed,
    Forall P kept -> Forall P midR -> Forall P removed ->
    ed_loop dom1 fuel kept midR removed = ed_loop dom2 fuel kept midR removed.
  Proof.
    induction fuel as [|fuel IH]; intros kept midR removed Hk Hm Hr; cbn [ed_loop]; [reflexivity|].
    destruct midR as [|tgt uR]; [reflexivity|]. fsplit.
    rewrite (existsb_ext_l tgt kept) by assumption.
    destruct (existsb (fun k => dom2 k tgt) kept) eqn:He.
    - apply IH; fsolve.
    - rewrite (ed_scan_ext uR [] tgt [] removed) by fsolve.
      pose proof (ed_scan_perm A dom2 uR [] tgt [] removed) as Hs.
      destruct (ed_scan dom2 uR [] tgt [] removed) as [[[pre t] post] removed'].
      assert (HF : Forall P (pre ++ t :: post ++ removed')).
      { eapply Permutation_Forall; [exact Hs|]. fsolve. }
      fsplit. apply IH; [fsolve| |fsolve].
      destruct pre as [|p0 pre1]; fsolve.
  Qed.

  Lemma extractDominatedBy_ext_P : forall l, Forall P l ->
    extractDominatedBy dom1 l = extractDominatedBy dom2 l.
  Proof.
    intros l Hl. unfold extractDominatedBy. destruct (length l <? 2)%nat eqn:E; [reflexivity|].
    rewrite (ed_loop_ext (length l) [] (rev l) []) by fsolve. reflexivity.
  Qed.

  Lemma edi_scan_ext : forall t preR post oldBad isD,
    P t -> Forall P preR ->
    edi_scan dom1 t preR post oldBad isD = edi_scan dom2 t preR post oldBad isD.
  Proof.
    intros t preR post oldBad isD Ht. revert post oldBad isD.
    induction preR as [|o preR IH]; intros post oldBad isD Hpre; cbn [edi_scan]; [reflexivity|].
    fsplit. rewrite (Hext o t), (Hext t o) by assumption.
    destruct (negb isD && dom2 o t) eqn:E1; [reflexivity|].
    destruct (dom2 t o) eqn:E2; apply IH; assumption.
  Qed.

  Lemma edi_loop_ext : forall toCheckR oldGood oldBad newGood newBad,
    Forall P toCheckR -> Forall P oldGood -> Forall P oldBad ->
    edi_loop dom1 toCheckR oldGood oldBad newGood newBad
    = edi_loop dom2 toCheckR oldGood oldBad newGood newBad.
  Proof.
    induction toCheckR as [|t rest IH]; intros oldGood oldBad newGood newBad Hc Hg Hb;
      cbn [edi_loop]; [reflexivity|].
    fsplit. rewrite (edi_scan_ext t (rev oldGood) [] oldBad false) by fsolve.
    destruct (edi_scan dom2 t (rev oldGood) [] oldBad false) as [[og ob]|] eqn:E.
    - apply (edi_scan_perm A dom2) in E.
      assert (HF : Forall P (og ++ ob)).
      { eapply Permutation_Forall; [apply Permutation_sym; exact E|]. fsolve. }
      fsplit. apply IH; assumption.
    - apply IH; assumption.
  Qed.

  Lemma extractDominatedIncrementalBy_ext_P : forall old new, Forall P old -> Forall P new ->
    extractDominatedIncrementalBy dom1 old new = extractDominatedIncrementalBy dom2 old new.
  Proof.
    intros old new Ho Hn. unfold extractDominatedIncrementalBy.
    rewrite (extractDominatedBy_ext_P new Hn).
    pose proof (extractDominatedBy_perm A dom2 new) as HP.
    destruct (extractDominatedBy dom2 new) as [nk nr0].
    assert (HF : Forall P (nk ++ nr0)).
    { eapply Permutation_Forall; [apply Permutation_sym; exact HP| exact Hn]. }
    fsplit. rewrite (edi_loop_ext (rev nk) old [] [] []) by fsolve. reflexivity.
  Qed.
End Ext.

Theorem extractDominatedBy_ext : forall (A : Type) (dom1 dom2 : A -> A -> bool) (l : list A),
  (forall u v, In u l -> In v l -> dom1 u v = dom2 u v) ->
  extractDominatedBy dom1 l = extractDominatedBy dom2 l.
Proof.
  intros A dom1 dom2 l H.
  apply (extractDominatedBy_ext_P A dom1 dom2 (fun a => In a l) H).
  apply Forall_forall. intros x Hx; exact Hx.
Qed.

Theorem extractDominatedIncrementalBy_ext : forall (A : Type) (dom1 dom2 : A -> A -> bool) (old new : list A),
  (forall u v, In u (old ++ new) -> In v (old ++ new) -> dom1 u v = dom2 u v) ->
  extractDominatedIncrementalBy dom1 old new = extractDominatedIncrementalBy dom2 old new.
Proof.
  intros A dom1 dom2 old new H.
  apply (extractDominatedIncrementalBy_ext_P A dom1 dom2 (fun a => In a (old ++ new)) H).
  - apply Forall_forall. intros x Hx. apply in_app_iff; left; exact Hx.
  - apply Forall_forall. intros x Hx. apply in_app_iff; right; exact Hx.
Qed.

(* ---------------------------------------------------------------- (B) guarded exact dominance *)
(* exact componentwise >= between vectors of the same length: a genuine preorder *)
Definition dom_n (u v : vec) : bool := dominates0 u v && (length u =? length v)%nat.

Lemma dom_exact_refl : forall u, dom_exact u u.
Proof. induction u as [|x u IH]; constructor; [apply Qle_refl| exact IH]. Qed.

Lemma dom_exact_trans : forall u v w, dom_exact u v -> dom_exact v w -> dom_exact u w.
Proof.
  intros u v w H. revert w. induction H as [|x y u v Hxy H IH]; intros w Hw.
  - inversion Hw; subst. constructor.
  - inversion Hw as [|? z ? w' Hyz Hw']; subst. constructor.
    + eapply Qle_trans; [exact Hyz| exact Hxy].
    + apply IH; exact Hw'.
Qed.

Lemma dom_exact_antisym : forall u v, dom_exact u v -> dom_exact v u -> veq u v.
Proof.
  intros u v H. induction H as [|x y u v Hxy H IH]; intros Hr.
  - constructor.
  - inversion Hr as [|? ? ? ? Hyx Hr']; subst. constructor.
    + apply Qle_antisym; assumption.
    + apply IH; exact Hr'.
Qed.

Lemma dom_n_iff : forall u v, dom_n u v = true <-> length u = length v /\ dom_exact u v.
Proof.
  intros u v. unfold dom_n. rewrite andb_true_iff, Nat.eqb_eq. split.
  - intros [Hd Hl]. split; [exact Hl|]. apply dominates0_iff; assumption.
  - intros [Hl Hd]. split; [|exact Hl]. apply dominates0_iff; assumption.
Qed.

Theorem dom_n_refl : dom_refl dom_n.
Proof. intros x. apply dom_n_iff. split; [reflexivity| apply dom_exact_refl]. Qed.

Theorem dom_n_trans : dom_trans dom_n.
Proof.
  intros x y z H1 H2. apply dom_n_iff in H1. apply dom_n_iff in H2. apply dom_n_iff.
  destruct H1 as [L1 D1]. destruct H2 as [L2 D2]. split; [congruence|].
  eapply dom_exact_trans; eassumption.
Qed.

Lemma dom_n_antisym : forall x y, dom_n x y = true -> dom_n y x = true -> veq x y.
Proof.
  intros x y H1 H2. apply dom_n_iff in H1. apply dom_n_iff in H2.
  apply dom_exact_antisym; [exact (proj2 H1)| exact (proj2 H2)].
Qed.

Lemma dom_n_score : forall x y b, nonneg b -> dom_n x y = true -> dot y b <= dot x b.
Proof.
  intros x y b Hb H. unfold dom_n in H. apply andb_true_iff in H. destruct H as [Hd Hl].
  apply Nat.eqb_eq in Hl. apply dominates0_score; assumption.
Qed.

(* ---------------------------------------------------------------- (C) separated inputs *)
Definition separated (n : nat) (l : list vec) : Prop :=
  Forall (fun v => length v = n) l /\
  forall u v, In u l -> In v l -> dominates u v = dominates0 u v.

Definition separatedb (n : nat) (l : list vec) : bool :=
  forallb (fun v => (length v =? n)%nat) l &&
  forallb (fun u => forallb (fun v => Bool.eqb (dominates u v) (dominates0 u v)) l) l.

Lemma separatedb_sound : forall n l, separatedb n l = true -> separated n l.
Proof.
  intros n l H. unfold separatedb in H. apply andb_true_iff in H. destruct H as [H1 H2].
  rewrite forallb_forall in H1, H2. split.
  - apply Forall_forall. intros v Hv. apply Nat.eqb_eq. apply H1; exact Hv.
  - intros u v Hu Hv. specialize (H2 u Hu). rewrite forallb_forall in H2.
    apply eqb_prop. apply H2; exact Hv.
Qed.

Lemma separated_dom_n : forall n l, separated n l ->
  forall u v, In u l -> In v l -> dominates u v = dom_n u v.
Proof.
  intros n l [Hlen Hag] u v Hu Hv. rewrite (Hag u v Hu Hv). unfold dom_n.
  rewrite Forall_forall in Hlen. rewrite (Hlen u Hu), (Hlen v Hv), Nat.eqb_refl, andb_true_r.
  reflexivity.
Qed.

Lemma separated_incl : forall n l m, separated n l -> incl m l -> separated n m.
Proof.
  intros n l m [Hlen Hag] Hi. split.
  - rewrite Forall_forall in *. intros v Hv. apply Hlen, Hi, Hv.
  - intros u v Hu Hv. apply Hag; apply Hi; assumption.
Qed.

(* pnd / is_pruning only look at the test on the elements of the lists *)
Lemma pnd_ext : forall (A : Type) (d1 d2 : A -> A -> bool) (l : list A),
  (forall u v, In u l -> In v l -> d1 u v = d2 u v) -> pnd d1 l -> pnd d2 l.
Proof.
  intros A d1 d2. induction l as [|x t IH]; intros Hag Hp; cbn [pnd] in *; [exact I|].
  destruct Hp as [Hx Ht]. split.
  - intros y Hy. destruct (Hx y Hy) as [H1 H2].
    rewrite <- (Hag x y), <- (Hag y x); [split; assumption| | | |];
      first [left; reflexivity| right; exact Hy].
  - apply IH; [|exact Ht]. intros u v Hu Hv. apply Hag; right; assumption.
Qed.

Lemma is_pruning_ext : forall (A : Type) (d1 d2 : A -> A -> bool) (inp out : list A),
  (forall u v, In u inp -> In v inp -> d1 u v = d2 u v) ->
  is_pruning d1 inp out -> is_pruning d2 inp out.
Proof.
  intros A d1 d2 inp out Hag [Hi [Hp Hc]]. split; [exact Hi|]. split.
  - apply (pnd_ext A d1 d2); [|exact Hp]. intros u v Hu Hv. apply Hag; apply Hi; assumption.
  - intros x Hx. destruct (Hc x Hx) as [y [Hy Hd]]. exists y. split; [exact Hy|].
    rewrite <- (Hag y x); [exact Hd| apply Hi; exact Hy| exact Hx].
Qed.

(* ---------------------------------------------------------------- (D) the code's instances *)
(* D1: on separated inputs the code's extractDominated is the exact-preorder algorithm *)
Theorem extractDominated_separated_eq : forall n l, separated n l ->
  extractDominated l = extractDominatedBy dom_n l.
Proof.
  intros n l Hsep. unfold extractDominated.
  apply extractDominatedBy_ext. exact (separated_dom_n n l Hsep).
Qed.

Theorem extractDominatedIncremental_separated_eq : forall n old new, separated n (old ++ new) ->
  extractDominatedIncremental old new = extractDominatedIncrementalBy dom_n old new.
Proof.
  intros n old new Hsep. unfold extractDominatedIncremental.
  apply extractDominatedIncrementalBy_ext. exact (separated_dom_n n (old ++ new) Hsep).
Qed.

(* D2: the envelope is unchanged at every non-negative b *)
Theorem dominated_envelope_separated : forall n l b, separated n l -> nonneg b ->
  let '(kept, removed) := extractDominated l in env kept b == env l b.
Proof.
  intros n l b Hsep Hb. destruct Hsep as [Hlen Hag]. unfold extractDominated.
  rewrite (extractDominatedBy_ext vec dominates dominates0 l Hag).
  pose proof (dominated_envelope_exact_gen vec (fun v => v) n l b Hlen Hb) as H.
  cbn beta in H. change (fun x y : vec => dominates0 x y) with dominates0 in H.
  destruct (extractDominatedBy dominates0 l) as [kept removed] eqn:E.
  rewrite !map_id in H. exact H.
Qed.

(* D3: the result is a pruning for the code's own test *)
Theorem extractDominated_is_pruning_separated : forall n l, separated n l ->
  let '(kept, removed) := extractDominated l in is_pruning dominates l kept.
Proof.
  intros n l Hsep. rewrite (extractDominated_separated_eq n l Hsep).
  pose proof (extractDominatedBy_is_pruning vec dom_n dom_n_refl dom_n_trans l) as H.
  destruct (extractDominatedBy dom_n l) as [kept removed] eqn:E.
  apply (is_pruning_ext vec dom_n dominates); [|exact H].
  intros u v Hu Hv. symmetry. exact (separated_dom_n n l Hsep u v Hu Hv).
Qed.

(* D4: the incremental version agrees with extractDominated on the union, up to exact equality
   of vectors *)
Theorem incremental_eq_union_separated : forall n old new, separated n (old ++ new) ->
  pnd dominates old ->
  let '(og, ngz, obz, nb, nr0) := extractDominatedIncremental old new in
  let '(uk, ur) := extractDominated (old ++ new) in
  (forall x, In x (og ++ ngz) -> exists y, In y uk /\ veq x y) /\
  (forall y, In y uk -> exists x, In x (og ++ ngz) /\ veq x y).
Proof.
  intros n old new Hsep Hold.
  rewrite (extractDominatedIncremental_separated_eq n old new Hsep).
  rewrite (extractDominated_separated_eq n (old ++ new) Hsep).
  assert (Hold' : pnd dom_n old).
  { apply (pnd_ext vec dominates dom_n); [|exact Hold]. intros u v Hu Hv.
    apply (separated_dom_n n (old ++ new) Hsep); apply in_app_iff; left; assumption. }
  pose proof (incremental_eq_union_gen vec dom_n dom_n_refl dom_n_trans old new Hold') as H.
  destruct (extractDominatedIncrementalBy dom_n old new) as [[[[og ngz] obz] nb] nr0] eqn:E1.
  destruct (extractDominatedBy dom_n (old ++ new)) as [uk ur] eqn:E2.
  destruct H as [H1 H2]. split.
  - intros x Hx. destruct (H1 x Hx) as [y [Hy [Ha Hb]]]. exists y. split; [exact Hy|].
    apply dom_n_antisym; assumption.
  - intros y Hy. destruct (H2 y Hy) as [x [Hx [Ha Hb]]]. exists x. split; [exact Hx|].
    apply dom_n_antisym; assumption.
Qed.

(* D5: envelope form *)
Lemma env_le_cover0 : forall (l m : list vec) b,
  (forall v, In v l -> exists u, In u m /\ dot v b <= dot u b) -> l <> [] -> env l b <= env m b.
Proof.
  intros l m b H Hne. rewrite <- (map_id l), <- (map_id m).
  assert (E : env (map (fun x => x) l) b <= env (map (fun x => x) m) b + 0); [|lra].
  apply env_le_of_cover; [|exact Hne]. intros v Hv. destruct (H v Hv) as [u [Hu Hle]].
  exists u; split; [exact Hu| lra].
Qed.

Theorem incremental_env_union_separated : forall n old new, separated n (old ++ new) ->
  pnd dominates old ->
  let '(og, ngz, obz, nb, nr0) := extractDominatedIncremental old new in
  let '(uk, ur) := extractDominated (old ++ new) in
  forall b, nonneg b -> env (og ++ ngz) b == env uk b.
Proof.
  intros n old new Hsep Hold.
  rewrite (extractDominatedIncremental_separated_eq n old new Hsep).
  rewrite (extractDominated_separated_eq n (old ++ new) Hsep).
  assert (Hold' : pnd dom_n old).
  { apply (pnd_ext vec dominates dom_n); [|exact Hold]. intros u v Hu Hv.
    apply (separated_dom_n n (old ++ new) Hsep); apply in_app_iff; left; assumption. }
  pose proof (incremental_eq_union_gen vec dom_n dom_n_refl dom_n_trans old new Hold') as H.
  destruct (extractDominatedIncrementalBy dom_n old new) as [[[[og ngz] obz] nb] nr0] eqn:E1.
  destruct (extractDominatedBy dom_n (old ++ new)) as [uk ur] eqn:E2.
  destruct H as [H1 H2]. intros b Hb.
  destruct (og ++ ngz) as [|x0 L] eqn:EL.
  - destruct uk as [|y0 uk']; [reflexivity|].
    destruct (H2 y0 (or_introl eq_refl)) as [x [[] _]].
  - assert (Hne : x0 :: L <> []) by discriminate.
    assert (Hne' : uk <> []).
    { destruct (H1 x0 (or_introl eq_refl)) as [y [Hy _]]. intros ->. destruct Hy. }
    apply Qle_antisym.
    + apply env_le_cover0; [|exact Hne]. intros v Hv.
      destruct (H1 v Hv) as [y [Hy [Ha Hc]]]. exists y. split; [exact Hy|].
      apply dom_n_score; assumption.
    + apply env_le_cover0; [|exact Hne']. intros v Hv.
      destruct (H2 v Hv) as [x [Hx [Ha Hc]]]. exists x. split; [exact Hx|].
      apply dom_n_score; assumption.
Qed.

(* D3': the incremental result is a pruning of the union for the code's own test *)
Theorem incremental_is_pruning_separated : forall n old new, separated n (old ++ new) ->
  pnd dominates old ->
  let '(og, ngz, obz, nb, nr0) := extractDominatedIncremental old new in
  is_pruning dominates (old ++ new) (og ++ ngz).
Proof.
  intros n old new Hsep Hold.
  rewrite (extractDominatedIncremental_separated_eq n old new Hsep).
  assert (Hold' : pnd dom_n old).
  { apply (pnd_ext vec dominates dom_n); [|exact Hold]. intros u v Hu Hv.
    apply (separated_dom_n n (old ++ new) Hsep); apply in_app_iff; left; assumption. }
  pose proof (incremental_is_pruning vec dom_n dom_n_refl dom_n_trans old new Hold') as H.
  destruct (extractDominatedIncrementalBy dom_n old new) as [[[[og ngz] obz] nb] nr0] eqn:E1.
  apply (is_pruning_ext vec dom_n dominates); [|exact H].
  intros u v Hu Hv. symmetry. exact (separated_dom_n n (old ++ new) Hsep u v Hu Hv).
Qed.
