(* C12/Spec.v — the mathematics property C12 talks about, written independently of the
   algorithms of Model.v, plus the boolean checkers the driver evaluates on the implementation's
   outputs. *)
From Coq Require Import List Arith QArith Qminmax Bool.
From AIT Require Import Base.Qx Base.Mdp.
Import ListNotations.
Local Open Scope Q_scope.

(* ---- value surface ------------------------------------------------------------------------- *)
(* upper envelope of a set of hyperplanes at b *)
Definition env (l : list vec) (b : vec) : Q := best l b.

(* exact (tolerance-free) dominance: componentwise >= *)
Definition dom_exact (u v : vec) : Prop := Forall2 (fun x y => y <= x) u v.

(* v (sitting between l1 and l2 in a list) is needed: somewhere on the simplex it is strictly above
   every other vector of the list *)
Definition needed (n : nat) (l1 : list vec) (v : vec) (l2 : list vec) : Prop :=
  exists b, simplex n b /\ forall u, In u (l1 ++ l2) -> dot u b < dot v b.

(* ---- pruning with respect to an arbitrary dominance test ----------------------------------- *)
Section Pruning.
  Variable A : Type.
  Variable dom : A -> A -> bool.
  (* no element of the list dominates another one (at a different position) *)
  Fixpoint pnd (l : list A) : Prop :=
    match l with
    | [] => True
    | x :: t => (forall y, In y t -> dom x y = false /\ dom y x = false) /\ pnd t
    end.
  (* [out] is a pruning of [inp]: a sub-collection, pairwise non-dominating, dominating everything *)
  Definition is_pruning (inp out : list A) : Prop :=
    incl out inp /\ pnd out /\ forall x, In x inp -> exists y, In y out /\ dom y x = true.
  Definition dom_refl : Prop := forall x, dom x x = true.
  Definition dom_trans : Prop := forall x y z, dom x y = true -> dom y z = true -> dom x z = true.
End Pruning.
Arguments pnd {A}. Arguments is_pruning {A}. Arguments dom_refl {A}. Arguments dom_trans {A}.

(* ---- interpolation ------------------------------------------------------------------------- *)
Definition unit_vec (S i : nat) : vec := map (fun s => if (s =? i)%nat then 1 else 0) (seq 0 S).
Definition corners (S : nat) : list vec := map (unit_vec S) (seq 0 S).
(* coordinate s of  sum_i w_i * P_i *)
Definition recon (w : vec) (P : list vec) (s : nat) : Q :=
  qsum (map (fun wp => fst wp * nthq (snd wp) s) (combine w P)).
(* weights over corners ++ stored points: non-negative and reconstructing the query *)
Definition weights_ok (query : vec) (pts : list vec) (w : vec) : Prop :=
  nonneg w /\ length w = (length query + length pts)%nat /\
  forall s, (s < length query)%nat -> recon w (corners (length query) ++ pts) s == nthq query s.
(* the correspondingly weighted sum of corner values and point values *)
Definition weighted_value (w cv vals : vec) : Q := dot w (cv ++ vals).

(* the interpolation LP over all stored points: c >= 0, sum_i c_i pts_i <= query componentwise;
   objective query.cv + sum_i c_i (vals_i - pts_i.cv) *)
Definition interp_feasible (query : vec) (pts : list vec) (c : vec) : Prop :=
  nonneg c /\ length c = length pts /\
  forall s, (s < length query)%nat -> recon c pts s <= nthq query s.
Fixpoint interp_gain (cv c : vec) (pts : list vec) (vals : vec) : Q :=
  match c, pts, vals with
  | x :: c', b :: pts', v :: vals' => x * (v - dot b cv) + interp_gain cv c' pts' vals'
  | _, _, _ => 0
  end.
Definition interp_objective (query cv : vec) (pts : list vec) (vals c : vec) : Q :=
  dot query cv + interp_gain cv c pts vals.

(* coordinates are exactly zero or clearly non-zero (the library's "zero" test is |x| <= 1e-6) *)
Definition sepz (x : Q) : Prop := eqSmall x 0 = true -> x == 0.
Definition sepzb (x : Q) : bool := negb (eqSmall x 0) || Qeq_bool x 0.

(* ---- boolean checkers (evaluated on implementation outputs) -------------------------------- *)
Definition within (tol x y : Q) : bool := Qle_bool (- tol) (x - y) && Qle_bool (x - y) tol.
Definition weights_ok_tolb (tol : Q) (query : vec) (pts : list vec) (w : vec) : bool :=
  nonnegb w && (length w =? length query + length pts)%nat &&
  forallb (fun s => within tol (recon w (corners (length query) ++ pts) s) (nthq query s))
          (seq 0 (length query)).
Definition weights_okb := weights_ok_tolb 0.
(* value <= weighted sum + tol *)
Definition value_le_weightedb (tol value : Q) (w cv vals : vec) : bool :=
  Qle_bool value (weighted_value w cv vals + tol).
(* env comparison at one belief *)
Definition env_geb (tol : Q) (kept inp : list vec) (b : vec) : bool :=
  Qle_bool (env inp b - tol) (env kept b).
(* every element of l occurs in m (exact vector equality) *)
Definition sublistb (l m : list vec) : bool := forallb (fun v => existsb (fun u => veqb v u) m) l.
