(* C12/ProofsInterp.v — lemmas about the interpolation models (sawtoothInterpolation,
   LPInterpolation) of C12/Model.v *)
From Coq Require Import List Arith QArith Qminmax Lqa Lia Bool Permutation.
From AIT Require Import Base.Qx Base.Mdp C12.Model C12.Spec.
Import ListNotations.
Local Open Scope Q_scope.

(* ---------------------------------------------------------------- zero test *)
Lemma isZero_true : forall x, isZero x = true -> - epsS <= x /\ x <= epsS.
Proof.
  intros x H. unfold isZero, eqSmall in H. apply Qle_bool_iff in H. unfold qabs in H.
  pose proof (Q.le_max_l (x - 0) (- (x - 0))). pose proof (Q.le_max_r (x - 0) (- (x - 0))). split; lra.
Qed.
Lemma isZero_false : forall x, isZero x = false -> 0 <= x -> epsS < x.
Proof.
  intros x H Hx. unfold isZero, eqSmall in H.
  destruct (Qlt_le_dec epsS x) as [Hl|Hl]; [exact Hl|]. exfalso.
  assert (Qle_bool (qabs (x - 0)) epsS = true); [|congruence].
  apply Qle_bool_iff. unfold qabs. apply Q.max_lub; unfold epsS in *; lra.
Qed.
Lemma epsS_pos : 0 < epsS. Proof. reflexivity. Qed.

(* ---------------------------------------------------------------- recon algebra *)
Lemma recon_nil_l : forall P s, recon [] P s == 0. Proof. reflexivity. Qed.
Lemma recon_cons : forall x w p P s, recon (x :: w) (p :: P) s == x * nthq p s + recon w P s.
Proof. intros. unfold recon. cbn [combine map qsum fst snd]. reflexivity. Qed.

Lemma recon_app : forall w1 w2 P1 P2 s, length w1 = length P1 ->
  recon (w1 ++ w2) (P1 ++ P2) s == recon w1 P1 s + recon w2 P2 s.
Proof.
  induction w1 as [|x w1 IH]; intros w2 [|p P1] P2 s Hl; try discriminate Hl.
  - cbn [app]. rewrite recon_nil_l. lra.
  - cbn [app]. rewrite !recon_cons. rewrite IH by (cbn in Hl; lia). lra.
Qed.

Lemma recon_zero : forall n P s, recon (vzero n) P s == 0.
Proof.
  induction n as [|n IH]; intros [|p P] s; try reflexivity.
  unfold vzero in *. cbn [repeat]. rewrite recon_cons. rewrite IH. lra.
Qed.

Lemma nthq_unit : forall S i s, (s < S)%nat -> nthq (unit_vec S i) s = if (s =? i)%nat then 1 else 0.
Proof.
  intros S i s Hs. unfold nthq, unit_vec.
  set (f := fun s0 : nat => if (s0 =? i)%nat then 1 else 0).
  rewrite (nth_indep _ 0 (f O)) by (rewrite map_length, seq_length; lia).
  rewrite (map_nth f). rewrite seq_nth by lia. reflexivity.
Qed.

(* weights on the corners k, k+1, … contribute w[s-k] at coordinate s *)
Lemma recon_corners_from : forall dim w k s, (s < dim)%nat -> (k + length w <= dim)%nat ->
  recon w (map (unit_vec dim) (seq k (length w))) s ==
  if ((k <=? s) && (s <? k + length w))%nat then nthq w (s - k) else 0.
Proof.
  intros dim. induction w as [|x w IH]; intros k s Hs Hk.
  - cbn [length seq map]. rewrite recon_nil_l.
    destruct ((k <=? s)%nat && (s <? k + 0)%nat) eqn:E; [|lra].
    apply andb_true_iff in E. destruct E as [E1 E2]. apply Nat.leb_le in E1. apply Nat.ltb_lt in E2. lia.
  - cbn [length seq map]. rewrite recon_cons. rewrite nthq_unit by exact Hs.
    rewrite IH by (cbn [length] in Hk; lia || exact Hs). cbn [length].
    destruct (Nat.eqb_spec s k) as [->|Hne].
    + rewrite Nat.sub_diag. unfold nthq at 2. cbn [nth].
      replace ((S k <=? k)%nat) with false by (symmetry; apply Nat.leb_gt; lia). cbn [andb].
      replace ((k <=? k)%nat && (k <? k + S (length w))%nat) with true.
      2:{ symmetry. apply andb_true_iff. split; [apply Nat.leb_le| apply Nat.ltb_lt]; lia. }
      lra.
    + destruct (Nat.leb_spec (S k) s) as [Hle|Hgt].
      * replace ((k <=? s)%nat) with true by (symmetry; apply Nat.leb_le; lia). cbn [andb].
        replace ((s <? k + S (length w))%nat) with ((s <? S k + length w)%nat) by (f_equal; lia).
        destruct ((s <? S k + length w)%nat); [|lra].
        replace (s - k)%nat with (S (s - S k)) by lia. unfold nthq. cbn [nth]. lra.
      * cbn [andb]. replace ((k <=? s)%nat) with false by (symmetry; apply Nat.leb_gt; lia). cbn [andb]. lra.
Qed.

Lemma recon_corners : forall w s, (s < length w)%nat -> recon w (corners (length w)) s == nthq w s.
Proof.
  intros w s Hs. unfold corners. rewrite (recon_corners_from (length w) w 0 s Hs) by lia.
  replace ((0 <=? s)%nat && (s <? 0 + length w)%nat) with true.
  2:{ symmetry. apply andb_true_iff. split; [apply Nat.leb_le| apply Nat.ltb_lt]; lia. }
  rewrite Nat.sub_0_r. reflexivity.
Qed.

Lemma corners_length : forall S, length (corners S) = S.
Proof. intros S. unfold corners. rewrite map_length, seq_length. reflexivity. Qed.

(* scattered weights: sum over the index list *)
Lemma lookup_notin : forall i idx c, ~ In i idx -> lookup i idx c = 0.
Proof.
  intros i. induction idx as [|j idx IH]; intros [|x c] Hn; try reflexivity. cbn [lookup].
  destruct (Nat.eqb_spec i j) as [->|_]; [exfalso; apply Hn; left; reflexivity|].
  apply IH. intros H. apply Hn. right. exact H.
Qed.

Lemma recon_map_add : forall (g h : nat -> Q) l P s,
  recon (map (fun i => g i + h i) l) P s == recon (map g l) P s + recon (map h l) P s.
Proof.
  intros g h. induction l as [|i l IH]; intros [|p P] s; cbn [map]; try (rewrite !recon_nil_l; lra).
  - unfold recon. cbn. lra.
  - rewrite !recon_cons. rewrite IH. lra.
Qed.

Lemma recon_map_ext : forall (g h : nat -> Q) l P s, (forall i, In i l -> g i == h i) ->
  recon (map g l) P s == recon (map h l) P s.
Proof.
  intros g h. induction l as [|i l IH]; intros [|p P] s Hgh; cbn [map]; try reflexivity.
  rewrite !recon_cons. rewrite (Hgh i (or_introl eq_refl)). rewrite IH; [lra|].
  intros j Hj. apply Hgh. right. exact Hj.
Qed.

(* a single weight c at index j *)
Lemma recon_single_from : forall c j P k s,
  recon (map (fun i => if (i =? j)%nat then c else 0) (seq k (length P))) P s ==
  if ((k <=? j) && (j <? k + length P))%nat then c * nthq (nth (j - k) P []) s else 0.
Proof.
  intros c j. induction P as [|p P IH]; intros k s.
  - cbn [length seq map]. rewrite recon_nil_l.
    destruct ((k <=? j)%nat && (j <? k + 0)%nat) eqn:E; [|lra].
    apply andb_true_iff in E. destruct E as [E1 E2]. apply Nat.leb_le in E1. apply Nat.ltb_lt in E2. lia.
  - cbn [length seq map]. rewrite recon_cons. rewrite IH.
    destruct (Nat.eqb_spec k j) as [->|Hne].
    + rewrite Nat.sub_diag. cbn [nth].
      replace ((S j <=? j)%nat) with false by (symmetry; apply Nat.leb_gt; lia). cbn [andb].
      replace ((j <=? j)%nat && (j <? j + S (length P))%nat) with true.
      2:{ symmetry. apply andb_true_iff. split; [apply Nat.leb_le| apply Nat.ltb_lt]; lia. }
      lra.
    + destruct (Nat.leb_spec (S k) j) as [Hle|Hgt].
      * replace ((k <=? j)%nat) with true by (symmetry; apply Nat.leb_le; lia). cbn [andb].
        replace ((j <? k + S (length P))%nat) with ((j <? S k + length P)%nat) by (f_equal; lia).
        destruct ((j <? S k + length P)%nat); [|lra].
        replace (j - k)%nat with (S (j - S k)) by lia. cbn [nth]. lra.
      * replace ((k <=? j)%nat) with false by (symmetry; apply Nat.leb_gt; lia). cbn [andb]. lra.
Qed.

Lemma recon_scatter : forall idx c P s, NoDup idx -> Forall (fun i => (i < length P)%nat) idx ->
  length c = length idx ->
  recon (scatter (length P) idx c) P s ==
  qsum (map (fun ic => snd ic * nthq (nth (fst ic) P []) s) (combine idx c)).
Proof.
  induction idx as [|j idx IH]; intros [|x c] P s Hnd Hlt Hl; try discriminate Hl.
  - cbn [combine map qsum]. unfold scatter.
    rewrite (recon_map_ext _ (fun _ => 0)) by (intros; reflexivity).
    clear. generalize 0%nat. induction P as [|p P IH]; intros k; cbn [length seq map]; [reflexivity|].
    rewrite recon_cons, IH. lra.
  - inversion Hnd as [|? ? Hnotin Hnd']; subst. inversion Hlt as [|? ? Hj Hlt']; subst.
    cbn [combine map qsum fst snd]. rewrite <- IH by (assumption || (cbn in Hl; lia)).
    unfold scatter.
    rewrite (recon_map_ext _ (fun i => (if (i =? j)%nat then x else 0) + lookup i idx c)).
    2:{ intros i _. cbn [lookup]. destruct (Nat.eqb_spec i j) as [->|_]; [|lra].
        rewrite lookup_notin by exact Hnotin. lra. }
    rewrite recon_map_add. rewrite recon_single_from.
    replace ((0 <=? j)%nat && (j <? 0 + length P)%nat) with true.
    2:{ symmetry. apply andb_true_iff. split; [apply Nat.leb_le| apply Nat.ltb_lt]; lia. }
    rewrite Nat.sub_0_r. lra.
Qed.

(* ---------------------------------------------------------------- vector helpers *)
Lemma vsub_length : forall a b, length a = length b -> length (vsub a b) = length a.
Proof. intros a b H. unfold vsub. rewrite map_length, combine_length. lia. Qed.
Lemma vscale_length : forall c a, length (vscale c a) = length a.
Proof. intros. unfold vscale. apply map_length. Qed.
Lemma nthq_vsub : forall a b s, length a = length b -> nthq (vsub a b) s == nthq a s - nthq b s.
Proof.
  induction a as [|x a IH]; intros [|y b] s Hl; try discriminate Hl.
  - unfold nthq, vsub. destruct s; cbn; lra.
  - unfold vsub. cbn [combine map fst snd]. fold (vsub a b). destruct s as [|s]; unfold nthq; cbn [nth]; [lra|].
    apply IH. cbn in Hl; lia.
Qed.
Lemma nthq_vscale : forall c a s, nthq (vscale c a) s == c * nthq a s.
Proof.
  intros c. induction a as [|x a IH]; intros s; unfold nthq, vscale; destruct s; cbn [map nth]; try lra.
  apply IH.
Qed.
Lemma dot_vsub : forall a b c, length a = length b -> dot (vsub a b) c == dot a c - dot b c.
Proof.
  induction a as [|x a IH]; intros [|y b] c Hl; try discriminate Hl.
  - cbn. lra.
  - unfold vsub. cbn [combine map fst snd]. fold (vsub a b). destruct c as [|z c]; cbn [dot]; [lra|].
    rewrite IH by (cbn in Hl; lia). lra.
Qed.
Lemma dot_vscale_l : forall c a b, dot (vscale c a) b == c * dot a b.
Proof. intros. rewrite dot_comm, dot_scale_r, dot_comm. reflexivity. Qed.
Lemma dot_app : forall a1 a2 b1 b2, length a1 = length b1 -> dot (a1 ++ a2) (b1 ++ b2) == dot a1 b1 + dot a2 b2.
Proof.
  induction a1 as [|x a1 IH]; intros a2 [|y b1] b2 Hl; try discriminate Hl; cbn [app dot]; [lra|].
  rewrite IH by (cbn in Hl; lia). lra.
Qed.
Lemma dot_vzero_l : forall n b, dot (vzero n) b == 0.
Proof. intros. rewrite dot_comm. apply dot_repeat0_r. Qed.
Lemma dot_mono : forall p u v, nonneg p -> Forall2 Qle u v -> dot p u <= dot p v.
Proof.
  intros p u v Hp H. revert p Hp. induction H as [|x y u v Hxy H IH]; intros [|z p] Hp; cbn [dot]; try lra.
  inversion Hp as [|? ? Hz Hp']; subst. specialize (IH p Hp'). nra.
Qed.
Lemma dot_as_recon : forall w vals, dot w vals == recon w (map (fun v => [v]) vals) 0.
Proof.
  induction w as [|x w IH]; intros [|v vals]; try reflexivity.
  cbn [map dot]. rewrite recon_cons. rewrite IH. unfold nthq. cbn [nth]. lra.
Qed.
Lemma nonneg_app : forall a b, nonneg a -> nonneg b -> nonneg (a ++ b).
Proof. intros a b Ha Hb. apply Forall_app; split; assumption. Qed.
Lemma nonneg_vzero : forall n, nonneg (vzero n).
Proof. induction n; constructor; [lra| assumption]. Qed.
Lemma nonneg_scatter : forall n idx c, nonneg c -> nonneg (scatter n idx c).
Proof.
  intros n idx c Hc. unfold scatter, nonneg. apply Forall_forall. intros x Hx.
  apply in_map_iff in Hx. destruct Hx as [i [<- _]].
  revert c Hc. induction idx as [|j idx IH]; intros [|y c] Hc; cbn [lookup]; try lra.
  inversion Hc; subst. destruct (i =? j)%nat; [assumption| apply IH; assumption].
Qed.
Lemma scatter_length : forall n idx c, length (scatter n idx c) = n.
Proof. intros. unfold scatter. rewrite map_length, seq_length. reflexivity. Qed.
Lemma vzero_length : forall n, length (vzero n) = n.
Proof. intros. apply repeat_length. Qed.
Lemma Forall2_nthq : forall (R : Q -> Q -> Prop) a b, R 0 0 -> Forall2 R a b -> forall s, R (nthq a s) (nthq b s).
Proof.
  intros R a b R0 H. induction H as [|x y a b Hxy H IH]; intros s; unfold nthq; destruct s; cbn [nth]; try assumption.
  apply IH.
Qed.

(* ---------------------------------------------------------------- well-formed interpolation data *)
Definition interp_wf (point : vec) (pts : list vec) (vals : vec) : Prop :=
  nonneg point /\ Forall sepz point /\ length vals = length pts /\
  Forall (fun b => length b = length point /\ nonneg b /\ Forall sepz b) pts.
Definition ubQ_wf (point : vec) (ubQ : mat) : Prop :=
  length ubQ = length point /\ (0 < nActs ubQ)%nat /\ Forall (fun r => length r = nActs ubQ) ubQ.

Lemma cornerVals_length : forall ubQ, length (cornerVals ubQ) = length ubQ.
Proof. intros. unfold cornerVals. apply map_length. Qed.

Lemma basicV_le_corner : forall point ubQ, nonneg point -> ubQ_wf point ubQ ->
  basicV point ubQ <= dot point (cornerVals ubQ).
Proof.
  intros point ubQ Hp [_ [HA Hrows]]. unfold basicV. apply maxl_le.
  - destruct (nActs ubQ); [lia| discriminate].
  - intros y Hy. apply in_map_iff in Hy. destruct Hy as [a [<- Ha]]. apply in_seq in Ha.
    apply dot_mono; [exact Hp|]. unfold colQ, cornerVals.
    induction Hrows as [|r rows Hr Hrows IH]; constructor; [|exact IH].
    apply maxl_ub. unfold nthq. apply nth_In. lia.
Qed.

(* ---------------------------------------------------------------- sawtooth *)
Lemma st_ratio_spec : forall point b c0 c, nonneg point -> nonneg b -> Forall sepz b ->
  length b = length point -> 0 <= c0 -> st_ratio point b c0 = Some c ->
  0 <= c /\ c <= c0 /\ Forall2 (fun p x => c * x <= p) point b.
Proof.
  induction point as [|p point IH]; intros [|x b] c0 c Hp Hb Hz Hl Hc0 H; try discriminate Hl.
  - cbn in H. inversion H; subst. split; [exact Hc0|]. split; [lra| constructor].
  - cbn [st_ratio] in H.
    inversion Hp as [|? ? Hp0 Hp']; subst. inversion Hb as [|? ? Hx0 Hb']; subst.
    inversion Hz as [|? ? Hzx Hz']; subst. assert (Hl' : length b = length point) by (cbn in Hl; lia).
    destruct (isZero p && negb (isZero x)); [discriminate|].
    destruct (isZero x) eqn:Ex.
    + specialize (Hzx Ex). destruct (IH b c0 c Hp' Hb' Hz' Hl' Hc0 H) as [H1 [H2 H3]].
      split; [exact H1|]. split; [exact H2|]. constructor; [rewrite Hzx; lra| exact H3].
    + pose proof (isZero_false x Ex Hx0) as Hxpos. pose proof epsS_pos as He.
      assert (Hr : (p / x) * x == p) by (field; lra).
      assert (Hr0 : 0 <= p / x) by nra.
      assert (Hm : 0 <= Qmin c0 (p / x)) by (apply Q.min_glb; assumption).
      destruct (IH b (Qmin c0 (p / x)) c Hp' Hb' Hz' Hl' Hm H) as [H1 [H2 H3]].
      pose proof (Q.le_min_l c0 (p / x)). pose proof (Q.le_min_r c0 (p / x)).
      split; [exact H1|]. split; [lra|]. constructor; [nra| exact H3].
Qed.

Section Sawtooth.
  Variables (point cv : vec) (pts0 : list vec) (vals0 : vec).

  Definition st_good (acc : nat * Q * Q) : Prop :=
    let '(mi, mcf, mc) := acc in
    mcf == 0 \/
    ((mi < length pts0)%nat /\ st_ratio point (nth mi pts0 []) 1 = Some mc /\
     mcf == mc * (nthq vals0 mi - dot (nth mi pts0 []) cv) /\ mcf < 0).

  Lemma st_scan_good : forall pts vals pre preV acc,
    pts0 = pre ++ pts -> vals0 = preV ++ vals -> length pre = length preV ->
    st_good acc -> st_good (st_scan point cv pts vals (length pre) acc).
  Proof.
    induction pts as [|b pts IH]; intros [|v vals] pre preV acc Ep Ev Hl Hg; cbn [st_scan]; try exact Hg.
    replace (S (length pre)) with (length (pre ++ [b])) by (rewrite app_length; cbn; lia).
    apply (IH vals (pre ++ [b]) (preV ++ [v])).
    - rewrite <- app_assoc. exact Ep.
    - rewrite <- app_assoc. exact Ev.
    - rewrite !app_length. cbn. lia.
    - destruct (st_ratio point b 1) as [c|] eqn:Er; [|exact Hg].
      destruct acc as [[mi mcf] mc]. destruct (Qlt_le_dec (c * (v - dot b cv)) mcf) as [Hlt|Hge]; [|exact Hg].
      right. assert (Hb : nth (length pre) pts0 [] = b) by (rewrite Ep; apply nth_middle).
      assert (Hv : nthq vals0 (length pre) = v) by (unfold nthq; rewrite Ev, Hl; apply nth_middle).
      split; [rewrite Ep, app_length; cbn; lia|]. rewrite Hb, Hv. split; [exact Er|]. split; [reflexivity|].
      assert (mcf <= 0). { cbn in Hg. destruct Hg as [Hg|[_ [_ [_ Hg]]]]; lra. }
      lra.
  Qed.
End Sawtooth.

Lemma st_scan_good0 : forall point cv pts vals,
  st_good point cv pts vals (st_scan point cv pts vals 0 (O, 0, 0)).
Proof.
  intros. apply (st_scan_good point cv pts vals pts vals [] [] (O, 0, 0)); try reflexivity.
  left. reflexivity.
Qed.

Lemma weights_ok_corner_only : forall point pts, nonneg point ->
  weights_ok point pts (point ++ vzero (length pts)).
Proof.
  intros point pts Hp. split; [apply nonneg_app; [exact Hp| apply nonneg_vzero]|].
  split; [rewrite app_length, vzero_length; reflexivity|].
  intros s Hs. rewrite recon_app by (rewrite corners_length; reflexivity).
  rewrite recon_corners by exact Hs. rewrite recon_zero. lra.
Qed.

Lemma weighted_corner_only : forall point (pts : list vec) cv vals, length cv = length point ->
  weighted_value (point ++ vzero (length pts)) cv vals == dot point cv.
Proof.
  intros. unfold weighted_value. rewrite dot_app by congruence. rewrite dot_vzero_l. lra.
Qed.

(* one stored point mi with coefficient mc, the rest on the corners *)
Section OnePoint.
  Variables (point : vec) (pts : list vec) (vals : vec) (mi : nat) (mc : Q).
  Hypothesis Hwf : interp_wf point pts vals.
  Hypothesis Hmi : (mi < length pts)%nat.
  Hypothesis Hr : st_ratio point (nth mi pts []) 1 = Some mc.
  Let b := nth mi pts [].
  Let w := vsub point (vscale mc b) ++ scatter (length pts) [mi] [mc].

  Lemma onepoint_b : length b = length point /\ nonneg b /\ Forall sepz b.
  Proof.
    destruct Hwf as [_ [_ [_ Hp]]]. rewrite Forall_forall in Hp. apply Hp. apply nth_In. exact Hmi.
  Qed.
  Lemma onepoint_ratio : 0 <= mc /\ mc <= 1 /\ Forall2 (fun p x => mc * x <= p) point b.
  Proof.
    destruct Hwf as [Hp _]. destruct onepoint_b as [Hl [Hb Hz]].
    apply (st_ratio_spec point b 1 mc Hp Hb Hz Hl); [lra| exact Hr].
  Qed.
  Lemma onepoint_recon_pts : forall s, recon (scatter (length pts) [mi] [mc]) pts s == mc * nthq b s.
  Proof.
    intros s. rewrite recon_scatter.
    - cbn [combine map qsum fst snd]. fold b. lra.
    - constructor; [intros []| constructor].
    - constructor; [exact Hmi| constructor].
    - reflexivity.
  Qed.

  Lemma onepoint_weights_ok : weights_ok point pts w.
  Proof.
    destruct Hwf as [Hp _]. destruct onepoint_b as [Hl [Hb Hz]]. destruct onepoint_ratio as [Hc0 [Hc1 HF]].
    assert (Hlen : length (vsub point (vscale mc b)) = length point).
    { apply vsub_length. rewrite vscale_length. congruence. }
    split; [|split].
    - apply nonneg_app.
      + unfold nonneg. apply Forall_forall. intros x Hx. apply (In_nth _ _ 0) in Hx. destruct Hx as [s [_ <-]].
        change (0 <= nthq (vsub point (vscale mc b)) s).
        rewrite nthq_vsub by (rewrite vscale_length; congruence). rewrite nthq_vscale.
        pose proof (Forall2_nthq (fun p x => mc * x <= p) point b) as HN. cbv beta in HN.
        assert (H0 : mc * 0 <= 0) by lra. specialize (HN H0 HF s). lra.
      + apply nonneg_scatter. constructor; [exact Hc0| constructor].
    - unfold w. rewrite app_length, Hlen, scatter_length. reflexivity.
    - intros s Hs. unfold w. rewrite recon_app by (rewrite corners_length; exact Hlen).
      rewrite <- Hlen at 1. rewrite recon_corners by (rewrite Hlen; exact Hs).
      rewrite nthq_vsub by (rewrite vscale_length; congruence). rewrite nthq_vscale.
      rewrite onepoint_recon_pts. lra.
  Qed.

  Lemma onepoint_weighted : forall cv, length cv = length point ->
    weighted_value w cv vals == dot point cv + mc * (nthq vals mi - dot b cv).
  Proof.
    intros cv Hcv. destruct Hwf as [_ [_ [Hlv _]]]. destruct onepoint_b as [Hl _].
    unfold weighted_value, w. rewrite dot_app.
    2:{ rewrite vsub_length; [congruence| rewrite vscale_length; congruence]. }
    rewrite dot_vsub by (rewrite vscale_length; congruence). rewrite dot_vscale_l.
    assert (E1 : dot (scatter (length pts) [mi] [mc]) vals == mc * nthq vals mi).
    { rewrite dot_as_recon.
      replace (length pts) with (length (map (fun v : Q => [v]) vals)) by (rewrite map_length; lia).
      rewrite recon_scatter.
      - cbn [combine map qsum fst snd].
        assert (E : nth mi (map (fun v : Q => [v]) vals) [] = [nthq vals mi]).
        { rewrite (nth_indep _ [] ((fun v : Q => [v]) 0)) by (rewrite map_length; lia).
          rewrite (map_nth (fun v : Q => [v])). reflexivity. }
        unfold vec in *. rewrite E. unfold nthq at 1. cbn [nth]. lra.
      - constructor; [intros []| constructor].
      - constructor; [rewrite map_length; lia| constructor].
      - reflexivity. }
    rewrite E1. fold b. lra.
  Qed.

  Lemma onepoint_feasible : interp_feasible point pts (scatter (length pts) [mi] [mc]).
  Proof.
    destruct onepoint_ratio as [Hc0 [Hc1 HF]].
    split; [apply nonneg_scatter; constructor; [exact Hc0| constructor]|].
    split; [apply scatter_length|]. intros s Hs. rewrite onepoint_recon_pts.
    pose proof (Forall2_nthq (fun p x => mc * x <= p) point b) as HN. cbv beta in HN.
    assert (H0 : mc * 0 <= 0) by lra. exact (HN H0 HF s).
  Qed.
End OnePoint.

Lemma interp_gain_single_from : forall cv c j pts vals k, length vals = length pts ->
  interp_gain cv (map (fun i => if (i =? j)%nat then c else 0) (seq k (length pts))) pts vals ==
  if ((k <=? j) && (j <? k + length pts))%nat then c * (nthq vals (j - k) - dot (nth (j - k) pts []) cv) else 0.
Proof.
  intros cv c j. induction pts as [|p pts IH]; intros [|v vals] k Hl; try discriminate Hl.
  - cbn [length seq map interp_gain].
    destruct ((k <=? j)%nat && (j <? k + 0)%nat) eqn:E; [|lra].
    apply andb_true_iff in E. destruct E as [E1 E2]. apply Nat.leb_le in E1. apply Nat.ltb_lt in E2. lia.
  - cbn [length seq map interp_gain]. rewrite IH by (cbn in Hl; lia).
    destruct (Nat.eqb_spec k j) as [->|Hne].
    + rewrite Nat.sub_diag. unfold nthq. cbn [nth].
      replace ((S j <=? j)%nat) with false by (symmetry; apply Nat.leb_gt; lia). cbn [andb].
      replace ((j <=? j)%nat && (j <? j + S (length pts))%nat) with true.
      2:{ symmetry. apply andb_true_iff. split; [apply Nat.leb_le| apply Nat.ltb_lt]; lia. }
      lra.
    + destruct (Nat.leb_spec (S k) j) as [Hle|Hgt].
      * replace ((k <=? j)%nat) with true by (symmetry; apply Nat.leb_le; lia). cbn [andb].
        replace ((j <? k + S (length pts))%nat) with ((j <? S k + length pts)%nat) by (f_equal; lia).
        destruct ((j <? S k + length pts)%nat); [|lra].
        replace (j - k)%nat with (S (j - S k)) by lia. unfold nthq. cbn [nth]. lra.
      * replace ((k <=? j)%nat) with false by (symmetry; apply Nat.leb_gt; lia). cbn [andb]. lra.
Qed.

Lemma onepoint_objective : forall point cv pts vals mi mc, length vals = length pts -> (mi < length pts)%nat ->
  interp_objective point cv pts vals (scatter (length pts) [mi] [mc]) ==
  dot point cv + mc * (nthq vals mi - dot (nth mi pts []) cv).
Proof.
  intros point cv pts vals mi mc Hl Hmi. unfold interp_objective, scatter.
  assert (E : interp_gain cv (map (fun i => lookup i [mi] [mc]) (seq 0 (length pts))) pts vals ==
              interp_gain cv (map (fun i => if (i =? mi)%nat then mc else 0) (seq 0 (length pts))) pts vals).
  { reflexivity. }
  rewrite E, interp_gain_single_from by exact Hl.
  replace ((0 <=? mi)%nat && (mi <? 0 + length pts)%nat) with true.
  2:{ symmetry. apply andb_true_iff. split; [apply Nat.leb_le| apply Nat.ltb_lt]; lia. }
  rewrite Nat.sub_0_r. reflexivity.
Qed.

(* the three property theorems for the (repaired) sawtoothInterpolation *)
Theorem sawtooth_weights_ok_lemma : forall point ubQ pts vals, interp_wf point pts vals ->
  weights_ok point pts (snd (sawtoothInterpolation point ubQ pts vals)).
Proof.
  intros point ubQ pts vals Hwf. unfold sawtoothInterpolation.
  pose proof (st_scan_good0 point (cornerVals ubQ) pts vals) as Hg.
  destruct (st_scan point (cornerVals ubQ) pts vals 0 (O, 0, 0)) as [[mi mcf] mc].
  destruct Hwf as [Hp Hrest]. pose proof (conj Hp Hrest) as Hwf.
  destruct (Qlt_le_dec (basicV point ubQ) (dot point (cornerVals ubQ) + mcf)); cbn [snd];
    [apply weights_ok_corner_only; exact Hp|].
  destruct (Qeq_bool mcf 0) eqn:E0; cbn [snd]; [apply weights_ok_corner_only; exact Hp|].
  cbn in Hg. destruct Hg as [Hg|[Hmi [Hr _]]].
  - apply Qeq_bool_iff in Hg. congruence.
  - exact (onepoint_weights_ok point pts vals mi mc Hwf Hmi Hr).
Qed.

Theorem sawtooth_value_le_weighted_lemma : forall point ubQ pts vals,
  interp_wf point pts vals -> ubQ_wf point ubQ ->
  fst (sawtoothInterpolation point ubQ pts vals) <=
  weighted_value (snd (sawtoothInterpolation point ubQ pts vals)) (cornerVals ubQ) vals.
Proof.
  intros point ubQ pts vals Hwf HQ. unfold sawtoothInterpolation.
  pose proof (st_scan_good0 point (cornerVals ubQ) pts vals) as Hg.
  destruct (st_scan point (cornerVals ubQ) pts vals 0 (O, 0, 0)) as [[mi mcf] mc].
  assert (Hp : nonneg point) by apply Hwf.
  assert (Hcv : length (cornerVals ubQ) = length point) by (rewrite cornerVals_length; apply HQ).
  pose proof (basicV_le_corner point ubQ Hp HQ) as HbV.
  destruct (Qlt_le_dec (basicV point ubQ) (dot point (cornerVals ubQ) + mcf)); cbn [fst snd];
    [rewrite weighted_corner_only by exact Hcv; exact HbV|].
  destruct (Qeq_bool mcf 0) eqn:E0; cbn [fst snd]; [rewrite weighted_corner_only by exact Hcv; exact HbV|].
  cbn in Hg. destruct Hg as [Hg|[Hmi [Hr [Hcf _]]]].
  - apply Qeq_bool_iff in Hg. congruence.
  - rewrite (onepoint_weighted point pts vals mi mc Hwf Hmi _ Hcv). rewrite Hcf. lra.
Qed.

Theorem sawtooth_between_lemma : forall point ubQ pts vals,
  interp_wf point pts vals -> ubQ_wf point ubQ ->
  let v := fst (sawtoothInterpolation point ubQ pts vals) in
  v <= dot point (cornerVals ubQ) /\ v <= basicV point ubQ /\
  forall L, (forall c, interp_feasible point pts c -> L <= interp_objective point (cornerVals ubQ) pts vals c) ->
            Qmin L (basicV point ubQ) <= v.
Proof.
  intros point ubQ pts vals Hwf HQ. unfold sawtoothInterpolation.
  pose proof (st_scan_good0 point (cornerVals ubQ) pts vals) as Hg.
  destruct (st_scan point (cornerVals ubQ) pts vals 0 (O, 0, 0)) as [[mi mcf] mc].
  assert (Hp : nonneg point) by apply Hwf.
  pose proof (basicV_le_corner point ubQ Hp HQ) as HbV.
  destruct (Qlt_le_dec (basicV point ubQ) (dot point (cornerVals ubQ) + mcf)) as [Hlt|Hge]; cbn [fst].
  { split; [exact HbV|]. split; [lra|]. intros L _. apply Q.le_min_r. }
  destruct (Qeq_bool mcf 0) eqn:E0; cbn [fst].
  { split; [exact HbV|]. split; [lra|]. intros L _. apply Q.le_min_r. }
  cbn in Hg. destruct Hg as [Hg|[Hmi [Hr [Hcf Hneg]]]].
  - apply Qeq_bool_iff in Hg. congruence.
  - split; [lra|]. split; [exact Hge|]. intros L HL.
    specialize (HL _ (onepoint_feasible point pts vals mi mc Hwf Hmi Hr)).
    rewrite onepoint_objective in HL by (apply Hwf || exact Hmi).
    pose proof (Q.le_min_l L (basicV point ubQ)). rewrite Hcf. lra.
Qed.

(* ---------------------------------------------------------------- LPInterpolation *)
Lemma nthq_nonneg : forall v s, nonneg v -> 0 <= nthq v s.
Proof.
  intros v s H. revert s. induction H as [|x v Hx H IH]; intros s; unfold nthq; destruct s; cbn [nth]; try lra.
  apply IH.
Qed.
Lemma Forall_nthq : forall (P : Q -> Prop) v s, P 0 -> Forall P v -> P (nthq v s).
Proof.
  intros P v s P0 H. revert s. induction H as [|x v Hx H IH]; intros s; unfold nthq; destruct s; cbn [nth]; try assumption.
  apply IH.
Qed.
Lemma sepz_0 : sepz 0. Proof. intros _. reflexivity. Qed.
Lemma nthq_map_seq : forall (g : nat -> Q) n s, (s < n)%nat -> nthq (map g (seq 0 n)) s = g s.
Proof.
  intros g n s Hs. unfold nthq. rewrite (nth_indep _ 0 (g O)) by (rewrite map_length, seq_length; lia).
  rewrite (map_nth g). rewrite seq_nth by lia. reflexivity.
Qed.
Lemma qsum_map_zero : forall (B : Type) (h : B -> Q) l, (forall x, In x l -> h x == 0) -> qsum (map h l) == 0.
Proof.
  intros B h. induction l as [|x l IH]; intros H; cbn [map qsum]; [lra|].
  rewrite (H x (or_introl eq_refl)), IH; [lra|]. intros y Hy. apply H. right. exact Hy.
Qed.
Lemma dot_map_combine : forall (g : nat -> Q) idx c, length c = length idx ->
  dot (map g idx) c == qsum (map (fun ic => g (fst ic) * snd ic) (combine idx c)).
Proof.
  intros g. induction idx as [|j idx IH]; intros [|x c] Hl; try discriminate Hl; cbn [map dot combine qsum fst snd]; [lra|].
  rewrite IH by (cbn in Hl; lia). lra.
Qed.
Lemma Forall2_map_same : forall (B : Type) (R : vec -> Q -> Prop) (f : B -> vec) (g : B -> Q) l,
  Forall2 R (map f l) (map g l) -> forall x, In x l -> R (f x) (g x).
Proof.
  intros B R f g. induction l as [|y l IH]; intros H x Hx; [destruct Hx|].
  cbn [map] in H. inversion H; subst. destruct Hx as [<-|Hx]; [assumption| apply IH; assumption].
Qed.

Definition lp_sound (lp_min : mat -> vec -> vec -> option vec) : Prop :=
  forall rows rhs coef c, lp_min rows rhs coef = Some c ->
    nonneg c /\ length c = length coef /\ Forall2 (fun r b => dot r c <= b) rows rhs.

Section LPIProofs.
  Variables (point : vec) (pts : list vec) (vals : vec).
  Hypothesis Hwf : interp_wf point pts vals.
  Let compat := compatiblePoints point pts.

  Lemma in_nonZero : forall s, In s (nonZeroStates point) <-> (s < length point)%nat /\ isZero (nthq point s) = false.
  Proof.
    intros s. unfold nonZeroStates. rewrite filter_In, in_seq, negb_true_iff. intuition lia.
  Qed.
  Lemma in_zero : forall s, In s (zeroStates point) <-> (s < length point)%nat /\ isZero (nthq point s) = true.
  Proof. intros s. unfold zeroStates. rewrite filter_In, in_seq. intuition lia. Qed.

  Lemma compat_props : NoDup compat /\ Forall (fun i => (i < length pts)%nat) compat /\
    forall i s, In i compat -> (s < length point)%nat -> isZero (nthq point s) = true -> nthq (nth i pts []) s == 0.
  Proof.
    unfold compat, compatiblePoints. destruct (zeroStates point) as [|z zs] eqn:Ez.
    - split; [apply seq_NoDup|]. split; [apply Forall_forall; intros i Hi; apply in_seq in Hi; lia|].
      intros i s _ Hs Hz. assert (In s (zeroStates point)) by (apply in_zero; split; assumption).
      rewrite Ez in H. destruct H.
    - rewrite <- Ez. split; [apply NoDup_filter, seq_NoDup|]. split.
      + apply Forall_forall. intros i Hi. apply filter_In in Hi. destruct Hi as [Hi _]. apply in_seq in Hi. lia.
      + intros i s Hi Hs Hz. apply filter_In in Hi. destruct Hi as [Hi Hf]. apply in_seq in Hi.
        rewrite forallb_forall in Hf. specialize (Hf s (proj2 (in_zero s) (conj Hs Hz))).
        destruct Hwf as [_ [_ [_ Hp]]]. rewrite Forall_forall in Hp.
        assert (Hi' : (i < length pts)%nat) by lia.
        destruct (Hp (nth i pts []) (nth_In _ _ Hi')) as [_ [_ Hsz]].
        exact (Forall_nthq sepz _ s sepz_0 Hsz Hf).
  Qed.

  Definition lpi_feas (c : vec) : Prop :=
    nonneg c /\ length c = length compat /\
    forall s, In s (nonZeroStates point) ->
      qsum (map (fun ic => nthq (nth (fst ic) pts []) s * snd ic) (combine compat c)) <= nthq point s.

  Lemma lpi_raw_weights_ok : forall c, lpi_feas c -> weights_ok point pts (lpi_raw point pts compat c).
  Proof.
    intros c [Hc [Hlc Hrows]]. destruct compat_props as [Hnd [Hlt Hz]]. destruct Hwf as [Hp [Hsz _]].
    assert (Hlen : length (lpi_corner_raw point pts compat c) = length point).
    { unfold lpi_corner_raw. rewrite map_length, seq_length. reflexivity. }
    unfold lpi_raw. split; [|split].
    - apply nonneg_app; [|apply nonneg_scatter; exact Hc].
      unfold lpi_corner_raw, nonneg. apply Forall_forall. intros x Hx. apply in_map_iff in Hx.
      destruct Hx as [s [<- Hs]]. apply in_seq in Hs. destruct (isZero (nthq point s)) eqn:E; [lra|].
      assert (Hs' : (s < length point)%nat) by lia.
      specialize (Hrows s (proj2 (in_nonZero s) (conj Hs' E))). lra.
    - rewrite app_length, Hlen, scatter_length. reflexivity.
    - intros s Hs. rewrite recon_app by (rewrite corners_length; exact Hlen).
      rewrite <- Hlen at 1. rewrite recon_corners by (rewrite Hlen; exact Hs).
      rewrite recon_scatter by assumption. unfold lpi_corner_raw. rewrite nthq_map_seq by exact Hs.
      destruct (isZero (nthq point s)) eqn:E.
      + rewrite qsum_map_zero.
        * rewrite (Forall_nthq sepz point s sepz_0 Hsz E). lra.
        * intros [i x] Hix. cbn [fst snd]. apply in_combine_l in Hix. rewrite (Hz i s Hix Hs E). lra.
      + assert (Esum : qsum (map (fun ic : nat * Q => snd ic * nthq (nth (fst ic) pts []) s) (combine compat c)) ==
                       qsum (map (fun ic : nat * Q => nthq (nth (fst ic) pts []) s * snd ic) (combine compat c))).
        { apply qsum_map_ext. intros ic _. lra. }
        rewrite Esum. lra.
  Qed.

  (* the single-point shortcut (repaired) produces a feasible coefficient *)
  Lemma shortcut_fold : forall comp l acc, nonneg comp -> Forall sepz comp -> 0 <= acc ->
    let r := fold_left (fun a s => if isZero (nthq comp s) then a else Qmin a (nthq point s / nthq comp s)) l acc in
    0 <= r /\ r <= acc /\ forall s, In s l -> r * nthq comp s <= nthq point s.
  Proof.
    intros comp l. destruct Hwf as [Hp _]. induction l as [|s l IH]; intros acc Hc Hz Ha; cbn [fold_left].
    - split; [exact Ha|]. split; [lra| intros s []].
    - pose proof (nthq_nonneg point s Hp) as Hps. pose proof (nthq_nonneg comp s Hc) as Hcs.
      destruct (isZero (nthq comp s)) eqn:E.
      + destruct (IH acc Hc Hz Ha) as [H1 [H2 H3]]. split; [exact H1|]. split; [exact H2|].
        intros t [<-|Ht]; [|apply H3; exact Ht].
        rewrite (Forall_nthq sepz comp s sepz_0 Hz E). lra.
      + pose proof (isZero_false _ E Hcs) as Hpos. pose proof epsS_pos as He.
        assert (Hr : (nthq point s / nthq comp s) * nthq comp s == nthq point s) by (field; lra).
        assert (Hr0 : 0 <= nthq point s / nthq comp s) by nra.
        assert (Hm : 0 <= Qmin acc (nthq point s / nthq comp s)) by (apply Q.min_glb; assumption).
        destruct (IH _ Hc Hz Hm) as [H1 [H2 H3]].
        pose proof (Q.le_min_l acc (nthq point s / nthq comp s)). pose proof (Q.le_min_r acc (nthq point s / nthq comp s)).
        split; [exact H1|]. split; [lra|]. intros t [<-|Ht]; [nra| apply H3; exact Ht].
  Qed.

  Variable lp_min : mat -> vec -> vec -> option vec.
  Hypothesis Hlp : lp_sound lp_min.

  Lemma lpi_solve_feas : forall cv c u, lpi_solve lp_min point cv pts vals compat = Some (c, u) -> lpi_feas c.
  Proof.
    intros cv c u H. unfold lpi_solve in H.
    assert (HLP : forall c' u', match lp_min (lpi_rows point pts compat) (lpi_rhs point) (lpi_coef point cv pts vals compat) with
                      | Some c0 => Some (c0, dot (lpi_coef point cv pts vals compat) c0) | None => None end = Some (c', u') -> lpi_feas c').
    { intros c' u' H'. destruct (lp_min _ _ _) as [c0|] eqn:E; [|discriminate]. inversion H'; subst.
      destruct (Hlp _ _ _ _ E) as [Hc [Hl HF]]. split; [exact Hc|].
      assert (Hl' : length c' = length compat) by (rewrite Hl; unfold lpi_coef; apply map_length).
      split; [exact Hl'|]. intros s Hs. unfold lpi_rows, lpi_rhs in HF.
      pose proof (Forall2_map_same nat (fun r b => dot r c' <= b) _ _ _ HF s Hs) as Hrow. cbv beta in Hrow.
      rewrite dot_map_combine in Hrow by exact Hl'. exact Hrow. }
    destruct compat as [|i [|i2 rest]] eqn:Ec.
    - eapply HLP; exact H.
    - destruct compat_props as [_ [Hlt _]]. fold compat in Hlt. rewrite Ec in Hlt. inversion Hlt as [|? ? Hi _]; subst.
      destruct Hwf as [Hpn [_ [_ Hp]]]. rewrite Forall_forall in Hp.
      destruct (Hp (nth i pts []) (nth_In _ _ Hi)) as [_ [Hnn Hsz]].
      assert (H01 : 0 <= 1) by lra.
      pose proof (shortcut_fold (nth i pts []) (nonZeroStates point) 1 Hnn Hsz H01) as [H1 [H2 H3]].
      unfold lpi_feas. rewrite Ec.
      destruct (Qlt_le_dec 0 _) in H; inversion H; subst; clear H.
      + split; [constructor; [lra| constructor]|]. split; [reflexivity|].
        intros s Hs. cbn [combine map qsum fst snd]. pose proof (nthq_nonneg point s Hpn). lra.
      + split; [constructor; [exact H1| constructor]|]. split; [reflexivity|].
        intros s Hs. cbn [combine map qsum fst snd]. specialize (H3 s Hs). lra.
    - eapply HLP; exact H.
  Qed.

  (* interp_weights_ok for the (repaired) LPInterpolation: the weights before the final clean-up
     are exact interpolation weights; the clean-up only zeroes entries (see cleanup_spec) *)
  Theorem lpi_weights_ok_lemma : forall ubQ v w, LPInterpolation lp_min point ubQ pts vals = Some (v, w) ->
    exists raw, (w = raw \/ w = map cleanup raw) /\ weights_ok point pts raw.
  Proof.
    intros ubQ v w H. unfold LPInterpolation in H. fold compat in H.
    destruct compat as [|i rest] eqn:Ec.
    - inversion H; subst. exists (point ++ vzero (length pts)). split; [left; reflexivity|].
      apply weights_ok_corner_only. apply Hwf.
    - rewrite <- Ec in *. destruct (lpi_solve lp_min point (cornerVals ubQ) pts vals compat) as [[c u]|] eqn:Es; [|discriminate].
      inversion H; subst. exists (lpi_raw point pts compat c). split; [right; reflexivity|].
      apply lpi_raw_weights_ok. eapply lpi_solve_feas; exact Es.
  Qed.
End LPIProofs.

Lemma cleanup_spec : forall x, 0 <= cleanup x /\ (0 <= x -> cleanup x <= x /\ x - cleanup x <= epsS) /\
  (sepz x -> 0 <= x -> cleanup x == x).
Proof.
  intros x. unfold cleanup. pose proof epsS_pos as He. destruct (isZero x) eqn:E.
  - pose proof (isZero_true x E) as [H1 H2]. split; [lra|]. split; [intros; split; lra|].
    intros Hs _. rewrite (Hs E). reflexivity.
  - destruct (Qlt_le_dec x 0) as [Hn|Hp]; (split; [lra|]); split; try (intros; split; lra); intros; lra.
Qed.

Lemma cleanup_nonneg : forall raw, nonneg (map cleanup raw).
Proof. intros raw. unfold nonneg. apply Forall_forall. intros x Hx. apply in_map_iff in Hx. destruct Hx as [y [<- _]]. apply cleanup_spec. Qed.

Lemma recon_veq : forall w w' P s, veq w w' -> recon w P s == recon w' P s.
Proof.
  intros w w' P s H. revert P. induction H as [|x y w w' Hxy H IH]; intros [|p P]; try reflexivity.
  rewrite !recon_cons, IH, Hxy. reflexivity.
Qed.

(* when no raw weight lies in (0, 1e-6] the cleaned weights are exact as well *)
Lemma weights_ok_cleanup : forall point pts raw, weights_ok point pts raw -> Forall sepz raw ->
  weights_ok point pts (map cleanup raw).
Proof.
  intros point pts raw [Hn [Hl Hr]] Hs. split; [apply cleanup_nonneg|]. split; [rewrite map_length; exact Hl|].
  intros s Hlt. rewrite <- (Hr s Hlt). apply recon_veq.
  clear Hr Hl. induction raw as [|x raw IH]; cbn [map]; constructor.
  - inversion Hn; subst. inversion Hs; subst. apply cleanup_spec; assumption.
  - inversion Hn; subst. inversion Hs; subst. apply IH; assumption.
Qed.

(* refutation witnesses for the weight placement of the pinned commit (DESIGN §6) *)
Example lpi_weights_orig_refuted :
  let point := [1#2; 1#2; 0] in
  let pts := [[1#2; 1#2; 0]; [3#4; 1#4; 0]; [1#4; 1#4; 1#2]] in
  let compat := compatiblePoints point pts in
  compat = [0%nat; 1%nat] /\
  weights_okb point pts (map cleanup (lpi_raw_orig point pts compat [1; 0])) = false /\
  weights_okb point pts (map cleanup (lpi_raw point pts compat [1; 0])) = true.
Proof. vm_compute. repeat split. Qed.

Example sawtooth_weights_orig_refuted :
  let point := [3#4; 1#4; 0] in
  let ubQ := [[1; 0]; [0; 1]; [1; 1]] in
  let pts := [[1#4; 1#4; 1#2]; [1#2; 1#2; 0]] in
  let vals := [1#2; 1#4] in
  weights_okb point pts (snd (sawtoothInterpolation_orig point ubQ pts vals)) = false /\
  weights_okb point pts (snd (sawtoothInterpolation point ubQ pts vals)) = true /\
  fst (sawtoothInterpolation point ubQ pts vals) == 5#8.
Proof. vm_compute. repeat split. Qed.

(* ---------------------------------------------------------------- LPInterpolation: value *)
Lemma qsum_filter : forall (f : nat -> bool) (h : nat -> Q) l,
  qsum (map h (filter f l)) == qsum (map (fun s => if f s then h s else 0) l).
Proof.
  intros f h. induction l as [|s l IH]; cbn [filter map qsum]; [lra|].
  destruct (f s); cbn [map qsum]; rewrite IH; lra.
Qed.
Lemma qsum_swap : forall (B : Type) (F : nat -> B -> Q) (L : list nat) (K : list B),
  qsum (map (fun s => qsum (map (fun k => F s k) K)) L) == qsum (map (fun k => qsum (map (fun s => F s k) L)) K).
Proof.
  intros B F. induction L as [|s L IH]; intros K; cbn [map qsum].
  - symmetry. apply qsum_map_zero. intros; reflexivity.
  - rewrite IH. rewrite <- qsum_map_add. apply qsum_map_ext. intros k _. cbn [map qsum]. lra.
Qed.
Lemma qsum_scale_r : forall (B : Type) (h : B -> Q) a K, qsum (map (fun k => h k * a) K) == qsum (map h K) * a.
Proof. intros B h a. induction K as [|k K IH]; cbn [map qsum]; [lra| rewrite IH; lra]. Qed.
Lemma dot_map_seq : forall cv (g : nat -> Q),
  dot (map g (seq 0 (length cv))) cv == qsum (map (fun s => g s * nthq cv s) (seq 0 (length cv))).
Proof.
  induction cv as [|y cv IH]; intros g; cbn [length]; [reflexivity|].
  rewrite <- cons_seq, <- seq_shift. cbn [map dot qsum]. rewrite !map_map. rewrite IH.
  unfold nthq at 1. cbn [nth]. apply Qplus_comp; [reflexivity|].
  apply qsum_map_ext. intros s _. unfold nthq. cbn [nth]. reflexivity.
Qed.
Lemma vec_as_map : forall v : vec, v = map (nthq v) (seq 0 (length v)).
Proof.
  induction v as [|x v IH]; [reflexivity|]. cbn [length]. rewrite <- cons_seq, <- seq_shift. cbn [map].
  rewrite map_map. unfold nthq at 1. cbn [nth]. f_equal. exact IH.
Qed.

Section LPIValue.
  Variables (point : vec) (pts : list vec) (vals cv : vec).
  Hypothesis Hwf : interp_wf point pts vals.
  Hypothesis Hcv : length cv = length point.
  Let compat := compatiblePoints point pts.

  Lemma lpi_raw_value : forall c, lpi_feas point pts c ->
    dot (lpi_coef point cv pts vals compat) c + dot point cv ==
    weighted_value (lpi_raw point pts compat c) cv vals.
  Proof.
    intros c [Hc [Hlc _]]. fold compat in Hlc.
    destruct (compat_props point pts vals Hwf) as [Hnd [Hlt _]]. fold compat in Hnd, Hlt.
    destruct Hwf as [Hp [Hsz [Hlv _]]].
    set (z := fun s => isZero (nthq point s)).
    set (K := combine compat c).
    set (Tsk := fun (s : nat) (k : nat * Q) => if z s then 0 else nthq (nth (fst k) pts []) s * snd k * nthq cv s).
    (* the four sums *)
    assert (EA : dot (lpi_corner_raw point pts compat c) cv ==
                 qsum (map (fun s => (if z s then 0 else nthq point s * nthq cv s) - qsum (map (Tsk s) K)) (seq 0 (length cv)))).
    { unfold lpi_corner_raw. rewrite <- Hcv. rewrite dot_map_seq. apply qsum_map_ext. intros s _.
      fold (z s). fold K. destruct (z s) eqn:Ez.
      - rewrite (qsum_map_zero _ (Tsk s)) by (intros k _; unfold Tsk; rewrite Ez; reflexivity). lra.
      - assert (ET : qsum (map (Tsk s) K) == qsum (map (fun k : nat * Q => nthq (nth (fst k) pts []) s * snd k) K) * nthq cv s).
        { rewrite <- qsum_scale_r. apply qsum_map_ext. intros k _. unfold Tsk. rewrite Ez. reflexivity. }
        rewrite ET. lra. }
    assert (EB : dot point cv == qsum (map (fun s => if z s then 0 else nthq point s * nthq cv s) (seq 0 (length cv)))).
    { rewrite (vec_as_map point) at 1. rewrite <- Hcv. rewrite dot_map_seq. apply qsum_map_ext. intros s _.
      unfold z. destruct (isZero (nthq point s)) eqn:E; [|reflexivity].
      rewrite (Forall_nthq sepz point s sepz_0 Hsz E). lra. }
    assert (EC : dot (scatter (length pts) compat c) vals == qsum (map (fun k : nat * Q => snd k * nthq vals (fst k)) K)).
    { rewrite dot_as_recon.
      replace (length pts) with (length (map (fun v : Q => [v]) vals)) by (rewrite map_length; lia).
      rewrite recon_scatter.
      - apply qsum_map_ext. intros [i x] Hix. cbn [fst snd]. apply in_combine_l in Hix.
        rewrite Forall_forall in Hlt. specialize (Hlt i Hix).
        assert (E : nth i (map (fun v : Q => [v]) vals) [] = [nthq vals i]).
        { rewrite (nth_indep _ [] ((fun v : Q => [v]) 0)) by (rewrite map_length; lia).
          rewrite (map_nth (fun v : Q => [v])). reflexivity. }
        unfold vec in *. rewrite E. unfold nthq at 1. cbn [nth]. reflexivity.
      - exact Hnd.
      - rewrite map_length, Hlv. exact Hlt.
      - exact Hlc. }
    assert (ED : dot (lpi_coef point cv pts vals compat) c ==
                 qsum (map (fun k : nat * Q => snd k * nthq vals (fst k) - qsum (map (fun s => Tsk s k) (seq 0 (length cv)))) K)).
    { unfold lpi_coef. rewrite dot_map_combine by exact Hlc. fold K. apply qsum_map_ext. intros [i x] _. cbn [fst snd].
      unfold nonZeroStates.
      pose proof (qsum_filter (fun s => negb (isZero (nthq point s))) (fun s => nthq (nth i pts []) s * nthq cv s) (seq 0 (length point))) as E1.
      assert (E2 : qsum (map (fun s => Tsk s (i, x)) (seq 0 (length cv))) ==
                   qsum (map (fun s => if negb (isZero (nthq point s)) then nthq (nth i pts []) s * nthq cv s else 0) (seq 0 (length point))) * x).
      { rewrite Hcv. rewrite <- qsum_scale_r. apply qsum_map_ext. intros s _. unfold Tsk, z. cbn [fst snd].
        destruct (isZero (nthq point s)); cbn [negb]; lra. }
      rewrite E1, E2. lra. }
    unfold weighted_value, lpi_raw. rewrite dot_app.
    2:{ unfold lpi_corner_raw. rewrite map_length, seq_length. congruence. }
    rewrite EA, EC, ED, EB.
    (* split the differences and swap the double sum *)
    assert (S1 : forall (f g : nat -> Q) l, qsum (map (fun s => f s - g s) l) == qsum (map f l) - qsum (map g l)).
    { intros f g l. induction l as [|s l IH]; cbn [map qsum]; [lra| rewrite IH; lra]. }
    assert (S2 : forall (f g : nat * Q -> Q) l, qsum (map (fun s => f s - g s) l) == qsum (map f l) - qsum (map g l)).
    { intros f g l. induction l as [|s l IH]; cbn [map qsum]; [lra| rewrite IH; lra]. }
    rewrite S1, S2. rewrite (qsum_swap _ Tsk (seq 0 (length cv)) K). lra.
  Qed.
End LPIValue.

Section LPIValueThm.
  Variables (point : vec) (pts : list vec) (vals : vec).
  Hypothesis Hwf : interp_wf point pts vals.
  Variable lp_min : mat -> vec -> vec -> option vec.
  Hypothesis Hlp : lp_sound lp_min.

  (* the returned value never exceeds the weighted sum taken with the exact (pre-clean-up) weights;
     in the LP / single-point branches it is equal to it *)
  Theorem lpi_value_le_weighted_lemma : forall ubQ v w, ubQ_wf point ubQ ->
    LPInterpolation lp_min point ubQ pts vals = Some (v, w) ->
    exists raw, (w = raw \/ w = map cleanup raw) /\ weights_ok point pts raw /\
                v <= weighted_value raw (cornerVals ubQ) vals.
  Proof.
    intros ubQ v w HQ H. unfold LPInterpolation in H.
    assert (Hcv : length (cornerVals ubQ) = length point) by (rewrite cornerVals_length; apply HQ).
    destruct (compatiblePoints point pts) as [|i rest] eqn:Ec.
    - inversion H; subst. exists (point ++ vzero (length pts)). split; [left; reflexivity|].
      split; [apply weights_ok_corner_only; apply Hwf|].
      rewrite weighted_corner_only by exact Hcv. apply basicV_le_corner; [apply Hwf| exact HQ].
    - rewrite <- Ec in *.
      destruct (lpi_solve lp_min point (cornerVals ubQ) pts vals (compatiblePoints point pts)) as [[c u]|] eqn:Es; [|discriminate].
      inversion H; subst. exists (lpi_raw point pts (compatiblePoints point pts) c). split; [right; reflexivity|].
      pose proof (lpi_solve_feas point pts vals Hwf lp_min Hlp _ _ _ Es) as Hf.
      split; [exact (lpi_raw_weights_ok point pts vals Hwf c Hf)|].
      rewrite <- (lpi_raw_value point pts vals (cornerVals ubQ) Hwf Hcv c Hf).
      (* u is the objective coef . c in the LP branch and c0 * (val - comp.cv) in the shortcut *)
      unfold lpi_solve in Es. destruct (compatiblePoints point pts) as [|i1 [|i2 rest2]] eqn:Ec2.
      + discriminate Ec.
      + destruct (Qlt_le_dec 0 _) in Es; inversion Es; subst; unfold lpi_coef; cbn [map dot];
          [apply Qle_lteq; right; ring|].
        (* comp . cv restricted to the non-zero states equals the full dot product *)
        assert (E : dot (nth i1 pts []) (cornerVals ubQ) ==
                    qsum (map (fun s => nthq (nth i1 pts []) s * nthq (cornerVals ubQ) s) (nonZeroStates point))).
        { destruct (compat_props point pts vals Hwf) as [_ [Hlt Hz]]. rewrite Ec2 in Hlt, Hz.
          inversion Hlt as [|? ? Hi1 _]; subst.
          destruct Hwf as [_ [_ [_ Hp]]]. rewrite Forall_forall in Hp.
          destruct (Hp (nth i1 pts []) (nth_In _ _ Hi1)) as [Hlb _].
          rewrite (vec_as_map (nth i1 pts [])) at 1. rewrite Hlb, <- Hcv. rewrite dot_map_seq.
          unfold nonZeroStates. rewrite qsum_filter. rewrite Hcv. apply qsum_map_ext. intros s Hs. apply in_seq in Hs.
          destruct (isZero (nthq point s)) eqn:Ez; cbn [negb]; [|reflexivity].
          rewrite (Hz i1 s (or_introl eq_refl)) by (lia || exact Ez). lra. }
        rewrite E. apply Qle_lteq. right. ring.
      + destruct (lp_min _ _ _) as [c0|]; [|discriminate]. inversion Es; subst. apply Qle_refl.
  Qed.
End LPIValueThm.
