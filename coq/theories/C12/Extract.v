From Coq Require Extraction.
From Coq Require Import ExtrOcamlBasic.
From AIT Require Import Base.Vio Base.Qx Base.Mdp C12.Model C12.Spec C12.Vertices C12.ModelUseful.
Extraction "model.ml" vio_kit dot best maxl dominates dominates0 veccmp
  extractDominated extractDominatedIncremental
  findBestAtPointV findBestAtSimplexCornerV extractBestAtPointV extractBestAtSimplexCornersV prunerV
  cornerVals basicV st_scan sawtoothInterpolation sawtoothInterpolation_orig
  compatiblePoints nonZeroStates lpi_rows lpi_rhs lpi_coef LPInterpolation
  fv_subsets fv_matrix fv_rhs fv_clean fv_accept fv_tagged findVerticesNaive findVerticesNaiveRange
  extractBestUsefulPointsV supV useful_coverb findBestDeltaDominatedV ddomb
  env weights_ok_tolb value_le_weightedb weighted_value env_geb sublistb recon corners veqb.
