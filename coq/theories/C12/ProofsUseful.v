(* C12/ProofsUseful.v — extractBestUsefulPoints: permutation + cover *)
From Coq Require Import List Arith QArith Lqa Lia Bool Permutation.
From AIT Require Import Base.Qx C12.Model C12.Spec C12.Proofs C12.ModelUseful.
Local Open Scope Q_scope.
Import ListNotations.

Section SetNth.
  Variable B : Type.
  Lemma set_nth_same : forall (l : list B) i a x, nth_error l i = Some x ->
    nth_error (@set_nth B i a l) i = Some a.
  Proof. induction l as [|y l IH]; intros [|i] a x H; cbn in *; try discriminate; eauto. Qed.
  Lemma set_nth_other : forall (l : list B) i j a, i <> j ->
    nth_error (@set_nth B i a l) j = nth_error l j.
  Proof.
    induction l as [|y l IH]; intros [|i] [|j] a H; cbn; try reflexivity; try congruence.
    apply IH. congruence.
  Qed.
  Lemma set_nth_perm : forall (l : list B) i a x, nth_error l i = Some x ->
    Permutation (x :: @set_nth B i a l) (a :: l).
  Proof.
    induction l as [|y l IH]; intros [|i] a x H; cbn in *; try discriminate.
    - inversion H; subst. apply perm_swap.
    - specialize (IH i a x H). etransitivity; [apply perm_swap|].
      etransitivity; [apply perm_skip; exact IH|]. apply perm_swap.
  Qed.
End SetNth.

Section UsefulProofs.
  Variable A : Type.
  Variable proj : A -> vec.
  Variable W : list A.
  Notation sup := (sup A proj W).

  (* spec: p is covered by the kept list — some kept point supports the same hyperplane (the one
     findBestAtPoint selects, ties broken as in the code) with at least p's value *)
  Definition covered (K : list vec) (p : vec) : Prop :=
    exists q j vp vq, In q K /\ sup p = Some (j, vp) /\ sup q = Some (j, vq) /\ vp <= vq.

  Definition Inv (K : list vec) (bv : list (option (nat * Q))) (D : list vec) : Prop :=
    (forall v pi b, nth_error bv v = Some (Some (pi, b)) ->
        exists q, nth_error K pi = Some q /\ sup q = Some (v, b))
    /\ (forall p, In p D -> covered K p).

  Lemma Inv_incl : forall K bv D D', Inv K bv D -> (forall p, In p D' -> In p D) -> Inv K bv D'.
  Proof. intros K bv D D' [Ha Hb] H. split; [exact Ha|]. intros p Hp. apply Hb, H, Hp. Qed.

  Lemma step_replace : forall K bv D v pi b cur value old,
    Inv K bv D -> nth_error bv v = Some (Some (pi, b)) -> sup cur = Some (v, value) ->
    b <= value -> nth_error K pi = Some old ->
    Inv (@set_nth _ pi cur K) (@set_nth _ v (Some (pi, value)) bv) (old :: D).
  Proof.
    intros K bv D v pi b cur value old [Ha Hb] Hbv Hs Hlt HK.
    assert (Hold : sup old = Some (v, b)).
    { destruct (Ha v pi b Hbv) as [q [Hq Hsq]]. rewrite HK in Hq. inversion Hq; subst. exact Hsq. }
    assert (Hcur : In cur (@set_nth _ pi cur K)).
    { eapply nth_error_In. eapply set_nth_same; exact HK. }
    split.
    - intros v' pi' b' H. destruct (Nat.eq_dec v v') as [->|Hne].
      + rewrite (set_nth_same _ _ _ _ _ Hbv) in H. inversion H; subst.
        exists cur. split; [eapply set_nth_same; exact HK| exact Hs].
      + rewrite set_nth_other in H by exact Hne.
        destruct (Ha v' pi' b' H) as [q [Hq Hsq]]. exists q. split; [|exact Hsq].
        destruct (Nat.eq_dec pi pi') as [->|Hp].
        * rewrite HK in Hq. inversion Hq; subst. rewrite Hold in Hsq. inversion Hsq; congruence.
        * rewrite set_nth_other by exact Hp. exact Hq.
    - intros p [<-|Hp].
      + exists cur, v, b, value. repeat split; assumption.
      + destruct (Hb p Hp) as [q [j [vp [vq [Hin [Hsp [Hsq Hle]]]]]]].
        apply In_nth_error in Hin. destruct Hin as [n Hn].
        destruct (Nat.eq_dec pi n) as [->|Hne].
        * rewrite HK in Hn. inversion Hn; subst. rewrite Hold in Hsq. inversion Hsq; subst.
          exists cur, j, vp, value. repeat split; try assumption. eapply Qle_trans; eassumption.
        * exists q, j, vp, vq. repeat split; try assumption.
          eapply nth_error_In. rewrite set_nth_other by exact Hne. exact Hn.
  Qed.

  Lemma step_discard : forall K bv D v pi b cur value,
    Inv K bv D -> nth_error bv v = Some (Some (pi, b)) -> sup cur = Some (v, value) ->
    value <= b -> Inv K bv (cur :: D).
  Proof.
    intros K bv D v pi b cur value [Ha Hb] Hbv Hs Hle. split; [exact Ha|].
    intros p [<-|Hp]; [|apply Hb, Hp].
    destruct (Ha v pi b Hbv) as [q [Hq Hsq]].
    exists q, v, value, b. repeat split; try assumption. eapply nth_error_In; exact Hq.
  Qed.

  Lemma step_new : forall K bv D v cur value,
    Inv K bv D -> nth_error bv v = Some None -> sup cur = Some (v, value) ->
    Inv (K ++ [cur]) (@set_nth _ v (Some (length K, value)) bv) D.
  Proof.
    intros K bv D v cur value [Ha Hb] Hbv Hs. split.
    - intros v' pi' b' H. destruct (Nat.eq_dec v v') as [->|Hne].
      + rewrite (set_nth_same _ _ _ _ _ Hbv) in H. inversion H; subst.
        exists cur. split; [|exact Hs]. rewrite nth_error_app2 by lia. rewrite Nat.sub_diag. reflexivity.
      + rewrite set_nth_other in H by exact Hne.
        destruct (Ha v' pi' b' H) as [q [Hq Hsq]]. exists q. split; [|exact Hsq].
        rewrite nth_error_app1; [exact Hq|]. apply nth_error_Some. congruence.
    - intros p Hp. destruct (Hb p Hp) as [q [j [vp [vq [Hin R]]]]].
      exists q, j, vp, vq. split; [apply in_or_app; left; exact Hin| exact R].
  Qed.

  Lemma negb_Qle_bool_true : forall x y, negb (Qle_bool x y) = true -> y <= x.
  Proof.
    intros x y H. apply negb_true_iff in H. apply Qlt_le_weak, Qnot_le_lt. intro C.
    apply Qle_bool_iff in C. congruence.
  Qed.
  Lemma negb_Qle_bool_false : forall x y, negb (Qle_bool x y) = false -> x <= y.
  Proof. intros x y H. apply negb_false_iff in H. apply Qle_bool_iff. exact H. Qed.

  Lemma ubp1_inv : forall fuel mb K bv U D K' bv' U' D',
    ubp1 A proj W fuel mb K bv U D = Some (K', bv', U', D') -> Inv K bv D ->
    Inv K' bv' D' /\ Permutation (K' ++ U' ++ D') (K ++ U ++ D).
  Proof.
    induction fuel as [|fuel IH]; intros mb K bv U D K' bv' U' D' H HI.
    - destruct U as [|cur U]; cbn [ubp1] in H.
      + inversion H; subst. split; [exact HI| reflexivity].
      + destruct (length K <? mb)%nat; [discriminate|]. inversion H; subst. split; [exact HI| reflexivity].
    - destruct U as [|cur U]; cbn [ubp1] in H.
      + inversion H; subst. split; [exact HI| reflexivity].
      + destruct (length K <? mb)%nat; [|inversion H; subst; split; [exact HI| reflexivity]].
        destruct (sup cur) as [[v value]|] eqn:Hs; [|discriminate].
        destruct (nth_error bv v) as [[[pi b]|]|] eqn:Hbv; [| |discriminate].
        * destruct (negb (Qle_bool value b)) eqn:Hc.
          -- destruct (nth_error K pi) as [old|] eqn:HK; [|discriminate].
             apply IH in H.
             ++ destruct H as [HI' HP]. split; [exact HI'|]. rewrite HP.
                rewrite (swap_pop_perm _ U).
                pose proof (set_nth_perm _ K pi cur old HK) as P.
                apply Permutation_trans with ((old :: @set_nth _ pi cur K) ++ U ++ D); [perm|].
                rewrite P. perm.
             ++ eapply step_replace; try eassumption. apply negb_Qle_bool_true; exact Hc.
          -- apply IH in H.
             ++ destruct H as [HI' HP]. split; [exact HI'|]. rewrite HP.
                rewrite (swap_pop_perm _ U). perm.
             ++ eapply step_discard; try eassumption. apply negb_Qle_bool_false; exact Hc.
        * apply IH in H.
          -- destruct H as [HI' HP]. split; [exact HI'|]. rewrite HP.
             perm.
          -- eapply step_new; eassumption.
  Qed.

  Lemma ubp2_inv : forall U K bv P K' P' D,
    ubp2 A proj W K bv P U = Some (K', P') -> Inv K bv (P ++ D) ->
    (exists bv', Inv K' bv' (P' ++ D)) /\ Permutation (K' ++ P') (K ++ P ++ U).
  Proof.
    induction U as [|cur U IH]; intros K bv P K' P' D H HI; cbn [ubp2] in H.
    - inversion H; subst. split; [exists bv; exact HI|]. rewrite app_nil_r. reflexivity.
    - destruct (sup cur) as [[v value]|] eqn:Hs; [|discriminate].
      destruct (nth_error bv v) as [[[pi b]|]|] eqn:Hbv; try discriminate.
      destruct (negb (Qle_bool value b)) eqn:Hc.
      + destruct (nth_error K pi) as [old|] eqn:HK; [|discriminate].
        apply (IH _ _ _ _ _ D) in H.
        * destruct H as [HI' HP]. split; [exact HI'|]. rewrite HP.
          pose proof (set_nth_perm _ K pi cur old HK) as Pm.
          apply Permutation_trans with ((old :: @set_nth _ pi cur K) ++ P ++ U); [perm|].
          rewrite Pm. perm.
        * eapply Inv_incl; [eapply step_replace; try eassumption; apply negb_Qle_bool_true; exact Hc|].
          intros p Hp. rewrite <- app_assoc in Hp. apply in_app_or in Hp. destruct Hp as [Hp|[<-|Hp]].
          -- right. apply in_or_app. left. exact Hp.
          -- left. reflexivity.
          -- right. apply in_or_app. right. exact Hp.
      + apply (IH _ _ _ _ _ D) in H.
        * destruct H as [HI' HP]. split; [exact HI'|]. rewrite HP. perm.
        * eapply Inv_incl; [eapply step_discard; try eassumption; apply negb_Qle_bool_false; exact Hc|].
          intros p Hp. rewrite <- app_assoc in Hp. apply in_app_or in Hp. destruct Hp as [Hp|[<-|Hp]].
          -- right. apply in_or_app. left. exact Hp.
          -- left. reflexivity.
          -- right. apply in_or_app. right. exact Hp.
  Qed.

  Lemma sup_some : W <> [] -> forall p, exists j v, sup p = Some (j, v).
  Proof.
    intros HW p. unfold ModelUseful.sup, findBestAtPoint.
    destruct (@findBestBy_some A proj (scoreAt proj p) W HW) as [[[j a] v] E].
    rewrite E. exists j, v. reflexivity.
  Qed.

  Lemma covered_self : W <> [] -> forall K p, In p K -> covered K p.
  Proof.
    intros HW K p Hp. destruct (sup_some HW p) as [j [v E]].
    exists p, j, v, v. repeat split; try assumption. apply Qle_refl.
  Qed.

  (* the support index/value are findBestAtPoint's: in range, value = upper envelope at p *)
  Lemma sup_env : forall p j v, sup p = Some (j, v) ->
    (j < length W)%nat /\ v == env (map proj W) p.
  Proof.
    intros p j v H. unfold ModelUseful.sup in H.
    destruct (findBestAtPoint proj p W) as [[[j' a] v']|] eqn:E; [|discriminate].
    inversion H; subst. apply findBestAtPoint_max_gen in E. destruct E as [Hn [_ He]].
    split; [apply nth_error_Some; congruence| exact He].
  Qed.

  Theorem useful_points_gen : forall pts kept rest,
    extractBestUsefulPoints A proj W pts = Some (kept, rest) ->
    Permutation (kept ++ rest) pts
    /\ (W = [] -> kept = [] /\ rest = pts)
    /\ (W <> [] -> forall p, In p pts -> covered kept p).
  Proof.
    intros pts kept rest H. unfold extractBestUsefulPoints in H.
    destruct W as [|w0 W0] eqn:EW.
    - inversion H; subst. split; [reflexivity|]. split; [auto| congruence].
    - assert (HWne : W <> []) by (rewrite EW; discriminate). rewrite <- EW in H |- *.
      set (mb := if (length pts <? length W)%nat then length pts else length W) in H.
      destruct (ubp1 A proj W (length pts) mb [] (repeat None (length W)) pts [])
        as [[[[K bv] U] D]|] eqn:E1; [|discriminate].
      apply ubp1_inv in E1.
      2:{ split.
          - intros v pi b Hn. exfalso. apply nth_error_In in Hn. apply repeat_spec in Hn. discriminate.
          - intros p []. }
      destruct E1 as [HI HP]. cbn [app] in HP. rewrite app_nil_r in HP.
      destruct U as [|u U].
      + inversion H; subst. cbn [app] in HP. split; [exact HP|]. split.
        * intros HW. contradiction.
        * intros HW p Hp. eapply Permutation_in in Hp; [|symmetry; exact HP].
          apply in_app_or in Hp. destruct Hp as [Hp|Hp]; [apply covered_self; assumption|].
          destruct HI as [_ Hb]. apply Hb, Hp.
      + destruct (ubp2 A proj W K bv [] (u :: U)) as [[K' P]|] eqn:E2; [|discriminate].
        inversion H; subst. apply (ubp2_inv _ _ _ _ _ _ D) in E2; [|exact HI].
        destruct E2 as [[bv' HI'] HP2]. cbn [app] in HP2.
        assert (HPm : Permutation (kept ++ P ++ D) pts).
        { rewrite app_assoc. rewrite HP2. rewrite <- app_assoc. exact HP. }
        split; [exact HPm|]. split.
        * intros HW. contradiction.
        * intros HW p Hp. eapply Permutation_in in Hp; [|symmetry; exact HPm].
          apply in_app_or in Hp. destruct Hp as [Hp|Hp]; [apply covered_self; assumption|].
          destruct HI' as [_ Hb]. apply Hb, Hp.
  Qed.

  (* soundness of the driver's checker *)
End UsefulProofs.

Lemma useful_coverb_sound : forall W kept pts, useful_coverb W kept pts = true ->
  forall p, In p pts -> covered vec vid W kept p.
Proof.
  intros W kept pts H p Hp. unfold useful_coverb in H. rewrite forallb_forall in H.
  specialize (H p Hp). unfold supV in H.
  destruct (sup vec vid W p) as [[j vp]|] eqn:E; [|discriminate].
  apply existsb_exists in H. destruct H as [q [Hq Hc]].
  destruct (sup vec vid W q) as [[j' vq]|] eqn:Eq; [|discriminate].
  apply andb_true_iff in Hc. destruct Hc as [Hj Hle]. apply Nat.eqb_eq in Hj. subst j'.
  apply Qle_bool_iff in Hle. exists q, j, vp, vq. repeat split; assumption.
Qed.

(* ---- findBestDeltaDominated ---- *)
Section DeltaDomProofs.
  Variable A : Type.
  Variable proj : A -> vec.
  Variables (point : vec) (delta : Q).

  Lemma ddomb_lt : forall mp np, ddomb point delta mp np = true -> dot point mp < dot point np.
  Proof.
    intros mp np H. unfold ddomb in H. apply andb_true_iff in H. destruct H as [H _].
    apply negb_true_iff in H. assert (~ dot point np - dot point mp <= 0) as N.
    { intro C. apply Qle_bool_iff in C. congruence. }
    apply Qnot_le_lt in N. lra.
  Qed.

  (* base is [mp] or an entry of l before position j *)
  Definition pred_of (mp : vec) (l : list A) (j : nat) (base : vec) : Prop :=
    base = mp \/ exists k b, (k < j)%nat /\ nth_error l k = Some b /\ base = proj b.

  Lemma dd_go_spec : forall l mp ret i,
    let r := dd_go A proj point delta mp ret i l in
    (snd r = ret /\ fst r = mp /\ forall x, In x l -> ddomb point delta mp (proj x) = false)
    \/ (exists j a, snd r = Some (i + j)%nat /\ nth_error l j = Some a /\ fst r = proj a
          /\ dot point mp < dot point (proj a)
          /\ (forall x, In x (skipn (S j) l) -> ddomb point delta (proj a) (proj x) = false)
          /\ exists base, pred_of mp l j base /\ ddomb point delta base (proj a) = true).
  Proof.
    induction l as [|x t IH]; intros mp ret i; cbn [dd_go].
    - left. cbn. repeat split. intros x [].
    - destruct (ddomb point delta mp (proj x)) eqn:E.
      + right. pose proof (ddomb_lt _ _ E) as Hlt.
        destruct (IH (proj x) (Some i) (S i)) as [[H1 [H2 H3]]|[j [a [H1 [H2 [H3 [H4 [H5 [base [Hb Hd]]]]]]]]]].
        * exists O, x. rewrite Nat.add_0_r. cbn [nth_error skipn].
          split; [assumption|]. split; [reflexivity|]. split; [assumption|].
          split; [assumption|]. split; [assumption|].
          exists mp. split; [left; reflexivity| exact E].
        * exists (S j), a. cbn [nth_error]. replace (i + S j)%nat with (S i + j)%nat by lia.
          split; [assumption|]. split; [assumption|]. split; [assumption|].
          split; [eapply Qlt_trans; eassumption|]. split; [assumption|].
          exists base. split; [|exact Hd]. right. destruct Hb as [->|[k [b [Hk [Hn ->]]]]].
          -- exists O, x. split; [lia|]. split; reflexivity.
          -- exists (S k), b. split; [lia|]. split; [exact Hn| reflexivity].
      + destruct (IH mp ret (S i)) as [[H1 [H2 H3]]|[j [a [H1 [H2 [H3 [H4 [H5 [base [Hb Hd]]]]]]]]]].
        * left. repeat split; try assumption. intros y [<-|Hy]; [exact E| apply H3, Hy].
        * right. exists (S j), a. cbn [nth_error]. replace (i + S j)%nat with (S i + j)%nat by lia.
          split; [assumption|]. split; [assumption|]. split; [assumption|].
          split; [assumption|]. split; [assumption|].
          exists base. split; [|exact Hd]. destruct Hb as [->|[k [b [Hk [Hn ->]]]]]; [left; reflexivity|].
          right. exists (S k), b. split; [lia|]. split; [exact Hn| reflexivity].
  Qed.

  (* what the function guarantees: None = no entry delta-dominates [plane]; Some i = entry i is
     strictly higher than [plane] at the point, it delta-dominates [plane] or an EARLIER entry, and
     no LATER entry delta-dominates it *)
  Theorem findBestDeltaDominated_gen : forall plane l,
    match findBestDeltaDominated A proj point delta plane l with
    | None => forall x, In x l -> ddomb point delta plane (proj x) = false
    | Some i => exists a, nth_error l i = Some a /\ dot point plane < dot point (proj a)
                  /\ (forall x, In x (skipn (S i) l) -> ddomb point delta (proj a) (proj x) = false)
                  /\ exists base, (base = plane \/ exists k b, (k < i)%nat /\ nth_error l k = Some b /\ base = proj b)
                                  /\ ddomb point delta base (proj a) = true
    end.
  Proof.
    intros plane l. unfold findBestDeltaDominated.
    destruct (dd_go_spec l plane None O) as [[H1 [H2 H3]]|[j [a [H1 [H2 [H3 [H4 [H5 H6]]]]]]]].
    - rewrite H1. exact H3.
    - rewrite H1. cbn [Nat.add]. exists a. split; [assumption|]. split; [assumption|]. split; [assumption|]. exact H6.
  Qed.
End DeltaDomProofs.

(* ---- extractBestUsefulPoints keeps at most one point per hyperplane ---- *)
Lemma set_nth_length : forall (B : Type) (l : list B) i a, length (@set_nth B i a l) = length l.
Proof. induction l as [|y l IH]; intros [|i] a; cbn; try reflexivity. rewrite IH. reflexivity. Qed.

Section UsefulDistinct.
  Variable A : Type.
  Variable proj : A -> vec.
  Variable W : list A.
  Notation sup := (sup A proj W).

  (* every slot of K is the registered best point of some hyperplane *)
  Definition Inv2 (K : list vec) (bv : list (option (nat * Q))) : Prop :=
    forall i, (i < length K)%nat -> exists v b, nth_error bv v = Some (Some (i, b)).
  Definition Good K bv := Inv A proj W K bv [] /\ Inv2 K bv.

  Lemma good_replace : forall K bv v pi b cur value old,
    Good K bv -> nth_error bv v = Some (Some (pi, b)) -> sup cur = Some (v, value) ->
    b <= value -> nth_error K pi = Some old ->
    Good (@set_nth _ pi cur K) (@set_nth _ v (Some (pi, value)) bv).
  Proof.
    intros K bv v pi b cur value old [G1 G2] Hbv Hs Hle HK. split.
    - eapply Inv_incl; [eapply step_replace; eassumption|]. intros p [].
    - intros i Hi. rewrite set_nth_length in Hi. destruct (G2 i Hi) as [v0 [b0 H0]].
      destruct (Nat.eq_dec v v0) as [<-|Hne].
      + rewrite Hbv in H0. inversion H0; subst. exists v, value. eapply set_nth_same; exact Hbv.
      + exists v0, b0. rewrite set_nth_other by exact Hne. exact H0.
  Qed.

  Lemma good_new : forall K bv v cur value,
    Good K bv -> nth_error bv v = Some None -> sup cur = Some (v, value) ->
    Good (K ++ [cur]) (@set_nth _ v (Some (length K, value)) bv).
  Proof.
    intros K bv v cur value [G1 G2] Hbv Hs. split.
    - eapply step_new; eassumption.
    - intros i Hi. rewrite app_length in Hi. cbn [length] in Hi.
      destruct (Nat.eq_dec i (length K)) as [->|Hne].
      + exists v, value. eapply set_nth_same; exact Hbv.
      + assert (Hi' : (i < length K)%nat) by lia. destruct (G2 i Hi') as [v0 [b0 H0]].
        exists v0, b0. rewrite set_nth_other; [exact H0|]. intros ->. rewrite Hbv in H0. discriminate.
  Qed.

  Lemma ubp1_good : forall fuel mb K bv U D K' bv' U' D',
    ubp1 A proj W fuel mb K bv U D = Some (K', bv', U', D') -> Good K bv -> Good K' bv'.
  Proof.
    induction fuel as [|fuel IH]; intros mb K bv U D K' bv' U' D' H HG.
    - destruct U as [|cur U]; cbn [ubp1] in H.
      + inversion H; subst. exact HG.
      + destruct (length K <? mb)%nat; [discriminate|]. inversion H; subst. exact HG.
    - destruct U as [|cur U]; cbn [ubp1] in H.
      + inversion H; subst. exact HG.
      + destruct (length K <? mb)%nat; [|inversion H; subst; exact HG].
        destruct (sup cur) as [[v value]|] eqn:Hs; [|discriminate].
        destruct (nth_error bv v) as [[[pi b]|]|] eqn:Hbv; [| |discriminate].
        * destruct (negb (Qle_bool value b)) eqn:Hc.
          -- destruct (nth_error K pi) as [old|] eqn:HK; [|discriminate].
             apply IH in H; [exact H|]. eapply good_replace; try eassumption.
             apply negb_Qle_bool_true; exact Hc.
          -- apply IH in H; [exact H| exact HG].
        * apply IH in H; [exact H|]. eapply good_new; eassumption.
  Qed.

  Lemma ubp2_good : forall U K bv P K' P',
    ubp2 A proj W K bv P U = Some (K', P') -> Good K bv -> exists bv', Good K' bv'.
  Proof.
    induction U as [|cur U IH]; intros K bv P K' P' H HG; cbn [ubp2] in H.
    - inversion H; subst. exists bv. exact HG.
    - destruct (sup cur) as [[v value]|] eqn:Hs; [|discriminate].
      destruct (nth_error bv v) as [[[pi b]|]|] eqn:Hbv; try discriminate.
      destruct (negb (Qle_bool value b)) eqn:Hc.
      + destruct (nth_error K pi) as [old|] eqn:HK; [|discriminate].
        apply IH in H; [exact H|]. eapply good_replace; try eassumption.
        apply negb_Qle_bool_true; exact Hc.
      + apply IH in H; [exact H| exact HG].
  Qed.

  Lemma good_distinct : forall K bv, Good K bv ->
    forall i i' q q' j v v', nth_error K i = Some q -> nth_error K i' = Some q' ->
      sup q = Some (j, v) -> sup q' = Some (j, v') -> i = i'.
  Proof.
    intros K bv [[Ha _] G2] i i' q q' j v v' Hi Hi' Hs Hs'.
    assert (L : (i < length K)%nat) by (apply nth_error_Some; congruence).
    assert (L' : (i' < length K)%nat) by (apply nth_error_Some; congruence).
    destruct (G2 i L) as [v0 [b0 H0]]. destruct (G2 i' L') as [v1 [b1 H1]].
    destruct (Ha _ _ _ H0) as [q0 [E0 S0]]. destruct (Ha _ _ _ H1) as [q1 [E1 S1]].
    rewrite Hi in E0. inversion E0; subst q0. rewrite Hi' in E1. inversion E1; subst q1.
    rewrite Hs in S0. inversion S0; subst. rewrite Hs' in S1. inversion S1; subst.
    rewrite H0 in H1. inversion H1. reflexivity.
  Qed.

  Theorem useful_distinct_gen : forall pts kept rest,
    extractBestUsefulPoints A proj W pts = Some (kept, rest) ->
    forall i i' q q' j v v', nth_error kept i = Some q -> nth_error kept i' = Some q' ->
      sup q = Some (j, v) -> sup q' = Some (j, v') -> i = i'.
  Proof.
    intros pts kept rest H. unfold extractBestUsefulPoints in H.
    destruct W as [|w0 W0] eqn:EW.
    - inversion H; subst. intros [|i] i' q q' j v v' Hi; discriminate.
    - rewrite <- EW in H |- *.
      set (mb := if (length pts <? length W)%nat then length pts else length W) in H.
      destruct (ubp1 A proj W (length pts) mb [] (repeat None (length W)) pts [])
        as [[[[K bv] U] D]|] eqn:E1; [|discriminate].
      apply ubp1_good in E1.
      2:{ split; [split|].
          - intros v pi b Hn. exfalso. apply nth_error_In in Hn. apply repeat_spec in Hn. discriminate.
          - intros p [].
          - intros i Hi. cbn in Hi. lia. }
      destruct U as [|u U].
      + inversion H; subst. eapply good_distinct; exact E1.
      + destruct (ubp2 A proj W K bv [] (u :: U)) as [[K' P]|] eqn:E2; [|discriminate].
        inversion H; subst. apply ubp2_good in E2; [|exact E1]. destruct E2 as [bv' G].
        eapply good_distinct; exact G.
  Qed.
End UsefulDistinct.
