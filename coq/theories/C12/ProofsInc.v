(* C12/ProofsInc.v — extractDominated / extractDominatedIncremental compute prunings (for a
   reflexive and transitive dominance test), and prunings are unique up to mutual dominance. *)
From Coq Require Import List Arith QArith Lia Bool Permutation.
From AIT Require Import Base.Qx C12.Model C12.Spec C12.Proofs.
Import ListNotations.
Local Open Scope nat_scope.

Section IncProofs.
  Variable A : Type.
  Variable dom : A -> A -> bool.

  (* ---------------------------------------------------------------- membership helpers *)
  Lemma in_swap_pop : forall (x : A) l, In x (swap_pop l) <-> In x l.
  Proof.
    intros x l. split; intros H.
    - eapply Permutation_in; [apply swap_pop_perm| exact H].
    - eapply Permutation_in; [apply Permutation_sym, swap_pop_perm| exact H].
  Qed.

  Ltac solve_in :=
    intros;
    repeat match goal with
           | H : In _ _ |- _ => revert H
           | H : _ \/ _ |- _ => revert H
           end;
    repeat (first [rewrite in_app_iff | rewrite <- in_rev | rewrite in_swap_pop | progress cbn [In]]);
    tauto.

  Lemma existsb_false_all : forall (f : A -> bool) l, existsb f l = false ->
    forall k, In k l -> f k = false.
  Proof.
    intros f l H k Hk. destruct (f k) eqn:E; [|reflexivity].
    assert (C : existsb f l = true) by (apply existsb_exists; exists k; split; assumption).
    congruence.
  Qed.

  (* ---------------------------------------------------------------- pnd *)
  Lemma pnd_app : forall a b, pnd dom (a ++ b) <->
    pnd dom a /\ pnd dom b /\
    (forall x y, In x a -> In y b -> dom x y = false /\ dom y x = false).
  Proof.
    induction a as [|h a IH]; intros b; cbn [app pnd].
    - split.
      + intros H. split; [exact I|]. split; [exact H|]. intros x y [].
      + intros [_ [H _]]. exact H.
    - rewrite IH. split.
      + intros [Hh [Ha [Hb Hc]]]. split; [split; [|exact Ha]|split; [exact Hb|]].
        * intros y Hy. apply Hh. apply in_app_iff; left; exact Hy.
        * intros x y [<-|Hx] Hy; [apply Hh; apply in_app_iff; right; exact Hy| apply Hc; assumption].
      + intros [[Hh Ha] [Hb Hc]]. split; [|split; [exact Ha| split; [exact Hb|]]].
        * intros y Hy. apply in_app_iff in Hy.
          destruct Hy as [Hy|Hy]; [apply Hh; exact Hy| apply Hc; [left; reflexivity| exact Hy]].
        * intros x y Hx Hy. apply Hc; [right; exact Hx| exact Hy].
  Qed.

  Lemma pnd_perm : forall a b, Permutation a b -> pnd dom a -> pnd dom b.
  Proof.
    intros a b HP. induction HP as [|x l l' HP IH|x y l|l l' l'' HP1 IH1 HP2 IH2]; cbn [pnd].
    - intros H; exact H.
    - intros [Hx Hl]. split; [|apply IH; exact Hl]. intros y Hy. apply Hx.
      eapply Permutation_in; [apply Permutation_sym; exact HP| exact Hy].
    - intros [Hy [Hx Hl]]. split; [|split; [|exact Hl]].
      + intros z [<-|Hz].
        * destruct (Hy x (or_introl eq_refl)) as [H1 H2]. split; assumption.
        * apply Hx; exact Hz.
      + intros z Hz. apply Hy. right; exact Hz.
    - intros H. apply IH2, IH1, H.
  Qed.

  Lemma pnd_same : forall l x y, pnd dom l -> In x l -> In y l -> dom x y = true -> x = y.
  Proof.
    induction l as [|a l IH]; intros x y Hp Hx Hy Hd; [destruct Hx|].
    cbn [pnd] in Hp. destruct Hp as [Ha Hl].
    destruct Hx as [Hx|Hx]; destruct Hy as [Hy|Hy].
    - congruence.
    - subst a. destruct (Ha y Hy) as [H1 _]. congruence.
    - subst a. destruct (Ha x Hx) as [_ H2]. congruence.
    - apply IH; assumption.
  Qed.

  (* ---------------------------------------------------------------- coverage *)
  Definition covers (L inp : list A) : Prop :=
    forall x, In x inp -> exists y, In y L /\ dom y x = true.

  Lemma covers_incl : forall L L' inp, (forall y, In y L -> In y L') -> covers L inp -> covers L' inp.
  Proof.
    intros L L' inp Hi Hc x Hx. destruct (Hc x Hx) as [y [Hy Hd]].
    exists y; split; [apply Hi; exact Hy| exact Hd].
  Qed.

  Lemma covers_remove : dom_trans dom -> forall L L' inp t u, covers L inp ->
    (forall y, In y L -> t = y \/ In y L') -> In u L' -> dom u t = true -> covers L' inp.
  Proof.
    intros Htr L L' inp t u Hc Hi Hu Hd x Hx. destruct (Hc x Hx) as [y [Hy Hdy]].
    destruct (Hi y Hy) as [<-|Hy'].
    - exists u; split; [exact Hu| exact (Htr _ _ _ Hd Hdy)].
    - exists y; split; [exact Hy'| exact Hdy].
  Qed.

  (* ---------------------------------------------------------------- extractDominated *)
  Lemma ed_scan_inv : dom_trans dom -> forall inp kept uR pre tgt post removed,
    (forall k, In k kept -> dom k tgt = false) ->
    (forall y, In y (pre ++ post) -> dom y tgt = false) ->
    covers (kept ++ uR ++ pre ++ tgt :: post) inp ->
    let '(pre', t', post', removed') := ed_scan dom uR pre tgt post removed in
    (forall k, In k kept -> dom k t' = false) /\
    (forall y, In y (pre' ++ post') -> dom y t' = false) /\
    covers (kept ++ pre' ++ t' :: post') inp /\
    (forall y, In y (pre' ++ t' :: post') -> In y (uR ++ pre ++ tgt :: post)).
  Proof.
    intros Htr inp kept. induction uR as [|x uR IH]; intros pre tgt post removed Ha Hb Hc; cbn [ed_scan].
    - split; [exact Ha|]. split; [exact Hb|]. split; [exact Hc|]. intros y Hy; exact Hy.
    - destruct (dom x tgt) eqn:Hd.
      + assert (Ha1 : forall k, In k kept -> dom k x = false).
        { intros k Hk. destruct (dom k x) eqn:E; [exfalso|reflexivity].
          pose proof (Htr _ _ _ E Hd) as C. rewrite (Ha k Hk) in C. discriminate. }
        assert (Hb1 : forall y, In y ([] ++ pre ++ swap_pop post) -> dom y x = false).
        { intros y Hy. destruct (dom y x) eqn:E; [exfalso|reflexivity].
          pose proof (Htr _ _ _ E Hd) as C. rewrite Hb in C; [discriminate|]. solve_in. }
        assert (Hc1 : covers (kept ++ uR ++ [] ++ x :: pre ++ swap_pop post) inp).
        { eapply (covers_remove Htr _ _ _ tgt x Hc); [| |exact Hd].
          - intros y Hy. solve_in.
          - solve_in. }
        specialize (IH [] x (pre ++ swap_pop post) (tgt :: removed) Ha1 Hb1 Hc1).
        destruct (ed_scan dom uR [] x (pre ++ swap_pop post) (tgt :: removed)) as [[[p t] po] r].
        destruct IH as [Ha' [Hb' [Hc' Hi']]].
        split; [exact Ha'|]. split; [exact Hb'|]. split; [exact Hc'|].
        intros y Hy. specialize (Hi' y Hy). solve_in.
      + assert (Hb1 : forall y, In y ((x :: pre) ++ post) -> dom y tgt = false).
        { intros y [<-|Hy]; [exact Hd| apply Hb; exact Hy]. }
        assert (Hc1 : covers (kept ++ uR ++ (x :: pre) ++ tgt :: post) inp).
        { eapply covers_incl; [|exact Hc]. intros y Hy. solve_in. }
        specialize (IH (x :: pre) tgt post removed Ha Hb1 Hc1).
        destruct (ed_scan dom uR (x :: pre) tgt post removed) as [[[p t] po] r].
        destruct IH as [Ha' [Hb' [Hc' Hi']]].
        split; [exact Ha'|]. split; [exact Hb'|]. split; [exact Hc'|].
        intros y Hy. specialize (Hi' y Hy). solve_in.
  Qed.

  Lemma ed_loop_inv : dom_trans dom -> forall inp fuel kept midR removed,
    pnd dom kept ->
    (forall k m, In k kept -> In m midR -> dom m k = false) ->
    covers (kept ++ midR) inp ->
    let '(k, m, r) := ed_loop dom fuel kept midR removed in
    pnd dom k /\ (forall a b, In a k -> In b m -> dom b a = false) /\ covers (k ++ m) inp.
  Proof.
    intros Htr inp. induction fuel as [|fuel IH]; intros kept midR removed Hp H2 Hc; cbn [ed_loop].
    - split; [exact Hp|]. split; [exact H2| exact Hc].
    - destruct midR as [|tgt uR].
      + split; [exact Hp|]. split; [exact H2| exact Hc].
      + destruct (existsb (fun k => dom k tgt) kept) eqn:He.
        * apply existsb_exists in He. destruct He as [k0 [Hk0 Hd]].
          apply IH.
          -- exact Hp.
          -- intros k m Hk Hm. apply H2; [exact Hk| right; exact Hm].
          -- eapply (covers_remove Htr _ _ _ tgt k0 Hc); [| |exact Hd].
             ++ intros y Hy. solve_in.
             ++ solve_in.
        * pose proof (existsb_false_all _ _ He) as Ha. cbn beta in Ha.
          assert (Hb : forall y, In y ([] ++ []) -> dom y tgt = false) by (intros y []).
          assert (Hc0 : covers (kept ++ uR ++ [] ++ tgt :: []) inp).
          { eapply covers_incl; [|exact Hc]. intros y Hy. solve_in. }
          pose proof (ed_scan_inv Htr inp kept uR [] tgt [] removed Ha Hb Hc0) as HS.
          destruct (ed_scan dom uR [] tgt [] removed) as [[[pre t] post] removed'].
          destruct HS as [Ha' [Hb' [Hc' Hi']]].
          assert (Ht : In t (tgt :: uR)).
          { assert (Ht : In t (pre ++ t :: post)) by apply in_elt.
            apply Hi' in Ht. solve_in. }
          apply IH.
          -- apply pnd_app. split; [exact Hp|]. split; [cbn [pnd]; split; [intros y []| exact I]|].
             intros x y Hx [<-|[]]. split; [apply Ha'; exact Hx| apply H2; [exact Hx| exact Ht]].
          -- intros k m Hk Hm. apply in_app_iff in Hk.
             assert (Hm' : In m (pre ++ post)) by (destruct pre; solve_in).
             destruct Hk as [Hk|[<-|[]]].
             ++ apply H2; [exact Hk|].
                assert (Hm2 : In m (pre ++ t :: post)) by solve_in.
                apply Hi' in Hm2. solve_in.
             ++ apply Hb'; exact Hm'.
          -- eapply covers_incl; [|exact Hc']. intros y Hy. destruct pre; solve_in.
  Qed.

  Theorem extractDominatedBy_is_pruning : dom_refl dom -> dom_trans dom -> forall l,
    let '(kept, removed) := extractDominatedBy dom l in is_pruning dom l kept.
  Proof.
    intros Hrf Htr l. pose proof (extractDominatedBy_perm A dom l) as HP.
    destruct (le_lt_dec 2 (length l)) as [Hl|Hl].
    - destruct (extractDominatedBy_mid_nil A dom l Hl) as [k [r [E1 E2]]]. rewrite E2 in *.
      pose proof (ed_loop_inv Htr l (length l) [] (rev l) []) as HI. rewrite E1 in HI.
      destruct HI as [Hp [_ Hc]].
      + exact I.
      + intros k0 m [].
      + intros x Hx. exists x. split; [cbn [app]; rewrite <- in_rev; exact Hx| apply Hrf].
      + split; [|split].
        * intros x Hx. eapply Permutation_in; [exact HP|]. apply in_app_iff; left; exact Hx.
        * exact Hp.
        * rewrite app_nil_r in Hc. exact Hc.
    - unfold extractDominatedBy in *. destruct (Nat.ltb_spec (length l) 2) as [Hlt|Hge]; [|lia].
      split; [|split].
      + intros x Hx; exact Hx.
      + destruct l as [|a [|b l]]; cbn [pnd].
        * exact I.
        * split; [intros y []| exact I].
        * cbn [length] in Hlt; lia.
      + intros x Hx. exists x. split; [exact Hx| apply Hrf].
  Qed.

  (* ---------------------------------------------------------------- incremental: permutation *)
  Lemma edi_scan_perm : forall t preR post oldBad isD og ob,
    edi_scan dom t preR post oldBad isD = Some (og, ob) ->
    Permutation (og ++ ob) (preR ++ post ++ oldBad).
  Proof.
    intros t. induction preR as [|o preR IH]; intros post oldBad isD og ob H; cbn [edi_scan] in H.
    - inversion H; subst. reflexivity.
    - destruct (negb isD && dom o t); [discriminate|]. destruct (dom t o).
      + apply IH in H. rewrite H. rewrite (swap_pop_perm A). perm.
      + apply IH in H. rewrite H. perm.
  Qed.

  Lemma edi_loop_perm : forall toCheckR oldGood oldBad newGood newBad,
    let '(og, ob, ng, nb) := edi_loop dom toCheckR oldGood oldBad newGood newBad in
    Permutation (og ++ ob ++ ng ++ nb) (toCheckR ++ oldGood ++ oldBad ++ newGood ++ newBad).
  Proof.
    induction toCheckR as [|t rest IH]; intros oldGood oldBad newGood newBad; cbn [edi_loop].
    - reflexivity.
    - destruct (edi_scan dom t (rev oldGood) [] oldBad false) as [[og' ob']|] eqn:E.
      + apply edi_scan_perm in E. cbn [app] in E. rewrite <- Permutation_rev in E.
        specialize (IH og' ob' (t :: newGood) newBad).
        destruct (edi_loop dom rest og' ob' (t :: newGood) newBad) as [[[og ob] ng] nb].
        rewrite IH.
        transitivity (rest ++ (og' ++ ob') ++ t :: newGood ++ newBad); [perm|].
        rewrite E. perm.
      + specialize (IH oldGood oldBad (swap_pop newGood) (t :: newBad)).
        destruct (edi_loop dom rest oldGood oldBad (swap_pop newGood) (t :: newBad)) as [[[og ob] ng] nb].
        rewrite IH. rewrite (swap_pop_perm A). perm.
  Qed.

  Lemma firstn_skipn_app_len : forall (X Y : list A) n, length X = n ->
    firstn n (X ++ Y) = X /\ skipn n (X ++ Y) = Y.
  Proof.
    induction X as [|x X IH]; intros Y n H; subst n; cbn [length app firstn skipn].
    - split; reflexivity.
    - destruct (IH Y (length X) eq_refl) as [H1 H2]. rewrite H1, H2. split; reflexivity.
  Qed.

  Lemma edi_shuffle_perm : forall ob ng : list A,
    Permutation (fst (edi_shuffle ob ng)) ng /\ Permutation (snd (edi_shuffle ob ng)) ob.
  Proof.
    intros ob ng. unfold edi_shuffle. cbv zeta. cbn [fst snd].
    set (m := Nat.min (length ob) (length ng)). set (c := length ng).
    rewrite app_assoc.
    destruct (firstn_skipn_app_len (rev (skipn (c - m) ng) ++ firstn (c - m) ng)
                                   (skipn m ob ++ rev (firstn m ob)) c) as [E1 E2].
    - rewrite app_length, rev_length, skipn_length, firstn_length. subst c m. lia.
    - rewrite E1, E2. split.
      + transitivity (firstn (c - m) ng ++ skipn (c - m) ng); [|rewrite firstn_skipn; reflexivity].
        rewrite <- Permutation_rev. apply Permutation_app_comm.
      + transitivity (firstn m ob ++ skipn m ob); [|rewrite firstn_skipn; reflexivity].
        rewrite <- Permutation_rev. apply Permutation_app_comm.
  Qed.

  Theorem extractDominatedIncrementalBy_perm : forall old new,
    let '(og, ngz, obz, nb, nr0) := extractDominatedIncrementalBy dom old new in
    Permutation (og ++ ngz ++ obz ++ nb ++ nr0) (old ++ new).
  Proof.
    intros old new. unfold extractDominatedIncrementalBy.
    pose proof (extractDominatedBy_perm A dom new) as HP.
    destruct (extractDominatedBy dom new) as [nk nr0].
    pose proof (edi_loop_perm (rev nk) old [] [] []) as HL.
    destruct (edi_loop dom (rev nk) old [] [] []) as [[[og ob] ng] nb].
    destruct (edi_shuffle_perm ob ng) as [H1 H2].
    destruct (edi_shuffle ob ng) as [ngz obz]. cbn [fst snd] in H1, H2.
    cbn [app] in HL. rewrite app_nil_r in HL. rewrite <- Permutation_rev in HL.
    rewrite H1, H2. rewrite <- HP.
    transitivity ((og ++ ob ++ ng ++ nb) ++ nr0); [perm|]. rewrite HL. perm.
  Qed.

  (* ---------------------------------------------------------------- uniqueness of prunings *)
  Theorem pruning_unique : dom_refl dom -> dom_trans dom -> forall inp o1 o2,
    is_pruning dom inp o1 -> is_pruning dom inp o2 ->
    forall x, In x o1 -> exists y, In y o2 /\ dom x y = true /\ dom y x = true.
  Proof.
    intros _ Htr inp o1 o2 [Hi1 [Hp1 Hc1]] [Hi2 [Hp2 Hc2]] x Hx.
    destruct (Hc2 x (Hi1 x Hx)) as [y [Hy Hyx]].
    destruct (Hc1 y (Hi2 y Hy)) as [z [Hz Hzy]].
    pose proof (Htr _ _ _ Hzy Hyx) as Hzx.
    pose proof (pnd_same o1 z x Hp1 Hz Hx Hzx) as E. subst z.
    exists y. split; [exact Hy|]. split; [exact Hzy| exact Hyx].
  Qed.

  (* ---------------------------------------------------------------- incremental: pruning *)
  Lemma edi_scan_inv : dom_trans dom -> forall t preR post oldBad isD,
    pnd dom (preR ++ post ++ oldBad) ->
    (forall o, In o post -> dom t o = false /\ dom o t = false) ->
    (isD = true -> exists o1, In o1 oldBad /\ dom t o1 = true) ->
    match edi_scan dom t preR post oldBad isD with
    | None => exists o, In o preR /\ dom o t = true
    | Some (og, ob) =>
        (forall o, In o og -> dom t o = false /\ dom o t = false) /\
        (forall o, In o og -> In o (preR ++ post)) /\
        (forall o, In o (preR ++ post) -> In o og \/ dom t o = true)
    end.
  Proof.
    intros Htr t. induction preR as [|o preR IH]; intros post oldBad isD Hp Hs HD; cbn [edi_scan].
    - split; [exact Hs|]. split; intros o Ho; [exact Ho| left; exact Ho].
    - destruct (negb isD && dom o t) eqn:E1.
      + apply andb_true_iff in E1. destruct E1 as [_ E1]. exists o. split; [left; reflexivity| exact E1].
      + destruct (dom t o) eqn:E2.
        * assert (P1 : pnd dom (preR ++ swap_pop post ++ o :: oldBad)).
          { eapply pnd_perm; [|exact Hp]. rewrite (swap_pop_perm A). perm. }
          assert (P2 : forall o', In o' (swap_pop post) -> dom t o' = false /\ dom o' t = false).
          { intros o' Ho'. apply Hs. apply in_swap_pop; exact Ho'. }
          assert (P3 : true = true -> exists o1, In o1 (o :: oldBad) /\ dom t o1 = true).
          { intros _. exists o. split; [left; reflexivity| exact E2]. }
          specialize (IH (swap_pop post) (o :: oldBad) true P1 P2 P3).
          destruct (edi_scan dom t preR (swap_pop post) (o :: oldBad) true) as [[og ob]|].
          -- destruct IH as [R2 [R4 R3]]. split; [exact R2|]. split.
             ++ intros o' Ho'. specialize (R4 o' Ho'). solve_in.
             ++ intros o' Ho'. cbn [app In] in Ho'. destruct Ho' as [<-|Ho'].
                ** right; exact E2.
                ** apply R3. solve_in.
          -- destruct IH as [o' [Ho' Hd']]. exists o'. split; [right; exact Ho'| exact Hd'].
        * assert (P1 : pnd dom (preR ++ (o :: post) ++ oldBad)).
          { eapply pnd_perm; [|exact Hp]. perm. }
          assert (P2 : forall o', In o' (o :: post) -> dom t o' = false /\ dom o' t = false).
          { intros o' [<-|Ho']; [|apply Hs; exact Ho']. split; [exact E2|].
            destruct isD.
            - destruct (HD eq_refl) as [o1 [Ho1 Hd1]].
              destruct (dom o t) eqn:E3; [exfalso|reflexivity].
              pose proof (Htr _ _ _ E3 Hd1) as C.
              cbn [app pnd] in Hp. destruct Hp as [Hh _].
              destruct (Hh o1) as [C' _]; [solve_in|]. congruence.
            - cbn [negb andb] in E1. exact E1. }
          specialize (IH (o :: post) oldBad isD P1 P2 HD).
          destruct (edi_scan dom t preR (o :: post) oldBad isD) as [[og ob]|].
          -- destruct IH as [R2 [R4 R3]]. split; [exact R2|]. split.
             ++ intros o' Ho'. specialize (R4 o' Ho'). solve_in.
             ++ intros o' Ho'. apply R3. solve_in.
          -- destruct IH as [o' [Ho' Hd']]. exists o'. split; [right; exact Ho'| exact Hd'].
  Qed.

  Lemma edi_loop_inv : dom_trans dom -> forall inp toCheckR oldGood oldBad newGood newBad,
    pnd dom (oldGood ++ oldBad) ->
    pnd dom (toCheckR ++ newGood) ->
    (forall g o, In g newGood -> In o oldGood -> dom o g = false /\ dom g o = false) ->
    covers (oldGood ++ toCheckR ++ newGood) inp ->
    let '(og, ob, ng, nb) := edi_loop dom toCheckR oldGood oldBad newGood newBad in
    pnd dom (og ++ ng) /\ covers (og ++ ng) inp.
  Proof.
    intros Htr inp. induction toCheckR as [|t rest IH];
      intros oldGood oldBad newGood newBad L1 L2 L3 L4; cbn [edi_loop].
    - split; [|exact L4]. apply pnd_app. apply pnd_app in L1. destruct L1 as [L1 _].
      split; [exact L1|]. split; [exact L2|].
      intros x y Hx Hy. destruct (L3 y x Hy Hx) as [H1 H2]. split; assumption.
    - assert (S1 : pnd dom (rev oldGood ++ [] ++ oldBad)).
      { eapply pnd_perm; [|exact L1]. cbn [app]. rewrite <- Permutation_rev. reflexivity. }
      assert (S2 : forall o, In o [] -> dom t o = false /\ dom o t = false) by (intros o []).
      assert (S3 : false = true -> exists o1, In o1 oldBad /\ dom t o1 = true) by discriminate.
      pose proof (edi_scan_inv Htr t (rev oldGood) [] oldBad false S1 S2 S3) as HS.
      pose proof (edi_scan_perm t (rev oldGood) [] oldBad false) as HPm.
      destruct (edi_scan dom t (rev oldGood) [] oldBad false) as [[og' ob']|].
      + destruct HS as [R2 [R4 R3]]. specialize (HPm og' ob' eq_refl). apply IH.
        * eapply pnd_perm; [apply Permutation_sym; exact HPm| exact S1].
        * eapply pnd_perm; [|exact L2]. perm.
        * intros g o [<-|Hg] Ho; [destruct (R2 o Ho) as [Q1 Q2]; split; assumption|].
          apply L3; [exact Hg|]. specialize (R4 o Ho). solve_in.
        * intros x Hx. destruct (L4 x Hx) as [y [Hy Hd]]. apply in_app_iff in Hy.
          destruct Hy as [Hy|Hy].
          -- destruct (R3 y) as [Hy'|Hd']; [solve_in| |].
             ++ exists y; split; [solve_in| exact Hd].
             ++ exists t; split; [solve_in| exact (Htr _ _ _ Hd' Hd)].
          -- exists y; split; [solve_in| exact Hd].
      + destruct HS as [o [Ho Hd]]. apply IH.
        * exact L1.
        * cbn [app pnd] in L2. destruct L2 as [_ L2].
          eapply pnd_perm; [|exact L2]. rewrite (swap_pop_perm A). reflexivity.
        * intros g o' Hg Ho'. apply L3; [apply in_swap_pop; exact Hg| exact Ho'].
        * eapply (covers_remove Htr _ _ _ t o L4); [| |exact Hd].
          -- intros y Hy. solve_in.
          -- solve_in.
  Qed.

  Theorem incremental_is_pruning : dom_refl dom -> dom_trans dom -> forall old new,
    pnd dom old ->
    let '(og, ngz, obz, nb, nr0) := extractDominatedIncrementalBy dom old new in
    is_pruning dom (old ++ new) (og ++ ngz).
  Proof.
    intros Hrf Htr old new Hold.
    pose proof (extractDominatedIncrementalBy_perm old new) as HP.
    unfold extractDominatedIncrementalBy in *.
    pose proof (extractDominatedBy_is_pruning Hrf Htr new) as HN.
    destruct (extractDominatedBy dom new) as [nk nr0].
    destruct HN as [Hin [Hpn Hcn]].
    pose proof (edi_loop_inv Htr (old ++ new) (rev nk) old [] [] []) as HL.
    destruct (edi_loop dom (rev nk) old [] [] []) as [[[og ob] ng] nb].
    destruct (edi_shuffle_perm ob ng) as [H1 H2].
    destruct (edi_shuffle ob ng) as [ngz obz]. cbn [fst snd] in H1, H2.
    destruct HL as [Hp Hc].
    - rewrite app_nil_r; exact Hold.
    - rewrite app_nil_r. eapply pnd_perm; [apply Permutation_rev| exact Hpn].
    - intros g o [].
    - intros x Hx. apply in_app_iff in Hx. destruct Hx as [Hx|Hx].
      + exists x; split; [solve_in| apply Hrf].
      + destruct (Hcn x Hx) as [y [Hy Hd]]. exists y; split; [solve_in| exact Hd].
    - split; [|split].
      + intros x Hx. eapply Permutation_in; [exact HP|]. solve_in.
      + eapply pnd_perm; [|exact Hp]. rewrite H1. reflexivity.
      + intros x Hx. destruct (Hc x Hx) as [y [Hy Hd]]. exists y; split; [|exact Hd].
        apply in_app_iff in Hy. apply in_app_iff. destruct Hy as [Hy|Hy]; [left; exact Hy| right].
        eapply Permutation_in; [apply Permutation_sym; exact H1| exact Hy].
  Qed.

  Theorem incremental_eq_union_gen : dom_refl dom -> dom_trans dom -> forall old new,
    pnd dom old ->
    let '(og, ngz, obz, nb, nr0) := extractDominatedIncrementalBy dom old new in
    let '(uk, ur) := extractDominatedBy dom (old ++ new) in
    (forall x, In x (og ++ ngz) -> exists y, In y uk /\ dom x y = true /\ dom y x = true) /\
    (forall y, In y uk -> exists x, In x (og ++ ngz) /\ dom x y = true /\ dom y x = true).
  Proof.
    intros Hrf Htr old new Hold.
    pose proof (incremental_is_pruning Hrf Htr old new Hold) as H1.
    pose proof (extractDominatedBy_is_pruning Hrf Htr (old ++ new)) as H2.
    destruct (extractDominatedIncrementalBy dom old new) as [[[[og ngz] obz] nb] nr0].
    destruct (extractDominatedBy dom (old ++ new)) as [uk ur].
    split.
    - exact (pruning_unique Hrf Htr _ _ _ H1 H2).
    - intros y Hy. destruct (pruning_unique Hrf Htr _ _ _ H2 H1 y Hy) as [x [Hx [Ha Hb]]].
      exists x. split; [exact Hx|]. split; assumption.
  Qed.

  (* ---------------------------------------------------------------- equal sizes *)
  Lemma equiv_length_le : dom_trans dom -> forall o1 o2, pnd dom o1 -> pnd dom o2 ->
    (forall x, In x o1 -> exists y, In y o2 /\ dom x y = true /\ dom y x = true) ->
    length o1 <= length o2.
  Proof.
    intros Htr. induction o1 as [|a t IH]; intros o2 Hp1 Hp2 H; cbn [length]; [lia|].
    cbn [pnd] in Hp1. destruct Hp1 as [Ha Ht].
    destruct (H a (or_introl eq_refl)) as [y [Hy [Hay Hya]]].
    apply in_split in Hy. destruct Hy as [l1 [l2 ->]].
    assert (Hp3 : pnd dom (l1 ++ l2)).
    { assert (Hp4 : pnd dom (y :: l1 ++ l2)).
      { eapply pnd_perm; [|exact Hp2]. apply Permutation_sym, Permutation_middle. }
      cbn [pnd] in Hp4. exact (proj2 Hp4). }
    assert (Hle : length t <= length (l1 ++ l2)).
    { apply IH; [exact Ht| exact Hp3|]. intros x Hx.
      destruct (H x (or_intror Hx)) as [y' [Hy' [Hxy Hyx]]].
      exists y'. split; [|split; assumption].
      apply in_app_iff in Hy'. apply in_app_iff. destruct Hy' as [Hy'|[<-|Hy']].
      - left; exact Hy'.
      - exfalso. pose proof (Htr _ _ _ Hay Hyx) as C. destruct (Ha x Hx) as [C' _]. congruence.
      - right; exact Hy'. }
    rewrite app_length in *. cbn [length]. lia.
  Qed.

  Theorem pruning_unique_length : dom_refl dom -> dom_trans dom -> forall inp o1 o2,
    is_pruning dom inp o1 -> is_pruning dom inp o2 -> length o1 = length o2.
  Proof.
    intros Hrf Htr inp o1 o2 H1 H2.
    pose proof (pruning_unique Hrf Htr _ _ _ H1 H2) as U12.
    pose proof (pruning_unique Hrf Htr _ _ _ H2 H1) as U21.
    destruct H1 as [_ [Hp1 _]]. destruct H2 as [_ [Hp2 _]].
    apply Nat.le_antisymm; apply (equiv_length_le Htr); assumption.
  Qed.

  Theorem incremental_length_union_gen : dom_refl dom -> dom_trans dom -> forall old new,
    pnd dom old ->
    let '(og, ngz, obz, nb, nr0) := extractDominatedIncrementalBy dom old new in
    let '(uk, ur) := extractDominatedBy dom (old ++ new) in
    length (og ++ ngz) = length uk.
  Proof.
    intros Hrf Htr old new Hold.
    pose proof (incremental_is_pruning Hrf Htr old new Hold) as H1.
    pose proof (extractDominatedBy_is_pruning Hrf Htr (old ++ new)) as H2.
    destruct (extractDominatedIncrementalBy dom old new) as [[[[og ngz] obz] nb] nr0].
    destruct (extractDominatedBy dom (old ++ new)) as [uk ur].
    exact (pruning_unique_length Hrf Htr _ _ _ H1 H2).
  Qed.

End IncProofs.
