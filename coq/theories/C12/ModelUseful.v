(* C12/ModelUseful.v — executable model of
     include/AIToolbox/Utils/Polytope.hpp   extractBestUsefulPoints
   Zone picture of the point array during the first loop:  K ++ U ++ D  with
     K = [pbegin, it)   one point per supported hyperplane (in order of arrival),
     U = [it, bound)    not yet visited (head = *it),
     D = [bound, pend)  discarded.
   bestValues is the list [bv]: entry v is None (first == pend, second == lowest()) or
   Some (index into K, value).  No proofs in this file. *)
From Coq Require Import List Arith QArith Bool.
From AIT Require Import Base.Qx C12.Model.
Import ListNotations.
Local Open Scope Q_scope.

Section Useful.
  Variable A : Type.
  Variable proj : A -> vec.
  Variable W : list A.                    (* the hyperplane range [begin, end) *)

  (* std::distance(begin, findBestAtPoint( *it, begin, end, &value, p)) and value *)
  Definition sup (p : vec) : option (nat * Q) :=
    match findBestAtPoint proj p W with Some (j, _, v) => Some (j, v) | None => None end.

  (* src: Polytope.hpp:extractBestUsefulPoints, first loop "while (it < bound && it < maxBound)".
     None = out of fuel / unchecked access out of range (excluded by the theorems' hypothesis). *)
  Fixpoint ubp1 (fuel maxBound : nat) (K : list vec) (bv : list (option (nat * Q))) (U D : list vec)
    : option (list vec * list (option (nat * Q)) * list vec * list vec) :=
    match U with
    | [] => Some (K, bv, [], D)
    | cur :: U' =>
        if (length K <? maxBound)%nat then
          match fuel with
          | O => None
          | S fuel' =>
              match sup cur with
              | None => None
              | Some (v, value) =>
                  match nth_error bv v with
                  | Some (Some (pi, b)) =>
                      if negb (Qle_bool value b)            (* bestValues[vId].second < value *)
                      then match nth_error K pi with
                           | None => None
                           | Some old =>                      (* iter_swap(first, it); iter_swap(it, --bound) *)
                               ubp1 fuel' maxBound (@set_nth _ pi cur K)
                                    (@set_nth _ v (Some (pi, value)) bv) (@swap_pop _ U') (old :: D)
                           end
                      else ubp1 fuel' maxBound K bv (@swap_pop _ U') (cur :: D)   (* iter_swap(it, --bound) *)
                  | Some None =>                              (* bestValues[vId] = {it++, value}; continue *)
                      ubp1 fuel' maxBound (K ++ [cur]) (@set_nth _ v (Some (length K, value)) bv) U' D
                  | None => None
                  end
              end
          end
        else Some (K, bv, U, D)
    end.

  (* second loop "while (it < bound)": P = [maxBound, it) already visited.
     An unsupported hyperplane here would be iter_swap(pend, it): None. *)
  Fixpoint ubp2 (K : list vec) (bv : list (option (nat * Q))) (P U : list vec)
    : option (list vec * list vec) :=
    match U with
    | [] => Some (K, P)
    | cur :: U' =>
        match sup cur with
        | None => None
        | Some (v, value) =>
            match nth_error bv v with
            | Some (Some (pi, b)) =>
                if negb (Qle_bool value b)
                then match nth_error K pi with
                     | None => None
                     | Some old => ubp2 (@set_nth _ pi cur K) (@set_nth _ v (Some (pi, value)) bv) (P ++ [old]) U'
                     end
                else ubp2 K bv (P ++ [cur]) U'
            | _ => None
            end
        end
    end.

  (* src: Polytope.hpp:extractBestUsefulPoints — (useful, rest): the array afterwards is
     useful ++ rest and the returned iterator is pbegin + length useful. *)
  Definition extractBestUsefulPoints (pts : list vec) : option (list vec * list vec) :=
    match W with
    | [] => Some ([], pts)                                   (* if (entriesN == 0) return pbegin *)
    | _ :: _ =>
        let maxBound := if (length pts <? length W)%nat then length pts else length W in
        match ubp1 (length pts) maxBound [] (repeat None (length W)) pts [] with
        | None => None
        | Some (K, bv, U, D) =>
            match U with
            | [] => Some (K, D)                              (* if (it == bound) return it *)
            | _ :: _ =>
                match ubp2 K bv [] U with
                | None => None
                | Some (K', P) => Some (K', P ++ D)          (* return maxBound *)
                end
            end
        end
    end.
End Useful.

Definition extractBestUsefulPointsV (W pts : list vec) := extractBestUsefulPoints vec vid W pts.
Definition supV (W : list vec) (p : vec) := sup vec vid W p.

(* boolean checker of the cover clause, used by the driver's oracle:
   every point has a kept point supporting the same hyperplane with at least its value *)
Definition useful_coverb (W kept pts : list vec) : bool :=
  forallb (fun p => match supV W p with
                    | None => false
                    | Some (j, vp) =>
                        existsb (fun q => match supV W q with
                                          | Some (j', vq) => Nat.eqb j j' && Qle_bool vp vq
                                          | None => false end) kept
                    end) pts.

(* ---------------------------------------------------------------------------------------------
   findBestDeltaDominated *)
Definition vsubq (a b : vec) : vec := map (fun p => fst p - snd p) (combine a b).
Definition normsq (v : vec) : Q := dot v v.

(* src: Polytope.hpp:findBestDeltaDominated, the loop's test for one entry:
     newVal > maxVal  &&  (newVal - maxVal) / (newPlane - maxPlane).norm() > delta
   with the square root eliminated: for diff > 0,  diff / sqrt(n2) > delta  iff
   delta < 0  or  diff^2 > delta^2 * n2   (n2 = 0 gives +inf > delta in the C++, true here too). *)
Definition ddomb (point : vec) (delta : Q) (maxPlane newPlane : vec) : bool :=
  let diff := dot point newPlane - dot point maxPlane in
  negb (Qle_bool diff 0)
  && (negb (Qle_bool 0 delta)
      || negb (Qle_bool (diff * diff) (delta * delta * normsq (vsubq newPlane maxPlane)))).

Section DeltaDom.
  Variable A : Type.
  Variable proj : A -> vec.
  Variables (point : vec) (delta : Q).

  (* the loop: (maxPlane, retval) with retval an index (None = end) *)
  Fixpoint dd_go (mp : vec) (ret : option nat) (i : nat) (l : list A) : vec * option nat :=
    match l with
    | [] => (mp, ret)
    | x :: t => if ddomb point delta mp (proj x)
                then dd_go (proj x) (Some i) (S i) t
                else dd_go mp ret (S i) t
    end.

  (* src: Polytope.hpp:findBestDeltaDominated — index of the returned entry, None = end *)
  Definition findBestDeltaDominated (plane : vec) (l : list A) : option nat :=
    snd (dd_go plane None O l).
End DeltaDom.

Definition findBestDeltaDominatedV (point : vec) (delta : Q) (plane : vec) (l : list vec) :=
  findBestDeltaDominated vec vid point delta plane l.
