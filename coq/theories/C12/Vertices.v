(* C12/Vertices.v — executable model of include/AIToolbox/Utils/Polytope.hpp:findVerticesNaive (both
   overloads, as repaired in /repo b24b529 and by fixes/C12-vertices-singular.patch: boundaries contribute their own equations x_j = 0 and the
   limited coordinates are set to exactly 0).  The linear solve (Eigen colPivHouseholderQr().solve)
   is an oracle.  No proofs in this file. *)
From Coq Require Import List Arith QArith Qminmax Bool.
From AIT Require Import Base.Qx C12.Spec.
Import ListNotations.
Local Open Scope Q_scope.

(* k-element subsets of an increasing list, as increasing lists, in lexicographic order — the order
   in which SubsetEnumerator::advance visits them (src: Utils/Combinatorics.hpp:SubsetEnumerator) *)
Fixpoint subsets (l : list nat) (k : nat) : list (list nat) :=
  match l with
  | [] => match k with O => [[]] | S _ => [] end
  | x :: t => match k with
              | O => [[]]
              | S k' => map (cons x) (subsets t k') ++ subsets t (S k')
              end
  end.

(* the subsets findVerticesNaive processes: (S-1)-subsets of [0, N+S) whose smallest element is an
   alpha index (< N); the loop breaks at the first subset made of boundaries only, and in
   lexicographic order all those come last.  dim = S, N = alphasSize.  (S = 1 is undefined
   behaviour in the C++: the enumerator would have no element.) *)
Definition fv_subsets (dim N : nat) : list (list nat) :=
  filter (fun ids => match ids with i :: _ => (i <? N)%nat | [] => false end)
         (subsets (seq 0 (N + dim)) (dim - 1)).

(* one equation per selected element: an alpha must have the new plane's value (alpha . x - v = 0),
   a boundary forces its coordinate to zero *)
Definition fv_row (dim N : nat) (alphas : list vec) (idx : nat) : vec :=
  if (idx <? N)%nat then nth idx alphas [] ++ [-(1)] else unit_vec dim (idx - N) ++ [0].
(* unknowns (x_0 … x_{S-1}, v) *)
Definition fv_matrix (dim : nat) (newV : vec) (alphas : list vec) (ids : list nat) : mat :=
  (newV ++ [-(1)]) :: map (fv_row dim (length alphas) alphas) ids ++ [repeat 1 dim ++ [0]].
Definition fv_rhs (ids : list nat) : vec := repeat 0 (S (length ids)) ++ [1].

(* the coordinates limited by a selected boundary are set to exactly 0.0; returns (point, value) *)
Definition fv_clean (dim N : nat) (ids : list nat) (res : vec) : vec * Q :=
  (map (fun j => if existsb (fun idx => (idx =? N + j)%nat) ids then 0 else nthq res j) (seq 0 dim),
   nthq res dim).
(* (result.head(S) >= 0).all() && max < 1.0 && checkDifferentSmall(max, 1.0) *)
Definition fv_accept (p : vec) : bool :=
  forallb (fun x => Qle_bool 0 x) p &&
  (if Qlt_le_dec (maxl p) 1 then true else false) && negb (eqSmall (maxl p) 1).

(* fixes/C12-vertices-singular.patch: "residual.cwiseAbs().maxCoeff() <= equalToleranceSmall" for the
   cleaned result x = (point, value): a singular system (parallel planes ...) only has a
   least-squares answer, which is not a vertex *)
Definition fv_residual_ok (A : mat) (b x : vec) : bool :=
  forallb (fun rb => Qle_bool (qabs (dot (fst rb) x - snd rb)) epsS) (combine A b).

Section Vertices.
  (* Eigen: m.topRows(counter).colPivHouseholderQr().solve(b.head(counter)) *)
  Variable solve : mat -> vec -> vec.

  (* vertices of one new plane against the alphas, tagged with the subset they come from *)
  Definition fv_tagged (newV : vec) (alphas : list vec) : list (list nat * (vec * Q)) :=
    match alphas with
    | [] => []
    | a0 :: _ =>
        let dim := length a0 in
        let N := length alphas in
        flat_map (fun ids =>
                    let pv := fv_clean dim N ids (solve (fv_matrix dim newV alphas ids) (fv_rhs ids)) in
                    if fv_residual_ok (fv_matrix dim newV alphas ids) (fv_rhs ids) (fst pv ++ [snd pv])
                       && fv_accept (fst pv) then [(ids, pv)] else [])
                 (fv_subsets dim N)
    end.

  (* src: Polytope.hpp:findVerticesNaive(beginNew, endNew, alphasBegin, alphasEnd) — (points, values) *)
  Definition findVerticesNaive (newVs alphas : list vec) : list (vec * Q) :=
    flat_map (fun newV => map snd (fv_tagged newV alphas)) newVs.

  (* src: Polytope.hpp:findVerticesNaive(range): each plane against all the others (IndexSkipMap) *)
  Definition findVerticesNaiveRange (range : list vec) : list (vec * Q) :=
    flat_map (fun i => findVerticesNaive [nth i range []] (firstn i range ++ skipn (S i) range))
             (seq 0 (length range)).
End Vertices.
