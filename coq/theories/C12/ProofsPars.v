(* C12/ProofsPars.v — lexicographic tie-break of findBestAtPoint and parsimony of the Pruner:
   every vector the Pruner keeps is needed somewhere on the simplex. *)
From Coq Require Import List Arith QArith Qminmax Lqa Lia Bool Permutation.
From AIT Require Import Base.Qx Base.Mdp C12.Model C12.Spec C12.Proofs C12.ProofsPruner.
Import ListNotations.
Local Open Scope Q_scope.

(* ================================================================ PART 1a: veccmp *)
Ltac qcmp x y E :=
  destruct (x ?= y) eqn:E; [apply Qeq_alt in E | apply Qlt_alt in E | apply Qgt_alt in E].

Lemma veccmp_refl : forall a, veccmp a a = Eq.
Proof.
  induction a as [|x a IH]; cbn [veccmp]; [reflexivity|].
  assert (E : (x ?= x) = Eq) by (apply Qeq_alt; reflexivity). rewrite E. exact IH.
Qed.

Lemma veccmp_antisym : forall a b, veccmp a b = CompOpp (veccmp b a).
Proof.
  induction a as [|x a IH]; intros [|y b]; cbn [veccmp]; try reflexivity.
  rewrite <- (Qcompare_antisym y x). destruct (y ?= x); cbn [CompOpp]; try reflexivity. apply IH.
Qed.

Lemma veccmp_eq_veq : forall a b, length a = length b -> veccmp a b = Eq -> veq a b.
Proof.
  induction a as [|x a IH]; intros [|y b] Hl H; try discriminate Hl.
  - constructor.
  - cbn [veccmp] in H. qcmp x y E; try discriminate H.
    constructor; [exact E|]. apply IH; [cbn [length] in Hl; lia| exact H].
Qed.

Lemma veq_sym : forall a b, veq a b -> veq b a.
Proof. intros a b H; induction H; constructor; [symmetry; assumption| assumption]. Qed.

(* strict transitivity; no length hypothesis needed *)
Lemma veccmp_gt_trans : forall a b c, veccmp a b = Gt -> veccmp b c = Gt -> veccmp a c = Gt.
Proof.
  induction a as [|x a IH]; intros [|y b] [|z c] H1 H2; cbn [veccmp] in *; try discriminate.
  qcmp x y E1; qcmp y z E2; qcmp x z E3; try discriminate; try reflexivity; try (exfalso; lra).
  eapply IH; eassumption.
Qed.

(* "y <= b" and "x > b" give "y <= x"; no length hypothesis needed *)
Lemma veccmp_le_lt : forall y b x, veccmp y b <> Gt -> veccmp x b = Gt -> veccmp y x <> Gt.
Proof.
  induction y as [|y0 y IH]; intros [|b0 b] [|x0 x] H1 H2; cbn [veccmp] in *; try discriminate.
  qcmp y0 b0 E1; qcmp x0 b0 E2; qcmp y0 x0 E3; try discriminate; try congruence; try (exfalso; lra).
  eapply IH; eassumption.
Qed.

(* transitivity of the lexicographic "<=" on vectors of one length *)
Lemma veccmp_le_trans : forall a b c, length a = length b -> length b = length c ->
  veccmp a b <> Gt -> veccmp b c <> Gt -> veccmp a c <> Gt.
Proof.
  induction a as [|x a IH]; intros [|y b] [|z c] L1 L2 H1 H2; cbn [veccmp length] in *; try discriminate; try lia.
  qcmp x y E1; qcmp y z E2; qcmp x z E3; try discriminate; try congruence; try (exfalso; lra).
  apply (IH b c); try lia; assumption.
Qed.

(* the same with a strict conclusion, for y and x of one length *)
Lemma veccmp_le_lt_strict : forall y b x, length y = length x ->
  veccmp y b <> Gt -> veccmp x b = Gt -> veccmp y x = Lt.
Proof.
  induction y as [|y0 y IH]; intros [|b0 b] [|x0 x] L H1 H2; cbn [veccmp length] in *;
    try discriminate; try lia.
  qcmp y0 b0 E1; qcmp x0 b0 E2; qcmp y0 x0 E3; try discriminate; try congruence; try reflexivity;
    try (exfalso; lra).
  apply (IH b x); try lia; assumption.
Qed.

(* ================================================================ PART 1b: tie-break of fb_go *)
Section TieBreak.
  Variable A : Type.
  Variable proj : A -> vec.

  (* [S] = the already scanned elements *)
  Lemma fb_go_tiebreak : forall (score : A -> Q) l bi ba bv i (S : A -> Prop),
    (forall y, S y -> score y <= bv) ->
    (forall y, S y -> score y == bv -> veccmp (proj y) (proj ba) <> Gt) ->
    let '(j, a, v) := fb_go proj score bi ba bv i l in
    forall y, S y \/ In y l -> score y == v -> veccmp (proj y) (proj a) <> Gt.
  Proof.
    intros score. induction l as [|x l IH]; intros bi ba bv i S Hle Htie; cbn [fb_go].
    - intros y [Hy|[]] E. apply Htie; assumption.
    - qcmp (score x) bv E.
      + destruct (veccmp (proj x) (proj ba)) eqn:EV.
        * specialize (IH bi ba bv (Datatypes.S i) (fun y => S y \/ y = x)).
          destruct (fb_go proj score bi ba bv (Datatypes.S i) l) as [[j a] v].
          intros y Hy. apply IH.
          -- intros z [Hz| ->]; [apply Hle; exact Hz| lra].
          -- intros z [Hz| ->] Ez; [apply Htie; assumption| congruence].
          -- destruct Hy as [Hy|[<-|Hy]]; [left; left; exact Hy| left; right; reflexivity| right; exact Hy].
        * specialize (IH bi ba bv (Datatypes.S i) (fun y => S y \/ y = x)).
          destruct (fb_go proj score bi ba bv (Datatypes.S i) l) as [[j a] v].
          intros y Hy. apply IH.
          -- intros z [Hz| ->]; [apply Hle; exact Hz| lra].
          -- intros z [Hz| ->] Ez; [apply Htie; assumption| congruence].
          -- destruct Hy as [Hy|[<-|Hy]]; [left; left; exact Hy| left; right; reflexivity| right; exact Hy].
        * specialize (IH i x (score x) (Datatypes.S i) (fun y => S y \/ y = x)).
          destruct (fb_go proj score i x (score x) (Datatypes.S i) l) as [[j a] v].
          intros y Hy. apply IH.
          -- intros z [Hz| ->]; [specialize (Hle z Hz); lra| lra].
          -- intros z [Hz| ->] Ez; [| rewrite veccmp_refl; discriminate].
             apply (veccmp_le_lt _ (proj ba)); [|exact EV]. apply Htie; [exact Hz| lra].
          -- destruct Hy as [Hy|[<-|Hy]]; [left; left; exact Hy| left; right; reflexivity| right; exact Hy].
      + specialize (IH bi ba bv (Datatypes.S i) (fun y => S y \/ y = x)).
        destruct (fb_go proj score bi ba bv (Datatypes.S i) l) as [[j a] v].
        intros y Hy. apply IH.
        -- intros z [Hz| ->]; [apply Hle; exact Hz| lra].
        -- intros z [Hz| ->] Ez; [apply Htie; assumption| exfalso; lra].
        -- destruct Hy as [Hy|[<-|Hy]]; [left; left; exact Hy| left; right; reflexivity| right; exact Hy].
      + specialize (IH i x (score x) (Datatypes.S i) (fun y => S y \/ y = x)).
        destruct (fb_go proj score i x (score x) (Datatypes.S i) l) as [[j a] v].
        intros y Hy. apply IH.
        -- intros z [Hz| ->]; [specialize (Hle z Hz); lra| lra].
        -- intros z [Hz| ->] Ez; [specialize (Hle z Hz); exfalso; lra| rewrite veccmp_refl; discriminate].
        -- destruct Hy as [Hy|[<-|Hy]]; [left; left; exact Hy| left; right; reflexivity| right; exact Hy].
  Qed.

  (* the returned element is the lexicographically greatest among the maximisers *)
  Theorem findBestBy_tiebreak : forall (score : A -> Q) l j a v,
    findBestBy proj score l = Some (j, a, v) ->
    forall x, In x l -> score x == v -> veccmp (proj x) (proj a) <> Gt.
  Proof.
    intros score [|x0 l] j a v H; [discriminate|]. cbn [findBestBy] in H. inversion H as [H1]; clear H.
    pose proof (fb_go_tiebreak score l O x0 (score x0) 1%nat (fun y => y = x0)) as T.
    rewrite H1 in T. intros x Hx. apply T.
    - intros y ->. lra.
    - intros y -> _. rewrite veccmp_refl. discriminate.
    - destruct Hx as [<-|Hx]; [left; reflexivity| right; exact Hx].
  Qed.
  (* among the maximisers, every one at an earlier index is lexicographically strictly smaller
     (vectors of one length).  [S p y] = y was scanned at index p. *)
  Lemma fb_go_first : forall (score : A -> Q) l bi ba bv i (S : nat -> A -> Prop),
    (forall p y, S p y -> score y <= bv) ->
    (forall p y, S p y -> score y == bv -> veccmp (proj y) (proj ba) <> Gt) ->
    (forall p y, S p y -> (p < bi)%nat -> score y == bv -> length (proj y) = length (proj ba) ->
                 veccmp (proj y) (proj ba) = Lt) ->
    (forall p y, S p y -> (p < i)%nat) -> (bi < i)%nat ->
    let '(j, a, v) := fb_go proj score bi ba bv i l in
    forall p y, S p y \/ ((i <= p)%nat /\ nth_error l (p - i) = Some y) -> (p < j)%nat ->
      score y == v -> length (proj y) = length (proj a) -> veccmp (proj y) (proj a) = Lt.
  Proof.
    intros score. induction l as [|x l IH]; intros bi ba bv i S Hle Htie Hst Hidx Hbi; cbn [fb_go].
    - intros p y [Hy|[_ Hy]]; [|destruct (p - i)%nat; discriminate Hy]. apply Hst; exact Hy.
    - assert (Hgoal : forall p y, S p y \/ ((i <= p)%nat /\ nth_error (x :: l) (p - i) = Some y) ->
                (S p y \/ (p = i /\ y = x)) \/ ((Datatypes.S i <= p)%nat /\ nth_error l (p - Datatypes.S i) = Some y)).
      { intros p y [Hy|[Hp Hy]]; [left; left; exact Hy|].
        destruct (Nat.eq_dec p i) as [->|Hne].
        - rewrite Nat.sub_diag in Hy. cbn [nth_error] in Hy. inversion Hy; subst. left; right; split; reflexivity.
        - right. split; [lia|]. replace (p - i)%nat with (Datatypes.S (p - Datatypes.S i)) in Hy by lia. exact Hy. }
      assert (Hidx' : forall p y, S p y \/ (p = i /\ y = x) -> (p < Datatypes.S i)%nat).
      { intros p y [Hy|[-> _]]; [specialize (Hidx p y Hy); lia| lia]. }
      assert (Hkeep : (score x < bv \/ (score x == bv /\ veccmp (proj x) (proj ba) <> Gt)) ->
        let '(j, a, v) := fb_go proj score bi ba bv (Datatypes.S i) l in
        forall p y, S p y \/ ((i <= p)%nat /\ nth_error (x :: l) (p - i) = Some y) -> (p < j)%nat ->
          score y == v -> length (proj y) = length (proj a) -> veccmp (proj y) (proj a) = Lt).
      { intros Hc. specialize (IH bi ba bv (Datatypes.S i) (fun p y => S p y \/ (p = i /\ y = x))).
        destruct (fb_go proj score bi ba bv (Datatypes.S i) l) as [[j a] v].
        intros p y Hy. apply IH; [| | | exact Hidx'| lia| apply Hgoal; exact Hy].
        - intros q z [Hz|[_ ->]]; [apply (Hle q); exact Hz| destruct Hc as [Hc|[Hc _]]; lra].
        - intros q z [Hz|[_ ->]] Ez; [apply (Htie q); assumption|].
          destruct Hc as [Hc|[_ Hc]]; [exfalso; lra| exact Hc].
        - intros q z [Hz|[-> _]] Hq; [apply (Hst q); assumption| lia]. }
      assert (Hupd : (bv < score x \/ (score x == bv /\ veccmp (proj x) (proj ba) = Gt)) ->
        let '(j, a, v) := fb_go proj score i x (score x) (Datatypes.S i) l in
        forall p y, S p y \/ ((i <= p)%nat /\ nth_error (x :: l) (p - i) = Some y) -> (p < j)%nat ->
          score y == v -> length (proj y) = length (proj a) -> veccmp (proj y) (proj a) = Lt).
      { intros Hc. specialize (IH i x (score x) (Datatypes.S i) (fun p y => S p y \/ (p = i /\ y = x))).
        destruct (fb_go proj score i x (score x) (Datatypes.S i) l) as [[j a] v].
        intros p y Hy. apply IH; [| | | exact Hidx'| lia| apply Hgoal; exact Hy].
        - intros q z [Hz|[_ ->]]; [specialize (Hle q z Hz); destruct Hc as [Hc|[Hc _]]; lra| lra].
        - intros q z [Hz|[_ ->]] Ez; [| rewrite veccmp_refl; discriminate].
          specialize (Hle q z Hz). destruct Hc as [Hc|[Hc1 Hc2]]; [exfalso; lra|].
          apply (veccmp_le_lt _ (proj ba)); [|exact Hc2]. apply (Htie q); [exact Hz| lra].
        - intros q z [Hz|[-> _]] Hq Ez Hl; [|lia].
          pose proof (Hle q z Hz) as Hle'. destruct Hc as [Hc|[Hc1 Hc2]]; [exfalso; lra|].
          apply (veccmp_le_lt_strict _ (proj ba)); [exact Hl| |exact Hc2]. apply (Htie q); [exact Hz| lra]. }
      qcmp (score x) bv E.
      + destruct (veccmp (proj x) (proj ba)) eqn:EV.
        * apply Hkeep. right. split; [exact E| discriminate].
        * apply Hkeep. right. split; [exact E| discriminate].
        * apply Hupd. right. split; [exact E| reflexivity].
      + apply Hkeep. left; exact E.
      + apply Hupd. left; exact E.
  Qed.

  Theorem findBestBy_first : forall (score : A -> Q) l j a v,
    findBestBy proj score l = Some (j, a, v) ->
    forall i x, nth_error l i = Some x -> (i < j)%nat -> score x == v ->
      length (proj x) = length (proj a) -> veccmp (proj x) (proj a) = Lt.
  Proof.
    intros score [|x0 l] j a v H; [discriminate|]. cbn [findBestBy] in H. inversion H as [H1]; clear H.
    pose proof (fb_go_first score l O x0 (score x0) 1%nat (fun p y => p = O /\ y = x0)) as T.
    rewrite H1 in T. intros i x Hn. apply T.
    - intros p y [_ ->]. lra.
    - intros p y [_ ->] _. rewrite veccmp_refl. discriminate.
    - intros p y _ Hp. lia.
    - intros p y [-> _]. lia.
    - lia.
    - destruct i as [|i]; cbn [nth_error] in Hn.
      + inversion Hn; subst. left; split; reflexivity.
      + right. split; [lia|]. cbn [Nat.sub]. rewrite Nat.sub_0_r. exact Hn.
  Qed.
End TieBreak.

(* ================================================================ PART 2a: perturbation *)
(* one step size that keeps finitely many strictly positive margins positive *)
Lemma exists_small : forall (l : list (Q * Q)),
  exists e, 0 < e /\ forall e', 0 < e' -> e' <= e ->
    forall mc, In mc l -> 0 < fst mc -> 0 < fst mc + e' * snd mc.
Proof.
  induction l as [|[m c] l IH].
  - exists 1. split; [lra|]. intros e' _ _ mc [].
  - destruct IH as [e [He IH]].
    destruct (Qlt_le_dec 0 m) as [Hm|Hm].
    + destruct (Qlt_le_dec c 0) as [Hc|Hc].
      * set (d := - c). assert (Hd : 0 < d) by (unfold d; lra).
        set (e0 := m / (2 * d)).
        assert (E0 : e0 * (2 * d) == m) by (unfold e0; field; lra).
        assert (He0 : 0 < e0) by nra.
        exists (Qmin e e0). split; [apply Q.min_glb_lt; assumption|].
        intros e' Hp Hle mc [<-|Hin] Hpos.
        -- cbn [fst snd]. pose proof (Q.le_min_r e e0). assert (c == - d) by (unfold d; lra). nra.
        -- apply IH; try assumption. pose proof (Q.le_min_l e e0). lra.
      * exists e. split; [exact He|]. intros e' Hp Hle mc [<-|Hin] Hpos.
        -- cbn [fst snd]. nra.
        -- apply IH; assumption.
    + exists e. split; [exact He|]. intros e' Hp Hle mc [<-|Hin] Hpos.
      * cbn [fst] in Hpos. lra.
      * apply IH; assumption.
Qed.

(* increments: every margin m >= 0, ties broken lexicographically in favour of x, can be made
   strictly positive by a non-negative increment vector *)
Lemma perturb_core : forall (x : vec) (U : list (vec * Q)),
  (forall u m, In (u, m) U -> length u = length x) ->
  (forall u m, In (u, m) U -> 0 < m \/ (m == 0 /\ veccmp x u = Gt)) ->
  exists d, nonneg d /\ length d = length x /\
    forall u m, In (u, m) U -> 0 < m + dot x d - dot u d.
Proof.
  induction x as [|x0 x IH]; intros U Hlen Hcls.
  - exists []. split; [constructor|]. split; [reflexivity|].
    intros u m Hin. rewrite !dot_nil_r.
    destruct (Hcls u m Hin) as [Hm|[_ Hc]]; [lra| cbn [veccmp] in Hc; discriminate].
  - destruct (exists_small (map (fun um => (snd um, x0 - hd 0 (fst um))) U)) as [d0 [Hd0 Hsm]].
    set (U' := map (fun um : vec * Q => (tl (fst um), snd um + d0 * (x0 - hd 0 (fst um)))) U).
    destruct (IH U') as [d [Hnn [Hld Hd]]].
    + intros u' m' Hin. unfold U' in Hin. apply in_map_iff in Hin. destruct Hin as [[u m] [E Hin]].
      inversion E; subst u' m'. cbn [fst snd]. specialize (Hlen u m Hin).
      destruct u as [|u0 u]; cbn [length tl] in *; lia.
    + intros u' m' Hin. unfold U' in Hin. apply in_map_iff in Hin. destruct Hin as [[u m] [E Hin]].
      inversion E; subst u' m'. cbn [fst snd]. pose proof (Hlen u m Hin) as Hl.
      destruct u as [|u0 u]; [cbn [length] in Hl; lia|]. cbn [hd tl].
      destruct (Hcls (u0 :: u) m Hin) as [Hm|[Hm Hc]].
      * left. apply (Hsm d0 Hd0 (Qle_refl _) (m, x0 - u0)); [|exact Hm].
        apply in_map_iff. exists (u0 :: u, m). split; [reflexivity| exact Hin].
      * cbn [veccmp] in Hc. qcmp x0 u0 E0; try discriminate Hc.
        -- right. split; [| exact Hc]. setoid_replace (x0 - u0) with 0 by lra. lra.
        -- left. nra.
    + exists (d0 :: d). split; [constructor; [lra| exact Hnn]|]. split; [cbn [length]; lia|].
      intros u m Hin. pose proof (Hlen u m Hin) as Hl.
      destruct u as [|u0 u]; [cbn [length] in Hl; lia|].
      assert (Hin' : In (u, m + d0 * (x0 - u0)) U').
      { unfold U'. apply in_map_iff. exists (u0 :: u, m). split; [reflexivity| exact Hin]. }
      specialize (Hd _ _ Hin'). cbn [dot]. nra.
Qed.

Lemma dot_vadd_r : forall u b d, length b = length d -> dot u (vadd b d) == dot u b + dot u d.
Proof.
  induction u as [|u0 u IH]; intros [|b0 b] [|d0 d] Hl; cbn [length] in Hl; try lia;
    unfold vadd; cbn [combine map dot fst snd]; try lra.
  fold (vadd b d). rewrite IH by lia. lra.
Qed.

Lemma qsum_vadd : forall b d, length b = length d -> qsum (vadd b d) == qsum b + qsum d.
Proof.
  induction b as [|b0 b IH]; intros [|d0 d] Hl; cbn [length] in Hl; try lia;
    unfold vadd; cbn [combine map qsum fst snd]; try lra.
  fold (vadd b d). rewrite IH by lia. lra.
Qed.

Lemma nonneg_vadd : forall b d, nonneg b -> nonneg d -> nonneg (vadd b d).
Proof.
  intros b d Hb. revert d. induction Hb as [|b0 b H0 Hb IH]; intros d Hd.
  - constructor.
  - destruct Hd as [|d0 d Hd0 Hd]; unfold vadd; cbn [combine map fst snd]; constructor; [lra|].
    apply IH; exact Hd.
Qed.

Lemma length_vadd : forall b d, length b = length d -> length (vadd b d) = length b.
Proof. intros b d Hl. unfold vadd. rewrite map_length, combine_length. lia. Qed.

Lemma nonneg_vscale : forall c b, 0 <= c -> nonneg b -> nonneg (vscale c b).
Proof.
  intros c b Hc Hb. induction Hb as [|b0 b H0 Hb IH]; cbn [vscale map]; constructor; [nra| exact IH].
Qed.

(* normalisation of a non-negative vector of positive mass *)
Lemma normalise_simplex : forall n b, length b = n -> nonneg b -> 0 < qsum b ->
  simplex n (vscale (/ qsum b) b).
Proof.
  intros n b Hl Hb Hs. assert (Hi : 0 < / qsum b) by (apply Qinv_lt_0_compat; exact Hs).
  split; [unfold vscale; rewrite map_length; exact Hl|]. split.
  - apply nonneg_vscale; [lra| exact Hb].
  - unfold vscale. rewrite qsum_map_scale. field. lra.
Qed.

Theorem perturb : forall n x (U : list vec) b, simplex n b -> length x = n ->
  Forall (fun u => length u = n) U ->
  (forall u, In u U -> dot u b < dot x b \/ (dot u b == dot x b /\ veccmp x u = Gt)) ->
  exists b', simplex n b' /\ forall u, In u U -> dot u b' < dot x b'.
Proof.
  intros n x U b [Hlb [Hnb Hsb]] Hlx HlU Hcls.
  destruct (perturb_core x (map (fun u => (u, dot x b - dot u b)) U)) as [d [Hnd [Hld Hd]]].
  - intros u m Hin. apply in_map_iff in Hin. destruct Hin as [u' [E Hin]]. inversion E; subst u' m.
    rewrite Forall_forall in HlU. rewrite (HlU u Hin). symmetry; exact Hlx.
  - intros u m Hin. apply in_map_iff in Hin. destruct Hin as [u' [E Hin]]. inversion E; subst u'.
    destruct (Hcls u Hin) as [H|[H Hc]]; [left; lra| right; split; [lra| exact Hc]].
  - assert (Hbd : length b = length d) by congruence.
    set (bd := vadd b d).
    assert (Hs : 0 < qsum bd).
    { unfold bd. rewrite qsum_vadd by exact Hbd. pose proof (qsum_nonneg d Hnd). lra. }
    assert (Hi : 0 < / qsum bd) by (apply Qinv_lt_0_compat; exact Hs).
    exists (vscale (/ qsum bd) bd). split.
    + apply normalise_simplex; [unfold bd; rewrite length_vadd by exact Hbd; exact Hlb| | exact Hs].
      unfold bd. apply nonneg_vadd; assumption.
    + intros u Hin. rewrite !dot_scale_r. unfold bd. rewrite !dot_vadd_r by exact Hbd.
      assert (Hin' : In (u, dot x b - dot u b) (map (fun u => (u, dot x b - dot u b)) U)).
      { apply in_map_iff. exists u. split; [reflexivity| exact Hin]. }
      specialize (Hd _ _ Hin'). fold bd. nra.
Qed.

(* ================================================================ PART 2b *)
Lemma lexmax_cases : forall (su sx : Q) (u x : vec), length u = length x -> su <= sx ->
  (su == sx -> veccmp u x <> Gt) -> ~ veq u x ->
  su < sx \/ (su == sx /\ veccmp x u = Gt).
Proof.
  intros su sx u x Hl Hle Htie Hne. destruct (Qlt_le_dec su sx) as [H|H]; [left; exact H|].
  right. assert (E : su == sx) by lra. split; [exact E|]. specialize (Htie E).
  rewrite veccmp_antisym. destruct (veccmp u x) eqn:EV; cbn [CompOpp].
  - exfalso. apply Hne. apply veccmp_eq_veq; assumption.
  - reflexivity.
  - congruence.
Qed.

(* ================================================================ unit vectors *)
Lemma dot_unit_gen : forall (v : vec) k i,
  dot v (map (fun t => if (t =? i)%nat then 1 else 0) (seq k (length v)))
  == if (k <=? i)%nat then nthq v (i - k) else 0.
Proof.
  induction v as [|x v IH]; intros k i; cbn [length seq map dot].
  - unfold nthq. destruct (k <=? i)%nat; [destruct (i - k)%nat; cbn [nth]|]; lra.
  - rewrite IH. unfold nthq.
    destruct (Nat.eqb_spec k i) as [->|Hne].
    + rewrite Nat.sub_diag. cbn [nth].
      destruct (Nat.leb_spec (S i) i) as [H|H]; [lia|]. rewrite Nat.leb_refl. lra.
    + destruct (Nat.leb_spec (S k) i) as [H|H]; destruct (Nat.leb_spec k i) as [H'|H']; try lia; try lra.
      replace (i - k)%nat with (S (i - S k)) by lia. cbn [nth]. lra.
Qed.

Lemma dot_unit_vec : forall n v s, length v = n -> dot v (unit_vec n s) == nthq v s.
Proof.
  intros n v s <-. unfold unit_vec. rewrite dot_unit_gen. cbn [Nat.leb]. rewrite Nat.sub_0_r. reflexivity.
Qed.

Lemma qsum_unit_gen : forall m k i,
  qsum (map (fun t => if (t =? i)%nat then 1 else 0) (seq k m))
  == if ((k <=? i) && (i <? k + m))%nat then 1 else 0.
Proof.
  induction m as [|m IH]; intros k i; cbn [seq map qsum].
  - destruct (Nat.leb_spec k i); destruct (Nat.ltb_spec i (k + 0)); cbn [andb]; try lra; lia.
  - rewrite IH.
    destruct (Nat.eqb_spec k i) as [E|Hne];
      destruct (Nat.leb_spec (S k) i); destruct (Nat.ltb_spec i (S k + m));
      destruct (Nat.leb_spec k i); destruct (Nat.ltb_spec i (k + S m)); cbn [andb]; try lra; try lia.
Qed.

Lemma unit_vec_simplex : forall n s, (s < n)%nat -> simplex n (unit_vec n s).
Proof.
  intros n s Hs. unfold simplex, is_dist, unit_vec. split; [rewrite map_length, seq_length; reflexivity|].
  split.
  - apply Forall_forall. intros q Hq. apply in_map_iff in Hq. destruct Hq as [t [<- _]].
    destruct (t =? s)%nat; lra.
  - rewrite qsum_unit_gen. cbn [Nat.leb andb plus].
    destruct (Nat.ltb_spec s n); [lra| lia].
Qed.

(* ================================================================ list surgery *)
Section ListFacts.
  Variable A : Type.

  Lemma firstn_S_nth_error : forall (l : list A) k a, nth_error l k = Some a ->
    firstn (S k) l = firstn k l ++ [a].
  Proof.
    induction l as [|y l IH]; intros [|k] a H; cbn [nth_error] in H; try discriminate.
    - inversion H; subst. reflexivity.
    - change (firstn (S (S k)) (y :: l)) with (y :: firstn (S k) l).
      rewrite (IH k a H). reflexivity.
  Qed.

  Lemma skipn_nth_error : forall (l : list A) k a, nth_error l k = Some a ->
    skipn k l = a :: skipn (S k) l.
  Proof.
    induction l as [|y l IH]; intros [|k] a H; cbn [nth_error] in H; try discriminate.
    - inversion H; subst. reflexivity.
    - change (skipn (S k) (y :: l)) with (skipn k l). rewrite (IH k a H). reflexivity.
  Qed.

  (* the swap of extractBestBy: x = l[j] joins the useful prefix, the rest loses it *)
  Lemma lswap_split : forall (l : list A) j bound a, nth_error l j = Some a -> (bound <= j)%nat ->
    firstn (S bound) (lswap j bound l) = firstn bound l ++ [a] /\
    Permutation (skipn bound l) (a :: skipn (S bound) (lswap j bound l)).
  Proof.
    intros l j bound a Hn Hle.
    assert (Hj : (j < length l)%nat) by (apply nth_error_Some; congruence).
    destruct (nth_error l bound) as [b|] eqn:Eb; [| apply nth_error_None in Eb; lia].
    pose proof (lswap_nth A j bound l a b Hn Eb) as Hn'.
    pose proof (lswap_prefix A j bound bound l Hle (Nat.le_refl _)) as Hp.
    split.
    - rewrite (firstn_S_nth_error _ _ _ Hn'), Hp. reflexivity.
    - rewrite <- (skipn_nth_error _ _ _ Hn').
      apply (Permutation_app_inv_l (firstn bound l)).
      rewrite firstn_skipn. rewrite <- Hp at 1. rewrite firstn_skipn.
      symmetry. apply lswap_perm.
  Qed.

  Lemma app_snoc_split : forall (kept : list A) x k1 y k2, kept ++ [x] = k1 ++ y :: k2 ->
    (k2 = [] /\ y = x /\ k1 = kept) \/ exists k2', k2 = k2' ++ [x] /\ kept = k1 ++ y :: k2'.
  Proof.
    intros kept x k1 y k2 H. induction k2 as [|z k2' _] using rev_ind.
    - apply app_inj_tail in H. destruct H as [-> ->]. left. repeat split; reflexivity.
    - right. exists k2'. change (k1 ++ y :: k2' ++ [z]) with (k1 ++ (y :: k2') ++ [z]) in H.
      rewrite app_assoc in H. apply app_inj_tail in H. destruct H as [-> ->]. split; reflexivity.
  Qed.
End ListFacts.

(* ================================================================ PART 2c: parsimony *)
Section Parsimony.
  Variable A : Type.
  Variable proj : A -> vec.
  Variable n : nat.
  Variable findWitness : list vec -> vec -> option vec.
  (* LP soundness: a returned witness is a point of the simplex where v is strictly above the rows *)
  Hypothesis fw_sound : forall rows v b, findWitness rows v = Some b ->
    simplex n b /\ forall r, In r rows -> dot r b < dot v b.
  Variable dom : A -> A -> bool.

  (* no two positions of the list hold (Qeq-)equal vectors *)
  Fixpoint nodupv (l : list A) : Prop :=
    match l with
    | [] => True
    | x :: t => (forall y, In y t -> ~ veq (proj x) (proj y)) /\ nodupv t
    end.

  Lemma nodupv_perm : forall l l', Permutation l l' -> nodupv l -> nodupv l'.
  Proof.
    intros l l' HP. induction HP as [|x l l' HP IH|x y l|l l' l'' HP1 IH1 HP2 IH2]; intros H.
    - exact H.
    - destruct H as [H1 H2]. split; [|apply IH; exact H2].
      intros y Hy. apply H1. eapply Permutation_in; [apply Permutation_sym; exact HP| exact Hy].
    - destruct H as [H1 [H2 H3]]. split; [|split].
      + intros z [<-|Hz].
        * intros Hv. apply (H1 x (or_introl eq_refl)). apply veq_sym; exact Hv.
        * apply H2; exact Hz.
      + intros z Hz. apply H1. right; exact Hz.
      + exact H3.
    - apply IH2, IH1, H.
  Qed.

  (* the split form of the same hypothesis *)
  Lemma nodupv_of_splits : forall l,
    (forall la x lb y lc, l = la ++ x :: lb ++ y :: lc -> ~ veq (proj x) (proj y)) -> nodupv l.
  Proof.
    induction l as [|x t IH]; intros H; [exact I|]. split.
    - intros y Hy. destruct (in_split y t Hy) as [lb [lc ->]]. apply (H [] x lb y lc). reflexivity.
    - apply IH. intros la a lb b lc ->. apply (H (x :: la) a lb b lc). reflexivity.
  Qed.

  Lemma nodupv_splits : forall l, nodupv l ->
    forall la x lb y lc, l = la ++ x :: lb ++ y :: lc -> ~ veq (proj x) (proj y).
  Proof.
    intros l H la. revert l H. induction la as [|z la IH]; intros l H x lb y lc ->.
    - destruct H as [H _]. apply H. apply in_elt.
    - destruct H as [_ H]. apply (IH _ H x lb y lc). reflexivity.
  Qed.

  Definition Good (l : list A) : Prop := Forall (fun a => length (proj a) = n) l /\ nodupv l.

  Lemma Good_perm : forall l l', Permutation l l' -> Good l -> Good l'.
  Proof.
    intros l l' HP [H1 H2]. split; [eapply Permutation_Forall; eassumption| eapply nodupv_perm; eassumption].
  Qed.

  Lemma Good_tail : forall x l, Good (x :: l) -> Good l.
  Proof. intros x l [H1 [_ H2]]. split; [apply (Forall_inv_tail H1)| exact H2]. Qed.

  (* every kept vector has a witness point against all the other kept and pending ones *)
  Definition Inv (kept rest : list A) : Prop :=
    forall k1 x k2, kept = k1 ++ x :: k2 ->
    exists b, simplex n b /\ forall u, In u (k1 ++ k2 ++ rest) -> dot (proj u) b < dot (proj x) b.

  Lemma Inv_nil : forall rest, Inv [] rest.
  Proof. intros rest k1 x k2 H. destruct k1; discriminate H. Qed.

  Lemma Inv_incl : forall kept rest rest', incl rest' rest -> Inv kept rest -> Inv kept rest'.
  Proof.
    intros kept rest rest' Hi HI k1 x k2 E. destruct (HI k1 x k2 E) as [b [Hb H]].
    exists b. split; [exact Hb|]. intros u Hu. apply H. rewrite !in_app_iff in *.
    destruct Hu as [Hu|[Hu|Hu]]; auto.
  Qed.

  (* x leaves the pending zone and joins kept; b0 = a point where x is the lexicographically
     greatest maximiser over everything else *)
  Lemma Inv_enter : forall kept rest x rest' b0,
    Good (kept ++ rest) -> Inv kept rest -> Permutation rest (x :: rest') -> simplex n b0 ->
    (forall u, In u (kept ++ rest') -> dot (proj u) b0 <= dot (proj x) b0) ->
    (forall u, In u (kept ++ rest') -> dot (proj u) b0 == dot (proj x) b0 ->
               veccmp (proj u) (proj x) <> Gt) ->
    Inv (kept ++ [x]) rest'.
  Proof.
    intros kept rest x rest' b0 HG HI HP Hb0 Hle Htie k1 y k2 E.
    apply app_snoc_split in E. destruct E as [[-> [-> ->]]|[k2' [-> ->]]].
    - assert (HG' : Good (x :: kept ++ rest')).
      { eapply Good_perm; [|exact HG]. rewrite HP. perm. }
      destruct HG' as [HF [Hnd _]].
      pose proof (Forall_inv HF) as Hlx. cbn beta in Hlx.
      pose proof (Forall_inv_tail HF) as HF'. rewrite Forall_forall in HF'.
      destruct (perturb n (proj x) (map proj (kept ++ rest')) b0 Hb0 Hlx) as [b' [Hb' H]].
      + apply Forall_forall. intros u' Hu'. apply in_map_iff in Hu'. destruct Hu' as [u [<- Hu]].
        apply HF'; exact Hu.
      + intros u' Hu'. apply in_map_iff in Hu'. destruct Hu' as [u [<- Hu]].
        apply lexmax_cases.
        * rewrite (HF' u Hu). symmetry; exact Hlx.
        * apply Hle; exact Hu.
        * apply Htie; exact Hu.
        * intros Hv. apply (Hnd u Hu). apply veq_sym; exact Hv.
      + exists b'. split; [exact Hb'|]. intros u Hu. cbn [app] in Hu. apply H. apply in_map. exact Hu.
    - destruct (HI k1 y k2' eq_refl) as [b [Hb H]]. exists b. split; [exact Hb|].
      intros u Hu. apply H. rewrite !in_app_iff in *. cbn [In] in Hu.
      destruct Hu as [Hu|[[Hu|[<-|[]]]|Hu]]; auto.
      + right; right. eapply Permutation_in; [apply Permutation_sym; exact HP| left; reflexivity].
      + right; right. eapply Permutation_in; [apply Permutation_sym; exact HP| right; exact Hu].
  Qed.

  Lemma in_firstn_in : forall (l : list A) k u, In u (firstn k l) -> In u l.
  Proof. intros l k u H. rewrite <- (firstn_skipn k l). apply in_app_iff; left; exact H. Qed.
  Lemma in_skipn_in : forall (l : list A) k u, In u (skipn k l) -> In u l.
  Proof. intros l k u H. rewrite <- (firstn_skipn k l). apply in_app_iff; right; exact H. Qed.

  (* one extractBestBy step, for a score that is a dot product with a point of the simplex *)
  Lemma extractBestBy_pars : forall (score : A -> Q) b0 l bound,
    simplex n b0 -> (forall a, In a l -> dot (proj a) b0 == score a) ->
    Good l -> Inv (firstn bound l) (skipn bound l) ->
    Inv (firstn (snd (extractBestBy proj score l bound)) (fst (extractBestBy proj score l bound)))
        (skipn (snd (extractBestBy proj score l bound)) (fst (extractBestBy proj score l bound))).
  Proof.
    intros score b0 l bound Hb0 Hsc HG HI. unfold extractBestBy.
    destruct (findBestBy proj score l) as [[[j a] v]|] eqn:EF; [|exact HI].
    destruct (Nat.leb_spec bound j) as [Hle|Hlt]; cbn [fst snd]; [|exact HI].
    destruct (findBestBy_spec _ _ _ _ _ _ _ EF) as [Hn [Ev Hub]].
    pose proof (findBestBy_tiebreak _ _ _ _ _ _ _ EF) as Ht.
    destruct (lswap_split A l j bound a Hn Hle) as [Hf Hp]. rewrite Hf.
    assert (Ha : In a l) by (eapply nth_error_In; exact Hn).
    assert (Hin : forall u, In u (firstn bound l ++ skipn (S bound) (lswap j bound l)) -> In u l).
    { intros u Hu. apply in_app_iff in Hu. destruct Hu as [Hu|Hu]; [eapply in_firstn_in; exact Hu|].
      apply (in_skipn_in l bound). eapply Permutation_in; [apply Permutation_sym; exact Hp| right; exact Hu]. }
    apply (Inv_enter (firstn bound l) (skipn bound l) a _ b0); try assumption.
    - rewrite firstn_skipn. exact HG.
    - intros u Hu. apply Hin in Hu. rewrite (Hsc u Hu), (Hsc a Ha). specialize (Hub u Hu). lra.
    - intros u Hu E. apply Hin in Hu. apply Ht; [exact Hu|]. rewrite (Hsc u Hu), (Hsc a Ha) in E. lra.
  Qed.

  (* the corner phase *)
  Lemma ebsc_fold_pars : forall xs (st : list A * nat), (forall s, In s xs -> (s < n)%nat) ->
    Good (fst st) -> Inv (firstn (snd st) (fst st)) (skipn (snd st) (fst st)) ->
    Inv (firstn (snd (fold_left (ebsc_step A proj) xs st)) (fst (fold_left (ebsc_step A proj) xs st)))
        (skipn (snd (fold_left (ebsc_step A proj) xs st)) (fst (fold_left (ebsc_step A proj) xs st))).
  Proof.
    induction xs as [|s xs IH]; intros st Hxs HG HI; cbn [fold_left]; [exact HI|].
    apply IH.
    - intros s' Hs'. apply Hxs. right; exact Hs'.
    - unfold ebsc_step. eapply Good_perm; [apply Permutation_sym; apply extractBestBy_perm| exact HG].
    - unfold ebsc_step. apply (extractBestBy_pars _ (unit_vec n s)); try assumption.
      + apply unit_vec_simplex. apply Hxs. left; reflexivity.
      + intros a Ha. unfold scoreCorner. apply dot_unit_vec.
        destruct HG as [HF _]. rewrite Forall_forall in HF. apply HF; exact Ha.
  Qed.

  Lemma extractBestAtSimplexCorners_pars : forall l,
    Good l ->
    Inv (firstn (snd (extractBestAtSimplexCorners proj n l 0)) (fst (extractBestAtSimplexCorners proj n l 0)))
        (skipn (snd (extractBestAtSimplexCorners proj n l 0)) (fst (extractBestAtSimplexCorners proj n l 0))).
  Proof.
    intros l HG. unfold extractBestAtSimplexCorners.
    destruct (length l =? 0)%nat; [cbn [fst snd firstn]; apply Inv_nil|].
    apply (ebsc_fold_pars (seq 0 n) (l, 0%nat)).
    - intros s Hs. apply in_seq in Hs. lia.
    - exact HG.
    - cbn [fst snd firstn]. apply Inv_nil.
  Qed.

  (* the LP phase *)
  Lemma pruner_loop_parsimonious : forall fuel kept rest removed k r,
    pruner_loop proj findWitness fuel kept rest removed = Some (k, r) ->
    Good (kept ++ rest) -> Inv kept rest -> Inv k [].
  Proof.
    induction fuel as [|fuel IH]; intros kept rest removed k r H HG HI; cbn [pruner_loop] in H.
    - destruct rest; [|discriminate]. inversion H; subst. exact HI.
    - destruct (rev rest) as [|last initR] eqn:E.
      + assert (rest = []) by (rewrite <- (rev_involutive rest), E; reflexivity). subst rest.
        inversion H; subst. exact HI.
      + apply rev_cons_eq in E.
        assert (Hlast : In last rest) by (rewrite E; apply in_elt).
        destruct (findWitness (map proj kept) (proj last)) as [w|] eqn:EW.
        * destruct (fw_sound _ _ _ EW) as [Hw Hrows].
          unfold extractBestAtPoint, extractBestBy in H.
          destruct (findBestBy proj (scoreAt proj w) rest) as [[[j a] v]|] eqn:EF.
          2:{ destruct rest as [|x0 t0]; [destruct Hlast| discriminate EF]. }
          cbn [Nat.leb fst] in H.
          destruct (findBestBy_spec _ _ _ _ _ _ _ EF) as [Hn [Ev Hub]].
          pose proof (findBestBy_tiebreak _ _ _ _ _ _ _ EF) as Ht.
          destruct (lswap_split A rest j 0 a Hn (Nat.le_0_l _)) as [Hf Hp].
          destruct (lswap j 0 rest) as [|x rest'] eqn:EL; [discriminate H|].
          cbn [firstn skipn app] in Hf, Hp. inversion Hf; subst x.
          unfold scoreAt in Ev, Hub, Ht.
          apply IH in H; [exact H| |].
          -- eapply Good_perm; [|exact HG]. rewrite Hp. perm.
          -- apply (Inv_enter kept rest a rest' w HG HI Hp Hw).
             ++ intros u Hu. apply in_app_iff in Hu. destruct Hu as [Hu|Hu].
                ** pose proof (Hrows (proj u) (in_map proj _ _ Hu)) as H1.
                   pose proof (Hub last Hlast) as H2.
                   rewrite (dot_comm (proj a) w). rewrite (dot_comm w (proj last)) in H2. lra.
                ** assert (Hu' : In u rest) by (eapply Permutation_in; [apply Permutation_sym; exact Hp| right; exact Hu]).
                   pose proof (Hub u Hu') as H2.
                   rewrite (dot_comm (proj a) w), (dot_comm (proj u) w). lra.
             ++ intros u Hu Eq. apply in_app_iff in Hu. destruct Hu as [Hu|Hu].
                ** exfalso. pose proof (Hrows (proj u) (in_map proj _ _ Hu)) as H1.
                   pose proof (Hub last Hlast) as H2.
                   rewrite (dot_comm (proj a) w) in Eq. rewrite (dot_comm w (proj last)) in H2. lra.
                ** assert (Hu' : In u rest) by (eapply Permutation_in; [apply Permutation_sym; exact Hp| right; exact Hu]).
                   apply Ht; [exact Hu'|].
                   rewrite (dot_comm (proj a) w), (dot_comm (proj u) w) in Eq. lra.
        * apply IH in H; [exact H| |].
          -- apply (Good_tail last). eapply Good_perm; [|exact HG]. rewrite E. perm.
          -- eapply Inv_incl; [|exact HI]. intros u Hu. rewrite E. apply in_app_iff; left; exact Hu.
  Qed.

  (* every vector the Pruner keeps is needed: somewhere on the simplex it is strictly above all
     the other kept vectors *)
  Theorem pruner_parsimonious : forall l k r r0,
    pruner proj findWitness dom n l = Some (k, r, r0) -> (0 < n)%nat ->
    let l1 := fst (extractDominatedBy dom l) in
    Forall (fun a => length (proj a) = n) l1 ->
    (forall l1a x l1b y l1c, l1 = l1a ++ x :: l1b ++ y :: l1c -> ~ veq (proj x) (proj y)) ->
    forall k1 x k2, k = k1 ++ x :: k2 -> needed n (map proj k1) (proj x) (map proj k2).
  Proof.
    intros l k r r0 H Hn l1 HF Hnd. subst l1. unfold pruner in H.
    destruct (extractDominatedBy dom l) as [l1 rem0]. cbn [fst] in HF, Hnd.
    assert (HG : Good l1) by (split; [exact HF| apply nodupv_of_splits; exact Hnd]).
    assert (HI : Inv k []).
    { destruct (Nat.ltb_spec (length l1) 2) as [Hlt|Hge].
      - inversion H; subst k r r0. intros k1 x k2 E. exists (unit_vec n 0).
        split; [apply unit_vec_simplex; exact Hn|]. subst l1.
        rewrite app_length in Hlt. cbn [length] in Hlt.
        destruct k1; destruct k2; cbn [length] in Hlt; try lia. intros u [].
      - pose proof (extractBestAtSimplexCorners_pars l1 HG) as HC.
        pose proof (extractBestAtSimplexCorners_perm A proj n l1 0) as HP.
        destruct (extractBestAtSimplexCorners proj n l1 0) as [l2 bound]. cbn [fst snd] in HC, HP.
        destruct (pruner_loop proj findWitness (length l2) (firstn bound l2) (skipn bound l2) [])
          as [[k' r']|] eqn:EL; [|discriminate].
        inversion H; subst k' r' rem0.
        apply (pruner_loop_parsimonious _ _ _ _ _ _ EL); [|exact HC].
        rewrite firstn_skipn. eapply Good_perm; [apply Permutation_sym; exact HP| exact HG]. }
    intros k1 x k2 E. destruct (HI k1 x k2 E) as [b [Hb Hlt]]. exists b. split; [exact Hb|].
    intros u Hu. rewrite <- map_app in Hu. apply in_map_iff in Hu. destruct Hu as [a [<- Ha]].
    apply Hlt. rewrite app_nil_r. exact Ha.
  Qed.
End Parsimony.
