(* C12/ProofsVertices.v — properties of the findVerticesNaive model (C12/Vertices.v): every returned
   point is accepted (non-negative, not a corner), limited coordinates are exactly 0, and when the
   linear solve is exact the point lies on the simplex and on all the selected planes. *)
From Coq Require Import List Arith QArith Qminmax Lqa Lia Bool Permutation.
From AIT Require Import Base.Qx Base.Mdp C12.Model C12.Spec C12.ProofsInterp C12.ProofsPars C12.Vertices.
Import ListNotations.
Local Open Scope Q_scope.

(* ---------------------------------------------------------------- subsets *)
Lemma subsets_In : forall l k ids, In ids (subsets l k) -> forall i, In i ids -> In i l.
Proof.
  induction l as [|x t IH]; intros k ids Hin i Hi.
  - destruct k as [|k']; cbn [subsets] in Hin.
    + destruct Hin as [<-|[]]. destruct Hi.
    + destruct Hin.
  - destruct k as [|k']; cbn [subsets] in Hin.
    + destruct Hin as [<-|[]]. destruct Hi.
    + apply in_app_or in Hin. destruct Hin as [Hin|Hin].
      * apply in_map_iff in Hin. destruct Hin as [ids' [<- Hin']].
        destruct Hi as [<-|Hi]; [left; reflexivity|]. right. eapply IH; eauto.
      * right. eapply IH; eauto.
Qed.

Lemma subsets_length : forall l k ids, In ids (subsets l k) -> length ids = k.
Proof.
  induction l as [|x t IH]; intros k ids Hin.
  - destruct k as [|k']; cbn [subsets] in Hin.
    + destruct Hin as [<-|[]]. reflexivity.
    + destruct Hin.
  - destruct k as [|k']; cbn [subsets] in Hin.
    + destruct Hin as [<-|[]]. reflexivity.
    + apply in_app_or in Hin. destruct Hin as [Hin|Hin].
      * apply in_map_iff in Hin. destruct Hin as [ids' [<- Hin']].
        cbn [length]. f_equal. eapply IH; eauto.
      * eapply IH; eauto.
Qed.

Lemma fv_subsets_In : forall dim N ids, In ids (fv_subsets dim N) ->
  length ids = (dim - 1)%nat /\ forall i, In i ids -> (i < N + dim)%nat.
Proof.
  intros dim N ids Hin. unfold fv_subsets in Hin. apply filter_In in Hin. destruct Hin as [Hin _].
  split; [eapply subsets_length; eauto|].
  intros i Hi. pose proof (subsets_In _ _ _ Hin i Hi) as Hs. apply in_seq in Hs. lia.
Qed.

(* ---------------------------------------------------------------- acceptance *)
Lemma fv_accept_spec : forall p, fv_accept p = true ->
  nonneg p /\ maxl p < 1 /\ eqSmall (maxl p) 1 = false /\ (forall x, In x p -> x < 1 - epsS).
Proof.
  intros p H. unfold fv_accept in H.
  apply andb_true_iff in H. destruct H as [H Hne].
  apply andb_true_iff in H. destruct H as [Hnn Hlt].
  assert (Hnn' : nonneg p).
  { unfold nonneg. apply Forall_forall. intros x Hx.
    rewrite forallb_forall in Hnn. apply Qle_bool_iff. apply Hnn. exact Hx. }
  assert (Hlt' : maxl p < 1).
  { destruct (Qlt_le_dec (maxl p) 1) as [L|L]; [exact L| discriminate Hlt]. }
  assert (Hne' : eqSmall (maxl p) 1 = false).
  { destruct (eqSmall (maxl p) 1); [discriminate Hne| reflexivity]. }
  split; [exact Hnn'|]. split; [exact Hlt'|]. split; [exact Hne'|].
  assert (Hm : maxl p < 1 - epsS).
  { unfold eqSmall in Hne'.
    destruct (Qlt_le_dec (maxl p) (1 - epsS)) as [L|L]; [exact L|]. exfalso.
    assert (Hle : qabs (maxl p - 1) <= epsS).
    { unfold qabs. apply Q.max_lub; lra. }
    apply Qle_bool_iff in Hle. rewrite Hle in Hne'. discriminate Hne'. }
  intros x Hx. pose proof (maxl_ub p x Hx). lra.
Qed.

(* ---------------------------------------------------------------- list helpers *)
Lemma split_last_q : forall n (l : vec), length l = S n -> l = firstn n l ++ [nthq l n].
Proof.
  induction n as [|n IH]; intros l Hl.
  - destruct l as [|x [|y l]]; try discriminate Hl. reflexivity.
  - destruct l as [|x l]; [discriminate Hl|]. cbn [firstn app]. unfold nthq. cbn [nth].
    f_equal. apply IH. cbn [length] in Hl. lia.
Qed.

Lemma nthq_firstn : forall n (l : vec) j, (j < n)%nat -> nthq (firstn n l) j = nthq l j.
Proof.
  induction n as [|n IH]; intros l j Hj; [lia|].
  destruct l as [|x l]; [reflexivity|]. cbn [firstn]. unfold nthq. destruct j as [|j]; cbn [nth]; [reflexivity|].
  apply IH. lia.
Qed.

Lemma firstn_as_map : forall n (l : vec), (n <= length l)%nat -> firstn n l = map (nthq l) (seq 0 n).
Proof.
  intros n l Hn. rewrite (vec_as_map (firstn n l)) at 1. rewrite firstn_length_le by exact Hn.
  apply map_ext_in. intros j Hj. apply in_seq in Hj. apply nthq_firstn. lia.
Qed.

Lemma dot_repeat1 : forall n x, length x = n -> dot (repeat 1 n) x == qsum x.
Proof.
  induction n as [|n IH]; intros [|y x] Hl; try discriminate Hl; cbn [repeat dot qsum]; [lra|].
  rewrite IH by (cbn [length] in Hl; lia). lra.
Qed.

Lemma dot_veq_r : forall a p q, veq p q -> dot a p == dot a q.
Proof.
  intros a p q H. revert a. induction H as [|x y p q E H IH]; intros [|z a]; cbn [dot]; try lra.
  rewrite (IH a), E. lra.
Qed.

Lemma qsum_veq : forall p q, veq p q -> qsum p == qsum q.
Proof. intros p q H. induction H as [|x y p q E H IH]; cbn [qsum]; [lra| rewrite IH, E; lra]. Qed.

Lemma veq_map : forall (f g : nat -> Q) l, (forall j, In j l -> f j == g j) -> veq (map f l) (map g l).
Proof.
  intros f g. induction l as [|x l IH]; intros H; cbn [map]; constructor.
  - apply H. left. reflexivity.
  - apply IH. intros j Hj. apply H. right. exact Hj.
Qed.

Lemma Forall2_rows : forall (R : vec -> Q -> Prop) (f : nat -> vec) (l : list nat) z w,
  Forall2 R (map f l ++ [z]) (repeat 0 (length l) ++ [w]) ->
  (forall x, In x l -> R (f x) 0) /\ R z w.
Proof.
  intros R f. induction l as [|x l IH]; intros z w H; cbn [map length repeat app] in H.
  - inversion H as [|? ? ? ? Hzw Hnil]; subst. split; [intros x []| exact Hzw].
  - inversion H as [|? ? ? ? Hx Hrest]; subst. destruct (IH z w Hrest) as [Hl Hzw].
    split; [| exact Hzw]. intros y [<-|Hy]; [exact Hx| apply Hl; exact Hy].
Qed.

(* ---------------------------------------------------------------- residual helpers *)
Lemma combine_rows_In : forall (f : nat -> vec) (l : list nat) (z : vec) (w : Q),
  (forall x, In x l -> In (f x, 0) (combine (map f l ++ [z]) (repeat 0 (length l) ++ [w]))) /\
  In (z, w) (combine (map f l ++ [z]) (repeat 0 (length l) ++ [w])).
Proof.
  intros f. induction l as [|x l IH]; intros z w; cbn [map length repeat app combine].
  - split; [intros x []| left; reflexivity].
  - destruct (IH z w) as [Hl Hz]. split; [| right; exact Hz].
    intros y [<-|Hy]; [left; reflexivity| right; apply Hl; exact Hy].
Qed.

Lemma qabs_le : forall y e, Qle_bool (qabs y) e = true -> - e <= y /\ y <= e.
Proof.
  intros y e H. apply Qle_bool_iff in H. unfold qabs in H.
  pose proof (Q.le_max_l y (- y)). pose proof (Q.le_max_r y (- y)). split; lra.
Qed.

Lemma fv_residual_In : forall A b x r y, fv_residual_ok A b x = true -> In (r, y) (combine A b) ->
  - epsS <= dot r x - y /\ dot r x - y <= epsS.
Proof.
  intros A b x r y H Hry. unfold fv_residual_ok in H. rewrite forallb_forall in H.
  specialize (H (r, y) Hry). cbn [fst snd] in H. apply qabs_le. exact H.
Qed.

Lemma dot_snoc : forall a c x t, length a = length x -> dot (a ++ [c]) (x ++ [t]) == dot a x + c * t.
Proof. intros a c x t Hl. rewrite dot_app by exact Hl. cbn [dot]. lra. Qed.

Definition solved (A : mat) (b res : vec) : Prop :=
  length res = length b /\ Forall2 (fun r y => dot r res == y) A b.

Section VerticesProofs.
  Variable solve : mat -> vec -> vec.

  (* membership in fv_tagged, unfolded *)
  Lemma fv_tagged_In : forall newV alphas ids p v,
    In (ids, (p, v)) (fv_tagged solve newV alphas) ->
    alphas <> [] /\
    In ids (fv_subsets (length (hd [] alphas)) (length alphas)) /\
    (p, v) = fv_clean (length (hd [] alphas)) (length alphas) ids
               (solve (fv_matrix (length (hd [] alphas)) newV alphas ids) (fv_rhs ids)) /\
    fv_accept p = true /\
    fv_residual_ok (fv_matrix (length (hd [] alphas)) newV alphas ids) (fv_rhs ids) (p ++ [v]) = true.
  Proof.
    intros newV alphas ids p v Hin. destruct alphas as [|a0 rest]; [destruct Hin|].
    split; [discriminate|]. unfold fv_tagged in Hin. cbn [hd].
    apply in_flat_map in Hin. destruct Hin as [ids' [Hids Hin]]. cbv zeta in Hin.
    match type of Hin with In _ (if ?c then _ else _) => destruct c eqn:Hc end; [| destruct Hin].
    apply andb_true_iff in Hc. destruct Hc as [Hres Hacc].
    destruct Hin as [Heq|[]].
    pose proof (f_equal fst Heq) as Hi. pose proof (f_equal snd Heq) as Hpv. cbn [fst snd] in Hi, Hpv.
    subst ids'. clear Heq.
    split; [exact Hids|]. split; [rewrite Hpv; reflexivity|].
    rewrite Hpv in Hacc, Hres. split; [exact Hacc| exact Hres].
  Qed.

  (* T1 *)
  Theorem fv_tagged_basic : forall newV alphas ids p v,
    In (ids, (p, v)) (fv_tagged solve newV alphas) ->
    let dim := length (hd [] alphas) in
    let N := length alphas in
    In ids (fv_subsets dim N) /\ length p = dim /\ nonneg p /\ maxl p < 1 /\
    eqSmall (maxl p) 1 = false /\ (forall x, In x p -> x < 1 - epsS) /\
    (forall idx, In idx ids -> (N <= idx)%nat -> nthq p (idx - N) == 0).
  Proof.
    intros newV alphas ids p v Hin dim N.
    destruct (fv_tagged_In _ _ _ _ _ Hin) as [Hne [Hids [Hpv [Hacc _]]]]. fold dim in Hids, Hpv. fold N in Hids, Hpv.
    destruct (fv_accept_spec p Hacc) as [Hnn [Hlt [Hns Hx]]].
    unfold fv_clean in Hpv. inversion Hpv as [[Hp Hv]].
    split; [exact Hids|]. split; [rewrite map_length, seq_length; reflexivity|].
    rewrite <- Hp. split; [exact Hnn|]. split; [exact Hlt|]. split; [exact Hns|]. split; [exact Hx|].
    intros idx Hidx HN. destruct (fv_subsets_In _ _ _ Hids) as [_ Hb]. pose proof (Hb idx Hidx) as Hlt'.
    rewrite Hp. rewrite nthq_map_seq by lia.
    destruct (existsb (fun idx0 : nat => (idx0 =? N + (idx - N))%nat) ids) eqn:Hex; [reflexivity|].
    exfalso. assert (Ht : existsb (fun idx0 : nat => (idx0 =? N + (idx - N))%nat) ids = true).
    { apply existsb_exists. exists idx. split; [exact Hidx|]. apply Nat.eqb_eq. lia. }
    rewrite Ht in Hex. discriminate Hex.
  Qed.

  (* T2 *)
  Theorem fv_tagged_exact : forall (newV : vec) (alphas : list vec) ids p v,
    let dim := length (hd [] alphas) in
    let N := length alphas in
    (2 <= dim)%nat -> length newV = dim -> Forall (fun a : vec => length a = dim) alphas ->
    In (ids, (p, v)) (fv_tagged solve newV alphas) ->
    solved (fv_matrix dim newV alphas ids) (fv_rhs ids) (solve (fv_matrix dim newV alphas ids) (fv_rhs ids)) ->
    simplex dim p /\ dot newV p == v /\
    (forall idx, In idx ids -> (idx < N)%nat -> dot (nth idx alphas []) p == v) /\
    (forall idx, In idx ids -> (N <= idx)%nat -> nthq p (idx - N) == 0).
  Proof.
    intros newV alphas ids p v dim N Hdim HnewV Halphas Hin Hsolved.
    pose proof (fv_tagged_basic _ _ _ _ _ Hin) as Hbasic. cbv zeta in Hbasic. fold dim in Hbasic. fold N in Hbasic.
    destruct Hbasic as [Hids [Hlenp [Hnn [_ [_ [_ Hzero]]]]]].
    destruct (fv_tagged_In _ _ _ _ _ Hin) as [_ [_ [Hpv _]]]. fold dim in Hpv. fold N in Hpv.
    destruct (fv_subsets_In _ _ _ Hids) as [Hlenids Hbound].
    set (res := solve (fv_matrix dim newV alphas ids) (fv_rhs ids)) in *.
    destruct Hsolved as [Hlenres Hrows].
    assert (HlenS : length res = S dim).
    { rewrite Hlenres. unfold fv_rhs. rewrite app_length, repeat_length. cbn [length]. lia. }
    set (x := firstn dim res). set (t := nthq res dim).
    assert (Hres : res = x ++ [t]) by (apply split_last_q; exact HlenS).
    assert (Hlenx : length x = dim) by (unfold x; apply firstn_length_le; lia).
    unfold fv_clean in Hpv. fold t in Hpv.
    assert (Hv : v = t) by exact (f_equal snd Hpv).
    assert (Hp : p = map (fun j => if existsb (fun idx => (idx =? N + j)%nat) ids then 0 else nthq res j) (seq 0 dim))
      by exact (f_equal fst Hpv).
    clear Hpv.
    (* the equations *)
    unfold fv_matrix, fv_rhs in Hrows. cbn [repeat app] in Hrows.
    inversion Hrows as [|r0 y0 rs ys Hrow0 Hrest]; subst r0 y0 rs ys. clear Hrows.
    apply Forall2_rows in Hrest. destruct Hrest as [Hmid Hlast]. fold N in Hmid.
    assert (E0 : dot newV x == t).
    { rewrite Hres in Hrow0. rewrite dot_app in Hrow0 by lia. cbn [dot] in Hrow0. lra. }
    assert (Ea : forall idx, In idx ids -> (idx < N)%nat -> dot (nth idx alphas []) x == t).
    { intros idx Hidx HN. pose proof (Hmid idx Hidx) as E. unfold fv_row in E. change (length alphas) with N in E.
      assert (Hb : (idx <? N)%nat = true) by (apply Nat.ltb_lt; exact HN). rewrite Hb in E.
      assert (Hla : length (nth idx alphas []) = dim).
      { rewrite Forall_forall in Halphas. apply Halphas. apply nth_In. exact HN. }
      rewrite Hres in E. rewrite (dot_app (nth idx alphas []) [-(1)] x [t]) in E by lia. cbn [dot] in E. lra. }
    assert (Eb : forall idx, In idx ids -> (N <= idx)%nat -> nthq x (idx - N) == 0).
    { intros idx Hidx HN. pose proof (Hmid idx Hidx) as E. unfold fv_row in E. change (length alphas) with N in E.
      assert (Hb : (idx <? N)%nat = false) by (apply Nat.ltb_ge; exact HN). rewrite Hb in E.
      assert (Hlu : length (unit_vec dim (idx - N)) = dim) by (unfold unit_vec; rewrite map_length, seq_length; reflexivity).
      rewrite Hres in E. rewrite dot_app in E by lia. cbn [dot] in E.
      rewrite dot_comm in E. rewrite (dot_unit_vec dim x (idx - N) Hlenx) in E. lra. }
    assert (Es : qsum x == 1).
    { rewrite Hres in Hlast. rewrite dot_app in Hlast by (rewrite repeat_length; lia). cbn [dot] in Hlast.
      rewrite (dot_repeat1 dim x Hlenx) in Hlast. lra. }
    (* the cleaned point is the raw one *)
    assert (Hveq : veq p x).
    { rewrite Hp. unfold x. rewrite firstn_as_map by lia. apply veq_map.
      intros j Hj. apply in_seq in Hj.
      destruct (existsb (fun idx : nat => (idx =? N + j)%nat) ids) eqn:Hex; [| reflexivity].
      apply existsb_exists in Hex. destruct Hex as [idx [Hidx Heq]]. apply Nat.eqb_eq in Heq.
      assert (HN : (N <= idx)%nat) by lia. pose proof (Eb idx Hidx HN) as E.
      replace (idx - N)%nat with j in E by lia. unfold x in E. rewrite nthq_firstn in E by lia.
      rewrite E. reflexivity. }
    split; [| split; [| split]].
    - unfold simplex, is_dist. split; [exact Hlenp|]. split; [exact Hnn|].
      rewrite (qsum_veq _ _ Hveq). exact Es.
    - rewrite (dot_veq_r _ _ _ Hveq), Hv. exact E0.
    - intros idx Hidx HN. rewrite (dot_veq_r _ _ _ Hveq), Hv. apply Ea; assumption.
    - exact Hzero.
  Qed.

  (* T2', unconditional: the residual test bounds every equation's defect by epsS *)
  Theorem fv_tagged_approx : forall (newV : vec) (alphas : list vec) ids p v,
    let dim := length (hd [] alphas) in
    let N := length alphas in
    (2 <= dim)%nat -> length newV = dim -> Forall (fun a : vec => length a = dim) alphas ->
    In (ids, (p, v)) (fv_tagged solve newV alphas) ->
    (- epsS <= dot newV p - v /\ dot newV p - v <= epsS) /\
    (forall idx, In idx ids -> (idx < N)%nat ->
       - epsS <= dot (nth idx alphas []) p - v /\ dot (nth idx alphas []) p - v <= epsS) /\
    (- epsS <= qsum p - 1 /\ qsum p - 1 <= epsS).
  Proof.
    intros newV alphas ids p v dim N Hdim HnewV Halphas Hin.
    pose proof (fv_tagged_basic _ _ _ _ _ Hin) as Hb. cbv zeta in Hb. destruct Hb as [_ [Hlenp _]].
    change (length (hd [] alphas)) with dim in Hlenp.
    destruct (fv_tagged_In _ _ _ _ _ Hin) as [_ [_ [_ [_ Hres]]]].
    change (length (hd [] alphas)) with dim in Hres.
    pose proof (fun r y => fv_residual_In _ _ _ r y Hres) as Hrow.
    unfold fv_matrix, fv_rhs in Hrow. cbn [repeat app combine] in Hrow.
    destruct (combine_rows_In (fv_row dim (length alphas) alphas) ids (repeat 1 dim ++ [0]) 1) as [Hmid Hlast].
    split; [| split].
    - pose proof (Hrow _ _ (or_introl eq_refl)) as E.
      rewrite (dot_snoc newV (-(1)) p v) in E by lia. lra.
    - intros idx Hidx HN. pose proof (Hrow _ _ (or_intror (Hmid idx Hidx))) as E.
      unfold fv_row in E. change (length alphas) with N in E.
      assert (Hlt : (idx <? N)%nat = true) by (apply Nat.ltb_lt; exact HN). rewrite Hlt in E.
      assert (Hla : length (nth idx alphas []) = dim).
      { rewrite Forall_forall in Halphas. apply Halphas. apply nth_In. exact HN. }
      rewrite (dot_snoc (nth idx alphas []) (-(1)) p v) in E by lia. lra.
    - pose proof (Hrow _ _ (or_intror Hlast)) as E.
      rewrite (dot_snoc (repeat 1 dim) 0 p v) in E by (rewrite repeat_length; lia).
      rewrite (dot_repeat1 dim p Hlenp) in E. lra.
  Qed.

  (* T3 *)
  Lemma findVerticesNaive_In : forall newVs alphas p v,
    In (p, v) (findVerticesNaive solve newVs alphas) ->
    exists newV ids, In newV newVs /\ In (ids, (p, v)) (fv_tagged solve newV alphas).
  Proof.
    intros newVs alphas p v Hin. unfold findVerticesNaive in Hin.
    apply in_flat_map in Hin. destruct Hin as [newV [HnewV Hin]].
    apply in_map_iff in Hin. destruct Hin as [[ids pv] [Heq Hin]]. cbn [snd] in Heq. subst pv.
    exists newV, ids. split; assumption.
  Qed.

  Theorem findVerticesNaive_basic : forall newVs alphas p v,
    In (p, v) (findVerticesNaive solve newVs alphas) ->
    alphas <> [] /\
    let dim := length (hd [] alphas) in
    length p = dim /\ nonneg p /\ (forall x, In x p -> x < 1 - epsS).
  Proof.
    intros newVs alphas p v Hin.
    destruct (findVerticesNaive_In _ _ _ _ Hin) as [newV [ids [_ Ht]]].
    destruct (fv_tagged_In _ _ _ _ _ Ht) as [Hne _].
    pose proof (fv_tagged_basic _ _ _ _ _ Ht) as Hb. cbv zeta in Hb.
    destruct Hb as [_ [Hl [Hnn [_ [_ [Hx _]]]]]].
    split; [exact Hne|]. cbv zeta. split; [exact Hl|]. split; [exact Hnn| exact Hx].
  Qed.

  Theorem findVerticesNaiveRange_basic : forall range p v,
    In (p, v) (findVerticesNaiveRange solve range) ->
    exists i, (i < length range)%nat /\
      let alphas := firstn i range ++ skipn (S i) range in
      alphas <> [] /\
      let dim := length (hd [] alphas) in
      length p = dim /\ nonneg p /\ (forall x, In x p -> x < 1 - epsS).
  Proof.
    intros range p v Hin. unfold findVerticesNaiveRange in Hin.
    apply in_flat_map in Hin. destruct Hin as [i [Hi Hin]]. apply in_seq in Hi.
    exists i. split; [lia|]. cbv zeta. exact (findVerticesNaive_basic _ _ _ _ Hin).
  Qed.

  Theorem findVerticesNaive_exact : forall (newVs alphas : list vec) dim p v,
    (forall A b, solved A b (solve A b)) ->
    (2 <= dim)%nat -> Forall (fun a : vec => length a = dim) (newVs ++ alphas) ->
    alphas <> [] -> dim = length (hd [] alphas) ->
    In (p, v) (findVerticesNaive solve newVs alphas) ->
    exists newV ids, In newV newVs /\ In ids (fv_subsets dim (length alphas)) /\
      simplex dim p /\ dot newV p == v /\
      (forall idx, In idx ids -> (idx < length alphas)%nat -> dot (nth idx alphas []) p == v) /\
      (forall idx, In idx ids -> (length alphas <= idx)%nat -> nthq p (idx - length alphas) == 0).
  Proof.
    intros newVs alphas dim p v Hsolve Hdim Hall Hne Hd Hin.
    destruct (findVerticesNaive_In _ _ _ _ Hin) as [newV [ids [HnewV Ht]]].
    apply Forall_app in Hall. destruct Hall as [HallN HallA].
    assert (Hlen : length newV = dim) by (rewrite Forall_forall in HallN; apply HallN; exact HnewV).
    subst dim.
    pose proof (fv_tagged_basic _ _ _ _ _ Ht) as Hb. cbv zeta in Hb. destruct Hb as [Hids _].
    pose proof (fv_tagged_exact newV alphas ids p v Hdim Hlen HallA Ht (Hsolve _ _)) as Hex.
    exists newV, ids. split; [exact HnewV|]. split; [exact Hids|]. exact Hex.
  Qed.

  (* the range overload under the idealised oracle *)
  Theorem findVerticesNaiveRange_exact : forall (range : list vec) dim p v,
    (forall A b, solved A b (solve A b)) ->
    (2 <= dim)%nat -> Forall (fun a : vec => length a = dim) range ->
    In (p, v) (findVerticesNaiveRange solve range) ->
    exists i ids, (i < length range)%nat /\
      let alphas := firstn i range ++ skipn (S i) range in
      let N := length alphas in
      In ids (fv_subsets dim N) /\ simplex dim p /\ dot (nth i range []) p == v /\
      (forall idx, In idx ids -> (idx < N)%nat -> dot (nth idx alphas []) p == v) /\
      (forall idx, In idx ids -> (N <= idx)%nat -> nthq p (idx - N) == 0).
  Proof.
    intros range dim p v Hsolve Hdim Hall Hin. unfold findVerticesNaiveRange in Hin.
    apply in_flat_map in Hin. destruct Hin as [i [Hi Hin]]. apply in_seq in Hi.
    set (alphas := firstn i range ++ skipn (S i) range) in *.
    assert (Hne : alphas <> []) by exact (proj1 (findVerticesNaive_basic _ _ _ _ Hin)).
    change (In (p, v) (findVerticesNaive solve [nth i range []] alphas)) in Hin.
    assert (HallA: Forall (fun a : vec => length a = dim) alphas).
    { unfold alphas. rewrite Forall_forall in Hall. apply Forall_forall. intros a Ha. apply Hall.
      apply in_app_or in Ha. destruct Ha as [Ha|Ha].
      - rewrite <- (firstn_skipn i range). apply in_or_app. left. exact Ha.
      - rewrite <- (firstn_skipn (S i) range). apply in_or_app. right. exact Ha. }
    assert (Hd : dim = length (hd [] alphas)).
    { generalize HallA Hne. generalize alphas. intros [|a0 rest] HA Hn; [exfalso; apply Hn; reflexivity|].
      cbn [hd]. inversion HA as [|? ? Ha0 _]. symmetry. exact Ha0. }
    assert (HallN : Forall (fun a : vec => length a = dim) ([nth i range []] ++ alphas)).
    { apply Forall_app. split; [| exact HallA]. constructor; [| constructor].
      rewrite Forall_forall in Hall. apply Hall. apply nth_In. exact (proj2 Hi). }
    destruct (findVerticesNaive_exact _ _ dim p v Hsolve Hdim HallN Hne Hd Hin)
      as [newV [ids [HnewV [Hids Hrest]]]].
    destruct HnewV as [<-|[]].
    exists i, ids. split; [exact (proj2 Hi)|]. cbv zeta. split; [exact Hids| exact Hrest].
  Qed.
  (* unconditional approximate versions of the two public functions *)
  Theorem findVerticesNaive_approx : forall (newVs alphas : list vec) dim p v,
    (2 <= dim)%nat -> Forall (fun a : vec => length a = dim) (newVs ++ alphas) ->
    dim = length (hd [] alphas) ->
    In (p, v) (findVerticesNaive solve newVs alphas) ->
    exists newV ids, In newV newVs /\ In ids (fv_subsets dim (length alphas)) /\
      length p = dim /\ nonneg p /\
      (- epsS <= dot newV p - v /\ dot newV p - v <= epsS) /\
      (forall idx, In idx ids -> (idx < length alphas)%nat ->
         - epsS <= dot (nth idx alphas []) p - v /\ dot (nth idx alphas []) p - v <= epsS) /\
      (- epsS <= qsum p - 1 /\ qsum p - 1 <= epsS) /\
      (forall idx, In idx ids -> (length alphas <= idx)%nat -> nthq p (idx - length alphas) == 0).
  Proof.
    intros newVs alphas dim p v Hdim Hall Hd Hin.
    destruct (findVerticesNaive_In _ _ _ _ Hin) as [newV [ids [HnewV Ht]]].
    apply Forall_app in Hall. destruct Hall as [HallN HallA].
    assert (Hlen : length newV = dim) by (rewrite Forall_forall in HallN; apply HallN; exact HnewV).
    subst dim.
    pose proof (fv_tagged_basic _ _ _ _ _ Ht) as Hb. cbv zeta in Hb.
    destruct Hb as [Hids [Hlenp [Hnn [_ [_ [_ Hzero]]]]]].
    pose proof (fv_tagged_approx newV alphas ids p v Hdim Hlen HallA Ht) as [Ea [Eb Ec]].
    exists newV, ids. split; [exact HnewV|]. split; [exact Hids|]. split; [exact Hlenp|].
    split; [exact Hnn|]. split; [exact Ea|]. split; [exact Eb|]. split; [exact Ec| exact Hzero].
  Qed.

  Theorem findVerticesNaiveRange_approx : forall (range : list vec) dim p v,
    (2 <= dim)%nat -> Forall (fun a : vec => length a = dim) range ->
    In (p, v) (findVerticesNaiveRange solve range) ->
    exists i ids, (i < length range)%nat /\
      let alphas := firstn i range ++ skipn (S i) range in
      let N := length alphas in
      In ids (fv_subsets dim N) /\ length p = dim /\ nonneg p /\
      (- epsS <= dot (nth i range []) p - v /\ dot (nth i range []) p - v <= epsS) /\
      (forall idx, In idx ids -> (idx < N)%nat ->
         - epsS <= dot (nth idx alphas []) p - v /\ dot (nth idx alphas []) p - v <= epsS) /\
      (- epsS <= qsum p - 1 /\ qsum p - 1 <= epsS) /\
      (forall idx, In idx ids -> (N <= idx)%nat -> nthq p (idx - N) == 0).
  Proof.
    intros range dim p v Hdim Hall Hin. unfold findVerticesNaiveRange in Hin.
    apply in_flat_map in Hin. destruct Hin as [i [Hi Hin]]. apply in_seq in Hi.
    set (alphas := firstn i range ++ skipn (S i) range) in *.
    assert (Hne : alphas <> []) by exact (proj1 (findVerticesNaive_basic _ _ _ _ Hin)).
    change (In (p, v) (findVerticesNaive solve [nth i range []] alphas)) in Hin.
    assert (HallA : Forall (fun a : vec => length a = dim) alphas).
    { unfold alphas. rewrite Forall_forall in Hall. apply Forall_forall. intros a Ha. apply Hall.
      apply in_app_or in Ha. destruct Ha as [Ha|Ha].
      - rewrite <- (firstn_skipn i range). apply in_or_app. left. exact Ha.
      - rewrite <- (firstn_skipn (S i) range). apply in_or_app. right. exact Ha. }
    assert (Hd : dim = length (hd [] alphas)).
    { generalize HallA Hne. generalize alphas. intros [|a0 rest] HA Hn; [exfalso; apply Hn; reflexivity|].
      cbn [hd]. inversion HA as [|? ? Ha0 _]. symmetry. exact Ha0. }
    assert (HallN : Forall (fun a : vec => length a = dim) ([nth i range []] ++ alphas)).
    { apply Forall_app. split; [| exact HallA]. constructor; [| constructor].
      rewrite Forall_forall in Hall. apply Hall. apply nth_In. exact (proj2 Hi). }
    destruct (findVerticesNaive_approx _ _ dim p v Hdim HallN Hd Hin)
      as [newV [ids [HnewV [Hids Hrest]]]].
    destruct HnewV as [<-|[]].
    exists i, ids. split; [exact (proj2 Hi)|]. cbv zeta. split; [exact Hids| exact Hrest].
  Qed.
End VerticesProofs.

