(* C12/Model.v — executable Gallina models of
     include/AIToolbox/Utils/Polytope.hpp   dominates, findBestAtPoint, findBestAtSimplexCorner,
                                            extractBestAtPoint, extractBestAtSimplexCorners
     include/AIToolbox/Utils/Prune.hpp      extractDominated, extractDominatedIncremental, Pruner
     src/Utils/Polytope.cpp                 LPInterpolation, sawtoothInterpolation (REPAIRED code, see
                                            fixes/C12-*.patch), WitnessLP (as an oracle)
   Iterator ranges are modelled on zone lists: the C++ array is the concatenation of the zones the
   comments in the source draw, every iter_swap / --end is the corresponding list surgery, so the
   output ORDER is the C++ one.  Elements are of an arbitrary type [A] with a projection
   [proj : A -> vec] (the C++ functions take a projection [p] too).  No proofs in this file. *)
From Coq Require Import List Arith QArith Qminmax Bool.
From AIT Require Import Base.Qx.
Import ListNotations.
Local Open Scope Q_scope.

(* ---------------------------------------------------------------------------------------------
   dominance *)

(* src: Polytope.hpp:dominates —
     (lhs - rhs >= -equalToleranceSmall).minCoeff() ||
     (lhs - rhs >= -lhs.min(rhs) * equalToleranceGeneral).minCoeff()
   with the two tolerances as parameters; [dominates] is the code's instance. *)
Definition dominates_tol (eS eG : Q) (lhs rhs : vec) : bool :=
  forallb (fun p => Qle_bool (- eS) (fst p - snd p)) (combine lhs rhs)
  || forallb (fun p => Qle_bool (- Qmin (fst p) (snd p) * eG) (fst p - snd p)) (combine lhs rhs).
Definition dominates : vec -> vec -> bool := dominates_tol epsS epsG.
(* tolerance 0: plain componentwise >= *)
Definition dominates0 : vec -> vec -> bool := dominates_tol 0 0.

(* src: Utils/Core.hpp:veccmp — exact lexicographic comparison *)
Fixpoint veccmp (a b : vec) : comparison :=
  match a, b with
  | x :: a', y :: b' => match x ?= y with Eq => veccmp a' b' | c => c end
  | _, _ => Eq
  end.

Section Generic.
  Variable A : Type.

  (* ---- array helpers -------------------------------------------------------------------- *)
  Fixpoint set_nth (i : nat) (a : A) (l : list A) : list A :=
    match l, i with
    | [], _ => []
    | _ :: t, O => a :: t
    | x :: t, S i' => x :: set_nth i' a t
    end.
  (* std::iter_swap(begin + i, begin + j) *)
  Definition lswap (i j : nat) (l : list A) : list A :=
    match nth_error l i, nth_error l j with
    | Some a, Some b => set_nth i b (set_nth j a l)
    | _, _ => l
    end.
  (* a zone [x ; post] loses x by "iter_swap(x, --zoneEnd)": the last element takes x's place *)
  Definition swap_pop (post : list A) : list A :=
    match rev post with [] => [] | z :: r => z :: rev r end.

  (* ---- extractDominated ------------------------------------------------------------------ *)
  Section Dominated.
    Variable dom : A -> A -> bool.

    (* src: Prune.hpp:extractDominated, inner "while (helper != optEnd)" loop.
       Zone picture of [optEnd, end):   rev uR ++ pre ++ [tgt] ++ post,   then  removed.
       uR = not yet visited (reversed: its head is *--helper). *)
    Fixpoint ed_scan (uR pre : list A) (tgt : A) (post removed : list A)
      : list A * A * list A * list A :=
      match uR with
      | [] => (pre, tgt, post, removed)
      | x :: uR' =>
          if dom x tgt
          then (* iter_swap(target, --end); target = helper *)
               ed_scan uR' [] x (pre ++ swap_pop post) (tgt :: removed)
          else ed_scan uR' (x :: pre) tgt post removed
      end.

    (* src: Prune.hpp:extractDominated, outer "while (optEnd < end)" loop.
       Array = kept ++ rev midR ++ removed;  kept = [begin,optEnd), removed = [end, origEnd). *)
    Fixpoint ed_loop (fuel : nat) (kept midR removed : list A) : list A * list A * list A :=
      match fuel with
      | O => (kept, midR, removed)
      | S fuel' =>
          match midR with
          | [] => (kept, [], removed)
          | tgt :: uR =>
              if existsb (fun k => dom k tgt) kept
              then ed_loop fuel' kept uR (tgt :: removed)                 (* --end; goto next *)
              else
                let '(pre, t, post, removed') := ed_scan uR [] tgt [] removed in
                (* iter_swap(target, optEnd); ++optEnd *)
                let mid' := match pre with [] => post | p0 :: pre1 => pre1 ++ p0 :: post end in
                ed_loop fuel' (kept ++ [t]) (rev mid') removed'
          end
      end.

    (* src: Prune.hpp:extractDominated — returns (kept, removed): the array afterwards is
       kept ++ removed and the returned iterator is begin + length kept.
       (Out of fuel cannot happen with fuel = length l; it would leave the middle zone in kept.) *)
    Definition extractDominatedBy (l : list A) : list A * list A :=
      if (length l <? 2)%nat then (l, [])
      else let '(k, m, r) := ed_loop (length l) [] (rev l) [] in (k ++ rev m, r).

    (* ---- extractDominatedIncremental ---------------------------------------------------- *)
    (* src: Prune.hpp:extractDominatedIncremental, inner "while (old > begin)" loop for the new
       entry [t].  Old-good zone = rev preR ++ post (post already visited).  None = t is dominated
       (goto next; nothing was moved).  Some (oldGood', oldBad'). *)
    Fixpoint edi_scan (t : A) (preR post oldBad : list A) (isDominating : bool)
      : option (list A * list A) :=
      match preR with
      | [] => Some (post, oldBad)
      | o :: preR' =>
          if negb isDominating && dom o t then None
          else if dom t o
               then (* iter_swap(old, --oldEnd) *)
                    edi_scan t preR' (swap_pop post) (o :: oldBad) true
               else edi_scan t preR' (o :: post) oldBad isDominating
      end.

    (* outer "while (target > newBegin)" loop; toCheckR = new-to-check zone reversed *)
    Fixpoint edi_loop (toCheckR oldGood oldBad newGood newBad : list A)
      : list A * list A * list A * list A :=
      match toCheckR with
      | [] => (oldGood, oldBad, newGood, newBad)
      | t :: rest =>
          match edi_scan t (rev oldGood) [] oldBad false with
          | None => (* iter_swap(target, --end) on the zone t :: newGood *)
              edi_loop rest oldGood oldBad (swap_pop newGood) (t :: newBad)
          | Some (og, ob) => edi_loop rest og ob (t :: newGood) newBad
          end
      end.

    (* final "while (newSwap > newBegin && oldSwap < newBegin) iter_swap(--newSwap, oldSwap++)":
       array zone  oldBad ++ newGood  becomes  newGoodZone ++ oldBadZone *)
    Definition edi_shuffle (oldBad newGood : list A) : list A * list A :=
      let a := length oldBad in
      let c := length newGood in
      let m := Nat.min a c in
      let whole := rev (skipn (c - m) newGood) ++ firstn (c - m) newGood
                   ++ skipn m oldBad ++ rev (firstn m oldBad) in
      (firstn c whole, skipn c whole).

    (* src: Prune.hpp:extractDominatedIncremental — five zones of the final array:
       (old good, new good, old bad, new bad, discarded);  the returned iterators are the first
       three zone ends. *)
    Definition extractDominatedIncrementalBy (old new : list A)
      : list A * list A * list A * list A * list A :=
      let '(nk, nr0) := extractDominatedBy new in
      let '(og, ob, ng, nb) := edi_loop (rev nk) old [] [] [] in
      let '(ngz, obz) := edi_shuffle ob ng in
      (og, ngz, obz, nb, nr0).
  End Dominated.

  (* ---- best-at-point -------------------------------------------------------------------- *)
  Variable proj : A -> vec.

  (* src: Polytope.hpp:findBestAtPoint / findBestAtSimplexCorner — the common scan:
     update when  currValue > bestValue || (currValue == bestValue && veccmp(curr, best) > 0) *)
  Fixpoint fb_go (score : A -> Q) (bi : nat) (ba : A) (bv : Q) (i : nat) (l : list A)
    : nat * A * Q :=
    match l with
    | [] => (bi, ba, bv)
    | x :: t =>
        let cv := score x in
        let upd := match cv ?= bv with
                   | Gt => true
                   | Eq => match veccmp (proj x) (proj ba) with Gt => true | _ => false end
                   | Lt => false
                   end in
        if upd then fb_go score i x cv (S i) t else fb_go score bi ba bv (S i) t
    end.
  (* None = empty range (the C++ dereferences begin unchecked) *)
  Definition findBestBy (score : A -> Q) (l : list A) : option (nat * A * Q) :=
    match l with [] => None | x :: t => Some (fb_go score O x (score x) 1%nat t) end.

  Definition scoreAt (point : vec) (a : A) : Q := dot point (proj a).
  Definition scoreCorner (corner : nat) (a : A) : Q := nthq (proj a) corner.

  (* src: Polytope.hpp:findBestAtPoint — (index, element, value) *)
  Definition findBestAtPoint (point : vec) (l : list A) := findBestBy (scoreAt point) l.
  (* src: Polytope.hpp:findBestAtSimplexCorner *)
  Definition findBestAtSimplexCorner (corner : nat) (l : list A) := findBestBy (scoreCorner corner) l.

  (* src: Polytope.hpp:extractBestAtPoint(point, begin, bound, end) with l = [begin,end) and
     bound an index:  if (bestMatch >= bound) iter_swap(bestMatch, bound++) *)
  Definition extractBestBy (score : A -> Q) (l : list A) (bound : nat) : list A * nat :=
    match findBestBy score l with
    | None => (l, bound)
    | Some (j, _, _) => if (bound <=? j)%nat then (lswap j bound l, S bound) else (l, bound)
    end.
  Definition extractBestAtPoint (point : vec) := extractBestBy (scoreAt point).

  (* src: Polytope.hpp:extractBestAtSimplexCorners *)
  Definition extractBestAtSimplexCorners (S : nat) (l : list A) (bound : nat) : list A * nat :=
    if (length l =? bound)%nat then (l, bound)
    else fold_left (fun st s => extractBestBy (scoreCorner s) (fst st) (snd st)) (seq 0 S) (l, bound).

  (* ---- Pruner --------------------------------------------------------------------------- *)
  Section Pruner.
    (* src: Polytope.cpp:WitnessLP::findWitness — LP oracle.  [findWitness rows v]: rows = the
       hyperplanes given to addOptimalRow so far, in order; v = the candidate.  Some b = a point
       of the simplex where v is strictly above every row; None = no such point. *)
    Variable findWitness : list vec -> vec -> option vec.
    Variable dom : A -> A -> bool.

    (* src: Prune.hpp:Pruner::operator(), "while (bound < end)" loop.  Array =
       kept ++ rest ++ removed.  None = out of fuel (excluded by the theorems). *)
    Fixpoint pruner_loop (fuel : nat) (kept rest removed : list A) : option (list A * list A) :=
      match fuel with
      | O => match rest with [] => Some (kept, removed) | _ => None end
      | S fuel' =>
          match rev rest with
          | [] => Some (kept, removed)
          | last :: initR =>
              match findWitness (map proj kept) (proj last) with
              | Some b =>
                  (* bound = extractBestAtPoint(witness, bound, bound, end) *)
                  match fst (extractBestAtPoint b rest 0) with
                  | x :: rest' => pruner_loop fuel' (kept ++ [x]) rest' removed
                  | [] => None
                  end
              | None => pruner_loop fuel' kept (rev initR) (last :: removed)      (* --end *)
              end
          end
      end.

    (* src: Prune.hpp:Pruner::operator() — (kept, removed by the LP phase, removed by
       extractDominated); the final array is their concatenation. *)
    Definition pruner (S : nat) (l : list A) : option (list A * list A * list A) :=
      let '(l1, rem0) := extractDominatedBy dom l in
      if (length l1 <? 2)%nat then Some (l1, [], rem0)
      else
        let '(l2, bound) := extractBestAtSimplexCorners S l1 0 in
        match pruner_loop (length l2) (firstn bound l2) (skipn bound l2) [] with
        | Some (k, r) => Some (k, r, rem0)
        | None => None
        end.
  End Pruner.
End Generic.

Arguments set_nth {A}. Arguments lswap {A}. Arguments swap_pop {A}.
Arguments ed_scan {A}. Arguments ed_loop {A}. Arguments extractDominatedBy {A}.
Arguments edi_scan {A}. Arguments edi_loop {A}. Arguments edi_shuffle {A}.
Arguments extractDominatedIncrementalBy {A}.
Arguments fb_go {A}. Arguments findBestBy {A}. Arguments scoreAt {A}. Arguments scoreCorner {A}.
Arguments findBestAtPoint {A}. Arguments findBestAtSimplexCorner {A}.
Arguments extractBestBy {A}. Arguments extractBestAtPoint {A}. Arguments extractBestAtSimplexCorners {A}.
Arguments pruner_loop {A}. Arguments pruner {A}.

(* the instances on plain vectors, with the code's tolerances *)
Definition vid (v : vec) : vec := v.
Definition extractDominated (l : list vec) : list vec * list vec := extractDominatedBy dominates l.
Definition extractDominatedIncremental (old new : list vec) := extractDominatedIncrementalBy dominates old new.
Definition findBestAtPointV (point : vec) (l : list vec) := findBestAtPoint vid point l.
Definition findBestAtSimplexCornerV (corner : nat) (l : list vec) := findBestAtSimplexCorner vid corner l.
Definition extractBestAtPointV (point : vec) (l : list vec) (bound : nat) := extractBestAtPoint vid point l bound.
Definition extractBestAtSimplexCornersV (S : nat) (l : list vec) (bound : nat) := extractBestAtSimplexCorners vid S l bound.
Definition prunerV (fw : list vec -> vec -> option vec) (S : nat) (l : list vec) := pruner vid fw dominates S l.

(* ---------------------------------------------------------------------------------------------
   upper-bound interpolation (src/Utils/Polytope.cpp).  ubQ is given by rows: ubQ[s] = the values of
   all actions' hyperplanes at corner s (CompactHyperplanes is S x A).  ubV = (pts, vals). *)

Definition isZero (x : Q) : bool := eqSmall x 0.                     (* checkEqualSmall(x, 0.0) *)
Definition cornerVals (ubQ : mat) : vec := map maxl ubQ.            (* ubQ.rowwise().maxCoeff() *)
Definition nActs (ubQ : mat) : nat := length (hd [] ubQ).
Definition colQ (ubQ : mat) (a : nat) : vec := map (fun r => nthq r a) ubQ.
(* (point.transpose() * ubQ).maxCoeff() *)
Definition basicV (point : vec) (ubQ : mat) : Q :=
  maxl (map (fun a => dot point (colQ ubQ a)) (seq 0 (nActs ubQ))).
Definition vsub (a b : vec) : vec := map (fun p => fst p - snd p) (combine a b).
(* vector of length n holding c_k at position idx_k and 0 elsewhere *)
Fixpoint lookup (i : nat) (idx : list nat) (c : vec) : Q :=
  match idx, c with
  | j :: idx', x :: c' => if (i =? j)%nat then x else lookup i idx' c'
  | _, _ => 0
  end.
Definition scatter (n : nat) (idx : list nat) (c : vec) : vec := map (fun i => lookup i idx c) (seq 0 n).

(* ---- sawtoothInterpolation --------------------------------------------------------------- *)
(* src: Polytope.cpp:sawtoothInterpolation, the loop over s for one stored point b:
   None = "goto next" (the query is zero where b is not);  Some c = min(1, min_s point[s]/b[s]) over
   the s where b is non-zero.  (The C++ starts from DBL_MAX and applies min(c, 1.0) afterwards,
   which is the same minimum.) *)
Fixpoint st_ratio (point b : vec) (c : Q) : option Q :=
  match point, b with
  | p :: point', x :: b' =>
      if isZero p && negb (isZero x) then None
      else if isZero x then st_ratio point' b' c
      else st_ratio point' b' (Qmin c (p / x))
  | _, _ => Some c
  end.

(* the loop over the stored points: (minI, minCF, minC) *)
Fixpoint st_scan (point cv : vec) (pts : list vec) (vals : vec) (i : nat) (acc : nat * Q * Q)
  : nat * Q * Q :=
  match pts, vals with
  | b :: pts', v :: vals' =>
      let acc' :=
        match st_ratio point b 1 with
        | None => acc
        | Some c => let cf := c * (v - dot b cv) in
                    let '(_, minCF, _) := acc in
                    if Qlt_le_dec cf minCF then (i, cf, c) else acc
        end in
      st_scan point cv pts' vals' (S i) acc'
  | _, _ => acc
  end.

(* src: Polytope.cpp:sawtoothInterpolation with fixes/C12-sawtooth-weights.patch applied:
   "if (basicV < v || minCF == 0.0)" and "retval[point.size() + minI] = minC". *)
Definition sawtoothInterpolation (point : vec) (ubQ : mat) (pts : list vec) (vals : vec) : Q * vec :=
  let cv := cornerVals ubQ in
  let '(minI, minCF, minC) := st_scan point cv pts vals 0 (O, 0, 0) in
  let bV := basicV point ubQ in
  let v := dot point cv + minCF in
  if Qlt_le_dec bV v then (bV, point ++ vzero (length pts))
  else if Qeq_bool minCF 0 then (bV, point ++ vzero (length pts))
  else (v, vsub point (vscale minC (nth minI pts [])) ++ scatter (length pts) [minI] [minC]).

(* the code as it is at the pinned commit (only the weight placement; the uninitialised read is
   not modelled): used for the refutation witness *)
Definition sawtoothInterpolation_orig (point : vec) (ubQ : mat) (pts : list vec) (vals : vec) : Q * vec :=
  let cv := cornerVals ubQ in
  let '(minI, minCF, minC) := st_scan point cv pts vals 0 (O, 0, 0) in
  let bV := basicV point ubQ in
  let v := dot point cv + minCF in
  if Qlt_le_dec bV v then (bV, point ++ vzero (length pts))
  else (v, set_nth minI minC (vsub point (vscale minC (nth minI pts [])) ++ vzero (length pts))).

(* ---- LPInterpolation --------------------------------------------------------------------- *)
Definition zeroStates (point : vec) : list nat :=
  filter (fun s => isZero (nthq point s)) (seq 0 (length point)).
Definition nonZeroStates (point : vec) : list nat :=
  filter (fun s => negb (isZero (nthq point s))) (seq 0 (length point)).
(* src: LPInterpolation, "compatiblePoints" *)
Definition compatiblePoints (point : vec) (pts : list vec) : list nat :=
  match zeroStates point with
  | [] => seq 0 (length pts)
  | zs => filter (fun i => forallb (fun s => isZero (nthq (nth i pts []) s)) zs) (seq 0 (length pts))
  end.
(* the LP: minimise coef . c  subject to  rows . c <= rhs,  c >= 0
   (K is eliminated: the equality row defines K = coef . c) *)
Definition lpi_rows (point : vec) (pts : list vec) (compat : list nat) : mat :=
  map (fun s => map (fun i => nthq (nth i pts []) s) compat) (nonZeroStates point).
Definition lpi_rhs (point : vec) : vec := map (fun s => nthq point s) (nonZeroStates point).
Definition lpi_coef (point cv : vec) (pts : list vec) (vals : vec) (compat : list nat) : vec :=
  map (fun i => nthq vals i - qsum (map (fun s => nthq (nth i pts []) s * nthq cv s) (nonZeroStates point))) compat.
(* "Remove infinitesimal/negative values" *)
Definition cleanup (x : Q) : Q := if isZero x then 0 else if Qlt_le_dec x 0 then 0 else x.
(* corner weights before clean-up: point[s] - sum_i pts[compat_i][s] * c_i on the non-zero states *)
Definition lpi_corner_raw (point : vec) (pts : list vec) (compat : list nat) (c : vec) : vec :=
  map (fun s => if isZero (nthq point s) then 0
                else nthq point s - qsum (map (fun ic => nthq (nth (fst ic) pts []) s * snd ic) (combine compat c)))
      (seq 0 (length point)).
Definition lpi_raw (point : vec) (pts : list vec) (compat : list nat) (c : vec) : vec :=
  lpi_corner_raw point pts compat c ++ scatter (length pts) compat c.

Section LPI.
  (* lp_solve through AIToolbox::LP, as an oracle: [lp_min rows rhs coef] = Some c, a minimiser of
     coef.c under rows.c <= rhs, c >= 0, or None (solver failure -> the C++ throws). *)
  Variable lp_min : mat -> vec -> vec -> option vec.

  (* the coefficients of the compatible points and the unscaled value *)
  Definition lpi_solve (point cv : vec) (pts : list vec) (vals : vec) (compat : list nat) : option (vec * Q) :=
    match compat with
    | [i] =>
        (* single compatible point, with fixes/C12-lpinterp-shortcut-div0.patch and
           fixes/C12-lpinterp-shortcut-opt.patch applied *)
        let comp := nth i pts [] in
        let c0 := fold_left (fun acc s => if isZero (nthq comp s) then acc else Qmin acc (nthq point s / nthq comp s))
                            (nonZeroStates point) 1 in
        let u := c0 * (nthq vals i - dot comp cv) in
        (* fixes/C12-lpinterp-shortcut-opt.patch: a point above the corner surface gets weight 0,
           as the LP would give it *)
        if Qlt_le_dec 0 u then Some ([0], 0) else Some ([c0], u)
    | _ =>
        let coef := lpi_coef point cv pts vals compat in
        match lp_min (lpi_rows point pts compat) (lpi_rhs point) coef with
        | Some c => Some (c, dot coef c)
        | None => None
        end
    end.

  (* src: Polytope.cpp:LPInterpolation with fixes/C12-lpinterp-weights.patch and
     fixes/C12-lpinterp-shortcut-div0.patch applied.  None = std::runtime_error. *)
  Definition LPInterpolation (point : vec) (ubQ : mat) (pts : list vec) (vals : vec) : option (Q * vec) :=
    let compat := compatiblePoints point pts in
    match compat with
    | [] => Some (basicV point ubQ, point ++ vzero (length pts))
    | _ =>
        let cv := cornerVals ubQ in
        match lpi_solve point cv pts vals compat with
        | None => None
        | Some (c, unscaled) => Some (unscaled + dot point cv, map cleanup (lpi_raw point pts compat c))
        end
    end.

  (* the pinned commit's placement "retval.tail(compatiblePoints.size()) = result" *)
  Definition lpi_raw_orig (point : vec) (pts : list vec) (compat : list nat) (c : vec) : vec :=
    lpi_corner_raw point pts compat c ++ vzero (length pts - length compat) ++ firstn (length compat) c.
End LPI.
