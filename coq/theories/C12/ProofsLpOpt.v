(* C12/ProofsLpOpt.v — LPInterpolation returns the optimum of the full interpolation LP (over all
   stored points) whenever a stored point shares the query's support. *)
From Coq Require Import List Arith QArith Qminmax Lqa Lia Bool Permutation.
From AIT Require Import Base.Qx Base.Mdp C12.Model C12.Spec C12.ProofsInterp.
Import ListNotations.
Local Open Scope Q_scope.

(* the LP oracle returns a minimiser *)
Definition lp_opt (lp_min : mat -> vec -> vec -> option vec) : Prop :=
  forall rows rhs coef c, lp_min rows rhs coef = Some c ->
    forall c', nonneg c' -> length c' = length coef -> Forall2 (fun r b => dot r c' <= b) rows rhs ->
    dot coef c <= dot coef c'.

Lemma recon_as_seq : forall pts c s, length c = length pts ->
  recon c pts s == qsum (map (fun i => nthq c i * nthq (nth i pts []) s) (seq 0 (length pts))).
Proof.
  induction pts as [|p pts IH]; intros [|x c] s Hl; try discriminate Hl; [reflexivity|].
  cbn [length]. rewrite <- cons_seq, <- seq_shift. cbn [map qsum]. rewrite map_map, recon_cons.
  rewrite IH by (cbn in Hl; lia). unfold nthq at 1. cbn [nth]. apply Qplus_comp; [reflexivity|].
  apply qsum_map_ext. intros i _. unfold nthq. cbn [nth]. reflexivity.
Qed.

Lemma gain_as_seq : forall cv pts c vals, length c = length pts -> length vals = length pts ->
  interp_gain cv c pts vals ==
  qsum (map (fun i => nthq c i * (nthq vals i - dot (nth i pts []) cv)) (seq 0 (length pts))).
Proof.
  intros cv. induction pts as [|p pts IH]; intros [|x c] [|v vals] Hl Hv; try discriminate Hl; try discriminate Hv; [reflexivity|].
  cbn [length interp_gain]. rewrite <- cons_seq, <- seq_shift. cbn [map qsum]. rewrite map_map.
  rewrite IH by (cbn in Hl, Hv; lia). unfold nthq at 1 2. cbn [nth]. apply Qplus_comp; [reflexivity|].
  apply qsum_map_ext. intros i _. unfold nthq. cbn [nth]. reflexivity.
Qed.

Lemma combine_map_r : forall (f : nat -> Q) l, combine l (map f l) = map (fun i => (i, f i)) l.
Proof. intros f. induction l as [|i l IH]; cbn [map combine]; [reflexivity| rewrite IH; reflexivity]. Qed.

Lemma forallb_false : forall (B : Type) (f : B -> bool) l, forallb f l = false -> exists x, In x l /\ f x = false.
Proof.
  intros B f. induction l as [|y l IH]; cbn [forallb]; intros H; [discriminate|].
  destruct (f y) eqn:E; [|exists y; split; [left; reflexivity| exact E]].
  destruct (IH H) as [x [Hx Hf]]. exists x; split; [right; exact Hx| exact Hf].
Qed.

Lemma qsum_term_le : forall (h : nat -> Q) l i, (forall j, In j l -> 0 <= h j) -> In i l -> h i <= qsum (map h l).
Proof.
  intros h. induction l as [|j l IH]; intros i Hn Hi; [destruct Hi|]. cbn [map qsum].
  assert (H0 : 0 <= qsum (map h l)).
  { apply qsum_nonneg. apply Forall_forall. intros x Hx. apply in_map_iff in Hx. destruct Hx as [k [<- Hk]]. apply Hn. right; exact Hk. }
  pose proof (Hn j (or_introl eq_refl)).
  destruct Hi as [->|Hi]; [lra|]. specialize (IH i (fun k Hk => Hn k (or_intror Hk)) Hi). lra.
Qed.

Section LpOpt.
  Variables (point : vec) (pts : list vec) (vals : vec) (ubQ : mat).
  Hypothesis Hwf : interp_wf point pts vals.
  Hypothesis HQ : ubQ_wf point ubQ.
  Let cv := cornerVals ubQ.
  Let n := length pts.
  Let compat := compatiblePoints point pts.
  (* compatibility test of one stored point *)
  Let Cf (i : nat) : bool := forallb (fun s => isZero (nthq (nth i pts []) s)) (zeroStates point).
  Let G (i : nat) : Q := nthq vals i - dot (nth i pts []) cv.

  Lemma compat_as_filter : compat = filter Cf (seq 0 n).
  Proof.
    unfold compat, compatiblePoints, Cf, n. destruct (zeroStates point) as [|z zs] eqn:Ez; [|reflexivity].
    cbn [forallb]. induction (seq 0 (length pts)) as [|i l IH]; cbn [filter]; [reflexivity| rewrite <- IH; reflexivity].
  Qed.

  Lemma Hcv : length cv = length point.
  Proof. unfold cv. rewrite cornerVals_length. apply HQ. Qed.

  Lemma pts_facts : forall i, (i < n)%nat ->
    length (nth i pts []) = length point /\ nonneg (nth i pts []) /\ Forall sepz (nth i pts []).
  Proof.
    intros i Hi. destruct Hwf as [_ [_ [_ Hp]]]. rewrite Forall_forall in Hp. apply Hp. apply nth_In. exact Hi.
  Qed.

  (* a compatible point is exactly zero on the query's zero states; so its full dot product with cv
     is the one restricted to the non-zero states *)
  Lemma compat_dot : forall i, (i < n)%nat -> Cf i = true ->
    dot (nth i pts []) cv == qsum (map (fun s => nthq (nth i pts []) s * nthq cv s) (nonZeroStates point)).
  Proof.
    intros i Hi HC. destruct (pts_facts i Hi) as [Hlb [_ Hsz]].
    rewrite (vec_as_map (nth i pts [])) at 1. rewrite Hlb, <- Hcv. rewrite dot_map_seq.
    unfold nonZeroStates. rewrite qsum_filter. rewrite Hcv. apply qsum_map_ext. intros s Hs. apply in_seq in Hs.
    destruct (isZero (nthq point s)) eqn:Ez; cbn [negb]; [|reflexivity].
    unfold Cf in HC. rewrite forallb_forall in HC.
    assert (Hin : In s (zeroStates point)).
    { unfold zeroStates. apply filter_In. split; [apply in_seq; lia| exact Ez]. }
    rewrite (Forall_nthq sepz _ s sepz_0 Hsz (HC s Hin)). lra.
  Qed.

  (* an incompatible point has weight zero in every feasible solution of the full LP *)
  Lemma incompat_zero : forall c, interp_feasible point pts c -> forall i, (i < n)%nat -> Cf i = false -> nthq c i == 0.
  Proof.
    intros c [Hc [Hlc Hrec]] i Hi HC. unfold Cf in HC. apply forallb_false in HC. destruct HC as [s [Hs Hz]].
    unfold zeroStates in Hs. apply filter_In in Hs. destruct Hs as [Hs Hzp]. apply in_seq in Hs.
    destruct (pts_facts i Hi) as [_ [Hnn _]].
    pose proof (isZero_false _ Hz (nthq_nonneg _ s Hnn)) as Hpos. pose proof epsS_pos as He.
    destruct Hwf as [_ [Hsz _]]. pose proof (Forall_nthq sepz point s sepz_0 Hsz Hzp) as Hp0.
    assert (Hs' : (s < length point)%nat) by lia. specialize (Hrec s Hs').
    rewrite recon_as_seq in Hrec by exact Hlc. fold n in Hrec.
    pose proof (qsum_term_le (fun j => nthq c j * nthq (nth j pts []) s) (seq 0 n) i) as Ht. cbv beta in Ht.
    assert (Hterms : forall j, In j (seq 0 n) -> 0 <= nthq c j * nthq (nth j pts []) s).
    { intros j Hj. apply in_seq in Hj. destruct (pts_facts j ltac:(lia)) as [_ [Hnj _]].
      pose proof (nthq_nonneg c j Hc). pose proof (nthq_nonneg _ s Hnj). nra. }
    specialize (Ht Hterms ltac:(apply in_seq; lia)).
    pose proof (nthq_nonneg c i Hc). nra.
  Qed.

  (* restriction of a full-LP solution to the compatible points *)
  Definition restrict (c : vec) : vec := map (nthq c) compat.

  Lemma Forall2_map_intro : forall (R : vec -> Q -> Prop) (f : nat -> vec) (g : nat -> Q) l,
    (forall x, In x l -> R (f x) (g x)) -> Forall2 R (map f l) (map g l).
  Proof.
    intros R f g. induction l as [|x l IH]; intros H; cbn [map]; constructor.
    - apply H. left; reflexivity.
    - apply IH. intros y Hy. apply H. right; exact Hy.
  Qed.

  Lemma in_compat : forall i, In i compat <-> (i < n)%nat /\ Cf i = true.
  Proof. intros i. rewrite compat_as_filter, filter_In, in_seq. intuition lia. Qed.

  (* sums over the compatible indices *)
  Lemma sum_compat : forall (h : nat -> Q) (c : vec),
    qsum (map (fun ic : nat * Q => h (fst ic) * snd ic) (combine compat (restrict c))) ==
    qsum (map (fun i => if Cf i then h i * nthq c i else 0) (seq 0 n)).
  Proof.
    intros h c. unfold restrict. rewrite combine_map_r, map_map. cbn [fst snd].
    rewrite compat_as_filter. apply qsum_filter.
  Qed.

  Lemma restrict_feasible_rows : forall c, interp_feasible point pts c ->
    nonneg (restrict c) /\ length (restrict c) = length compat /\
    Forall2 (fun r b => dot r (restrict c) <= b) (lpi_rows point pts compat) (lpi_rhs point).
  Proof.
    intros c Hf. pose proof Hf as [Hc [Hlc Hrec]]. split; [|split].
    - unfold restrict, nonneg. apply Forall_forall. intros x Hx. apply in_map_iff in Hx. destruct Hx as [i [<- _]].
      apply nthq_nonneg; exact Hc.
    - unfold restrict. apply map_length.
    - unfold lpi_rows, lpi_rhs. apply Forall2_map_intro. intros s Hs.
      unfold nonZeroStates in Hs. apply filter_In in Hs. destruct Hs as [Hs _]. apply in_seq in Hs.
      assert (Hs' : (s < length point)%nat) by lia. specialize (Hrec s Hs').
      rewrite recon_as_seq in Hrec by exact Hlc. fold n in Hrec.
      rewrite dot_map_combine by (unfold restrict; apply map_length).
      rewrite (sum_compat (fun i => nthq (nth i pts []) s) c).
      eapply Qle_trans; [|exact Hrec]. apply qsum_map_le. intros i Hi. apply in_seq in Hi.
      assert (Hi' : (i < n)%nat) by lia. destruct (pts_facts i Hi') as [_ [Hni _]].
      pose proof (nthq_nonneg c i Hc). pose proof (nthq_nonneg _ s Hni). destruct (Cf i); nra.
  Qed.

  Lemma restrict_objective : forall c, interp_feasible point pts c ->
    dot (lpi_coef point cv pts vals compat) (restrict c) == interp_gain cv c pts vals.
  Proof.
    intros c Hf. pose proof Hf as [Hc [Hlc _]]. destruct Hwf as [_ [_ [Hlv _]]].
    rewrite gain_as_seq by assumption. fold n. unfold lpi_coef.
    rewrite dot_map_combine by (unfold restrict; apply map_length).
    rewrite (sum_compat (fun i => nthq vals i - qsum (map (fun s => nthq (nth i pts []) s * nthq cv s) (nonZeroStates point))) c).
    apply qsum_map_ext. intros i Hi. apply in_seq in Hi. assert (Hi' : (i < n)%nat) by lia.
    destruct (Cf i) eqn:E.
    - rewrite <- (compat_dot i Hi' E). lra.
    - rewrite (incompat_zero c Hf i Hi' E). lra.
  Qed.

  Variable lp_min : mat -> vec -> vec -> option vec.
  Hypothesis Hsound : lp_sound lp_min.
  Hypothesis Hopt : lp_opt lp_min.
  (* beliefs: coordinates sum to one (only needed for the single-point shortcut, whose weight is capped at 1) *)
  Hypothesis Hdist : qsum point == 1 /\ Forall (fun b => qsum b == 1) pts.

  Lemma qsum_as_seq : forall v : vec, qsum v == qsum (map (nthq v) (seq 0 (length v))).
  Proof. intros v. rewrite <- vec_as_map. reflexivity. Qed.

  Lemma shortcut_fold_max : forall comp l acc x, nonneg comp -> x <= acc ->
    (forall s, In s l -> isZero (nthq comp s) = false -> x * nthq comp s <= nthq point s) ->
    x <= fold_left (fun a s => if isZero (nthq comp s) then a else Qmin a (nthq point s / nthq comp s)) l acc.
  Proof.
    intros comp. induction l as [|s l IH]; intros acc x Hc Hx Hs; cbn [fold_left]; [exact Hx|].
    destruct (isZero (nthq comp s)) eqn:E.
    - apply IH; [exact Hc| exact Hx| intros t Ht; apply Hs; right; exact Ht].
    - apply IH; [exact Hc| | intros t Ht; apply Hs; right; exact Ht].
      pose proof (isZero_false _ E (nthq_nonneg comp s Hc)) as Hpos. pose proof epsS_pos as He.
      specialize (Hs s (or_introl eq_refl) E).
      assert (Hr : (nthq point s / nthq comp s) * nthq comp s == nthq point s) by (field; lra).
      apply Q.min_glb; [exact Hx| nra].
  Qed.

  (* weight of a point in a feasible solution is at most one *)
  Lemma weight_le_one : forall c, interp_feasible point pts c -> forall i, (i < n)%nat -> nthq c i <= 1.
  Proof.
    intros c [Hc [Hlc Hrec]] i Hi. destruct Hdist as [Hp1 Hb1]. rewrite Forall_forall in Hb1.
    pose proof (Hb1 (nth i pts []) (nth_In _ _ Hi)) as Hbi. destruct (pts_facts i Hi) as [Hlb _].
    rewrite qsum_as_seq in Hp1, Hbi. rewrite Hlb in Hbi.
    assert (Hle : qsum (map (fun s => nthq c i * nthq (nth i pts []) s) (seq 0 (length point))) <=
                  qsum (map (nthq point) (seq 0 (length point)))).
    { apply qsum_map_le. intros s Hs. apply in_seq in Hs. assert (Hs' : (s < length point)%nat) by lia.
      specialize (Hrec s Hs'). rewrite recon_as_seq in Hrec by exact Hlc. fold n in Hrec.
      eapply Qle_trans; [|exact Hrec].
      apply (qsum_term_le (fun j => nthq c j * nthq (nth j pts []) s) (seq 0 n) i); [|apply in_seq; lia].
      intros j Hj. apply in_seq in Hj. assert (Hj' : (j < n)%nat) by lia. destruct (pts_facts j Hj') as [_ [Hnj _]].
      pose proof (nthq_nonneg c j Hc). pose proof (nthq_nonneg _ s Hnj). nra. }
    assert (Esc : qsum (map (fun s => nthq c i * nthq (nth i pts []) s) (seq 0 (length point))) ==
                  nthq c i * qsum (map (nthq (nth i pts [])) (seq 0 (length point)))).
    { rewrite <- qsum_map_scale. rewrite map_map. reflexivity. }
    rewrite Esc, Hbi, Hp1 in Hle. lra.
  Qed.

  Theorem interp_eq_lp_lemma : forall v w, compat <> [] ->
    LPInterpolation lp_min point ubQ pts vals = Some (v, w) ->
    (exists c, interp_feasible point pts c /\ v == interp_objective point cv pts vals c) /\
    (forall c', interp_feasible point pts c' -> v <= interp_objective point cv pts vals c').
  Proof.
    intros v w Hne H. unfold LPInterpolation in H. fold compat cv in H.
    destruct compat as [|i0 rest0] eqn:Ec; [congruence|]. rewrite <- Ec in *. clear Hne.
    destruct (lpi_solve lp_min point cv pts vals compat) as [[c u]|] eqn:Es; [|discriminate].
    inversion H; subst v w; clear H.
    pose proof (lpi_solve_feas point pts vals Hwf lp_min Hsound cv c u Es) as Hfeas.
    destruct (compat_props point pts vals Hwf) as [Hnd [Hlt Hz]]. fold compat in Hnd, Hlt, Hz.
    pose proof Hfeas as [Hc [Hlc Hrows]]. fold compat in Hlc.
    pose proof Hwf as [Hpn [Hpsz [Hlv _]]].
    (* value of the objective at the scattered solution *)
    assert (Hobj : interp_gain cv (scatter n compat c) pts vals == dot (lpi_coef point cv pts vals compat) c).
    { rewrite gain_as_seq by (rewrite ?scatter_length; unfold n; congruence). fold n.
      assert (E1 : qsum (map (fun i => nthq (scatter n compat c) i * (nthq vals i - dot (nth i pts []) cv)) (seq 0 n)) ==
                   recon (scatter n compat c) (map (fun i => [G i]) (seq 0 n)) 0).
      { rewrite recon_as_seq by (rewrite scatter_length, map_length, seq_length; reflexivity).
        rewrite map_length, seq_length. apply qsum_map_ext. intros i Hi. apply in_seq in Hi.
        assert (E : nth i (map (fun i0 : nat => [G i0]) (seq 0 n)) [] = [G i]).
        { rewrite (nth_indep _ [] ((fun i0 : nat => [G i0]) O)) by (rewrite map_length, seq_length; lia).
          rewrite (map_nth (fun i0 : nat => [G i0])). rewrite seq_nth by lia. reflexivity. }
        unfold vec in *. rewrite E. unfold nthq at 3. cbn [nth]. unfold G. reflexivity. }
      rewrite E1.
      replace n with (length (map (fun i => [G i]) (seq 0 n))) at 1 by (rewrite map_length, seq_length; reflexivity).
      rewrite recon_scatter; [| exact Hnd | rewrite map_length, seq_length; exact Hlt | exact Hlc].
      unfold lpi_coef. rewrite dot_map_combine by exact Hlc. apply qsum_map_ext. intros [i x] Hix. cbn [fst snd].
      apply in_combine_l in Hix. apply in_compat in Hix. destruct Hix as [Hi HC].
      assert (E : nth i (map (fun i0 : nat => [G i0]) (seq 0 n)) [] = [G i]).
      { rewrite (nth_indep _ [] ((fun i0 : nat => [G i0]) O)) by (rewrite map_length, seq_length; lia).
        rewrite (map_nth (fun i0 : nat => [G i0])). rewrite seq_nth by lia. reflexivity. }
      unfold vec in *. rewrite E. unfold nthq at 1. cbn [nth]. unfold G. rewrite (compat_dot i Hi HC). apply Qmult_comm. }
    assert (Hfull : interp_feasible point pts (scatter n compat c)).
    { split; [apply nonneg_scatter; exact Hc|]. split; [apply scatter_length|]. intros s Hs.
      unfold n. rewrite recon_scatter by assumption.
      destruct (isZero (nthq point s)) eqn:Ez.
      - rewrite qsum_map_zero; [apply nthq_nonneg; exact Hpn|].
        intros [i x] Hix. cbn [fst snd]. apply in_combine_l in Hix. rewrite (Hz i s Hix Hs Ez). lra.
      - assert (Hin : In s (nonZeroStates point)).
        { unfold nonZeroStates. apply filter_In. split; [apply in_seq; lia| rewrite Ez; reflexivity]. }
        specialize (Hrows s Hin). eapply Qle_trans; [|exact Hrows]. apply Qle_lteq. right.
        apply qsum_map_ext. intros ic _. lra. }
    (* the unscaled value against the objective of the two branches *)
    unfold lpi_solve in Es.
    destruct compat as [|i1 [|i2 rest2]] eqn:Ec2; [discriminate Ec| |].
    - (* single compatible point *)
      assert (Hi1 : (i1 < n)%nat /\ Cf i1 = true) by (apply in_compat; rewrite Ec2; left; reflexivity).
      destruct Hi1 as [Hi1 HC1]. destruct (pts_facts i1 Hi1) as [Hlb1 [Hnn1 Hsz1]].
      set (c0 := fold_left (fun acc s => if isZero (nthq (nth i1 pts []) s) then acc else Qmin acc (nthq point s / nthq (nth i1 pts []) s)) (nonZeroStates point) 1) in *.
      assert (Hlow : forall c', interp_feasible point pts c' -> forall g, g == G i1 ->
                 (if Qlt_le_dec 0 (c0 * g) then 0 else c0 * g) <= interp_gain cv c' pts vals).
      { intros c' Hf' g Hg. rewrite <- (restrict_objective c' Hf'). rewrite Ec2. unfold lpi_coef, restrict. rewrite Ec2. cbn [map dot].
        rewrite <- (compat_dot i1 Hi1 HC1). fold (G i1). rewrite <- Hg.
        pose proof Hf' as [Hc' _]. pose proof (nthq_nonneg c' i1 Hc') as Hx0.
        assert (H01 : 0 <= 1) by lra.
        pose proof (shortcut_fold point pts vals Hwf (nth i1 pts []) (nonZeroStates point) 1 Hnn1 Hsz1 H01) as [Hc00 _]. fold c0 in Hc00.
        assert (Hmax : nthq c' i1 <= c0).
        { apply shortcut_fold_max; [exact Hnn1| apply weight_le_one; assumption|].
          intros s Hs _. destruct (restrict_feasible_rows c' Hf') as [_ [_ HF]].
          unfold lpi_rows, lpi_rhs in HF. rewrite Ec2 in HF.
          pose proof (Forall2_map_same nat (fun r b => dot r (restrict c') <= b) _ _ _ HF s Hs) as Hrow. cbv beta in Hrow.
          unfold restrict in Hrow. rewrite Ec2 in Hrow. cbn [map dot] in Hrow. lra. }
        generalize dependent c0. intros c0 Hc00 Hmax. set (x := nthq c' i1) in *.
        destruct (Qlt_le_dec 0 g) as [Hg0|Hg0]; destruct (Qlt_le_dec 0 (c0 * g)); nra. }
      destruct (Qlt_le_dec 0 (c0 * (nthq vals i1 - dot (nth i1 pts []) cv))) as [Hpos|Hnp] eqn:Ed in Es;
        inversion Es; subst c u; clear Es.
      + split.
        * exists (scatter n [i1] [0]). split; [exact Hfull|]. unfold interp_objective. rewrite Hobj.
          unfold lpi_coef. cbn [map dot]. lra.
        * intros c' Hf'. unfold interp_objective. specialize (Hlow c' Hf' (nthq vals i1 - dot (nth i1 pts []) cv) (Qeq_refl _)).
          rewrite Ed in Hlow. lra.
      + split.
        * exists (scatter n [i1] [c0]). split; [exact Hfull|]. unfold interp_objective. rewrite Hobj.
          unfold lpi_coef. cbn [map dot]. rewrite <- (compat_dot i1 Hi1 HC1). lra.
        * intros c' Hf'. unfold interp_objective. specialize (Hlow c' Hf' (nthq vals i1 - dot (nth i1 pts []) cv) (Qeq_refl _)).
          rewrite Ed in Hlow. lra.
    - (* the LP *)
      destruct (lp_min (lpi_rows point pts (i1 :: i2 :: rest2)) (lpi_rhs point) (lpi_coef point cv pts vals (i1 :: i2 :: rest2))) as [c1|] eqn:El; [|discriminate].
      inversion Es; subst c u; clear Es. split.
      + exists (scatter n (i1 :: i2 :: rest2) c1). split; [exact Hfull|]. unfold interp_objective. rewrite Hobj. apply Qplus_comm.
      + intros c' Hf'. unfold interp_objective. rewrite <- (restrict_objective c' Hf'). rewrite Ec2.
        destruct (restrict_feasible_rows c' Hf') as [Hr1 [Hr2 Hr3]]. rewrite Ec2 in Hr2, Hr3.
        assert (Hl : length (restrict c') = length (lpi_coef point cv pts vals (i1 :: i2 :: rest2))).
        { rewrite Hr2. unfold lpi_coef. rewrite map_length. reflexivity. }
        pose proof (Hopt _ _ _ _ El (restrict c') Hr1 Hl Hr3) as Hmin.
        eapply Qle_trans; [apply Qplus_le_compat; [exact Hmin| apply Qle_refl]|]. apply Qle_lteq. right. apply Qplus_comm.
  Qed.
End LpOpt.
