From Coq Require Extraction.
From Coq Require Import ExtrOcamlBasic.
From AIT Require Import Base.Vio C07.Model C07.Spec.
Extraction "model.ml" vio_kit inj exp_new exp_record exp_reset exp_setVisits exp_step V NN Rw M2 e_ts nsum
  ml_ctor ml_sync_all ml_sync2 ml_sync3 ml_step T Rm
  sml_ctor sml_sync_all sml_sync2 sml_sync3 sml_step Ts Rs
  bexp_new bexp_record bexp_reset thompson_row
  hist_step rewards_of count countsum mean_x m2_x freq_x never_visited
  trk_new trk_ctor trk_step tSt tN tLast t_bad precond_ok is_ident_rowb delta
  cg_id cg_size cexp_new cexp_step cnode cproj row_rewards row_count cop_ok
  cml_ctor cml_sync_all cml_sync_ids cml_sync_sa cml_step ctrk_step ctrack
  fbexp_new fbexp_step fbnode fbproj fbop_ok pidx pspace arm_rewards.
