(* C07/ProofsCoopMl.v — CooperativeMaximumLikelihoodModel: every CPT row that was synced (with data)
   and not hit by a record since is the empirical distribution of its parent-set counts, with the
   empirical mean as reward; rows never hit by a record keep the constructor's default. *)
From Coq Require Import List Arith ZArith QArith Bool Lia Lqa.
From AIT Require Import Base.Qx C07.Model C07.Spec C07.ProofsExp C07.ProofsMl C07.ProofsCoop.
Import ListNotations.
Local Open Scope Q_scope.

(* ------------------------------------------------------------------ ragged tables *)
Lemma upd2_outer_len : forall (A : Type) (t : list (list A)) i j f, length (upd2 i j f t) = length t.
Proof. intros; unfold upd2; apply upd_length. Qed.

Lemma upd2_inner_len : forall (A : Type) (t : list (list A)) i j f i', length (nth i' (upd2 i j f t) []) = length (nth i' t []).
Proof.
  intros A t i j f i'. unfold upd2. destruct (Nat.eq_dec i i') as [<-|Ne].
  - destruct (Nat.lt_ge_cases i (length t)) as [H|H].
    + rewrite nth_upd_eq by exact H. apply upd_length.
    + rewrite nth_upd_oob by exact H. reflexivity.
  - rewrite nth_upd_neq by exact Ne. reflexivity.
Qed.

Lemma get3_upd2_eq' : forall (A : Type) (d : A) (t : list (list (list A))) i j f v,
  (i < length t)%nat -> (j < length (nth i t []))%nat ->
  get3 d (upd2 i j f t) i j v = nth v (f (nth j (nth i t []) [])) d.
Proof.
  intros A d t i j f v Hi Hj. unfold get3, upd2.
  rewrite (nth_upd_eq _ _ [] t i) by exact Hi. rewrite (nth_upd_eq _ _ [] (nth i t []) j) by exact Hj. reflexivity.
Qed.

Lemma get2_upd2_eq' : forall (A : Type) (d : A) (t : list (list A)) i j f,
  (i < length t)%nat -> (j < length (nth i t []))%nat -> get2 d (upd2 i j f t) i j = f (get2 d t i j).
Proof.
  intros A d t i j f Hi Hj. unfold get2, upd2.
  rewrite (nth_upd_eq _ _ [] t i) by exact Hi. apply nth_upd_eq; exact Hj.
Qed.

(* ------------------------------------------------------------------ well-formedness *)
Definition cml_wf (g : cgraph) (m : cml) : Prop :=
  length (cm_tr m) = length (cgS g) /\ length (cm_rw m) = length (cgS g) /\
  forall i, (i < length (cgS g))%nat ->
    length (nth i (cm_tr m) []) = cg_size g i /\ length (nth i (cm_rw m) []) = cg_size g i.

Lemma cml_wf_new : forall g, cml_wf g (cml_new g).
Proof.
  intros g. unfold cml_wf, cml_new; cbn [cm_tr cm_rw]. rewrite !map_length, !seq_length.
  split; [reflexivity|]. split; [reflexivity|]. intros i Hi.
  rewrite (nth_map_seq _ _ [] _ i Hi), (nth_map_seq _ _ [] _ i Hi). rewrite !repeat_length. split; reflexivity.
Qed.

Definition etot (g : cgraph) (e : cexp) (i j : nat) : nat := get2 0%nat (r_vis (cnode e i)) j (nth i (cgS g) 0%nat).

Lemma syncRow_noop : forall g e m i j, etot g e i j = 0%nat -> cml_syncRow g e m i j = m.
Proof. intros g e m i j H. unfold cml_syncRow. unfold etot in H. rewrite H. reflexivity. Qed.

Lemma syncRow_wf : forall g e m i j, cml_wf g m -> cml_wf g (cml_syncRow g e m i j).
Proof.
  intros g e m i j (W1 & W2 & W3). unfold cml_syncRow.
  destruct (get2 0%nat (r_vis (cnode e i)) j (nth i (cgS g) 0%nat) =? 0)%nat; [repeat split; auto; apply W3; auto|].
  unfold cml_wf; cbn [cm_tr cm_rw]. rewrite !upd2_outer_len. split; [exact W1|]. split; [exact W2|].
  intros i' Hi'. rewrite !upd2_inner_len. apply W3; exact Hi'.
Qed.

Lemma syncRow_frame : forall g e m i j i' j' v, (i <> i' \/ j <> j') ->
  CT (cml_syncRow g e m i j) i' j' v = CT m i' j' v /\ CR (cml_syncRow g e m i j) i' j' = CR m i' j'.
Proof.
  intros g e m i j i' j' v H. unfold cml_syncRow.
  destruct (get2 0%nat (r_vis (cnode e i)) j (nth i (cgS g) 0%nat) =? 0)%nat; [split; reflexivity|].
  unfold CT, CR; cbn [cm_tr cm_rw]. split; [apply get3_row_upd2_neq; exact H| apply get2_upd2_neq; exact H].
Qed.

Lemma syncRow_row : forall g e m i j, cml_wf g m -> (i < length (cgS g))%nat -> (j < cg_size g i)%nat ->
  (0 < etot g e i j)%nat ->
  (forall v, (v < nth i (cgS g) 0)%nat ->
     CT (cml_syncRow g e m i j) i j v == inj (get2 0%nat (r_vis (cnode e i)) j v) / inj (etot g e i j)) /\
  CR (cml_syncRow g e m i j) i j = nth j (r_avg (cnode e i)) 0.
Proof.
  intros g e m i j (W1 & W2 & W3) Hi Hj Ht. destruct (W3 i Hi) as [L1 L2]. unfold cml_syncRow. unfold etot in *.
  destruct (get2 0%nat (r_vis (cnode e i)) j (nth i (cgS g) 0%nat) =? 0)%nat eqn:E; [apply Nat.eqb_eq in E; lia|].
  split.
  - intros v Hv. unfold CT; cbn [cm_tr]. rewrite get3_upd2_eq' by lia.
    rewrite nth_map_seq by exact Hv. apply Qred_correct.
  - unfold CR; cbn [cm_rw]. rewrite get2_upd2_eq' by lia. reflexivity.
Qed.

(* ------------------------------------------------------------------ sync forms as lists of syncRow *)
Definition sync_list (g : cgraph) (e : cexp) (m : cml) (l : list (nat * nat)) : cml :=
  fold_left (fun m p => cml_syncRow g e m (fst p) (snd p)) l m.

Lemma fold_left_map' : forall (X Y Z : Type) (F : X -> Z -> X) (h : Y -> Z) l x,
  fold_left F (map h l) x = fold_left (fun x y => F x (h y)) l x.
Proof. induction l as [|a l IH]; intros x; cbn [map fold_left]; [reflexivity| apply IH]. Qed.

Lemma fold_left_flat_map : forall (X Y Z : Type) (F : X -> Z -> X) (k : Y -> list Z) l x,
  fold_left F (flat_map k l) x = fold_left (fun x y => fold_left F (k y) x) l x.
Proof.
  induction l as [|a l IH]; intros x; cbn [flat_map fold_left]; [reflexivity|].
  rewrite fold_left_app. apply IH.
Qed.

Lemma fold_left_ext_in : forall (X Y : Type) (F G : X -> Y -> X) l x,
  (forall x y, In y l -> F x y = G x y) -> fold_left F l x = fold_left G l x.
Proof.
  induction l as [|a l IH]; intros x H; cbn [fold_left]; [reflexivity|].
  rewrite H by (left; reflexivity). apply IH. intros x' y Hy. apply H; right; exact Hy.
Qed.

Lemma sync_all_is_list : forall g e m, cml_sync_all g e m = sync_list g e m (all_rows g).
Proof.
  intros. unfold cml_sync_all, sync_list, all_rows. rewrite fold_left_flat_map.
  apply fold_left_ext_in. intros x i _. rewrite fold_left_map'. reflexivity.
Qed.
Lemma sync_ids_is_list : forall g e m ids, cml_sync_ids g e m ids = sync_list g e m (id_rows g ids).
Proof. intros. unfold cml_sync_ids, sync_list, id_rows. rewrite fold_left_map'. reflexivity. Qed.
Lemma sync_sa_is_list : forall g e m s a, cml_sync_sa g e m s a = sync_list g e m (sa_rows g s a).
Proof.
  intros. unfold cml_sync_sa, cml_sync_ids, sync_list, sa_rows. rewrite fold_left_map'. cbn [fst snd].
  apply fold_left_ext_in. intros x i Hi. apply in_seq in Hi.
  rewrite (nth_map_seq _ (fun i0 => cg_id g i0 s a) 0%nat _ i) by lia. reflexivity.
Qed.

(* ------------------------------------------------------------------ the invariant *)
Definition crow_ok (g : cgraph) (e : cexp) (m : cml) (i j : nat) : Prop :=
  (0 < etot g e i j)%nat /\
  (forall v, (v < nth i (cgS g) 0)%nat -> CT m i j v == inj (get2 0%nat (r_vis (cnode e i)) j v) / inj (etot g e i j)) /\
  CR m i j == nth j (r_avg (cnode e i)) 0.

Definition cinv (g : cgraph) (e : cexp) (m : cml) (mk : cmark) : Prop :=
  cml_wf g m /\ forall i j, (i < length (cgS g))%nat -> (j < cg_size g i)%nat -> mk i j = true -> crow_ok g e m i j.

Lemma cinv_weaken : forall g e m (mk1 mk2 : cmark),
  (forall i j, (i < length (cgS g))%nat -> (j < cg_size g i)%nat -> mk2 i j = true -> mk1 i j = true) ->
  cinv g e m mk1 -> cinv g e m mk2.
Proof. intros g e m mk1 mk2 H [W P]. split; [exact W|]. intros i j Hi Hj Hm. apply P; auto. Qed.

Lemma cinv_syncRow : forall g e m mk i0 j0, (i0 < length (cgS g))%nat -> (j0 < cg_size g i0)%nat ->
  cinv g e m mk ->
  cinv g e (cml_syncRow g e m i0 j0)
       (fun i j => mk i j || (((i0 =? i)%nat && (j0 =? j)%nat) && (0 <? etot g e i j)%nat)).
Proof.
  intros g e m mk i0 j0 Hi0 Hj0 [W P]. split; [apply syncRow_wf; exact W|].
  intros i j Hi Hj Hm.
  destruct (Nat.eq_dec i0 i) as [<-|Ni]; [destruct (Nat.eq_dec j0 j) as [<-|Nj]|].
  - (* the synced row *)
    assert (Ht : (0 < etot g e i0 j0)%nat).
    { apply orb_true_iff in Hm. destruct Hm as [Hm|Hm].
      - destruct (P i0 j0 Hi Hj Hm) as [T _]; exact T.
      - apply andb_true_iff in Hm. destruct Hm as [_ Hm]. apply Nat.ltb_lt in Hm; exact Hm. }
    destruct (syncRow_row g e m i0 j0 W Hi Hj Ht) as [R1 R2].
    split; [exact Ht|]. split; [exact R1| rewrite R2; reflexivity].
  - assert (Hmk : mk i0 j = true).
    { apply orb_true_iff in Hm. destruct Hm as [Hm|Hm]; [exact Hm|].
      rewrite !andb_true_iff in Hm. destruct Hm as [[_ Hm] _]. apply Nat.eqb_eq in Hm; contradiction. }
    destruct (P i0 j Hi Hj Hmk) as (T & R & Rw). split; [exact T|]. split.
    + intros v Hv. destruct (syncRow_frame g e m i0 j0 i0 j v (or_intror Nj)) as [-> _]. apply R; exact Hv.
    + destruct (syncRow_frame g e m i0 j0 i0 j 0%nat (or_intror Nj)) as [_ ->]. exact Rw.
  - assert (Hmk : mk i j = true).
    { apply orb_true_iff in Hm. destruct Hm as [Hm|Hm]; [exact Hm|].
      rewrite !andb_true_iff in Hm. destruct Hm as [[Hm _] _]. apply Nat.eqb_eq in Hm; contradiction. }
    destruct (P i j Hi Hj Hmk) as (T & R & Rw). split; [exact T|]. split.
    + intros v Hv. destruct (syncRow_frame g e m i0 j0 i j v (or_introl Ni)) as [-> _]. apply R; exact Hv.
    + destruct (syncRow_frame g e m i0 j0 i j 0%nat (or_introl Ni)) as [_ ->]. exact Rw.
Qed.

Lemma cinv_sync_list : forall g e l m mk,
  (forall p, In p l -> (fst p < length (cgS g))%nat /\ (snd p < cg_size g (fst p))%nat) ->
  cinv g e m mk ->
  cinv g e (sync_list g e m l) (fun i j => mk i j || (pair_in i j l && (0 <? etot g e i j)%nat)).
Proof.
  intros g e l. induction l as [|p l IH]; intros m mk Hl H.
  - cbn [sync_list fold_left]. eapply cinv_weaken; [|exact H].
    intros i j _ _ Hm. cbn [pair_in existsb andb] in Hm. rewrite orb_false_r in Hm. exact Hm.
  - unfold sync_list; cbn [fold_left]. fold (sync_list g e (cml_syncRow g e m (fst p) (snd p)) l).
    destruct (Hl p (or_introl eq_refl)) as [Hp1 Hp2].
    pose proof (cinv_syncRow g e m mk (fst p) (snd p) Hp1 Hp2 H) as H1.
    specialize (IH _ _ (fun q Hq => Hl q (or_intror Hq)) H1).
    eapply cinv_weaken; [|exact IH].
    intros i j _ _ Hm. cbv beta. unfold pair_in in *. cbn [existsb] in Hm.
    destruct (mk i j), ((fst p =? i)%nat && (snd p =? j)%nat),
             (existsb (fun p0 : nat * nat => (fst p0 =? i)%nat && (snd p0 =? j)%nat) l), (0 <? etot g e i j)%nat;
      cbn [orb andb] in *; try reflexivity; discriminate.
Qed.

(* ------------------------------------------------------------------ experience side *)
Lemma cnode_record : forall g e s a s1 rw i, (i < length (cgS g))%nat ->
  cnode (cexp_record g e s a s1 rw) i =
  rexp_record (cnode e i) (nth i (cgS g) 0%nat) (cg_id g i s a) (nth i s1 0%nat) (nth i rw 0).
Proof. intros. unfold cnode at 1, cexp_record; cbn [c_nodes]. apply nth_map_seq; assumption. Qed.

Lemma rexp_record_frame : forall x ncol id v r j, j <> id ->
  (forall c, get2 0%nat (r_vis (rexp_record x ncol id v r)) j c = get2 0%nat (r_vis x) j c) /\
  nth j (r_avg (rexp_record x ncol id v r)) 0 = nth j (r_avg x) 0.
Proof.
  intros x ncol id v r j H. unfold rexp_record; cbn [r_vis r_avg]. split.
  - intros c. rewrite !get2_upd2_neq by (left; congruence). reflexivity.
  - apply nth_upd_neq; congruence.
Qed.

Lemma cinv_record : forall g e m mk s a s1 rw, cinv g e m mk ->
  cinv g (cexp_record g e s a s1 rw) m (fun i j => if (j =? cg_id g i s a)%nat then false else mk i j).
Proof.
  intros g e m mk s a s1 rw [W P]. split; [exact W|]. intros i j Hi Hj Hm.
  destruct (j =? cg_id g i s a)%nat eqn:E; [discriminate|]. apply Nat.eqb_neq in E.
  destruct (P i j Hi Hj Hm) as (T & R & Rw).
  destruct (rexp_record_frame (cnode e i) (nth i (cgS g) 0%nat) (cg_id g i s a) (nth i s1 0%nat) (nth i rw 0) j E) as [F1 F2].
  unfold crow_ok, etot in *. rewrite cnode_record by exact Hi. rewrite F1, F2. split; [exact T|]. split; [|exact Rw].
  intros v Hv. rewrite F1. apply R; exact Hv.
Qed.

(* the experience's sum cell is the history's row total *)
Lemma etot_ctot : forall g e h i j, cmirrors g e h -> (i < length (cgS g))%nat -> (j < cg_size g i)%nat ->
  etot g e i j = ctot g h i j.
Proof.
  intros g e h i j (_ & _ & H) Hi Hj. destruct (H i Hi) as (_ & _ & _ & R). destruct (R j Hj) as (_ & RN & _).
  unfold etot, ctot. exact RN.
Qed.

Lemma all_rows_in_range : forall g p, In p (all_rows g) -> (fst p < length (cgS g))%nat /\ (snd p < cg_size g (fst p))%nat.
Proof.
  intros g p H. unfold all_rows in H. apply in_flat_map in H. destruct H as (i & Hi & Hp).
  apply in_map_iff in Hp. destruct Hp as (j & <- & Hj). apply in_seq in Hi; apply in_seq in Hj. cbn [fst snd]. lia.
Qed.

Lemma rows_in_range_of_ok : forall g o, cop2_ok g o = true ->
  forall p, In p (match o with C2SyncAll => all_rows g | C2SyncSA s a => sa_rows g s a | C2SyncIds ids => id_rows g ids | _ => [] end) ->
  (fst p < length (cgS g))%nat /\ (snd p < cg_size g (fst p))%nat.
Proof.
  intros g [o'| |s a|ids] Hok p Hp; [destruct Hp| apply all_rows_in_range; exact Hp| |].
  - unfold sa_rows in Hp. apply in_map_iff in Hp. destruct Hp as (i & <- & Hi). cbn [fst snd].
    cbn [cop2_ok] in Hok. rewrite forallb_forall in Hok. specialize (Hok i Hi). apply Nat.ltb_lt in Hok.
    apply in_seq in Hi. lia.
  - unfold id_rows in Hp. apply in_map_iff in Hp. destruct Hp as (i & <- & Hi). cbn [fst snd].
    cbn [cop2_ok] in Hok. rewrite forallb_forall in Hok. specialize (Hok i Hi). apply Nat.ltb_lt in Hok.
    apply in_seq in Hi. lia.
Qed.

(* one step of the joint run *)
Definition cstate_ok (g : cgraph) (st : cexp * cml) (tk : list crec * cmark) : Prop :=
  cmirrors g (fst st) (fst tk) /\ cinv g (fst st) (snd st) (snd tk).

Lemma sync_step_ok : forall g e m h mk l,
  (forall p, In p l -> (fst p < length (cgS g))%nat /\ (snd p < cg_size g (fst p))%nat) ->
  cmirrors g e h -> cinv g e m mk -> cinv g e (sync_list g e m l) (cmark_sync g h mk l).
Proof.
  intros g e m h mk l Hl Hm Hc. eapply cinv_weaken; [|apply cinv_sync_list; eassumption].
  intros i j Hi Hj H. unfold cmark_sync in H. cbv beta. rewrite (etot_ctot g e h i j Hm Hi Hj). exact H.
Qed.

Lemma cstate_step : forall g st tk o, cop2_ok g o = true -> cstate_ok g st tk ->
  cstate_ok g (cml_step g st o) (ctrk_step g tk o).
Proof.
  intros g [e m] [h mk] o Hok [Hm Hc]. cbn [fst snd] in *.
  pose proof (rows_in_range_of_ok g o Hok) as Hrows.
  destruct o as [[s a s1 rw|]| |s a|ids]; cbn [cml_step ctrk_step fst snd cexp_step].
  - split; cbn [fst snd]; [apply (cmirrors_step g e h (CRecord s a s1 rw)); assumption| apply cinv_record; exact Hc].
  - split; cbn [fst snd]; [apply cmirrors_new|]. destruct Hc as [W _]. split; [exact W|]. intros; discriminate.
  - split; cbn [fst snd]; [exact Hm|]. rewrite sync_all_is_list. apply sync_step_ok; assumption.
  - split; cbn [fst snd]; [exact Hm|]. rewrite sync_sa_is_list. apply sync_step_ok; assumption.
  - split; cbn [fst snd]; [exact Hm|]. rewrite sync_ids_is_list. apply sync_step_ok; assumption.
Qed.

Lemma cexp_after_mirrors : forall g pre, forallb (cop_ok g) pre = true -> cmirrors g (cexp_after g pre) (chist_of pre).
Proof.
  intros g pre Hok. unfold cexp_after, chist_of.
  assert (G : forall ops e h, forallb (cop_ok g) ops = true -> cmirrors g e h ->
              cmirrors g (fold_left (cexp_step g) ops e) (fold_left chist_step ops h)).
  { induction ops as [|o ops IH]; intros e h Hr Hm; cbn [fold_left]; [exact Hm|].
    cbn [forallb] in Hr. apply andb_true_iff in Hr. destruct Hr as [Ho Hr].
    apply IH; [exact Hr| apply cmirrors_step; assumption]. }
  apply G; [exact Hok| apply cmirrors_new].
Qed.

Lemma cstate_ctor : forall g pre flag, forallb (cop_ok g) pre = true ->
  let e0 := cexp_after g pre in let h0 := chist_of pre in
  cstate_ok g (e0, cml_ctor g e0 flag)
            (h0, fun i j => flag && pair_in i j (all_rows g) && (0 <? ctot g h0 i j)%nat).
Proof.
  intros g pre flag Hok. cbn zeta. pose proof (cexp_after_mirrors g pre Hok) as Hm.
  split; cbn [fst snd]; [exact Hm|].
  assert (H0 : cinv g (cexp_after g pre) (cml_new g) (fun _ _ => false))
    by (split; [apply cml_wf_new| intros; discriminate]).
  destruct flag; unfold cml_ctor.
  - rewrite sync_all_is_list.
    eapply cinv_weaken; [|apply (sync_step_ok g _ _ (chist_of pre) _ (all_rows g) (all_rows_in_range g) Hm H0)].
    intros i j _ _ H. unfold cmark_sync. cbn [andb orb] in *. exact H.
  - eapply cinv_weaken; [|exact H0]. intros i j _ _ H. cbn [andb] in H. discriminate.
Qed.

Lemma cstate_run : forall g post st tk, forallb (cop2_ok g) post = true -> cstate_ok g st tk ->
  cstate_ok g (fold_left (cml_step g) post st) (fold_left (ctrk_step g) post tk).
Proof.
  induction post as [|o post IH]; intros st tk Hok H; cbn [fold_left]; [exact H|].
  cbn [forallb] in Hok. apply andb_true_iff in Hok. destruct Hok as [Ho Hok].
  apply IH; [exact Hok| apply cstate_step; assumption].
Qed.

(* coop_ml_is_empirical *)
Lemma coop_ml_is_empirical_lemma : forall g pre flag post,
  forallb (cop_ok g) pre = true -> forallb (cop2_ok g) post = true ->
  let m := snd (crun g pre flag post) in
  let h := fst (ctrack g pre flag post) in let mk := snd (ctrack g pre flag post) in
  forall i j, (i < length (cgS g))%nat -> (j < cg_size g i)%nat -> mk i j = true ->
    (0 < ctot g h i j)%nat /\
    (forall v, (v < nth i (cgS g) 0)%nat -> CT m i j v == cfreq g h i j v) /\
    CR m i j == cmean g h i j.
Proof.
  intros g pre flag post Hpre Hpost. cbn zeta. intros i j Hi Hj Hmk.
  pose proof (cstate_run g post _ _ Hpost (cstate_ctor g pre flag Hpre)) as [Hm [W P]].
  fold (crun g pre flag post) in Hm, W, P. fold (ctrack g pre flag post) in Hm, P.
  destruct (P i j Hi Hj Hmk) as (T & R & Rw).
  pose proof (etot_ctot g _ _ i j Hm Hi Hj) as ET.
  destruct Hm as (_ & _ & HM). destruct (HM i Hi) as (_ & _ & _ & RR). destruct (RR j Hj) as (RV & RN & RA & _).
  rewrite ET in T. split; [exact T|]. split.
  - intros v Hv. rewrite (R v Hv). unfold cfreq. rewrite ET. rewrite (RV v Hv). reflexivity.
  - rewrite Rw. unfold cmean. exact RA.
Qed.

(* the tracker's history is the definitional one *)
Definition cexp_ops (post : list cop2) : list cop :=
  flat_map (fun o => match o with C2Exp o' => [o'] | _ => [] end) post.
Lemma ctrk_fold_hist : forall g post h (mk : cmark),
  fst (fold_left (ctrk_step g) post (h, mk)) = fold_left chist_step (cexp_ops post) h.
Proof.
  intros g. induction post as [|o post IH]; intros h mk; cbn [fold_left cexp_ops flat_map]; [reflexivity|].
  destruct o as [[s a s1 rw|]| |s a|ids]; cbn [ctrk_step app fold_left chist_step]; apply IH.
Qed.
Lemma ctrack_hist : forall g pre flag post, fst (ctrack g pre flag post) = chist_of (pre ++ cexp_ops post).
Proof. intros. unfold ctrack, chist_of. rewrite fold_left_app. apply ctrk_fold_hist. Qed.

(* ------------------------------------------------------------------ rows never hit by a record *)
Definition dflt_cell (v : nat) : Q := if (v =? 0)%nat then 1 else 0.
Definition cunv (g : cgraph) (e : cexp) (m : cml) (i j : nat) : Prop :=
  etot g e i j = 0%nat /\ (forall v, (v < nth i (cgS g) 0)%nat -> CT m i j v = dflt_cell v) /\ CR m i j = 0.

Lemma etot_new : forall g i j, (i < length (cgS g))%nat -> (j < cg_size g i)%nat -> etot g (cexp_new g) i j = 0%nat.
Proof.
  intros g i j Hi Hj. unfold etot, cnode, cexp_new; cbn [c_nodes]. rewrite (nth_map_seq _ _ rexp_dflt _ i Hi).
  unfold rexp_new; cbn [r_vis]. apply get2_mk2; lia.
Qed.

Lemma etot_step_never : forall g e o i j, (i < length (cgS g))%nat -> (j < cg_size g i)%nat ->
  cnever g i j o = true -> etot g e i j = 0%nat -> etot g (cexp_step g e o) i j = 0%nat.
Proof.
  intros g e [s a s1 rw|] i j Hi Hj Hn H; cbn [cexp_step]; [|apply etot_new; assumption].
  cbn [cnever] in Hn. apply negb_true_iff in Hn. apply Nat.eqb_neq in Hn.
  unfold etot in *. rewrite cnode_record by exact Hi.
  destruct (rexp_record_frame (cnode e i) (nth i (cgS g) 0%nat) (cg_id g i s a) (nth i s1 0%nat) (nth i rw 0) j ltac:(congruence)) as [F _].
  rewrite F. exact H.
Qed.

Lemma cunv_sync_list : forall g e l m i j, cunv g e m i j -> cunv g e (sync_list g e m l) i j.
Proof.
  intros g e l. induction l as [|p l IH]; intros m i j H; [exact H|].
  unfold sync_list; cbn [fold_left]. apply IH. destruct H as (Z & R & Rw).
  destruct (Nat.eq_dec (fst p) i) as [E1|N1]; [destruct (Nat.eq_dec (snd p) j) as [E2|N2]|].
  - subst. rewrite syncRow_noop by exact Z. repeat split; assumption.
  - split; [exact Z|]. split.
    + intros v Hv. destruct (syncRow_frame g e m (fst p) (snd p) i j v (or_intror N2)) as [-> _]. apply R; exact Hv.
    + destruct (syncRow_frame g e m (fst p) (snd p) i j 0%nat (or_intror N2)) as [_ ->]. exact Rw.
  - split; [exact Z|]. split.
    + intros v Hv. destruct (syncRow_frame g e m (fst p) (snd p) i j v (or_introl N1)) as [-> _]. apply R; exact Hv.
    + destruct (syncRow_frame g e m (fst p) (snd p) i j 0%nat (or_introl N1)) as [_ ->]. exact Rw.
Qed.

Lemma cunv_new : forall g e i j, (i < length (cgS g))%nat -> (j < cg_size g i)%nat -> etot g e i j = 0%nat ->
  cunv g e (cml_new g) i j.
Proof.
  intros g e i j Hi Hj Z. split; [exact Z|]. split.
  - intros v Hv. unfold CT, cml_new, get3; cbn [cm_tr]. rewrite (nth_map_seq _ _ [] _ i Hi).
    rewrite nth_repeat_lt by exact Hj. rewrite nth_map_seq by exact Hv. reflexivity.
  - unfold CR, cml_new, get2; cbn [cm_rw]. rewrite (nth_map_seq _ _ [] _ i Hi). apply nth_repeat_lt; exact Hj.
Qed.

Lemma coop_unvisited_default_lemma : forall g pre flag post i j,
  (i < length (cgS g))%nat -> (j < cg_size g i)%nat ->
  forallb (cnever g i j) pre = true -> forallb (cnever2 g i j) post = true ->
  let m := snd (crun g pre flag post) in
  (forall v, (v < nth i (cgS g) 0)%nat -> CT m i j v = dflt_cell v) /\ CR m i j = 0.
Proof.
  intros g pre flag post i j Hi Hj Hpre Hpost. cbn zeta.
  assert (Z0 : etot g (cexp_after g pre) i j = 0%nat).
  { unfold cexp_after.
    assert (G : forall ops e, forallb (cnever g i j) ops = true -> etot g e i j = 0%nat ->
                etot g (fold_left (cexp_step g) ops e) i j = 0%nat).
    { induction ops as [|o ops IH]; intros e Hn Z; cbn [fold_left]; [exact Z|].
      cbn [forallb] in Hn. apply andb_true_iff in Hn. destruct Hn as [Ho Hn].
      apply IH; [exact Hn| apply etot_step_never; assumption]. }
    apply G; [exact Hpre| apply etot_new; assumption]. }
  assert (U0 : cunv g (cexp_after g pre) (cml_ctor g (cexp_after g pre) flag) i j).
  { pose proof (cunv_new g (cexp_after g pre) i j Hi Hj Z0) as U. unfold cml_ctor. destruct flag; [|exact U].
    rewrite sync_all_is_list. apply cunv_sync_list; exact U. }
  unfold crun.
  assert (G : forall post st, forallb (cnever2 g i j) post = true -> cunv g (fst st) (snd st) i j ->
              cunv g (fst (fold_left (cml_step g) post st)) (snd (fold_left (cml_step g) post st)) i j).
  { induction post0 as [|o post0 IH]; intros st Hn U; cbn [fold_left]; [exact U|].
    cbn [forallb] in Hn. apply andb_true_iff in Hn. destruct Hn as [Ho Hn]. apply IH; [exact Hn|].
    destruct st as [e m]. cbn [fst snd] in U. destruct U as (Z & R & Rw).
    destruct o as [o'| |s a|ids]; cbn [cml_step fst snd].
    - cbn [cnever2] in Ho. split; [apply etot_step_never; assumption| split; assumption].
    - rewrite sync_all_is_list. apply cunv_sync_list. repeat split; assumption.
    - rewrite sync_sa_is_list. apply cunv_sync_list. repeat split; assumption.
    - rewrite sync_ids_is_list. apply cunv_sync_list. repeat split; assumption. }
  destruct (G post (cexp_after g pre, cml_ctor g (cexp_after g pre) flag) Hpost U0) as (_ & R & Rw). split; assumption.
Qed.
