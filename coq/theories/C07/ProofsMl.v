(* C07/ProofsMl.v — MaximumLikelihoodModel: shape/frame lemmas of the three sync forms, the
   row invariant tracked by Spec.trk, and its preservation by every operation. *)
From Coq Require Import List Arith ZArith QArith Bool Lia Lqa.
From AIT Require Import Base.Qx C07.Model C07.Spec C07.ProofsExp.
Import ListNotations.
Local Open Scope Q_scope.

(* ------------------------------------------------------------------ more table lemmas *)
Lemma nth_map_seq : forall (A : Type) (g : nat -> A) (d : A) n i, (i < n)%nat -> nth i (map g (seq 0 n)) d = g i.
Proof.
  intros A g d n i H. rewrite (nth_indep _ d (g 0%nat)) by (rewrite map_length, seq_length; exact H).
  rewrite (map_nth g). rewrite seq_nth by exact H. reflexivity.
Qed.

Lemma nth_map_lt : forall (A B : Type) (f : A -> B) (dA : A) (dB : B) l i, (i < length l)%nat ->
  nth i (map f l) dB = f (nth i l dA).
Proof.
  intros A B f dA dB l i H. rewrite (nth_indep _ dB (f dA)) by (rewrite map_length; exact H). apply map_nth.
Qed.

Lemma get3_row_upd2_eq : forall (A : Type) (d : A) n m k t a s f i,
  wf3 n m k t -> (a < n)%nat -> (s < m)%nat ->
  get3 d (upd2 a s f t) a s i = nth i (f (nth s (nth a t []) [])) d.
Proof.
  intros A d n m k t a s f i [L R] Ha Hs. unfold get3, upd2.
  rewrite (nth_upd_eq _ _ [] t a) by lia.
  rewrite (nth_upd_eq _ _ [] (nth a t []) s) by (destruct (R a Ha) as [L2 _]; lia). reflexivity.
Qed.

Lemma get3_row_upd2_neq : forall (A : Type) (d : A) t a s a' s' f i,
  (a <> a' \/ s <> s') -> get3 d (upd2 a s f t) a' s' i = get3 d t a' s' i.
Proof.
  intros A d t a s a' s' f i H. unfold get3.
  change (nth s' (nth a' (upd2 a s f t) []) []) with (get2 [] (upd2 a s f t) a' s').
  rewrite get2_upd2_neq by exact H. reflexivity.
Qed.

Lemma wf3_upd2_row : forall (A : Type) n m k (t : list (list (list A))) a s f,
  (forall row, length row = k -> length (f row) = k) -> wf3 n m k t -> wf3 n m k (upd2 a s f t).
Proof.
  intros A n m k t a s f Hf [L R]. unfold upd2. split; [rewrite upd_length; exact L|].
  intros b Hb. destruct (Nat.eq_dec a b) as [->|Ne].
  - rewrite nth_upd_eq by lia. destruct (R b Hb) as [L2 R2]. split; [rewrite upd_length; exact L2|].
    intros j Hj. destruct (Nat.eq_dec s j) as [->|Ne2].
    + rewrite nth_upd_eq by lia. apply Hf. apply R2; exact Hj.
    + rewrite nth_upd_neq by exact Ne2. apply R2; exact Hj.
  - rewrite nth_upd_neq by exact Ne. apply R; exact Hb.
Qed.

Lemma get2_map2 : forall (A B : Type) (f : A -> B) (dA : A) (dB : B) n m (t : list (list A)) i j,
  wf2 n m t -> (i < n)%nat -> (j < m)%nat -> get2 dB (map (map f) t) i j = f (get2 dA t i j).
Proof.
  intros A B f dA dB n m t i j [L R] Hi Hj. unfold get2.
  rewrite (nth_map_lt _ _ (map f) [] [] t i) by lia.
  apply nth_map_lt. rewrite R by exact Hi. exact Hj.
Qed.

Lemma wf2_map2 : forall (A B : Type) (f : A -> B) n m (t : list (list A)), wf2 n m t -> wf2 n m (map (map f) t).
Proof.
  intros A B f n m t [L R]. split; [rewrite map_length; exact L|].
  intros i Hi. rewrite (nth_map_lt _ _ (map f) [] [] t i) by lia. rewrite map_length. apply R; exact Hi.
Qed.

(* ------------------------------------------------------------------ model well-formedness, shapes *)
Definition ml_wf (S A : nat) (m : mlm) : Prop := wf3 A S S (m_tr m) /\ wf2 S A (m_rw m).

(* every sync form either leaves the model alone or rewrites exactly row (a,s) and reward (s,a) *)
Definition touches (S : nat) (m m' : mlm) (s a : nat) : Prop :=
  m' = m \/ exists f g, (forall row, length row = S -> length (f row) = S) /\
                        m' = mkMl (upd2 a s f (m_tr m)) (upd2 s a g (m_rw m)).

Lemma sync2_touches : forall e m s a, touches (eS e) m (ml_sync2 e m s a) s a.
Proof.
  intros e m s a. unfold ml_sync2. destruct (NN e s a =? 0)%nat; [left; reflexivity|].
  right. eexists; eexists. split. 2: reflexivity.
  intros row _. cbv beta. rewrite map_length, seq_length. reflexivity.
Qed.

Lemma sync3_touches : forall e m s a s1, touches (eS e) m (ml_sync3 e m s a s1) s a.
Proof.
  intros e m s a s1. unfold ml_sync3.
  destruct (NN e s a mod resync_period =? 0)%nat; [apply sync2_touches|].
  destruct (NN e s a =? 1)%nat; right; eexists; eexists; (split; [|reflexivity]).
  - intros row H. cbv beta. rewrite !upd_length. exact H.
  - intros row H. cbv beta. rewrite map_length, upd_length. exact H.
Qed.

Lemma touches_wf : forall S A m m' s a, touches S m m' s a -> ml_wf S A m -> ml_wf S A m'.
Proof.
  intros S A m m' s a [->|(f & g & Hf & ->)] [W1 W2]; [split; assumption|].
  split; cbn [m_tr m_rw]; [apply wf3_upd2_row; assumption| apply wf2_upd2; assumption].
Qed.

Lemma touches_frame_T : forall S m m' s a a' s' i, touches S m m' s a -> (a <> a' \/ s <> s') ->
  T m' a' s' i = T m a' s' i.
Proof.
  intros S m m' s a a' s' i [->|(f & g & Hf & ->)] H; [reflexivity|].
  unfold T; cbn [m_tr]. apply get3_row_upd2_neq; exact H.
Qed.

Lemma touches_frame_R : forall S m m' s a s' a', touches S m m' s a -> (s <> s' \/ a <> a') ->
  Rm m' s' a' = Rm m s' a'.
Proof.
  intros S m m' s a s' a' [->|(f & g & Hf & ->)] H; [reflexivity|].
  unfold Rm; cbn [m_rw]. apply get2_upd2_neq; exact H.
Qed.

(* ------------------------------------------------------------------ what the sync forms write *)
Lemma row_is_ext : forall m a s S f g, (forall i, (i < S)%nat -> f i == g i) -> row_is m a s S f -> row_is m a s S g.
Proof.
  intros m a s S f g H R i Hi. destruct (R i Hi) as (q & E & Q). exists q; split; [exact E|].
  rewrite Q. apply H; exact Hi.
Qed.

Lemma row_is_frame : forall m m' a s S f, (forall i, T m' a s i = T m a s i) -> row_is m a s S f -> row_is m' a s S f.
Proof. intros m m' a s S f H R i Hi. rewrite H. apply R; exact Hi. Qed.

Lemma sync2_noop : forall e m s a, NN e s a = 0%nat -> ml_sync2 e m s a = m.
Proof. intros e m s a H. unfold ml_sync2. rewrite H. reflexivity. Qed.

Lemma sync2_row : forall e m s a, ml_wf (eS e) (eA e) m -> (s < eS e)%nat -> (a < eA e)%nat ->
  (0 < NN e s a)%nat ->
  row_is (ml_sync2 e m s a) a s (eS e) (fun i => inj (V e s a i) / inj (NN e s a)) /\
  Rm (ml_sync2 e m s a) s a = Rw e s a.
Proof.
  intros e m s a [W1 W2] Hs Ha Hn. unfold ml_sync2.
  destruct (NN e s a =? 0)%nat eqn:E; [apply Nat.eqb_eq in E; lia|]. split.
  - intros i Hi. unfold T; cbn [m_tr].
    erewrite get3_row_upd2_eq by eauto. rewrite nth_map_seq by exact Hi.
    eexists; split; [reflexivity|]. rewrite Qred_correct.
    assert (0 < inj (NN e s a)) by (apply inj_pos; exact Hn). field. lra.
  - unfold Rm; cbn [m_rw]. erewrite get2_upd2_eq by eauto. reflexivity.
Qed.

Lemma delta_eq : forall i, delta i i = 1.
Proof. intros; unfold delta. rewrite Nat.eqb_refl. reflexivity. Qed.
Lemma delta_neq : forall i j, i <> j -> delta i j = 0.
Proof. intros i j H; unfold delta. destruct (i =? j)%nat eqn:E; [apply Nat.eqb_eq in E; contradiction| reflexivity]. Qed.

Lemma row_length : forall S A m a s, ml_wf S A m -> (a < A)%nat -> (s < S)%nat -> length (nth s (nth a (m_tr m) []) []) = S.
Proof. intros S A m a s [[L R] _] Ha Hs. destruct (R a Ha) as [L2 R2]. apply R2; exact Hs. Qed.

(* first visit: identity row, one record to s1 *)
Lemma sync3_first : forall e m s a s1, ml_wf (eS e) (eA e) m -> (s < eS e)%nat -> (a < eA e)%nat -> (s1 < eS e)%nat ->
  (NN e s a mod resync_period =? 0)%nat = false -> NN e s a = 1%nat ->
  row_is m a s (eS e) (fun i => delta i s) ->
  row_is (ml_sync3 e m s a s1) a s (eS e) (fun i => delta i s1) /\ Rm (ml_sync3 e m s a s1) s a = Rw e s a.
Proof.
  intros e m s a s1 W Hs Ha Hs1 Hmod Hn Hrow. pose proof W as [W1 W2]. unfold ml_sync3. rewrite Hmod, Hn. cbn [Nat.eqb].
  pose proof (row_length _ _ m a s W Ha Hs) as HL.
  split.
  - intros i Hi. unfold T; cbn [m_tr]. erewrite get3_row_upd2_eq by eauto.
    destruct (Nat.eq_dec s1 i) as [->|Ne].
    + rewrite nth_upd_eq by (rewrite upd_length; lia). eexists; split; [reflexivity|]. rewrite delta_eq; reflexivity.
    + rewrite nth_upd_neq by exact Ne. destruct (Nat.eq_dec s i) as [->|Ne2].
      * rewrite nth_upd_eq by lia. eexists; split; [reflexivity|]. rewrite delta_neq by auto. reflexivity.
      * rewrite nth_upd_neq by exact Ne2. destruct (Hrow i Hi) as (q & E & Q). unfold T, get3 in E.
        exists q; split; [exact E|]. rewrite Q. rewrite !delta_neq by auto. reflexivity.
  - unfold Rm; cbn [m_rw]. erewrite get2_upd2_eq by eauto. reflexivity.
Qed.

(* general incremental step: row = (visits - e_{s1}) / (N-1)  ==>  row = visits / N *)
Lemma sync3_incr : forall e m s a s1, ml_wf (eS e) (eA e) m -> (s < eS e)%nat -> (a < eA e)%nat -> (s1 < eS e)%nat ->
  (NN e s a mod resync_period =? 0)%nat = false -> (2 <= NN e s a)%nat ->
  row_is m a s (eS e) (fun i => (inj (V e s a i) - delta i s1) / inj (NN e s a - 1)) ->
  row_is (ml_sync3 e m s a s1) a s (eS e) (fun i => inj (V e s a i) / inj (NN e s a)) /\
  Rm (ml_sync3 e m s a s1) s a = Rw e s a.
Proof.
  intros e m s a s1 W Hs Ha Hs1 Hmod Hn Hrow. pose proof W as [W1 W2]. unfold ml_sync3. rewrite Hmod.
  destruct (NN e s a =? 1)%nat eqn:E1; [apply Nat.eqb_eq in E1; lia|].
  pose proof (row_length _ _ m a s W Ha Hs) as HL.
  assert (Hp : 0 < inj (NN e s a)) by (apply inj_pos; lia).
  assert (Hp1 : inj (NN e s a - 1) == inj (NN e s a) - 1) by (apply inj_pred; lia).
  assert (Hp2 : 0 < inj (NN e s a - 1)) by (apply inj_pos; lia).
  destruct (Hrow s1 Hs1) as (q0 & E0 & Q0). rewrite delta_eq in Q0.
  split.
  - rewrite E0. cbn [xsub xadd xlift2].
    set (ntv := Qred (inj (V e s a s1) / inj (NN e s a - 1))).
    set (nvs := Qred (1 + Qred (ntv - q0))).
    assert (Hnvs : nvs == inj (NN e s a) / inj (NN e s a - 1)).
    { unfold nvs, ntv. rewrite !Qred_correct, Q0. rewrite Hp1 in *. field. lra. }
    assert (Hnz : ~ nvs == 0).
    { rewrite Hnvs. intros Hz. assert (0 < inj (NN e s a) / inj (NN e s a - 1)) by (apply Qlt_shift_div_l; lra). lra. }
    assert (Hb : Qeq_bool nvs 0 = false).
    { destruct (Qeq_bool nvs 0) eqn:Eb; [apply Qeq_bool_iff in Eb; contradiction| reflexivity]. }
    intros i Hi. unfold T; cbn [m_tr]. erewrite get3_row_upd2_eq by eauto.
    rewrite (nth_map_lt _ _ _ XIndet XIndet) by (rewrite upd_length; lia).
    destruct (Nat.eq_dec s1 i) as [->|Ne].
    + rewrite nth_upd_eq by lia. cbn [xdiv xlift2]. rewrite Hb. eexists; split; [reflexivity|].
      rewrite Qred_correct, Hnvs. unfold ntv. rewrite Qred_correct. field. lra.
    + rewrite nth_upd_neq by exact Ne. destruct (Hrow i Hi) as (q & E & Q). unfold T, get3 in E. rewrite E.
      cbn [xdiv xlift2]. rewrite Hb. eexists; split; [reflexivity|].
      rewrite Qred_correct, Hnvs, Q. rewrite delta_neq by auto. field. lra.
  - unfold Rm; cbn [m_rw]. erewrite get2_upd2_eq by eauto. reflexivity.
Qed.

Lemma sync3_resync : forall e m s a s1, (NN e s a mod resync_period =? 0)%nat = true ->
  ml_sync3 e m s a s1 = ml_sync2 e m s a.
Proof. intros e m s a s1 H. unfold ml_sync3. rewrite H. reflexivity. Qed.
