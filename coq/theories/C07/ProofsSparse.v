(* C07/ProofsSparse.v — SparseMaximumLikelihoodModel (Eigen branch, or the repaired non-Eigen branch)
   simulates the (repaired) dense MaximumLikelihoodModel cell by cell: wherever the dense model holds a
   finite cell, the sparse model holds an equal one; rewards differ by at most 1e-6 (checkDifferentSmall).
   The positive theorems about the sparse model are then corollaries of the dense ones. *)
From Coq Require Import List Arith ZArith QArith Bool Lia Lqa.
From AIT Require Import Base.Qx C07.Model C07.Spec C07.ProofsExp C07.ProofsMl C07.ProofsInv C07.ProofsTop.
Import ListNotations.
Local Open Scope Q_scope.

(* ------------------------------------------------------------------ small list facts *)
Lemma upd_ext : forall (A : Type) (f g : A -> A) l i, (forall x, f x = g x) -> upd i f l = upd i g l.
Proof. induction l as [|x l IH]; intros [|i] H; cbn [upd]; auto; f_equal; auto. Qed.

Lemma upd_upd : forall (A : Type) (f g : A -> A) l i, upd i f (upd i g l) = upd i (fun x => f (g x)) l.
Proof. induction l as [|x l IH]; intros [|i]; cbn [upd]; auto; f_equal; auto. Qed.

Lemma upd2_upd3_same : forall (A : Type) (g : list A -> list A) (h : A -> A) t a s s',
  upd2 a s g (upd3 a s s' h t) = upd2 a s (fun row => g (upd s' h row)) t.
Proof.
  intros. unfold upd2, upd3. rewrite upd_upd. apply upd_ext. intros x. apply upd_upd.
Qed.

Lemma nth_combine_seq : forall (A : Type) (d : A) (row : list A) n i, length row = n -> (i < n)%nat ->
  nth i (combine (seq 0 n) row) (0%nat, d) = (i, nth i row d).
Proof.
  intros A d row n i L Hi. rewrite combine_nth by (rewrite seq_length; auto). rewrite seq_nth by exact Hi. reflexivity.
Qed.

Lemma XFin_inj : forall a b, XFin a = XFin b -> a = b.
Proof. intros a b H; congruence. Qed.

(* ------------------------------------------------------------------ reward closeness *)
Definition epsR : Q := 1 # 1000000.
Definition rclose (x y : Q) : Prop := - epsR <= x - y /\ x - y <= epsR.

Lemma rclose_refl_eq : forall x y, x == y -> rclose x y.
Proof. intros x y H; unfold rclose, epsR; rewrite H; split; lra. Qed.

Lemma diff_small_false : forall a b, diff_small a b = false -> rclose a b.
Proof.
  intros a b H. unfold diff_small in H. apply negb_false_iff in H. apply Qle_bool_iff in H.
  unfold qabs' in H. unfold rclose, epsR. destruct (Qle_bool 0 (a - b)) eqn:E.
  - apply Qle_bool_iff in E. split; lra.
  - destruct (Qlt_le_dec (a - b) 0) as [L|L]; [split; lra|].
    apply Qle_bool_iff in L. rewrite L in E. discriminate.
Qed.

(* ------------------------------------------------------------------ sparse model structure *)
Definition sml_wf (S A : nat) (m : sml) : Prop := wf3 A S S (sm_tr m) /\ wf2 S A (sm_rw m).
Definition srow (m : sml) (a s : nat) : list Q := nth s (nth a (sm_tr m) []) [].
Definition drow (m : mlm) (a s : nat) : list xq := nth s (nth a (m_tr m) []) [].

Lemma Ts_srow : forall m a s i, Ts m a s i = nth i (srow m a s) 0.
Proof. reflexivity. Qed.
Lemma T_drow : forall m a s i, T m a s i = nth i (drow m a s) XIndet.
Proof. reflexivity. Qed.

Lemma rw_upd_props : forall e m s a S A, wf2 S A (sm_rw m) -> (s < S)%nat -> (a < A)%nat ->
  wf2 S A (sml_rw_upd e m s a) /\ rclose (get2 0 (sml_rw_upd e m s a) s a) (Rw e s a) /\
  forall s' a', (s <> s' \/ a <> a') -> get2 0 (sml_rw_upd e m s a) s' a' = get2 0 (sm_rw m) s' a'.
Proof.
  intros e m s a S A W Hs Ha. unfold sml_rw_upd. destruct (diff_small (Rs m s a) (Rw e s a)) eqn:E.
  - split; [apply wf2_upd2; exact W|]. split.
    + erewrite get2_upd2_eq by eauto. apply rclose_refl_eq; reflexivity.
    + intros s' a' H. apply get2_upd2_neq; exact H.
  - split; [exact W|]. split; [apply diff_small_false; exact E| reflexivity].
Qed.

(* the row function of sync(s,a) *)
Definition s2row (fx eg : bool) (e : exp) (s a : nat) (row : list Q) : list Q :=
  let n := NN e s a in let rcp := 1 / inj n in
  let row1 := if (n =? 1)%nat then upd s (fun _ => 0) row else row in
  if eg then map (fun s1 => Qred (inj (V e s a s1) * rcp)) (seq 0 (eS e))
  else map (fun p => if (0 <? V e s a (fst p))%nat || (fx && negb (Qeq_bool (snd p) 0))
                     then Qred (inj (V e s a (fst p)) * rcp) else snd p)
           (combine (seq 0 (eS e)) row1).

Lemma sml_sync2_eq : forall fx eg e m s a, NN e s a <> 0%nat ->
  sml_sync2 fx eg e m s a = mkSml (upd2 a s (s2row fx eg e s a) (sm_tr m)) (sml_rw_upd e m s a).
Proof.
  intros fx eg e m s a Hn. unfold sml_sync2, s2row.
  destruct (NN e s a =? 0)%nat eqn:E0; [apply Nat.eqb_eq in E0; contradiction|].
  destruct (NN e s a =? 1)%nat; destruct eg; try reflexivity.
  - rewrite upd2_upd3_same. reflexivity.
  - rewrite upd2_upd3_same. reflexivity.
Qed.

Lemma s2row_len : forall fx eg e s a row, length row = eS e -> length (s2row fx eg e s a row) = eS e.
Proof.
  intros fx eg e s a row L. unfold s2row. destruct eg; rewrite map_length.
  - apply seq_length.
  - rewrite combine_length, seq_length. destruct (NN e s a =? 1)%nat; rewrite ?upd_length, L; apply Nat.min_id.
Qed.

(* ------------------------------------------------------------------ the simulation relation *)
Definition Rel (e : exp) (md : mlm) (ms : sml) : Prop :=
  ml_wf (eS e) (eA e) md /\ sml_wf (eS e) (eA e) ms /\
  (forall a s i, (a < eA e)%nat -> (s < eS e)%nat -> (i < eS e)%nat ->
     forall q, T md a s i = XFin q -> Ts ms a s i == q) /\
  (forall s a, (s < eS e)%nat -> (a < eA e)%nat -> rclose (Rs ms s a) (Rm md s a)).

(* generic step: both models rewrite row (a,s) and the reward (s,a) *)
Lemma rel_row_op : forall e md ms s a (Fd : list xq -> list xq) (Fs : list Q -> list Q),
  Rel e md ms -> (s < eS e)%nat -> (a < eA e)%nat ->
  (forall row, length row = eS e -> length (Fd row) = eS e) ->
  (forall row, length row = eS e -> length (Fs row) = eS e) ->
  (forall i, (i < eS e)%nat -> forall q, nth i (Fd (drow md a s)) XIndet = XFin q -> nth i (Fs (srow ms a s)) 0 == q) ->
  Rel e (mkMl (upd2 a s Fd (m_tr md)) (upd2 s a (fun _ => Rw e s a) (m_rw md)))
        (mkSml (upd2 a s Fs (sm_tr ms)) (sml_rw_upd e ms s a)).
Proof.
  intros e md ms s a Fd Fs (Wd & Ws & HT & HR) Hs Ha LFd LFs Hcell.
  pose proof Wd as [Wd1 Wd2]. pose proof Ws as [Ws1 Ws2].
  destruct (rw_upd_props e ms s a _ _ Ws2 Hs Ha) as (Wrw & Rc & Rf).
  split; [split; cbn [m_tr m_rw]; [apply wf3_upd2_row; assumption| apply wf2_upd2; assumption]|].
  split; [split; cbn [sm_tr sm_rw]; [apply wf3_upd2_row; assumption| exact Wrw]|].
  split.
  - intros a' s' i Ha' Hs' Hi q Hq. unfold T in Hq; cbn [m_tr] in Hq. unfold Ts; cbn [sm_tr].
    destruct (Nat.eq_dec a a') as [<-|Na]; [destruct (Nat.eq_dec s s') as [<-|Ns]|].
    + erewrite get3_row_upd2_eq in Hq by eauto. erewrite get3_row_upd2_eq by eauto. apply Hcell; assumption.
    + rewrite get3_row_upd2_neq in Hq by auto. rewrite get3_row_upd2_neq by auto. apply HT; assumption.
    + rewrite get3_row_upd2_neq in Hq by auto. rewrite get3_row_upd2_neq by auto. apply HT; assumption.
  - intros s' a' Hs' Ha'. unfold Rs, Rm; cbn [sm_rw m_rw].
    destruct (Nat.eq_dec s s') as [<-|Ns]; [destruct (Nat.eq_dec a a') as [<-|Na]|].
    + erewrite (get2_upd2_eq _ 0 _ _ (m_rw md)) by eauto. exact Rc.
    + rewrite Rf by auto. rewrite get2_upd2_neq by auto. apply HR; assumption.
    + rewrite Rf by auto. rewrite get2_upd2_neq by auto. apply HR; assumption.
Qed.

Lemma rel_rows : forall e md ms a s i q, Rel e md ms -> (a < eA e)%nat -> (s < eS e)%nat -> (i < eS e)%nat ->
  nth i (drow md a s) XIndet = XFin q -> nth i (srow ms a s) 0 == q.
Proof. intros e md ms a s i q (_ & _ & HT & _) Ha Hs Hi H. apply (HT a s i Ha Hs Hi q H). Qed.

Lemma rel_row_len : forall e md ms a s, Rel e md ms -> (a < eA e)%nat -> (s < eS e)%nat ->
  length (drow md a s) = eS e /\ length (srow ms a s) = eS e.
Proof.
  intros e md ms a s (Wd & [[L R] _] & _) Ha Hs. split; [apply (row_length _ _ md a s Wd Ha Hs)|].
  destruct (R a Ha) as [L2 R2]. apply R2; exact Hs.
Qed.

(* ------------------------------------------------------------------ sync(s,a) *)
Lemma rel_sync2 : forall fx eg e md ms s a, (fx || eg = true) -> (s < eS e)%nat -> (a < eA e)%nat ->
  Rel e md ms -> Rel e (ml_sync2 e md s a) (sml_sync2 fx eg e ms s a).
Proof.
  intros fx eg e md ms s a Hf Hs Ha H.
  destruct (Nat.eq_dec (NN e s a) 0) as [Z|NZ].
  { rewrite sync2_noop by exact Z. unfold sml_sync2. rewrite Z. exact H. }
  rewrite sml_sync2_eq by exact NZ. unfold ml_sync2.
  destruct (NN e s a =? 0)%nat eqn:E0; [apply Nat.eqb_eq in E0; contradiction|].
  destruct (rel_row_len e md ms a s H Ha Hs) as [Ld Ls].
  apply rel_row_op; auto.
  - intros row _. rewrite map_length, seq_length. reflexivity.
  - intros row L. apply s2row_len; exact L.
  - intros i Hi q Hq. rewrite nth_map_seq in Hq by exact Hi. apply XFin_inj in Hq; subst q.
    unfold s2row. destruct eg.
    + rewrite nth_map_seq by exact Hi. reflexivity.
    + rewrite orb_false_r in Hf. subst fx.
      set (row1 := if (NN e s a =? 1)%nat then upd s (fun _ => 0) (srow ms a s) else srow ms a s).
      assert (L1 : length row1 = eS e) by (unfold row1; destruct (NN e s a =? 1)%nat; rewrite ?upd_length; exact Ls).
      rewrite (nth_map_lt _ _ _ (0%nat, 0) 0) by (rewrite combine_length, seq_length, L1, Nat.min_id; exact Hi).
      rewrite (nth_combine_seq _ 0 row1 (eS e) i L1 Hi). cbn [fst snd andb].
      destruct (0 <? V e s a i)%nat eqn:EV; cbn [orb]; [reflexivity|].
      destruct (Qeq_bool (nth i row1 0) 0) eqn:EQ; cbn [negb]; [|reflexivity].
      apply Qeq_bool_iff in EQ. apply Nat.ltb_ge in EV. assert (V e s a i = 0)%nat by lia.
      rewrite H0. apply (Qeq_trans _ 0); [exact EQ|]. rewrite Qred_correct. change (inj 0) with 0. lra.
Qed.

(* ------------------------------------------------------------------ sync(s,a,s1) *)
Lemma xdiv_nonfin_r : forall x y q, (y = XIndet \/ y = XNonFin) -> xdiv x y <> XFin q.
Proof. intros x y q [->| ->]; destruct x; cbn; discriminate. Qed.

Lemma rel_sync3 : forall fx eg e md ms s a s1, (fx || eg = true) ->
  (s < eS e)%nat -> (a < eA e)%nat -> (s1 < eS e)%nat ->
  Rel e md ms -> Rel e (ml_sync3 e md s a s1) (sml_sync3 fx eg e ms s a s1).
Proof.
  intros fx eg e md ms s a s1 Hf Hs Ha Hs1 H. unfold ml_sync3, sml_sync3.
  destruct (NN e s a mod resync_period =? 0)%nat; [apply rel_sync2; assumption|].
  destruct (rel_row_len e md ms a s H Ha Hs) as [Ld Ls].
  destruct (NN e s a =? 1)%nat.
  - (* first visit *)
    apply rel_row_op; auto.
    + intros row L. rewrite !upd_length. exact L.
    + intros row L. rewrite !upd_length. exact L.
    + intros i Hi q Hq. destruct (Nat.eq_dec s1 i) as [->|Ne].
      * rewrite nth_upd_eq in Hq by (rewrite upd_length; lia). apply XFin_inj in Hq; subst q.
        rewrite nth_upd_eq by (rewrite upd_length; lia). reflexivity.
      * rewrite nth_upd_neq in Hq by exact Ne. rewrite nth_upd_neq by exact Ne.
        destruct (Nat.eq_dec s i) as [->|Ne2].
        -- rewrite nth_upd_eq in Hq by lia. apply XFin_inj in Hq; subst q. rewrite nth_upd_eq by lia. reflexivity.
        -- rewrite nth_upd_neq in Hq by exact Ne2. rewrite nth_upd_neq by exact Ne2.
           apply (rel_rows e md ms a s i q H); assumption.
  - (* renormalisation *)
    apply rel_row_op; auto.
    + intros row L. rewrite map_length, upd_length. exact L.
    + intros row L. rewrite map_length, upd_length. exact L.
    + intros i Hi q Hq.
      rewrite (nth_map_lt _ _ _ XIndet XIndet) in Hq by (rewrite upd_length; lia).
      rewrite (nth_map_lt _ _ _ 0 0) by (rewrite upd_length; lia).
      rewrite T_drow in Hq. rewrite Ts_srow.
      destruct (nth s1 (drow md a s) XIndet) as [q0| |] eqn:E0.
      2: { exfalso. revert Hq. apply xdiv_nonfin_r. left. destruct (Qred (inj (V e s a s1) / inj (NN e s a - 1))); reflexivity. }
      2: { exfalso. revert Hq. apply xdiv_nonfin_r. right. reflexivity. }
      pose proof (rel_rows e md ms a s s1 q0 H Ha Hs Hs1 E0) as Hq0.
      set (ntv := Qred (inj (V e s a s1) / inj (NN e s a - 1))) in *.
      cbn [xsub xadd xlift2] in Hq.
      set (nd := Qred (1 + Qred (ntv - q0))) in *.
      assert (Hn : Qred (1 + (ntv - nth s1 (srow ms a s) 0)) == nd).
      { unfold nd. rewrite !Qred_correct, Hq0. reflexivity. }
      (* the dense cell being divided *)
      assert (Hc : forall c, nth i (upd s1 (fun _ => XFin ntv) (drow md a s)) XIndet = XFin c ->
                   nth i (upd s1 (fun _ => ntv) (srow ms a s)) 0 == c).
      { intros c Hcq. destruct (Nat.eq_dec s1 i) as [->|Ne].
        - rewrite nth_upd_eq in Hcq by lia. apply XFin_inj in Hcq; subst c. rewrite nth_upd_eq by lia. reflexivity.
        - rewrite nth_upd_neq in Hcq by exact Ne. rewrite nth_upd_neq by exact Ne.
          apply (rel_rows e md ms a s i c H); assumption. }
      destruct (nth i (upd s1 (fun _ => XFin ntv) (drow md a s)) XIndet) as [c| |] eqn:Ec;
        cbn [xdiv xlift2] in Hq; try discriminate.
      destruct (Qeq_bool nd 0); [discriminate|]. apply XFin_inj in Hq; subst q.
      rewrite Hn. rewrite !Qred_correct. rewrite (Hc c eq_refl). reflexivity.
Qed.

(* ------------------------------------------------------------------ sync() *)
Definition jsstep (fx eg : bool) (e : exp) (p : mlm * sml) (a s : nat) : mlm * sml :=
  (ml_sync2 e (fst p) s a, sml_sync2 fx eg e (snd p) s a).

Lemma joint_ssync_all : forall fx eg e md ms,
  nfold (jsstep fx eg e) (seq 0 (eA e)) (seq 0 (eS e)) (md, ms) = (ml_sync_all e md, sml_sync_all fx eg e ms).
Proof.
  intros. unfold jsstep.
  rewrite (nfold_pair mlm sml (fun m a s => ml_sync2 e m s a) (fun m a s => sml_sync2 fx eg e m s a)). reflexivity.
Qed.

Lemma rel_sync_all : forall fx eg e md ms, (fx || eg = true) -> Rel e md ms ->
  Rel e (ml_sync_all e md) (sml_sync_all fx eg e ms).
Proof.
  intros fx eg e md ms Hf H.
  pose proof (nfold_preserve (jsstep fx eg e) (seq 0 (eA e)) (seq 0 (eS e)) (fun p => Rel e (fst p) (snd p))) as L.
  specialize (L ltac:(intros p a s Ha Hs Hp; apply in_seq in Ha; apply in_seq in Hs; unfold jsstep; cbn [fst snd];
                      apply rel_sync2; [exact Hf|lia|lia|exact Hp]) (md, ms) H).
  rewrite joint_ssync_all in L. exact L.
Qed.

(* ------------------------------------------------------------------ constructor *)
Definition sdstep (e : exp) (m : sml) (a s : nat) : sml :=
  if (NN e s a =? 0)%nat then mkSml (upd3 a s s (fun _ => 1) (sm_tr m)) (sm_rw m) else m.

Lemma sctor_sync_shape : forall fx eg e,
  sml_ctor fx eg e true =
  nfold (sdstep e) (seq 0 (eA e)) (seq 0 (eS e))
        (sml_sync_all fx eg e (mkSml (mk3 (eA e) (eS e) (eS e) 0) (mk2 (eS e) (eA e) 0))).
Proof. reflexivity. Qed.

Lemma rel_dstep : forall e md ms a s, (a < eA e)%nat -> (s < eS e)%nat -> Rel e md ms ->
  Rel e (dstep e md a s) (sdstep e ms a s).
Proof.
  intros e md ms a s Ha Hs (Wd & Ws & HT & HR). unfold dstep, sdstep.
  destruct (NN e s a =? 0)%nat; [|split; [exact Wd| split; [exact Ws| split; assumption]]].
  pose proof Wd as [Wd1 Wd2]. pose proof Ws as [Ws1 Ws2].
  split; [split; cbn [m_tr m_rw]; [apply wf3_upd3; assumption| assumption]|].
  split; [split; cbn [sm_tr sm_rw]; [apply wf3_upd3; assumption| assumption]|].
  split; [|exact HR].
  intros a' s' i Ha' Hs' Hi q Hq. unfold T in Hq; cbn [m_tr] in Hq. unfold Ts; cbn [sm_tr].
  destruct (Nat.eq_dec a a') as [<-|Na]; [destruct (Nat.eq_dec s s') as [<-|Ns]; [destruct (Nat.eq_dec s i) as [<-|Ni]|]|].
  - erewrite get3_upd3_eq in Hq by eauto. apply XFin_inj in Hq; subst q. erewrite get3_upd3_eq by eauto. reflexivity.
  - rewrite get3_upd3_neq in Hq by auto. rewrite get3_upd3_neq by auto. apply HT; assumption.
  - rewrite get3_upd3_neq in Hq by auto. rewrite get3_upd3_neq by auto. apply HT; assumption.
  - rewrite get3_upd3_neq in Hq by auto. rewrite get3_upd3_neq by auto. apply HT; assumption.
Qed.

Lemma identQ_rows_T : forall S A a s i, (a < A)%nat -> (s < S)%nat -> (i < S)%nat ->
  get3 0 (repeat (map (fun s0 => ident_rowQ S s0) (seq 0 S)) A) a s i = if (i =? s)%nat then 1 else 0.
Proof.
  intros S A a s i Ha Hs Hi. unfold get3. rewrite nth_repeat_lt by exact Ha.
  rewrite nth_map_seq by exact Hs. unfold ident_rowQ. rewrite nth_map_seq by exact Hi. reflexivity.
Qed.
Lemma identQ_rows_wf : forall S A, wf3 A S S (repeat (map (fun s0 => ident_rowQ S s0) (seq 0 S)) A).
Proof.
  intros S A. split; [apply repeat_length|]. intros a Ha. rewrite nth_repeat_lt by exact Ha.
  split; [rewrite map_length, seq_length; reflexivity|]. intros s Hs.
  rewrite nth_map_seq by exact Hs. unfold ident_rowQ. rewrite map_length, seq_length. reflexivity.
Qed.

Lemma rclose_00 : rclose 0 0.
Proof. apply rclose_refl_eq; reflexivity. Qed.

Lemma rel_ctor : forall fx eg e flag, (fx || eg = true) ->
  Rel e (ml_ctor true e flag) (sml_ctor fx eg e flag).
Proof.
  intros fx eg e flag Hf. destruct flag.
  - rewrite ctor_sync_shape, sctor_sync_shape.
    set (mzd := mkMl (mk3 (eA e) (eS e) (eS e) (XFin 0)) (mk2 (eS e) (eA e) 0)).
    set (mzs := mkSml (mk3 (eA e) (eS e) (eS e) 0) (mk2 (eS e) (eA e) 0)).
    assert (Hz : Rel e mzd mzs).
    { split; [apply mz_wf|]. split; [split; cbn [sm_tr sm_rw]; [apply wf3_mk3| apply wf2_mk2]|]. split.
      - intros a s i Ha Hs Hi q Hq. unfold T, mzd in Hq; cbn [m_tr] in Hq. rewrite get3_mk3 in Hq by assumption.
        apply XFin_inj in Hq; subst q. unfold Ts, mzs; cbn [sm_tr]. rewrite get3_mk3 by assumption. reflexivity.
      - intros s a Hs Ha. unfold Rs, Rm, mzd, mzs; cbn [sm_rw m_rw]. rewrite !get2_mk2 by assumption. apply rclose_00. }
    pose proof (rel_sync_all fx eg e mzd mzs Hf Hz) as H1.
    pose proof (nfold_preserve (fun p a s => (dstep e (fst p) a s, sdstep e (snd p) a s)) (seq 0 (eA e)) (seq 0 (eS e))
                  (fun p => Rel e (fst p) (snd p))) as L.
    specialize (L ltac:(intros p a s Ha Hs Hp; apply in_seq in Ha; apply in_seq in Hs; cbn [fst snd];
                        apply rel_dstep; [lia|lia|exact Hp]) (ml_sync_all e mzd, sml_sync_all fx eg e mzs) H1).
    rewrite (nfold_pair mlm sml (dstep e) (sdstep e)) in L. exact L.
  - unfold ml_ctor, sml_ctor.
    split; [split; cbn [m_tr m_rw]; [apply ident_rows_wf| apply wf2_mk2]|].
    split; [split; cbn [sm_tr sm_rw]; [apply identQ_rows_wf| apply wf2_mk2]|]. split.
    + intros a s i Ha Hs Hi q Hq. unfold T in Hq; cbn [m_tr] in Hq. rewrite ident_rows_T in Hq by assumption.
      unfold Ts; cbn [sm_tr]. rewrite identQ_rows_T by assumption.
      destruct (i =? s)%nat; apply XFin_inj in Hq; subst q; reflexivity.
    + intros s a Hs Ha. unfold Rs, Rm; cbn [sm_rw m_rw]. rewrite !get2_mk2 by assumption. apply rclose_00.
Qed.

(* ------------------------------------------------------------------ whole runs *)
Lemma rel_dims : forall e e' md ms, eS e' = eS e -> eA e' = eA e -> Rel e md ms -> Rel e' md ms.
Proof. intros e e' md ms ES EA H. unfold Rel in *. rewrite ES, EA. exact H. Qed.

Lemma rel_step : forall fx eg e md ms o, (fx || eg = true) -> op_in_range (eS e) (eA e) o = true ->
  Rel e md ms ->
  Rel (exp_step e o) (ml_step (exp_step e o) md o) (sml_step fx eg (exp_step e o) ms o).
Proof.
  intros fx eg e md ms o Hf Hr H. destruct (exp_step_dims e o) as [ES EA].
  pose proof (rel_dims e (exp_step e o) md ms ES EA H) as H'.
  destruct o as [s a s1 r| | |s a|s a s1]; cbn [ml_step sml_step]; cbn [op_in_range] in Hr;
    rewrite ?andb_true_iff, ?Nat.ltb_lt in Hr; try exact H'.
  - apply rel_sync_all; assumption.
  - cbn [exp_step] in *. destruct Hr as [Hs Ha]. apply rel_sync2; assumption.
  - cbn [exp_step] in *. destruct Hr as [[Hs Ha] Hs1]. apply rel_sync3; assumption.
Qed.

Lemma rel_run_fold : forall fx eg post e md ms, (fx || eg = true) -> ops_in_range (eS e) (eA e) post = true ->
  Rel e md ms ->
  let sd := fold_left step post (e, md) in let ss := fold_left (sstep fx eg) post (e, ms) in
  fst sd = fst ss /\ Rel (fst sd) (snd sd) (snd ss) /\ eS (fst sd) = eS e /\ eA (fst sd) = eA e.
Proof.
  intros fx eg. induction post as [|o post IH]; intros e md ms Hf Hr H; cbn [fold_left]; [cbn; auto|].
  cbn [ops_in_range forallb] in Hr. apply andb_true_iff in Hr. destruct Hr as [Ho Hr].
  destruct (exp_step_dims e o) as [ES EA].
  unfold step at 2, sstep at 2; cbn [fst snd].
  specialize (IH (exp_step e o) (ml_step (exp_step e o) md o) (sml_step fx eg (exp_step e o) ms o) Hf).
  rewrite ES, EA in IH. apply IH; [exact Hr| apply rel_step; assumption].
Qed.

(* sparse_simulates_dense *)
Lemma sparse_simulates_dense_lemma : forall fx eg S A pre flag post, (fx || eg = true) ->
  ops_in_range S A pre = true -> ops_in_range S A post = true ->
  let md := snd (run true S A pre flag post) in let ms := snd (srun fx eg S A pre flag post) in
  (forall a s i, (a < A)%nat -> (s < S)%nat -> (i < S)%nat -> forall q, T md a s i = XFin q -> Ts ms a s i == q) /\
  (forall s a, (s < S)%nat -> (a < A)%nat -> rclose (Rs ms s a) (Rm md s a)).
Proof.
  intros fx eg S A pre flag post Hf Hpre Hpost. cbn zeta. unfold run, srun.
  destruct (exp_after_dims S A pre) as [ES EA].
  pose proof (rel_ctor fx eg (exp_after S A pre) flag Hf) as H0.
  destruct (rel_run_fold fx eg post _ _ _ Hf ltac:(rewrite ES, EA; exact Hpost) H0) as (_ & (_ & _ & HT & HR) & E1 & E2).
  rewrite E1, E2, ES, EA in HT, HR. split; assumption.
Qed.

(* ------------------------------------------------------------------ corollaries *)
Definition srow_is (m : sml) (a s S : nat) (f : nat -> Q) : Prop := forall i, (i < S)%nat -> Ts m a s i == f i.

Lemma srow_of_row : forall md ms a s S f,
  (forall i, (i < S)%nat -> forall q, T md a s i = XFin q -> Ts ms a s i == q) ->
  row_is md a s S f -> srow_is ms a s S f.
Proof. intros md ms a s S f H R i Hi. destruct (R i Hi) as (q & E & Q). rewrite (H i Hi q E). exact Q. Qed.

Lemma rclose_trans_eq : forall x y z, rclose x y -> y == z -> rclose x z.
Proof. intros x y z [A B] E. unfold rclose in *. rewrite <- E. split; assumption. Qed.

Lemma sparse_ml_model_is_empirical_lemma : forall fx eg S A pre flag post, (fx || eg = true) ->
  ops_in_range S A pre = true -> ops_in_range S A post = true ->
  let m := snd (srun fx eg S A pre flag post) in
  let h := hist_of (pre ++ post) in
  forall s a, (s < S)%nat -> (a < A)%nat -> tSt (track S A pre flag post) s a = RSynced ->
    (0 < countsum h s a)%nat /\ srow_is m a s S (fun i => freq h s a i) /\
    rclose (Rs m s a) (mean (rewards_of h s a)).
Proof.
  intros fx eg S A pre flag post Hf Hpre Hpost. cbn zeta. intros s a Hs Ha Hst.
  destruct (sparse_simulates_dense_lemma fx eg S A pre flag post Hf Hpre Hpost) as [HT HR].
  destruct (ml_model_is_empirical_lemma true S A pre flag post eq_refl Hpre Hpost s a Hs Ha Hst) as (C & R & Rw).
  split; [exact C|]. split.
  - eapply srow_of_row; [|exact R]. intros i Hi q Hq. apply (HT a s i Ha Hs Hi q Hq).
  - eapply rclose_trans_eq; [apply HR; assumption| exact Rw].
Qed.

Lemma sparse_incremental_sync_lemma : forall fx eg S A pre flag post s a s1, (fx || eg = true) ->
  ops_in_range S A pre = true -> ops_in_range S A post = true -> (s < S)%nat -> (a < A)%nat -> (s1 < S)%nat ->
  precond_ok S A pre flag (post ++ [OSync3 s a s1]) = true ->
  let m := snd (srun fx eg S A pre flag (post ++ [OSync3 s a s1])) in
  let h := hist_of (pre ++ post) in
  (0 < countsum h s a)%nat ->
  srow_is m a s S (fun i => freq h s a i) /\ rclose (Rs m s a) (mean (rewards_of h s a)).
Proof.
  intros fx eg S A pre flag post s a s1 Hf Hpre Hpost Hs Ha Hs1 Hok. cbn zeta. intros Hc.
  assert (Hpost' : ops_in_range S A (post ++ [OSync3 s a s1]) = true).
  { apply ops_in_range_snoc; [exact Hpost|]. unfold op_in_range. rewrite !ltb_true by assumption. reflexivity. }
  destruct (sparse_simulates_dense_lemma fx eg S A pre flag (post ++ [OSync3 s a s1]) Hf Hpre Hpost') as [HT HR].
  destruct (incremental_sync_lemma true S A pre flag post s a s1 eq_refl Hpre Hpost Hs Ha Hs1 Hok Hc) as [R Rw].
  split.
  - eapply srow_of_row; [|exact R]. intros i Hi q Hq. apply (HT a s i Ha Hs Hi q Hq).
  - eapply rclose_trans_eq; [apply HR; assumption| exact Rw].
Qed.

Lemma sparse_full_sync_lemma : forall fx eg S A pre flag post s a, (fx || eg = true) ->
  ops_in_range S A pre = true -> ops_in_range S A post = true -> (s < S)%nat -> (a < A)%nat ->
  let m := snd (srun fx eg S A pre flag (post ++ [OSync2 s a])) in
  let h := hist_of (pre ++ post) in
  (0 < countsum h s a)%nat ->
  srow_is m a s S (fun i => freq h s a i) /\ rclose (Rs m s a) (mean (rewards_of h s a)).
Proof.
  intros fx eg S A pre flag post s a Hf Hpre Hpost Hs Ha. cbn zeta. intros Hc.
  assert (Hpost' : ops_in_range S A (post ++ [OSync2 s a]) = true).
  { apply ops_in_range_snoc; [exact Hpost|]. unfold op_in_range. rewrite !ltb_true by assumption. reflexivity. }
  destruct (sparse_simulates_dense_lemma fx eg S A pre flag (post ++ [OSync2 s a]) Hf Hpre Hpost') as [HT HR].
  destruct (full_sync2_lemma true S A pre flag post s a eq_refl Hpre Hpost Hs Ha Hc) as [R Rw].
  split.
  - eapply srow_of_row; [|exact R]. intros i Hi q Hq. apply (HT a s i Ha Hs Hi q Hq).
  - eapply rclose_trans_eq; [apply HR; assumption| exact Rw].
Qed.

(* ------------------------------------------------------------------ never-visited pairs: reward exactly 0 *)
Lemma sml_sync2_noop : forall fx eg e m s a, NN e s a = 0%nat -> sml_sync2 fx eg e m s a = m.
Proof. intros. unfold sml_sync2. rewrite H. reflexivity. Qed.

Lemma Rs_rw_upd_other : forall e m s a s' a', (s <> s' \/ a <> a') ->
  get2 0 (sml_rw_upd e m s a) s' a' = Rs m s' a'.
Proof.
  intros e m s a s' a' H. unfold sml_rw_upd, Rs. destruct (diff_small _ _); [apply get2_upd2_neq; exact H| reflexivity].
Qed.

Lemma Rs_sync2_other : forall fx eg e m s a s' a', (NN e s' a' = 0%nat) ->
  Rs (sml_sync2 fx eg e m s a) s' a' = Rs m s' a'.
Proof.
  intros fx eg e m s a s' a' Hz. destruct (Nat.eq_dec (NN e s a) 0) as [Z|NZ]; [rewrite sml_sync2_noop by exact Z; reflexivity|].
  rewrite sml_sync2_eq by exact NZ. unfold Rs at 1; cbn [sm_rw]. apply Rs_rw_upd_other.
  destruct (Nat.eq_dec s s'); [destruct (Nat.eq_dec a a'); [subst; contradiction|auto]|auto].
Qed.

Lemma Rs_step_unvisited : forall fx eg e m o s a, NN e s a = 0%nat ->
  Rs (sml_step fx eg e m o) s a = Rs m s a.
Proof.
  intros fx eg e m o s a Hz. destruct o as [s' a' s1 r| | |s' a'|s' a' s1]; cbn [sml_step]; try reflexivity.
  - unfold sml_sync_all.
    apply (nfold_preserve (fun m a s => sml_sync2 fx eg e m s a) (seq 0 (eA e)) (seq 0 (eS e)) (fun m' => Rs m' s a = Rs m s a)); [|reflexivity].
    intros x a0 s0 _ _ Hx. rewrite Rs_sync2_other by exact Hz. exact Hx.
  - apply Rs_sync2_other; exact Hz.
  - unfold sml_sync3. destruct (NN e s' a' mod resync_period =? 0)%nat eqn:Em; [apply Rs_sync2_other; exact Hz|].
    assert (Hne : s' <> s \/ a' <> a).
    { destruct (Nat.eq_dec s' s) as [->|]; [|auto]. destruct (Nat.eq_dec a' a) as [->|]; [|auto].
      exfalso. rewrite Hz, zero_mod_period in Em. discriminate. }
    destruct (NN e s' a' =? 1)%nat; unfold Rs at 1; cbn [sm_rw]; apply Rs_rw_upd_other; exact Hne.
Qed.

Lemma Rs_ctor : forall fx eg e flag s a, (s < eS e)%nat -> (a < eA e)%nat -> NN e s a = 0%nat ->
  Rs (sml_ctor fx eg e flag) s a = 0.
Proof.
  intros fx eg e flag s a Hs Ha Hz. destruct flag.
  - rewrite sctor_sync_shape.
    set (mz := mkSml (mk3 (eA e) (eS e) (eS e) 0) (mk2 (eS e) (eA e) 0)).
    assert (H1 : Rs (sml_sync_all fx eg e mz) s a = 0).
    { pose proof (Rs_step_unvisited fx eg e mz OSyncAll s a Hz) as E. cbn [sml_step] in E. rewrite E.
      unfold Rs, mz; cbn [sm_rw]. apply get2_mk2; assumption. }
    apply (nfold_preserve (sdstep e) _ _ (fun m' => Rs m' s a = 0)); [|exact H1].
    intros x a0 s0 _ _ Hx. unfold sdstep. destruct (NN e s0 a0 =? 0)%nat; exact Hx.
  - unfold sml_ctor, Rs; cbn [sm_rw]. apply get2_mk2; assumption.
Qed.

Lemma sparse_unvisited_default_lemma : forall fx eg S A pre flag post s a, (fx || eg = true) ->
  ops_in_range S A pre = true -> ops_in_range S A post = true -> (s < S)%nat -> (a < A)%nat ->
  never_visited (pre ++ post) s a = true ->
  let m := snd (srun fx eg S A pre flag post) in
  srow_is m a s S (fun i => delta i s) /\ Rs m s a = 0.
Proof.
  intros fx eg S A pre flag post s a Hf Hpre Hpost Hs Ha Hnv. cbn zeta.
  destruct (sparse_simulates_dense_lemma fx eg S A pre flag post Hf Hpre Hpost) as [HT _].
  destruct (unvisited_default_lemma true S A pre flag post s a eq_refl Hpre Hpost Hs Ha Hnv) as [R _].
  split; [eapply srow_of_row; [|exact R]; intros i Hi q Hq; apply (HT a s i Ha Hs Hi q Hq)|].
  (* reward: the sparse model never touches it *)
  rewrite never_visited_app in Hnv. apply andb_true_iff in Hnv. destruct Hnv as [Hn1 Hn2].
  destruct (exp_after_dims S A pre) as [ES EA].
  destruct (welford_exact_lemma S A pre Hpre) as [_ HW]. destruct (HW s a Hs Ha) as (_ & WN & _).
  rewrite (never_visited_count pre s a Hn1) in WN.
  unfold srun.
  assert (G : forall post e m, ops_in_range (eS e) (eA e) post = true -> (s < eS e)%nat -> (a < eA e)%nat ->
              never_visited post s a = true -> NN e s a = 0%nat -> Rs m s a = 0 ->
              Rs (snd (fold_left (sstep fx eg) post (e, m))) s a = 0).
  { induction post0 as [|o post0 IH]; intros e m Hr Hs' Ha' Hn Hz H0; cbn [fold_left]; [exact H0|].
    cbn [ops_in_range forallb] in Hr. apply andb_true_iff in Hr. destruct Hr as [Ho Hr].
    unfold never_visited in Hn. cbn [existsb] in Hn. rewrite negb_orb in Hn. apply andb_true_iff in Hn.
    destruct Hn as [Hv Hn]. apply negb_true_iff in Hv.
    destruct (exp_step_dims e o) as [ES' EA']. unfold sstep at 2; cbn [fst snd].
    assert (Hz' : NN (exp_step e o) s a = 0%nat).
    { destruct o as [s' a' s1 r| | | |]; cbn [exp_step]; try exact Hz.
      - cbn [visits_pair] in Hv. apply andb_false_iff in Hv. rewrite !Nat.eqb_neq in Hv.
        rewrite NN_record_neq by (destruct Hv; auto). exact Hz.
      - unfold exp_reset. destruct (new_accessors (eS e) (eA e) s a Hs' Ha') as (N0 & _). exact N0. }
    apply IH; rewrite ?ES', ?EA'; auto.
    rewrite Rs_step_unvisited by exact Hz'. exact H0. }
  apply G; rewrite ?ES, ?EA; auto. apply Rs_ctor; rewrite ?ES, ?EA; assumption.
Qed.
