(* C07/Model.v — executable model of MDP::Experience (and, value-for-value, SparseExperience),
   MDP::MaximumLikelihoodModel<E> (dense, Eigen and non-Eigen branches coincide on values),
   MDP::SparseMaximumLikelihoodModel<E> (Eigen branch and non-Eigen branch), Bandit::Experience
   and the Thompson normalisation step.  No proofs in this file.

   Numbers are exact rationals; every stored rational is Qred-normalised (value-preserving).
   Tables are nested lists: visits [a][s][s1], 2-D tables [s][a].  An access outside the table
   (which the C++ performs unchecked => UB) reads a default and writes nothing; every theorem
   assumes indices in range. *)
From Coq Require Import List Arith ZArith QArith Bool.
Import ListNotations.
Local Open Scope Q_scope.

(* ------------------------------------------------------------------ table helpers *)
Fixpoint upd {A : Type} (i : nat) (f : A -> A) (l : list A) : list A :=
  match l, i with
  | [], _ => []
  | x :: t, O => f x :: t
  | x :: t, S j => x :: upd j f t
  end.
Definition upd2 {A : Type} (i j : nat) (f : A -> A) (t : list (list A)) : list (list A) :=
  upd i (upd j f) t.
Definition upd3 {A : Type} (i j k : nat) (f : A -> A) (t : list (list (list A))) :=
  upd i (upd j (upd k f)) t.
Definition get2 {A : Type} (d : A) (t : list (list A)) (i j : nat) : A := nth j (nth i t []) d.
Definition get3 {A : Type} (d : A) (t : list (list (list A))) (i j k : nat) : A :=
  nth k (nth j (nth i t []) []) d.
Definition mk2 {A : Type} (n m : nat) (x : A) : list (list A) := repeat (repeat x m) n.
Definition mk3 {A : Type} (n m k : nat) (x : A) : list (list (list A)) := repeat (mk2 m k x) n.

Definition inj (n : nat) : Q := inject_Z (Z.of_nat n).

(* ------------------------------------------------------------------ MDP::Experience *)
Record exp := mkExp {
  eS : nat; eA : nat;
  e_vis : list (list (list nat));   (* visits_[a](s,s1) *)
  e_sum : list (list nat);          (* visitsSum_(s,a)  *)
  e_rew : list (list Q);            (* rewards_(s,a)    *)
  e_m2  : list (list Q);            (* M2s_(s,a)        *)
  e_ts  : nat }.                    (* timesteps_       *)

Definition V (e : exp) (s a s1 : nat) : nat := get3 0%nat (e_vis e) a s s1.   (* src: Experience::getVisits *)
Definition NN (e : exp) (s a : nat) : nat := get2 0%nat (e_sum e) s a.        (* src: Experience::getVisitsSum *)
Definition Rw (e : exp) (s a : nat) : Q := get2 0 (e_rew e) s a.              (* src: Experience::getReward *)
Definition M2 (e : exp) (s a : nat) : Q := get2 0 (e_m2 e) s a.               (* src: Experience::getM2 *)

(* src: src/MDP/Experience.cpp:Experience::Experience (constructor calls reset()) *)
Definition exp_new (S A : nat) : exp :=
  mkExp S A (mk3 A S S 0%nat) (mk2 S A 0%nat) (mk2 S A 0) (mk2 S A 0) 0.

(* src: src/MDP/Experience.cpp:Experience::reset  (= SparseExperience::reset) *)
Definition exp_reset (e : exp) : exp := exp_new (eS e) (eA e).

(* src: src/MDP/Experience.cpp:Experience::record  (= SparseExperience::record)
     ++timesteps_; visits_[a](s,s1) += 1; visitsSum_(s,a) += 1;
     delta = rew - rewards_(s,a); rewards_(s,a) += delta / visitsSum_(s,a);
     M2s_(s,a) += delta * (rew - rewards_(s,a));                                   *)
Definition exp_record (e : exp) (s a s1 : nat) (r : Q) : exp :=
  let n' := S (NN e s a) in
  let mu := Rw e s a in
  let delta := r - mu in
  let mu' := Qred (mu + delta / inj n') in
  mkExp (eS e) (eA e)
        (upd3 a s s1 S (e_vis e))
        (upd2 s a S (e_sum e))
        (upd2 s a (fun _ => mu') (e_rew e))
        (upd2 s a (fun x => Qred (x + delta * (r - mu'))) (e_m2 e))
        (S (e_ts e)).

Fixpoint nsum (l : list nat) : nat := match l with [] => O | x :: t => (x + nsum t)%nat end.

(* src: src/MDP/Experience.cpp:Experience::setVisitsTable
     visits_ = v; visitsSum_(s,a) = visits_[a].row(s).sum()  (rewards, M2, timesteps untouched) *)
Definition exp_setVisits (e : exp) (v : list (list (list nat))) : exp :=
  mkExp (eS e) (eA e) v
        (map (fun s => map (fun a => nsum (nth s (nth a v []) [])) (seq 0 (eA e))) (seq 0 (eS e)))
        (e_rew e) (e_m2 e) (e_ts e).

(* ------------------------------------------------------------------ extended cells *)
(* XIndet : storage the C++ never wrote (Eigen does not zero-fill);  XNonFin : x/0 (inf or nan),
   never produced when the documented precondition of the incremental sync holds. *)
Inductive xq := XFin (q : Q) | XIndet | XNonFin.

Definition xlift2 (f : Q -> Q -> xq) (x y : xq) : xq :=
  match x, y with
  | XIndet, _ | _, XIndet => XIndet
  | XNonFin, _ | _, XNonFin => XNonFin
  | XFin a, XFin b => f a b
  end.
Definition xadd := xlift2 (fun a b => XFin (Qred (a + b))).
Definition xsub := xlift2 (fun a b => XFin (Qred (a - b))).
Definition xdiv := xlift2 (fun a b => if Qeq_bool b 0 then XNonFin else XFin (Qred (a / b))).

(* ------------------------------------------------------------------ MaximumLikelihoodModel *)
Record mlm := mkMl {
  m_tr : list (list (list xq));     (* transitions_[a](s,s1) *)
  m_rw : list (list Q) }.           (* rewards_(s,a) — always setZero()'d by the constructor *)

Definition T (m : mlm) (a s s1 : nat) : xq := get3 XIndet (m_tr m) a s s1.   (* src: getTransitionProbability *)
Definition Rm (m : mlm) (s a : nat) : Q := get2 0 (m_rw m) s a.               (* src: getExpectedReward *)
Definition Trow (m : mlm) (a s : nat) : list xq := nth s (nth a (m_tr m) []) [].

(* src: MaximumLikelihoodModel.hpp:sync(s,a)
     if visitSum == 0 return; rewards_(s,a) = exp.getReward(s,a);
     row(s) of transitions_[a] = visits row * (1.0 / visitSum)    (both constexpr branches) *)
Definition ml_sync2 (e : exp) (m : mlm) (s a : nat) : mlm :=
  let n := NN e s a in
  if (n =? 0)%nat then m else
  let rcp := 1 / inj n in
  mkMl (upd2 a s (fun _ => map (fun s1 => XFin (Qred (inj (V e s a s1) * rcp))) (seq 0 (eS e))) (m_tr m))
       (upd2 s a (fun _ => Rw e s a) (m_rw m)).

(* src: MaximumLikelihoodModel.hpp:sync()   for a: for s: sync(s,a) *)
Definition ml_sync_all (e : exp) (m : mlm) : mlm :=
  fold_left (fun m a => fold_left (fun m s => ml_sync2 e m s a) (seq 0 (eS e)) m) (seq 0 (eA e)) m.

Definition resync_period : nat := 100 * 100.   (* the literal 10000ul *)

(* src: MaximumLikelihoodModel.hpp:sync(s,a,s1)
     if (!(visitSum % 10000ul)) return sync(s,a);
     rewards_(s,a) = exp.getReward(s,a);
     if (visitSum == 1) { T(s,s) = 0; T(s,s1) = 1; }
     else { ntv = visits(s,a,s1) / (visitSum-1); nvs = 1.0 + (ntv - T(s,s1));
            T(s,s1) = ntv; row(s) /= nvs; }                                         *)
Definition ml_sync3 (e : exp) (m : mlm) (s a s1 : nat) : mlm :=
  let n := NN e s a in
  if (n mod resync_period =? 0)%nat then ml_sync2 e m s a else
  let rw' := upd2 s a (fun _ => Rw e s a) (m_rw m) in
  if (n =? 1)%nat then
    mkMl (upd2 a s (fun row => upd s1 (fun _ => XFin 1) (upd s (fun _ => XFin 0) row)) (m_tr m)) rw'
  else
    let ntv := XFin (Qred (inj (V e s a s1) / inj (n - 1))) in
    let nvs := xadd (XFin 1) (xsub ntv (T m a s s1)) in
    mkMl (upd2 a s (fun row => map (fun x => xdiv x nvs) (upd s1 (fun _ => ntv) row)) (m_tr m)) rw'.

Definition ident_row (S s : nat) : list xq :=
  map (fun i => if (i =? s)%nat then XFin 1 else XFin 0) (seq 0 S).

(* src: MaximumLikelihoodModel.hpp:MaximumLikelihoodModel(exp, discount, toSync)
     transitions_(A, Matrix2D(S,S)) — NOT initialised;  rewards_.setZero();
     toSync: sync(); then T[a](s,s) = 1 for every pair with visitSum == 0   (other cells of those
             rows are never written: XIndet)
     else  : every transitions_[a].setIdentity().
   [fixed] = true models the repaired constructor (fixes/C07-mlmodel-uninit.patch), which zero-fills
   the matrices before sync(). *)
Definition ml_ctor (fixed : bool) (e : exp) (toSync : bool) : mlm :=
  let S := eS e in let A := eA e in
  let rw0 := mk2 S A 0 in
  if toSync then
    let init := if fixed then XFin 0 else XIndet in
    let m1 := ml_sync_all e (mkMl (mk3 A S S init) rw0) in
    fold_left (fun m a => fold_left (fun m s =>
        if (NN e s a =? 0)%nat then mkMl (upd3 a s s (fun _ => XFin 1) (m_tr m)) (m_rw m) else m)
      (seq 0 S) m) (seq 0 A) m1
  else
    mkMl (repeat (map (fun s => ident_row S s) (seq 0 S)) A) rw0.

(* ------------------------------------------------------------------ operation sequences *)
Inductive op :=
| ORecord (s a s1 : nat) (r : Q)
| OReset
| OSyncAll
| OSync2 (s a : nat)
| OSync3 (s a s1 : nat).

Definition exp_step (e : exp) (o : op) : exp :=
  match o with
  | ORecord s a s1 r => exp_record e s a s1 r
  | OReset => exp_reset e
  | _ => e
  end.

(* the model only reads the experience (const reference): its ops act on the current experience *)
Definition ml_step (e : exp) (m : mlm) (o : op) : mlm :=
  match o with
  | OSyncAll => ml_sync_all e m
  | OSync2 s a => ml_sync2 e m s a
  | OSync3 s a s1 => ml_sync3 e m s a s1
  | _ => m
  end.

Definition step (st : exp * mlm) (o : op) : exp * mlm :=
  let e' := exp_step (fst st) o in (e', ml_step e' (snd st) o).

Definition exp_after (S A : nat) (ops : list op) : exp := fold_left exp_step ops (exp_new S A).

(* experience built by [pre]; model constructed then (flag toSync); then [post] *)
Definition run (fixed : bool) (S A : nat) (pre : list op) (toSync : bool) (post : list op) : exp * mlm :=
  let e0 := exp_after S A pre in
  fold_left step post (e0, ml_ctor fixed e0 toSync).

(* ------------------------------------------------------------------ SparseMaximumLikelihoodModel *)
(* Sparse matrices have no uninitialised cells: an absent entry reads 0.  Cells are plain Q.
   Rewards are only overwritten when they differ by more than 1e-6 (checkDifferentSmall). *)
Record sml := mkSml { sm_tr : list (list (list Q)); sm_rw : list (list Q) }.
Definition Ts (m : sml) (a s s1 : nat) : Q := get3 0 (sm_tr m) a s s1.
Definition Rs (m : sml) (s a : nat) : Q := get2 0 (sm_rw m) s a.

Definition qabs' (x : Q) : Q := if Qle_bool 0 x then x else - x.
(* src: Utils/Core.hpp:checkDifferentSmall  |a-b| > 1e-6 *)
Definition diff_small (a b : Q) : bool := negb (Qle_bool (qabs' (a - b)) (1 # 1000000)).

Definition sml_rw_upd (e : exp) (m : sml) (s a : nat) : list (list Q) :=
  if diff_small (Rs m s a) (Rw e s a) then upd2 s a (fun _ => Rw e s a) (sm_rw m) else sm_rw m.

(* src: SparseMaximumLikelihoodModel.hpp:sync(s,a); [eigen] selects the constexpr branch.
     if visitSum == 1: T(s,s) = 0;
     eigen    : whole row assigned visits * (1/visitSum)
     non-eigen: only cells with visits > 0 are written (others keep their old value: a stale
                identity entry, or stale values from before a reset, survive).
   [fixed] = true models the repaired non-Eigen loop (fixes/C07-sparse-noneigen-stale.patch):
     a cell is also overwritten when its stored value is non-zero. *)
Definition sml_sync2 (fixed eigen : bool) (e : exp) (m : sml) (s a : nat) : sml :=
  let n := NN e s a in
  if (n =? 0)%nat then m else
  let rw' := sml_rw_upd e m s a in
  let tr1 := if (n =? 1)%nat then upd3 a s s (fun _ => 0) (sm_tr m) else sm_tr m in
  let rcp := 1 / inj n in
  if eigen then
    mkSml (upd2 a s (fun _ => map (fun s1 => Qred (inj (V e s a s1) * rcp)) (seq 0 (eS e))) tr1) rw'
  else
    mkSml (upd2 a s (fun row => map (fun p => if (0 <? V e s a (fst p))%nat || (fixed && negb (Qeq_bool (snd p) 0))
                                            then Qred (inj (V e s a (fst p)) * rcp) else snd p)
                                   (combine (seq 0 (eS e)) row)) tr1) rw'.

Definition sml_sync_all (fixed eigen : bool) (e : exp) (m : sml) : sml :=
  fold_left (fun m a => fold_left (fun m s => sml_sync2 fixed eigen e m s a) (seq 0 (eS e)) m) (seq 0 (eA e)) m.

(* src: SparseMaximumLikelihoodModel.hpp:sync(s,a,s1) *)
Definition sml_sync3 (fixed eigen : bool) (e : exp) (m : sml) (s a s1 : nat) : sml :=
  let n := NN e s a in
  if (n mod resync_period =? 0)%nat then sml_sync2 fixed eigen e m s a else
  let rw' := sml_rw_upd e m s a in
  if (n =? 1)%nat then
    mkSml (upd2 a s (fun row => upd s1 (fun _ => 1) (upd s (fun _ => 0) row)) (sm_tr m)) rw'
  else
    let ntv := Qred (inj (V e s a s1) / inj (n - 1)) in
    let nvs := Qred (1 + (ntv - Ts m a s s1)) in
    mkSml (upd2 a s (fun row => map (fun x => Qred (x / nvs)) (upd s1 (fun _ => ntv) row)) (sm_tr m)) rw'.

Definition ident_rowQ (S s : nat) : list Q := map (fun i => if (i =? s)%nat then 1 else 0) (seq 0 S).

(* src: SparseMaximumLikelihoodModel.hpp:constructor *)
Definition sml_ctor (fixed eigen : bool) (e : exp) (toSync : bool) : sml :=
  let S := eS e in let A := eA e in
  let rw0 := mk2 S A 0 in
  if toSync then
    let m1 := sml_sync_all fixed eigen e (mkSml (mk3 A S S 0) rw0) in
    fold_left (fun m a => fold_left (fun m s =>
        if (NN e s a =? 0)%nat then mkSml (upd3 a s s (fun _ => 1) (sm_tr m)) (sm_rw m) else m)
      (seq 0 S) m) (seq 0 A) m1
  else
    mkSml (repeat (map (fun s => ident_rowQ S s) (seq 0 S)) A) rw0.

Definition sml_step (fixed eigen : bool) (e : exp) (m : sml) (o : op) : sml :=
  match o with
  | OSyncAll => sml_sync_all fixed eigen e m
  | OSync2 s a => sml_sync2 fixed eigen e m s a
  | OSync3 s a s1 => sml_sync3 fixed eigen e m s a s1
  | _ => m
  end.

(* whole runs with a SparseMaximumLikelihoodModel (same shape as [run]) *)
Definition sstep (fixed eigen : bool) (st : exp * sml) (o : op) : exp * sml :=
  let e' := exp_step (fst st) o in (e', sml_step fixed eigen e' (snd st) o).
Definition srun (fixed eigen : bool) (S A : nat) (pre : list op) (toSync : bool) (post : list op) : exp * sml :=
  let e0 := exp_after S A pre in
  fold_left (sstep fixed eigen) post (e0, sml_ctor fixed eigen e0 toSync).

(* ------------------------------------------------------------------ Bandit::Experience *)
(* src: src/Bandit/Experience.cpp:record
     ++timesteps_; ++get<visits>(q_[a]); delta = rew - q_[a].avg; avg += delta / visits;
     M2 += delta * (rew - avg)                                                          *)
Record bexp := mkBexp { b_vis : list nat; b_avg : list Q; b_m2 : list Q; b_ts : nat }.
Definition bexp_new (A : nat) : bexp := mkBexp (repeat 0%nat A) (repeat 0 A) (repeat 0 A) 0.
Definition bexp_record (b : bexp) (a : nat) (r : Q) : bexp :=
  let n' := S (nth a (b_vis b) 0%nat) in
  let mu := nth a (b_avg b) 0 in
  let delta := r - mu in
  let mu' := Qred (mu + delta / inj n') in
  mkBexp (upd a S (b_vis b)) (upd a (fun _ => mu') (b_avg b))
         (upd a (fun x => Qred (x + delta * (r - mu'))) (b_m2 b)) (S (b_ts b)).
Definition bexp_reset (b : bexp) : bexp := bexp_new (length (b_vis b)).
Inductive bop := BRecord (a : nat) (r : Q) | BReset.
Definition bexp_step (b : bexp) (o : bop) : bexp :=
  match o with BRecord a r => bexp_record b a r | BReset => bexp_reset b end.
Definition bexp_after (A : nat) (ops : list bop) : bexp := fold_left bexp_step ops (bexp_new A).

(* ------------------------------------------------------------------ Thompson normalisation *)
(* src: ThompsonModel.hpp:sync(s,a) — the Dirichlet draw is gamma draws g_i (one per s1, shape
   visits+prior) divided by their sum (sampleDirichletDistribution); the draws are inputs. *)
Definition qsum' (l : list Q) : Q := fold_right Qplus 0 l.
Definition thompson_row (g : list Q) : list Q := let z := qsum' g in map (fun x => x / z) g.

(* ------------------------------------------------------------------ Factored: CooperativeExperience *)
(* One node per state feature i; its tables have one row per (action-id, parent-id) pair of the DDN
   graph: row = graph.getId(i, s, a).  Per row: visits per next value of the feature (columns
   0..S[i]-1) plus their sum (column S[i]), running mean and M2 of the feature's reward. *)
Record rexp := mkRexp { r_vis : list (list nat); r_avg : list Q; r_m2 : list Q }.
Definition rexp_new (rows ncol : nat) : rexp := mkRexp (mk2 rows (S ncol) 0%nat) (repeat 0 rows) (repeat 0 rows).

(* src: src/Factored/MDP/CooperativeExperience.cpp:record, body of the loop over features
     vNode(id, s1[i]) += 1; vNode(id, S[i]) += 1; delta = rew[i] - rNode(id);
     rNode(id) += delta / vNode(id, S[i]); mNode(id) += delta * (rew[i] - rNode(id));   *)
Definition rexp_record (x : rexp) (ncol id v : nat) (r : Q) : rexp :=
  let vis' := upd2 id ncol S (upd2 id v S (r_vis x)) in
  let n' := get2 0%nat vis' id ncol in
  let mu := nth id (r_avg x) 0 in
  let delta := r - mu in
  let mu' := Qred (mu + delta / inj n') in
  mkRexp vis' (upd id (fun _ => mu') (r_avg x)) (upd id (fun y => Qred (y + delta * (r - mu'))) (r_m2 x)).

(* the DDN graph: per feature (agents tag, one parent-feature tag per joint action of those agents) *)
Record cgraph := mkCG { cgS : list nat; cgA : list nat; cgPar : list (list nat * list (list nat)) }.

(* src: Factored/Utils/Core.cpp:toIndexPartial(ids, space, f): first key least significant
   (closed form of the result/multiplier loop) *)
Fixpoint pidx (keys space f : list nat) : nat :=
  match keys with [] => 0%nat | k :: t => (nth k f 0 + nth k space 0 * pidx t space f)%nat end.
(* src: Core.cpp:factorSpacePartial *)
Fixpoint pspace (keys space : list nat) : nat :=
  match keys with [] => 1%nat | k :: t => (nth k space 0 * pspace t space)%nat end.
(* src: BayesianNetwork.cpp:DDNGraph::push — startIds_[feature][actionId] = sum of the partial spaces before it *)
Fixpoint cg_start (fsets : list (list nat)) (space : list nat) (aid : nat) : nat :=
  match aid, fsets with
  | S k, f :: t => (pspace f space + cg_start t space k)%nat
  | _, _ => 0%nat
  end.
(* src: BayesianNetwork.cpp:DDNGraph::getId(feature, s, a) = startIds_[feature][actionId] + parentId *)
Definition cg_id (g : cgraph) (i : nat) (s a : list nat) : nat :=
  let '(agents, fsets) := nth i (cgPar g) ([], []) in
  let aid := pidx agents (cgA g) a in
  (cg_start fsets (cgS g) aid + pidx (nth aid fsets []) (cgS g) s)%nat.
(* src: DDNGraph::getSize *)
Definition cg_size (g : cgraph) (i : nat) : nat :=
  let '(agents, fsets) := nth i (cgPar g) ([], []) in cg_start fsets (cgS g) (length fsets).

Record cexp := mkCexp { c_nodes : list rexp; c_ts : nat }.
Definition rexp_dflt : rexp := mkRexp [] [] [].
Definition cnode (e : cexp) (i : nat) : rexp := nth i (c_nodes e) rexp_dflt.

(* src: CooperativeExperience.cpp:constructor / reset (reset zeroes rewards_, M2s_, visits_, timesteps_) *)
Definition cexp_new (g : cgraph) : cexp :=
  mkCexp (map (fun i => rexp_new (cg_size g i) (nth i (cgS g) 0%nat)) (seq 0 (length (cgS g)))) 0.
Definition cexp_reset (g : cgraph) (e : cexp) : cexp := cexp_new g.

(* src: CooperativeExperience.cpp:record *)
Definition cexp_record (g : cgraph) (e : cexp) (s a s1 : list nat) (rews : list Q) : cexp :=
  mkCexp (map (fun i => rexp_record (cnode e i) (nth i (cgS g) 0%nat) (cg_id g i s a) (nth i s1 0%nat) (nth i rews 0))
              (seq 0 (length (cgS g))))
         (S (c_ts e)).

Inductive cop := CRecord (s a s1 : list nat) (rews : list Q) | CReset.
Definition cexp_step (g : cgraph) (e : cexp) (o : cop) : cexp :=
  match o with CRecord s a s1 rews => cexp_record g e s a s1 rews | CReset => cexp_reset g e end.
Definition cexp_after (g : cgraph) (ops : list cop) : cexp := fold_left (cexp_step g) ops (cexp_new g).

(* ------------------------------------------------------------------ CooperativeMaximumLikelihoodModel *)
Record cml := mkCml { cm_tr : list (list (list Q)); cm_rw : list (list Q) }.   (* [feature][row][value], [feature][row] *)
(* src: CooperativeMaximumLikelihoodModel.cpp:constructor — setZero(); col(0).fill(1.0); rewards 0 *)
Definition cml_new (g : cgraph) : cml :=
  mkCml (map (fun i => repeat (map (fun v => if (v =? 0)%nat then 1 else 0) (seq 0 (nth i (cgS g) 0%nat))) (cg_size g i))
             (seq 0 (length (cgS g))))
        (map (fun i => repeat 0 (cg_size g i)) (seq 0 (length (cgS g)))).
(* src: syncRow(i, j): totalVisits = vtable[i](j, S[i]); if 0 return;
        row j = visits row head(S[i]) / totalVisits; rewards_[i][j] = rmatrix[i][j] *)
Definition cml_syncRow (g : cgraph) (e : cexp) (m : cml) (i j : nat) : cml :=
  let ncol := nth i (cgS g) 0%nat in
  let x := cnode e i in
  let tot := get2 0%nat (r_vis x) j ncol in
  if (tot =? 0)%nat then m else
  mkCml (upd2 i j (fun _ => map (fun v => Qred (inj (get2 0%nat (r_vis x) j v) / inj tot)) (seq 0 ncol)) (cm_tr m))
        (upd2 i j (fun _ => nth j (r_avg x) 0) (cm_rw m)).
(* src: sync() *)
Definition cml_sync_all (g : cgraph) (e : cexp) (m : cml) : cml :=
  fold_left (fun m i => fold_left (fun m j => cml_syncRow g e m i j) (seq 0 (cg_size g i)) m) (seq 0 (length (cgS g))) m.
(* src: sync(indeces) and sync(s, a) (indeces[i] = graph.getId(i, s, a)) *)
Definition cml_sync_ids (g : cgraph) (e : cexp) (m : cml) (ids : list nat) : cml :=
  fold_left (fun m i => cml_syncRow g e m i (nth i ids 0%nat)) (seq 0 (length (cgS g))) m.
Definition cml_sync_sa (g : cgraph) (e : cexp) (m : cml) (s a : list nat) : cml :=
  cml_sync_ids g e m (map (fun i => cg_id g i s a) (seq 0 (length (cgS g)))).
Definition cml_ctor (g : cgraph) (e : cexp) (toSync : bool) : cml :=
  if toSync then cml_sync_all g e (cml_new g) else cml_new g.

(* op sequences over a cooperative experience and one CooperativeMaximumLikelihoodModel *)
Inductive cop2 :=
| C2Exp (o : cop)                      (* record / reset on the experience *)
| C2SyncAll                            (* model.sync() *)
| C2SyncSA (s a : list nat)            (* model.sync(s, a) *)
| C2SyncIds (ids : list nat).          (* model.sync(indeces) *)
Definition cml_step (g : cgraph) (st : cexp * cml) (o : cop2) : cexp * cml :=
  match o with
  | C2Exp o' => (cexp_step g (fst st) o', snd st)
  | C2SyncAll => (fst st, cml_sync_all g (fst st) (snd st))
  | C2SyncSA s a => (fst st, cml_sync_sa g (fst st) (snd st) s a)
  | C2SyncIds ids => (fst st, cml_sync_ids g (fst st) (snd st) ids)
  end.
(* experience built by [pre]; model constructed then (flag toSync); then [post] *)
Definition crun (g : cgraph) (pre : list cop) (toSync : bool) (post : list cop2) : cexp * cml :=
  let e0 := cexp_after g pre in fold_left (cml_step g) post (e0, cml_ctor g e0 toSync).
Definition CT (m : cml) (i j v : nat) : Q := get3 0 (cm_tr m) i j v.
Definition CR (m : cml) (i j : nat) : Q := get2 0 (cm_rw m) i j.

(* ------------------------------------------------------------------ Factored::Bandit::Experience *)
(* One local bandit table per dependency group; the arm of group i is toIndexPartial(deps[i], A, a). *)
Record fbexp := mkFb { fb_nodes : list bexp; fb_ts : nat }.
Definition fbnode (e : fbexp) (i : nat) : bexp := nth i (fb_nodes e) (bexp_new 0).
(* src: src/Factored/Bandit/Experience.cpp:constructor / reset *)
Definition fbexp_new (A : list nat) (deps : list (list nat)) : fbexp :=
  mkFb (map (fun d => bexp_new (pspace d A)) deps) 0.
(* src: src/Factored/Bandit/Experience.cpp:record — per group: ++c[aId]; delta; q += delta/c; M2 += delta*(r-q) *)
Definition fbexp_record (A : list nat) (deps : list (list nat)) (e : fbexp) (a : list nat) (rews : list Q) : fbexp :=
  mkFb (map (fun i => bexp_record (fbnode e i) (pidx (nth i deps []) A a) (nth i rews 0)) (seq 0 (length deps)))
       (S (fb_ts e)).
Inductive fbop := FRecord (a : list nat) (rews : list Q) | FReset.
Definition fbexp_step (A : list nat) (deps : list (list nat)) (e : fbexp) (o : fbop) : fbexp :=
  match o with FRecord a rews => fbexp_record A deps e a rews | FReset => fbexp_new A deps end.
Definition fbexp_after (A : list nat) (deps : list (list nat)) (ops : list fbop) : fbexp :=
  fold_left (fbexp_step A deps) ops (fbexp_new A deps).
