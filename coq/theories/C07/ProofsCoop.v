(* C07/ProofsCoop.v — CooperativeExperience: every node row mirrors the part of the history that
   maps to it (Welford algebra reused from ProofsExp.v). *)
From Coq Require Import List Arith ZArith QArith Bool Lia Lqa.
From AIT Require Import Base.Qx C07.Model C07.Spec C07.ProofsExp C07.ProofsMl C07.ProofsExtra.
Import ListNotations.
Local Open Scope Q_scope.

Definition rmirrors (rows ncol : nat) (x : rexp) (h : list rrec) : Prop :=
  wf2 rows (S ncol) (r_vis x) /\ length (r_avg x) = rows /\ length (r_m2 x) = rows /\
  forall id, (id < rows)%nat ->
    (forall v, (v < ncol)%nat -> get2 0%nat (r_vis x) id v = row_count h id v) /\
    get2 0%nat (r_vis x) id ncol = length (row_rewards h id) /\
    nth id (r_avg x) 0 == mean (row_rewards h id) /\
    nth id (r_m2 x) 0 == m2 (row_rewards h id).

Lemma rmirrors_new : forall rows ncol, rmirrors rows ncol (rexp_new rows ncol) [].
Proof.
  intros rows ncol. unfold rmirrors, rexp_new; cbn [r_vis r_avg r_m2]. rewrite !repeat_length.
  split; [apply wf2_mk2|]. split; [reflexivity|]. split; [reflexivity|].
  intros id Hid. rewrite !nth_repeat_lt by exact Hid. split; [|split; [|split]].
  - intros v Hv. rewrite get2_mk2 by lia. reflexivity.
  - rewrite get2_mk2 by lia. reflexivity.
  - reflexivity.
  - reflexivity.
Qed.

Lemma row_rewards_snoc : forall h id x, row_rewards (h ++ [x]) id =
  if (fst (fst x) =? id)%nat then row_rewards h id ++ [snd x] else row_rewards h id.
Proof.
  intros; unfold row_rewards. rewrite filter_app. cbn [filter].
  destruct (fst (fst x) =? id)%nat; [rewrite map_app; reflexivity| rewrite app_nil_r; reflexivity].
Qed.
Lemma row_count_snoc : forall h id v x, row_count (h ++ [x]) id v =
  if ((fst (fst x) =? id)%nat && (snd (fst x) =? v)%nat) then S (row_count h id v) else row_count h id v.
Proof.
  intros; unfold row_count. rewrite filter_app. cbn [filter].
  destruct ((fst (fst x) =? id)%nat && (snd (fst x) =? v)%nat); [rewrite app_length; cbn [length]; rewrite Nat.add_1_r; reflexivity| rewrite app_nil_r; reflexivity].
Qed.

Lemma rmirrors_record : forall rows ncol x h id v r, (id < rows)%nat -> (v < ncol)%nat ->
  rmirrors rows ncol x h -> rmirrors rows ncol (rexp_record x ncol id v r) (h ++ [(id, v, r)]).
Proof.
  intros rows ncol x h id v r Hid Hv (W & L1 & L2 & H).
  assert (W1 : wf2 rows (S ncol) (upd2 id v S (r_vis x))) by (apply wf2_upd2; exact W).
  assert (EN : get2 0%nat (upd2 id ncol S (upd2 id v S (r_vis x))) id ncol = S (get2 0%nat (r_vis x) id ncol)).
  { erewrite get2_upd2_eq by (eauto; lia). rewrite get2_upd2_neq by (right; lia). reflexivity. }
  unfold rmirrors, rexp_record; cbn [r_vis r_avg r_m2]. rewrite !upd_length.
  split; [apply wf2_upd2; exact W1|]. split; [exact L1|]. split; [exact L2|].
  intros id' Hid'. rewrite row_rewards_snoc. cbn [fst snd].
  destruct (H id' Hid') as (HV & HN & HR & HM).
  destruct (id =? id')%nat eqn:E.
  - apply Nat.eqb_eq in E; subst id'. rewrite EN. rewrite !nth_upd_eq by lia. rewrite app_length; cbn [length].
    assert (HR' : Qred (nth id (r_avg x) 0 + (r - nth id (r_avg x) 0) / inj (S (get2 0%nat (r_vis x) id ncol))) == mean (row_rewards h id ++ [r])).
    { rewrite Qred_correct, mean_snoc, HN, HR. reflexivity. }
    split; [|split; [lia| split; [exact HR'|]]].
    + intros v' Hv'. rewrite row_count_snoc. cbn [fst snd]. rewrite Nat.eqb_refl. cbn [andb].
      rewrite get2_upd2_neq by (right; lia).
      destruct (v =? v')%nat eqn:E2.
      * apply Nat.eqb_eq in E2; subst v'. erewrite get2_upd2_eq by (eauto; lia). rewrite HV by exact Hv. reflexivity.
      * apply Nat.eqb_neq in E2. rewrite get2_upd2_neq by (right; exact E2). apply HV; exact Hv'.
    + rewrite Qred_correct, m2_snoc, HM, HR', HR. reflexivity.
  - apply Nat.eqb_neq in E. rewrite !nth_upd_neq by exact E.
    split; [|split; [|split; assumption]].
    + intros v' Hv'. rewrite row_count_snoc. cbn [fst snd]. rewrite (proj2 (Nat.eqb_neq id id') E). cbn [andb].
      rewrite !get2_upd2_neq by (left; exact E). apply HV; exact Hv'.
    + rewrite !get2_upd2_neq by (left; exact E). exact HN.
Qed.

Definition cmirrors (g : cgraph) (e : cexp) (h : list crec) : Prop :=
  c_ts e = length h /\ length (c_nodes e) = length (cgS g) /\
  forall i, (i < length (cgS g))%nat ->
    rmirrors (cg_size g i) (nth i (cgS g) 0%nat) (cnode e i) (map (cproj g i) h).

Lemma cmirrors_new : forall g, cmirrors g (cexp_new g) [].
Proof.
  intros g. unfold cmirrors, cexp_new; cbn [c_ts c_nodes]. rewrite map_length, seq_length.
  split; [reflexivity|]. split; [reflexivity|]. intros i Hi. unfold cnode; cbn [c_nodes].
  rewrite nth_map_seq by exact Hi. apply rmirrors_new.
Qed.

Lemma cmirrors_step : forall g e h o, cop_ok g o = true -> cmirrors g e h ->
  cmirrors g (cexp_step g e o) (chist_step h o).
Proof.
  intros g e h [s a s1 rw|] Hok (Ht & Hl & H); cbn [cexp_step chist_step]; [|apply cmirrors_new].
  unfold cmirrors, cexp_record; cbn [c_ts c_nodes]. rewrite map_length, seq_length, app_length. cbn [length].
  split; [lia|]. split; [reflexivity|]. intros i Hi. unfold cnode at 1; cbn [c_nodes].
  rewrite nth_map_seq by exact Hi. rewrite map_app. cbn [map cproj].
  cbn [cop_ok] in Hok. rewrite forallb_forall in Hok.
  specialize (Hok i ltac:(apply in_seq; lia)). apply andb_true_iff in Hok. rewrite !Nat.ltb_lt in Hok.
  apply rmirrors_record; [tauto|tauto| apply H; exact Hi].
Qed.

(* coop_welford_exact: after any in-range sequence of joint records and resets, every row of every
   node reports the visit counts, sum, mean and M2 of exactly the records that map to that row *)
Lemma coop_welford_exact_lemma : forall g ops, forallb (cop_ok g) ops = true ->
  let e := cexp_after g ops in let h := chist_of ops in
  c_ts e = length h /\
  forall i, (i < length (cgS g))%nat -> forall id, (id < cg_size g i)%nat ->
    let x := cnode e i in let hi := map (cproj g i) h in let ncol := nth i (cgS g) 0%nat in
    (forall v, (v < ncol)%nat -> get2 0%nat (r_vis x) id v = row_count hi id v) /\
    get2 0%nat (r_vis x) id ncol = length (row_rewards hi id) /\
    nth id (r_avg x) 0 == mean (row_rewards hi id) /\
    nth id (r_m2 x) 0 == m2 (row_rewards hi id).
Proof.
  intros g ops Hok. cbn zeta. unfold cexp_after, chist_of.
  assert (G : forall ops e h, forallb (cop_ok g) ops = true -> cmirrors g e h ->
              cmirrors g (fold_left (cexp_step g) ops e) (fold_left chist_step ops h)).
  { induction ops0 as [|o ops0 IH]; intros e h Hr Hm; cbn [fold_left]; [exact Hm|].
    cbn [forallb] in Hr. apply andb_true_iff in Hr. destruct Hr as [Ho Hr].
    apply IH; [exact Hr| apply cmirrors_step; assumption]. }
  destruct (G ops (cexp_new g) [] Hok (cmirrors_new g)) as (Ht & _ & H).
  split; [exact Ht|]. intros i Hi id Hid. destruct (H i Hi) as (_ & _ & _ & R). apply R; exact Hid.
Qed.

(* ------------------------------------------------------------------ Factored::Bandit::Experience *)
Definition fbmirrors (A : list nat) (deps : list (list nat)) (e : fbexp) (h : list (list nat * list Q)) : Prop :=
  fb_ts e = length h /\ length (fb_nodes e) = length deps /\
  forall i, (i < length deps)%nat -> bmirrors (pspace (nth i deps []) A) (fbnode e i) (map (fbproj A deps i) h).

Lemma fbmirrors_new : forall A deps, fbmirrors A deps (fbexp_new A deps) [].
Proof.
  intros A deps. unfold fbmirrors, fbexp_new; cbn [fb_ts fb_nodes]. rewrite map_length.
  split; [reflexivity|]. split; [reflexivity|]. intros i Hi. unfold fbnode; cbn [fb_nodes].
  rewrite (nth_map_lt _ _ (fun d => bexp_new (pspace d A)) [] (bexp_new 0) deps i Hi). apply bmirrors_new.
Qed.

Lemma fbmirrors_step : forall A deps e h o, fbop_ok A deps o = true -> fbmirrors A deps e h ->
  fbmirrors A deps (fbexp_step A deps e o) (fbhist_step h o).
Proof.
  intros A deps e h [a rw|] Hok (Ht & Hl & H); cbn [fbexp_step fbhist_step]; [|apply fbmirrors_new].
  unfold fbmirrors, fbexp_record; cbn [fb_ts fb_nodes]. rewrite map_length, seq_length, app_length. cbn [length].
  split; [lia|]. split; [reflexivity|]. intros i Hi. unfold fbnode at 1; cbn [fb_nodes].
  rewrite nth_map_seq by exact Hi. rewrite map_app. cbn [map fbproj fst snd].
  cbn [fbop_ok] in Hok. rewrite forallb_forall in Hok. specialize (Hok i ltac:(apply in_seq; lia)).
  apply (bmirrors_step _ (fbnode e i) (map (fbproj A deps i) h) (BRecord (pidx (nth i deps []) A a) (nth i rw 0))); [exact Hok| apply H; exact Hi].
Qed.

Lemma fbandit_welford_exact_lemma : forall A deps ops, forallb (fbop_ok A deps) ops = true ->
  let e := fbexp_after A deps ops in let h := fbhist_of ops in
  fb_ts e = length h /\
  forall i, (i < length deps)%nat -> forall arm, (arm < pspace (nth i deps []) A)%nat ->
    let b := fbnode e i in let hi := map (fbproj A deps i) h in
    nth arm (b_vis b) 0%nat = length (arm_rewards hi arm) /\
    nth arm (b_avg b) 0 == mean (arm_rewards hi arm) /\
    nth arm (b_m2 b) 0 == m2 (arm_rewards hi arm).
Proof.
  intros A deps ops Hok. cbn zeta. unfold fbexp_after, fbhist_of.
  assert (G : forall ops e h, forallb (fbop_ok A deps) ops = true -> fbmirrors A deps e h ->
              fbmirrors A deps (fold_left (fbexp_step A deps) ops e) (fold_left fbhist_step ops h)).
  { induction ops0 as [|o ops0 IH]; intros e h Hr Hm; cbn [fold_left]; [exact Hm|].
    cbn [forallb] in Hr. apply andb_true_iff in Hr. destruct Hr as [Ho Hr].
    apply IH; [exact Hr| apply fbmirrors_step; assumption]. }
  destruct (G ops (fbexp_new A deps) [] Hok (fbmirrors_new A deps)) as (Ht & _ & H).
  split; [exact Ht|]. intros i Hi arm Harm. destruct (H i Hi) as (_ & _ & _ & _ & R). apply R; exact Harm.
Qed.
