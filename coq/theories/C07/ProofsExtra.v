(* C07/ProofsExtra.v — Bandit::Experience, Thompson normalisation, and the refutation witnesses. *)
From Coq Require Import List Arith ZArith QArith Bool Lia Lqa.
From AIT Require Import Base.Qx C07.Model C07.Spec C07.ProofsExp C07.ProofsMl.
Import ListNotations.
Local Open Scope Q_scope.

(* ------------------------------------------------------------------ Bandit::Experience *)
Definition bmirrors (A : nat) (b : bexp) (h : list (nat * Q)) : Prop :=
  length (b_vis b) = A /\ length (b_avg b) = A /\ length (b_m2 b) = A /\ b_ts b = length h /\
  forall a, (a < A)%nat ->
    nth a (b_vis b) 0%nat = length (arm_rewards h a) /\
    nth a (b_avg b) 0 == mean (arm_rewards h a) /\
    nth a (b_m2 b) 0 == m2 (arm_rewards h a).

Lemma bmirrors_new : forall A, bmirrors A (bexp_new A) [].
Proof.
  intros A. unfold bmirrors, bexp_new; cbn [b_vis b_avg b_m2 b_ts]. rewrite !repeat_length.
  repeat split; auto; rewrite nth_repeat_lt by assumption; reflexivity.
Qed.

Lemma arm_rewards_snoc : forall h a x, arm_rewards (h ++ [x]) a =
  if (fst x =? a)%nat then arm_rewards h a ++ [snd x] else arm_rewards h a.
Proof.
  intros; unfold arm_rewards. rewrite filter_app. cbn [filter].
  destruct (fst x =? a)%nat; [rewrite map_app; reflexivity| rewrite app_nil_r; reflexivity].
Qed.

Lemma bmirrors_step : forall A b h o, bop_in_range A o = true -> bmirrors A b h ->
  bmirrors A (bexp_step b o) (bhist_step h o).
Proof.
  intros A b h [a r|] Hr (L1 & L2 & L3 & Ht & H); cbn [bexp_step bhist_step].
  - cbn [bop_in_range] in Hr. apply Nat.ltb_lt in Hr.
    unfold bmirrors, bexp_record; cbn [b_vis b_avg b_m2 b_ts]. rewrite !upd_length, app_length. cbn [length].
    split; [exact L1|]. split; [exact L2|]. split; [exact L3|]. split; [lia|].
    intros a' Ha'. rewrite arm_rewards_snoc. cbn [fst snd].
    destruct (H a' Ha') as (HV & HR & HM).
    destruct (a =? a')%nat eqn:E.
    + apply Nat.eqb_eq in E; subst a'. destruct (H a Hr) as (HVa & HRa & HMa).
      rewrite !nth_upd_eq by lia. rewrite app_length; cbn [length].
      assert (HR' : Qred (nth a (b_avg b) 0 + (r - nth a (b_avg b) 0) / inj (S (nth a (b_vis b) 0%nat))) == mean (arm_rewards h a ++ [r])).
      { rewrite Qred_correct, mean_snoc, HVa, HRa. reflexivity. }
      split; [lia|]. split; [exact HR'|].
      rewrite Qred_correct, m2_snoc, HMa, HR', HRa. reflexivity.
    + apply Nat.eqb_neq in E. rewrite !nth_upd_neq by exact E. auto.
  - unfold bexp_reset. rewrite L1. apply bmirrors_new.
Qed.

Lemma bandit_welford_exact_lemma : forall A ops, forallb (bop_in_range A) ops = true ->
  let b := bexp_after A ops in let h := bhist_of ops in
  b_ts b = length h /\
  forall a, (a < A)%nat ->
    nth a (b_vis b) 0%nat = length (arm_rewards h a) /\
    nth a (b_avg b) 0 == mean (arm_rewards h a) /\
    nth a (b_m2 b) 0 == m2 (arm_rewards h a).
Proof.
  intros A ops Hr. cbn zeta. unfold bexp_after, bhist_of.
  assert (G : forall ops b h, forallb (bop_in_range A) ops = true -> bmirrors A b h ->
              bmirrors A (fold_left bexp_step ops b) (fold_left bhist_step ops h)).
  { induction ops0 as [|o ops0 IH]; intros b h Hr0 Hm; cbn [fold_left]; [exact Hm|].
    cbn [forallb] in Hr0. apply andb_true_iff in Hr0. destruct Hr0 as [Ho Hr0].
    apply IH; [exact Hr0| apply bmirrors_step; assumption]. }
  destruct (G ops (bexp_new A) [] Hr (bmirrors_new A)) as (_ & _ & _ & Ht & H). split; assumption.
Qed.

(* ------------------------------------------------------------------ Thompson normalisation *)
Lemma qsum'_eq : forall l, qsum' l = qsum l.
Proof. induction l as [|x l IH]; cbn [qsum' qsum fold_right]; [reflexivity| unfold qsum' in IH; rewrite IH; reflexivity]. Qed.

Lemma qsum_pos : forall l, l <> [] -> Forall (fun x => 0 < x) l -> 0 < qsum l.
Proof.
  intros l Hne H. induction H as [|x l Hx H IH]; [congruence|].
  cbn [qsum]. destruct l as [|y l]; [cbn [qsum]; lra|]. assert (0 < qsum (y :: l)) by (apply IH; congruence). lra.
Qed.

(* any positive gamma draws, divided by their sum, form a probability distribution *)
Lemma thompson_rows_valid_lemma : forall g, g <> [] -> Forall (fun x => 0 < x) g ->
  is_dist (thompson_row g) /\ length (thompson_row g) = length g.
Proof.
  intros g Hne Hpos. unfold thompson_row. rewrite qsum'_eq. pose proof (qsum_pos g Hne Hpos) as Hz.
  split; [|apply map_length]. split.
  - unfold nonneg. apply Forall_forall. intros y Hy. apply in_map_iff in Hy. destruct Hy as (x & <- & Hx).
    rewrite Forall_forall in Hpos. specialize (Hpos x Hx). apply Qle_shift_div_l; [exact Hz| lra].
  - rewrite (qsum_map_ext Q (fun x => x / qsum g) (fun x => / qsum g * x)) by (intros x _; field; lra).
    rewrite qsum_map_scale. field. lra.
Qed.

(* ------------------------------------------------------------------ refutation witnesses *)
(* unrepaired dense constructor with sync=true: a never-visited row keeps indeterminate cells *)
Lemma unvisited_default_refuted_lemma :
  exists S A pre s a i, ops_in_range S A pre = true /\ never_visited pre s a = true /\ (i < S)%nat /\
    T (snd (run false S A pre true [])) a s i = XIndet.
Proof. exists 2%nat, 1%nat, [ORecord 0 0 1 1], 1%nat, 0%nat, 0%nat. repeat split; vm_compute; try reflexivity; lia. Qed.

(* unrepaired sparse model, non-Eigen branch: first sync with visitSum = 2 keeps the identity entry;
   the row (1, 1/2, 1/2) is not the empirical distribution (0, 1/2, 1/2) and sums to 2 *)
Lemma sparse_noneigen_stale_refuted_lemma :
  let e := exp_after 3 1 [ORecord 0 0 1 1; ORecord 0 0 2 1] in
  let m := sml_sync2 false false e (sml_ctor false false (exp_new 3 1) false) 0 0 in
  Ts m 0 0 0 == 1 /\ ~ Ts m 0 0 0 == freq [(0%nat, 0%nat, 1%nat, 1); (0%nat, 0%nat, 2%nat, 1)] 0 0 0 /\
  (let m' := sml_sync2 true false e (sml_ctor true false (exp_new 3 1) false) 0 0 in Ts m' 0 0 0 == 0).
Proof. cbv zeta. repeat split; vm_compute; congruence. Qed.
