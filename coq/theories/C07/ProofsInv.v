(* C07/ProofsInv.v — the row invariant of MaximumLikelihoodModel relative to the experience, as
   classified by the tracker Spec.trk, and its preservation by record / reset / the three syncs. *)
From Coq Require Import List Arith ZArith QArith Bool Lia Lqa.
From AIT Require Import Base.Qx C07.Model C07.Spec C07.ProofsExp C07.ProofsMl.
Import ListNotations.
Local Open Scope Q_scope.

(* ------------------------------------------------------------------ generic (nested) folds *)
Section Folds.
  Context {X : Type}.

  Lemma fold_preserve : forall (g : X -> nat -> X) (P : X -> Prop) l,
    (forall x s, In s l -> P x -> P (g x s)) -> forall x, P x -> P (fold_left g l x).
  Proof.
    intros g P l. induction l as [|h l IH]; intros H x Hx; cbn [fold_left]; [exact Hx|].
    apply IH; [intros y s Hs; apply H; right; exact Hs| apply H; [left; reflexivity| exact Hx]].
  Qed.

  Lemma fold_establish : forall (g : X -> nat -> X) (P Q : X -> Prop) l s,
    (forall x s', In s' l -> P x -> P (g x s')) ->
    (forall x s', In s' l -> P x -> Q x -> Q (g x s')) ->
    (forall x, P x -> Q (g x s)) -> In s l -> forall x, P x -> Q (fold_left g l x).
  Proof.
    intros g P Q l s. induction l as [|h l IH]; intros HP HQ HE Hin x Hx; [destruct Hin|].
    cbn [fold_left]. destruct Hin as [->|Hin].
    - assert (HPQ : P (g x s) /\ Q (g x s)) by (split; [apply HP; [left; reflexivity|exact Hx]| apply HE; exact Hx]).
      apply (fold_preserve g (fun y => P y /\ Q y) l); [|exact HPQ].
      intros y s' Hs' [Py Qy]. split; [apply HP; [right; exact Hs'|exact Py]| apply HQ; [right; exact Hs'| exact Py| exact Qy]].
    - apply IH; auto.
      + intros y s' Hs'. apply HP; right; exact Hs'.
      + intros y s' Hs'. apply HQ; right; exact Hs'.
      + apply HP; [left; reflexivity| exact Hx].
  Qed.

  Variable f : X -> nat -> nat -> X.     (* f x a s *)
  Variables la ls : list nat.
  Definition nfold (x : X) : X := fold_left (fun x a => fold_left (fun x s => f x a s) ls x) la x.

  Lemma nfold_preserve : forall (P : X -> Prop),
    (forall x a s, In a la -> In s ls -> P x -> P (f x a s)) -> forall x, P x -> P (nfold x).
  Proof.
    intros P H x Hx. unfold nfold. apply (fold_preserve _ P la); [|exact Hx].
    intros y a Ha Hy. apply (fold_preserve _ P ls); [|exact Hy]. intros z s Hs Hz. apply H; assumption.
  Qed.

  Lemma nfold_establish : forall (P Q : X -> Prop) a s,
    (forall x a' s', In a' la -> In s' ls -> P x -> P (f x a' s')) ->
    (forall x a' s', In a' la -> In s' ls -> P x -> Q x -> Q (f x a' s')) ->
    (forall x, P x -> Q (f x a s)) -> In a la -> In s ls -> forall x, P x -> Q (nfold x).
  Proof.
    intros P Q a s HP HQ HE Ha Hs x Hx. unfold nfold.
    apply (fold_establish _ P Q la a); auto.
    - intros y a' Ha' Hy. apply (fold_preserve _ P ls); [|exact Hy]. intros z s' Hs' Hz. apply HP; assumption.
    - intros y a' Ha' Py Qy.
      assert (HPQ : P y /\ Q y) by (split; assumption).
      apply (fold_preserve (fun x s0 => f x a' s0) (fun z => P z /\ Q z) ls) in HPQ; [exact (proj2 HPQ)|].
      intros z s' Hs' [Pz Qz]. split; [apply HP; assumption| apply HQ; assumption].
    - intros y Py. apply (fold_establish (fun x s0 => f x a s0) P Q ls s); auto.
  Qed.
End Folds.

Lemma fold_pair : forall (X Y : Type) (F : X -> nat -> X) (G : Y -> nat -> Y) l x y,
  fold_left (fun p s => (F (fst p) s, G (snd p) s)) l (x, y) = (fold_left F l x, fold_left G l y).
Proof. induction l as [|h l IH]; intros x y; cbn [fold_left fst snd]; [reflexivity| apply IH]. Qed.

Lemma nfold_pair : forall (X Y : Type) (F : X -> nat -> nat -> X) (G : Y -> nat -> nat -> Y) la ls x y,
  nfold (fun p a s => (F (fst p) a s, G (snd p) a s)) la ls (x, y) = (nfold F la ls x, nfold G la ls y).
Proof.
  intros X Y F G la ls. unfold nfold. induction la as [|a la IH]; intros x y; cbn [fold_left]; [reflexivity|].
  rewrite (fold_pair X Y (fun x s => F x a s) (fun y s => G y a s) ls x y). apply IH.
Qed.

(* ------------------------------------------------------------------ tracker well-formedness *)
Definition trk_wf (S A : nat) (t : trk) : Prop :=
  wf2 S A (t_n t) /\ wf2 S A (t_last t) /\ wf2 S A (t_st t).

Lemma trk_wf_intro : forall S A n l st b, wf2 S A n -> wf2 S A l -> wf2 S A st -> trk_wf S A (mkTrk n l st b).
Proof. intros; unfold trk_wf; cbn [t_n t_last t_st]; auto. Qed.

Lemma trk_wf_new : forall S A, trk_wf S A (trk_new S A).
Proof. intros; unfold trk_new. apply trk_wf_intro; apply wf2_mk2. Qed.

Lemma trk_sync2_wf : forall S A t s a, trk_wf S A t -> trk_wf S A (trk_sync2 t s a).
Proof.
  intros S A t s a (W1 & W2 & W3). unfold trk_sync2. destruct (tN t s a =? 0)%nat; [unfold trk_wf; auto|].
  apply trk_wf_intro; try assumption. apply wf2_upd2; assumption.
Qed.
Lemma trk_sync2_n : forall t s a, t_n (trk_sync2 t s a) = t_n t /\ t_last (trk_sync2 t s a) = t_last t /\ t_bad (trk_sync2 t s a) = t_bad t.
Proof. intros; unfold trk_sync2. destruct (tN t s a =? 0)%nat; auto. Qed.

Lemma trk_sync2_st_eq : forall S A t s a, trk_wf S A t -> (s < S)%nat -> (a < A)%nat -> (0 < tN t s a)%nat ->
  tSt (trk_sync2 t s a) s a = RSynced.
Proof.
  intros S A t s a (_ & _ & W3) Hs Ha Hn. unfold trk_sync2.
  destruct (tN t s a =? 0)%nat eqn:E; [apply Nat.eqb_eq in E; lia|].
  unfold tSt; cbn [t_st]. erewrite get2_upd2_eq by eauto. reflexivity.
Qed.
Lemma trk_sync2_st_neq : forall t s a s' a', (s <> s' \/ a <> a') -> tSt (trk_sync2 t s a) s' a' = tSt t s' a'.
Proof.
  intros t s a s' a' H. unfold trk_sync2. destruct (tN t s a =? 0)%nat; [reflexivity|].
  unfold tSt; cbn [t_st]. apply get2_upd2_neq; exact H.
Qed.
Lemma trk_sync2_tN : forall t s a s' a', tN (trk_sync2 t s a) s' a' = tN t s' a' /\ tLast (trk_sync2 t s a) s' a' = tLast t s' a'.
Proof. intros. unfold tN, tLast. destruct (trk_sync2_n t s a) as (-> & -> & _). auto. Qed.

(* ------------------------------------------------------------------ the invariant *)
Definition pair_inv (e : exp) (m : mlm) (t : trk) (s a : nat) : Prop :=
  tN t s a = NN e s a /\
  match tSt t s a with
  | RIdent => NN e s a = 0%nat /\ (forall i, (i < eS e)%nat -> V e s a i = 0%nat) /\
              row_is m a s (eS e) (fun i => delta i s)
  | RIdentPend => NN e s a = 1%nat /\ (tLast t s a < eS e)%nat /\
              (forall i, (i < eS e)%nat -> V e s a i = if (i =? tLast t s a)%nat then 1%nat else 0%nat) /\
              row_is m a s (eS e) (fun i => delta i s)
  | RSynced => (0 < NN e s a)%nat /\ row_is m a s (eS e) (fun i => inj (V e s a i) / inj (NN e s a)) /\
              Rm m s a == Rw e s a
  | RSyncPend => (2 <= NN e s a)%nat /\ (tLast t s a < eS e)%nat /\
              row_is m a s (eS e) (fun i => (inj (V e s a i) - delta i (tLast t s a)) / inj (NN e s a - 1))
  | RStale => True
  end.

Definition inv (e : exp) (m : mlm) (t : trk) : Prop :=
  exp_wf e /\ ml_wf (eS e) (eA e) m /\ trk_wf (eS e) (eA e) t /\
  forall s a, (s < eS e)%nat -> (a < eA e)%nat -> pair_inv e m t s a.

(* pairs whose data, row and tracker entry are all unchanged keep their invariant *)
Lemma pair_inv_congr : forall e e' m m' t t' s a,
  eS e' = eS e -> tN t' s a = tN t s a -> tSt t' s a = tSt t s a -> tLast t' s a = tLast t s a ->
  NN e' s a = NN e s a -> (forall i, V e' s a i = V e s a i) -> Rw e' s a = Rw e s a ->
  (forall i, T m' a s i = T m a s i) -> Rm m' s a = Rm m s a ->
  pair_inv e m t s a -> pair_inv e' m' t' s a.
Proof.
  intros e e' m m' t t' s a HS HtN HtS HtL HN HV HR HT HRm [P1 P2].
  unfold pair_inv. rewrite HtN, HtS, HtL, HN, HS. split; [exact P1|].
  destruct (tSt t s a).
  - destruct P2 as (A1 & A2 & A3). repeat split; auto.
    + intros i Hi. rewrite HV. apply A2; exact Hi.
    + apply (row_is_frame m m'); assumption.
  - destruct P2 as (A1 & A2 & A3 & A4). repeat split; auto.
    + intros i Hi. rewrite HV. apply A3; exact Hi.
    + apply (row_is_frame m m'); assumption.
  - destruct P2 as (A1 & A2 & A3). repeat split; auto.
    + apply (row_is_frame m m'); [assumption|].
      eapply row_is_ext; [|exact A2]. intros i _; cbv beta. rewrite HV. reflexivity.
    + rewrite HRm, HR. exact A3.
  - destruct P2 as (A1 & A2 & A3). repeat split; auto.
    apply (row_is_frame m m'); [assumption|].
    eapply row_is_ext; [|exact A3]. intros i _; cbv beta. rewrite HV. reflexivity.
  - exact I.
Qed.

(* ------------------------------------------------------------------ record *)
Lemma inv_record : forall e m t s a s1 r, (s < eS e)%nat -> (a < eA e)%nat -> (s1 < eS e)%nat ->
  inv e m t -> inv (exp_record e s a s1 r) m (trk_step (eS e) (eA e) t (ORecord s a s1 r)).
Proof.
  intros e m t s a s1 r Hs Ha Hs1 (We & Wm & Wt & HP). pose proof Wt as (Wt1 & Wt2 & Wt3).
  cbn [trk_step]. split; [apply exp_wf_record; exact We|]. split; [exact Wm|]. split.
  { cbn [exp_record eS eA]. apply trk_wf_intro; apply wf2_upd2; assumption. }
  intros s' a' Hs' Ha'. cbn [exp_record eS eA] in Hs', Ha'.
  destruct (Nat.eq_dec s s') as [<-|Ns]; [destruct (Nat.eq_dec a a') as [<-|Na]|].
  - (* the recorded pair *)
    destruct (HP s a Hs Ha) as [P1 P2]. unfold pair_inv.
    assert (EN : tN (mkTrk (upd2 s a Datatypes.S (t_n t)) (upd2 s a (fun _ => s1) (t_last t)) (upd2 s a st_record (t_st t)) (t_bad t)) s a = Datatypes.S (tN t s a))
      by (unfold tN; cbn [t_n]; eapply get2_upd2_eq; eauto).
    assert (EL : tLast (mkTrk (upd2 s a Datatypes.S (t_n t)) (upd2 s a (fun _ => s1) (t_last t)) (upd2 s a st_record (t_st t)) (t_bad t)) s a = s1)
      by (unfold tLast; cbn [t_last]; erewrite get2_upd2_eq by eauto; reflexivity).
    assert (ES : tSt (mkTrk (upd2 s a Datatypes.S (t_n t)) (upd2 s a (fun _ => s1) (t_last t)) (upd2 s a st_record (t_st t)) (t_bad t)) s a = st_record (tSt t s a))
      by (unfold tSt; cbn [t_st]; eapply get2_upd2_eq; eauto).
    rewrite EN, EL, ES. rewrite NN_record_eq by assumption. split; [rewrite P1; reflexivity|].
    cbn [exp_record eS].
    destruct (tSt t s a); cbn [st_record]; try exact I.
    + (* RIdent -> RIdentPend *)
      destruct P2 as (A1 & A2 & A3).
      split; [rewrite A1; reflexivity|]. split; [exact Hs1|]. split; [|exact A3].
      intros i Hi. destruct (i =? s1)%nat eqn:E.
      * apply Nat.eqb_eq in E; subst i. rewrite V_record_eq by assumption. rewrite A2 by assumption. reflexivity.
      * apply Nat.eqb_neq in E. rewrite V_record_neq by (right; right; congruence). apply A2; exact Hi.
    + (* RSynced -> RSyncPend *)
      destruct P2 as (A1 & A2 & A3).
      split; [lia|]. split; [exact Hs1|].
      eapply row_is_ext; [|exact A2]. intros i Hi; cbv beta.
      replace (Datatypes.S (NN e s a) - 1)%nat with (NN e s a) by lia.
      assert (0 < inj (NN e s a)) by (apply inj_pos; exact A1).
      destruct (Nat.eq_dec i s1) as [->|Ne].
      * rewrite V_record_eq by assumption. rewrite delta_eq, inj_S. field. lra.
      * rewrite V_record_neq by (right; right; congruence). rewrite delta_neq by exact Ne. field. lra.
  - (* same s, other a *)
    apply (pair_inv_congr e _ m m t _ s a'); auto.
    + unfold tN; cbn [t_n]. apply get2_upd2_neq; auto.
    + unfold tSt; cbn [t_st]. apply get2_upd2_neq; auto.
    + unfold tLast; cbn [t_last]. apply get2_upd2_neq; auto.
    + apply NN_record_neq; auto.
    + intros i. apply V_record_neq; auto.
    + apply Rw_record_neq; auto.
  - apply (pair_inv_congr e _ m m t _ s' a'); auto.
    + unfold tN; cbn [t_n]. apply get2_upd2_neq; auto.
    + unfold tSt; cbn [t_st]. apply get2_upd2_neq; auto.
    + unfold tLast; cbn [t_last]. apply get2_upd2_neq; auto.
    + apply NN_record_neq; auto.
    + intros i. apply V_record_neq; auto.
    + apply Rw_record_neq; auto.
Qed.

(* ------------------------------------------------------------------ reset *)
Lemma inv_reset : forall e m t, inv e m t -> inv (exp_reset e) m (trk_step (eS e) (eA e) t OReset).
Proof.
  intros e m t (We & Wm & Wt & HP). pose proof Wt as (Wt1 & Wt2 & Wt3).
  cbn [trk_step]. unfold exp_reset. split; [apply exp_wf_new|]. split; [exact Wm|]. split.
  { cbn [exp_new eS eA]. apply trk_wf_intro; [apply wf2_mk2| assumption| apply wf2_map2; assumption]. }
  intros s a Hs Ha. cbn [exp_new eS eA] in Hs, Ha.
  destruct (new_accessors (eS e) (eA e) s a Hs Ha) as (N0 & R0 & M0 & V0).
  destruct (HP s a Hs Ha) as [P1 P2]. unfold pair_inv.
  assert (ES : tSt (mkTrk (mk2 (eS e) (eA e) 0%nat) (t_last t) (map (map st_reset) (t_st t)) (t_bad t)) s a = st_reset (tSt t s a))
    by (unfold tSt; cbn [t_st]; eapply get2_map2; eauto).
  rewrite ES. split; [unfold tN; cbn [t_n]; rewrite get2_mk2 by assumption; rewrite N0; reflexivity|].
  cbn [exp_new eS]. fold (exp_new (eS e) (eA e)).
  destruct (tSt t s a); cbn [st_reset]; try exact I.
  - destruct P2 as (A1 & A2 & A3). repeat split; auto.
  - destruct P2 as (A1 & A2 & A3 & A4). repeat split; auto.
Qed.

(* ------------------------------------------------------------------ sync(s,a) *)
Lemma inv_sync2 : forall e m t s a, (s < eS e)%nat -> (a < eA e)%nat ->
  inv e m t -> inv e (ml_sync2 e m s a) (trk_sync2 t s a).
Proof.
  intros e m t s a Hs Ha (We & Wm & Wt & HP).
  pose proof (sync2_touches e m s a) as Ht.
  split; [exact We|]. split; [eapply touches_wf; eauto|]. split; [apply trk_sync2_wf; exact Wt|].
  intros s' a' Hs' Ha'.
  destruct (HP s a Hs Ha) as [P1 _].
  destruct (Nat.eq_dec (NN e s a) 0) as [Z|NZ].
  - (* nothing to do *)
    rewrite sync2_noop by exact Z. unfold trk_sync2. rewrite P1, Z. cbn [Nat.eqb]. apply HP; assumption.
  - destruct (Nat.eq_dec s s') as [<-|Ns]; [destruct (Nat.eq_dec a a') as [<-|Na]|].
    + unfold pair_inv. destruct (trk_sync2_tN t s a s a) as [-> ->].
      erewrite trk_sync2_st_eq by (eauto; lia). split; [exact P1|].
      destruct (sync2_row e m s a Wm Hs Ha ltac:(lia)) as [R1 R2]. repeat split; [lia| exact R1| rewrite R2; reflexivity].
    + apply (pair_inv_congr e e m _ t _ s a'); auto; try apply (trk_sync2_tN t s a s a').
      * apply trk_sync2_st_neq; auto.
      * intros i. eapply touches_frame_T; eauto.
      * eapply touches_frame_R; eauto.
    + apply (pair_inv_congr e e m _ t _ s' a'); auto; try apply (trk_sync2_tN t s a s' a').
      * apply trk_sync2_st_neq; auto.
      * intros i. eapply touches_frame_T; eauto.
      * eapply touches_frame_R; eauto.
Qed.

(* ------------------------------------------------------------------ sync() *)
Lemma sync_all_as_nfold : forall e m, ml_sync_all e m = nfold (fun m a s => ml_sync2 e m s a) (seq 0 (eA e)) (seq 0 (eS e)) m.
Proof. reflexivity. Qed.
Lemma trk_sync_all_as_nfold : forall S A t, trk_step S A t OSyncAll = nfold (fun t a s => trk_sync2 t s a) (seq 0 A) (seq 0 S) t.
Proof. reflexivity. Qed.

Definition jstep (e : exp) (p : mlm * trk) (a s : nat) : mlm * trk :=
  (ml_sync2 e (fst p) s a, trk_sync2 (snd p) s a).

Lemma joint_sync_all : forall e m t,
  nfold (jstep e) (seq 0 (eA e)) (seq 0 (eS e)) (m, t) = (ml_sync_all e m, trk_step (eS e) (eA e) t OSyncAll).
Proof.
  intros. unfold jstep. rewrite (nfold_pair mlm trk (fun m a s => ml_sync2 e m s a) (fun t a s => trk_sync2 t s a)).
  reflexivity.
Qed.

Lemma inv_sync_all : forall e m t, inv e m t -> inv e (ml_sync_all e m) (trk_step (eS e) (eA e) t OSyncAll).
Proof.
  intros e m t H.
  pose proof (nfold_preserve (jstep e) (seq 0 (eA e)) (seq 0 (eS e)) (fun p => inv e (fst p) (snd p))) as L.
  specialize (L ltac:(intros p a s Ha Hs Hp; apply in_seq in Ha; apply in_seq in Hs; unfold jstep; cbn [fst snd]; apply inv_sync2; [lia|lia|exact Hp]) (m, t) H).
  rewrite joint_sync_all in L. exact L.
Qed.

(* after sync(), every pair that has data is classified RSynced *)
Lemma sync_all_synced : forall e m t s a, inv e m t -> (s < eS e)%nat -> (a < eA e)%nat -> (0 < NN e s a)%nat ->
  tSt (trk_step (eS e) (eA e) t OSyncAll) s a = RSynced.
Proof.
  intros e m t s a H Hs Ha Hn.
  pose proof (nfold_establish (jstep e) (seq 0 (eA e)) (seq 0 (eS e))
                (fun p => inv e (fst p) (snd p)) (fun p => tSt (snd p) s a = RSynced) a s) as L.
  assert (Q : tSt (snd (nfold (jstep e) (seq 0 (eA e)) (seq 0 (eS e)) (m, t))) s a = RSynced).
  { apply L; auto.
    - intros p a' s' Ha' Hs' Hp. apply in_seq in Ha'; apply in_seq in Hs'. unfold jstep; cbn [fst snd]. apply inv_sync2; [lia|lia|exact Hp].
    - intros p a' s' Ha' Hs' Hp Hq. unfold jstep; cbn [fst snd].
      destruct (Nat.eq_dec s' s) as [->|Ns]; [destruct (Nat.eq_dec a' a) as [->|Na]|].
      + destruct Hp as (_ & _ & Wt & HP). destruct (HP s a Hs Ha) as [P1 _].
        eapply trk_sync2_st_eq; eauto. lia.
      + rewrite trk_sync2_st_neq by auto. exact Hq.
      + rewrite trk_sync2_st_neq by auto. exact Hq.
    - intros p Hp. unfold jstep; cbn [fst snd]. destruct Hp as (_ & _ & Wt & HP). destruct (HP s a Hs Ha) as [P1 _].
      eapply trk_sync2_st_eq; eauto. lia.
    - apply in_seq; lia.
    - apply in_seq; lia. }
  rewrite joint_sync_all in Q. exact Q.
Qed.

(* ------------------------------------------------------------------ sync(s,a,s1) *)
Lemma inv_sync3 : forall e m t s a s1, (s < eS e)%nat -> (a < eA e)%nat -> (s1 < eS e)%nat ->
  inv e m t -> inv e (ml_sync3 e m s a s1) (trk_step (eS e) (eA e) t (OSync3 s a s1)).
Proof.
  intros e m t s a s1 Hs Ha Hs1 H. pose proof H as (We & Wm & Wt & HP). pose proof Wt as (Wt1 & Wt2 & Wt3).
  destruct (HP s a Hs Ha) as [P1 P2]. cbn [trk_step]. rewrite P1.
  destruct (NN e s a mod resync_period =? 0)%nat eqn:Emod.
  { rewrite sync3_resync by exact Emod. apply inv_sync2; assumption. }
  pose proof (sync3_touches e m s a s1) as Ht.
  (* generic part: everything except the touched pair *)
  assert (Hothers : forall st bad,
     (st = RStale \/ (st = RSynced /\ (0 < NN e s a)%nat /\
         row_is (ml_sync3 e m s a s1) a s (eS e) (fun i => inj (V e s a i) / inj (NN e s a)) /\
         Rm (ml_sync3 e m s a s1) s a == Rw e s a)) ->
     inv e (ml_sync3 e m s a s1) (mkTrk (t_n t) (t_last t) (upd2 s a (fun _ => st) (t_st t)) bad)).
  { intros st bad Hst. split; [exact We|]. split; [eapply touches_wf; eauto|]. split.
    { apply trk_wf_intro; try assumption. apply wf2_upd2; assumption. }
    intros s' a' Hs' Ha'.
    destruct (Nat.eq_dec s s') as [<-|Ns]; [destruct (Nat.eq_dec a a') as [<-|Na]|].
    - unfold pair_inv. unfold tN, tSt, tLast; cbn [t_n t_st t_last].
      erewrite get2_upd2_eq by eauto. split; [exact P1|].
      destruct Hst as [->|(-> & B1 & B2 & B3)]; [exact I| repeat split; assumption].
    - apply (pair_inv_congr e e m _ t _ s a'); auto.
      + unfold tSt; cbn [t_st]. apply get2_upd2_neq; auto.
      + intros i. eapply touches_frame_T; eauto.
      + eapply touches_frame_R; eauto.
    - apply (pair_inv_congr e e m _ t _ s' a'); auto.
      + unfold tSt; cbn [t_st]. apply get2_upd2_neq; auto.
      + intros i. eapply touches_frame_T; eauto.
      + eapply touches_frame_R; eauto. }
  destruct (tSt t s a) eqn:Est; try (apply Hothers; left; reflexivity).
  - (* RIdentPend *)
    destruct (tLast t s a =? s1)%nat eqn:EL; [|apply Hothers; left; reflexivity].
    apply Nat.eqb_eq in EL. destruct P2 as (A1 & A2 & A3 & A4).
    apply Hothers; right. split; [reflexivity|]. split; [lia|].
    destruct (sync3_first e m s a s1 Wm Hs Ha Hs1 Emod A1 A4) as [R1 R2]. split; [|rewrite R2; reflexivity].
    eapply row_is_ext; [|exact R1]. intros i Hi; cbv beta. rewrite A1, A3 by exact Hi. rewrite EL.
    unfold delta. destruct (i =? s1)%nat; reflexivity.
  - (* RSyncPend *)
    destruct (tLast t s a =? s1)%nat eqn:EL; [|apply Hothers; left; reflexivity].
    apply Nat.eqb_eq in EL. destruct P2 as (A1 & A2 & A3). rewrite EL in A3.
    apply Hothers; right. split; [reflexivity|]. split; [lia|].
    destruct (sync3_incr e m s a s1 Wm Hs Ha Hs1 Emod A1 A3) as [R1 R2]. split; [exact R1| rewrite R2; reflexivity].
Qed.

(* ------------------------------------------------------------------ all ops *)
Lemma inv_step : forall e m t o, op_in_range (eS e) (eA e) o = true -> inv e m t ->
  inv (exp_step e o) (ml_step (exp_step e o) m o) (trk_step (eS e) (eA e) t o).
Proof.
  intros e m t [s a s1 r| | |s a|s a s1] Hr H; cbn [exp_step ml_step]; cbn [op_in_range] in Hr;
    rewrite ?andb_true_iff, ?Nat.ltb_lt in Hr.
  - destruct Hr as [[Hs Ha] Hs1]. apply inv_record; assumption.
  - apply inv_reset; exact H.
  - apply inv_sync_all; exact H.
  - destruct Hr as [Hs Ha]. cbn [trk_step]. apply inv_sync2; assumption.
  - destruct Hr as [[Hs Ha] Hs1]. apply inv_sync3; assumption.
Qed.
