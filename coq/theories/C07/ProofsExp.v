(* C07/ProofsExp.v — table lemmas, Welford algebra, and welford_exact for MDP::Experience. *)
From Coq Require Import List Arith ZArith QArith Bool Lia Lqa.
From AIT Require Import Base.Qx C07.Model C07.Spec.
Import ListNotations.
Local Open Scope Q_scope.

(* ------------------------------------------------------------------ upd / nth *)
Lemma upd_length : forall (A : Type) (f : A -> A) l i, length (upd i f l) = length l.
Proof. induction l as [|x l IH]; intros [|i]; cbn [upd length]; auto. Qed.

Lemma nth_upd_eq : forall (A : Type) (f : A -> A) (d : A) l i,
  (i < length l)%nat -> nth i (upd i f l) d = f (nth i l d).
Proof.
  induction l as [|x l IH]; intros [|i] H; cbn [upd nth length] in *; try lia; auto.
  apply IH; lia.
Qed.

Lemma nth_upd_neq : forall (A : Type) (f : A -> A) (d : A) l i j,
  i <> j -> nth j (upd i f l) d = nth j l d.
Proof.
  induction l as [|x l IH]; intros [|i] [|j] H; cbn [upd nth]; auto; try lia.
Qed.

Lemma nth_upd_oob : forall (A : Type) (f : A -> A) l i, (length l <= i)%nat -> upd i f l = l.
Proof.
  induction l as [|x l IH]; intros [|i] H; cbn [upd length] in *; auto; try lia.
  f_equal; apply IH; lia.
Qed.

(* well-formed 2-D / 3-D tables *)
Definition wf2 {A : Type} (n m : nat) (t : list (list A)) : Prop :=
  length t = n /\ forall i, (i < n)%nat -> length (nth i t []) = m.
Definition wf3 {A : Type} (n m k : nat) (t : list (list (list A))) : Prop :=
  length t = n /\ forall i, (i < n)%nat -> wf2 m k (nth i t []).

Lemma wf2_upd2 : forall (A : Type) n m (t : list (list A)) i j f, wf2 n m t -> wf2 n m (upd2 i j f t).
Proof.
  intros A n m t i j f [L R]; unfold upd2; split; [rewrite upd_length; exact L|].
  intros k Hk. destruct (Nat.eq_dec i k) as [->|Ne].
  - rewrite nth_upd_eq by lia. rewrite upd_length. apply R; exact Hk.
  - rewrite nth_upd_neq by exact Ne. apply R; exact Hk.
Qed.

Lemma wf3_upd3 : forall (A : Type) n m k (t : list (list (list A))) a i j f,
  wf3 n m k t -> wf3 n m k (upd3 a i j f t).
Proof.
  intros A n m k t a i j f [L R]; unfold upd3; split; [rewrite upd_length; exact L|].
  intros b Hb. destruct (Nat.eq_dec a b) as [->|Ne].
  - rewrite nth_upd_eq by lia. apply (wf2_upd2 _ m k (nth b t []) i j f). apply R; exact Hb.
  - rewrite nth_upd_neq by exact Ne. apply R; exact Hb.
Qed.

Lemma nth_repeat_lt : forall (A : Type) (x d : A) n i, (i < n)%nat -> nth i (repeat x n) d = x.
Proof. induction n as [|n IH]; intros [|i] H; cbn [repeat nth]; try lia; auto. apply IH; lia. Qed.

Lemma wf2_mk2 : forall (A : Type) n m (x : A), wf2 n m (mk2 n m x).
Proof.
  intros; unfold mk2; split; [apply repeat_length|]. intros i Hi.
  rewrite nth_repeat_lt by exact Hi. apply repeat_length.
Qed.
Lemma wf3_mk3 : forall (A : Type) n m k (x : A), wf3 n m k (mk3 n m k x).
Proof.
  intros; unfold mk3; split; [apply repeat_length|]. intros i Hi.
  rewrite nth_repeat_lt by exact Hi. apply wf2_mk2.
Qed.

Lemma get2_mk2 : forall (A : Type) (d x : A) n m i j, (i < n)%nat -> (j < m)%nat -> get2 d (mk2 n m x) i j = x.
Proof. intros; unfold get2, mk2. rewrite nth_repeat_lt by assumption. apply nth_repeat_lt; assumption. Qed.
Lemma get3_mk3 : forall (A : Type) (d x : A) n m k a i j,
  (a < n)%nat -> (i < m)%nat -> (j < k)%nat -> get3 d (mk3 n m k x) a i j = x.
Proof.
  intros; unfold get3, mk3. rewrite nth_repeat_lt by assumption.
  apply (get2_mk2 A d x m k i j); assumption.
Qed.

Lemma get2_upd2_eq : forall (A : Type) (d : A) n m t i j f,
  wf2 n m t -> (i < n)%nat -> (j < m)%nat -> get2 d (upd2 i j f t) i j = f (get2 d t i j).
Proof.
  intros A d n m t i j f [L R] Hi Hj; unfold get2, upd2.
  rewrite (nth_upd_eq _ _ [] t i) by lia. apply nth_upd_eq. rewrite R by exact Hi. exact Hj.
Qed.

Lemma get2_upd2_neq : forall (A : Type) (d : A) t i j i' j' f,
  (i <> i' \/ j <> j') -> get2 d (upd2 i j f t) i' j' = get2 d t i' j'.
Proof.
  intros A d t i j i' j' f H; unfold get2, upd2.
  destruct (Nat.eq_dec i i') as [<-|Ne].
  - destruct (Nat.lt_ge_cases i (length t)) as [Hl|Hl].
    + rewrite (nth_upd_eq _ _ [] t i) by exact Hl. apply nth_upd_neq. destruct H; [congruence|assumption].
    + rewrite nth_upd_oob by exact Hl. reflexivity.
  - rewrite nth_upd_neq by exact Ne. reflexivity.
Qed.

Lemma get3_upd3_eq : forall (A : Type) (d : A) n m k t a i j f,
  wf3 n m k t -> (a < n)%nat -> (i < m)%nat -> (j < k)%nat ->
  get3 d (upd3 a i j f t) a i j = f (get3 d t a i j).
Proof.
  intros A d n m k t a i j f [L R] Ha Hi Hj; unfold get3, upd3.
  rewrite (nth_upd_eq _ _ [] t a) by lia.
  apply (get2_upd2_eq A d m k (nth a t []) i j f); auto.
Qed.

Lemma get3_upd3_neq : forall (A : Type) (d : A) t a i j a' i' j' f,
  (a <> a' \/ i <> i' \/ j <> j') -> get3 d (upd3 a i j f t) a' i' j' = get3 d t a' i' j'.
Proof.
  intros A d t a i j a' i' j' f H; unfold get3, upd3.
  destruct (Nat.eq_dec a a') as [<-|Ne].
  - destruct (Nat.lt_ge_cases a (length t)) as [Hl|Hl].
    + rewrite (nth_upd_eq _ _ [] t a) by exact Hl.
      apply (get2_upd2_neq A d (nth a t []) i j i' j' f). destruct H as [H|H]; [congruence|exact H].
    + rewrite nth_upd_oob by exact Hl. reflexivity.
  - rewrite nth_upd_neq by exact Ne. reflexivity.
Qed.

(* ------------------------------------------------------------------ inj *)
Lemma inj_S : forall n, inj (S n) == inj n + 1.
Proof. intros; unfold inj. rewrite Nat2Z.inj_succ. unfold Z.succ. rewrite inject_Z_plus. reflexivity. Qed.
Lemma inj_0 : inj 0 == 0.
Proof. reflexivity. Qed.
Lemma inj_nonneg : forall n, 0 <= inj n.
Proof. induction n; [rewrite inj_0; lra| rewrite inj_S; lra]. Qed.
Lemma inj_pos : forall n, (0 < n)%nat -> 0 < inj n.
Proof. intros [|n] H; [lia|]. rewrite inj_S. pose proof (inj_nonneg n); lra. Qed.
Lemma inj_pred : forall n, (0 < n)%nat -> inj (n - 1) == inj n - 1.
Proof. intros [|n] H; [lia|]. rewrite inj_S. replace (S n - 1)%nat with n by lia. lra. Qed.

(* ------------------------------------------------------------------ Welford algebra *)
Lemma qsum_sq_shift : forall l c,
  qsum (map (fun x => (x - c) * (x - c)) l) ==
  qsum (map (fun x => x * x) l) - 2 * c * qsum l + inj (length l) * c * c.
Proof.
  induction l as [|x l IH]; intros c.
  - cbn [map qsum length]. rewrite inj_0. lra.
  - cbn [map qsum length]. rewrite IH, inj_S. lra.
Qed.

Lemma mean_nil : mean [] == 0.
Proof. reflexivity. Qed.

Lemma mean_times_n : forall l, l <> [] -> qsum l == inj (length l) * mean l.
Proof.
  intros l H. unfold mean. assert (0 < inj (length l)) by (apply inj_pos; destruct l; [congruence|cbn; lia]).
  field. lra.
Qed.

Lemma mean_snoc : forall l r, mean (l ++ [r]) == mean l + (r - mean l) / inj (S (length l)).
Proof.
  intros l r. destruct l as [|x l].
  - cbn [app length]. rewrite mean_nil. unfold mean. cbn [qsum length]. change (inj 1) with 1. field.
  - set (l' := x :: l). assert (Hl : l' <> []) by (unfold l'; congruence).
    pose proof (mean_times_n l' Hl) as Hs.
    assert (Hp : 0 < inj (length l')) by (apply inj_pos; unfold l'; cbn; lia).
    unfold mean at 1. rewrite qsum_app, app_length. cbn [qsum length].
    replace (length l' + 1)%nat with (S (length l')) by lia.
    rewrite Hs. rewrite inj_S. field. lra.
Qed.

Lemma m2_alt : forall l, m2 l == qsum (map (fun x => x * x) l) - inj (length l) * mean l * mean l.
Proof.
  intros l. unfold m2. rewrite qsum_sq_shift. destruct l as [|x l].
  - cbn [map qsum length]. rewrite inj_0. lra.
  - rewrite (mean_times_n (x :: l)) by congruence. lra.
Qed.

Lemma m2_snoc : forall l r, m2 (l ++ [r]) == m2 l + (r - mean l) * (r - mean (l ++ [r])).
Proof.
  intros l r. rewrite !m2_alt. rewrite map_app, qsum_app, app_length. cbn [map qsum length].
  replace (length l + 1)%nat with (S (length l)) by lia.
  rewrite mean_snoc. rewrite inj_S.
  destruct l as [|x l].
  - cbn [map qsum length]. rewrite mean_nil. change (inj 0) with 0. field.
  - set (l' := x :: l). assert (Hp : 0 < inj (length l')) by (apply inj_pos; unfold l'; cbn; lia).
    set (n := inj (length l')) in *. set (mu := mean l'). set (q := qsum (map (fun x => x * x) l')).
    field. lra.
Qed.

(* executable twins *)
Lemma qsum_x_eq : forall l, qsum_x l == qsum l.
Proof. induction l as [|x l IH]; cbn [qsum_x qsum]; [reflexivity| rewrite Qred_correct, IH; reflexivity]. Qed.

Lemma mean_x_eq : forall l, mean_x l == mean l.
Proof. intros; unfold mean_x, mean. rewrite Qred_correct, qsum_x_eq. reflexivity. Qed.

Lemma m2_x_eq : forall l, m2_x l == m2 l.
Proof.
  intros; unfold m2_x, m2. rewrite qsum_x_eq.
  apply qsum_map_ext. intros x _. rewrite Qred_correct, mean_x_eq. reflexivity.
Qed.

Lemma freq_x_eq : forall h s a s1, freq_x h s a s1 == freq h s a s1.
Proof. intros; unfold freq_x; apply Qred_correct. Qed.

(* ------------------------------------------------------------------ history lemmas *)
Lemma rewards_of_snoc : forall h s a x,
  rewards_of (h ++ [x]) s a = if is_sa s a x then rewards_of h s a ++ [h_r x] else rewards_of h s a.
Proof.
  intros; unfold rewards_of. rewrite filter_app. cbn [filter].
  destruct (is_sa s a x); [rewrite map_app; reflexivity| rewrite app_nil_r; reflexivity].
Qed.
Lemma countsum_snoc : forall h s a x,
  countsum (h ++ [x]) s a = if is_sa s a x then S (countsum h s a) else countsum h s a.
Proof.
  intros; unfold countsum. rewrite filter_app. cbn [filter].
  destruct (is_sa s a x); [rewrite app_length; cbn; lia| rewrite app_nil_r; reflexivity].
Qed.
Lemma count_snoc : forall h s a s1 x,
  count (h ++ [x]) s a s1 = if is_sas s a s1 x then S (count h s a s1) else count h s a s1.
Proof.
  intros; unfold count. rewrite filter_app. cbn [filter].
  destruct (is_sas s a s1 x); [rewrite app_length; cbn; lia| rewrite app_nil_r; reflexivity].
Qed.
Lemma countsum_rewards : forall h s a, length (rewards_of h s a) = countsum h s a.
Proof. intros; unfold rewards_of, countsum; apply map_length. Qed.

Lemma is_sa_iff : forall s a s' a' s1 r, is_sa s a (s', a', s1, r) = true <-> (s' = s /\ a' = a).
Proof.
  intros; unfold is_sa, h_s, h_a; cbn [fst snd]. rewrite andb_true_iff, !Nat.eqb_eq. tauto.
Qed.
Lemma is_sas_iff : forall s a s1 s' a' s1' r, is_sas s a s1 (s', a', s1', r) = true <-> (s' = s /\ a' = a /\ s1' = s1).
Proof.
  intros; unfold is_sas. rewrite andb_true_iff, is_sa_iff. unfold h_s1; cbn [fst snd]. rewrite Nat.eqb_eq. tauto.
Qed.

(* ------------------------------------------------------------------ experience invariants *)
Definition exp_wf (e : exp) : Prop :=
  wf3 (eA e) (eS e) (eS e) (e_vis e) /\ wf2 (eS e) (eA e) (e_sum e) /\
  wf2 (eS e) (eA e) (e_rew e) /\ wf2 (eS e) (eA e) (e_m2 e).

Lemma exp_wf_new : forall S A, exp_wf (exp_new S A).
Proof.
  intros; unfold exp_wf, exp_new; cbn [eS eA e_vis e_sum e_rew e_m2].
  split; [apply wf3_mk3|]. split; [apply wf2_mk2|]. split; apply wf2_mk2.
Qed.

Lemma exp_wf_record : forall e s a s1 r, exp_wf e -> exp_wf (exp_record e s a s1 r).
Proof.
  intros e s a s1 r (H1 & H2 & H3 & H4). unfold exp_wf, exp_record; cbn [eS eA e_vis e_sum e_rew e_m2].
  split; [apply wf3_upd3; assumption|]. split; [apply wf2_upd2; assumption|].
  split; apply wf2_upd2; assumption.
Qed.

Lemma exp_record_dims : forall e s a s1 r, eS (exp_record e s a s1 r) = eS e /\ eA (exp_record e s a s1 r) = eA e.
Proof. intros; split; reflexivity. Qed.

(* accessors after record *)
Lemma NN_record_eq : forall e s a s1 r, exp_wf e -> (s < eS e)%nat -> (a < eA e)%nat ->
  NN (exp_record e s a s1 r) s a = S (NN e s a).
Proof. intros e s a s1 r (_ & H2 & _) Hs Ha. unfold NN, exp_record; cbn [e_sum]. eapply get2_upd2_eq; eauto. Qed.
Lemma NN_record_neq : forall e s a s1 r s' a', (s <> s' \/ a <> a') ->
  NN (exp_record e s a s1 r) s' a' = NN e s' a'.
Proof. intros. unfold NN, exp_record; cbn [e_sum]. apply get2_upd2_neq; assumption. Qed.
Lemma V_record_eq : forall e s a s1 r, exp_wf e -> (s < eS e)%nat -> (a < eA e)%nat -> (s1 < eS e)%nat ->
  V (exp_record e s a s1 r) s a s1 = S (V e s a s1).
Proof. intros e s a s1 r (H1 & _) Hs Ha Hs1. unfold V, exp_record; cbn [e_vis]. eapply get3_upd3_eq; eauto. Qed.
Lemma V_record_neq : forall e s a s1 r s' a' i, (s <> s' \/ a <> a' \/ s1 <> i) ->
  V (exp_record e s a s1 r) s' a' i = V e s' a' i.
Proof. intros. unfold V, exp_record; cbn [e_vis]. apply get3_upd3_neq. tauto. Qed.
Lemma Rw_record_eqL : forall e s a s1 r, exp_wf e -> (s < eS e)%nat -> (a < eA e)%nat ->
  Rw (exp_record e s a s1 r) s a = Qred (Rw e s a + (r - Rw e s a) / inj (S (NN e s a))).
Proof.
  intros e s a s1 r (_ & _ & H3 & _) Hs Ha. unfold Rw at 1, exp_record; cbn [e_rew].
  erewrite get2_upd2_eq by eauto. reflexivity.
Qed.
Lemma Rw_record_eq : forall e s a s1 r, exp_wf e -> (s < eS e)%nat -> (a < eA e)%nat ->
  Rw (exp_record e s a s1 r) s a == Rw e s a + (r - Rw e s a) / inj (S (NN e s a)).
Proof. intros. rewrite Rw_record_eqL by assumption. apply Qred_correct. Qed.
Lemma Rw_record_neq : forall e s a s1 r s' a', (s <> s' \/ a <> a') ->
  Rw (exp_record e s a s1 r) s' a' = Rw e s' a'.
Proof. intros. unfold Rw, exp_record; cbn [e_rew]. apply get2_upd2_neq; assumption. Qed.
Lemma M2_record_eq : forall e s a s1 r, exp_wf e -> (s < eS e)%nat -> (a < eA e)%nat ->
  M2 (exp_record e s a s1 r) s a ==
  M2 e s a + (r - Rw e s a) * (r - Rw (exp_record e s a s1 r) s a).
Proof.
  intros e s a s1 r Hwf Hs Ha. pose proof Hwf as (_ & _ & H3 & H4).
  rewrite Rw_record_eqL by assumption.
  unfold M2 at 1, exp_record; cbn [e_m2].
  erewrite get2_upd2_eq by eauto. rewrite Qred_correct. reflexivity.
Qed.
Lemma M2_record_neq : forall e s a s1 r s' a', (s <> s' \/ a <> a') ->
  M2 (exp_record e s a s1 r) s' a' = M2 e s' a'.
Proof. intros. unfold M2, exp_record; cbn [e_m2]. apply get2_upd2_neq; assumption. Qed.

(* accessors of a fresh / reset experience *)
Lemma new_accessors : forall S A s a, (s < S)%nat -> (a < A)%nat ->
  NN (exp_new S A) s a = 0%nat /\ Rw (exp_new S A) s a = 0 /\ M2 (exp_new S A) s a = 0 /\
  forall s1, (s1 < S)%nat -> V (exp_new S A) s a s1 = 0%nat.
Proof.
  intros S A s a Hs Ha. unfold NN, Rw, M2, V, exp_new; cbn [e_sum e_rew e_m2 e_vis].
  rewrite !get2_mk2 by assumption. repeat split; auto. intros s1 Hs1. apply get3_mk3; assumption.
Qed.

(* the experience mirrors the history [h] *)
Definition mirrors (e : exp) (h : list hrec) : Prop :=
  e_ts e = length h /\
  forall s a, (s < eS e)%nat -> (a < eA e)%nat ->
    (forall s1, (s1 < eS e)%nat -> V e s a s1 = count h s a s1) /\
    NN e s a = countsum h s a /\
    Rw e s a == mean (rewards_of h s a) /\
    M2 e s a == m2 (rewards_of h s a).

Lemma mirrors_new : forall S A, mirrors (exp_new S A) [].
Proof.
  intros S A; split; [reflexivity|]. intros s a Hs Ha. cbn [eS eA exp_new] in Hs, Ha.
  destruct (new_accessors S A s a Hs Ha) as (H1 & H2 & H3 & H4).
  repeat split.
  - intros s1 Hs1. rewrite H4 by exact Hs1. reflexivity.
  - rewrite H1. reflexivity.
  - rewrite H2. reflexivity.
  - rewrite H3. reflexivity.
Qed.

Lemma mirrors_record : forall e h s a s1 r, exp_wf e -> (s < eS e)%nat -> (a < eA e)%nat -> (s1 < eS e)%nat ->
  mirrors e h -> mirrors (exp_record e s a s1 r) (h ++ [(s, a, s1, r)]).
Proof.
  intros e h s a s1 r Hwf Hs Ha Hs1 [Hts Hm]. split.
  - cbn [exp_record e_ts]. rewrite app_length, Hts. cbn; lia.
  - intros s' a' Hs' Ha'. cbn [exp_record eS eA] in Hs', Ha'.
    destruct (Hm s' a' Hs' Ha') as (HV & HN & HR & HM).
    rewrite rewards_of_snoc, countsum_snoc.
    destruct (is_sa s' a' (s, a, s1, r)) eqn:E.
    + apply is_sa_iff in E. destruct E as [<- <-].
      assert (HR' : Rw (exp_record e s a s1 r) s a == mean (rewards_of h s a ++ [r])).
      { rewrite Rw_record_eq by assumption. rewrite mean_snoc, countsum_rewards, HN, HR. reflexivity. }
      repeat split.
      * intros i Hi. cbn [exp_record eS] in Hi. rewrite count_snoc.
        destruct (is_sas s a i (s, a, s1, r)) eqn:E2.
        -- apply is_sas_iff in E2. destruct E2 as (_ & _ & <-). rewrite V_record_eq by assumption.
           rewrite HV by assumption. reflexivity.
        -- assert (s1 <> i) by (intros ->; rewrite (proj2 (is_sas_iff s a i s a i r)) in E2 by auto; discriminate).
           rewrite V_record_neq by tauto. apply HV; exact Hi.
      * rewrite NN_record_eq by assumption. rewrite HN. reflexivity.
      * exact HR'.
      * rewrite M2_record_eq by assumption. unfold h_r; cbn [snd]. rewrite m2_snoc, HM, HR', HR. reflexivity.
    + assert (Hne : s <> s' \/ a <> a').
      { destruct (Nat.eq_dec s s'), (Nat.eq_dec a a'); auto. subst.
        rewrite (proj2 (is_sa_iff s' a' s' a' s1 r)) in E by auto. discriminate. }
      repeat split.
      * intros i Hi. rewrite count_snoc.
        destruct (is_sas s' a' i (s, a, s1, r)) eqn:E2.
        -- apply is_sas_iff in E2. destruct E2 as (-> & -> & _). destruct Hne; congruence.
        -- rewrite V_record_neq by tauto. apply HV; exact Hi.
      * rewrite NN_record_neq by assumption. exact HN.
      * rewrite Rw_record_neq by assumption. exact HR.
      * rewrite M2_record_neq by assumption. exact HM.
Qed.

Lemma exp_step_wf : forall e o, exp_wf e -> exp_wf (exp_step e o).
Proof.
  intros e [s a s1 r| | | |] H; cbn [exp_step]; auto.
  - apply exp_wf_record; exact H.
  - apply exp_wf_new.
Qed.
Lemma exp_step_dims : forall e o, eS (exp_step e o) = eS e /\ eA (exp_step e o) = eA e.
Proof. intros e [s a s1 r| | | |]; cbn [exp_step]; split; reflexivity. Qed.

Lemma mirrors_step : forall e h o, exp_wf e -> op_in_range (eS e) (eA e) o = true ->
  mirrors e h -> mirrors (exp_step e o) (hist_step h o).
Proof.
  intros e h [s a s1 r| | | |] Hwf Hr Hm; cbn [exp_step hist_step]; auto.
  - cbn [op_in_range] in Hr. rewrite !andb_true_iff, !Nat.ltb_lt in Hr. destruct Hr as [[Hs Ha] Hs1].
    apply mirrors_record; assumption.
  - apply mirrors_new.
Qed.

Lemma exp_fold_inv : forall ops e h, exp_wf e -> ops_in_range (eS e) (eA e) ops = true -> mirrors e h ->
  let e' := fold_left exp_step ops e in
  exp_wf e' /\ eS e' = eS e /\ eA e' = eA e /\ mirrors e' (fold_left hist_step ops h).
Proof.
  induction ops as [|o ops IH]; intros e h Hwf Hr Hm; cbn [fold_left].
  - auto.
  - cbn [ops_in_range forallb] in Hr. apply andb_true_iff in Hr. destruct Hr as [Ho Hr].
    destruct (exp_step_dims e o) as [ES EA].
    specialize (IH (exp_step e o) (hist_step h o) (exp_step_wf e o Hwf)).
    rewrite ES, EA in IH. specialize (IH Hr (mirrors_step e h o Hwf Ho Hm)).
    cbn zeta in IH. exact IH.
Qed.

(* welford_exact: after ANY in-range op sequence the experience reports exactly the statistics of
   the records since the last reset *)
Lemma welford_exact_lemma : forall S A ops, ops_in_range S A ops = true ->
  let e := exp_after S A ops in let h := hist_of ops in
  e_ts e = length h /\
  forall s a, (s < S)%nat -> (a < A)%nat ->
    (forall s1, (s1 < S)%nat -> V e s a s1 = count h s a s1) /\
    NN e s a = countsum h s a /\
    Rw e s a == mean (rewards_of h s a) /\
    M2 e s a == m2 (rewards_of h s a).
Proof.
  intros S A ops Hr. cbn zeta. unfold exp_after, hist_of.
  destruct (exp_fold_inv ops (exp_new S A) [] (exp_wf_new S A) Hr (mirrors_new S A)) as (_ & ES & EA & Hm).
  cbn [exp_new eS eA] in ES, EA. unfold mirrors in Hm. rewrite ES, EA in Hm. exact Hm.
Qed.

(* setVisitsTable: sums are the row sums of the table that was set *)
Lemma setVisits_sums : forall e v s a, (s < eS e)%nat -> (a < eA e)%nat ->
  NN (exp_setVisits e v) s a = nsum (nth s (nth a v []) []) /\
  (forall s1, V (exp_setVisits e v) s a s1 = nth s1 (nth s (nth a v []) []) 0%nat).
Proof.
  intros e v s a Hs Ha. split; [|reflexivity].
  unfold NN, exp_setVisits, get2; cbn [e_sum].
  rewrite (nth_indep _ [] (map (fun a0 => nsum (nth 0 (nth a0 v []) [])) (seq 0 (eA e)))) by (rewrite map_length, seq_length; exact Hs).
  rewrite (map_nth (fun s0 => map (fun a0 => nsum (nth s0 (nth a0 v []) [])) (seq 0 (eA e)))).
  rewrite seq_nth by exact Hs. cbn [plus].
  rewrite (nth_indep _ 0%nat (nsum (nth s (nth 0 v []) []))) by (rewrite map_length, seq_length; exact Ha).
  rewrite (map_nth (fun a0 => nsum (nth s (nth a0 v []) []))).
  rewrite seq_nth by exact Ha. reflexivity.
Qed.
