(* C07/Spec.v — what "mirrors the recorded history" means, written from the raw history
   (list of recorded transitions since the last reset), independently of the running updates.
   Also: the boolean precondition tracker of the incremental sync, and Qred-normalised executable
   twins of the statistics (used by the driver's oracle; proved equal in Proofs.v). *)
From Coq Require Import List Arith ZArith QArith Bool.
From AIT Require Import Base.Qx C07.Model.
Import ListNotations.
Local Open Scope Q_scope.

Definition hrec : Type := (nat * nat * nat * Q)%type.      (* (s, a, s1, reward) *)
Definition h_s (x : hrec) := fst (fst (fst x)).
Definition h_a (x : hrec) := snd (fst (fst x)).
Definition h_s1 (x : hrec) := snd (fst x).
Definition h_r (x : hrec) := snd x.

(* the recorded history an op sequence leaves behind: reset forgets, syncs do not touch it *)
Definition hist_step (h : list hrec) (o : op) : list hrec :=
  match o with
  | ORecord s a s1 r => h ++ [(s, a, s1, r)]
  | OReset => []
  | _ => h
  end.
Definition hist_of (ops : list op) : list hrec := fold_left hist_step ops [].

Definition is_sa (s a : nat) (x : hrec) : bool := (h_s x =? s)%nat && (h_a x =? a)%nat.
Definition is_sas (s a s1 : nat) (x : hrec) : bool := is_sa s a x && (h_s1 x =? s1)%nat.

Definition rewards_of (h : list hrec) (s a : nat) : list Q := map h_r (filter (is_sa s a) h).
Definition countsum (h : list hrec) (s a : nat) : nat := length (filter (is_sa s a) h).
Definition count (h : list hrec) (s a s1 : nat) : nat := length (filter (is_sas s a s1) h).

(* sample statistics of a list of rewards *)
Definition mean (l : list Q) : Q := qsum l / inj (length l).
Definition m2 (l : list Q) : Q := qsum (map (fun r => (r - mean l) * (r - mean l)) l).
(* empirical transition frequency *)
Definition freq (h : list hrec) (s a s1 : nat) : Q := inj (count h s a s1) / inj (countsum h s a).

(* bandit history: (arm, reward) since the last reset *)
Definition bhist_step (h : list (nat * Q)) (o : bop) : list (nat * Q) :=
  match o with BRecord a r => h ++ [(a, r)] | BReset => [] end.
Definition bhist_of (ops : list bop) : list (nat * Q) := fold_left bhist_step ops [].
Definition arm_rewards (h : list (nat * Q)) (a : nat) : list Q := map snd (filter (fun x => (fst x =? a)%nat) h).
Definition bop_in_range (A : nat) (o : bop) : bool := match o with BRecord a _ => (a <? A)%nat | BReset => true end.

(* executable twins (Qred after every addition so numerators/denominators stay small) *)
Fixpoint qsum_x (l : list Q) : Q := match l with [] => 0 | x :: t => Qred (x + qsum_x t) end.
Definition mean_x (l : list Q) : Q := Qred (qsum_x l / inj (length l)).
Definition m2_x (l : list Q) : Q :=
  let mu := mean_x l in qsum_x (map (fun r => Qred ((r - mu) * (r - mu))) l).
Definition freq_x (h : list hrec) (s a s1 : nat) : Q := Qred (freq h s a s1).

(* ------------------------------------------------------------------ ranges *)
Definition op_in_range (S A : nat) (o : op) : bool :=
  match o with
  | ORecord s a s1 _ => (s <? S)%nat && (a <? A)%nat && (s1 <? S)%nat
  | OSync2 s a => (s <? S)%nat && (a <? A)%nat
  | OSync3 s a s1 => (s <? S)%nat && (a <? A)%nat && (s1 <? S)%nat
  | _ => true
  end.
Definition ops_in_range (S A : nat) (ops : list op) : bool := forallb (op_in_range S A) ops.

Definition visits_pair (s a : nat) (o : op) : bool :=
  match o with ORecord s' a' _ _ => (s' =? s)%nat && (a' =? a)%nat | _ => false end.
(* (s,a) was never recorded anywhere in the sequence (resets do not make a pair "never visited") *)
Definition never_visited (ops : list op) (s a : nat) : bool := negb (existsb (visits_pair s a) ops).

(* ------------------------------------------------------------------ incremental-sync precondition *)
(* What is known about one row of the model relative to the current experience:
     RIdent     untouched identity row, pair has no visit
     RIdentPend untouched identity row, exactly one visit (to t_last) since
     RSynced    row = visits / visitSum (visitSum > 0), no record since
     RSyncPend  row = visits-before-the-last-record / (visitSum-1), exactly one record (to t_last) since
     RStale     anything else                                                                      *)
Inductive rowst := RIdent | RIdentPend | RSynced | RSyncPend | RStale.

Record trk := mkTrk {
  t_n : list (list nat);        (* [s][a] number of records since the last reset *)
  t_last : list (list nat);     (* [s][a] s1 of the most recent record *)
  t_st : list (list rowst);     (* [s][a] *)
  t_bad : bool }.               (* an incremental sync was called outside its precondition *)

Definition tN (t : trk) s a := get2 0%nat (t_n t) s a.
Definition tLast (t : trk) s a := get2 0%nat (t_last t) s a.
Definition tSt (t : trk) s a := get2 RStale (t_st t) s a.

Definition trk_new (S A : nat) : trk := mkTrk (mk2 S A 0%nat) (mk2 S A 0%nat) (mk2 S A RStale) false.

(* status at construction time, from the counts alone *)
(* (a model built WITHOUT sync over pairs that already have data must be fully synced there first) *)
Definition st_ctor (toSync : bool) (n : nat) : rowst :=
  if (n =? 0)%nat then RIdent else if toSync then RSynced else RStale.
Definition trk_ctor (t : trk) (toSync : bool) : trk :=
  mkTrk (t_n t) (t_last t) (map (map (st_ctor toSync)) (t_n t)) false.

Definition st_record (x : rowst) : rowst :=
  match x with RIdent => RIdentPend | RSynced => RSyncPend | _ => RStale end.
Definition st_reset (x : rowst) : rowst :=
  match x with RIdent | RIdentPend => RIdent | _ => RStale end.

Definition trk_sync2 (t : trk) (s a : nat) : trk :=
  if (tN t s a =? 0)%nat then t
  else mkTrk (t_n t) (t_last t) (upd2 s a (fun _ => RSynced) (t_st t)) (t_bad t).

Definition trk_step (S A : nat) (t : trk) (o : op) : trk :=
  match o with
  | ORecord s a s1 _ =>
      mkTrk (upd2 s a Datatypes.S (t_n t)) (upd2 s a (fun _ => s1) (t_last t)) (upd2 s a st_record (t_st t)) (t_bad t)
  | OReset => mkTrk (mk2 S A 0%nat) (t_last t) (map (map st_reset) (t_st t)) (t_bad t)
  | OSyncAll =>
      fold_left (fun t a => fold_left (fun t s => trk_sync2 t s a) (seq 0 S) t) (seq 0 A) t
  | OSync2 s a => trk_sync2 t s a
  | OSync3 s a s1 =>
      if (tN t s a mod resync_period =? 0)%nat then trk_sync2 t s a
      else match tSt t s a with
           | RIdentPend | RSyncPend =>
               if (tLast t s a =? s1)%nat
               then mkTrk (t_n t) (t_last t) (upd2 s a (fun _ => RSynced) (t_st t)) (t_bad t)
               else mkTrk (t_n t) (t_last t) (upd2 s a (fun _ => RStale) (t_st t)) true
           | _ => mkTrk (t_n t) (t_last t) (upd2 s a (fun _ => RStale) (t_st t)) true
           end
  end.

Definition track (S A : nat) (pre : list op) (toSync : bool) (post : list op) : trk :=
  fold_left (trk_step S A) post (trk_ctor (fold_left (trk_step S A) pre (trk_new S A)) toSync).

(* the documented precondition: every incremental sync(s,a,s1) came after exactly one new record
   (s,a,s1) since that row was last in step with the experience (or hit the forced full resync) *)
Definition precond_ok (S A : nat) (pre : list op) (toSync : bool) (post : list op) : bool :=
  negb (t_bad (track S A pre toSync post)).

(* ------------------------------------------------------------------ row predicates *)
Definition row_is (m : mlm) (a s : nat) (S : nat) (f : nat -> Q) : Prop :=
  forall i, (i < S)%nat -> exists q, T m a s i = XFin q /\ q == f i.
Definition delta (i j : nat) : Q := if (i =? j)%nat then 1 else 0.

(* boolean checker for a row of doubles against the identity row, exact *)
Definition is_ident_rowb (S s : nat) (row : list Q) : bool :=
  (length row =? S)%nat &&
  forallb (fun p => Qeq_bool (snd p) (delta (fst p) s)) (combine (seq 0 S) row).

(* ------------------------------------------------------------------ cooperative (factored) experience *)
(* per-node history: (row id, next value of the feature, reward of the feature) *)
Definition rrec : Type := (nat * nat * Q)%type.
Definition row_rewards (h : list rrec) (id : nat) : list Q :=
  map snd (filter (fun x => (fst (fst x) =? id)%nat) h).
Definition row_count (h : list rrec) (id v : nat) : nat :=
  length (filter (fun x => (fst (fst x) =? id)%nat && (snd (fst x) =? v)%nat) h).

Definition crec : Type := (list nat * list nat * list nat * list Q)%type.   (* s, a, s1, rewards *)
Definition chist_step (h : list crec) (o : cop) : list crec :=
  match o with CRecord s a s1 rw => h ++ [(s, a, s1, rw)] | CReset => [] end.
Definition chist_of (ops : list cop) : list crec := fold_left chist_step ops [].
(* what node i sees of a joint record *)
Definition cproj (g : cgraph) (i : nat) (x : crec) : rrec :=
  let '(s, a, s1, rw) := x in (cg_id g i s a, nth i s1 0%nat, nth i rw 0).
(* in range: the row exists and the next value is a value of the feature *)
Definition cop_ok (g : cgraph) (o : cop) : bool :=
  match o with
  | CRecord s a s1 rw => forallb (fun i => (cg_id g i s a <? cg_size g i)%nat && (nth i s1 0 <? nth i (cgS g) 0)%nat)
                                 (seq 0 (length (cgS g)))
  | CReset => true
  end.

(* ------------------------------------------------------------------ cooperative learned model *)
(* statistics of row j of node i in a joint history *)
Definition ctot (g : cgraph) (h : list crec) (i j : nat) : nat := length (row_rewards (map (cproj g i) h) j).
Definition cfreq (g : cgraph) (h : list crec) (i j v : nat) : Q :=
  inj (row_count (map (cproj g i) h) j v) / inj (ctot g h i j).
Definition cmean (g : cgraph) (h : list crec) (i j : nat) : Q := mean (row_rewards (map (cproj g i) h) j).

(* the rows a sync form touches *)
Definition all_rows (g : cgraph) : list (nat * nat) :=
  flat_map (fun i => map (fun j => (i, j)) (seq 0 (cg_size g i))) (seq 0 (length (cgS g))).
Definition id_rows (g : cgraph) (ids : list nat) : list (nat * nat) :=
  map (fun i => (i, nth i ids 0%nat)) (seq 0 (length (cgS g))).
Definition sa_rows (g : cgraph) (s a : list nat) : list (nat * nat) :=
  map (fun i => (i, cg_id g i s a)) (seq 0 (length (cgS g))).
Definition pair_in (i j : nat) (l : list (nat * nat)) : bool :=
  existsb (fun p => (fst p =? i)%nat && (snd p =? j)%nat) l.

(* which rows are currently in step with the experience: synced (with data) and not hit by a record since *)
Definition cmark : Type := nat -> nat -> bool.
Definition cmark_sync (g : cgraph) (h : list crec) (mk : cmark) (l : list (nat * nat)) : cmark :=
  fun i j => mk i j || (pair_in i j l && (0 <? ctot g h i j)%nat).
Definition ctrk_step (g : cgraph) (st : list crec * cmark) (o : cop2) : list crec * cmark :=
  let '(h, mk) := st in
  match o with
  | C2Exp (CRecord s a s1 rw) => (h ++ [(s, a, s1, rw)], fun i j => if (j =? cg_id g i s a)%nat then false else mk i j)
  | C2Exp CReset => ([], fun _ _ => false)
  | C2SyncAll => (h, cmark_sync g h mk (all_rows g))
  | C2SyncSA s a => (h, cmark_sync g h mk (sa_rows g s a))
  | C2SyncIds ids => (h, cmark_sync g h mk (id_rows g ids))
  end.
Definition ctrack (g : cgraph) (pre : list cop) (toSync : bool) (post : list cop2) : list crec * cmark :=
  let h0 := chist_of pre in
  fold_left (ctrk_step g) post (h0, fun i j => toSync && pair_in i j (all_rows g) && (0 <? ctot g h0 i j)%nat).

Definition cop2_ok (g : cgraph) (o : cop2) : bool :=
  match o with
  | C2Exp o' => cop_ok g o'
  | C2SyncIds ids => forallb (fun i => (nth i ids 0 <? cg_size g i)%nat) (seq 0 (length (cgS g)))
  | C2SyncSA s a => forallb (fun i => (cg_id g i s a <? cg_size g i)%nat) (seq 0 (length (cgS g)))
  | C2SyncAll => true
  end.
(* row (i,j) is never the target of a record *)
Definition cnever (g : cgraph) (i j : nat) (o : cop) : bool :=
  match o with CRecord s a _ _ => negb (cg_id g i s a =? j)%nat | CReset => true end.
Definition cnever2 (g : cgraph) (i j : nat) (o : cop2) : bool :=
  match o with C2Exp o' => cnever g i j o' | _ => true end.

(* ------------------------------------------------------------------ factored bandit experience *)
Definition fbhist_step (h : list (list nat * list Q)) (o : fbop) : list (list nat * list Q) :=
  match o with FRecord a rw => h ++ [(a, rw)] | FReset => [] end.
Definition fbhist_of (ops : list fbop) : list (list nat * list Q) := fold_left fbhist_step ops [].
(* what group i sees of a joint record: (local arm, local reward) *)
Definition fbproj (A : list nat) (deps : list (list nat)) (i : nat) (x : list nat * list Q) : nat * Q :=
  (pidx (nth i deps []) A (fst x), nth i (snd x) 0).
Definition fbop_ok (A : list nat) (deps : list (list nat)) (o : fbop) : bool :=
  match o with
  | FRecord a _ => forallb (fun i => (pidx (nth i deps []) A a <? pspace (nth i deps []) A)%nat) (seq 0 (length deps))
  | FReset => true
  end.
