(* C07/ProofsTop.v — constructor, whole runs, and the property-level lemmas of C07. *)
From Coq Require Import List Arith ZArith QArith Bool Lia Lqa.
From AIT Require Import Base.Qx C07.Model C07.Spec C07.ProofsExp C07.ProofsMl C07.ProofsInv.
Import ListNotations.
Local Open Scope Q_scope.

(* ------------------------------------------------------------------ tracker before the model exists *)
Lemma trk_step_sync_n : forall S A t o,
  match o with ORecord _ _ _ _ | OReset => True | _ =>
    t_n (trk_step S A t o) = t_n t /\ (trk_wf S A t -> trk_wf S A (trk_step S A t o)) end.
Proof.
  intros S A t [s a s1 r| | |s a|s a s1]; try exact I.
  - rewrite trk_sync_all_as_nfold.
    pose proof (nfold_preserve (fun t a s => trk_sync2 t s a) (seq 0 A) (seq 0 S) (fun t' => t_n t' = t_n t)) as L1.
    pose proof (nfold_preserve (fun t a s => trk_sync2 t s a) (seq 0 A) (seq 0 S) (fun t' => trk_wf S A t')) as L2.
    split.
    + apply L1; [|reflexivity]. intros x a s _ _ Hx. destruct (trk_sync2_n x s a) as (-> & _). exact Hx.
    + intros W. apply L2; [|exact W]. intros x a s _ _ Hx. apply trk_sync2_wf; exact Hx.
  - cbn [trk_step]. split; [apply trk_sync2_n| apply trk_sync2_wf].
  - cbn [trk_step]. destruct (tN t s a mod resync_period =? 0)%nat; [split; [apply trk_sync2_n| apply trk_sync2_wf]|].
    assert (G : forall st b, t_n (mkTrk (t_n t) (t_last t) (upd2 s a (fun _ => st) (t_st t)) b) = t_n t /\
                (trk_wf S A t -> trk_wf S A (mkTrk (t_n t) (t_last t) (upd2 s a (fun _ => st) (t_st t)) b))).
    { intros st b; split; [reflexivity|]. intros (W1 & W2 & W3). apply trk_wf_intro; try assumption. apply wf2_upd2; assumption. }
    destruct (tSt t s a); try apply G; destruct (tLast t s a =? s1)%nat; apply G.
Qed.

Definition preinv (e : exp) (t : trk) : Prop :=
  exp_wf e /\ trk_wf (eS e) (eA e) t /\
  (forall s a, (s < eS e)%nat -> (a < eA e)%nat -> tN t s a = NN e s a) /\
  (forall s a, (s < eS e)%nat -> (a < eA e)%nat -> NN e s a = 0%nat -> forall i, (i < eS e)%nat -> V e s a i = 0%nat).

Lemma preinv_new : forall S A, preinv (exp_new S A) (trk_new S A).
Proof.
  intros S A. split; [apply exp_wf_new|]. split; [apply trk_wf_new|]. cbn [exp_new eS eA]. split.
  - intros s a Hs Ha. destruct (new_accessors S A s a Hs Ha) as (-> & _). unfold tN, trk_new; cbn [t_n]. apply get2_mk2; assumption.
  - intros s a Hs Ha _ i Hi. destruct (new_accessors S A s a Hs Ha) as (_ & _ & _ & H). apply H; exact Hi.
Qed.

Lemma preinv_step : forall e t o, op_in_range (eS e) (eA e) o = true -> preinv e t ->
  preinv (exp_step e o) (trk_step (eS e) (eA e) t o).
Proof.
  intros e t o Hr (We & Wt & HN & HZ). pose proof Wt as (W1 & W2 & W3).
  destruct o as [s a s1 r| | |s a|s a s1].
  - cbn [op_in_range] in Hr. rewrite !andb_true_iff, !Nat.ltb_lt in Hr. destruct Hr as [[Hs Ha] Hs1].
    cbn [exp_step trk_step]. split; [apply exp_wf_record; exact We|]. cbn [exp_record eS eA]. split.
    { apply trk_wf_intro; apply wf2_upd2; assumption. }
    split.
    + intros s' a' Hs' Ha'. unfold tN; cbn [t_n].
      destruct (Nat.eq_dec s s') as [<-|Ns]; [destruct (Nat.eq_dec a a') as [<-|Na]|].
      * erewrite get2_upd2_eq by eauto. rewrite NN_record_eq by assumption. f_equal. apply HN; assumption.
      * rewrite get2_upd2_neq by auto. rewrite NN_record_neq by auto. apply HN; assumption.
      * rewrite get2_upd2_neq by auto. rewrite NN_record_neq by auto. apply HN; assumption.
    + intros s' a' Hs' Ha' Hz i Hi.
      destruct (Nat.eq_dec s s') as [<-|Ns]; [destruct (Nat.eq_dec a a') as [<-|Na]|].
      * rewrite NN_record_eq in Hz by assumption. discriminate.
      * rewrite NN_record_neq in Hz by auto. rewrite V_record_neq by auto. apply HZ; assumption.
      * rewrite NN_record_neq in Hz by auto. rewrite V_record_neq by auto. apply HZ; assumption.
  - cbn [exp_step trk_step]. unfold exp_reset. split; [apply exp_wf_new|]. cbn [exp_new eS eA]. split.
    { apply trk_wf_intro; [apply wf2_mk2| assumption| apply wf2_map2; assumption]. }
    split.
    + intros s a Hs Ha. destruct (new_accessors (eS e) (eA e) s a Hs Ha) as (-> & _). unfold tN; cbn [t_n]. apply get2_mk2; assumption.
    + intros s a Hs Ha _ i Hi. destruct (new_accessors (eS e) (eA e) s a Hs Ha) as (_ & _ & _ & H). apply H; exact Hi.
  - destruct (trk_step_sync_n (eS e) (eA e) t OSyncAll) as [E W]. cbn [exp_step].
    split; [exact We|]. split; [apply W; exact Wt|]. split; [|exact HZ].
    intros s a Hs Ha. unfold tN. rewrite E. apply HN; assumption.
  - destruct (trk_step_sync_n (eS e) (eA e) t (OSync2 s a)) as [E W]. cbn [exp_step].
    split; [exact We|]. split; [apply W; exact Wt|]. split; [|exact HZ].
    intros s' a' Hs' Ha'. unfold tN. rewrite E. apply HN; assumption.
  - destruct (trk_step_sync_n (eS e) (eA e) t (OSync3 s a s1)) as [E W]. cbn [exp_step].
    split; [exact We|]. split; [apply W; exact Wt|]. split; [|exact HZ].
    intros s' a' Hs' Ha'. unfold tN. rewrite E. apply HN; assumption.
Qed.

Lemma preinv_fold : forall ops e t, ops_in_range (eS e) (eA e) ops = true -> preinv e t ->
  preinv (fold_left exp_step ops e) (fold_left (trk_step (eS e) (eA e)) ops t).
Proof.
  induction ops as [|o ops IH]; intros e t Hr H; cbn [fold_left]; [exact H|].
  cbn [ops_in_range forallb] in Hr. apply andb_true_iff in Hr. destruct Hr as [Ho Hr].
  destruct (exp_step_dims e o) as [ES EA].
  specialize (IH (exp_step e o) (trk_step (eS e) (eA e) t o)). rewrite ES, EA in IH.
  apply IH; [exact Hr| apply preinv_step; assumption].
Qed.

(* ------------------------------------------------------------------ the constructor *)
Lemma ident_rows_T : forall S A a s i, (a < A)%nat -> (s < S)%nat -> (i < S)%nat ->
  get3 XIndet (repeat (map (fun s0 => ident_row S s0) (seq 0 S)) A) a s i = if (i =? s)%nat then XFin 1 else XFin 0.
Proof.
  intros S A a s i Ha Hs Hi. unfold get3. rewrite nth_repeat_lt by exact Ha.
  rewrite nth_map_seq by exact Hs. unfold ident_row. rewrite nth_map_seq by exact Hi. reflexivity.
Qed.

Lemma ident_rows_wf : forall S A, wf3 A S S (repeat (map (fun s0 => ident_row S s0) (seq 0 S)) A).
Proof.
  intros S A. split; [apply repeat_length|]. intros a Ha. rewrite nth_repeat_lt by exact Ha.
  split; [rewrite map_length, seq_length; reflexivity|]. intros s Hs.
  rewrite nth_map_seq by exact Hs. unfold ident_row. rewrite map_length, seq_length. reflexivity.
Qed.

Definition dstep (e : exp) (m : mlm) (a s : nat) : mlm :=
  if (NN e s a =? 0)%nat then mkMl (upd3 a s s (fun _ => XFin 1) (m_tr m)) (m_rw m) else m.

Lemma ctor_sync_shape : forall fixed e,
  ml_ctor fixed e true =
  nfold (dstep e) (seq 0 (eA e)) (seq 0 (eS e))
        (ml_sync_all e (mkMl (mk3 (eA e) (eS e) (eS e) (if fixed then XFin 0 else XIndet)) (mk2 (eS e) (eA e) 0))).
Proof. reflexivity. Qed.

Lemma dstep_wf : forall e m a s, ml_wf (eS e) (eA e) m -> ml_wf (eS e) (eA e) (dstep e m a s).
Proof.
  intros e m a s [W1 W2]. unfold dstep. destruct (NN e s a =? 0)%nat; [|split; assumption].
  split; cbn [m_tr m_rw]; [apply wf3_upd3; exact W1| exact W2].
Qed.
Lemma dstep_R : forall e m a s s' a', Rm (dstep e m a s) s' a' = Rm m s' a'.
Proof. intros. unfold dstep. destruct (NN e s a =? 0)%nat; reflexivity. Qed.
Lemma dstep_T_other : forall e m a s a' s' i, (a <> a' \/ s <> s' \/ s <> i \/ NN e s a <> 0%nat) ->
  T (dstep e m a s) a' s' i = T m a' s' i.
Proof.
  intros e m a s a' s' i H. unfold dstep. destruct (NN e s a =? 0)%nat eqn:E; [|reflexivity].
  apply Nat.eqb_eq in E. unfold T; cbn [m_tr]. apply get3_upd3_neq. destruct H as [H|[H|[H|H]]]; auto; contradiction.
Qed.
Lemma dstep_T_diag : forall e m a s, ml_wf (eS e) (eA e) m -> (a < eA e)%nat -> (s < eS e)%nat -> NN e s a = 0%nat ->
  T (dstep e m a s) a s s = XFin 1.
Proof.
  intros e m a s [W1 _] Ha Hs Hz. unfold dstep. rewrite Hz. cbn [Nat.eqb]. unfold T; cbn [m_tr].
  erewrite get3_upd3_eq by eauto. reflexivity.
Qed.

(* rows of pairs without data after the sync=true constructor (repaired: zero-filled storage) *)
Lemma sync_all_frame : forall e m s a, NN e s a = 0%nat ->
  (forall i, T (ml_sync_all e m) a s i = T m a s i) /\ Rm (ml_sync_all e m) s a = Rm m s a.
Proof.
  intros e m s a Hz. rewrite sync_all_as_nfold.
  apply (nfold_preserve (fun m a s => ml_sync2 e m s a) (seq 0 (eA e)) (seq 0 (eS e))
           (fun m' => (forall i, T m' a s i = T m a s i) /\ Rm m' s a = Rm m s a)); [|split; reflexivity].
  intros x a' s' _ _ [H1 H2]. destruct (Nat.eq_dec s' s) as [->|Ns]; [destruct (Nat.eq_dec a' a) as [->|Na]|].
  - rewrite sync2_noop by exact Hz. split; assumption.
  - pose proof (sync2_touches e x s a') as Ht. split; [intros i; rewrite <- H1; eapply touches_frame_T; eauto| rewrite <- H2; eapply touches_frame_R; eauto].
  - pose proof (sync2_touches e x s' a') as Ht. split; [intros i; rewrite <- H1; eapply touches_frame_T; eauto| rewrite <- H2; eapply touches_frame_R; eauto].
Qed.

Lemma sync_all_wf : forall e m, ml_wf (eS e) (eA e) m -> ml_wf (eS e) (eA e) (ml_sync_all e m).
Proof.
  intros e m W. rewrite sync_all_as_nfold.
  apply (nfold_preserve (fun m a s => ml_sync2 e m s a) (seq 0 (eA e)) (seq 0 (eS e)) (fun m' => ml_wf (eS e) (eA e) m')); [|exact W].
  intros x a s _ _ Hx. eapply touches_wf; [apply sync2_touches| exact Hx].
Qed.

Lemma dfold_wf : forall e m, ml_wf (eS e) (eA e) m -> ml_wf (eS e) (eA e) (nfold (dstep e) (seq 0 (eA e)) (seq 0 (eS e)) m).
Proof.
  intros e m W. apply (nfold_preserve (dstep e) _ _ (fun m' => ml_wf (eS e) (eA e) m')); [|exact W].
  intros x a s _ _ Hx. apply dstep_wf; exact Hx.
Qed.

(* rows with data are not touched by the diagonal pass *)
Lemma dfold_frame : forall e m s a, NN e s a <> 0%nat ->
  (forall i, T (nfold (dstep e) (seq 0 (eA e)) (seq 0 (eS e)) m) a s i = T m a s i) /\
  Rm (nfold (dstep e) (seq 0 (eA e)) (seq 0 (eS e)) m) s a = Rm m s a.
Proof.
  intros e m s a Hn.
  apply (nfold_preserve (dstep e) _ _ (fun m' => (forall i, T m' a s i = T m a s i) /\ Rm m' s a = Rm m s a)); [|split; reflexivity].
  intros x a' s' _ _ [H1 H2]. split; [|rewrite dstep_R; exact H2].
  intros i. rewrite <- H1. apply dstep_T_other.
  destruct (Nat.eq_dec a' a) as [->|]; [|auto]. destruct (Nat.eq_dec s' s) as [->|]; auto.
Qed.

Lemma dfold_unvisited : forall e m s a, ml_wf (eS e) (eA e) m -> (s < eS e)%nat -> (a < eA e)%nat -> NN e s a = 0%nat ->
  let m' := nfold (dstep e) (seq 0 (eA e)) (seq 0 (eS e)) m in
  T m' a s s = XFin 1 /\ (forall i, i <> s -> T m' a s i = T m a s i) /\ Rm m' s a = Rm m s a.
Proof.
  intros e m s a W Hs Ha Hz. cbn zeta. split.
  - apply (nfold_establish (dstep e) _ _ (fun m' => ml_wf (eS e) (eA e) m') (fun m' => T m' a s s = XFin 1) a s); auto.
    + intros x a' s' _ _ Hx. apply dstep_wf; exact Hx.
    + intros x a' s' Ha' Hs' Hx Hq. apply in_seq in Ha'; apply in_seq in Hs'.
      destruct (Nat.eq_dec a' a) as [->|Na]; [destruct (Nat.eq_dec s' s) as [->|Ns]|].
      * apply dstep_T_diag; auto.
      * rewrite dstep_T_other by auto. exact Hq.
      * rewrite dstep_T_other by auto. exact Hq.
    + intros x Hx. apply dstep_T_diag; auto.
    + apply in_seq; lia.
    + apply in_seq; lia.
  - apply (nfold_preserve (dstep e) _ _ (fun m' => (forall i, i <> s -> T m' a s i = T m a s i) /\ Rm m' s a = Rm m s a)); [|split; reflexivity].
    intros x a' s' _ _ [H1 H2]. split; [|rewrite dstep_R; exact H2].
    intros i Hi. rewrite <- H1 by exact Hi. apply dstep_T_other.
    destruct (Nat.eq_dec a' a) as [->|]; [|auto]. destruct (Nat.eq_dec s' s) as [->|]; auto.
Qed.

Lemma mz_wf : forall S A x, ml_wf S A (mkMl (mk3 A S S x) (mk2 S A 0)).
Proof. intros; split; cbn [m_tr m_rw]; [apply wf3_mk3| apply wf2_mk2]. Qed.

Lemma ctor_wf : forall fixed e flag, ml_wf (eS e) (eA e) (ml_ctor fixed e flag).
Proof.
  intros fixed e [|].
  - rewrite ctor_sync_shape. apply dfold_wf. apply sync_all_wf. apply mz_wf.
  - unfold ml_ctor. split; cbn [m_tr m_rw]; [apply ident_rows_wf| apply wf2_mk2].
Qed.

(* unvisited pairs right after construction: identity row, zero reward *)
Lemma ctor_unvisited : forall fixed e flag s a, (fixed || negb flag = true) -> (s < eS e)%nat -> (a < eA e)%nat ->
  NN e s a = 0%nat ->
  row_is (ml_ctor fixed e flag) a s (eS e) (fun i => delta i s) /\ Rm (ml_ctor fixed e flag) s a = 0.
Proof.
  intros fixed e flag s a Hf Hs Ha Hz. destruct flag.
  - rewrite orb_false_r in Hf. subst fixed. rewrite ctor_sync_shape.
    set (mz := mkMl (mk3 (eA e) (eS e) (eS e) (XFin 0)) (mk2 (eS e) (eA e) 0)).
    destruct (sync_all_frame e mz s a Hz) as [F1 F2].
    destruct (dfold_unvisited e (ml_sync_all e mz) s a (sync_all_wf e mz (mz_wf _ _ _)) Hs Ha Hz) as (D1 & D2 & D3).
    split.
    + intros i Hi. destruct (Nat.eq_dec i s) as [->|Ne].
      * rewrite D1. eexists; split; [reflexivity|]. rewrite delta_eq; reflexivity.
      * rewrite D2 by exact Ne. rewrite F1. unfold T, mz; cbn [m_tr]. rewrite get3_mk3 by assumption.
        eexists; split; [reflexivity|]. rewrite delta_neq by exact Ne; reflexivity.
    + rewrite D3, F2. unfold Rm, mz; cbn [m_rw]. apply get2_mk2; assumption.
  - unfold ml_ctor. split.
    + intros i Hi. unfold T; cbn [m_tr]. rewrite ident_rows_T by assumption.
      unfold delta. destruct (i =? s)%nat; eexists; split; reflexivity.
    + unfold Rm; cbn [m_rw]. apply get2_mk2; assumption.
Qed.

Lemma trk_ctor_wf : forall S A t flag, trk_wf S A t -> trk_wf S A (trk_ctor t flag).
Proof. intros S A t flag (W1 & W2 & W3). unfold trk_ctor. apply trk_wf_intro; try assumption. apply wf2_map2; exact W1. Qed.

Lemma inv_ctor : forall fixed e t flag, (fixed || negb flag = true) -> preinv e t ->
  inv e (ml_ctor fixed e flag) (trk_ctor t flag).
Proof.
  intros fixed e t flag Hf (We & Wt & HN & HZ). pose proof Wt as (W1 & W2 & W3).
  split; [exact We|]. split; [apply ctor_wf|]. split; [apply trk_ctor_wf; exact Wt|].
  intros s a Hs Ha. unfold pair_inv.
  assert (ES : tSt (trk_ctor t flag) s a = st_ctor flag (tN t s a))
    by (unfold tSt, tN, trk_ctor; cbn [t_st]; eapply (get2_map2 _ _ (st_ctor flag) 0%nat); eauto).
  rewrite ES. unfold tN at 1, trk_ctor; cbn [t_n]. fold (tN t s a). rewrite (HN s a Hs Ha). split; [reflexivity|].
  unfold st_ctor. destruct (NN e s a =? 0)%nat eqn:E0.
  - apply Nat.eqb_eq in E0. destruct (ctor_unvisited fixed e flag s a Hf Hs Ha E0) as [R1 _].
    split; [exact E0|]. split; [apply HZ; assumption| exact R1].
  - apply Nat.eqb_neq in E0. destruct flag; [|exact I].
    rewrite ctor_sync_shape.
    set (mz := mkMl (mk3 (eA e) (eS e) (eS e) (if fixed then XFin 0 else XIndet)) (mk2 (eS e) (eA e) 0)).
    destruct (dfold_frame e (ml_sync_all e mz) s a E0) as [F1 F2].
    (* run sync() under the invariant from an all-stale tracker *)
    set (tz := mkTrk (t_n t) (t_last t) (mk2 (eS e) (eA e) RStale) false).
    assert (Hz : inv e mz tz).
    { split; [exact We|]. split; [apply mz_wf|]. split; [apply trk_wf_intro; try assumption; apply wf2_mk2|].
      intros s' a' Hs' Ha'. unfold pair_inv. unfold tSt, tz; cbn [t_st]. rewrite get2_mk2 by assumption.
      split; [|exact I]. unfold tN; cbn [t_n]. apply (HN s' a' Hs' Ha'). }
    pose proof (inv_sync_all e mz tz Hz) as (_ & _ & _ & HP).
    pose proof (sync_all_synced e mz tz s a Hz Hs Ha ltac:(lia)) as Hst.
    destruct (HP s a Hs Ha) as [_ P2]. rewrite Hst in P2. destruct P2 as (A1 & A2 & A3).
    split; [lia|]. split; [apply (row_is_frame (ml_sync_all e mz)); assumption| rewrite F2; exact A3].
Qed.

(* ------------------------------------------------------------------ whole runs *)
Lemma run_fold : forall post e m t, ops_in_range (eS e) (eA e) post = true -> inv e m t ->
  let st := fold_left step post (e, m) in
  inv (fst st) (snd st) (fold_left (trk_step (eS e) (eA e)) post t) /\ fst st = fold_left exp_step post e.
Proof.
  induction post as [|o post IH]; intros e m t Hr H; cbn [fold_left]; [cbn; auto|].
  cbn [ops_in_range forallb] in Hr. apply andb_true_iff in Hr. destruct Hr as [Ho Hr].
  destruct (exp_step_dims e o) as [ES EA].
  unfold step at 2; cbn [fst snd].
  specialize (IH (exp_step e o) (ml_step (exp_step e o) m o) (trk_step (eS e) (eA e) t o)).
  rewrite ES, EA in IH. apply IH; [exact Hr| apply inv_step; assumption].
Qed.

Lemma exp_after_dims : forall S A ops, eS (exp_after S A ops) = S /\ eA (exp_after S A ops) = A.
Proof.
  intros S A ops. unfold exp_after. assert (G : forall ops e, eS (fold_left exp_step ops e) = eS e /\ eA (fold_left exp_step ops e) = eA e).
  { induction ops0 as [|o ops0 IH]; intros e; cbn [fold_left]; [auto|].
    destruct (IH (exp_step e o)) as [-> ->]. apply exp_step_dims. }
  apply (G ops (exp_new S A)).
Qed.

Lemma ops_in_range_app : forall S A l1 l2, ops_in_range S A (l1 ++ l2) = ops_in_range S A l1 && ops_in_range S A l2.
Proof. intros; unfold ops_in_range; apply forallb_app. Qed.

Lemma run_inv : forall fixed S A pre flag post, (fixed || negb flag = true) ->
  ops_in_range S A pre = true -> ops_in_range S A post = true ->
  let st := run fixed S A pre flag post in
  inv (fst st) (snd st) (track S A pre flag post) /\ fst st = exp_after S A (pre ++ post) /\
  eS (fst st) = S /\ eA (fst st) = A.
Proof.
  intros fixed S A pre flag post Hf Hpre Hpost. cbn zeta. unfold run, track.
  destruct (exp_after_dims S A pre) as [ES EA].
  pose proof (preinv_fold pre (exp_new S A) (trk_new S A) Hpre (preinv_new S A)) as Hp.
  cbn [exp_new eS eA] in Hp. fold (exp_after S A pre) in Hp.
  pose proof (inv_ctor fixed _ _ flag Hf Hp) as Hi.
  pose proof (run_fold post (exp_after S A pre) (ml_ctor fixed (exp_after S A pre) flag) _ ltac:(rewrite ES, EA; exact Hpost) Hi) as [R1 R2].
  rewrite ES, EA in R1. split; [exact R1|]. rewrite R2. unfold exp_after. rewrite fold_left_app.
  split; [reflexivity|].
  destruct (exp_after_dims S A (pre ++ post)) as [E1 E2]. unfold exp_after in E1, E2. rewrite fold_left_app in E1, E2. auto.
Qed.

Lemma ops_in_range_snoc : forall S A l o, ops_in_range S A l = true -> op_in_range S A o = true ->
  ops_in_range S A (l ++ [o]) = true.
Proof. intros S A l o H1 H2. rewrite ops_in_range_app, H1. unfold ops_in_range; cbn [forallb]. rewrite H2. reflexivity. Qed.
Lemma ltb_true : forall a b, (a < b)%nat -> (a <? b)%nat = true.
Proof. intros; apply Nat.ltb_lt; assumption. Qed.

(* rows classified RSynced are the empirical distribution / mean of the recorded history *)
Lemma ml_model_is_empirical_lemma : forall fixed S A pre flag post, (fixed || negb flag = true) ->
  ops_in_range S A pre = true -> ops_in_range S A post = true ->
  let m := snd (run fixed S A pre flag post) in
  let h := hist_of (pre ++ post) in
  forall s a, (s < S)%nat -> (a < A)%nat -> tSt (track S A pre flag post) s a = RSynced ->
    (0 < countsum h s a)%nat /\ row_is m a s S (fun i => freq h s a i) /\ Rm m s a == mean (rewards_of h s a).
Proof.
  intros fixed S A pre flag post Hf Hpre Hpost. cbn zeta. intros s a Hs Ha Hst.
  destruct (run_inv fixed S A pre flag post Hf Hpre Hpost) as ((_ & _ & _ & HP) & HE & ES & EA).
  rewrite ES, EA in HP. destruct (HP s a Hs Ha) as [_ P2]. rewrite Hst in P2. destruct P2 as (A1 & A2 & A3).
  assert (Hr : ops_in_range S A (pre ++ post) = true) by (rewrite ops_in_range_app, Hpre, Hpost; reflexivity).
  destruct (welford_exact_lemma S A (pre ++ post) Hr) as [_ HW]. destruct (HW s a Hs Ha) as (WV & WN & WR & _).
  rewrite ES, HE in A2. rewrite HE in A1, A3. rewrite WN in A1. split; [exact A1|]. split.
  - eapply row_is_ext; [|exact A2]. intros i Hi; cbv beta. unfold freq. rewrite WV by exact Hi. rewrite WN. reflexivity.
  - rewrite A3. exact WR.
Qed.

(* status after a final sync *)
Lemma track_snoc : forall S A pre flag post o,
  track S A pre flag (post ++ [o]) = trk_step S A (track S A pre flag post) o.
Proof. intros; unfold track. rewrite fold_left_app. reflexivity. Qed.

Lemma tN_is_countsum : forall fixed S A pre flag post s a, (fixed || negb flag = true) ->
  ops_in_range S A pre = true -> ops_in_range S A post = true -> (s < S)%nat -> (a < A)%nat ->
  tN (track S A pre flag post) s a = countsum (hist_of (pre ++ post)) s a /\
  trk_wf S A (track S A pre flag post).
Proof.
  intros fixed S A pre flag post s a Hf Hpre Hpost Hs Ha.
  destruct (run_inv fixed S A pre flag post Hf Hpre Hpost) as ((_ & _ & Wt & HP) & HE & ES & EA).
  rewrite ES, EA in HP, Wt. destruct (HP s a Hs Ha) as [P1 _]. split; [|exact Wt].
  assert (Hr : ops_in_range S A (pre ++ post) = true) by (rewrite ops_in_range_app, Hpre, Hpost; reflexivity).
  destruct (welford_exact_lemma S A (pre ++ post) Hr) as [_ HW]. destruct (HW s a Hs Ha) as (_ & WN & _).
  rewrite P1, HE. exact WN.
Qed.

Lemma hist_of_snoc_sync : forall l o, (match o with ORecord _ _ _ _ | OReset => False | _ => True end) ->
  hist_of (l ++ [o]) = hist_of l.
Proof. intros l o H. unfold hist_of. rewrite fold_left_app. cbn [fold_left]. destruct o; cbn [hist_step]; tauto. Qed.

Lemma app_assoc_snoc : forall (A : Type) (l1 l2 : list A) x, l1 ++ (l2 ++ [x]) = (l1 ++ l2) ++ [x].
Proof. intros; apply app_assoc. Qed.

(* full_sync_is_empirical: after sync(s,a) or sync(), any pair with data is the empirical estimate *)
Lemma full_sync2_lemma : forall fixed S A pre flag post s a, (fixed || negb flag = true) ->
  ops_in_range S A pre = true -> ops_in_range S A post = true -> (s < S)%nat -> (a < A)%nat ->
  let m := snd (run fixed S A pre flag (post ++ [OSync2 s a])) in
  let h := hist_of (pre ++ post) in
  (0 < countsum h s a)%nat ->
  row_is m a s S (fun i => freq h s a i) /\ Rm m s a == mean (rewards_of h s a).
Proof.
  intros fixed S A pre flag post s a Hf Hpre Hpost Hs Ha. cbn zeta. intros Hc.
  assert (Hpost' : ops_in_range S A (post ++ [OSync2 s a]) = true).
  { apply ops_in_range_snoc; [exact Hpost|]. unfold op_in_range. rewrite !ltb_true by assumption. reflexivity. }
  destruct (tN_is_countsum fixed S A pre flag post s a Hf Hpre Hpost Hs Ha) as [HtN Wt].
  pose proof (ml_model_is_empirical_lemma fixed S A pre flag (post ++ [OSync2 s a]) Hf Hpre Hpost' s a Hs Ha) as L.
  rewrite app_assoc_snoc, hist_of_snoc_sync in L by exact I.
  apply L. rewrite track_snoc. cbn [trk_step]. eapply trk_sync2_st_eq; eauto. lia.
Qed.

Lemma full_sync_all_lemma : forall fixed S A pre flag post s a, (fixed || negb flag = true) ->
  ops_in_range S A pre = true -> ops_in_range S A post = true -> (s < S)%nat -> (a < A)%nat ->
  let m := snd (run fixed S A pre flag (post ++ [OSyncAll])) in
  let h := hist_of (pre ++ post) in
  (0 < countsum h s a)%nat ->
  row_is m a s S (fun i => freq h s a i) /\ Rm m s a == mean (rewards_of h s a).
Proof.
  intros fixed S A pre flag post s a Hf Hpre Hpost Hs Ha. cbn zeta. intros Hc.
  assert (Hpost' : ops_in_range S A (post ++ [OSyncAll]) = true) by (apply ops_in_range_snoc; [exact Hpost| reflexivity]).
  destruct (run_inv fixed S A pre flag post Hf Hpre Hpost) as (Hi & HE & ES & EA).
  assert (Hr : ops_in_range S A (pre ++ post) = true) by (rewrite ops_in_range_app, Hpre, Hpost; reflexivity).
  destruct (welford_exact_lemma S A (pre ++ post) Hr) as [_ HW]. destruct (HW s a Hs Ha) as (_ & WN & _).
  pose proof (ml_model_is_empirical_lemma fixed S A pre flag (post ++ [OSyncAll]) Hf Hpre Hpost' s a Hs Ha) as L.
  rewrite app_assoc_snoc, hist_of_snoc_sync in L by exact I.
  apply L. rewrite track_snoc.
  pose proof (sync_all_synced _ _ _ s a Hi) as Q. rewrite ES, EA, HE, WN in Q. apply Q; assumption.
Qed.

(* incremental_sync_invariant: under the boolean precondition, sync(s,a,s1) yields the empirical row *)
Lemma incremental_sync_lemma : forall fixed S A pre flag post s a s1, (fixed || negb flag = true) ->
  ops_in_range S A pre = true -> ops_in_range S A post = true -> (s < S)%nat -> (a < A)%nat -> (s1 < S)%nat ->
  precond_ok S A pre flag (post ++ [OSync3 s a s1]) = true ->
  let m := snd (run fixed S A pre flag (post ++ [OSync3 s a s1])) in
  let h := hist_of (pre ++ post) in
  (0 < countsum h s a)%nat ->
  row_is m a s S (fun i => freq h s a i) /\ Rm m s a == mean (rewards_of h s a).
Proof.
  intros fixed S A pre flag post s a s1 Hf Hpre Hpost Hs Ha Hs1 Hok. cbn zeta. intros Hc.
  assert (Hpost' : ops_in_range S A (post ++ [OSync3 s a s1]) = true).
  { apply ops_in_range_snoc; [exact Hpost|]. unfold op_in_range. rewrite !ltb_true by assumption. reflexivity. }
  destruct (tN_is_countsum fixed S A pre flag post s a Hf Hpre Hpost Hs Ha) as [HtN (W1 & W2 & W3)].
  pose proof (ml_model_is_empirical_lemma fixed S A pre flag (post ++ [OSync3 s a s1]) Hf Hpre Hpost' s a Hs Ha) as L.
  rewrite app_assoc_snoc, hist_of_snoc_sync in L by exact I.
  apply L. unfold precond_ok in Hok. rewrite track_snoc in *. set (t := track S A pre flag post) in *.
  cbn [trk_step] in *.
  destruct (tN t s a mod resync_period =? 0)%nat.
  - eapply trk_sync2_st_eq; [split; [exact W1|split; [exact W2|exact W3]]| | |]; auto. lia.
  - assert (G : tSt (mkTrk (t_n t) (t_last t) (upd2 s a (fun _ => RSynced) (t_st t)) (t_bad t)) s a = RSynced)
      by (unfold tSt; cbn [t_st]; erewrite get2_upd2_eq by eauto; reflexivity).
    destruct (tSt t s a); cbn [t_bad negb] in Hok; try discriminate;
      destruct (tLast t s a =? s1)%nat; cbn [t_bad negb] in Hok; try discriminate; exact G.
Qed.

(* ------------------------------------------------------------------ unvisited pairs keep the default *)
Definition unv (e : exp) (m : mlm) (s a : nat) : Prop :=
  NN e s a = 0%nat /\ row_is m a s (eS e) (fun i => delta i s) /\ Rm m s a = 0.

Lemma zero_mod_period : (0 mod resync_period =? 0)%nat = true.
Proof. reflexivity. Qed.

Lemma unv_ml_step : forall e m o s a, unv e m s a -> unv e (ml_step e m o) s a.
Proof.
  intros e m o s a (Hz & Hrow & HR). unfold unv. split; [exact Hz|].
  assert (Htouch : forall m' s' a', touches (eS e) m m' s' a' -> (s' = s /\ a' = a -> m' = m) ->
            row_is m' a s (eS e) (fun i => delta i s) /\ Rm m' s a = 0).
  { intros m' s' a' Ht Hsame. destruct (Nat.eq_dec s' s) as [->|Ns]; [destruct (Nat.eq_dec a' a) as [->|Na]|].
    - rewrite Hsame by auto. split; assumption.
    - split; [apply (row_is_frame m); [intros i; eapply touches_frame_T; eauto| exact Hrow]| rewrite <- HR; eapply touches_frame_R; eauto].
    - split; [apply (row_is_frame m); [intros i; eapply touches_frame_T; eauto| exact Hrow]| rewrite <- HR; eapply touches_frame_R; eauto]. }
  destruct o as [s' a' s1 r| | |s' a'|s' a' s1]; cbn [ml_step]; try (split; assumption).
  - destruct (sync_all_frame e m s a Hz) as [F1 F2]. split; [apply (row_is_frame m); assumption| rewrite F2; exact HR].
  - apply (Htouch _ s' a' (sync2_touches e m s' a')). intros [-> ->]. apply sync2_noop; exact Hz.
  - apply (Htouch _ s' a' (sync3_touches e m s' a' s1)). intros [-> ->].
    unfold ml_sync3. rewrite Hz, zero_mod_period. apply sync2_noop; exact Hz.
Qed.

Lemma unv_step : forall e m o s a, op_in_range (eS e) (eA e) o = true -> (s < eS e)%nat -> (a < eA e)%nat ->
  visits_pair s a o = false -> unv e m s a -> unv (exp_step e o) (ml_step (exp_step e o) m o) s a.
Proof.
  intros e m o s a Hr Hs Ha Hv H. apply unv_ml_step.
  destruct H as (Hz & Hrow & HR). destruct o as [s' a' s1 r| | | |]; cbn [exp_step]; try (split; [|split]; assumption).
  - cbn [visits_pair] in Hv. apply andb_false_iff in Hv. rewrite !Nat.eqb_neq in Hv.
    split; [|split; [cbn [exp_record eS]; exact Hrow| exact HR]].
    rewrite NN_record_neq by (destruct Hv; auto). exact Hz.
  - unfold exp_reset. destruct (new_accessors (eS e) (eA e) s a Hs Ha) as (N0 & _).
    split; [exact N0|]. split; [cbn [exp_new eS]; exact Hrow| exact HR].
Qed.

Lemma unv_fold : forall post e m s a, ops_in_range (eS e) (eA e) post = true -> (s < eS e)%nat -> (a < eA e)%nat ->
  never_visited post s a = true -> unv e m s a ->
  let st := fold_left step post (e, m) in unv (fst st) (snd st) s a /\ eS (fst st) = eS e.
Proof.
  induction post as [|o post IH]; intros e m s a Hr Hs Ha Hnv H; cbn [fold_left]; [cbn; auto|].
  cbn [ops_in_range forallb] in Hr. apply andb_true_iff in Hr. destruct Hr as [Ho Hr].
  unfold never_visited in Hnv. cbn [existsb] in Hnv. rewrite negb_orb in Hnv. apply andb_true_iff in Hnv.
  destruct Hnv as [Hv Hnv]. apply negb_true_iff in Hv.
  destruct (exp_step_dims e o) as [ES EA]. unfold step at 2; cbn [fst snd].
  specialize (IH (exp_step e o) (ml_step (exp_step e o) m o) s a). rewrite ES, EA in IH.
  apply IH; auto. apply unv_step; assumption.
Qed.

Lemma never_visited_app : forall l1 l2 s a, never_visited (l1 ++ l2) s a = never_visited l1 s a && never_visited l2 s a.
Proof. intros; unfold never_visited. rewrite existsb_app, negb_orb. reflexivity. Qed.

Lemma never_visited_count : forall ops s a, never_visited ops s a = true -> countsum (hist_of ops) s a = 0%nat.
Proof.
  intros ops s a H. unfold hist_of.
  assert (G : forall ops h, never_visited ops s a = true -> countsum h s a = 0%nat -> countsum (fold_left hist_step ops h) s a = 0%nat).
  { induction ops0 as [|o ops0 IH]; intros h Hn Hh; cbn [fold_left]; [exact Hh|].
    unfold never_visited in Hn. cbn [existsb] in Hn. rewrite negb_orb in Hn. apply andb_true_iff in Hn. destruct Hn as [Hv Hn].
    apply IH; [exact Hn|]. destruct o as [s' a' s1 r| | | |]; cbn [hist_step]; auto.
    rewrite countsum_snoc. cbn [visits_pair] in Hv. apply negb_true_iff in Hv.
    destruct (is_sa s a (s', a', s1, r)) eqn:E; [|exact Hh].
    apply is_sa_iff in E. destruct E as [-> ->]. rewrite !Nat.eqb_refl in Hv. discriminate. }
  apply G; [exact H| reflexivity].
Qed.

Lemma unvisited_default_lemma : forall fixed S A pre flag post s a, (fixed || negb flag = true) ->
  ops_in_range S A pre = true -> ops_in_range S A post = true -> (s < S)%nat -> (a < A)%nat ->
  never_visited (pre ++ post) s a = true ->
  let m := snd (run fixed S A pre flag post) in
  row_is m a s S (fun i => delta i s) /\ Rm m s a = 0.
Proof.
  intros fixed S A pre flag post s a Hf Hpre Hpost Hs Ha Hnv. cbn zeta.
  rewrite never_visited_app in Hnv. apply andb_true_iff in Hnv. destruct Hnv as [Hn1 Hn2].
  destruct (exp_after_dims S A pre) as [ES EA].
  destruct (welford_exact_lemma S A pre Hpre) as [_ HW]. destruct (HW s a Hs Ha) as (_ & WN & _).
  rewrite (never_visited_count pre s a Hn1) in WN.
  unfold run.
  assert (U0 : unv (exp_after S A pre) (ml_ctor fixed (exp_after S A pre) flag) s a).
  { destruct (ctor_unvisited fixed (exp_after S A pre) flag s a Hf) as [R1 R2]; try (rewrite ?ES, ?EA; assumption).
    split; [exact WN|]. split; assumption. }
  destruct (unv_fold post _ _ s a ltac:(rewrite ES, EA; exact Hpost) ltac:(rewrite ES; exact Hs) ltac:(rewrite EA; exact Ha) Hn2 U0) as [(_ & U2 & U3) E].
  rewrite E, ES in U2. split; assumption.
Qed.
