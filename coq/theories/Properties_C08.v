(* Properties_C08.v — property C08: sampling follows the stated distribution and stays in range.
   Only statements, each closed by [exact <lemma>] and followed by Print Assumptions. *)
From Coq Require Import List Arith QArith Qminmax.
From Coq Require Import Qround ZArith.
From AIT Require Import Base.Qx Base.Mdp C08.Model C08.Spec C08.Proofs C08.Proofs2 C08.Proofs3 C08.Proofs4.
Import ListNotations.
Local Open Scope Q_scope.

(* ---- dense sampler ---- *)
Theorem dense_in_range : forall p u, p <> [] -> (sample_dense p u < length p)%nat.
Proof. exact dense_in_range_lemma. Qed.
Print Assumptions dense_in_range.

(* index i is returned exactly for draws in [c_i, c_{i+1}); the last index also takes every draw at
   or above the total (the documented slack) *)
Theorem dense_interval : forall p u i, p <> [] -> nonneg p -> 0 <= u -> (i < length p)%nat ->
  (sample_dense p u = i <->
     (cum p i <= u /\ u < cum p (S i)) \/ (i = Nat.pred (length p) /\ cum p (length p) <= u)).
Proof. exact dense_interval_lemma. Qed.
Print Assumptions dense_interval.

(* hence for a vector summing to one the draws selecting i form an interval of [0,1] of length p_i *)
Theorem dense_mass_exact : forall p i, is_dist p -> (i < length p)%nat ->
  (forall u, 0 <= u -> u < 1 -> (sample_dense p u = i <-> cum p i <= u /\ u < cum p (S i))) /\
  0 <= cum p i /\ cum p (S i) <= 1 /\ cum p (S i) - cum p i == nthq p i /\ dense_mass p i == nthq p i.
Proof. exact dense_mass_exact_lemma. Qed.
Print Assumptions dense_mass_exact.

(* for any non-negative vector the draws in [0,1) selecting i form the interval whose length is
   [dense_mass p i] … *)
Theorem dense_preimage : forall p u i, p <> [] -> nonneg p -> 0 <= u -> u < 1 -> (i < length p)%nat ->
  (sample_dense p u = i <->
   Qmin 1 (cum p i) <= u /\
   u < (if (i =? Nat.pred (length p))%nat then 1 else Qmin 1 (cum p (S i)))).
Proof. exact dense_preimage_lemma. Qed.
Print Assumptions dense_preimage.

(* … which is within |1 - sum p| of p_i *)
Theorem dense_mass_slack : forall p i d, nonneg p -> (i < length p)%nat ->
  - d <= qsum p - 1 -> qsum p - 1 <= d ->
  - d <= dense_mass p i - nthq p i /\ dense_mass p i - nthq p i <= d.
Proof. exact dense_mass_slack_lemma. Qed.
Print Assumptions dense_mass_slack.

(* ---- sparse sampler ---- *)
(* the loop as it stands equals the dense sampler while the draw is below the stored mass *)
Theorem sparse_eq_dense_when_mass_covers : forall p row u, sparse_of 0 p row -> nonneg p ->
  0 <= u -> u < qsum p -> sample_sparse row u = Ok (sample_dense p u).
Proof. exact sparse_eq_dense_when_mass_covers_lemma. Qed.
Print Assumptions sparse_eq_dense_when_mass_covers.

(* full statement "forall valid rows and draws in [0,1), sample_sparse row u <> UB" is false for
   the loop as it stands: *)
Theorem sparse_no_UB_refuted : exists p row u,
  sparse_of 0 p row /\ is_prob_tol p /\ 0 <= u /\ u < 1 /\ sample_sparse row u = UB.
Proof. exact sparse_no_UB_refuted_lemma. Qed.
Print Assumptions sparse_no_UB_refuted.

(* exactly when the draw reaches the stored mass *)
Theorem sparse_UB_iff_mass_exceeded : forall row u, Forall (fun e => 0 <= snd e) row -> 0 <= u ->
  (sample_sparse row u = UB <-> stored_sum row <= u).
Proof. exact sparse_UB_iff. Qed.
Print Assumptions sparse_UB_iff_mass_exceeded.

(* repaired loop (fixes/C08-sparse-sample.patch): total by construction, equal to the dense sampler on
   every draw, hence in range and with the same masses *)
Theorem sparse_no_UB : forall p row u, sparse_of 0 p row -> 0 <= u ->
  sample_sparse_fix (length p) row u = sample_dense p u.
Proof. exact sparse_fix_eq_dense_lemma. Qed.
Print Assumptions sparse_no_UB.

Theorem sparse_in_range : forall p row u, p <> [] -> sparse_of 0 p row -> 0 <= u ->
  (sample_sparse_fix (length p) row u < length p)%nat.
Proof. exact sparse_fix_in_range_lemma. Qed.
Print Assumptions sparse_in_range.

(* ---- makeRandomProbability: whatever the S-1 draws in [0,1] are, the result has S entries, is
   non-negative and sums to one ---- *)
Theorem random_prob_valid : forall us, Forall (fun u => 0 <= u /\ u <= 1) us ->
  length (random_prob us) = S (length us) /\ nonneg (random_prob us) /\ qsum (random_prob us) == 1.
Proof. exact random_prob_valid_lemma. Qed.
Print Assumptions random_prob_valid.

(* ---- projectToProbability ---- *)
(* the code as it stands fails both clauses (DESIGN §6): *)
Theorem project_idempotent_refuted : exists v, is_dist v /\ ~ veq (project_cur v) v.
Proof. exact project_idempotent_refuted_lemma. Qed.
Print Assumptions project_idempotent_refuted.

Theorem project_valid_refuted : exists v, v <> [] /\
  ~ (- epsS <= qsum (project_cur v) - 1 /\ qsum (project_cur v) - 1 <= epsS).
Proof. exact project_valid_refuted_lemma. Qed.
Print Assumptions project_valid_refuted.

(* repaired code (fixes/C08-project.patch): the result is accepted by isProbability for every input
   (exactly summing to one unless the non-negative part of the input was already within 1e-6 of one) *)
Theorem project_valid : forall v, v <> [] ->
  length (project_fix v) = length v /\ nonneg (project_fix v) /\
  - epsS <= qsum (project_fix v) - 1 /\ qsum (project_fix v) - 1 <= epsS /\
  (eqSmall (possum v) 1 = false -> qsum (project_fix v) == 1).
Proof. exact project_valid_lemma. Qed.
Print Assumptions project_valid.

(* and every vector isProbability accepts is returned unchanged *)
Theorem project_idempotent : forall v, is_prob_tol v -> veq (project_fix v) v.
Proof. exact project_idempotent_lemma. Qed.
Print Assumptions project_idempotent.

(* ---- alias sampler ---- *)
(* sampling rule of a table: cell j = floor x, offset y = x - j; j on [0,c_j), alias_j on [c_j,1) *)
Theorem alias_cell : forall prob alias x, 0 <= x -> x < qn (length prob) -> length alias = length prob ->
  let j := Z.to_nat (Qfloor x) in
  let y := x - inject_Z (Qfloor x) in
  (j < length prob)%nat /\ 0 <= y /\ y < 1 /\
  forall i, (alias_sample prob alias x = Ok i <->
             (i = j /\ y < clamp01 (nthq prob j)) \/ (i = nth j alias O /\ clamp01 (nthq prob j) <= y)).
Proof. exact alias_cell_lemma. Qed.
Print Assumptions alias_cell.

Theorem alias_in_range : forall prob alias x, 0 <= x -> x < qn (length prob) ->
  length alias = length prob -> Forall (fun a => (a < length prob)%nat) alias ->
  exists i, alias_sample prob alias x = Ok i /\ (i < length prob)%nat.
Proof. exact alias_in_range_lemma. Qed.
Print Assumptions alias_in_range.

(* full statement  forall p, is_dist p -> forall i, alias_mass (table p) i == p_i  is false for the
   constructor as it stands: *)
Theorem alias_mass_refuted : exists p prob alias i,
  is_dist p /\ vose_cur p = Some (prob, alias) /\ (i < length p)%nat /\
  ~ alias_mass prob alias i == nthq p i.
Proof. exact alias_mass_refuted_lemma. Qed.
Print Assumptions alias_mass_refuted.

(* verified table checker: a table it accepts has mass p_i at every index (this is what the driver
   evaluates on the implementation's prob_/alias_ arrays) *)
Theorem alias_mass_partial : forall p prob alias, alias_table_ok p prob alias = true ->
  length prob = length p /\ length alias = length p /\
  Forall (fun a => (a < length p)%nat) alias /\
  forall i, (i < length p)%nat -> alias_mass prob alias i == nthq p i.
Proof. exact alias_table_ok_sound. Qed.
Print Assumptions alias_mass_partial.

(* repaired constructor (fixes/C08-vose.patch, textbook two-worklist Vose): for every probability
   vector the table has the right shape, aliases in range, and every index has exactly its mass *)
Theorem alias_mass : forall p, p <> [] -> is_dist p ->
  let '(prob, alias) := vose_fix p in
  length prob = length p /\ length alias = length p /\
  Forall (fun a => (a < length p)%nat) alias /\
  forall i, (i < length p)%nat -> alias_mass prob alias i == nthq p i.
Proof. exact alias_mass_lemma. Qed.
Print Assumptions alias_mass.

(* for every vector isProbability accepts (sum within tolerance of one) the repaired constructor keeps
   every mass within |sum p - 1| of p_i … *)
Theorem alias_mass_slack : forall p d, p <> [] -> nonneg p -> - d <= qsum p - 1 -> qsum p - 1 <= d ->
  let '(prob, alias) := vose_fix p in
  length prob = length p /\ length alias = length p /\
  Forall (fun a => (a < length p)%nat) alias /\
  forall i, (i < length p)%nat ->
    - d <= Spec.alias_mass prob alias i - nthq p i /\ Spec.alias_mass prob alias i - nthq p i <= d.
Proof. exact alias_mass_slack_lemma. Qed.
Print Assumptions alias_mass_slack.

(* … and never gives mass to an index of probability zero (shortfall below one cell, i.e. any
   tolerated sum for n < 10^6): the sampler stays inside the support *)
Theorem alias_support : forall p, p <> [] -> nonneg p -> - (1 / qn (length p)) < qsum p - 1 ->
  let '(prob, alias) := vose_fix p in
  forall i, (i < length p)%nat -> nthq p i == 0 -> Spec.alias_mass prob alias i == 0.
Proof. exact alias_support_lemma. Qed.
Print Assumptions alias_support.

(* the checker the driver applies to dumped tables when the sum is not exactly one *)
Theorem alias_slack_checker_sound : forall p prob alias, alias_table_slack_ok p prob alias = true ->
  length prob = length p /\ length alias = length p /\
  Forall (fun a => (a < length p)%nat) alias /\
  forall i, (i < length p)%nat ->
    - qabs (qsum p - 1) <= Spec.alias_mass prob alias i - nthq p i /\
    Spec.alias_mass prob alias i - nthq p i <= qabs (qsum p - 1) /\
    (nthq p i == 0 -> Spec.alias_mass prob alias i == 0).
Proof. exact alias_table_slack_ok_sound. Qed.
Print Assumptions alias_slack_checker_sound.

(* ---- sampling a model (MDP::Model / SparseModel::sampleSR, POMDP::Model::sampleSOR) follows the
   model's own tables: next state i is drawn on an interval of length T(s,a,i), the reward is R(s,a),
   the observation j on an interval of length O(s1,a,j) ---- *)
Theorem sample_sr_follows_model : forall m s a, wf_mdp m -> (s < nS m)%nat -> (a < nA m)%nat ->
  forall u, 0 <= u -> u < 1 ->
  let '(s1, r) := sample_sr m s a u in
  (s1 < nS m)%nat /\ r = nthq (row (R m) s) a /\
  forall i, (i < nS m)%nat ->
    (s1 = i <-> cum (trow m s a) i <= u /\ u < cum (trow m s a) (S i)) /\
    cum (trow m s a) (S i) - cum (trow m s a) i == nthq (trow m s a) i.
Proof. exact sample_sr_lemma. Qed.
Print Assumptions sample_sr_follows_model.

Theorem sample_sor_follows_model : forall m s a, wf_pomdp m -> (s < nS (pm m))%nat -> (a < nA (pm m))%nat ->
  forall u1 u2, 0 <= u1 -> u1 < 1 -> 0 <= u2 -> u2 < 1 ->
  let '(s1, o, r) := sample_sor m s a u1 u2 in
  (s1, r) = sample_sr (pm m) s a u1 /\ (s1 < nS (pm m))%nat /\ (o < nO m)%nat /\
  forall j, (j < nO m)%nat ->
    (o = j <-> cum (orow m s1 a) j <= u2 /\ u2 < cum (orow m s1 a) (S j)) /\
    cum (orow m s1 a) (S j) - cum (orow m s1 a) j == nthq (orow m s1 a) j.
Proof. exact sample_sor_lemma. Qed.
Print Assumptions sample_sor_follows_model.

(* range and composition for arbitrary stored rows (sums below one, entries dropped by sparse
   storage): indices stay below the row sizes and equal the dense sampler on the model's own rows *)
Theorem sample_sr_in_range : forall m s a u, length (trow m s a) = nS m -> (0 < nS m)%nat ->
  (fst (sample_sr m s a u) < nS m)%nat /\ fst (sample_sr m s a u) = sample_dense (trow m s a) u.
Proof. exact sample_sr_in_range_lemma. Qed.
Print Assumptions sample_sr_in_range.

Theorem sample_or_in_range : forall m s a s1 u, length (orow m s1 a) = nO m -> (0 < nO m)%nat ->
  (fst (sample_or m s a s1 u) < nO m)%nat /\ fst (sample_or m s a s1 u) = sample_dense (orow m s1 a) u.
Proof. exact sample_or_in_range_lemma. Qed.
Print Assumptions sample_or_in_range.

Theorem sample_sor_in_range : forall m s a u1 u2,
  (forall s1, (s1 < nS (pm m))%nat -> length (orow m s1 a) = nO m) ->
  length (trow (pm m) s a) = nS (pm m) -> (0 < nS (pm m))%nat -> (0 < nO m)%nat ->
  let '(s1, o, r) := sample_sor m s a u1 u2 in
  (s1 < nS (pm m))%nat /\ (o < nO m)%nat /\
  s1 = sample_dense (trow (pm m) s a) u1 /\ o = sample_dense (orow m s1 a) u2 /\
  r = nthq (row (R (pm m)) s) a.
Proof. exact sample_sor_in_range_lemma. Qed.
Print Assumptions sample_sor_in_range.

(* factored model (CooperativeModel::sampleSR / sampleSRs): every next-state feature is the dense
   sampler on the row the DDN selects, hence in range; sampleSR's reward is the sum of the per-basis
   table entries sampleSRs reports *)
Theorem coop_next_in_range : forall rows us, Forall (fun r : vec => r <> []) rows -> length us = length rows ->
  Forall2 (fun r i => (i < length r)%nat) rows (coop_next rows us).
Proof. exact coop_next_in_range_lemma. Qed.
Print Assumptions coop_next_in_range.

Theorem coop_reward_sum : forall Sz Az bases s a,
  coop_reward Sz Az bases s a == qsum (coop_rewards Sz Az bases s a) /\
  length (coop_rewards Sz Az bases s a) = length bases.
Proof. exact coop_reward_sum_lemma. Qed.
Print Assumptions coop_reward_sum.

(* hypotheses are satisfiable on non-trivial inputs *)
Example ex_dense_nonvacuous :
  is_dist [1 # 4; 0; 1 # 2; 1 # 4] /\ sample_dense [1 # 4; 0; 1 # 2; 1 # 4] (1 # 4) = 2%nat /\
  sample_dense [1 # 4; 0; 1 # 2; 1 # 4] (3 # 4) = 3%nat /\ sample_dense [1 # 4; 1 # 4] (7 # 8) = 1%nat.
Proof. repeat split; try (repeat constructor; discriminate). Qed.

Example ex_sparse_nonvacuous :
  sparse_of 0 [1 # 4; 0; 3 # 4] [(0%nat, 1 # 4); (2%nat, 3 # 4)] /\ nonneg [1 # 4; 0; 3 # 4] /\
  sample_sparse [(0%nat, 1 # 4); (2%nat, 3 # 4)] (1 # 2) = Ok 2%nat.
Proof.
  split; [apply sp_keep, sp_drop; [reflexivity| apply sp_keep, sp_nil]|].
  split; [repeat constructor; discriminate| reflexivity].
Qed.

Example ex_random_prob_nonvacuous :
  Forall (fun u => 0 <= u /\ u <= 1) [3 # 4; 1 # 4; 1 # 4] /\
  veq (random_prob [3 # 4; 1 # 4; 1 # 4]) [1 # 4; 0; 1 # 2; 1 # 4].
Proof. split; [repeat constructor; discriminate| repeat constructor]. Qed.

Example ex_project_nonvacuous :
  is_prob_tol [1 # 5; 3 # 10; 1 # 2] /\ veq (project_fix [1 # 5; 3 # 10; 1 # 2]) [1 # 5; 3 # 10; 1 # 2] /\
  veq (project_fix [1 # 4; -(1); 1 # 4]) [1 # 2; 0; 1 # 2] /\ veq (project_fix [0; -(1)]) [1 # 2; 1 # 2].
Proof.
  split; [split; [repeat constructor; discriminate| split; vm_compute; discriminate]|].
  repeat split; vm_compute; repeat constructor.
Qed.

(* the repaired constructor (fixes/C08-vose.patch) passes the checker on the refuting inputs *)
Example ex_alias_fix_ok :
  (let '(prob, alias) := vose_fix [1 # 2; 1 # 4; 1 # 4] in alias_table_ok [1 # 2; 1 # 4; 1 # 4] prob alias) = true /\
  (let '(prob, alias) := vose_fix [1; 0] in alias_table_ok [1; 0] prob alias) = true /\
  (let '(prob, alias) := vose_fix [1 # 10; 1 # 4; 1 # 10; 3 # 10; 1 # 4] in
   alias_table_ok [1 # 10; 1 # 4; 1 # 10; 3 # 10; 1 # 4] prob alias) = true.
Proof. exact alias_fix_witnesses. Qed.

Example ex_sample_sr_nonvacuous :
  let m := {| nS := 2; nA := 1; P := [[[1 # 2; 1 # 2]; [0; 1]]]; R := [[3]; [-(2)]]; gam := 1 # 2 |} in
  wf_mdpb m = true /\ sample_sr m 0 0 (3 # 4) = (1%nat, 3).
Proof. split; reflexivity. Qed.

(* a vector with a zero entry and a sum below one: the table passes the slack checker *)
Example ex_alias_slack_nonvacuous :
  let p := [0; 1 # 2; (1 # 2) - (1 # 1048576)] in
  nonneg p /\ - (1 / qn (length p)) < qsum p - 1 /\
  (let '(prob, alias) := vose_fix p in alias_table_slack_ok p prob alias) = true.
Proof. split; [repeat constructor; discriminate| split; vm_compute; reflexivity]. Qed.

(* S = (2,3), A = (3,2): the joint action (1,1) of agents 0,1 is column 1 + 3*1 = 4 (action sizes), and the
   state (1,2) is row 1 + 2*2 = 5 *)
Example ex_coop_index : to_index_partial [0; 1]%nat [3; 2]%nat [1; 1]%nat = 4%nat /\
                        to_index_partial [0; 1]%nat [2; 3]%nat [1; 2]%nat = 5%nat.
Proof. split; reflexivity. Qed.
