(* Properties_C09.v — property C09: every policy is a coherent probability distribution over
   actions.  Only statements, each closed by [exact <lemma>] and followed by Print Assumptions. *)
From Coq Require Import List Arith ZArith QArith Qminmax Bool Lia.
From AIT Require Import Base.Qx C09.Model C09.Spec C09.ProofsGreedy C09.ProofsMix C09.ProofsSoftmax C09.ProofsWolf C09.ProofsPga.
Import ListNotations.
Local Open Scope Q_scope.

(* ------------------------------------------------------------------ QGreedyPolicyWrapper *)

(* getPolicy() yields a probability vector of the right length *)
Theorem greedy_rows_dist : forall q, q <> [] -> separated q ->
  length (greedy_policy q) = length q /\ is_dist (greedy_policy q).
Proof. exact greedy_rows_dist_lemma. Qed.
Print Assumptions greedy_rows_dist.

(* getPolicy()[a] = getActionProbability(a) *)
Theorem greedy_table_eq_query : forall q, separated q -> agrees (greedy_policy q) (greedy_prob q).
Proof. exact greedy_table_eq_query_lemma. Qed.
Print Assumptions greedy_table_eq_query.

(* all mass on the maximal actions, shared equally among them *)
Theorem greedy_argmax : forall q a, separated q -> (a < length q)%nat ->
  (nthq q a == maxl q -> nthq (greedy_policy q) a == 1 / qnat (cnt (maxl q) q) /\ 0 < nthq (greedy_policy q) a) /\
  (nthq q a < maxl q -> nthq (greedy_policy q) a == 0).
Proof. exact greedy_argmax_lemma. Qed.
Print Assumptions greedy_argmax.

(* adding a constant to every value changes nothing (table, queries, tie set used for sampling) *)
Theorem greedy_shift : forall c q, separated q -> separated (shift c q) ->
  veq (greedy_policy (shift c q)) (greedy_policy q) /\
  (forall a, (a < length q)%nat -> greedy_prob (shift c q) a == greedy_prob q a) /\
  greedy_tieset (shift c q) = greedy_tieset q.
Proof. exact greedy_shift_lemma. Qed.
Print Assumptions greedy_shift.

(* sampleAction with draw [sel] in range returns a maximal action of positive probability *)
Theorem greedy_sample_in_support : forall q sel, q <> [] -> separated q ->
  length (greedy_tieset q) = cnt (maxl q) q /\
  ((sel < length (greedy_tieset q))%nat ->
     in_support (greedy_policy q) (greedy_sample q sel) /\ nthq q (greedy_sample q sel) == maxl q).
Proof. exact greedy_sample_in_support_lemma. Qed.
Print Assumptions greedy_sample_in_support.

(* the boolean separation predicate used by the generators/driver implies the hypothesis *)
Theorem separatedb_ok : forall q, separatedb q = true -> separated q.
Proof. exact separatedb_sound. Qed.
Print Assumptions separatedb_ok.

(* ------------------------------------------------------------------ EpsilonPolicyInterface *)

Theorem epsilon_mixture : forall eps pol, 0 <= eps -> eps <= 1 -> pol <> [] -> is_dist pol ->
  length (eps_policy eps pol) = length pol /\
  is_dist (eps_policy eps pol) /\
  agrees (eps_policy eps pol) (fun a => eps_prob eps (length pol) (nthq pol a)).
Proof. exact epsilon_mixture_lemma. Qed.
Print Assumptions epsilon_mixture.

Theorem epsilon_sample_in_support : forall eps u pol r w,
  0 <= eps -> eps <= 1 -> 0 <= u -> u < 1 -> (0 < eps \/ 0 < u) -> is_dist pol ->
  (r < length pol)%nat -> in_support pol w ->
  in_support (eps_policy eps pol) (eps_sample eps u r w).
Proof. exact eps_sample_in_support_lemma. Qed.
Print Assumptions epsilon_sample_in_support.

(* ------------------------------------------------------------------ sampleProbability / LRP *)

Theorem sample_prob_in_support : forall l p, is_dist l -> 0 <= p -> p < 1 -> in_support l (sample_prob l p).
Proof. exact sample_prob_in_support_lemma. Qed.
Print Assumptions sample_prob_in_support.

Theorem lrp_simplex_invariant : forall A a b ops, (2 <= A)%nat -> 0 <= a -> a <= 1 -> 0 <= b -> b <= 1 ->
  Forall (fun op => (fst op < A)%nat) ops ->
  length (lrp_pol (lrp_run A a b ops)) = A /\ is_dist (lrp_pol (lrp_run A a b ops)).
Proof. exact lrp_simplex_invariant_lemma. Qed.
Print Assumptions lrp_simplex_invariant.

(* ------------------------------------------------------------------ QSoftmaxPolicyWrapper *)
(* about the code repaired by fixes/C09-softmax-underflow.patch; [ex] is std::exp, assumed only to
   be non-negative, monotone, with ex 0 = 1 (exp_like) — no finiteness side condition is left *)

Theorem softmax_dist : forall ex, exp_like ex -> forall T q, q <> [] ->
  (eqSmall T 0 = true -> separated q) ->
  length (softmax_policy ex T q) = length q /\ is_dist (softmax_policy ex T q).
Proof. exact softmax_dist_thm. Qed.
Print Assumptions softmax_dist.

Theorem softmax_table_eq_query : forall ex, exp_like ex -> forall T q, q <> [] ->
  (eqSmall T 0 = true -> separated q) -> agrees (softmax_policy ex T q) (softmax_prob ex T q).
Proof. exact softmax_table_eq_query_thm. Qed.
Print Assumptions softmax_table_eq_query.

Theorem softmax_shift : forall ex, exp_like ex -> forall c T q, q <> [] ->
  (eqSmall T 0 = true -> separated q /\ separated (shift c q)) ->
  veq (softmax_policy ex T (shift c q)) (softmax_policy ex T q).
Proof. exact softmax_shift_thm. Qed.
Print Assumptions softmax_shift.

Theorem softmax_sample_in_support : forall ex, exp_like ex -> forall T q sel u, q <> [] ->
  (eqSmall T 0 = true -> separated q /\ (sel < length (greedy_tieset q))%nat) -> 0 <= u -> u < 1 ->
  in_support (softmax_policy ex T q) (softmax_sample ex T q sel u).
Proof. exact softmax_sample_in_support_thm. Qed.
Print Assumptions softmax_sample_in_support.

(* the code as it is in /repo (no max subtraction): getPolicy() and getActionProbability()
   disagree as soon as the sum of the exponentials is <= 1e-6, e.g. q = (-20,-30), T = 1 *)
Theorem softmax_asis_table_eq_query_refuted :
  exists (ex : Q -> Q) T q a, exp_like ex /\ eqSmall T 0 = false /\ (a < length q)%nat /\
    ~ nthq (asis_policy ex T q) a == asis_prob ex T q a.
Proof. exact softmax_asis_refuted_thm. Qed.
Print Assumptions softmax_asis_table_eq_query_refuted.

(* ------------------------------------------------------------------ ThompsonSamplingPolicy *)
(* about the code repaired by fixes/C09-thompson-lowest.patch *)

Theorem thompson_argmax : forall arms, arms <> [] -> Forall (fun p => (2 <= fst p)%nat) arms ->
  (thompson_sample arms < length arms)%nat /\
  nthq (map snd arms) (thompson_sample arms) == maxl (map snd arms).
Proof. exact thompson_argmax_lemma. Qed.
Print Assumptions thompson_argmax.

Theorem thompson_unexplored_first : forall pre c v post,
  Forall (fun p => (2 <= fst p)%nat) pre -> (c < 2)%nat ->
  thompson_sample (pre ++ (c, v) :: post) = length pre.
Proof. exact thompson_unexplored_lemma. Qed.
Print Assumptions thompson_unexplored_first.

(* the code as it is: the running maximum starts at the smallest positive double *)
Theorem thompson_argmax_asis_refuted :
  exists arms, Forall (fun p => (2 <= fst p)%nat) arms /\
    ~ nthq (map snd arms) (thompson_sample_asis arms) == maxl (map snd arms).
Proof. exact thompson_asis_refuted_lemma. Qed.
Print Assumptions thompson_argmax_asis_refuted.

(* ------------------------------------------------------------------ WoLFPolicy *)
(* every history of stepUpdateP calls (any states, any tie-breaking draws) leaves every row of the
   actual and of the average policy a probability vector *)
Theorem wolf_rows_dist : forall dW dL scaling qm A ops,
  (2 <= A)%nat -> 0 <= dW -> 0 <= dL -> 0 < scaling -> Forall (fun r => length r = A) qm ->
  length (wolf_run dW dL scaling qm A ops) = length qm /\
  Forall (fun r => length (w_act r) = A /\ is_dist (w_act r) /\ length (w_avg r) = A /\ is_dist (w_avg r))
         (wolf_run dW dL scaling qm A ops).
Proof. exact wolf_rows_dist_lemma. Qed.
Print Assumptions wolf_rows_dist.

Example ex_wolf_nonvacuous :
  forallb (fun r => is_distb (w_act r)) (wolf_run (1#8) (1#2) 4 [[1; -2; 1]; [0; 3; -1]] 3 [(0%nat, 1%nat); (1%nat, 0%nat); (0%nat, 0%nat)]) = true.
Proof. vm_compute. reflexivity. Qed.

(* ------------------------------------------------------------------ PGAAPPPolicy *)
(* projectToProbability (repaired, 31ee3cf; local re-model of the function property C08 owns):
   for every non-empty input the result has the same length, no negative entry, and a sum within
   the library's tolerance of one — i.e. isProbability accepts it *)
Theorem pga_project_valid : forall v, v <> [] ->
  length (project v) = length v /\ is_dist_tol epsS (project v).
Proof. exact project_valid_local. Qed.
Print Assumptions pga_project_valid.

(* every history of stepUpdateP calls (any states, any learning rate / prediction length, any
   Q-function) leaves every row of the policy matrix a probability vector in that sense *)
Theorem pgaapp_rows_dist : forall lr pl qm A ops, (1 <= A)%nat -> Forall (fun r => length r = A) qm ->
  length (pga_run lr pl qm A ops) = length qm /\
  Forall (fun r => length r = A /\ is_dist_tol epsS r) (pga_run lr pl qm A ops).
Proof. exact pgaapp_rows_dist_lemma. Qed.
Print Assumptions pgaapp_rows_dist.

(* reaches a vertex of the simplex after one update, then keeps projecting negative entries away *)
Example ex_pgaapp_nonvacuous :
  veqb (row (pga_run (1#10) (1#2) [[10; 0; 0]] 3 [0%nat]) 0) [1; 0; 0] = true /\
  veqb (pga_grad_row (1#10) (1#2) [10; 0; 0] [1; 0; 0]) [1; -1; -1] = true /\
  veqb (row (pga_run (1#10) (1#2) [[10; 0; 0]] 3 [0%nat; 0%nat]) 0) [1; 0; 0] = true.
Proof. vm_compute. repeat split. Qed.

(* ------------------------------------------------------------------ hypotheses are satisfiable *)
Example ex_softmax_nonvacuous : exp_like ex_step /\ eqSmall (1#2) 0 = false /\
  is_distb (softmax_policy ex_step (1#2) [-20; -30; -20]) = true.
Proof. split; [exact ex_step_exp_like| split; vm_compute; reflexivity]. Qed.

Example ex_thompson_nonvacuous :
  Forall (fun p => (2 <= fst p)%nat) [(5%nat, -5); (3%nat, -1); (2%nat, -3)] /\
  thompson_sample [(5%nat, -5); (3%nat, -1); (2%nat, -3)] = 1%nat.
Proof. split; [repeat constructor; cbn; lia| reflexivity]. Qed.

Example ex_greedy_nonvacuous :
  separatedb [-3; 5; 5; 1#2] = true /\ separatedb (shift (-1000) [-3; 5; 5; 1#2]) = true /\
  greedy_tieset [-3; 5; 5; 1#2] = [1%nat; 2%nat] /\ greedy_sample [-3; 5; 5; 1#2] 1 = 2%nat.
Proof. vm_compute. repeat split. Qed.

Example ex_lrp_nonvacuous :
  Forall (fun op => (fst op < 3)%nat) [(0%nat, true); (2%nat, false); (1%nat, true)] /\
  is_distb (lrp_pol (lrp_run 3 (1#4) (1#2) [(0%nat, true); (2%nat, false); (1%nat, true)])) = true.
Proof. split; [repeat constructor| vm_compute; reflexivity]. Qed.

Example ex_epsilon_nonvacuous :
  is_distb [1#2; 0; 1#2] = true /\ is_distb (eps_policy (1#4) [1#2; 0; 1#2]) = true.
Proof. split; vm_compute; reflexivity. Qed.
