(* Properties_C09.v — property C09: every policy is a coherent probability distribution over
   actions.  Only statements, each closed by [exact <lemma>] and followed by Print Assumptions. *)
From Coq Require Import List Arith ZArith QArith Qminmax Bool Lia Lqa.
From AIT Require Import Base.Qx C09.Model C09.Spec C09.ProofsGreedy C09.ProofsMix C09.ProofsSoftmax C09.ProofsWolf C09.ProofsPga C09.Machines C09.ProofsMachines C09.ProofsEsrl C09.ProofsSr C09.ProofsT3c C09.ModelRandom C09.ProofsRandom C09.ModelFactored C09.SpecFactored C09.ProofsFactored.
Import ListNotations.
Local Open Scope Q_scope.

(* ------------------------------------------------------------------ QGreedyPolicyWrapper *)

(* getPolicy() yields a probability vector of the right length *)
Theorem greedy_rows_dist : forall q, q <> [] -> separated q ->
  length (greedy_policy q) = length q /\ is_dist (greedy_policy q).
Proof. exact greedy_rows_dist_lemma. Qed.
Print Assumptions greedy_rows_dist.

(* getPolicy()[a] = getActionProbability(a) *)
Theorem greedy_table_eq_query : forall q, separated q -> agrees (greedy_policy q) (greedy_prob q).
Proof. exact greedy_table_eq_query_lemma. Qed.
Print Assumptions greedy_table_eq_query.

(* all mass on the maximal actions, shared equally among them *)
Theorem greedy_argmax : forall q a, separated q -> (a < length q)%nat ->
  (nthq q a == maxl q -> nthq (greedy_policy q) a == 1 / qnat (cnt (maxl q) q) /\ 0 < nthq (greedy_policy q) a) /\
  (nthq q a < maxl q -> nthq (greedy_policy q) a == 0).
Proof. exact greedy_argmax_lemma. Qed.
Print Assumptions greedy_argmax.

(* adding a constant to every value changes nothing (table, queries, tie set used for sampling) *)
Theorem greedy_shift : forall c q, separated q -> separated (shift c q) ->
  veq (greedy_policy (shift c q)) (greedy_policy q) /\
  (forall a, (a < length q)%nat -> greedy_prob (shift c q) a == greedy_prob q a) /\
  greedy_tieset (shift c q) = greedy_tieset q.
Proof. exact greedy_shift_lemma. Qed.
Print Assumptions greedy_shift.

(* sampleAction with draw [sel] in range returns a maximal action of positive probability *)
Theorem greedy_sample_in_support : forall q sel, q <> [] -> separated q ->
  length (greedy_tieset q) = cnt (maxl q) q /\
  ((sel < length (greedy_tieset q))%nat ->
     in_support (greedy_policy q) (greedy_sample q sel) /\ nthq q (greedy_sample q sel) == maxl q).
Proof. exact greedy_sample_in_support_lemma. Qed.
Print Assumptions greedy_sample_in_support.

(* the boolean separation predicate used by the generators/driver implies the hypothesis *)
Theorem separatedb_ok : forall q, separatedb q = true -> separated q.
Proof. exact separatedb_sound. Qed.
Print Assumptions separatedb_ok.

(* ------------------------------------------------------------------ EpsilonPolicyInterface *)

Theorem epsilon_mixture : forall eps pol, 0 <= eps -> eps <= 1 -> pol <> [] -> is_dist pol ->
  length (eps_policy eps pol) = length pol /\
  is_dist (eps_policy eps pol) /\
  agrees (eps_policy eps pol) (fun a => eps_prob eps (length pol) (nthq pol a)).
Proof. exact epsilon_mixture_lemma. Qed.
Print Assumptions epsilon_mixture.

Theorem epsilon_sample_in_support : forall eps u pol r w,
  0 <= eps -> eps <= 1 -> 0 <= u -> u < 1 -> (0 < eps \/ 0 < u) -> is_dist pol ->
  (r < length pol)%nat -> in_support pol w ->
  in_support (eps_policy eps pol) (eps_sample eps u r w).
Proof. exact eps_sample_in_support_lemma. Qed.
Print Assumptions epsilon_sample_in_support.

(* ------------------------------------------------------------------ sampleProbability / LRP *)

Theorem sample_prob_in_support : forall l p, is_dist l -> 0 <= p -> p < 1 -> in_support l (sample_prob l p).
Proof. exact sample_prob_in_support_lemma. Qed.
Print Assumptions sample_prob_in_support.

(* histories of updates only (round 1 statement, kept) *)
Theorem lrp_simplex_invariant_updates : forall A a b ops, (2 <= A)%nat -> 0 <= a -> a <= 1 -> 0 <= b -> b <= 1 ->
  Forall (fun op => (fst op < A)%nat) ops ->
  length (lrp_pol (lrp_run A a b ops)) = A /\ is_dist (lrp_pol (lrp_run A a b ops)).
Proof. exact lrp_simplex_invariant_lemma. Qed.
Print Assumptions lrp_simplex_invariant_updates.

(* histories that interleave stepUpdateP with setAParam / setBParam (values in [0,1]; a single arm
   only with b = 0): the policy stays a probability vector and the getters stay in [0,1] *)
Theorem lrp_simplex_invariant : forall A a b ops, (1 <= A)%nat ->
  0 <= a -> a <= 1 -> 0 <= b -> b <= 1 -> (A = 1%nat -> b == 0) -> Forall (lrp_op_ok A) ops ->
  length (lrp_pol (lrp_exec A a b ops)) = A /\ is_dist (lrp_pol (lrp_exec A a b ops)) /\
  0 <= lrp_getA (lrp_exec A a b ops) /\ lrp_getA (lrp_exec A a b ops) <= 1 /\
  0 <= lrp_getB (lrp_exec A a b ops) /\ lrp_getB (lrp_exec A a b ops) <= 1.
Proof. exact lrp_simplex_invariant_setters_lemma. Qed.
Print Assumptions lrp_simplex_invariant.

(* after ANY history, an update applies the documented reward / penalty rule with the parameters
   last set (cur_a, cur_b), and the getters return them: no cached quantity can be stale *)
Theorem lrp_documented_rule : forall A a b ops act res,
  veq (lrp_pol (lrp_apply (lrp_exec A a b ops) (LUpd act res)))
      (lrp_rule (cur_a a ops) (cur_b b ops) (lrp_pol (lrp_exec A a b ops)) act res) /\
  lrp_getA (lrp_exec A a b ops) == cur_a a ops /\ lrp_getB (lrp_exec A a b ops) == cur_b b ops.
Proof. exact lrp_documented_rule_lemma. Qed.
Print Assumptions lrp_documented_rule.

(* setEpsilon: accepted iff in [0,1] (else throws and keeps the old value); after any list of calls
   the mixture is still a distribution whose table equals the queries *)
Theorem epsilon_set_spec : forall cur e,
  (0 <= e /\ e <= 1 -> eps_set_throws e = false /\ eps_set cur e = e) /\
  (e < 0 \/ 1 < e -> eps_set_throws e = true /\ eps_set cur e = cur).
Proof. exact eps_set_spec. Qed.
Print Assumptions epsilon_set_spec.

Theorem epsilon_setters : forall e0 sets pol, 0 <= e0 -> e0 <= 1 -> pol <> [] -> is_dist pol ->
  let eps := fold_left eps_set sets e0 in
  0 <= eps /\ eps <= 1 /\ length (eps_policy eps pol) = length pol /\ is_dist (eps_policy eps pol) /\
  agrees (eps_policy eps pol) (fun a => eps_prob eps (length pol) (nthq pol a)).
Proof. exact epsilon_setters_lemma. Qed.
Print Assumptions epsilon_setters.

(* ------------------------------------------------------------------ QSoftmaxPolicyWrapper *)
(* about the code repaired by fixes/C09-softmax-underflow.patch; [ex] is std::exp, assumed only to
   be non-negative, monotone, with ex 0 = 1 (exp_like) — no finiteness side condition is left *)

Theorem softmax_dist : forall ex, exp_like ex -> forall T q, q <> [] ->
  (eqSmall T 0 = true -> separated q) ->
  length (softmax_policy ex T q) = length q /\ is_dist (softmax_policy ex T q).
Proof. exact softmax_dist_thm. Qed.
Print Assumptions softmax_dist.

Theorem softmax_table_eq_query : forall ex, exp_like ex -> forall T q, q <> [] ->
  (eqSmall T 0 = true -> separated q) -> agrees (softmax_policy ex T q) (softmax_prob ex T q).
Proof. exact softmax_table_eq_query_thm. Qed.
Print Assumptions softmax_table_eq_query.

Theorem softmax_shift : forall ex, exp_like ex -> forall c T q, q <> [] ->
  (eqSmall T 0 = true -> separated q /\ separated (shift c q)) ->
  veq (softmax_policy ex T (shift c q)) (softmax_policy ex T q).
Proof. exact softmax_shift_thm. Qed.
Print Assumptions softmax_shift.

Theorem softmax_sample_in_support : forall ex, exp_like ex -> forall T q sel u, q <> [] ->
  (eqSmall T 0 = true -> separated q /\ (sel < length (greedy_tieset q))%nat) -> 0 <= u -> u < 1 ->
  in_support (softmax_policy ex T q) (softmax_sample ex T q sel u).
Proof. exact softmax_sample_in_support_thm. Qed.
Print Assumptions softmax_sample_in_support.

(* the code as it is in /repo (no max subtraction): getPolicy() and getActionProbability()
   disagree as soon as the sum of the exponentials is <= 1e-6, e.g. q = (-20,-30), T = 1 *)
Theorem softmax_asis_table_eq_query_refuted :
  exists (ex : Q -> Q) T q a, exp_like ex /\ eqSmall T 0 = false /\ (a < length q)%nat /\
    ~ nthq (asis_policy ex T q) a == asis_prob ex T q a.
Proof. exact softmax_asis_refuted_thm. Qed.
Print Assumptions softmax_asis_table_eq_query_refuted.

(* setTemperature: accepted iff >= 0; after any list of calls the policy is a distribution, table = queries *)
Theorem softmax_temperature_set_spec : forall cur t,
  (0 <= t -> temp_set_throws t = false /\ temp_set cur t = t) /\
  (t < 0 -> temp_set_throws t = true /\ temp_set cur t = cur).
Proof. exact temp_set_spec. Qed.
Print Assumptions softmax_temperature_set_spec.

Theorem softmax_setters : forall ex, exp_like ex -> forall t0 sets q, 0 <= t0 -> q <> [] -> separated q ->
  let T := fold_left temp_set sets t0 in
  0 <= T /\ length (softmax_policy ex T q) = length q /\ is_dist (softmax_policy ex T q) /\
  agrees (softmax_policy ex T q) (softmax_prob ex T q).
Proof. exact softmax_setters_thm. Qed.
Print Assumptions softmax_setters.

(* MDP::QSoftmaxPolicy, the whole table: every state row is a distribution and equals the per-action
   queries of THAT state; and each row may be moved by its own constant without changing the table
   (so a row's result cannot depend on the other rows, e.g. on a table-wide maximum) *)
Theorem msoftmax_rows : forall ex, exp_like ex -> forall T qm,
  Forall (fun q => q <> []) qm -> (eqSmall T 0 = true -> Forall separated qm) ->
  length (msoftmax_policy ex T qm) = length qm /\
  forall s, (s < length qm)%nat ->
    length (row (msoftmax_policy ex T qm) s) = length (row qm s) /\
    is_dist (row (msoftmax_policy ex T qm) s) /\
    agrees (row (msoftmax_policy ex T qm) s) (msoftmax_prob ex T qm s).
Proof. exact msoftmax_rows_thm. Qed.
Print Assumptions msoftmax_rows.

Theorem msoftmax_row_shift : forall ex, exp_like ex -> forall T cs qm,
  eqSmall T 0 = false -> Forall (fun q => q <> []) qm -> length cs = length qm ->
  Forall2 veq (msoftmax_policy ex T (shift_rows cs qm)) (msoftmax_policy ex T qm).
Proof. exact msoftmax_row_shift_thm. Qed.
Print Assumptions msoftmax_row_shift.

(* ------------------------------------------------------------------ ThompsonSamplingPolicy *)
(* about the code repaired by fixes/C09-thompson-lowest.patch *)

Theorem thompson_argmax : forall arms, arms <> [] -> Forall (fun p => (2 <= fst p)%nat) arms ->
  (thompson_sample arms < length arms)%nat /\
  nthq (map snd arms) (thompson_sample arms) == maxl (map snd arms).
Proof. exact thompson_argmax_lemma. Qed.
Print Assumptions thompson_argmax.

Theorem thompson_unexplored_first : forall pre c v post,
  Forall (fun p => (2 <= fst p)%nat) pre -> (c < 2)%nat ->
  thompson_sample (pre ++ (c, v) :: post) = length pre.
Proof. exact thompson_unexplored_lemma. Qed.
Print Assumptions thompson_unexplored_first.

(* TopTwoThompsonSamplingPolicy::sampleAction, deterministic part ([first] = first Thompson draw,
   [pick] = the Bernoulli(beta) outcome, [stream] = the following Thompson draws): the result is the
   first draw, or — only when the coin failed and the first arm has >= 2 pulls — a later draw that differs *)
Theorem toptwo_result : forall counts first pick stream r,
  toptwo_sample counts first pick stream = Some r ->
  r = first \/ (In r stream /\ r <> first /\ pick = false /\ (2 <= nth first counts 0)%nat).
Proof. exact toptwo_result_lemma. Qed.
Print Assumptions toptwo_result.

(* T3CPolicy::sampleAction, deterministic part ([first] = Thompson leader, [pick] = Bernoulli(beta),
   [us] = the uniform draws of the tie-breaking Bernoulli(1/k)): the result is in range and is either
   the leader or — only when the coin failed and the leader has >= 2 pulls — a different arm whose
   transportation cost is minimal among all other arms *)
Theorem t3c_result : forall means counts var first pick us,
  (2 <= length means)%nat -> (first < length means)%nat -> (length means <= length us)%nat ->
  let r := t3c_sample means counts var first pick us in
  (r < length means)%nat /\
  (r = first \/
   (r <> first /\ pick = false /\ (2 <= nth first counts 0)%nat /\
    forall a, (a < length means)%nat -> a <> first ->
              t3c_cost means counts var first r <= t3c_cost means counts var first a)).
Proof. exact t3c_result_lemma. Qed.
Print Assumptions t3c_result.

(* the code as it is: the running maximum starts at the smallest positive double *)
Theorem thompson_argmax_asis_refuted :
  exists arms, Forall (fun p => (2 <= fst p)%nat) arms /\
    ~ nthq (map snd arms) (thompson_sample_asis arms) == maxl (map snd arms).
Proof. exact thompson_asis_refuted_lemma. Qed.
Print Assumptions thompson_argmax_asis_refuted.

(* ------------------------------------------------------------------ WoLFPolicy *)
(* every history of stepUpdateP calls (any states, any tie-breaking draws) leaves every row of the
   actual and of the average policy a probability vector *)
Theorem wolf_rows_dist_updates : forall dW dL scaling qm A ops,
  (2 <= A)%nat -> 0 <= dW -> 0 <= dL -> 0 < scaling -> Forall (fun r => length r = A) qm ->
  length (wolf_run dW dL scaling qm A ops) = length qm /\
  Forall (fun r => length (w_act r) = A /\ is_dist (w_act r) /\ length (w_avg r) = A /\ is_dist (w_avg r))
         (wolf_run dW dL scaling qm A ops).
Proof. exact wolf_rows_dist_lemma. Qed.
Print Assumptions wolf_rows_dist_updates.

(* the same over histories that interleave stepUpdateP with setDeltaW / setDeltaL / setScaling
   (deltas >= 0, scaling > 0) *)
Theorem wolf_rows_dist : forall dW dL sc qm A ops,
  (2 <= A)%nat -> 0 <= dW -> 0 <= dL -> 0 < sc -> Forall (fun r => length r = A) qm ->
  Forall wolf_op_ok ops ->
  length (ws_rows (wolf_exec dW dL sc qm A ops)) = length qm /\
  Forall (fun r => length (w_act r) = A /\ is_dist (w_act r) /\ length (w_avg r) = A /\ is_dist (w_avg r))
         (ws_rows (wolf_exec dW dL sc qm A ops)).
Proof. exact wolf_rows_dist_setters_lemma. Qed.
Print Assumptions wolf_rows_dist.

Example ex_wolf_nonvacuous :
  forallb (fun r => is_distb (w_act r)) (wolf_run (1#8) (1#2) 4 [[1; -2; 1]; [0; 3; -1]] 3 [(0%nat, 1%nat); (1%nat, 0%nat); (0%nat, 0%nat)]) = true.
Proof. vm_compute. reflexivity. Qed.

(* ------------------------------------------------------------------ ESRLPolicy *)
(* the whole phase machine (exploration phases over a shrinking set of allowed actions with an
   embedded LRI automaton, re-initialised at every phase end; final exploitation) and its four setters:
   after EVERY history the table is a probability vector of length A, equals the per-action queries,
   and sampleAction (draw u explicit) returns an in-range action of positive probability *)
Theorem esrl_rows_dist : forall A a N phases window ops, (1 <= A)%nat -> 0 <= a -> a <= 1 ->
  Forall esrl_op_ok ops ->
  let st := esrl_exec A a N phases window ops in
  length (esrl_policy st) = A /\ is_dist (esrl_policy st) /\
  (forall x, nthq (esrl_policy st) x == esrl_prob st x) /\
  (forall u, 0 <= u -> u < 1 -> in_support (esrl_policy st) (esrl_sample st u)).
Proof. exact esrl_rows_dist_lemma. Qed.
Print Assumptions esrl_rows_dist.

Example ex_esrl_nonvacuous :
  let st := esrl_exec 3 (1#2) 2 2 2 [EUpd 0 true; EUpd 1 false; ESetA (1#4); EUpd 2 true; EUpd 2 true; EUpd 0 true] in
  e_exploit st = true /\ is_distb (esrl_policy st) = true /\
  e_allowed (esrl_exec 3 (1#2) 2 2 2 [EUpd 0 true; EUpd 1 false]) = [2%nat; 1%nat].
Proof. vm_compute. repeat split. Qed.

(* ------------------------------------------------------------------ SuccessiveRejectsPolicy *)
(* [hist] = the reward means read by each stepUpdateQ call.  After every history: the arm to pull is an
   available in-range arm and the table is its indicator (a distribution, = the queries); while phases
   last there are A + 1 - phase arms left and nKNew / nKOld are the documented n_k / n_{k-1} *)
Theorem sr_safety : forall A budget hist, (1 <= A)%nat ->
  let st := sr_run A budget hist in
  In (sr_sample st) (sr_avail st) /\ (sr_sample st < A)%nat /\ NoDup (sr_avail st) /\
  length (sr_policy st) = A /\ is_dist (sr_policy st) /\
  (forall a, nthq (sr_policy st) a == sr_prob st a) /\ in_support (sr_policy st) (sr_sample st) /\
  ((sr_phase st <= A)%nat -> (length (sr_avail st) + sr_phase st = A + 1)%nat /\
                       sr_new st = sr_nk A budget (sr_phase st) /\ sr_old st = nk0 A budget (sr_phase st - 1)) /\
  ((A < sr_phase st)%nat -> length (sr_avail st) = 1%nat).
Proof. exact sr_safety_lemma. Qed.
Print Assumptions sr_safety.

(* rejected arms are never pulled again *)
Theorem sr_rejected_never_again : forall A budget h1 h2, (1 <= A)%nat ->
  incl (sr_avail (sr_run A budget (h1 ++ h2))) (sr_avail (sr_run A budget h1)) /\
  In (sr_sample (sr_run A budget (h1 ++ h2))) (sr_avail (sr_run A budget h1)).
Proof. exact sr_rejected_never_again_lemma. Qed.
Print Assumptions sr_rejected_never_again.

(* every arm but one is eventually rejected: after sr_total A budget calls — a number that depends on
   A and the budget only (sum over phases k of (A+1-k) * max 1 (n_k - n_{k-1})) — whatever the rewards *)
Theorem sr_eventually_one : forall A budget hist, (1 <= A)%nat -> (sr_total A budget <= length hist)%nat ->
  (A < sr_phase (sr_run A budget hist))%nat /\ length (sr_avail (sr_run A budget hist)) = 1%nat.
Proof. exact sr_eventually_one_lemma. Qed.
Print Assumptions sr_eventually_one.

Example ex_sr_nonvacuous :
  sr_total 3 12 = 14%nat /\ sr_nk 3 12 1 = 3%nat /\ sr_nk 3 12 2 = 4%nat /\ sr_nk 3 12 3 = 7%nat /\
  sr_avail (sr_run 3 12 (repeat [1; 0; 2] 9)) = [0%nat; 2%nat] /\
  sr_avail (sr_run 3 12 (repeat [1; 0; 2] 11)) = [2%nat].
Proof. vm_compute. repeat split. Qed.

(* ------------------------------------------------------------------ PGAAPPPolicy *)
(* projectToProbability (repaired, 31ee3cf; local re-model of the function property C08 owns):
   for every non-empty input the result has the same length, no negative entry, and a sum within
   the library's tolerance of one — i.e. isProbability accepts it *)
Theorem pga_project_valid : forall v, v <> [] ->
  length (project v) = length v /\ is_dist_tol epsS (project v).
Proof. exact project_valid_local. Qed.
Print Assumptions pga_project_valid.

(* every history of stepUpdateP calls (any states, any learning rate / prediction length, any
   Q-function) leaves every row of the policy matrix a probability vector in that sense *)
Theorem pgaapp_rows_dist_updates : forall lr pl qm A ops, (1 <= A)%nat -> Forall (fun r => length r = A) qm ->
  length (pga_run lr pl qm A ops) = length qm /\
  Forall (fun r => length r = A /\ is_dist_tol epsS r) (pga_run lr pl qm A ops).
Proof. exact pgaapp_rows_dist_lemma. Qed.
Print Assumptions pgaapp_rows_dist_updates.

(* the same over histories that interleave stepUpdateP with writes to the referenced Q-function
   (PSetQ: the policy only holds a reference to it) and with setLearningRate / setPredictionLength
   (any values: negative ones throw and change nothing); the parameters stay >= 0 *)
Theorem pgaapp_rows_dist : forall lr pl qm A ops, (1 <= A)%nat -> 0 <= lr -> 0 <= pl ->
  Forall (fun r => length r = A) qm ->
  0 <= ps_lr (pga_exec lr pl qm A ops) /\ 0 <= ps_pl (pga_exec lr pl qm A ops) /\
  length (ps_rows (pga_exec lr pl qm A ops)) = length qm /\
  Forall (fun r => length r = A /\ is_dist_tol epsS r) (ps_rows (pga_exec lr pl qm A ops)).
Proof. exact pgaapp_rows_dist_setters_lemma. Qed.
Print Assumptions pgaapp_rows_dist.

(* reaches a vertex of the simplex after one update, then keeps projecting negative entries away *)
Example ex_pgaapp_nonvacuous :
  veqb (row (pga_run (1#10) (1#2) [[10; 0; 0]] 3 [0%nat]) 0) [1; 0; 0] = true /\
  veqb (pga_grad_row (1#10) (1#2) [10; 0; 0] [1; 0; 0]) [1; -1; -1] = true /\
  veqb (row (pga_run (1#10) (1#2) [[10; 0; 0]] 3 [0%nat; 0%nat]) 0) [1; 0; 0] = true.
Proof. vm_compute. repeat split. Qed.

(* ------------------------------------------------------------------ MDP::Policy(const PolicyMatrix &) *)
(* an accepted matrix is stored unchanged and EVERY row is a probability vector (up to the library's
   tolerance); a matrix with a single bad row is rejected, whatever the other rows sum to *)
Theorem policy_ctor_rows_dist : forall m p, policy_ctor m = Some p ->
  p = m /\ Forall (fun r => is_dist_tol epsS r) p.
Proof. exact policy_ctor_lemma. Qed.
Print Assumptions policy_ctor_rows_dist.

Theorem policy_ctor_rejects : forall m r, In r m ->
  (~ nonneg r \/ epsS < qsum r - 1 \/ qsum r - 1 < - epsS) -> policy_ctor m = None.
Proof. exact policy_ctor_rejects_lemma. Qed.
Print Assumptions policy_ctor_rejects.

Example ex_policy_ctor_compensating :
  policy_ctor [[4#5; 0]; [1#5; 1]] = None /\ policy_ctor [[1#2; 1#2]; [0; 1]] = Some [[1#2; 1#2]; [0; 1]].
Proof. vm_compute. split; reflexivity. Qed.

(* ------------------------------------------------------------------ hypotheses are satisfiable *)
Example ex_softmax_nonvacuous : exp_like ex_step /\ eqSmall (1#2) 0 = false /\
  is_distb (softmax_policy ex_step (1#2) [-20; -30; -20]) = true.
Proof. split; [exact ex_step_exp_like| split; vm_compute; reflexivity]. Qed.

Example ex_thompson_nonvacuous :
  Forall (fun p => (2 <= fst p)%nat) [(5%nat, -5); (3%nat, -1); (2%nat, -3)] /\
  thompson_sample [(5%nat, -5); (3%nat, -1); (2%nat, -3)] = 1%nat.
Proof. split; [repeat constructor; cbn; lia| reflexivity]. Qed.

Example ex_greedy_nonvacuous :
  separatedb [-3; 5; 5; 1#2] = true /\ separatedb (shift (-1000) [-3; 5; 5; 1#2]) = true /\
  greedy_tieset [-3; 5; 5; 1#2] = [1%nat; 2%nat] /\ greedy_sample [-3; 5; 5; 1#2] 1 = 2%nat.
Proof. vm_compute. repeat split. Qed.

Example ex_lrp_setters_nonvacuous :
  Forall (lrp_op_ok 3) [LUpd 0 true; LSetB (3#10); LUpd 2 false; LSetA (1#2); LUpd 1 true] /\
  is_distb (lrp_pol (lrp_exec 3 (1#10) 0 [LUpd 0 true; LSetB (3#10); LUpd 2 false; LSetA (1#2); LUpd 1 true])) = true /\
  Qeq_bool (lrp_getB (lrp_exec 3 (1#10) 0 [LUpd 0 true; LSetB (3#10); LUpd 2 false])) (3#10) = true.
Proof. split; [repeat constructor; cbn; try lra; try lia; intros; discriminate| split; vm_compute; reflexivity]. Qed.

Example ex_lrp_nonvacuous :
  Forall (fun op => (fst op < 3)%nat) [(0%nat, true); (2%nat, false); (1%nat, true)] /\
  is_distb (lrp_pol (lrp_run 3 (1#4) (1#2) [(0%nat, true); (2%nat, false); (1%nat, true)])) = true.
Proof. split; [repeat constructor| vm_compute; reflexivity]. Qed.

Example ex_epsilon_nonvacuous :
  is_distb [1#2; 0; 1#2] = true /\ is_distb (eps_policy (1#4) [1#2; 0; 1#2]) = true.
Proof. split; vm_compute; reflexivity. Qed.

(* ------------------------------------------------------------------ round 6: RandomPolicy (Bandit, MDP), BanditPolicyAdaptor *)

(* Bandit::RandomPolicy: for every A >= 1 the table has length A, is a distribution, equals the
   per-action queries, and every entry is positive *)
Theorem random_dist : forall A, (1 <= A)%nat ->
  length (rnd_policy A) = A /\ is_dist (rnd_policy A) /\ agrees (rnd_policy A) (rnd_prob A) /\
  (forall a, (a < A)%nat -> 0 < nthq (rnd_policy A) a).
Proof. exact random_dist_lemma. Qed.
Print Assumptions random_dist.

(* sampleAction: any draw of uniform_int_distribution(0, A-1) is an action < A of positive probability *)
Theorem random_sample_in_support : forall A draw, (1 <= A)%nat ->
  (fst (rnd_bounds A) <= draw <= snd (rnd_bounds A))%nat ->
  (rnd_sample A draw < A)%nat /\ in_support (rnd_policy A) (rnd_sample A draw) /\
  0 < rnd_prob A (rnd_sample A draw).
Proof. exact random_sample_lemma. Qed.
Print Assumptions random_sample_in_support.

(* MDP::BanditPolicyAdaptor over ANY coherent bandit policy: S rows, each the bandit's table, a
   distribution, equal to the state's queries; a bandit sample in support stays in support *)
Theorem adaptor_rows : forall S bpol bprob, is_dist bpol -> agrees bpol bprob ->
  length (adapt_policy S bpol) = S /\
  forall s, (s < S)%nat ->
    row (adapt_policy S bpol) s = bpol /\ is_dist (row (adapt_policy S bpol) s) /\
    agrees (row (adapt_policy S bpol) s) (adapt_prob bprob s) /\
    (forall b, in_support bpol b -> in_support (row (adapt_policy S bpol) s) (adapt_sample b s)).
Proof. exact adaptor_rows_lemma. Qed.
Print Assumptions adaptor_rows.

(* MDP::RandomPolicy: for every S and A >= 1 every row is a distribution of length A, equals the
   queries, and the sampled action is < A and in the support *)
Theorem mdp_random_rows_dist : forall S A, (1 <= A)%nat ->
  length (mrnd_policy S A) = S /\
  forall s, (s < S)%nat ->
    length (row (mrnd_policy S A) s) = A /\ is_dist (row (mrnd_policy S A) s) /\
    agrees (row (mrnd_policy S A) s) (mrnd_prob S A s) /\
    (forall draw, (fst (rnd_bounds A) <= draw <= snd (rnd_bounds A))%nat ->
       (mrnd_sample S A s draw < A)%nat /\ in_support (row (mrnd_policy S A) s) (mrnd_sample S A s draw)).
Proof. exact mdp_random_rows_dist_lemma. Qed.
Print Assumptions mdp_random_rows_dist.

Example ex_random_nonvacuous :
  is_distb (rnd_policy 3) = true /\ forallb is_distb (mrnd_policy 2 3) = true /\
  length (mrnd_policy 2 3) = 2%nat /\ rnd_bounds 3 = (0%nat, 2%nat) /\ mrnd_sample 2 3 1 2 = 2%nat /\
  is_distb (row (adapt_policy 2 [1#4; 3#4]) 1) = true.
Proof. vm_compute. repeat split. Qed.

(* ------------------------------------------------------------------ round 6: Factored::Bandit::RandomPolicy / SingleActionPolicy *)

(* Factored::Bandit::RandomPolicy: every joint action has positive probability and the probabilities
   sum to one over the whole joint action space (all factor sizes >= 1; size_t wraparound excluded) *)
Theorem factored_random_dist : forall A, Forall (fun n => (1 <= n)%nat) A ->
  (forall a, 0 < frnd_prob A a) /\ qsum (map (frnd_prob A) (joint A)) == 1.
Proof. exact factored_random_dist_lemma. Qed.
Print Assumptions factored_random_dist.

(* sampleAction: per-agent draws within the bounds of the per-agent distributions give a joint action
   of the space, of positive probability *)
Theorem factored_random_sample : forall A draws, Forall (fun n => (1 <= n)%nat) A ->
  Forall2 (fun b d => (fst b <= d <= snd b)%nat) (frnd_bounds A) draws ->
  in_space A (frnd_sample A draws) /\ In (frnd_sample A draws) (joint A) /\
  0 < frnd_prob A (frnd_sample A draws).
Proof. exact factored_random_sample_lemma. Qed.
Print Assumptions factored_random_sample.

(* Factored::Bandit::SingleActionPolicy: 0/1-valued, sums to one over the joint space, the sampled
   action has probability one (current action a member of the space) *)
Theorem single_action_dist : forall A cur, in_space A cur ->
  (forall a, sa_prob cur a == 0 \/ sa_prob cur a == 1) /\
  qsum (map (sa_prob cur) (joint A)) == 1 /\
  sa_prob cur (sa_sample cur) == 1 /\ In (sa_sample cur) (joint A).
Proof. exact single_action_dist_lemma. Qed.
Print Assumptions single_action_dist.

(* the freshly constructed SingleActionPolicy (all-zero action) is in the space *)
Theorem single_action_init : forall A, Forall (fun n => (1 <= n)%nat) A -> in_space A (sa_init A).
Proof. exact sa_init_in_space. Qed.
Print Assumptions single_action_init.

Example ex_factored_nonvacuous :
  length (joint [2; 3; 2]%nat) = 12%nat /\ factor_space [2; 3; 2]%nat = 12%nat /\
  Qeq_bool (qsum (map (frnd_prob [2; 3; 2]%nat) (joint [2; 3; 2]%nat))) 1 = true /\
  Qeq_bool (qsum (map (sa_prob (sa_update (sa_init [2; 3; 2]%nat) [1; 2; 0]%nat)) (joint [2; 3; 2]%nat))) 1 = true /\
  frnd_sample [2; 3; 2]%nat [1; 0; 1]%nat = [1; 0; 1]%nat.
Proof. vm_compute. repeat split. Qed.
