(* Properties_C16.v — property C16 (PARTIAL): results are reproducible and independent of unrelated
   history.  Each hidden-state carrier of the library is modelled as explicit state threaded through
   the API (C16/Model.v); the theorems say that the carrier is unobservable.
   NOT covered by proof: bit-identical floating-point results across runs (a property of the compiled
   code and libm; observed by the correspondence only), and carriers other than the four below
   (covered by the source inventory + differential runs only).
   Only statements here, each closed by [exact <lemma>] and followed by Print Assumptions. *)
From Coq Require Import List NArith ZArith QArith Bool Arith.
From AIT Require Import Base.Qx Base.Mdp C16.Model C16.Spec C16.Proofs C16.ProofsPool C16.ModelCall C16.ProofsCall.
Import ListNotations.
Local Open Scope nat_scope.

(* ---- Seeder (src/Seeder.cpp).  The engine is abstract: any state type, any seeding function,
        any draw function. ---- *)

(* same root seed + same sequence of Seeder calls => same seeds, whatever happened before the
   setRootSeed (time-based initial seed, earlier getSeed calls of unrelated objects) *)
Theorem seeder_deterministic :
  forall (state : Type) (seed_of : N -> state) (next : state -> state * N)
         (w1 w2 : seeder state) (r : N) (ops : list sop),
  snd (seeder_run state seed_of next w1 (SSetRoot r :: ops)) =
  snd (seeder_run state seed_of next w2 (SSetRoot r :: ops)).
Proof. exact seeder_deterministic_raw. Qed.
Print Assumptions seeder_deterministic.

(* the seeds of any call sequence are those of the pure-stream specification *)
Theorem seeder_is_stream :
  forall (state : Type) (seed_of : N -> state) (next : state -> state * N) (ops : list sop) (w : seeder state),
  snd (seeder_run state seed_of next w ops) = seeds_spec state seed_of next (s_gen _ w) (s_root _ w) ops.
Proof. exact seeder_run_spec. Qed.
Print Assumptions seeder_is_stream.

(* the k-th object constructed after setRootSeed r is seeded with the k-th output of engine(r) *)
Theorem seeder_kth_seed :
  forall (state : Type) (seed_of : N -> state) (next : state -> state * N) (w : seeder state) (r : N) (n : nat),
  snd (seeder_run state seed_of next w (SSetRoot r :: repeat SGet n)) = map (stream state seed_of next r) (seq 0 n).
Proof. exact seeds_after_root. Qed.
Print Assumptions seeder_kth_seed.

(* whole programs (construct objects, sample from them, ask for seeds): fixed root seed + same
   construction/sampling order => same draws and same final world *)
Theorem program_deterministic :
  forall (state : Type) (seed_of : N -> state) (next : state -> state * N)
         (s1 s2 : seeder state) (objs : list state) (r : N) (p : list pop),
  prog_run state seed_of next {| w_seeder := s1; w_objs := objs |} (PSetRoot r :: p) =
  prog_run state seed_of next {| w_seeder := s2; w_objs := objs |} (PSetRoot r :: p).
Proof. exact prog_deterministic. Qed.
Print Assumptions program_deterministic.

(* sampling from other objects is unrelated history for object i: its engine (hence all its future
   draws) and the Seeder are the same as in the program with those draws removed *)
Theorem sampling_others_is_unrelated :
  forall (state : Type) (seed_of : N -> state) (next : state -> state * N) (i : nat) (p : list pop)
         (w1 w2 : sworld state),
  w_seeder _ w1 = w_seeder _ w2 -> length (w_objs _ w1) = length (w_objs _ w2) ->
  nth_error (w_objs _ w1) i = nth_error (w_objs _ w2) i ->
  let r1 := fst (prog_run state seed_of next w1 p) in
  let r2 := fst (prog_run state seed_of next w2 (filter (relevant_to i) p)) in
  w_seeder _ r1 = w_seeder _ r2 /\ nth_error (w_objs _ r1) i = nth_error (w_objs _ r2) i.
Proof. exact prog_unrelated_draws. Qed.
Print Assumptions sampling_others_is_unrelated.

(* ---- ValueIteration object reuse (ValueIteration.hpp, scratch member v1_) ---- *)

(* the result of a call depends only on the declared inputs (tolerance, horizon, initial value
   function, model): two solver objects with the same declared inputs, after ANY two histories whose
   setter calls agree — in particular any number of earlier solves of differently sized problems —
   return the same tuple *)
Theorem vi_reuse_independent :
  forall (o1 o2 : vi_obj) (h1 h2 : list vi_op) (m : mdp),
  vi_declared o1 = vi_declared o2 -> vi_setters h1 = vi_setters h2 ->
  snd (vi_call (vi_history o1 h1) m) = snd (vi_call (vi_history o2 h2) m).
Proof. exact vi_reuse_independent_lemma. Qed.
Print Assumptions vi_reuse_independent.

(* the object is a pure function of its declared inputs *)
Theorem vi_call_pure :
  forall (o : vi_obj) (m : mdp), snd (vi_call o m) = vi_pure (vi_tol o) (vi_hor o) (vi_param o) m.
Proof. exact vi_call_is_pure. Qed.
Print Assumptions vi_call_pure.

(* ---- FactorGraph node pool (FactorGraph.hpp, static factorAdjacenciesPool_) ---- *)

(* any program over any number of graphs, started from any two pool contents, yields the same graphs *)
Theorem pool_recycle_independent :
  forall (D : Type) (d0 : D) (pool1 pool2 : list (fnode D)) (gs : list (fgraph D)) (p : list (gop D)),
  snd (grun_pool D d0 (pool1, gs) p) = snd (grun_pool D d0 (pool2, gs) p).
Proof. exact pool_recycle_independent_lemma. Qed.
Print Assumptions pool_recycle_independent.

(* ... namely those of the pool-less specification (a recycled node has its data and variables
   overwritten before use) *)
Theorem pool_is_unobservable :
  forall (D : Type) (d0 : D) (p : list (gop D)) (pool : list (fnode D)) (gs : list (fgraph D)),
  snd (grun_pool D d0 (pool, gs) p) = grun_spec D d0 gs p.
Proof. exact grun_pool_spec. Qed.
Print Assumptions pool_is_unobservable.

(* operations on other graphs (which fill and drain the shared pool) are unrelated history for graph i *)
Theorem pool_unrelated_graphs :
  forall (D : Type) (d0 : D) (i : nat) (p : list (gop D)) (gs1 gs2 : list (fgraph D)) (pool1 pool2 : list (fnode D)),
  forallb (self_contained D i) p = true ->
  nth_error gs1 i = nth_error gs2 i ->
  nth_error (snd (grun_pool D d0 (pool1, gs1) p)) i =
  nth_error (snd (grun_pool D d0 (pool2, gs2) (filter (touches D i) p))) i.
Proof. exact pool_unrelated_graphs_lemma. Qed.
Print Assumptions pool_unrelated_graphs.

(* ---- AMDP discretizer (src/POMDP/Algorithms/AMDP.cpp) ---- *)

(* repaired code (fixes/C16-amdp-static.patch: `static` dropped): no carrier is left *)
Theorem amdp_discretizer_independent :
  forall (lg : Q -> Q) (w1 w2 : option Q) (S B : nat) (b : vec),
  snd (amdp_disc_fixed lg w1 S B b) = snd (amdp_disc_fixed lg w2 S B b).
Proof. exact amdp_fixed_independent. Qed.
Print Assumptions amdp_discretizer_independent.

(* the code as it stands: the function-local static makes the result depend on which discretizer
   ran first in the process (exact base-2 logarithm; S = 2, uniform belief, 4 buckets after 1 bucket) *)
Theorem amdp_discretizer_independent_refuted :
  exists (w1 w2 : option Q) (S B : nat) (b : vec),
    snd (amdp_disc_asis lg2 w1 S B b) <> snd (amdp_disc_asis lg2 w2 S B b).
Proof. exact amdp_asis_refuted_lemma. Qed.
Print Assumptions amdp_discretizer_independent_refuted.

(* the same witness for every function lg with lg(1/2) < 0 (any logarithm): 6 when fresh, 2 when stale *)
Theorem amdp_discretizer_stale_any_log :
  forall lg : Q -> Q, (lg (1 # 2) < 0)%Q ->
  snd (amdp_disc_asis lg None 2 4 [1#2; 1#2]) = 6 /\
  snd (amdp_disc_asis lg (fst (amdp_disc_asis lg None 2 1 [1#2; 1#2])) 2 4 [1#2; 1#2]) = 2.
Proof. exact amdp_asis_refuted_any_log. Qed.
Print Assumptions amdp_discretizer_stale_any_log.

(* as it stands the code is right exactly when the cached step is the one this discretizer needs *)
Theorem amdp_asis_ok_when_same_step :
  forall (lg : Q -> Q) (st : Q) (S B : nat) (b : vec),
  st == amdp_step lg S B -> snd (amdp_disc_asis lg (Some st) S B b) = amdp_disc lg S B b.
Proof. exact amdp_asis_same_step. Qed.
Print Assumptions amdp_asis_ok_when_same_step.

(* ---- values returned by an object vs. later reconfiguration of the object ---- *)
(* the Discretizer made by AMDP::makeDiscretizer captures S and the bucket count by value: whatever state
   the producing AMDP object is in when the discretizer is called, it computes amdp_disc with the bucket
   count of creation time *)
Theorem amdp_discretizer_is_snapshot :
  forall (lg : Q -> Q) (o cur1 cur2 : amdp_obj) (S : nat) (b : vec),
  amdp_make lg o S cur1 b = amdp_make lg o S cur2 b /\ amdp_make lg o S cur1 b = amdp_disc lg S (a_buckets o) b.
Proof. exact amdp_closure_snapshot_lemma. Qed.
Print Assumptions amdp_discretizer_is_snapshot.

(* a lambda capturing `this` instead (seeded change r3-1): S = 2, uniform belief, 10 buckets at creation,
   setEntropyBuckets(3) later: index 18, then 4 *)
Theorem amdp_discretizer_capturing_this_refuted :
  exists (o cur1 cur2 : amdp_obj) (S : nat) (b : vec), amdp_make_this lg2 o S cur1 b <> amdp_make_this lg2 o S cur2 b.
Proof. exact amdp_closure_this_refuted_lemma. Qed.
Print Assumptions amdp_discretizer_capturing_this_refuted.

(* ---- threads that run one after the other ---- *)
(* with the process-wide Seeder the thread that executes an operation is irrelevant: two programs with the same
   sequence of operations give the same draws and world, whichever threads ran them *)
Theorem sequential_threads_irrelevant :
  forall (state : Type) (seed_of : N -> state) (next : state -> state * N) (w : sworld state) (p q : list tpop),
  map erase_thread p = map erase_thread q ->
  tprog_run state seed_of next w p = tprog_run state seed_of next w q.
Proof. exact tprog_thread_irrelevant. Qed.
Print Assumptions sequential_threads_irrelevant.

(* a thread_local Seeder (seeded change r3-2): setRootSeed on thread 0, object constructed and sampled on
   thread 1 — the draw depends on thread 1's own (clock-seeded) Seeder *)
Theorem thread_local_seeder_refuted :
  exists (p : list tpop) (w1 w2 : tl_world N),
    tl_seeder N w1 0 = tl_seeder N w2 0 /\ tl_objs N w1 = tl_objs N w2 /\
    snd (tl_run N (fun r => r) toy_next_tl w1 p) <> snd (tl_run N (fun r => r) toy_next_tl w2 p).
Proof. exact thread_local_seeder_refuted_lemma. Qed.
Print Assumptions thread_local_seeder_refuted.

(* ---- per-call fields of solver objects: "every field is (re)initialised before it is used"
        (C16/ModelCall.v: a call is a sequence of `field := fn(fields read)` with arbitrary functions;
        only the order of the C++'s field accesses is modelled) ---- *)

(* the general principle: a call body accepted by the checker returns the same value from any two
   object states that agree on the declared fields D *)
Theorem init_before_use_independent :
  forall (V : Type) (p : list (stmt V)) (D rdeps : list nat) (rfn : list V -> V) (st1 st2 : fstate V),
  init_before_use V D p rdeps = true -> (forall i, In i D -> st1 i = st2 i) ->
  call_result V p rdeps rfn st1 = call_result V p rdeps rfn st2.
Proof. exact init_before_use_sound. Qed.
Print Assumptions init_before_use_independent.

(* Witness::operator() (agenda_, triedVectors_ and the per-action locals): any horizon, any number of
   actions, any number of agenda iterations, any functions — the returned value function does not depend
   on what an earlier call left in the object *)
Theorem witness_reuse_independent :
  forall (V : Type) (w_clear w_default w_push w_lpreset w_lpadd w_best w_variations w_tried_ins w_pop w_collect w_project : list V -> V)
         (h A k : nat) (rfn : list V -> V) (st1 st2 : fstate V),
  call_result V (witness_call V w_clear w_default w_push w_lpreset w_lpadd w_best w_variations w_tried_ins w_pop w_collect w_project true h A k) [W_v] rfn st1 =
  call_result V (witness_call V w_clear w_default w_push w_lpreset w_lpadd w_best w_variations w_tried_ins w_pop w_collect w_project true h A k) [W_v] rfn st2.
Proof. exact witness_reuse_independent_lemma. Qed.
Print Assumptions witness_reuse_independent.

(* the same call without `triedVectors_.clear()`: rejected by the checker, and observably dependent *)
Theorem witness_without_clear_refuted :
  exists (h A k : nat) (st1 st2 : fstate nat),
    call_result nat (witness_call nat sumf sumf sumf sumf sumf sumf sumf sumf sumf sumf sumf false h A k) [W_v] sumf st1 <>
    call_result nat (witness_call nat sumf sumf sumf sumf sumf sumf sumf sumf sumf sumf sumf false h A k) [W_v] sumf st2.
Proof. exact witness_noclear_refuted. Qed.
Print Assumptions witness_without_clear_refuted.

(* SARSOP::operator(): delta_, treeStorage_, beliefToNode_, predictors_, sampledNodes_, backuppedActions_,
   the temporary beliefs; declared input initialDelta_ *)
Theorem sarsop_reuse_independent :
  forall (V : Type) (s_copy s_clear s_bounds s_root s_sample s_expand s_backup s_backed_fill s_prune s_dupdate s_tmpw : list V -> V)
         (k : nat) (rfn : list V -> V) (st1 st2 : fstate V),
  st1 S_initDelta = st2 S_initDelta ->
  call_result V (sarsop_call V s_copy s_clear s_bounds s_root s_sample s_expand s_backup s_backed_fill s_prune s_dupdate s_tmpw true k) sarsop_result_deps rfn st1 =
  call_result V (sarsop_call V s_copy s_clear s_bounds s_root s_sample s_expand s_backup s_backed_fill s_prune s_dupdate s_tmpw true k) sarsop_result_deps rfn st2.
Proof. exact sarsop_reuse_independent_lemma. Qed.
Print Assumptions sarsop_reuse_independent.

(* SARSOP without `delta_ = initialDelta_` at the start of the call (the seeded change of notes/C16.md):
   rejected by the checker for every k >= 1, and observably dependent on the left-over delta_ *)
Theorem sarsop_without_delta_reset_rejected :
  forall (V : Type) (s_copy s_clear s_bounds s_root s_sample s_expand s_backup s_backed_fill s_prune s_dupdate s_tmpw : list V -> V) (k : nat),
  init_before_use V [S_initDelta]
    (sarsop_call V s_copy s_clear s_bounds s_root s_sample s_expand s_backup s_backed_fill s_prune s_dupdate s_tmpw false (S k)) sarsop_result_deps = false.
Proof. exact sarsop_nodeltareset_rejected. Qed.
Print Assumptions sarsop_without_delta_reset_rejected.

Theorem sarsop_without_delta_reset_refuted :
  exists (k : nat) (st1 st2 : fstate nat), st1 S_initDelta = st2 S_initDelta /\
    call_result nat (sarsop_call nat sumf sumf sumf sumf sumf sumf sumf sumf sumf sumf sumf false k) sarsop_result_deps sumf st1 <>
    call_result nat (sarsop_call nat sumf sumf sumf sumf sumf sumf sumf sumf sumf sumf sumf false k) sarsop_result_deps sumf st2.
Proof. exact sarsop_nodeltareset_refuted. Qed.
Print Assumptions sarsop_without_delta_reset_refuted.

(* GapMin::operator(): tolerance_ is reset from initialTolerance_ before the bounds use it *)
Theorem gapmin_reuse_independent :
  forall (V : Type) (g_copy g_init g_step g_tolupdate : list V -> V) (k : nat) (rfn : list V -> V) (st1 st2 : fstate V),
  st1 G_initTol = st2 G_initTol ->
  call_result V (gapmin_call V g_copy g_init g_step g_tolupdate true k) [G_lb; G_ub] rfn st1 =
  call_result V (gapmin_call V g_copy g_init g_step g_tolupdate true k) [G_lb; G_ub] rfn st2.
Proof. exact gapmin_reuse_independent_lemma. Qed.
Print Assumptions gapmin_reuse_independent.

Theorem gapmin_without_tolerance_reset_refuted :
  exists (k : nat) (st1 st2 : fstate nat), st1 G_initTol = st2 G_initTol /\
    call_result nat (gapmin_call nat sumf sumf sumf sumf false k) [G_lb; G_ub] sumf st1 <>
    call_result nat (gapmin_call nat sumf sumf sumf sumf false k) [G_lb; G_ub] sumf st2.
Proof. exact gapmin_notolreset_refuted. Qed.
Print Assumptions gapmin_without_tolerance_reset_refuted.

(* ---------------------------------------------------------------- satisfiability / sensitivity *)
(* a toy engine (state = counter) on which the Seeder programs do something *)
Definition toy_next (st : N) : N * N := (N.succ st, (st * 7 + 3)%N).
Example ex_seeder_run :
  snd (seeder_run N (fun r => r) toy_next {| s_root := 99%N; s_gen := 5%N |} [SGet; SSetRoot 1%N; SGet; SGet; SGetRoot])
  = [38%N; 10%N; 17%N; 1%N].
Proof. vm_compute. reflexivity. Qed.

Example ex_program :
  snd (prog_run N (fun r => r) toy_next {| w_seeder := {| s_root := 0%N; s_gen := 0%N |}; w_objs := [] |}
         [PSetRoot 2%N; PNew; PNew; PDraw 1; PDraw 0; PDraw 1; PGetSeed])
  = [171%N; 122%N; 178%N; 31%N].
Proof. vm_compute. reflexivity. Qed.

(* ValueIteration: a 2-state, 2-action MDP solved after a 3-state one on the same object *)
Definition ex_m2 : mdp :=
  {| nS := 2; nA := 2; P := [[[1#2; 1#2]; [0; 1]]; [[1; 0]; [1#4; 3#4]]]%Q; R := [[1; 0]; [0; 2]]%Q; gam := 1#2 |}.
Definition ex_m3 : mdp :=
  {| nS := 3; nA := 1; P := [[[0; 1; 0]; [0; 0; 1]; [1; 0; 0]]]%Q; R := [[1]; [2]; [3]]%Q; gam := 3#4 |}.
Definition ex_vi : vi_obj :=
  {| vi_tol := 0; vi_hor := 3; vi_param := {| vf_values := []; vf_actions := [] |};
     vi_v1 := {| vf_values := [5; 5; 5]%Q; vf_actions := [9; 9; 9] |} |}.
Example ex_vi_reuse :
  vf_values (snd (fst (snd (vi_call (vi_history ex_vi [VCall ex_m3]) ex_m2)))) = [69#32; 211#64]%Q
  /\ vi_declared ex_vi = vi_declared (vi_history ex_vi [VCall ex_m3]).
Proof. vm_compute. split; reflexivity. Qed.

(* FactorGraph: graph 1 fills the pool, graph 0 then recycles a node carrying stale data *)
Example ex_pool :
  let p := [GGet nat 1 [0; 1]; GSet nat 1 [0; 1] 7; GErase nat 1 0; GGet nat 0 [1; 2]] in
  map fn_data (fg_factors (nth 0 (snd (grun_pool nat 0 ([], [fg_new nat 3; fg_new nat 2]) p)) (fg_new nat 0))) = [0]
  /\ fst (grun_pool nat 0 ([], [fg_new nat 3; fg_new nat 2]) [GGet nat 1 [0; 1]; GSet nat 1 [0; 1] 7; GErase nat 1 0])
     = [{| fn_data := 7; fn_vars := [0; 1] |}].
Proof. vm_compute. split; reflexivity. Qed.

(* the pool theorem is sensitive to the data reset: a getFactor without it leaks stale data *)
Example ex_pool_noreset_leaks :
  exists (pool1 pool2 : list (fnode nat)) (g : fgraph nat) (vars : key),
    snd (fst (get_factor_noreset nat 0 pool1 g vars)) <> snd (fst (get_factor_noreset nat 0 pool2 g vars)).
Proof. exact pool_noreset_counterexample. Qed.

Example ex_amdp_fixed : amdp_disc lg2 2 4 [1#2; 1#2]%Q = 6 /\ amdp_disc lg2 4 4 [1#2; 1#4; 1#4; 0]%Q = 12.
Proof. vm_compute. split; reflexivity. Qed.

(* the call skeletons do something: SARSOP skeleton, 2 iterations, numbers as fields; two object
   states that differ in every per-call field give the same result *)
Example ex_sarsop_call :
  call_result nat (sarsop_call nat sumf sumf sumf sumf sumf sumf sumf sumf sumf sumf sumf true 2) sarsop_result_deps sumf (fun _ => 0)
  = call_result nat (sarsop_call nat sumf sumf sumf sumf sumf sumf sumf sumf sumf sumf sumf true 2) sarsop_result_deps sumf
      (fun i => if Nat.eqb i S_initDelta then 0 else 7 * i + 1)
  /\ init_before_use nat [S_initDelta] (sarsop_call nat sumf sumf sumf sumf sumf sumf sumf sumf sumf sumf sumf true 2) sarsop_result_deps = true.
Proof. vm_compute. split; reflexivity. Qed.
