(* Properties_C15.v — property C15: factored linear programs equal their flat formulation.
   Only statements, each closed by [exact <lemma>] and followed by Print Assumptions.

   [flp_rows S C b addConst order] is the list of LP rows FactoredLP::operator() pushes (Model.v;
   compared row by row with the real code on every run), over LP columns 0..|C|-1 = the weights,
   (|C| = the constant-basis weight if requested), nweights = phi, and the auxiliary rule columns.
   A valuation [val : nat -> Q] gives every column a value.  [order] is the elimination order; the
   theorems hold for EVERY order that eliminates every variable ([order_ok]). *)
From Coq Require Import List Arith QArith.
From AIT Require C14.Model C14.Spec C14.ModelAlg C14.SpecAlg C14.ProofsAlg C14.ModelDDN C14.SpecDDN C14.ProofsDDN C14.Model2D C14.Spec2D.
From AIT Require C15.ModelQ C15.ProofsQ.
From AIT Require Import Base.Qx C15.Model C15.Spec C15.ProofsBase C15.ProofsGraph C15.ProofsVE C15.ProofsSetup C15.Proofs C15.ProofsMdp
                        C15.ProofsOrder C15.ProofsConst C15.ProofsMdpSetup C15.ProofsMdpFull C15.ProofsMdpC14.
Import ListNotations.

(* The oracle's exact checker: the max-norm error over all joint assignments is below phi exactly
   when (w, phi) is feasible in the flat constraint system. *)
Theorem flat_maxerr_is_flat_feasibility : forall S C b addConst w phi,
  Forall (fun s => (0 < s)%nat) S ->
  (flat_maxerr S C b addConst w <= phi <-> flat_feasible S C b addConst (wl w) phi)%Q.
Proof. exact flat_maxerr_spec. Qed.
Print Assumptions flat_maxerr_is_flat_feasibility.

(* CORE (DESIGN 7b): soundness direction — no flat-feasible point is cut off.  For every weights w
   and bound phi with  phi >= |Cw(x) - b(x)|  at every joint assignment x, the auxiliary columns can
   be valued so that every row of the factored system holds. *)
Theorem factored_projection_eq_flat_sound : forall S C b addConst order (w : nat -> Q) phi,
  inputs_wf S C b addConst -> order_ok S order ->
  flat_feasible S C b addConst w phi ->
  exists val, (forall k, (k < nweights C addConst)%nat -> val k == w k) /\
              val (nweights C addConst) == phi /\
              feasible val (flp_rows S C b addConst order).
Proof. exact flp_sound_lemma. Qed.
Print Assumptions factored_projection_eq_flat_sound.

(* STRETCH: completeness direction — every point of the factored system, restricted to (w, phi),
   satisfies  phi >= |Cw(x) - b(x)|  at EVERY joint assignment (no assignment is dropped). *)
Theorem factored_projection_eq_flat_complete : forall S C b addConst order val,
  inputs_wf S C b addConst -> order_ok S order ->
  feasible val (flp_rows S C b addConst order) ->
  flat_feasible S C b addConst val (val (nweights C addConst)).
Proof. exact flp_complete_lemma. Qed.
Print Assumptions factored_projection_eq_flat_complete.

(* Both directions (DESIGN 4, C15.T): the projection of the factored system onto (w, phi) IS the
   flat system, for any elimination order. *)
Theorem factored_projection_eq_flat : forall S C b addConst order (w : nat -> Q) phi,
  inputs_wf S C b addConst -> order_ok S order ->
  ((exists val, (forall k, (k < nweights C addConst)%nat -> val k == w k) /\
                val (nweights C addConst) == phi /\
                feasible val (flp_rows S C b addConst order))
   <-> flat_feasible S C b addConst w phi).
Proof. exact flp_projection_lemma. Qed.
Print Assumptions factored_projection_eq_flat.

(* Equal optima: a number is a lower bound of phi over the factored system iff it is a lower bound of
   phi over the flat system — so an LP solver that returns an optimal point of the factored system
   (lp_complete_opt, DESIGN 2.4) returns weights attaining the flat optimum, i.e. minimising the
   max-norm error. *)
Theorem factored_optimum_eq_flat : forall S C b addConst order (m : Q),
  inputs_wf S C b addConst -> order_ok S order ->
  ((forall val, feasible val (flp_rows S C b addConst order) -> m <= val (nweights C addConst))
   <-> (forall w phi, flat_feasible S C b addConst w phi -> m <= phi)).
Proof. exact flp_optimum_lemma. Qed.
Print Assumptions factored_optimum_eq_flat.

(* STRETCH (factored-MDP LinearProgramming::solveLP), component 1: the elimination part — one chain,
   "newFactor >= sum of rules" per eliminated assignment, final row "sum of final factors <= 0" as
   repaired by fixes/C15-mdp-lp-final-factors.patch — for ANY initial rule graph g0 over the joint
   (state, action) variables: the generated system is satisfiable by some valuation of the new columns
   exactly when the graph's total value is <= 0 at EVERY joint assignment, for every elimination order.
   (Combined below with the rule set-up into [mdp_lp_eq_flat].)  ([gval] = sum over the graph's nodes of the
   rules matching x; [galign]/[gin]/[gdone] = column allocation and tag well-formedness.) *)
Theorem mdp_lp_elimination_eq_pointwise : forall S g0 n0 rows0 order val0,
  Forall (fun s => (0 < s)%nat) S -> order_ok S order ->
  gin S g0 -> gdone [] g0 -> galign 1 n0 g0 [] -> rows_lt n0 rows0 -> feasible val0 rows0 ->
  let st := run_ve 1 S (g0, [], n0, rows0) order in
  ((exists val, agree n0 val val0 /\ feasible val (st_rows st ++ mlp_result_rows (st_fin st)))
   <-> (forall x, in_space S x -> gval S val0 g0 x <= 0)).
Proof. exact ve_projection_lemma. Qed.
Print Assumptions mdp_lp_elimination_eq_pointwise.

(* The code as it stands in the unrepaired tree (one row "f <= 0" per final factor) cuts off a
   flat-feasible point: two independent components with maxima +1 and -1 (total 0 <= 0 at the only
   joint assignment) have no satisfying valuation of the new columns, while the repaired final row does. *)
Theorem mdp_lp_final_rows_unrepaired_refuted :
  let S := [1; 1]%nat in let order := [0; 1]%nat in
  let st := run_ve 1 S (cex_g0, [], 2%nat, []) order in
  (forall x, in_space S x -> gval S cex_val0 cex_g0 x <= 0) /\
  (forall val, agree 2 val cex_val0 -> ~ feasible val (st_rows st ++ mlp_result_rows_orig (st_fin st))) /\
  (exists val, agree 2 val cex_val0 /\ feasible val (st_rows st ++ mlp_result_rows (st_fin st))).
Proof. exact mlp_orig_refuted_lemma. Qed.
Print Assumptions mdp_lp_final_rows_unrepaired_refuted.

(* ---- round 2 ------------------------------------------------------------------------------- *)

(* The elimination order the code itself uses (modelled FactorGraph::bestVariableToRemove loop)
   eliminates every variable exactly once: [order_ok] holds for it, for every graph. *)
Theorem code_order_ok : forall S g, order_ok S (heur_order S g) /\ NoDup (heur_order S g).
Proof. exact (fun S g => conj (heur_order_ok S g) (heur_order_nodup S g)). Qed.
Print Assumptions code_order_ok.

(* FactoredLP for EVERY basis set — including "constant basis and no explicit basis", as repaired by
   fixes/C15-flp-constant-without-basis.patch ([flp_rows_r]; identical to [flp_rows] otherwise) — and
   for the code's own elimination order: the projection onto (w, phi) is the flat system. *)
Theorem factored_projection_eq_flat_code_order : forall S C b addConst (w : nat -> Q) phi,
  inputs_wf_r S C b addConst ->
  ((exists val, (forall k, (k < nweights C addConst)%nat -> val k == w k) /\
                val (nweights C addConst) == phi /\
                feasible val (flp_rows_r S C b addConst (flp_order_r S C b addConst)))
   <-> flat_feasible S C b addConst w phi).
Proof. exact flp_code_projection_lemma. Qed.
Print Assumptions factored_projection_eq_flat_code_order.

Theorem factored_projection_eq_flat_any_basis_set : forall S C b addConst order (w : nat -> Q) phi,
  inputs_wf_r S C b addConst -> order_ok S order ->
  ((exists val, (forall k, (k < nweights C addConst)%nat -> val k == w k) /\
                val (nweights C addConst) == phi /\
                feasible val (flp_rows_r S C b addConst order))
   <-> flat_feasible S C b addConst w phi).
Proof. exact flp_projection_r_lemma. Qed.
Print Assumptions factored_projection_eq_flat_any_basis_set.

(* The unrepaired code with a constant basis and no explicit basis (1.0 / C.bases.size() = 1/0, no
   row mentions the constant's weight): target (5, 7) over one binary factor; the constant 6 has
   max-norm error 1, but every point of the system the code builds has phi >= 7. *)
Theorem flp_constant_without_basis_unrepaired_refuted :
  let S := [2%nat] in let b := [mkBf [0%nat] [5; 7]] in
  flat_feasible S [] b true (fun _ => 6) 1 /\
  (forall val, feasible val (flp_rows S [] b true [0%nat]) -> 7 <= val 1%nat).
Proof. exact flp_constant_only_unrepaired_refuted_lemma. Qed.
Print Assumptions flp_constant_without_basis_unrepaired_refuted.

(* Factored-MDP LP, component 2 + combination (self-contained): for ANY g handed to the rule set-up,
   the whole system [mlp_rows] (h rules, gamma*g rules, R rules — entries with |v| <= 1e-6 skipped
   — elimination, repaired final row) is satisfiable for weights w  <->
       R(s,a) + sum_k w_k (gamma g_k(s,a) - h_k(s)) <= 0   at every joint (s, a),
   every entry below 1e-6 read as 0 ([mlp_flat_c]); any order eliminating all of S ++ A. *)
Theorem mdp_lp_rules_eq_flat : forall S A h g R gam order (w : nat -> Q),
  mlp_wf S A h g R -> order_ok (S ++ A) order ->
  ((exists val, agree (length h) val w /\ feasible val (mlp_rows S A h g R gam order))
   <-> (forall s a, in_space S s -> in_space A a -> mlp_flat_c S A h g R gam w s a <= 0)).
Proof. exact mlp_projection_c_lemma. Qed.
Print Assumptions mdp_lp_rules_eq_flat.

(* THE FULL STATEMENT (DESIGN 4, C15.S second clause): with g = backProject(T, h) (C14's model and
   theorem backproject_is_expectation), no entry tiny-but-non-zero ([bf_exact]/[bm_exact]: the
   checkEqualSmall skip is then exact), the factored MDP LP is satisfiable for w exactly when
       V_w(s) >= R(s,a) + gamma * sum_s1 P(s1 | s, a) * V_w(s1)    at every joint (s, a)
   ([bellman_ok]; P = DDN::getTransitionProbability, V_w = sum_k w_k h_k). *)
Theorem mdp_lp_eq_flat : forall G T (h14 : list C14.ModelAlg.bf) R gam order (w : nat -> Q),
  let S := C14.ModelDDN.gS G in let A := C14.ModelDDN.gA G in
  let h := map conv_bf h14 in let g := map conv_bm (map (C14.ModelDDN.backProject G T) h14) in
  C14.ProofsDDN.graph_built G -> C14.SpecDDN.graph_complete G ->
  Forall (fun f => C14.SpecAlg.bf_wf S f /\ C14.ProofsAlg.strict (C14.ModelAlg.bfTag f)) h14 ->
  (forall s a, in_space S s -> in_space A a -> C14.SpecDDN.rows_stochastic G T s a) ->
  mlp_wf S A h g R -> order_ok (S ++ A) order ->
  Forall bf_exact h -> Forall bm_exact g -> Forall bm_exact R ->
  ((exists val, agree (length h) val w /\ feasible val (mlp_rows S A h g R gam order))
   <-> (forall s a, in_space S s -> in_space A a ->
          bellman_ok S A h R gam (C14.ModelDDN.getTransitionProbability G T) w s a)).
Proof. exact mdp_lp_eq_flat_lemma. Qed.
Print Assumptions mdp_lp_eq_flat.

(* hence equal optima, for every objective that reads only the weights (the code minimises
   sum_k w_k * mean(h_k)); stated for any g that is the expectation of h under some P *)
Theorem mdp_lp_optimum_eq_flat : forall S A h g R gam P order (obj : (nat -> Q) -> Q) (m : Q),
  mlp_wf S A h g R -> order_ok (S ++ A) order ->
  Forall bf_exact h -> Forall bm_exact g -> Forall bm_exact R ->
  is_backprojection S A P h g ->
  (forall val val', agree (length h) val val' -> obj val == obj val') ->
  ((forall val, feasible val (mlp_rows S A h g R gam order) -> m <= obj val)
   <-> (forall w, (forall s a, in_space S s -> in_space A a -> bellman_ok S A h R gam P w s a) -> m <= obj w)).
Proof. exact mlp_optimum_lemma. Qed.
Print Assumptions mdp_lp_optimum_eq_flat.

(* the code's own order for the MDP LP *)
Theorem mdp_lp_code_order_ok : forall S A h g R gam, order_ok (S ++ A) (mlp_order S A h g R gam).
Proof. exact mlp_order_ok. Qed.
Print Assumptions mdp_lp_code_order_ok.

(* q_is_backup: the Q-function LinearProgramming::operator() returns ([lp_result_q] = backProject,
   operator*=(discount * v), plusEqual(…, R) — C14's models) has, at every joint (s, a), the flat value
       R(s,a) + gamma * sum_s1 P(s1 | s, a) * V_w(s1).
   [fm_ok R] = R's tags in range and non-empty, one row per partial state / one column per partial action
   (what CooperativeModel's constructor validates). *)
Theorem q_is_backup : forall G T h R gam w s a,
  C14.ProofsDDN.graph_built G -> C14.SpecDDN.graph_complete G ->
  Forall (fun f => C14.SpecAlg.bf_wf (C14.ModelDDN.gS G) f /\ C14.ProofsAlg.strict (C14.ModelAlg.bfTag f)) h ->
  C15.ProofsQ.fm_ok (C14.ModelDDN.gS G) (C14.ModelDDN.gA G) R ->
  length w = length h ->
  C14.Spec.in_space (C14.ModelDDN.gS G) s -> C14.Spec.in_space (C14.ModelDDN.gA G) a -> C14.SpecDDN.rows_stochastic G T s a ->
  C14.Spec2D.flat2 (C14.ModelDDN.gS G) (C14.ModelDDN.gA G) (C15.ModelQ.lp_result_q G T h R gam w) s a ==
  C14.Spec2D.flat2 (C14.ModelDDN.gS G) (C14.ModelDDN.gA G) R s a +
  gam * C14.SpecDDN.qsum (map (fun s1 => C14.ModelDDN.getTransitionProbability G T s a s1 * C14.SpecAlg.wsum (C14.ModelDDN.gS G) h s1 w)
                              (C14.SpecDDN.all_assign (C14.ModelDDN.gS G))).
Proof. exact C15.ProofsQ.q_is_backup_full_lemma. Qed.
Print Assumptions q_is_backup.

Example ex_mlp_nonvacuous :
  let S := [2%nat] in let A := [2%nat] in
  let h := [mkBf [0%nat] [1; 1]] in let g := [mkBm [0%nat] [0%nat] [[1; 1]; [1; 1]]] in
  let R := [mkBm [0%nat] [0%nat] [[1; 0]; [0; 2]]] in
  mlp_wf S A h g R /\ order_ok (S ++ A) [0%nat; 1%nat] /\
  Forall bf_exact h /\ Forall bm_exact g /\ Forall bm_exact R /\
  is_backprojection S A (fun _ _ _ => 1 # 2) h g.
Proof. exact ex_mlp_lemma. Qed.

(* hypotheses are satisfiable on a non-trivial input: two overlapping bases + constant basis over a
   2 x 3 space, a target on one factor, the order (1, 0); (w, phi) = (0, 5) is flat-feasible *)
Example ex_flp_nonvacuous :
  let S := [2; 3]%nat in
  let C := [mkBf [0; 1]%nat [1; 0; 2; 1; 0; 3]; mkBf [1]%nat [1; 2; (-1)]] in
  let b := [mkBf [0]%nat [(3 # 2); (-5)]] in
  inputs_wf S C b true /\ order_ok S [1; 0]%nat /\ flat_feasible S C b true (wl []) 5.
Proof. exact ex_flp_lemma. Qed.
