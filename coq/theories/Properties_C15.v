(* Properties_C15.v — property C15: factored linear programs equal their flat formulation.
   Only statements, each closed by [exact <lemma>] and followed by Print Assumptions.

   [flp_rows S C b addConst order] is the list of LP rows FactoredLP::operator() pushes (Model.v;
   compared row by row with the real code on every run), over LP columns 0..|C|-1 = the weights,
   (|C| = the constant-basis weight if requested), nweights = phi, and the auxiliary rule columns.
   A valuation [val : nat -> Q] gives every column a value.  [order] is the elimination order; the
   theorems hold for EVERY order that eliminates every variable ([order_ok]). *)
From Coq Require Import List Arith QArith.
From AIT Require Import Base.Qx C15.Model C15.Spec C15.ProofsBase C15.ProofsGraph C15.ProofsVE C15.ProofsSetup C15.Proofs C15.ProofsMdp.
Import ListNotations.

(* The oracle's exact checker: the max-norm error over all joint assignments is below phi exactly
   when (w, phi) is feasible in the flat constraint system. *)
Theorem flat_maxerr_is_flat_feasibility : forall S C b addConst w phi,
  Forall (fun s => (0 < s)%nat) S ->
  (flat_maxerr S C b addConst w <= phi <-> flat_feasible S C b addConst (wl w) phi)%Q.
Proof. exact flat_maxerr_spec. Qed.
Print Assumptions flat_maxerr_is_flat_feasibility.

(* CORE (DESIGN 7b): soundness direction — no flat-feasible point is cut off.  For every weights w
   and bound phi with  phi >= |Cw(x) - b(x)|  at every joint assignment x, the auxiliary columns can
   be valued so that every row of the factored system holds. *)
Theorem factored_projection_eq_flat_sound : forall S C b addConst order (w : nat -> Q) phi,
  inputs_wf S C b addConst -> order_ok S order ->
  flat_feasible S C b addConst w phi ->
  exists val, (forall k, (k < nweights C addConst)%nat -> val k == w k) /\
              val (nweights C addConst) == phi /\
              feasible val (flp_rows S C b addConst order).
Proof. exact flp_sound_lemma. Qed.
Print Assumptions factored_projection_eq_flat_sound.

(* STRETCH: completeness direction — every point of the factored system, restricted to (w, phi),
   satisfies  phi >= |Cw(x) - b(x)|  at EVERY joint assignment (no assignment is dropped). *)
Theorem factored_projection_eq_flat_complete : forall S C b addConst order val,
  inputs_wf S C b addConst -> order_ok S order ->
  feasible val (flp_rows S C b addConst order) ->
  flat_feasible S C b addConst val (val (nweights C addConst)).
Proof. exact flp_complete_lemma. Qed.
Print Assumptions factored_projection_eq_flat_complete.

(* Both directions (DESIGN 4, C15.T): the projection of the factored system onto (w, phi) IS the
   flat system, for any elimination order. *)
Theorem factored_projection_eq_flat : forall S C b addConst order (w : nat -> Q) phi,
  inputs_wf S C b addConst -> order_ok S order ->
  ((exists val, (forall k, (k < nweights C addConst)%nat -> val k == w k) /\
                val (nweights C addConst) == phi /\
                feasible val (flp_rows S C b addConst order))
   <-> flat_feasible S C b addConst w phi).
Proof. exact flp_projection_lemma. Qed.
Print Assumptions factored_projection_eq_flat.

(* Equal optima: a number is a lower bound of phi over the factored system iff it is a lower bound of
   phi over the flat system — so an LP solver that returns an optimal point of the factored system
   (lp_complete_opt, DESIGN 2.4) returns weights attaining the flat optimum, i.e. minimising the
   max-norm error. *)
Theorem factored_optimum_eq_flat : forall S C b addConst order (m : Q),
  inputs_wf S C b addConst -> order_ok S order ->
  ((forall val, feasible val (flp_rows S C b addConst order) -> m <= val (nweights C addConst))
   <-> (forall w phi, flat_feasible S C b addConst w phi -> m <= phi)).
Proof. exact flp_optimum_lemma. Qed.
Print Assumptions factored_optimum_eq_flat.

(* STRETCH, PARTIAL (factored-MDP LinearProgramming::solveLP): the elimination part — one chain,
   "newFactor >= sum of rules" per eliminated assignment, final row "sum of final factors <= 0" as
   repaired by fixes/C15-mdp-lp-final-factors.patch — for ANY initial rule graph g0 over the joint
   (state, action) variables: the generated system is satisfiable by some valuation of the new columns
   exactly when the graph's total value is <= 0 at EVERY joint assignment, for every elimination order.
   Full statement (not proved): with g0 = the rules of  R(s,a) + sum_k w_k (gamma g_k(s,a) - h_k(s))
   built by [mlp_setup], [gval S val0 g0 x] is that expression, i.e. the flat constraint
   V_w(s) >= R(s,a) + gamma sum_s' P(s'|s,a) V_w(s').  ([gval] = sum over the graph's nodes of the
   rules matching x; [galign]/[gin]/[gdone] = column allocation and tag well-formedness.) *)
Theorem mdp_lp_elimination_eq_pointwise_partial : forall S g0 n0 rows0 order val0,
  Forall (fun s => (0 < s)%nat) S -> order_ok S order ->
  gin S g0 -> gdone [] g0 -> galign 1 n0 g0 [] -> rows_lt n0 rows0 -> feasible val0 rows0 ->
  let st := run_ve 1 S (g0, [], n0, rows0) order in
  ((exists val, agree n0 val val0 /\ feasible val (st_rows st ++ mlp_result_rows (st_fin st)))
   <-> (forall x, in_space S x -> gval S val0 g0 x <= 0)).
Proof. exact ve_projection_lemma. Qed.
Print Assumptions mdp_lp_elimination_eq_pointwise_partial.

(* The code as it stands in the unrepaired tree (one row "f <= 0" per final factor) cuts off a
   flat-feasible point: two independent components with maxima +1 and -1 (total 0 <= 0 at the only
   joint assignment) have no satisfying valuation of the new columns, while the repaired final row does. *)
Theorem mdp_lp_final_rows_unrepaired_refuted :
  let S := [1; 1]%nat in let order := [0; 1]%nat in
  let st := run_ve 1 S (cex_g0, [], 2%nat, []) order in
  (forall x, in_space S x -> gval S cex_val0 cex_g0 x <= 0) /\
  (forall val, agree 2 val cex_val0 -> ~ feasible val (st_rows st ++ mlp_result_rows_orig (st_fin st))) /\
  (exists val, agree 2 val cex_val0 /\ feasible val (st_rows st ++ mlp_result_rows (st_fin st))).
Proof. exact mlp_orig_refuted_lemma. Qed.
Print Assumptions mdp_lp_final_rows_unrepaired_refuted.

(* hypotheses are satisfiable on a non-trivial input: two overlapping bases + constant basis over a
   2 x 3 space, a target on one factor, the order (1, 0); (w, phi) = (0, 5) is flat-feasible *)
Example ex_flp_nonvacuous :
  let S := [2; 3]%nat in
  let C := [mkBf [0; 1]%nat [1; 0; 2; 1; 0; 3]; mkBf [1]%nat [1; 2; (-1)]] in
  let b := [mkBf [0]%nat [(3 # 2); (-5)]] in
  inputs_wf S C b true /\ order_ok S [1; 0]%nat /\ flat_feasible S C b true (wl []) 5.
Proof. exact ex_flp_lemma. Qed.
