(* Properties_C02.v — property C02: exact POMDP solvers compute the true finite-horizon value.
   Statements only; proofs are in C02/Proofs*.v. *)
From Coq Require Import List Arith QArith Qminmax Lqa Lia Bool.
From AIT Require Import Base.Qx Base.Mdp Base.MdpExec C02.Model C02.Spec C02.ProofsVec C02.ProofsCross
  C02.ProofsSched C02.ProofsProj C02.ProofsIP C02.ProofsPrunePw C02.ProofsEV C02.ProofsRTBSS C02.ProofsSchedAll
  C04.Model C02.ModelWitness C02.ProofsWitness C02.ProofsWitnessTerm.
Import ListNotations.
Local Open Scope Q_scope.

(* The upper envelope of a cross-sum is the sum of the envelopes (every belief, any order flag). *)
Theorem cross_envelope : forall S l1 l2 a ord b, l1 <> [] -> l2 <> [] -> wfl S l1 -> wfl S l2 ->
  vbest (crossSum l1 l2 a ord) b == vbest l1 b + vbest l2 b.
Proof. exact cross_envelope_lemma. Qed.
Print Assumptions cross_envelope.

(* Incremental Pruning, for EVERY pruning function that returns a non-empty sub-list with the same
   envelope on the non-negative orthant (what C12 establishes for the library's pruners), every
   POMDP, horizon and (unnormalised) belief: the value surface equals exhaustive expectimax.
   [obs_clean]: observation probabilities are 0 or above the library tolerance (the property's
   separation assumption).  The merge schedule is covered for EVERY number of observations by
   ip_schedule_covers below. *)
Theorem ip_value : forall (prune : vlist -> vlist),
  (forall l e, In e (prune l) -> In e l) ->
  (forall l, l <> [] -> prune l <> []) ->
  (forall S l b, l <> [] -> wfl S l -> nonneg b -> length b = S -> vbest (prune l) b == vbest l b) ->
  forall m h b, wf_pomdp1 m -> obs_clean m ->
    nonneg b -> length b = nS (pm m) ->
    vbest (last (ip_run prune m h) []) b == EV m h b.
Proof.
  intros prune H1 H2 H3 m h b Hwf Hc Hb Hl.
  exact (proj2 (proj2 (ip_run_value prune H1 H2 H3 m Hwf Hc (ops_ok_all (nO m) (HO m Hwf)) h)) b Hb Hl).
Qed.
Print Assumptions ip_value.

(* The same for the executable instance that the correspondence check runs (pointwise pruning). *)
Theorem ip_value_pw : forall m h b, wf_pomdp1 m -> obs_clean m ->
  nonneg b -> length b = nS (pm m) ->
  vbest (last (ip_run prune_pw m h) []) b == EV m h b.
Proof. exact (ip_value prune_pw prune_pw_sub prune_pw_ne prune_pw_env). Qed.
Print Assumptions ip_value_pw.

(* Soundness of a symbolically-checked merge schedule on real data: envelope = sum of envelopes,
   every entry = one entry per observation, values added, links concatenated in order 0..O-1. *)
Theorem ip_schedule_sound : forall (prune : vlist -> vlist) S a b,
  (forall l e, In e (prune l) -> In e l) -> (forall l, l <> [] -> prune l <> []) ->
  (forall l, l <> [] -> wfl S l -> vbest (prune l) b == vbest l b) ->
  forall Ls, Forall (fun L => L <> [] /\ wfl S L /\ Forall (fun e => act e = a) L) Ls ->
  ops_ok (length Ls) = true ->
  slot_ok S a b Ls (Some (0%nat, length Ls)) (merge_all prune a Ls).
Proof. exact merge_all_ok. Qed.
Print Assumptions ip_schedule_sound.

(* The integer schedule of IncrementalPruning::operator() (front/back/stepsize/diff/elements with
   its alternating forward and backward passes) is sound for EVERY number of observations: it merges
   only adjacent intervals, in the right link order, and ends with the full interval [0,O). *)
Theorem ip_schedule_covers : forall n, (1 <= n)%nat -> ops_ok n = true.
Proof. exact ops_ok_all. Qed.
Print Assumptions ip_schedule_covers.

(* RTBSS (branch and bound with the repaired bound discount * max(maxR,0) * horizon): for every
   POMDP, every valid reward bound maxR (ANY sign), every horizon and normalised belief, the value
   returned is the exact expectimax value and the recorded action attains it — provided no
   reachable branch has probability in (0, 1e-6] (the code skips branches below its tolerance). *)
Theorem rtbss_value : forall m maxR, wf_pomdp1 m ->
  (forall s a, (s < nS (pm m))%nat -> (a < nA (pm m))%nat -> Rw m s a <= maxR) ->
  forall h b, nonneg b -> length b = nS (pm m) -> qsum b == 1 -> rtbss_clean m h b ->
    fst (rtbss_sim m maxR h b) == EV m h b /\
    ((0 < h)%nat -> (snd (rtbss_sim m maxR h b) < nA (pm m))%nat /\
                    Qa m (h - 1) b (snd (rtbss_sim m maxR h b)) == EV m h b).
Proof. intros m maxR Hwf HR. exact (rtbss_value_lemma m Hwf maxR HR). Qed.
Print Assumptions rtbss_value.

(* supporting facts about expectimax used above (and by C03) *)
Theorem EV_homogeneous : forall m n c t, 0 <= c -> EV m n (vsc c t) == c * EV m n t.
Proof. exact EV_scale. Qed.
Print Assumptions EV_homogeneous.

Theorem belief_mass_conservation : forall m, wf_pomdp1 m -> forall t a, (a < nA (pm m))%nat ->
  qsum (map (fun o => mass m (tau_step m t a o)) (seq 0 (nO m))) == mass m t.
Proof. exact mass_conservation. Qed.
Print Assumptions belief_mass_conservation.

Theorem EV_subadditive_thm : forall m n t1 t2, 0 <= gam (pm m) -> length t1 = nS (pm m) -> length t2 = nS (pm m) ->
  EV m n (vadd t1 t2) <= EV m n t1 + EV m n t2.
Proof. exact EV_subadditive. Qed.
Print Assumptions EV_subadditive_thm.

(* Non-vacuity: a concrete 2-state, 2-action, 2-observation POMDP meets every hypothesis. *)
Definition ex_pomdp : pomdp :=
  {| pm := {| nS := 2; nA := 2;
              P := [ [[1#2; 1#2]; [0; 1]]; [[1; 0]; [1#4; 3#4]] ];
              R := [ [1; -1]; [0; 2] ]; gam := 3#4 |};
     nO := 2; Ob := [ [[1; 0]; [1#2; 1#2]]; [[3#4; 1#4]; [0; 1]] ] |}.

Example ex_hypotheses : wf_pomdp1 ex_pomdp /\ obs_clean ex_pomdp /\ ops_ok (nO ex_pomdp) = true /\
  nonneg [1#2; 1#2] /\ ~ (EV ex_pomdp 2 [1#2; 1#2] == 0) /\
  rtbss_clean ex_pomdp 3 [1#2; 1#2] /\ (forall s a, (s < 2)%nat -> (a < 2)%nat -> Rw ex_pomdp s a <= 2).
Proof.
  split; [| split; [| split; [| split; [| split; [| split]]]]].
  - unfold wf_pomdp1, wf_mdp1, simplex, is_dist. cbn [pm nS nA gam P R nO Ob ex_pomdp length].
    repeat split; try lia; try lra; try reflexivity.
    + intros [|[|a]] Ha; try lia; reflexivity.
    + destruct a as [|[|a]]; destruct s as [|[|s]]; try lia; reflexivity.
    + destruct a as [|[|a]]; destruct s as [|[|s]]; try lia; unfold nonneg, row; cbn [nth]; repeat constructor; lra.
    + destruct a as [|[|a]]; destruct s as [|[|s]]; try lia; unfold row; cbn [nth qsum]; lra.
    + intros [|[|s]] Hs; try lia; reflexivity.
    + intros [|[|a]] Ha; try lia; reflexivity.
    + destruct a as [|[|a]]; destruct s as [|[|s]]; try lia; reflexivity.
    + destruct a as [|[|a]]; destruct s as [|[|s]]; try lia; unfold nonneg, row; cbn [nth]; repeat constructor; lra.
    + destruct a as [|[|a]]; destruct s as [|[|s]]; try lia; unfold row; cbn [nth qsum]; lra.
  - intros [|[|a]] [|[|o]] Ha Ho Hp s1 Hs1; try (cbn in Ha, Ho; lia); vm_compute in Hp; try discriminate.
  - vm_compute; reflexivity.
  - repeat constructor; lra.
  - vm_compute. discriminate.
  - apply rtbss_cleanb_sound. vm_compute. reflexivity.
  - intros [|[|s]] [|[|a]] Hs Ha; try lia; vm_compute; discriminate.
Qed.

(* ------------------------------------------------------------------------------------------------
   Witness (src: POMDP/Algorithms/Witness.hpp).  The model (C02/ModelWitness.v) is the agenda loop with
   the LP as an oracle.  For every oracle whose "no witness" answers are complete up to eps >= 0 (per
   unit of belief mass), every list of non-empty unpruned projection lists and every fuel: if the
   loop ends, the list found has the cross-sum envelope of the projections up to |O|*eps — the witness
   theorem.  Nothing is assumed about the answers "witness b" (they only matter for termination). *)
Theorem witness_envelope : forall S row,
  Forall (fun r => r <> []) row -> Forall (wfl S) row ->
  (forall o i e, nth_error (nth o row []) i = Some e -> obs e = [i]) ->
  forall eps, 0 <= eps ->
  forall (oracle : nat -> nat -> list vec -> vec -> option vec) t a,
  (forall Uv cand, oracle t a Uv cand = None ->
     forall b, nonneg b -> length b = S -> exists u, In u Uv /\ dot cand b <= dot u b + eps * qsum b) ->
  forall fuel U, wit_action oracle fuel t a S row = Some U ->
    U <> [] /\ wfl S U /\
    forall b, nonneg b -> length b = S ->
      Qenv row b - inject_Z (Z.of_nat (length row)) * (eps * qsum b) <= vbest U b /\ vbest U b <= Qenv row b.
Proof. exact wit_action_envelope_lemma. Qed.
Print Assumptions witness_envelope.

(* Whole runs: for every pruning function as in ip_value, every POMDP, horizon and (unnormalised)
   belief, a Witness run that ends returns a surface within wit_err h (= sum_k discount^k |O| eps per
   unit of mass) below exhaustive expectimax and never above it. *)
Theorem witness_run_value : forall (prune : vlist -> vlist),
  (forall l e, In e (prune l) -> In e l) ->
  (forall l, l <> [] -> prune l <> []) ->
  (forall S l b, l <> [] -> wfl S l -> nonneg b -> length b = S -> vbest (prune l) b == vbest l b) ->
  forall m, wf_pomdp1 m -> obs_clean m ->
  forall eps, 0 <= eps ->
  forall (oracle : nat -> nat -> list vec -> vec -> option vec),
  (forall t a Uv cand, oracle t a Uv cand = None ->
     forall b, nonneg b -> length b = nS (pm m) -> exists u, In u Uv /\ dot cand b <= dot u b + eps * qsum b) ->
  forall fuel h vf, wit_run oracle prune fuel m h = Some vf ->
  forall b, nonneg b -> length b = nS (pm m) ->
    EV m h b - wit_err m eps h * qsum b <= vbest (last vf []) b /\ vbest (last vf []) b <= EV m h b.
Proof.
  intros prune H1 H2 H3 m Hwf Hc eps He oracle Hcomp fuel h vf Hrun b Hb Hl.
  exact (proj2 (proj2 (wit_run_value_lemma prune H1 H2 H3 m Hwf Hc eps He oracle Hcomp fuel h vf Hrun)) b Hb Hl).
Qed.
Print Assumptions witness_run_value.

(* With an exact oracle (eps = 0) the Witness surface IS exhaustive expectimax. *)
Theorem witness_run_exact : forall (prune : vlist -> vlist),
  (forall l e, In e (prune l) -> In e l) ->
  (forall l, l <> [] -> prune l <> []) ->
  (forall S l b, l <> [] -> wfl S l -> nonneg b -> length b = S -> vbest (prune l) b == vbest l b) ->
  forall m, wf_pomdp1 m -> obs_clean m ->
  forall (oracle : nat -> nat -> list vec -> vec -> option vec),
  (forall t a Uv cand, oracle t a Uv cand = None ->
     forall b, nonneg b -> length b = nS (pm m) -> exists u, In u Uv /\ dot cand b <= dot u b) ->
  forall fuel h vf, wit_run oracle prune fuel m h = Some vf ->
  forall b, nonneg b -> length b = nS (pm m) -> vbest (last vf []) b == EV m h b.
Proof.
  intros prune H1 H2 H3 m Hwf Hc oracle Hcomp fuel h vf Hrun b Hb Hl.
  assert (Hcomp' : forall t a Uv cand, oracle t a Uv cand = None ->
            forall b, nonneg b -> length b = nS (pm m) -> exists u, In u Uv /\ dot cand b <= dot u b + 0 * qsum b).
  { intros t a Uv cand E b' Hb' Hl'. destruct (Hcomp t a Uv cand E b' Hb' Hl') as [u [Hu Hle]]. exists u. split; [exact Hu| lra]. }
  destruct (witness_run_value prune H1 H2 H3 m Hwf Hc 0 ltac:(lra) oracle Hcomp' fuel h vf Hrun b Hb Hl) as [Lo Up].
  assert (E0 : forall n, wit_err m 0 n == 0) by (intros n; induction n as [|n IH]; cbn [wit_err]; [reflexivity| rewrite IH; ring]).
  rewrite (E0 h) in Lo. lra.
Qed.
Print Assumptions witness_run_exact.

(* Termination.  With an oracle whose "witness b" answers are sound (b has the right dimension and the
   candidate is strictly above every row found so far at b), the agenda loop of one action ends within
   2*N iterations, N = number of cross-sum choices = |all_choices row| (the product of the sizes of the
   projection lists): (N - |U|) + (N - |tried|) + |agenda| decreases by one in every iteration. *)
Theorem witness_terminates : forall S row,
  Forall (fun r => r <> []) row -> Forall (wfl S) row ->
  (forall o i e, nth_error (nth o row []) i = Some e -> obs e = [i]) ->
  forall (oracle : nat -> nat -> list vec -> vec -> option vec) t a,
  (forall Uv cand b, oracle t a Uv cand = Some b -> length b = S /\ forall u, In u Uv -> dot u b < dot cand b) ->
  forall fuel, (2 * length (all_choices row) < fuel)%nat ->
  exists U, wit_action oracle fuel t a S row = Some U.
Proof. exact wit_action_terminates_lemma. Qed.
Print Assumptions witness_terminates.

(* Totality and exactness together: for a sound and eps-complete oracle, for every POMDP and horizon
   there is a fuel with which the Witness run ends, and its surface is expectimax up to wit_err. *)
Theorem witness_total : forall (prune : vlist -> vlist),
  (forall l e, In e (prune l) -> In e l) ->
  (forall l, l <> [] -> prune l <> []) ->
  (forall S l b, l <> [] -> wfl S l -> nonneg b -> length b = S -> vbest (prune l) b == vbest l b) ->
  forall m, wf_pomdp1 m -> obs_clean m ->
  forall eps, 0 <= eps ->
  forall (oracle : nat -> nat -> list vec -> vec -> option vec),
  (forall t a Uv cand, oracle t a Uv cand = None ->
     forall b, nonneg b -> length b = nS (pm m) -> exists u, In u Uv /\ dot cand b <= dot u b + eps * qsum b) ->
  (forall t a Uv cand b, oracle t a Uv cand = Some b ->
     length b = nS (pm m) /\ forall u, In u Uv -> dot u b < dot cand b) ->
  forall h, exists fuel vf,
    wit_run oracle prune fuel m h = Some vf /\
    forall b, nonneg b -> length b = nS (pm m) ->
      EV m h b - wit_err m eps h * qsum b <= vbest (last vf []) b /\ vbest (last vf []) b <= EV m h b.
Proof. exact wit_run_total_lemma. Qed.
Print Assumptions witness_total.

(* The "no witness" answers of the real LP are checked, not trusted: such an answer is accepted only
   with convex weights over the rows that certify it (none_cert_ok; the dual of the witness LP). *)
Theorem witness_none_cert_sound : forall S eps rows cand lam, none_cert_ok S eps rows cand lam = true ->
  forall b, nonneg b -> length b = S -> exists u, In u rows /\ dot cand b <= dot u b + eps * qsum b.
Proof. exact none_cert_sound_lemma. Qed.
Print Assumptions witness_none_cert_sound.

(* Completeness of an implementation's returned list, certified at EVERY belief, for any solver: if each
   vector of the model's exact list (ip_run with pointwise pruning, whose surface is EV by ip_value_pw) is
   certified to be nowhere more than eps above the returned list G, then G's surface is at least EV - eps
   on the whole non-negative orthant — not only at the grid beliefs the oracle samples.  (That G's surface
   is at most EV follows from its entries being plans: C04 plan_surface_le_EV.) *)
Theorem solver_surface_certified : forall m h eps (G : vlist) (lam : ventry -> vec),
  wf_pomdp1 m -> obs_clean m ->
  (forall g, In g (last (ip_run prune_pw m h) []) ->
     none_cert_ok (nS (pm m)) eps (valsof G) (vals g) (lam g) = true) ->
  forall b, nonneg b -> length b = nS (pm m) -> EV m h b <= vbest G b + eps * qsum b.
Proof.
  intros m h eps G lam Hwf Hc Hcert b Hb Hl.
  rewrite <- (ip_value_pw m h b Hwf Hc Hb Hl).
  apply (surface_cert_sound_lemma (nS (pm m)) eps _ G lam); try assumption.
  exact (proj1 (ip_run_value prune_pw prune_pw_sub prune_pw_ne prune_pw_env m Hwf Hc (ops_ok_all (nO m) (HO m Hwf)) h)).
Qed.
Print Assumptions solver_surface_certified.

(* Hence the model run that the correspondence check compares with the implementation — the agenda
   loop driven by the transcript [ans] of the real LP answers, every "no witness" answer certified by
   weights [lam] found by an untrusted search — satisfies the bound with NO assumption on [ans], [lam]. *)
Theorem witness_run_certified : forall (prune : vlist -> vlist),
  (forall l e, In e (prune l) -> In e l) ->
  (forall l, l <> [] -> prune l <> []) ->
  (forall S l b, l <> [] -> wfl S l -> nonneg b -> length b = S -> vbest (prune l) b == vbest l b) ->
  forall m, wf_pomdp1 m -> obs_clean m ->
  forall eps, 0 <= eps ->
  forall ans lam fb fuel h vf,
  wit_run (cert_oracle (nS (pm m)) eps ans lam fb) prune fuel m h = Some vf ->
  forall b, nonneg b -> length b = nS (pm m) ->
    EV m h b - wit_err m eps h * qsum b <= vbest (last vf []) b /\ vbest (last vf []) b <= EV m h b.
Proof.
  intros prune H1 H2 H3 m Hwf Hc eps He ans lam fb fuel h vf Hrun.
  apply (witness_run_value prune H1 H2 H3 m Hwf Hc eps He (cert_oracle (nS (pm m)) eps ans lam fb)
           (cert_oracle_complete (nS (pm m)) eps ans lam fb) fuel h vf Hrun).
Qed.
Print Assumptions witness_run_certified.

(* One step from ANY previous list w whose surface is within e0 (per unit of mass) below expectimax and
   never above it — the form in which the correspondence runs the model: on the implementation's own
   previous list, timestep by timestep. *)
Theorem witness_step_certified : forall (prune : vlist -> vlist),
  (forall l e, In e (prune l) -> In e l) ->
  (forall l, l <> [] -> prune l <> []) ->
  (forall S l b, l <> [] -> wfl S l -> nonneg b -> length b = S -> vbest (prune l) b == vbest l b) ->
  forall m, wf_pomdp1 m -> obs_clean m ->
  forall eps, 0 <= eps ->
  forall ans lam fb fuel t w w' n e0, w <> [] -> wfl (nS (pm m)) w -> 0 <= e0 ->
  (forall x, nonneg x -> length x = nS (pm m) -> EV m n x - e0 * qsum x <= vbest w x /\ vbest w x <= EV m n x) ->
  wit_step (cert_oracle (nS (pm m)) eps ans lam fb) prune fuel t m w = Some w' ->
  w' <> [] /\ wfl (nS (pm m)) w' /\
  forall b, nonneg b -> length b = nS (pm m) ->
    EV m (Datatypes.S n) b - (inject_Z (Z.of_nat (nO m)) * eps + gam (pm m) * e0) * qsum b <= vbest w' b /\
    vbest w' b <= EV m (Datatypes.S n) b.
Proof.
  intros prune H1 H2 H3 m Hwf Hc eps He ans lam fb fuel t w w' n e0 Hne Hw He0 Hprev Hrun.
  exact (wit_step_value_lemma prune H1 H2 H3 m Hwf Hc eps He (cert_oracle (nS (pm m)) eps ans lam fb)
           (cert_oracle_complete (nS (pm m)) eps ans lam fb) fuel t w w' n e0 Hne Hw He0 Hprev Hrun).
Qed.
Print Assumptions witness_step_certified.

(* non-vacuity: on ex_pomdp a certified run with a naive grid search for witnesses and single-row
   certificates ends within the fuel and returns a non-trivial value function *)
Definition ex_beliefs : list vec := [[1;0];[0;1];[1#2;1#2];[1#4;3#4];[3#4;1#4];[1#8;7#8];[7#8;1#8]].
Definition ex_ans (t a : nat) (rows : list vec) (cand : vec) : option vec :=
  find (fun b => forallb (fun r => if Qlt_le_dec (dot r b) (dot cand b) then true else false) rows) ex_beliefs.
Definition ex_lam (t a : nat) (rows : list vec) (cand : vec) : vec :=
  let idx := fst (fold_left (fun (st : nat * nat) r => let '(found, i) := st in
                  (if (Nat.eqb found (length rows)) && pw_ge r cand then i else found, Datatypes.S i)) rows (length rows, O)) in
  map (fun i => if Nat.eqb i idx then 1 else 0) (seq 0 (length rows)).
Example ex_witness_run : exists vf,
  wit_run (cert_oracle 2 0 ex_ans ex_lam [1#2;1#2]) prune_pw 200 ex_pomdp 2 = Some vf /\
  length (last vf []) = 4%nat /\ vf = ip_run prune_pw ex_pomdp 2.
Proof. eexists. split; [vm_compute; reflexivity| split; vm_compute; reflexivity]. Qed.
