(* Properties_C02.v — property C02: exact POMDP solvers compute the true finite-horizon value.
   Statements only; proofs are in C02/Proofs*.v. *)
From Coq Require Import List Arith QArith Qminmax Lqa Lia Bool.
From AIT Require Import Base.Qx Base.Mdp Base.MdpExec C02.Model C02.Spec C02.ProofsVec C02.ProofsCross
  C02.ProofsSched C02.ProofsProj C02.ProofsIP C02.ProofsPrunePw C02.ProofsEV C02.ProofsRTBSS C02.ProofsSchedAll.
Import ListNotations.
Local Open Scope Q_scope.

(* The upper envelope of a cross-sum is the sum of the envelopes (every belief, any order flag). *)
Theorem cross_envelope : forall S l1 l2 a ord b, l1 <> [] -> l2 <> [] -> wfl S l1 -> wfl S l2 ->
  vbest (crossSum l1 l2 a ord) b == vbest l1 b + vbest l2 b.
Proof. exact cross_envelope_lemma. Qed.
Print Assumptions cross_envelope.

(* Incremental Pruning, for EVERY pruning function that returns a non-empty sub-list with the same
   envelope on the non-negative orthant (what C12 establishes for the library's pruners), every
   POMDP, horizon and (unnormalised) belief: the value surface equals exhaustive expectimax.
   [obs_clean]: observation probabilities are 0 or above the library tolerance (the property's
   separation assumption).  The merge schedule is covered for EVERY number of observations by
   ip_schedule_covers below. *)
Theorem ip_value : forall (prune : vlist -> vlist),
  (forall l e, In e (prune l) -> In e l) ->
  (forall l, l <> [] -> prune l <> []) ->
  (forall S l b, l <> [] -> wfl S l -> nonneg b -> length b = S -> vbest (prune l) b == vbest l b) ->
  forall m h b, wf_pomdp1 m -> obs_clean m ->
    nonneg b -> length b = nS (pm m) ->
    vbest (last (ip_run prune m h) []) b == EV m h b.
Proof.
  intros prune H1 H2 H3 m h b Hwf Hc Hb Hl.
  exact (proj2 (proj2 (ip_run_value prune H1 H2 H3 m Hwf Hc (ops_ok_all (nO m) (HO m Hwf)) h)) b Hb Hl).
Qed.
Print Assumptions ip_value.

(* The same for the executable instance that the correspondence check runs (pointwise pruning). *)
Theorem ip_value_pw : forall m h b, wf_pomdp1 m -> obs_clean m ->
  nonneg b -> length b = nS (pm m) ->
  vbest (last (ip_run prune_pw m h) []) b == EV m h b.
Proof. exact (ip_value prune_pw prune_pw_sub prune_pw_ne prune_pw_env). Qed.
Print Assumptions ip_value_pw.

(* Soundness of a symbolically-checked merge schedule on real data: envelope = sum of envelopes,
   every entry = one entry per observation, values added, links concatenated in order 0..O-1. *)
Theorem ip_schedule_sound : forall (prune : vlist -> vlist) S a b,
  (forall l e, In e (prune l) -> In e l) -> (forall l, l <> [] -> prune l <> []) ->
  (forall l, l <> [] -> wfl S l -> vbest (prune l) b == vbest l b) ->
  forall Ls, Forall (fun L => L <> [] /\ wfl S L /\ Forall (fun e => act e = a) L) Ls ->
  ops_ok (length Ls) = true ->
  slot_ok S a b Ls (Some (0%nat, length Ls)) (merge_all prune a Ls).
Proof. exact merge_all_ok. Qed.
Print Assumptions ip_schedule_sound.

(* The integer schedule of IncrementalPruning::operator() (front/back/stepsize/diff/elements with
   its alternating forward and backward passes) is sound for EVERY number of observations: it merges
   only adjacent intervals, in the right link order, and ends with the full interval [0,O). *)
Theorem ip_schedule_covers : forall n, (1 <= n)%nat -> ops_ok n = true.
Proof. exact ops_ok_all. Qed.
Print Assumptions ip_schedule_covers.

(* RTBSS (branch and bound with the repaired bound discount * max(maxR,0) * horizon): for every
   POMDP, every valid reward bound maxR (ANY sign), every horizon and normalised belief, the value
   returned is the exact expectimax value and the recorded action attains it — provided no
   reachable branch has probability in (0, 1e-6] (the code skips branches below its tolerance). *)
Theorem rtbss_value : forall m maxR, wf_pomdp1 m ->
  (forall s a, (s < nS (pm m))%nat -> (a < nA (pm m))%nat -> Rw m s a <= maxR) ->
  forall h b, nonneg b -> length b = nS (pm m) -> qsum b == 1 -> rtbss_clean m h b ->
    fst (rtbss_sim m maxR h b) == EV m h b /\
    ((0 < h)%nat -> (snd (rtbss_sim m maxR h b) < nA (pm m))%nat /\
                    Qa m (h - 1) b (snd (rtbss_sim m maxR h b)) == EV m h b).
Proof. intros m maxR Hwf HR. exact (rtbss_value_lemma m Hwf maxR HR). Qed.
Print Assumptions rtbss_value.

(* supporting facts about expectimax used above (and by C03) *)
Theorem EV_homogeneous : forall m n c t, 0 <= c -> EV m n (vsc c t) == c * EV m n t.
Proof. exact EV_scale. Qed.
Print Assumptions EV_homogeneous.

Theorem belief_mass_conservation : forall m, wf_pomdp1 m -> forall t a, (a < nA (pm m))%nat ->
  qsum (map (fun o => mass m (tau_step m t a o)) (seq 0 (nO m))) == mass m t.
Proof. exact mass_conservation. Qed.
Print Assumptions belief_mass_conservation.

Theorem EV_subadditive_thm : forall m n t1 t2, 0 <= gam (pm m) -> length t1 = nS (pm m) -> length t2 = nS (pm m) ->
  EV m n (vadd t1 t2) <= EV m n t1 + EV m n t2.
Proof. exact EV_subadditive. Qed.
Print Assumptions EV_subadditive_thm.

(* Non-vacuity: a concrete 2-state, 2-action, 2-observation POMDP meets every hypothesis. *)
Definition ex_pomdp : pomdp :=
  {| pm := {| nS := 2; nA := 2;
              P := [ [[1#2; 1#2]; [0; 1]]; [[1; 0]; [1#4; 3#4]] ];
              R := [ [1; -1]; [0; 2] ]; gam := 3#4 |};
     nO := 2; Ob := [ [[1; 0]; [1#2; 1#2]]; [[3#4; 1#4]; [0; 1]] ] |}.

Example ex_hypotheses : wf_pomdp1 ex_pomdp /\ obs_clean ex_pomdp /\ ops_ok (nO ex_pomdp) = true /\
  nonneg [1#2; 1#2] /\ ~ (EV ex_pomdp 2 [1#2; 1#2] == 0) /\
  rtbss_clean ex_pomdp 3 [1#2; 1#2] /\ (forall s a, (s < 2)%nat -> (a < 2)%nat -> Rw ex_pomdp s a <= 2).
Proof.
  split; [| split; [| split; [| split; [| split; [| split]]]]].
  - unfold wf_pomdp1, wf_mdp1, simplex, is_dist. cbn [pm nS nA gam P R nO Ob ex_pomdp length].
    repeat split; try lia; try lra; try reflexivity.
    + intros [|[|a]] Ha; try lia; reflexivity.
    + destruct a as [|[|a]]; destruct s as [|[|s]]; try lia; reflexivity.
    + destruct a as [|[|a]]; destruct s as [|[|s]]; try lia; unfold nonneg, row; cbn [nth]; repeat constructor; lra.
    + destruct a as [|[|a]]; destruct s as [|[|s]]; try lia; unfold row; cbn [nth qsum]; lra.
    + intros [|[|s]] Hs; try lia; reflexivity.
    + intros [|[|a]] Ha; try lia; reflexivity.
    + destruct a as [|[|a]]; destruct s as [|[|s]]; try lia; reflexivity.
    + destruct a as [|[|a]]; destruct s as [|[|s]]; try lia; unfold nonneg, row; cbn [nth]; repeat constructor; lra.
    + destruct a as [|[|a]]; destruct s as [|[|s]]; try lia; unfold row; cbn [nth qsum]; lra.
  - intros [|[|a]] [|[|o]] Ha Ho Hp s1 Hs1; try (cbn in Ha, Ho; lia); vm_compute in Hp; try discriminate.
  - vm_compute; reflexivity.
  - repeat constructor; lra.
  - vm_compute. discriminate.
  - apply rtbss_cleanb_sound. vm_compute. reflexivity.
  - intros [|[|s]] [|[|a]] Hs Ha; try lia; vm_compute; discriminate.
Qed.
