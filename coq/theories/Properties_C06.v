(* Properties_C06.v — property C06: model objects always describe a valid (PO)MDP.
   Only statements, each closed by [exact <lemma>] and followed by Print Assumptions.
   [step true k] / [pstep true kb ko] are the state machines of the code after
   fixes/C06-discount-validation.patch; [false] is the code as it is in /repo. *)
From Coq Require Import List Arith QArith Bool Lia.
From AIT Require Import Base.Qx C06.Model C06.Spec C06.ProofsProb C06.ProofsModel C06.ProofsEffect C06.ProofsConv C06.ProofsAmdp C06.ProofsAmdpAcc C06.ProofsAmdpSpec C06.ModelCoop C06.SpecCoop C06.ProofsCoop.
Import ListNotations.
Local Open Scope Q_scope.

(* ---- validators ------------------------------------------------------------------------------ *)

(* every dense / template overload of isProbability accepts exactly the rows whose entries are all
   finite and >= 0 and whose sum is within 1e-6 of 1 (so NaN and +-inf are rejected) *)
Theorem isProbability_iff :
  (forall l, isProbability1 l = true <-> prob_row l) /\
  (forall m, isProbability2 m = true <-> Forall prob_row m) /\
  (forall t, isProbability3 t = true <-> Forall (Forall prob_row) t) /\
  (forall m, isProbabilityM2 m = true <-> Forall prob_row m) /\
  (forall t, isProbabilityM3 t = true <-> Forall (Forall prob_row) t).
Proof. exact isProbability_iff_lemma. Qed.
Print Assumptions isProbability_iff.

(* the SparseMatrix overloads decide: finite, sum and sum of absolute values within 1e-6 of 1 … *)
Theorem isProbability_sparse_iff :
  forall t, isProbabilityS3 t = true <-> Forall (Forall sprob_row) t.
Proof. exact isProbabilityS3_iff_lemma. Qed.
Print Assumptions isProbability_sparse_iff.

(* … which bounds negative entries by 1e-6 but does not exclude them *)
Theorem isProbability_sparse_tolerance : forall l, sprob_row l -> prob_row_tol epsS epsS l.
Proof. exact sprob_row_tol_lemma. Qed.
Print Assumptions isProbability_sparse_tolerance.

Theorem isProbability_sparse_nonneg_refuted :
  isProbabilityS3 [[neg_row_witness]] = true /\ ~ prob_row neg_row_witness.
Proof. exact isProbabilityS_accepts_negative_lemma. Qed.
Print Assumptions isProbability_sparse_nonneg_refuted.

Theorem nonfinite_rejected : forall l x, In x l -> (forall q, x <> XFin q) ->
  isProbability1 l = false /\ isProbabilityRowD l = false /\ isProbabilityRowS l = false.
Proof. exact nonfinite_rejected_lemma. Qed.
Print Assumptions nonfinite_rejected.

(* ---- discount -------------------------------------------------------------------------------- *)
Theorem setDiscount_iff : forall d, setDiscount_ok true d = true <-> disc_ok d.
Proof. exact setDiscount_iff_lemma. Qed.
Print Assumptions setDiscount_iff.

(* the code as it is accepts NaN (and only NaN) beyond (0,1] *)
Theorem setDiscount_iff_refuted : setDiscount_ok false XNaN = true /\ ~ disc_ok XNaN.
Proof. exact setDiscount_iff_refuted_lemma. Qed.
Print Assumptions setDiscount_iff_refuted.

Theorem setDiscount_unrepaired : forall d, setDiscount_ok false d = true <-> (disc_ok d \/ d = XNaN).
Proof. exact setDiscount_orig_lemma. Qed.
Print Assumptions setDiscount_unrepaired.

(* Model(2,2,5.0) on the code as it is: accepted, discount 5 *)
Theorem ctor_validates_discount_refuted :
  exists m, run false Dense bad_ctor_ops = Some m /\ mD m = XFin 5 /\ ~ valid_model m.
Proof. exact ctor_validates_discount_refuted_lemma. Qed.
Print Assumptions ctor_validates_discount_refuted.

Theorem setDiscount_nan_history_refuted :
  exists m, run false Dense nan_setter_ops = Some m /\ mD m = XNaN /\ ~ valid_model m.
Proof. exact setDiscount_nan_refuted_lemma. Qed.
Print Assumptions setDiscount_nan_history_refuted.

(* ---- validate-then-commit --------------------------------------------------------------------- *)

(* MDP::Model (k = Dense) and MDP::SparseModel (k = Sparse), repaired code: every call either is
   accepted and leaves a valid model (rows within 1e-6 of 1, entries >= 0, discount in (0,1]), or leaves
   the object untouched; hence every history of calls (including failing ones) ends in a valid model *)
Theorem setter_validate_then_commit : forall k,
  (forall st o st' r, ovalid valid_model st -> step true k st o = (st', r) ->
     ovalid valid_model st' /\ (r <> Ok -> st' = st)) /\
  (forall ops, ovalid valid_model (run true k ops)).
Proof. exact setter_validate_then_commit_lemma. Qed.
Print Assumptions setter_validate_then_commit.

(* POMDP::Model<M> (ko = Dense) and POMDP::SparseModel<M> (ko = Sparse) over either MDP base *)
Theorem pomdp_setter_validate_then_commit : forall kb ko,
  (forall st o st' r, ovalid (valid_pmodel_k kb ko) st -> pstep true kb ko st o = (st', r) ->
     ovalid (valid_pmodel_k kb ko) st' /\ (r <> Ok -> st' = st)) /\
  (forall ops, ovalid (valid_pmodel_k kb ko) (prun true kb ko ops)).
Proof. exact psetter_validate_then_commit_k_lemma. Qed.
Print Assumptions pomdp_setter_validate_then_commit.

(* an accepted setter stores the supplied table (sparse: entries within 1e-6 of 0 dropped) and the
   expected rewards sum_s1 r(s,a,s1) * T(s,a,s1) of the supplied reward table *)
Theorem setter_effect : forall fixed k m o m', setter fixed k m o = (m', Ok) -> effect k o m m'.
Proof. exact setter_effect_lemma. Qed.
Print Assumptions setter_effect.

Theorem ctor_tables_effect : forall fixed k s a t r d m,
  construct fixed k (CtorTables s a t r d) = (Some m, Ok) ->
  mS m = s /\ mA m = a /\ mD m = d /\
  (forall i j l, (i < s)%nat -> (j < a)%nat -> (l < s)%nat -> entry_kept k (at3 (mT m) j i l) (at3 t i j l)) /\
  (forall i j, (i < s)%nat -> (j < a)%nat -> qentry_kept k (R_at m i j) (exp_reward m r i j)).
Proof. exact ctor_tables_effect_lemma. Qed.
Print Assumptions ctor_tables_effect.

Theorem observation_setter_effect : forall fixed kb ko p obf p',
  psetter fixed kb ko p (PSetO3 obf) = (p', Ok) ->
  pM p' = pM p /\ pO p' = pO p /\
  forall s1 a o, (s1 < mS (pM p))%nat -> (a < mA (pM p))%nat -> (o < pO p)%nat ->
    entry_kept ko (at3 (pOb p') a s1 o) (at3 obf s1 a o).
Proof. exact psetO3_effect_lemma. Qed.
Print Assumptions observation_setter_effect.

(* pinned commit: MDP::SparseModel::setTransitionFunction(T) validates, then drops small entries; the
   stored row misses 1 by 1.8e-6.  Repaired code: the same call throws, the object is unchanged *)
Theorem sparse_rows_within_epsS_refuted :
  (exists m, run false Sparse sparse_drop_ops = Some m /\
             nth 0 (nth 0 (mT m) []) [] = [XFin (9999982 # 10000000); XFin 0; XFin 0] /\
             valid_model_k0b Sparse m = true /\ ~ valid_model m) /\
  (exists m, run true Sparse sparse_drop_ops = Some m /\ mT m = identity3 3 1).
Proof. exact sparse_rows_within_epsS_refuted_lemma. Qed.
Print Assumptions sparse_rows_within_epsS_refuted.

(* pinned commit: setTransitionFunction(SparseMatrix3D) stores a row with a negative entry *)
Theorem sparse_negative_stored_refuted :
  (exists m, run false Sparse sparse_neg_ops = Some m /\ nth 0 (nth 0 (mT m) []) [] = neg_row_witness) /\
  (exists m, run true Sparse sparse_neg_ops = Some m /\ mT m = identity3 2 1).
Proof. exact sparse_negative_stored_refuted_lemma. Qed.
Print Assumptions sparse_negative_stored_refuted.

(* what the unrepaired sparse setter does guarantee for one row: entries >= 0 kept or dropped, row sum
   within (n+1)*1e-6 of 1 *)
Theorem sparse_drop_row_tolerance : forall n l, length l = n -> prob_row l ->
  length (map drop_small l) = n /\ prob_row_tol (kneg0 Sparse) (ksum0 Sparse n) (map drop_small l).
Proof. exact drop_small_prob_row. Qed.
Print Assumptions sparse_drop_row_tolerance.

(* the repaired SparseMatrix overload decides the library's own notion *)
Theorem isProbability_sparse_fixed_iff : forall t, isProbabilityS3f true t = true <-> Forall (Forall prob_row) t.
Proof. exact isProbability3_iff_lemma. Qed.
Print Assumptions isProbability_sparse_fixed_iff.

(* the reward oracle of the driver is sound (tolerance 0) *)
Theorem reward_checker_sound : forall k m r, rewards_okb k 0 m r = true ->
  forall s a, (s < mS m)%nat -> (a < mA m)%nat -> qentry_kept k (R_at m s a) (exp_reward m r s a).
Proof. exact rewards_okb_sound. Qed.
Print Assumptions reward_checker_sound.

(* ---- conversions (stretch) --------------------------------------------------------------------- *)
Theorem conversion_preserves : forall k0 k m m' r,
  valid_model_k k0 m -> convert true k m = (Some m', r) ->
  valid_model_k k m' /\ r = Ok /\ mS m' = mS m /\ mA m' = mA m /\ mD m' = mD m /\
  (forall s a s1, (s < mS m)%nat -> (a < mA m)%nat -> (s1 < mS m)%nat ->
     entry_kept k (at3 (mT m') a s s1) (at3 (mT m) a s s1)) /\
  (forall s a, (s < mS m)%nat -> (a < mA m)%nat ->
     R_at m' s a == (match k with Dense => R_at m s a | Sparse => qdrop_small (R_at m s a) end)
                    * qsum (map xval (nth s (nth a (mT m) []) []))).
Proof. exact conversion_preserves_lemma. Qed.
Print Assumptions conversion_preserves.

(* every converting constructor validates the SOURCE's discount, whatever the source is (user-defined
   generic model, library model built through NO_CHECK — no validity of the source is assumed):
   accepted => same discount, in (0,1], and a valid result; a source discount outside (0,1] is rejected *)
Theorem copy_ctor_validates_discount : forall k g m r, construct true k (CtorCopy g) = (Some m, r) ->
  r = Ok /\ valid_model m /\ mD m = gD g /\ disc_ok (gD g).
Proof. exact copy_ctor_validates_discount_lemma. Qed.
Print Assumptions copy_ctor_validates_discount.

Theorem copy_ctor_rejects_bad_discount : forall k g, ~ disc_ok (gD g) ->
  exists r, construct true k (CtorCopy g) = (None, r) /\ r <> Ok.
Proof. exact copy_ctor_rejects_bad_discount_lemma. Qed.
Print Assumptions copy_ctor_rejects_bad_discount.

Theorem conversion_validates_discount : forall k m m' r, convert true k m = (Some m', r) ->
  r = Ok /\ valid_model m' /\ mD m' = mD m /\ disc_ok (mD m).
Proof. exact conversion_validates_discount_lemma. Qed.
Print Assumptions conversion_validates_discount.

Theorem pomdp_copy_ctor_validates_discount : forall kb ko g p r, pconstruct true kb ko (PCtorCopy g) = (Some p, r) ->
  r = Ok /\ valid_pmodel_k kb ko p /\ mD (pM p) = gD (gpM g) /\ disc_ok (gD (gpM g)).
Proof. exact pomdp_copy_ctor_validates_discount_lemma. Qed.
Print Assumptions pomdp_copy_ctor_validates_discount.

Theorem conversion_nan_refuted :
  (exists m, construct false Sparse (CtorCopy nan_source) = (Some m, Ok) /\ mD m = XNaN) /\
  construct true Sparse (CtorCopy nan_source) = (None, Throw) /\
  construct true Dense (CtorCopy nan_source) = (None, Throw).
Proof. exact conversion_nan_refuted_lemma. Qed.
Print Assumptions conversion_nan_refuted.

(* conversions are partial: valid models exist that the other class refuses *)
Theorem conversion_total_refuted :
  (exists m, run true Dense conv_reject_ops = Some m /\ valid_model m /\ convert true Sparse m = (None, Throw)) /\
  (exists m, run false Sparse sparse_drop_ops = Some m /\ convert false Dense m = (None, Throw)).
Proof. exact (conj conversion_can_reject_lemma sparse_to_dense_rejects_lemma). Qed.
Print Assumptions conversion_total_refuted.

(* ---- AMDP (stretch) ---------------------------------------------------------------------------- *)
(* final normalisation of AMDP::discretizeDense after fixes/C06-amdp-unvisited-reward.patch
   (fixed = true) and of discretizeSparse as it is: each derived row is an exact distribution and
   each reward is finite, provided the accumulated row is unvisited or has mass > 1e-6 *)
Theorem amdp_valid : forall fixed k s trow r,
  (fixed = true \/ k = Sparse) -> acc_row_ok trow r -> (s < length trow)%nat ->
  amdp_row_valid (amdp_finish_row fixed k s trow r).
Proof. exact amdp_row_valid_lemma. Qed.
Print Assumptions amdp_valid.

(* … and the accumulation loop establishes that proviso for every (a, s): for EVERY list of
   contributions (all sampled beliefs, any discretizer into [0,S1), any non-negative masses) every row
   of the derived model is a distribution and every reward is finite *)
Theorem amdp_valid_tables : forall fixed k S1 A cs, (fixed = true \/ k = Sparse) ->
  Forall (contrib_ok S1 A) cs ->
  forall a s, (a < A)%nat -> (s < S1)%nat ->
    let TR := amdp_accumulate k S1 A cs in
    amdp_row_valid (amdp_finish_row fixed k s (row (nth a (fst TR) []) s) (nthq (row (snd TR) s) a)).
Proof. exact amdp_valid_tables_lemma. Qed.
Print Assumptions amdp_valid_tables.

(* WHICH normaliser: the accumulators of the loop are exactly the filtered sums of Spec.v — the mass that
   normalises row (a,s) is the accumulated mass of the counted contributions (p further than 1e-6 from 0),
   not the number of sampled beliefs; cells and rewards likewise.  This is what the driver's oracle
   Spec.amdp_spec_okb evaluates on the implementation's output. *)
Theorem amdp_accumulate_spec : forall k S1 A cs a s, Forall (contrib_ok S1 A) cs -> (a < A)%nat -> (s < S1)%nat ->
  let TR := amdp_accumulate k S1 A cs in
  qsum (row (nth a (fst TR) []) s) == amdp_mass cs a s /\
  (forall s1, (s1 < S1)%nat -> nthq (row (nth a (fst TR) []) s) s1 == amdp_cell cs a s s1) /\
  nthq (row (snd TR) s) a == amdp_rsum k cs a s.
Proof. exact amdp_accumulate_spec_lemma. Qed.
Print Assumptions amdp_accumulate_spec.

Theorem amdp_normaliser : forall k S1 A cs a s, Forall (contrib_ok S1 A) cs -> (a < A)%nat -> (s < S1)%nat ->
  epsS < amdp_mass cs a s ->
  let TR := amdp_accumulate k S1 A cs in
  let out := amdp_finish_row true k s (row (nth a (fst TR) []) s) (nthq (row (snd TR) s) a) in
  fst out = map (fun x => x / qsum (row (nth a (fst TR) []) s)) (row (nth a (fst TR) []) s) /\
  qsum (row (nth a (fst TR) []) s) == amdp_mass cs a s /\
  (k = Dense -> snd out = XFin (nthq (row (snd TR) s) a / qsum (row (nth a (fst TR) []) s))).
Proof. exact amdp_normaliser_lemma. Qed.
Print Assumptions amdp_normaliser.

Theorem contrib_checker_sound : forall S1 A c, contrib_okb S1 A c = true -> contrib_ok S1 A c.
Proof. exact contrib_okb_sound. Qed.
Print Assumptions contrib_checker_sound.

Theorem amdp_valid_refuted :
  acc_row_ok [0; 0] 0 /\ snd (amdp_finish_row false Dense 0 [0; 0] 0) = XNaN /\
  snd (amdp_finish false Dense [[[0; 0]; [1 # 2; 1 # 2]]] [[0]; [3]]) = [[XNaN]; [XFin (12 # 4)]].
Proof. exact amdp_valid_refuted_lemma. Qed.
Print Assumptions amdp_valid_refuted.

Theorem acc_row_checker_sound : forall trow r, acc_row_okb trow r = true -> acc_row_ok trow r.
Proof. exact acc_row_okb_sound. Qed.
Print Assumptions acc_row_checker_sound.

(* ---- factored models: DDNGraph::push and CooperativeModel (stretch) ------------------------------ *)

(* checkTag accepts exactly the non-empty, strictly increasing tags inside the space *)
Theorem checkTag_iff : forall space tag, tag_fine space tag = true <-> tag_ok space tag.
Proof. exact tag_fine_iff. Qed.
Print Assumptions checkTag_iff.

(* DDNGraph::push: accepted => the parent set is valid and appended; rejected => graph unchanged;
   runtime_error exactly when the graph is already complete (it takes precedence), accepted exactly when
   the graph is incomplete and the parent set is valid *)
Theorem push_validate_then_commit : forall g p g' r, cpush g p = (g', r) ->
  (r = POk -> cps_valid (cg_S g) (cg_A g) p /\
              g' = {| cg_S := cg_S g; cg_A := cg_A g; cg_parents := cg_parents g ++ [p] |}) /\
  (r <> POk -> g' = g) /\
  (r = PRuntimeError <-> length (cg_parents g) = length (cg_S g)) /\
  (r = POk <-> length (cg_parents g) <> length (cg_S g) /\ cps_valid (cg_S g) (cg_A g) p).
Proof. exact cpush_spec. Qed.
Print Assumptions push_validate_then_commit.

(* every graph built by pushes (failing ones included) contains only valid nodes *)
Theorem push_history_wf : forall S A ps, cgraph_wf (cpush_all {| cg_S := S; cg_A := A; cg_parents := [] |} ps).
Proof. exact cpush_history_wf. Qed.
Print Assumptions push_history_wf.

(* CooperativeModel (repaired constructor, setDiscount): accepted => valid factored model (discount in
   (0,1], complete graph, one matrix per feature of the right shape with distribution rows, well-formed
   reward bases) stored as supplied; rejected => object unchanged; over all call histories *)
Theorem coop_validate_then_commit :
  (forall st o st' r, ovalid valid_coop st -> coop_step true st o = (st', r) ->
     ovalid valid_coop st' /\ (r <> Ok -> st' = st)) /\
  (forall ops, ovalid valid_coop (coop_run true ops)).
Proof. exact coop_validate_then_commit_lemma. Qed.
Print Assumptions coop_validate_then_commit.

Theorem coop_ctor_stores_input : forall c m r, coop_ctor true c = (Some m, r) -> m = c /\ r = Ok /\ valid_coop c.
Proof. exact coop_ctor_valid. Qed.
Print Assumptions coop_ctor_stores_input.

(* pinned commit: any discount is stored *)
Theorem coop_discount_refuted :
  coop_ctor false (coop_witness (XFin 5)) = (Some (coop_witness (XFin 5)), Ok) /\
  coop_ctor false (coop_witness XNaN) = (Some (coop_witness XNaN), Ok) /\
  coop_ctor true (coop_witness (XFin 5)) = (None, Throw) /\
  coop_ctor true (coop_witness (XFin (1#2))) = (Some (coop_witness (XFin (1#2))), Ok).
Proof. exact coop_discount_refuted_lemma. Qed.
Print Assumptions coop_discount_refuted.

Theorem push_checker_sound : forall S A p, cps_validb S A p = true -> cps_valid S A p.
Proof. exact cps_validb_sound. Qed.
Print Assumptions push_checker_sound.

Theorem valid_coop_checker_sound : forall c, valid_coopb c = true -> valid_coop c.
Proof. exact valid_coopb_sound. Qed.
Print Assumptions valid_coop_checker_sound.

(* ---- the oracle's checkers are sound ----------------------------------------------------------- *)
Theorem valid_model_checker_sound : forall k m, valid_model_kb k m = true -> valid_model_k k m.
Proof. exact valid_model_kb_sound. Qed.
Print Assumptions valid_model_checker_sound.

Theorem valid_pmodel_checker_sound : forall kb ko p, valid_pmodel_kb kb ko p = true -> valid_pmodel_k kb ko p.
Proof. exact valid_pmodel_kb_sound. Qed.
Print Assumptions valid_pmodel_checker_sound.

(* ---- the hypotheses are satisfiable / the machines do accept things ---------------------------- *)
Example ex_valid_row : isProbability1 [XFin (1#4); XFin (3#4)] = true /\ isProbability1 [XFin (1#2); XNaN] = false.
Proof. split; vm_compute; reflexivity. Qed.

Example ex_history :
  exists m, run true Dense [Ctor3 2 1 (XFin (1#2)); SetDiscount XNaN;
                            SetT3 [[[XFin (1#4); XFin (3#4)]]; [[XFin 1; XFin 0]]];
                            SetT3 [[[XFin (1#4); XFin (1#4)]]; [[XFin 1; XFin 0]]]] = Some m /\
            mD m = XFin (1#2) /\ mT m = [[[XFin (1#4); XFin (3#4)]; [XFin 1; XFin 0]]].
Proof. eexists. split; [vm_compute; reflexivity|]. split; reflexivity. Qed.

Example ex_amdp_row : acc_row_ok [1 # 2; 3 # 2] 4 /\ amdp_row_valid (amdp_finish_row true Dense 0 [1 # 2; 3 # 2] 4).
Proof.
  assert (H : acc_row_ok [1 # 2; 3 # 2] 4) by (apply acc_row_okb_sound; reflexivity).
  split; [exact H|]. apply amdp_row_valid_lemma; [left; reflexivity| exact H| cbn; lia].
Qed.
