From Coq Require Extraction.
From Coq Require Import ExtrOcamlBasic.
From AIT Require Import Base.Vio Base.Qx Base.Mdp Base.MdpExec C02.Model C02.Spec C03.Model C03.Spec.
Extraction "model.ml" vio_kit wf_mdpb EV_r tau_step_r tail_r Vmax_r blind_run fib_run fib_run_from qmdp_run fib_op
  lin_surface best usurf lb_event_ok ub_point_ok ub_corner_ok supersol_okb best_vec backup_vec bca_alpha
  best_conservative rew_at tau_step dot qget qcol Rall minl check_vf ub_run mset ub_backup.
