(* C03/ProofsMain.v — the property theorems in the vocabulary of Spec.v (DESIGN.md Appendix A). *)
From Coq Require Import List Arith ZArith QArith Qpower Qminmax Lqa Lia Bool Setoid.
From AIT Require Import Base.Qx Base.Mdp Base.MdpExec C02.Model C02.Spec C02.ProofsVec C02.ProofsCross
  C02.ProofsSched C02.ProofsProj C02.ProofsIP C02.ProofsEV C03.Model C03.Spec C03.Proofs C03.ProofsLB C03.ProofsUB.
Import ListNotations.
Local Open Scope Q_scope.

Section Main.
  Variable m : pomdp.
  Hypothesis Hwf : wf_pomdp m.
  Let S := nS (pm m).
  Let A := nA (pm m).
  Let g := gam (pm m).

  (* a vector is a sound lower bound on the whole non-negative orthant (implies sound_lb on the simplex) *)
  Definition sound_vec (rmax : Q) (v : vec) : Prop := length v = S /\ lbS m (rmax / (1 - g)) v.

  Lemma sound_vec_sound_lb : forall rmax v, sound_vec rmax v -> sound_lb m rmax (fun b => dot v b).
  Proof. intros rmax v [Hl H]. apply (lbS_sound_lb m Hwf); assumption. Qed.

  (* ---- BlindStrategies *)
  Lemma blind_iter_sound_vec : forall rmax a k, rmax_ok m rmax -> (a < A)%nat ->
    sound_vec rmax (blind_iter m true a k).
  Proof.
    intros rmax a k Hr Ha. split; [apply (blind_iter_length m); right; exact I|].
    apply (blind_iter_sound m Hwf); [apply (tail_hi_rmax m Hwf); exact Hr| exact Ha].
  Qed.

  Theorem blind_run_sound_lemma : forall rmax h tol v, rmax_ok m rmax ->
    In v (snd (blind_run m true h tol)) -> sound_lb m rmax (fun b => dot v b).
  Proof.
    intros rmax h tol v Hr Hin. unfold blind_run in Hin. cbn [snd] in Hin.
    rewrite map_map in Hin. apply in_map_iff in Hin. destruct Hin as [a [<- Ha]]. apply in_seq in Ha.
    destruct (run_loop_iter m vec (blind_step m a) vvar (use_tol tol) tol h (blind_start m true a) (tol * 2)) as [k [_ E]].
    rewrite E. apply sound_vec_sound_lb. apply blind_iter_sound_vec; [exact Hr| unfold A; lia].
  Qed.

  Theorem blind_finite_lemma : forall a k b, (a < A)%nat -> simplex S b ->
    dot (blind_iter m false a k) b <= EV m (Datatypes.S k) b.
  Proof.
    intros a k b Ha [Hl [Hn Hs]]. pose proof (blind_iter_finite m Hwf a k Ha b Hn Hl) as H.
    unfold W in H. rewrite (vval_dot m) in H by (apply (blind_iter_length m); right; exact I) || exact Hl.
    lra.
  Qed.

  (* ---- FastInformedBound *)
  Lemma rmin_lo : forall rmin, rmin_ok m rmin ->
    forall s a, (s < S)%nat -> (a < A)%nat -> rmin / (1 - g) * (1 - g) <= Rw m s a.
  Proof.
    intros rmin H s a Hs Ha. pose proof (Hg m Hwf) as [G0 G1]. fold g in G0, G1.
    assert (E : rmin / (1 - g) * (1 - g) == rmin) by (field; lra). rewrite E. apply H; assumption.
  Qed.

  Theorem fib_iter_sound_lemma : forall rmin k, rmin_ok m rmin ->
    sound_ub m rmin (lin_surface m (fib_iter m k (fib_start m))).
  Proof.
    intros rmin k Hr. apply (ubdom_sound_ub m Hwf).
    pose proof (tail_lo_rmin m Hwf rmin Hr) as Hc.
    destruct (fib_start_supersol m Hwf _ Hc (rmin_lo rmin Hr)) as [H1 H2].
    apply (fib_iter_dom m Hwf); assumption.
  Qed.

  Theorem fib_run_sound_lemma : forall rmin h tol, rmin_ok m rmin ->
    sound_ub m rmin (lin_surface m (snd (fib_run m h tol))).
  Proof.
    intros rmin h tol Hr. unfold fib_run, fib_run_from. cbn [snd].
    destruct (run_loop_iter m mat (fib_step m) mvar (use_tol tol) tol h (fib_start m) (tol * 2)) as [k [_ E]].
    rewrite E. apply fib_iter_sound_lemma; assumption.
  Qed.

  (* certificate: the checker run by the driver on the implementation's table *)
  Lemma supersol_okb_tle : forall q, supersol_okb m q 0 = true -> tle m (fib_op m q) q.
  Proof.
    intros q H s a Hs Ha. unfold supersol_okb in H. rewrite forallb_forall in H.
    pose proof (H s ltac:(apply in_seq; unfold S in Hs; lia)) as H1. rewrite forallb_forall in H1.
    pose proof (H1 a ltac:(apply in_seq; unfold A in Ha; lia)) as H2. apply Qle_bool_iff in H2. lra.
  Qed.

  Theorem fib_cert_sound_lemma : forall rmin q, rmin_ok m rmin ->
    (forall s a, (s < S)%nat -> (a < A)%nat -> rmin / (1 - g) <= qget q s a) ->
    supersol_okb m q 0 = true -> sound_ub m rmin (lin_surface m q).
  Proof.
    intros rmin q Hr Hge Hok. apply (ubdom_sound_ub m Hwf). apply (supersol_dom m Hwf).
    - apply (tail_lo_rmin m Hwf); exact Hr.
    - exact Hge.
    - apply supersol_okb_tle; exact Hok.
  Qed.

  (* ---- QMDP *)
  Theorem qmdp_finite_lemma : forall k b, simplex S b ->
    EV m (Datatypes.S k) b <= lin_surface m (snd (vi_iter m (Datatypes.S k))) b.
  Proof.
    intros k b [Hl [Hn Hs]]. apply (proj2 (qmdp_finite_dom m Hwf (Datatypes.S k) b Hn Hl) k eq_refl).
  Qed.

  Theorem qmdp_supersol_sound_lemma : forall rmin q, rmin_ok m rmin ->
    (forall s a, (s < S)%nat -> (a < A)%nat -> rmin / (1 - g) <= qget q s a) ->
    tle m (mdp_op m q) q -> sound_ub m rmin (lin_surface m q).
  Proof.
    intros rmin q Hr Hge H. apply (ubdom_sound_ub m Hwf). apply (mdp_supersol_dom m Hwf); [apply (tail_lo_rmin m Hwf); exact Hr| exact Hge| exact H].
  Qed.

  (* ---- point-based backup and the lower-bound trace *)
  Theorem backup_lb_sound_lemma : forall rmax a ch, rmax_ok m rmax -> (a < A)%nat ->
    (forall o, (o < nO m)%nat -> sound_vec rmax (ch o)) -> sound_vec rmax (backup_vec m a ch).
  Proof.
    intros rmax a ch Hr Ha H. split; [apply backup_vec_length|].
    apply (backup_sound m Hwf); [apply (tail_hi_rmax m Hwf); exact Hr| exact Ha| intros o Ho; apply (H o Ho)].
  Qed.

  Theorem bca_sound_lemma : forall rmax lbv b a, rmax_ok m rmax -> lbv <> [] -> Forall (sound_vec rmax) lbv ->
    (a < A)%nat -> sound_vec rmax (bca_alpha m lbv b a).
  Proof.
    intros rmax lbv b a Hr Hne Hall Ha. split.
    - unfold bca_alpha. rewrite vred_length. apply backup_vec_length.
    - apply (bca_alpha_sound m Hwf); [apply (tail_hi_rmax m Hwf); exact Hr| exact Hne| | exact Ha].
      rewrite Forall_forall in *. intros v Hv. apply (Hall v Hv).
  Qed.

  Lemma lb_event_length : forall cert a links alpha, lb_event_ok m cert a links alpha 0 = true -> length alpha = S.
  Proof.
    intros cert a links alpha H. unfold lb_event_ok in H. apply andb_true_iff in H. destruct H as [_ Hv].
    apply (vleb0_le m) in Hv. destruct Hv as [Hl _]. rewrite Hl. apply backup_vec_length.
  Qed.

  Theorem lb_trace_sound_main : forall rmax evs init final, rmax_ok m rmax -> Forall (sound_vec rmax) init ->
    lb_run m init evs = Some final -> Forall (sound_vec rmax) final.
  Proof.
    intros rmax evs. induction evs as [|[a links alpha] rest IH]; intros init final Hr Hall H; cbn [lb_run] in H.
    - inversion H; subst; exact Hall.
    - destruct (lb_event_ok m init a links alpha 0) eqn:E; [| discriminate].
      apply (IH (init ++ [alpha]) final Hr); [| exact H].
      apply Forall_app. split; [exact Hall|]. constructor; [| constructor]. split.
      + apply (lb_event_length init a links alpha E).
      + apply (lb_event_sound m Hwf _ init a links alpha); [apply (tail_hi_rmax m Hwf); exact Hr| | exact E].
        rewrite Forall_forall in *. intros v Hv. apply (Hall v Hv).
  Qed.
End Main.
