(* C03/ProofsUB.v — upper bounds: a Q-table that dominates its own FastInformedBound backup is an
   upper bound (proof-carrying certificate); every FIB iterate from a super-solution is one;
   FIB backup <= MDP backup (QMDP >= FIB); QMDP's k-step table dominates the k-step expectimax. *)
From Coq Require Import List Arith ZArith QArith Qpower Qminmax Lqa Lia Bool Setoid.
From AIT Require Import Base.Qx Base.Mdp Base.MdpExec C02.Model C02.Spec C02.ProofsVec C02.ProofsCross
  C02.ProofsSched C02.ProofsProj C02.ProofsIP C02.ProofsEV C03.Model C03.Spec C03.ProofsLB.
Import ListNotations.
Local Open Scope Q_scope.

Lemma nth_map_seq : forall (X : Type) (f : nat -> X) n i d, (i < n)%nat -> nth i (map f (seq 0 n)) d = f i.
Proof.
  intros X f n i d Hi. rewrite (nth_indep _ d (f 0%nat)) by (rewrite map_length, seq_length; exact Hi).
  rewrite map_nth. rewrite seq_nth by exact Hi. reflexivity.
Qed.

Lemma row_mtab : forall S A f s, (s < S)%nat -> row (mtab S A f) s = map (fun a => f s a) (seq 0 A).
Proof. intros S A f s Hs. unfold row, mtab. apply (nth_map_seq _ (fun s => map (fun a => f s a) (seq 0 A))). exact Hs. Qed.

Lemma map_nthq_seq' : forall v n, n = length v -> map (fun a => nthq v a) (seq 0 n) = v.
Proof. intros v n ->. apply map_nthq_seq. Qed.

Lemma qget_mtab : forall S A f s a, (s < S)%nat -> (a < A)%nat -> qget (mtab S A f) s a == f s a.
Proof. intros. unfold qget. rewrite row_mtab by assumption. apply nthq_map_seq. assumption. Qed.

Lemma nthq_vred : forall v i, nthq (vred v) i == nthq v i.
Proof. intros. apply nthq_veq. apply vred_veq. Qed.

Lemma qget_mred : forall q s a, qget (mred q) s a == qget q s a.
Proof.
  intros q s a. unfold qget, mred, row. change (@nil Q) with (vred []) at 1. rewrite map_nth. apply nthq_vred.
Qed.

Lemma maxl_sum_le : forall (A B : Type) (k : B -> Q) (X : B -> A -> Q) (l : list B) (L : list A), L <> [] ->
  (forall s, In s l -> 0 <= k s) ->
  maxl (map (fun a => qsum (map (fun s => k s * X s a) l)) L) <= qsum (map (fun s => k s * maxl (map (X s) L)) l).
Proof.
  intros A B k X l L HL Hk. apply maxl_le; [destruct L; [congruence| discriminate]|].
  intros y Hy. apply in_map_iff in Hy. destruct Hy as [a [<- Ha]].
  apply qsum_map_le. intros s Hs. pose proof (Hk s Hs).
  pose proof (maxl_ub (map (X s) L) (X s a) (in_map (X s) L a Ha)). nra.
Qed.

Section UB.
  Variable m : pomdp.
  Hypothesis Hwf : wf_pomdp m.
  Let S := nS (pm m).
  Let A := nA (pm m).
  Let g := gam (pm m).

  Definition tle (q q' : mat) : Prop :=
    forall s a, (s < S)%nat -> (a < A)%nat -> qget q s a <= qget q' s a.
  Definition tail_lo (c : Q) : Prop :=
    forall s a, (s < S)%nat -> (a < A)%nat -> c <= Rw m s a + g * c.
  Definition tge_c (c : Q) (q : mat) : Prop :=
    forall s a, (s < S)%nat -> (a < A)%nat -> c <= qget q s a.
  Definition ubdom (c : Q) (q : mat) : Prop :=
    forall n t, nonneg t -> length t = S -> W m c n t <= lin_surface m q t.

  Lemma tle_refl : forall q, tle q q.
  Proof. intros q s a _ _. lra. Qed.
  Lemma tle_trans : forall q1 q2 q3, tle q1 q2 -> tle q2 q3 -> tle q1 q3.
  Proof. intros q1 q2 q3 H1 H2 s a Hs Ha. pose proof (H1 s a Hs Ha). pose proof (H2 s a Hs Ha). lra. Qed.

  Lemma sosa_nonneg : forall s a o s1, (s < S)%nat -> (a < A)%nat -> (s1 < S)%nat -> 0 <= sosa m s a o s1.
  Proof.
    intros. unfold sosa. apply Qmult_le_0_compat; [apply (Tp_nonneg m (wf_pomdp_weaken m Hwf))| apply (Op_nonneg m (wf_pomdp_weaken m Hwf))]; assumption.
  Qed.

  Lemma sosa_sum : forall s a, (s < S)%nat -> (a < A)%nat ->
    qsum (map (fun o => qsum (map (fun s1 => sosa m s a o s1) (seq 0 S))) (seq 0 (nO m))) == 1.
  Proof.
    intros s a Hs Ha. rewrite qsum_swap.
    transitivity (qsum (map (fun s1 => Tp m s a s1) (seq 0 S))).
    - apply qsum_map_ext. intros s1 Hs1. apply in_seq in Hs1. unfold sosa.
      rewrite qsum_map_mul_l. rewrite (orow_sum m (wf_pomdp_weaken m Hwf)) by (unfold S, A in *; assumption || lia). ring.
    - apply (trow_sum m (wf_pomdp_weaken m Hwf)); assumption.
  Qed.

  Lemma qget_fib_op : forall q s a, (s < S)%nat -> (a < A)%nat ->
    qget (fib_op m q) s a == Rw m s a + g * qsum (map (fun o => fib_inner m q s a o) (seq 0 (nO m))).
  Proof. intros. unfold fib_op. apply qget_mtab; assumption. Qed.


  Lemma seqA_ne : seq 0 A <> [].
  Proof. apply (HAne m Hwf). Qed.
  Lemma mapA_ne : forall (f : nat -> Q), map f (seq 0 A) <> [].
  Proof. intros f H. apply map_eq_nil in H. apply seqA_ne; exact H. Qed.

  Lemma fib_inner_mono : forall q q' s a o, (s < S)%nat -> (a < A)%nat -> tle q q' ->
    fib_inner m q s a o <= fib_inner m q' s a o.
  Proof.
    intros q q' s a o Hs Ha H. unfold fib_inner. fold S A.
    apply maxl_le; [apply mapA_ne|]. intros y Hy. apply in_map_iff in Hy. destruct Hy as [a' [<- Ha']].
    eapply Qle_trans; [| apply maxl_ub; apply (in_map (fun a' => qsum (map (fun s1 => sosa m s a o s1 * qget q' s1 a') (seq 0 S)))); exact Ha'].
    apply in_seq in Ha'. apply qsum_map_le. intros s1 Hs1. apply in_seq in Hs1.
    pose proof (sosa_nonneg s a o s1 Hs Ha ltac:(lia)). pose proof (H s1 a' ltac:(lia) ltac:(lia)). nra.
  Qed.

  Lemma fib_op_mono : forall q q', tle q q' -> tle (fib_op m q) (fib_op m q').
  Proof.
    intros q q' H s a Hs Ha. rewrite !qget_fib_op by assumption.
    assert (qsum (map (fun o => fib_inner m q s a o) (seq 0 (nO m))) <= qsum (map (fun o => fib_inner m q' s a o) (seq 0 (nO m)))).
    { apply qsum_map_le. intros o _. apply fib_inner_mono; assumption. }
    pose proof (Hg m Hwf) as [G0 G1]. fold g in G0, G1. nra.
  Qed.

  Lemma fib_inner_ge_c : forall c q s a o, (s < S)%nat -> (a < A)%nat -> tge_c c q ->
    c * qsum (map (fun s1 => sosa m s a o s1) (seq 0 S)) <= fib_inner m q s a o.
  Proof.
    intros c q s a o Hs Ha H. unfold fib_inner. fold S A.
    pose proof (HA m (wf_pomdp_weaken m Hwf)) as HAp. fold A in HAp.
    eapply Qle_trans; [| apply maxl_ub; apply (in_map (fun a' => qsum (map (fun s1 => sosa m s a o s1 * qget q s1 a') (seq 0 S))) _ 0%nat); apply in_seq; lia].
    rewrite <- qsum_map_mul_l. apply qsum_map_le. intros s1 Hs1. apply in_seq in Hs1.
    pose proof (sosa_nonneg s a o s1 Hs Ha ltac:(lia)). pose proof (H s1 0%nat ltac:(lia) HAp). nra.
  Qed.

  Lemma fib_op_ge_c : forall c q, tail_lo c -> tge_c c q -> tge_c c (fib_op m q).
  Proof.
    intros c q Hc H s a Hs Ha. rewrite qget_fib_op by assumption.
    assert (c <= qsum (map (fun o => fib_inner m q s a o) (seq 0 (nO m)))).
    { rewrite <- (Qmult_1_r c). rewrite <- (sosa_sum s a Hs Ha). rewrite <- qsum_map_mul_l.
      apply qsum_map_le. intros o _. apply fib_inner_ge_c; assumption. }
    pose proof (Hg m Hwf) as [G0 G1]. fold g in G0, G1. pose proof (Hc s a Hs Ha). nra.
  Qed.

  (* value of a table column at the updated belief *)
  Lemma col_tau_step : forall q t a o a', length t = S -> (a < A)%nat ->
    qsum (map (fun s1 => nthq (tau_step m t a o) s1 * qget q s1 a') (seq 0 S)) ==
    qsum (map (fun s => nthq t s * qsum (map (fun s1 => sosa m s a o s1 * qget q s1 a') (seq 0 S))) (seq 0 S)).
  Proof.
    intros q t a o a' Ht Ha.
    transitivity (qsum (map (fun s1 => qsum (map (fun s => nthq t s * (sosa m s a o s1 * qget q s1 a')) (seq 0 S))) (seq 0 S))).
    - apply qsum_map_ext. intros s1 Hs1. apply in_seq in Hs1. rewrite (nthq_tau_step m) by (fold S; lia). fold S.
      transitivity (Op m s1 a o * qget q s1 a' * qsum (map (fun s => nthq t s * Tp m s a s1) (seq 0 S))); [ring|].
      rewrite <- qsum_map_mul_l. apply qsum_map_ext. intros s _. unfold sosa. ring.
    - rewrite qsum_swap. apply qsum_map_ext. intros s _. rewrite <- qsum_map_mul_l. reflexivity.
  Qed.

  Lemma lin_surface_tau_le : forall q t a o, nonneg t -> length t = S -> (a < A)%nat ->
    lin_surface m q (tau_step m t a o) <= qsum (map (fun s => nthq t s * fib_inner m q s a o) (seq 0 S)).
  Proof.
    intros q t a o Hn Ht Ha. unfold lin_surface. fold S A.
    rewrite (maxl_map_ext' _ _ (fun a' => qsum (map (fun s => nthq t s * qsum (map (fun s1 => sosa m s a o s1 * qget q s1 a') (seq 0 S))) (seq 0 S)))).
    - unfold fib_inner. fold S A.
      apply (maxl_sum_le nat nat (nthq t) (fun s a' => qsum (map (fun s1 => sosa m s a o s1 * qget q s1 a') (seq 0 S)))).
      + apply seqA_ne.
      + intros s _. apply nonneg_nthq; exact Hn.
    - intros a' _. apply col_tau_step; assumption.
  Qed.

  Lemma lin_surface_ub : forall q t a, (a < A)%nat ->
    qsum (map (fun s => nthq t s * qget q s a) (seq 0 S)) <= lin_surface m q t.
  Proof.
    intros q t a Ha. unfold lin_surface. fold S A.
    apply maxl_ub. apply (in_map (fun a => qsum (map (fun s => nthq t s * qget q s a) (seq 0 S)))). apply in_seq. lia.
  Qed.

  (* ---- certificate: a super-solution of the FIB operator that is >= c everywhere dominates W *)
  Theorem supersol_dom : forall c q, tail_lo c -> tge_c c q -> tle (fib_op m q) q -> ubdom c q.
  Proof.
    intros c q Hc Hge Hsup n. pose proof (Hg m Hwf) as [G0 G1]. fold g in G0, G1.
    pose proof (HA m (wf_pomdp_weaken m Hwf)) as HAp. fold A in HAp.
    induction n as [|n IH]; intros t Hn Ht.
    - unfold W. cbn [EV]. rewrite pw_0.
      eapply Qle_trans; [| apply (lin_surface_ub q t 0%nat HAp)].
      unfold mass. fold S. rewrite Qplus_0_l, Qmult_1_l. rewrite <- qsum_map_mul_l. apply qsum_map_le.
      intros s Hs. apply in_seq in Hs. pose proof (nonneg_nthq t s Hn). pose proof (Hge s 0%nat ltac:(lia) HAp). nra.
    - rewrite (W_succ m Hwf). apply maxl_le; [apply mapA_ne|].
      intros y Hy. apply in_map_iff in Hy. destruct Hy as [a [<- Ha]]. apply in_seq in Ha. fold g.
      eapply Qle_trans; [| apply (lin_surface_ub q t a ltac:(unfold A; lia))].
      apply Qle_trans with (y := qsum (map (fun s => nthq t s * qget (fib_op m q) s a) (seq 0 S))).
      + (* expand the FIB backup *)
        apply Qle_trans with (y := rew_at m t a + g * qsum (map (fun o => qsum (map (fun s => nthq t s * fib_inner m q s a o) (seq 0 S))) (seq 0 (nO m)))).
        * apply Qplus_le_r. apply Qmult_le_l; [exact G0|]. apply qsum_map_le. intros o _.
          eapply Qle_trans; [apply IH; [apply (tau_step_nonneg m (wf_pomdp_weaken m Hwf)); [exact Hn| lia]| apply tau_step_length]|].
          apply lin_surface_tau_le; [exact Hn| exact Ht| unfold A; lia].
        * rewrite qsum_swap.
          assert (E : qsum (map (fun s => nthq t s * qget (fib_op m q) s a) (seq 0 S)) ==
                      rew_at m t a + g * qsum (map (fun s => qsum (map (fun o => nthq t s * fib_inner m q s a o) (seq 0 (nO m)))) (seq 0 S))).
          { transitivity (qsum (map (fun s => nthq t s * Rw m s a + g * qsum (map (fun o => nthq t s * fib_inner m q s a o) (seq 0 (nO m)))) (seq 0 S))).
            - apply qsum_map_ext. intros s Hs. apply in_seq in Hs.
              rewrite qget_fib_op by (unfold S, A in *; lia). rewrite qsum_map_mul_l. fold g. change (qsum (map (fun o : nat => fib_inner m q s a o) (seq 0 (nO m)))) with (qsum (map (fib_inner m q s a) (seq 0 (nO m)))). ring.
            - rewrite qsum_map_add. rewrite qsum_map_mul_l. unfold rew_at, Rw. fold S. reflexivity. }
          rewrite E. lra.
      + apply qsum_map_le. intros s Hs. apply in_seq in Hs.
        pose proof (nonneg_nthq t s Hn). pose proof (Hsup s a ltac:(lia) ltac:(unfold A; lia)). nra.
  Qed.

  (* ---- every FIB iterate from a super-solution is a super-solution (monotone decrease) *)
  Lemma tle_mred_l : forall q q', tle q q' -> tle (mred q) q'.
  Proof. intros q q' H s a Hs Ha. rewrite qget_mred. apply H; assumption. Qed.
  Lemma tle_mred_r : forall q q', tle q q' -> tle q (mred q').
  Proof. intros q q' H s a Hs Ha. rewrite qget_mred. apply H; assumption. Qed.

  Lemma fib_step_supersol : forall c q, tail_lo c -> tge_c c q -> tle (fib_op m q) q ->
    tge_c c (fib_step m q) /\ tle (fib_op m (fib_step m q)) (fib_step m q) /\ tle (fib_step m q) q.
  Proof.
    intros c q Hc Hge Hsup. unfold fib_step. split; [| split].
    - intros s a Hs Ha. rewrite qget_mred. apply fib_op_ge_c; assumption.
    - apply tle_mred_r. apply fib_op_mono. apply tle_mred_l. exact Hsup.
    - apply tle_mred_l. exact Hsup.
  Qed.

  Theorem fib_iter_dom : forall c q0 k, tail_lo c -> tge_c c q0 -> tle (fib_op m q0) q0 ->
    ubdom c (fib_iter m k q0) /\ tle (fib_iter m k q0) q0.
  Proof.
    intros c q0 k Hc Hge Hsup.
    assert (H : tge_c c (fib_iter m k q0) /\ tle (fib_op m (fib_iter m k q0)) (fib_iter m k q0) /\ tle (fib_iter m k q0) q0).
    { induction k as [|k IH].
      - split; [exact Hge| split; [exact Hsup| apply tle_refl]].
      - destruct IH as [I1 [I2 I3]].
        change (fib_iter m (Datatypes.S k) q0) with (fib_step m (fib_iter m k q0)).
        destruct (fib_step_supersol c _ Hc I1 I2) as [J1 [J2 J3]].
        split; [exact J1| split; [exact J2| eapply tle_trans; eassumption]]. }
    destruct H as [H1 [H2 H3]]. split; [apply supersol_dom; assumption| exact H3].
  Qed.

  (* ---- the over-estimate FIB starts from *)

  Lemma Rall_in : forall s a, (s < S)%nat -> (a < A)%nat -> In (Rw m s a) (Rall m).
  Proof.
    intros s a Hs Ha. unfold Rall. apply in_flat_map. exists s. split; [apply in_seq; fold S; lia|].
    apply (in_map (fun a => Rw m s a)). apply in_seq. fold A. lia.
  Qed.

  Lemma fib_start_supersol : forall c, tail_lo c -> (forall s a, (s < S)%nat -> (a < A)%nat -> c * (1 - g) <= Rw m s a) ->
    tge_c c (fib_start m) /\ tle (fib_op m (fib_start m)) (fib_start m).
  Proof.
    intros c Hc Hlo. pose proof (Hg m Hwf) as [G0 G1]. fold g in G0, G1.
    pose proof (HS m Hwf) as HSp. pose proof (HA m (wf_pomdp_weaken m Hwf)) as HAp. fold S in HSp. fold A in HAp.
    set (R := maxl (Rall m)). set (d := denom m). set (k := Qred (R / d)).
    assert (Hd2 : d == 1 - g) by (unfold d; apply (denom_eq m Hwf)).
    assert (Hd0 : 0 < d) by lra. assert (Hd1 : 1 - g <= d) by lra.
    assert (HR : forall s a, (s < S)%nat -> (a < A)%nat -> Rw m s a <= R).
    { intros s a Hs Ha. apply maxl_ub. apply Rall_in; assumption. }
    assert (Hk : k == R / d) by (unfold k; apply Qred_correct).
    assert (Hkd : k * d == R) by (rewrite Hk; field; lra).
    assert (Hk1 : R <= k * (1 - g)).
    { rewrite <- Hd2. lra. }
    assert (Hck : c <= k).
    { pose proof (Hlo 0%nat 0%nat HSp HAp) as H0. pose proof (HR 0%nat 0%nat HSp HAp) as H1.
      assert (c * (1 - g) <= k * (1 - g)) by lra. nra. }
    assert (Hq : forall s a, (s < S)%nat -> (a < A)%nat -> qget (fib_start m) s a == k).
    { intros s a Hs Ha. unfold fib_start. fold R d k. apply qget_mtab; assumption. }
    split.
    - intros s a Hs Ha. rewrite Hq by assumption. exact Hck.
    - intros s a Hs Ha. rewrite qget_fib_op by assumption. rewrite Hq by assumption.
      assert (E : qsum (map (fun o => fib_inner m (fib_start m) s a o) (seq 0 (nO m))) == k).
      { transitivity (k * 1); [| ring]. rewrite <- (sosa_sum s a Hs Ha). rewrite <- qsum_map_mul_l.
        apply qsum_map_ext. intros o _. unfold fib_inner. fold S A.
        apply maxl_char; [apply mapA_ne| |].
        - intros y Hy. apply in_map_iff in Hy. destruct Hy as [a' [<- Ha']]. apply in_seq in Ha'.
          rewrite <- qsum_map_mul_l. apply Qle_lteq. right. apply qsum_map_ext. intros s1 Hs1. apply in_seq in Hs1.
          rewrite Hq by lia. ring.
        - exists (qsum (map (fun s1 => sosa m s a o s1 * qget (fib_start m) s1 0%nat) (seq 0 S))). split.
          + apply (in_map (fun a' => qsum (map (fun s1 => sosa m s a o s1 * qget (fib_start m) s1 a') (seq 0 S)))). apply in_seq. lia.
          + rewrite <- qsum_map_mul_l. apply qsum_map_ext. intros s1 Hs1. apply in_seq in Hs1. rewrite Hq by lia. ring. }
      rewrite E. pose proof (HR s a Hs Ha). lra.
  Qed.

  (* ---- QMDP >= FIB: the FIB backup never exceeds the MDP backup *)
  Definition mdp_op (q : mat) : mat :=
    mtab S A (fun s a => Rw m s a + g * qsum (map (fun s1 => Tp m s a s1 * maxl (map (fun a' => qget q s1 a') (seq 0 A))) (seq 0 S))).

  Theorem fib_le_mdp : forall q, tle (fib_op m q) (mdp_op q).
  Proof.
    intros q s a Hs Ha. rewrite qget_fib_op by assumption. unfold mdp_op. rewrite qget_mtab by assumption.
    pose proof (Hg m Hwf) as [G0 G1]. fold g in G0, G1.
    apply Qplus_le_r. apply Qmult_le_l; [exact G0|].
    (* sum_o max_a' sum_s1 T O q <= sum_o sum_s1 T O max_a' q = sum_s1 T max_a' q *)
    apply Qle_trans with (y := qsum (map (fun o => qsum (map (fun s1 => sosa m s a o s1 * maxl (map (fun a' => qget q s1 a') (seq 0 A))) (seq 0 S))) (seq 0 (nO m)))).
    - apply qsum_map_le. intros o _. unfold fib_inner. fold S A.
      apply (maxl_sum_le nat nat (fun s1 => sosa m s a o s1) (fun s1 a' => qget q s1 a')); [apply seqA_ne|].
      intros s1 Hs1. apply in_seq in Hs1. apply sosa_nonneg; assumption || lia.
    - rewrite qsum_swap. apply Qle_lteq. right. apply qsum_map_ext. intros s1 Hs1. apply in_seq in Hs1.
      transitivity (qsum (map (fun o => Op m s1 a o * (Tp m s a s1 * maxl (map (fun a' => qget q s1 a') (seq 0 A)))) (seq 0 (nO m)))).
      + apply qsum_map_ext. intros o _. unfold sosa. ring.
      + rewrite qsum_map_mul_r. rewrite (orow_sum m (wf_pomdp_weaken m Hwf)) by (unfold S, A in *; lia || assumption). ring.
  Qed.

  Lemma mdp_op_mono : forall q q', tle q q' -> tle (mdp_op q) (mdp_op q').
  Proof.
    intros q q' H s a Hs Ha. unfold mdp_op. rewrite !qget_mtab by assumption.
    pose proof (Hg m Hwf) as [G0 G1]. fold g in G0, G1.
    apply Qplus_le_r. apply Qmult_le_l; [exact G0|]. apply qsum_map_le. intros s1 Hs1. apply in_seq in Hs1.
    assert (maxl (map (fun a' => qget q s1 a') (seq 0 A)) <= maxl (map (fun a' => qget q' s1 a') (seq 0 A))).
    { apply maxl_le; [apply mapA_ne|]. intros y Hy. apply in_map_iff in Hy. destruct Hy as [a' [<- Ha']].
      eapply Qle_trans; [| apply maxl_ub; apply (in_map (fun a' => qget q' s1 a')); exact Ha'].
      apply in_seq in Ha'. apply H; lia. }
    pose proof (Tp_nonneg m (wf_pomdp_weaken m Hwf) s a s1 Hs Ha). nra.
  Qed.

  (* iterating both operators from a common start: the QMDP table stays above the FIB table *)
  Theorem qmdp_ge_fib_iter : forall q0 k,
    tle (fib_iter m k q0) (Nat.iter k (fun q => mred (mdp_op q)) q0).
  Proof.
    intros q0 k. induction k as [|k IH]; [apply tle_refl|].
    change (fib_iter m (Datatypes.S k) q0) with (fib_step m (fib_iter m k q0)).
    cbn [Nat.iter]. unfold fib_step. apply tle_mred_l. apply tle_mred_r.
    eapply tle_trans; [apply fib_op_mono; exact IH| apply fib_le_mdp].
  Qed.

  (* a super-solution of the MDP operator is a super-solution of the FIB operator, hence an upper bound *)
  Theorem mdp_supersol_dom : forall c q, tail_lo c -> tge_c c q -> tle (mdp_op q) q -> ubdom c q.
  Proof.
    intros c q Hc Hge H. apply supersol_dom; [exact Hc| exact Hge|].
    eapply tle_trans; [apply fib_le_mdp| exact H].
  Qed.

  (* ---- QMDP with tolerance 0 (k value-iteration sweeps from zero) dominates the k-step expectimax *)
  Lemma qget_mdp_q : forall v s a, (s < S)%nat -> (a < A)%nat ->
    qget (mdp_q m v) s a == Rw m s a + g * dot (trow (pm m) s a) v.
  Proof. intros. unfold mdp_q. apply qget_mtab; assumption. Qed.

  Lemma vi_iter_S : forall k, vi_iter m (Datatypes.S k) = vi_step m (vi_iter m k).
  Proof. reflexivity. Qed.

  Lemma vi_step_fst : forall st, fst (vi_step m st) = map maxl (mred (mdp_q m (fst st))).
  Proof. reflexivity. Qed.
  Lemma vi_step_snd : forall st, snd (vi_step m st) = mred (mdp_q m (fst st)).
  Proof. reflexivity. Qed.

  Lemma vi_v_length : forall k, length (fst (vi_iter m k)) = S.
  Proof.
    intros k. destruct k as [|k].
    - unfold vi_iter, vi_start. change (Nat.iter 0 (vi_step m) ?x) with x. cbn [fst]. unfold vzero. apply repeat_length.
    - rewrite vi_iter_S, vi_step_fst. unfold mred, mdp_q, mtab. rewrite !map_length, seq_length. reflexivity.
  Qed.

  Lemma vi_v_is_max : forall k s, (s < S)%nat ->
    nthq (fst (vi_iter m (Datatypes.S k))) s == maxl (map (fun a => qget (snd (vi_iter m (Datatypes.S k))) s a) (seq 0 A)).
  Proof.
    intros k s Hs. rewrite vi_iter_S, vi_step_fst, vi_step_snd.
    set (v := fst (vi_iter m k)). set (q := mdp_q m v).
    assert (Hlen : length (mred q) = S) by (unfold mred, q, mdp_q, mtab; rewrite !map_length, seq_length; reflexivity).
    unfold nthq. rewrite (nth_indep _ 0 (maxl [])) by (rewrite map_length, Hlen; exact Hs).
    rewrite map_nth. fold (row (mred q) s).
    assert (Hrow : row (mred q) s = vred (map (fun a => Rw m s a + g * dot (trow (pm m) s a) v) (seq 0 A))).
    { unfold mred, row. change (@nil Q) with (vred []) at 1. rewrite map_nth. f_equal. unfold q, mdp_q. fold S A g. apply row_mtab. exact Hs. }
    unfold qget. rewrite Hrow. unfold vred. rewrite map_map.
    assert (Hn : forall a, (a < A)%nat ->
       nthq (map (fun a => Qred (Rw m s a + g * dot (trow (pm m) s a) v)) (seq 0 A)) a == Qred (Rw m s a + g * dot (trow (pm m) s a) v))
      by (intros a Ha; apply nthq_map_seq; exact Ha).
    apply maxl_map_ext'. intros a Ha. apply in_seq in Ha. symmetry. apply Hn. lia.
  Qed.

  Theorem qmdp_finite_dom : forall k t, nonneg t -> length t = S ->
    EV m k t <= vval m (fst (vi_iter m k)) t /\
    (forall k', k = Datatypes.S k' -> EV m k t <= lin_surface m (snd (vi_iter m k)) t).
  Proof.
    pose proof (Hg m Hwf) as [G0 G1]. fold g in G0, G1.
    induction k as [|k IH]; intros t Hn Ht.
    - split; [| intros k' H; discriminate]. cbn [EV]. change (fst (vi_iter m 0)) with (vzero (nS (pm m))). unfold vval.
      rewrite qsum_map_zero; [lra|]. intros s Hs. apply in_seq in Hs. unfold vzero.
      assert (E : nthq (repeat 0 (nS (pm m))) s == 0).
      { apply (nthq_repeat m). lia. }
      rewrite E. ring.
    - assert (Hq : EV m (Datatypes.S k) t <= lin_surface m (snd (vi_iter m (Datatypes.S k))) t).
      { cbn [EV]. apply maxl_le; [apply mapA_ne|].
        intros y Hy. apply in_map_iff in Hy. destruct Hy as [a [<- Ha]]. apply in_seq in Ha. fold g.
        eapply Qle_trans; [| apply (lin_surface_ub _ t a ltac:(unfold A; lia))].
        set (v := fst (vi_iter m k)).
        assert (Hv : length v = S) by apply vi_v_length.
        apply Qle_trans with (y := rew_at m t a + g * qsum (map (fun o => vval m v (tau_step m t a o)) (seq 0 (nO m)))).
        - apply Qplus_le_r. apply Qmult_le_l; [exact G0|]. apply qsum_map_le. intros o _.
          apply (proj1 (IH (tau_step m t a o) (tau_step_nonneg m (wf_pomdp_weaken m Hwf) t a o Hn ltac:(lia)) (tau_step_length m t a o))).
        - pose proof (vval_backup_vec m a (fun _ => v) t Ht) as Eb. fold g in Eb. rewrite <- Eb. unfold vval. fold S.
          apply Qle_lteq. right. apply qsum_map_ext. intros s Hs. apply in_seq in Hs.
          rewrite (nthq_backup_const m Hwf) by (fold S; lia). rewrite Qmult_comm. apply Qmult_comp; [reflexivity|].
          rewrite vi_iter_S, vi_step_snd. rewrite qget_mred. fold v.
          rewrite qget_mdp_q by (unfold A; lia). fold g. apply Qplus_comp; [reflexivity|]. apply Qmult_comp; [reflexivity|].
          symmetry. unfold Tp. fold S. apply dot_as_sum; [apply (trow_length m Hwf); fold S; lia| exact Hv]. }
      split; [| intros k' _; exact Hq].
      eapply Qle_trans; [exact Hq|]. unfold lin_surface, vval. fold S A.
      apply maxl_le; [apply mapA_ne|]. intros y Hy. apply in_map_iff in Hy. destruct Hy as [a [<- Ha]].
      apply qsum_map_le. intros s Hs. apply in_seq in Hs. rewrite vi_v_is_max by lia.
      pose proof (nonneg_nthq t s Hn).
      pose proof (maxl_ub (map (fun a => qget (snd (vi_iter m (Datatypes.S k))) s a) (seq 0 A)) _ (in_map (fun a => qget (snd (vi_iter m (Datatypes.S k))) s a) _ a Ha)).
      nra.
  Qed.

  (* ---- bridge to Appendix A *)
  Lemma tail_lo_rmin : forall rmin, rmin_ok m rmin -> tail_lo (rmin / (1 - g)).
  Proof.
    intros rmin H s a Hs Ha. pose proof (Hg m Hwf) as [G0 G1]. fold g in G0, G1. pose proof (H s a Hs Ha) as Hr.
    assert (E : Rw m s a + g * (rmin / (1 - g)) - rmin / (1 - g) == Rw m s a - rmin) by (field; lra).
    lra.
  Qed.

  Theorem ubdom_sound_ub : forall rmin q, ubdom (rmin / (1 - g)) q -> sound_ub m rmin (lin_surface m q).
  Proof.
    intros rmin q H b n Hb. change (Vmin m rmin n b) with (Vmax m rmin n b). rewrite <- (W_Vmax m Hwf rmin n b Hb). destruct Hb as [Hl [Hn Hs]]. apply H; assumption.
  Qed.
End UB.
