(* C03/ProofsSaw.v — convexity of the tail-augmented expectimax W (sub-additive + homogeneous, from
   C02.ProofsEV.EV_subadditive / EV_scale), per-action values Qlev, soundness of the interpolation
   surface usurf built from sound entries (corner planes + sawtooth teeth), and of a corner write. *)
From Coq Require Import List Arith ZArith QArith Qpower Qminmax Lqa Lia Bool Setoid.
From AIT Require Import Base.Qx Base.Mdp Base.MdpExec C02.Model C02.Spec C02.ProofsVec C02.ProofsCross
  C02.ProofsSched C02.ProofsProj C02.ProofsIP C02.ProofsEV C03.Model C03.Spec C03.ProofsLB C03.ProofsUB.
Import ListNotations.
Local Open Scope Q_scope.

Lemma fold_min_le_init : forall l x, fold_left Qmin l x <= x.
Proof.
  induction l as [|y l IH]; intros x; cbn [fold_left]; [lra|].
  eapply Qle_trans; [apply IH| apply Q.le_min_l].
Qed.

Lemma fold_min_le_in : forall l x y, In y l -> fold_left Qmin l x <= y.
Proof.
  induction l as [|z l IH]; intros x y Hy; [destruct Hy|]. cbn [fold_left]. destruct Hy as [->|Hy].
  - eapply Qle_trans; [apply fold_min_le_init| apply Q.le_min_r].
  - apply IH; exact Hy.
Qed.

Lemma fold_min_ge : forall l x k, k <= x -> (forall y, In y l -> k <= y) -> k <= fold_left Qmin l x.
Proof.
  induction l as [|z l IH]; intros x k Hx H; cbn [fold_left]; [exact Hx|].
  apply IH; [apply Q.min_glb; [exact Hx| apply H; left; reflexivity]| intros y Hy; apply H; right; exact Hy].
Qed.

Lemma qsum_indicator : forall (x : Q) s0 n k,
  qsum (map (fun s => if (s =? s0)%nat then x else 0) (seq k n)) ==
  if ((k <=? s0) && (s0 <? k + n))%nat%bool then x else 0.
Proof.
  intros x s0 n. induction n as [|n IH]; intros k; cbn [seq map qsum].
  - destruct (k <=? s0)%nat eqn:E1; destruct (s0 <? k + 0)%nat eqn:E2; cbn [andb]; try lra.
    apply Nat.leb_le in E1. apply Nat.ltb_lt in E2. lia.
  - rewrite IH. destruct (k =? s0)%nat eqn:E.
    + apply Nat.eqb_eq in E. subst.
      replace (Datatypes.S s0 <=? s0)%nat with false by (symmetry; apply Nat.leb_gt; lia).
      replace (s0 <=? s0)%nat with true by (symmetry; apply Nat.leb_le; lia).
      replace (s0 <? s0 + Datatypes.S n)%nat with true by (symmetry; apply Nat.ltb_lt; lia). cbn [andb]. lra.
    + apply Nat.eqb_neq in E.
      destruct (Datatypes.S k <=? s0)%nat eqn:E1; destruct (s0 <? Datatypes.S k + n)%nat eqn:E2;
      destruct (k <=? s0)%nat eqn:E3; destruct (s0 <? k + Datatypes.S n)%nat eqn:E4; cbn [andb]; try lra;
      repeat match goal with
             | H : (_ <=? _)%nat = true |- _ => apply Nat.leb_le in H
             | H : (_ <=? _)%nat = false |- _ => apply Nat.leb_gt in H
             | H : (_ <? _)%nat = true |- _ => apply Nat.ltb_lt in H
             | H : (_ <? _)%nat = false |- _ => apply Nat.ltb_ge in H
             end; lia.
Qed.

Section Saw.
  Variable m : pomdp.
  Hypothesis Hwf : wf_pomdp m.
  Let S := nS (pm m).
  Let A := nA (pm m).
  Let g := gam (pm m).
  Variable c : Q.

  Let Hwf1 := wf_pomdp_weaken m Hwf.

  (* ---- mass and W are linear / convex *)
  Lemma mass_vadd : forall t1 t2, length t1 = length t2 -> mass m (vadd t1 t2) == mass m t1 + mass m t2.
  Proof.
    intros t1 t2 Hl. unfold mass. rewrite <- qsum_map_add. apply qsum_map_ext. intros s _. apply nthq_vadd'; exact Hl.
  Qed.
  Lemma mass_vsc : forall k t, mass m (vsc k t) == k * mass m t.
  Proof. intros k t. unfold mass. rewrite <- qsum_map_mul_l. apply qsum_map_ext. intros s _. apply nthq_vsc. Qed.
  Lemma mass_veq : forall t t', veq t t' -> mass m t == mass m t'.
  Proof. intros t t' H. unfold mass. apply qsum_map_ext. intros s _. apply nthq_veq; exact H. Qed.

  Lemma W_ext : forall n t t', veq t t' -> W m c n t == W m c n t'.
  Proof. intros n t t' H. unfold W. rewrite (EV_ext m n t t' H), (mass_veq t t' H). reflexivity. Qed.

  Lemma W_subadd : forall n t1 t2, length t1 = S -> length t2 = S ->
    W m c n (vadd t1 t2) <= W m c n t1 + W m c n t2.
  Proof.
    intros n t1 t2 L1 L2. unfold W. pose proof (Hg m Hwf) as [G0 G1].
    pose proof (EV_subadditive m n t1 t2 ltac:(lra) L1 L2) as H.
    rewrite (mass_vadd t1 t2) by congruence. lra.
  Qed.

  Lemma W_scale : forall n k t, 0 <= k -> W m c n (vsc k t) == k * W m c n t.
  Proof. intros n k t Hk. unfold W. rewrite (EV_scale m n k t Hk), mass_vsc. ring. Qed.

  (* ---- per-action values *)
  Definition Qlev (n : nat) (t : vec) (a : nat) : Q :=
    match n with
    | O => c * mass m t
    | Datatypes.S n' => rew_at m t a + g * qsum (map (fun o => W m c n' (tau_step m t a o)) (seq 0 (nO m)))
    end.

  Lemma W_max_Qlev : forall n t, W m c n t == maxl (map (Qlev n t) (seq 0 A)).
  Proof.
    intros [|n] t.
    - unfold W. cbn [EV Qlev]. rewrite pw_0. symmetry.
      pose proof (HA m Hwf1) as HAp. fold A in HAp.
      apply maxl_char; [apply (mapA_ne m Hwf)| |].
      + intros y Hy. apply in_map_iff in Hy. destruct Hy as [a [<- _]]. cbn [Qlev]. apply Qle_lteq. right. ring.
      + exists (c * mass m t). split; [| ring]. apply (in_map (fun _ => c * mass m t) (seq 0 A) 0%nat). apply in_seq. unfold A in *. lia.
    - rewrite (W_succ m Hwf). reflexivity.
  Qed.

  Lemma Qlev_ext : forall n t t' a, veq t t' -> Qlev n t a == Qlev n t' a.
  Proof.
    intros [|n] t t' a H; cbn [Qlev].
    - rewrite (mass_veq t t' H). reflexivity.
    - rewrite (rew_at_ext m t t' a H). apply Qplus_comp; [reflexivity|]. apply Qmult_comp; [reflexivity|].
      apply qsum_map_ext. intros o _. apply W_ext. apply tau_step_ext; exact H.
  Qed.

  Lemma Qlev_subadd : forall n t1 t2 a, length t1 = S -> length t2 = S ->
    Qlev n (vadd t1 t2) a <= Qlev n t1 a + Qlev n t2 a.
  Proof.
    intros [|n] t1 t2 a L1 L2; cbn [Qlev].
    - rewrite mass_vadd by congruence. lra.
    - pose proof (Hg m Hwf) as [G0 G1]. fold g in G0, G1. rewrite rew_at_add by congruence.
      assert (H : qsum (map (fun o => W m c n (tau_step m (vadd t1 t2) a o)) (seq 0 (nO m))) <=
                  qsum (map (fun o => W m c n (tau_step m t1 a o)) (seq 0 (nO m))) +
                  qsum (map (fun o => W m c n (tau_step m t2 a o)) (seq 0 (nO m)))).
      { rewrite <- qsum_map_add. apply qsum_map_le. intros o _.
        rewrite (W_ext n _ _ (tau_step_add m t1 t2 a o ltac:(congruence))).
        apply W_subadd; apply tau_step_length. }
      nra.
  Qed.

  Lemma Qlev_scale : forall n k t a, 0 <= k -> Qlev n (vsc k t) a == k * Qlev n t a.
  Proof.
    intros [|n] k t a Hk; cbn [Qlev].
    - rewrite mass_vsc. ring.
    - rewrite rew_at_scale.
      transitivity (k * rew_at m t a + g * (k * qsum (map (fun o => W m c n (tau_step m t a o)) (seq 0 (nO m))))); [| ring].
      apply Qplus_comp; [reflexivity|]. apply Qmult_comp; [reflexivity|].
      rewrite <- qsum_map_mul_l. apply qsum_map_ext. intros o _.
      rewrite (W_ext n _ _ (tau_step_scale m k t a o)). apply W_scale; exact Hk.
  Qed.

  (* ---- entries: the table dominates every per-action value linearly; points dominate W *)
  Definition tdot (t : vec) (q : mat) (a : nat) : Q := qsum (map (fun s => nthq t s * qget q s a) (seq 0 S)).
  Definition qdom (q : mat) : Prop :=
    forall n t a, nonneg t -> length t = S -> (a < A)%nat -> Qlev n t a <= tdot t q a.
  Definition point_sound (p : vec * Q) : Prop :=
    nonneg (fst p) /\ length (fst p) = S /\ forall n, W m c n (fst p) <= snd p.
  Definition state_sound (st : ubstate) : Prop := qdom (fst st) /\ Forall point_sound (snd st).
  Definition surface_sound (U : vec -> Q) : Prop :=
    forall n t, nonneg t -> length t = S -> W m c n t <= U t.

  Lemma qdom_ubdom : forall q, qdom q -> ubdom m c q.
  Proof.
    intros q H n t Hn Hl. rewrite W_max_Qlev. unfold lin_surface. fold S A.
    apply maxl_le; [apply (mapA_ne m Hwf)|]. intros y Hy. apply in_map_iff in Hy. destruct Hy as [a [<- Ha]].
    eapply Qle_trans; [apply (H n t a Hn Hl); apply in_seq in Ha; unfold A; lia|].
    apply maxl_ub. apply (in_map (fun a => qsum (map (fun s => nthq t s * qget q s a) (seq 0 S)))). exact Ha.
  Qed.

  (* ---- a super-solution of the FIB operator satisfies the per-action dominance *)
  Lemma supersol_qdom : forall q, tail_lo m c -> tge_c m c q -> tle m (fib_op m q) q -> qdom q.
  Proof.
    intros q Hc Hge Hsup n t a Hn Ht Ha. pose proof (Hg m Hwf) as [G0 G1]. fold g in G0, G1.
    pose proof (supersol_dom m Hwf c q Hc Hge Hsup) as Hdom. unfold tdot.
    destruct n as [|n]; cbn [Qlev].
    - unfold mass. fold S. rewrite <- qsum_map_mul_l. apply qsum_map_le. intros s Hs. apply in_seq in Hs.
      pose proof (nonneg_nthq t s Hn). pose proof (Hge s a ltac:(unfold S in *; lia) Ha). nra.
    - apply Qle_trans with (y := qsum (map (fun s => nthq t s * qget (fib_op m q) s a) (seq 0 S))).
      + apply Qle_trans with (y := rew_at m t a + g * qsum (map (fun o => qsum (map (fun s => nthq t s * fib_inner m q s a o) (seq 0 S))) (seq 0 (nO m)))).
        * apply Qplus_le_r. apply Qmult_le_l; [exact G0|]. apply qsum_map_le. intros o _.
          eapply Qle_trans; [apply Hdom; [apply (tau_step_nonneg m Hwf1); [exact Hn| exact Ha]| apply tau_step_length]|].
          apply (lin_surface_tau_le m Hwf); [exact Hn| exact Ht| exact Ha].
        * rewrite qsum_swap.
          assert (E : qsum (map (fun s => nthq t s * qget (fib_op m q) s a) (seq 0 S)) ==
                      rew_at m t a + g * qsum (map (fun s => qsum (map (fun o => nthq t s * fib_inner m q s a o) (seq 0 (nO m)))) (seq 0 S))).
          { transitivity (qsum (map (fun s => nthq t s * Rw m s a + g * qsum (map (fun o => nthq t s * fib_inner m q s a o) (seq 0 (nO m)))) (seq 0 S))).
            - apply qsum_map_ext. intros s Hs. apply in_seq in Hs.
              rewrite (qget_fib_op m) by (unfold S, A in *; lia). rewrite qsum_map_mul_l. fold g.
              change (qsum (map (fun o : nat => fib_inner m q s a o) (seq 0 (nO m)))) with (qsum (map (fib_inner m q s a) (seq 0 (nO m)))). ring.
            - rewrite qsum_map_add. rewrite qsum_map_mul_l. unfold rew_at, Rw. fold S. reflexivity. }
          rewrite E. lra.
      + apply qsum_map_le. intros s Hs. apply in_seq in Hs.
        pose proof (nonneg_nthq t s Hn). pose proof (Hsup s a ltac:(unfold S in *; lia) Ha). nra.
  Qed.

  (* ---- corner planes: W n r <= r . cv *)
  Lemma mdot_corner_ub : forall q r, qdom q -> nonneg r -> length r = S ->
    forall n, W m c n r <= mdot m r (corner_vals m q).
  Proof.
    intros q r Hq Hn Hl n. eapply Qle_trans; [apply (qdom_ubdom q Hq n r Hn Hl)|].
    unfold lin_surface, mdot. fold S A. apply maxl_le; [apply (mapA_ne m Hwf)|].
    intros y Hy. apply in_map_iff in Hy. destruct Hy as [a [<- Ha]].
    apply qsum_map_le. intros s Hs. apply in_seq in Hs.
    assert (E : nthq (corner_vals m q) s == maxl (map (fun a => qget q s a) (seq 0 A))).
    { unfold corner_vals. fold S A. apply nthq_map_seq. lia. }
    rewrite E. pose proof (nonneg_nthq r s Hn).
    pose proof (maxl_ub (map (fun a => qget q s a) (seq 0 A)) _ (in_map (fun a => qget q s a) _ a Ha)). nra.
  Qed.

  (* ---- one tooth, for any feasible coefficient *)
  Lemma tooth_bound : forall q t b v k, qdom q -> nonneg t -> length t = S -> point_sound (b, v) ->
    0 <= k -> (forall s, (s < S)%nat -> k * nthq b s <= nthq t s) ->
    forall n, W m c n t <= mdot m t (corner_vals m q) + k * (v - mdot m b (corner_vals m q)).
  Proof.
    intros q t b v k Hq Hn Hl [Hbn [Hbl Hbv]] Hk Hfe n. cbn [fst snd] in *.
    set (cv := corner_vals m q).
    set (r := map (fun s => nthq t s - k * nthq b s) (seq 0 S)).
    assert (Lr : length r = S) by (unfold r; rewrite map_length, seq_length; reflexivity).
    assert (Nr : nonneg r).
    { unfold r. apply nonneg_map_seq. intros s Hs. pose proof (Hfe s Hs). lra. }
    assert (Lk : length (vsc k b) = S) by (rewrite vsc_length; exact Hbl).
    assert (E : veq t (vadd (vsc k b) r)).
    { apply (veq_pointwise _ _ S); [exact Hl| rewrite vadd_length by congruence; exact Lk|].
      intros s Hs. rewrite nthq_vadd' by congruence. rewrite nthq_vsc. unfold r. rewrite nthq_map_seq by exact Hs. ring. }
    rewrite (W_ext n _ _ E).
    eapply Qle_trans; [apply W_subadd; assumption|]. rewrite W_scale by exact Hk.
    pose proof (Hbv n) as H1. pose proof (mdot_corner_ub q r Hq Nr Lr n) as H2. fold cv in H2.
    assert (E2 : mdot m r cv == mdot m t cv - k * mdot m b cv).
    { unfold mdot. fold S. rewrite <- qsum_map_mul_l.
      transitivity (qsum (map (fun s => nthq t s * nthq cv s + (- (k * (nthq b s * nthq cv s)))) (seq 0 S))).
      - apply qsum_map_ext. intros s Hs. apply in_seq in Hs. unfold r. rewrite nthq_map_seq by lia. ring.
      - rewrite qsum_map_add.
        assert (E3 : qsum (map (fun s => - (k * (nthq b s * nthq cv s))) (seq 0 S)) == - qsum (map (fun s => k * (nthq b s * nthq cv s)) (seq 0 S))).
        { transitivity (qsum (map (fun s => (-1) * (k * (nthq b s * nthq cv s))) (seq 0 S))).
          - apply qsum_map_ext. intros; ring.
          - rewrite qsum_map_mul_l. ring. }
        rewrite E3. ring. }
    nra.
  Qed.

  (* ---- the ratio used by the spec surface is a feasible coefficient *)
  Lemma ratio_feasible : forall t b, nonneg t -> nonneg b ->
    0 <= ratio m t b /\ forall s, (s < S)%nat -> ratio m t b * nthq b s <= nthq t s.
  Proof.
    intros t b Ht Hb. unfold ratio. fold S.
    destruct (filter (fun s => negb (Qle_bool (nthq b s) 0)) (seq 0 S)) as [|s0 rest] eqn:Ef.
    - split; [lra|]. intros s Hs. pose proof (nonneg_nthq t s Ht). lra.
    - assert (Hsup : forall s, In s (s0 :: rest) <-> ((s < S)%nat /\ 0 < nthq b s)).
      { intros s. rewrite <- Ef. rewrite filter_In, in_seq. split.
        - intros [H1 H2]. split; [lia|]. apply negb_true_iff in H2.
          destruct (Qlt_le_dec 0 (nthq b s)) as [H|H]; [exact H|]. apply Qle_bool_iff in H. congruence.
        - intros [H1 H2]. split; [lia|]. apply negb_true_iff. destruct (Qle_bool (nthq b s) 0) eqn:E; [| reflexivity].
          apply Qle_bool_iff in E. lra. }
      set (f := fun s => nthq t s / nthq b s).
      assert (Hf : forall s, In s (s0 :: rest) -> 0 <= f s).
      { intros s Hs. apply Hsup in Hs. destruct Hs as [_ Hp]. unfold f. apply Qle_shift_div_l; [exact Hp|].
        pose proof (nonneg_nthq t s Ht). lra. }
      change (minl_from (nthq t s0 / nthq b s0) (map (fun s => nthq t s / nthq b s) rest)) with (fold_left Qmin (map f rest) (f s0)).
      split.
      + apply fold_min_ge; [apply Hf; left; reflexivity|]. intros y Hy. apply in_map_iff in Hy.
        destruct Hy as [s [<- Hs]]. apply Hf. right; exact Hs.
      + intros s Hs. destruct (Qlt_le_dec 0 (nthq b s)) as [Hp|Hz].
        * assert (Hin : In s (s0 :: rest)) by (apply Hsup; split; assumption).
          assert (Hle : fold_left Qmin (map f rest) (f s0) <= f s).
          { destruct Hin as [->|Hin]; [apply fold_min_le_init| apply fold_min_le_in; apply in_map; exact Hin]. }
          assert (E : f s * nthq b s == nthq t s) by (unfold f; field; lra).
          rewrite <- E. apply Qmult_le_compat_r; [exact Hle| lra].
        * pose proof (nonneg_nthq b s Hb). pose proof (nonneg_nthq t s Ht).
          assert (E : nthq b s == 0) by lra. rewrite E. lra.
  Qed.

  (* ---- surface_of_sound_entries *)
  Theorem usurf_sound : forall st, state_sound st -> surface_sound (usurf m st).
  Proof.
    intros [q pts] [Hq Hp] n t Hn Hl. cbn [fst snd] in *. unfold usurf. cbn [fst snd]. unfold minl_from.
    apply fold_min_ge.
    - apply (qdom_ubdom q Hq); assumption.
    - intros y Hy. apply in_map_iff in Hy. destruct Hy as [[b v] [<- Hin]].
      rewrite Forall_forall in Hp. pose proof (Hp _ Hin) as Hs. unfold tooth. cbn [fst snd].
      destruct (ratio_feasible t b Hn (proj1 Hs)) as [Hk Hfe].
      apply (tooth_bound q t b v (ratio m t b) Hq Hn Hl Hs Hk Hfe).
  Qed.

  (* ---- one-step look-ahead over a sound surface bounds every per-action level *)
  Hypothesis Hc : tail_lo m c.

  Lemma Qlev_backup_bound : forall (U : vec -> Q) t a, surface_sound U -> nonneg t -> length t = S -> (a < A)%nat ->
    forall n, Qlev n t a <= rew_at m t a + g * qsum (map (fun o => U (tau_step m t a o)) (seq 0 (nO m))).
  Proof.
    intros U t a HU Hn Hl Ha n. pose proof (Hg m Hwf) as [G0 G1]. fold g in G0, G1.
    assert (Hfut : forall k, qsum (map (fun o => W m c k (tau_step m t a o)) (seq 0 (nO m))) <=
                             qsum (map (fun o => U (tau_step m t a o)) (seq 0 (nO m)))).
    { intros k. apply qsum_map_le. intros o _. apply HU; [apply (tau_step_nonneg m Hwf1); assumption| apply tau_step_length]. }
    destruct n as [|n]; cbn [Qlev].
    - pose proof (Hfut 0%nat) as H0.
      assert (E : qsum (map (fun o => W m c 0 (tau_step m t a o)) (seq 0 (nO m))) == c * mass m t).
      { rewrite <- (mass_conservation m Hwf1 t a Ha). rewrite <- qsum_map_mul_l. apply qsum_map_ext.
        intros o _. unfold W. cbn [EV]. rewrite pw_0. ring. }
      assert (Hr : (c - g * c) * mass m t <= rew_at m t a).
      { apply (rew_at_ge_c m (c - g * c) t a Hn Ha). intros s Hs. pose proof (Hc s a Hs Ha) as H. fold g in H. lra. }
      nra.
    - pose proof (Hfut n). nra.
  Qed.

  (* ---- a corner write keeps the per-action dominance *)
  Lemma qget_mset : forall q s0 a0 v s a, (s < S)%nat -> (a < A)%nat ->
    qget (mset m q s0 a0 v) s a == if ((s =? s0) && (a =? a0))%nat%bool then v else qget q s a.
  Proof. intros. unfold mset. fold S A. apply (qget_mtab S A); assumption. Qed.

  Lemma unit_vec_props : forall s0, (s0 < S)%nat ->
    nonneg (unit_vec S s0) /\ length (unit_vec S s0) = S /\
    forall s, (s < S)%nat -> nthq (unit_vec S s0) s == if (s =? s0)%nat then 1 else 0.
  Proof.
    intros s0 Hs0. split; [| split].
    - unfold unit_vec. apply nonneg_map_seq. intros i _. destruct (i =? s0)%nat; lra.
    - unfold unit_vec. rewrite map_length, seq_length. reflexivity.
    - intros s Hs. unfold unit_vec. apply nthq_map_seq. exact Hs.
  Qed.

  Lemma corner_write_qdom : forall q s0 a0 v, qdom q -> (s0 < S)%nat -> (a0 < A)%nat ->
    (forall n, Qlev n (unit_vec S s0) a0 <= v) -> qdom (mset m q s0 a0 v).
  Proof.
    intros q s0 a0 v Hq Hs0 Ha0 Hv n t a Hn Hl Ha. unfold tdot.
    destruct (Nat.eq_dec a a0) as [->|Hne].
    - destruct (unit_vec_props s0 Hs0) as [Ne [Le He]].
      set (e := unit_vec S s0). fold e in Ne, Le, He.
      set (x := nthq t s0).
      set (t' := map (fun s => if (s =? s0)%nat then 0 else nthq t s) (seq 0 S)).
      assert (Hx : 0 <= x) by (apply nonneg_nthq; exact Hn).
      assert (Lt' : length t' = S) by (unfold t'; rewrite map_length, seq_length; reflexivity).
      assert (Nt' : nonneg t').
      { unfold t'. apply nonneg_map_seq. intros s _. destruct (s =? s0)%nat; [lra| apply nonneg_nthq; exact Hn]. }
      assert (Lx : length (vsc x e) = S) by (rewrite vsc_length; exact Le).
      assert (E : veq t (vadd (vsc x e) t')).
      { apply (veq_pointwise _ _ S); [exact Hl| rewrite vadd_length by congruence; exact Lx|].
        intros s Hs. rewrite nthq_vadd' by congruence. rewrite nthq_vsc, (He s Hs). unfold t'. rewrite nthq_map_seq by exact Hs.
        destruct (s =? s0)%nat eqn:Es; [apply Nat.eqb_eq in Es; subst; unfold x; ring| ring]. }
      rewrite (Qlev_ext n _ _ a0 E).
      eapply Qle_trans; [apply Qlev_subadd; assumption|]. rewrite Qlev_scale by exact Hx.
      pose proof (Hv n) as H1. fold e in H1. pose proof (Hq n t' a0 Nt' Lt' Ha0) as H2. unfold tdot in H2.
      (* split the new row sum at s0 *)
      assert (E1 : qsum (map (fun s => nthq t s * qget (mset m q s0 a0 v) s a0) (seq 0 S)) ==
                   qsum (map (fun s => (if (s =? s0)%nat then x * v else 0) + nthq t' s * qget q s a0) (seq 0 S))).
      { apply qsum_map_ext. intros s Hs. apply in_seq in Hs. rewrite qget_mset by (lia || exact Ha0).
        unfold t'. rewrite nthq_map_seq by lia. rewrite Nat.eqb_refl, andb_true_r.
        destruct (s =? s0)%nat eqn:Es; [apply Nat.eqb_eq in Es; subst; unfold x; ring| ring]. }
      rewrite E1, qsum_map_add, qsum_indicator.
      replace ((0 <=? s0) && (s0 <? 0 + S))%nat%bool with true
        by (symmetry; apply andb_true_iff; split; [apply Nat.leb_le; lia| apply Nat.ltb_lt; lia]).
      nra.
    - eapply Qle_trans; [apply (Hq n t a Hn Hl Ha)|]. unfold tdot. apply Qle_lteq. right.
      apply qsum_map_ext. intros s Hs. apply in_seq in Hs. rewrite qget_mset by (lia || exact Ha).
      replace (a =? a0)%nat with false by (symmetry; apply Nat.eqb_neq; exact Hne). rewrite andb_false_r. reflexivity.
  Qed.
End Saw.
